import RV.C20.TextWrite
/-
  C20 text layer, lemmas 8: the SELECT / ASK text of `SPARQLStore.triples` (without LIMIT / OFFSET /
  ORDER BY), the texts of `__len__` and `contexts`, read back as the query they stand for.
-/
namespace RV.C20

def varNames (p : TPatT) : List Str :=
  nodeVar (nodeOf false .s p.1) ++ nodeVar (nodeOf false .p p.2.1) ++ nodeVar (nodeOf false .o p.2.2)

def shapeOf (p : TPatT) : TPat := (p.1.map (fun _ => 0), p.2.1.map (fun _ => 0), p.2.2.map (fun _ => 0))

theorem varNames_eq (p : TPatT) : varNames p = (selVars (shapeOf p)).map (fun pos => [posName false pos]) := by
  obtain ⟨a, b, c⟩ := p
  cases a <;> cases b <;> cases c <;> simp [varNames, shapeOf, selVars, nodeOf, nodeVar, posName]

theorem patVarsOK_nodes (p : TPatT) :
    patVarsOK (nodeOf false .s p.1) (nodeOf false .p p.2.1) (nodeOf false .o p.2.2) = true := by
  obtain ⟨a, b, c⟩ := p
  cases a <;> cases b <;> cases c <;> simp [patVarsOK, nodeOf, posName]

theorem nodePat_nodes (p : TPatT) :
    (nodePat (nodeOf false .s p.1), nodePat (nodeOf false .p p.2.1), nodePat (nodeOf false .o p.2.2)) = p := by
  obtain ⟨a, b, c⟩ := p
  cases a <;> cases b <;> cases c <;> simp [nodePat, nodeOf]

/-- the pattern of a query, followed by a blank -/
theorem readQPat_write (p : TPatT) (body tail : Str) (hw : wPatBody posVarLower p = some body)
    (hok : PatOK p = true) :
    readQPat (' ' :: (body ++ ' ' :: tail)) = some (p, varNames p, ' ' :: tail) := by
  rw [← posVar_false] at hw
  obtain ⟨r1, r2, h1, h2, h3⟩ := readNodes_wPatBody false p body tail hw hok
  simp only [readQPat, readNode_sp, h1, h2, h3, patVarsOK_nodes, if_true, nodePat_nodes, varNames]

theorem readVars_written : ∀ (ps : List Pos) (n : Nat) (r : Str), ps.length ≤ n →
    readVarsAux n (ps.flatMap (fun pos => ' ' :: posVarLower pos) ++ ' ' :: ' ' :: '{' :: r) =
      (ps.map (fun pos => [posName false pos]), ' ' :: ' ' :: '{' :: r)
  | [], n, r, _ => by
    cases n with
    | zero => rfl
    | succ n => simp [readVarsAux, ws_sp, ws_cons '{' r (by decide) (by decide)]
  | pos :: ps, n, r, h => by
    obtain ⟨m, rfl⟩ : ∃ m, n = m + 1 := ⟨n - 1, by simp at h; omega⟩
    have ih := readVars_written ps m r (by simp at h; omega)
    have hv : posVarLower pos = ['?', posName false pos] := by cases pos <;> rfl
    have hn := posName_nameChar false pos
    simp only [List.flatMap_cons, hv, List.cons_append, List.nil_append, List.append_assoc]
    cases ps with
    | nil =>
      simp only [List.flatMap_nil, List.nil_append, List.map_nil] at ih ⊢
      simp [readVarsAux, ws_sp, ws_qm, spanName, hn, nameChar_sp, ih]
    | cons p2 ps2 =>
      simp only [List.flatMap_cons, List.cons_append, List.append_assoc] at ih ⊢
      simp [readVarsAux, ws_sp, ws_qm, spanName, hn, nameChar_sp, ih]

theorem sp_joinWith (vs : List Str) (h : vs ≠ []) : ' ' :: joinWith [' '] vs = vs.flatMap (fun v => ' ' :: v) := by
  induction vs with
  | nil => exact absurd rfl h
  | cons v vs ih =>
    cases vs with
    | nil => simp [joinWith]
    | cons v2 vs2 =>
      have := ih (by simp)
      simp only [joinWith, List.flatMap_cons] at this ⊢
      rw [← this]; simp

theorem kw_nil (k : String) (k0 : Char) (ks : Str) (hk : k.toList = k0 :: ks) : kw k [] = none := by
  simp [kw, ws, skip, hk, stripCI]

theorem readModifiersR_nil : readModifiersR [] = some ((none, none, none), []) := by
  simp [readModifiersR, kw_nil "ORDER" 'O' "RDER".toList (by decide), kw_nil "LIMIT" 'L' "IMIT".toList (by decide),
    kw_nil "OFFSET" 'O' "FFSET".toList (by decide)]

theorem readModifiers_nil : readModifiers [] = some (none, none, none) := by
  simp [readModifiers, readModifiersR_nil, ws, skip]

theorem kw_SELECT (r : Str) : kw "SELECT" ('S' :: 'E' :: 'L' :: 'E' :: 'C' :: 'T' :: ' ' :: r) = some (' ' :: r) := by
  simp [kw, stripCI, ws, skip, isWs, upperChar, isNameChar, isAlpha, isDigit]
theorem kw_ASK (r : Str) : kw "ASK" ('A' :: 'S' :: 'K' :: ' ' :: r) = some (' ' :: r) := by
  simp [kw, stripCI, ws, skip, isWs, upperChar, isNameChar, isAlpha, isDigit]

theorem lenQueryText_head : ∃ r, lenQueryText = 'S' :: 'E' :: 'L' :: 'E' :: 'C' :: 'T' :: ' ' :: '(' :: r :=
  ⟨"count(*) as ?c) WHERE {?s ?p ?o .}".toList, by decide⟩

/-- the query of `SPARQLStore.triples` / `__contains__` reads back as its pattern -/
theorem readQuery_triples (p : TPatT) (txt : Str) (hok : PatOK p = true)
    (h : wTriplesQuery p none none none = some txt) : readQuery txt = some (.triples p none none none) := by
  simp only [wTriplesQuery] at h
  cases hb : wPatBody posVarLower p with
  | none => simp [hb] at h
  | some body =>
    simp only [hb, Option.some.injEq] at h
    have hq := readQPat_write p body ['}'] hb hok
    by_cases hv : selVars (shapeOf p) = []
    · -- ASK
      have hvn : varNames p = [] := by rw [varNames_eq, hv]; rfl
      have e : txt = 'A' :: 'S' :: 'K' :: ' ' :: '{' :: ' ' :: (body ++ [' ', '}']) := by
        rw [← h]; simp [shapeOf] at hv; simp [shapeOf, hv]
      rw [e]
      have hne : ('A' :: 'S' :: 'K' :: ' ' :: '{' :: ' ' :: (body ++ [' ', '}']) : Str) ≠ lenQueryText := by
        intro e2
        obtain ⟨r, hr⟩ := lenQueryText_head
        rw [hr] at e2; injection e2 with e3 _; exact absurd e3 (by decide)
      have hod : optDot [' ', '}'] = [' ', '}'] := by
        simp [optDot, sym, ws_sp, ws_cons '}' [] (by decide) (by decide)]
      simp only [readQuery, hne, if_false, kw_ASK, sym_here '{' _ (by decide) (by decide), Option.bind_some, hq, hvn,
        if_true, hod, sym_sp, sym_here '}' _ (by decide) (by decide), readModifiers_nil, Option.map_some]
    · -- SELECT
      have hvn : varNames p = (selVars (shapeOf p)).map (fun pos => [posName false pos]) := varNames_eq p
      have hne0 : (selVars (shapeOf p)).map posVarLower ≠ [] := by simpa using hv
      have e : txt = 'S' :: 'E' :: 'L' :: 'E' :: 'C' :: 'T' ::
          ((selVars (shapeOf p)).flatMap (fun pos => ' ' :: posVarLower pos) ++ ' ' :: ' ' :: '{' :: ' ' :: (body ++ [' ', '}'])) := by
        rw [← h]
        have hemp : ((selVars (shapeOf p)).map posVarLower).isEmpty = false := by
          cases hs : (selVars (shapeOf p)).map posVarLower with
          | nil => exact absurd hs hne0
          | cons _ _ => rfl
        have := sp_joinWith _ hne0
        simp only [List.flatMap_map] at this
        simp only [shapeOf] at hemp this ⊢
        simp [hemp, ← this]
      rw [e]
      have hne : ('S' :: 'E' :: 'L' :: 'E' :: 'C' :: 'T' ::
          ((selVars (shapeOf p)).flatMap (fun pos => ' ' :: posVarLower pos) ++ ' ' :: ' ' :: '{' :: ' ' :: (body ++ [' ', '}'])) : Str) ≠
          lenQueryText := by
        intro e2
        cases hs : selVars (shapeOf p) with
        | nil => exact hv hs
        | cons pos ps =>
          rw [hs] at e2
          have hv' : posVarLower pos = ['?', posName false pos] := by cases pos <;> rfl
          simp only [List.flatMap_cons, hv', List.cons_append] at e2
          obtain ⟨r, hr⟩ := lenQueryText_head
          rw [hr] at e2
          simp at e2
      have hkA : ∀ r, kw "ASK" ('S' :: r) = none := fun r =>
        kw_none_head "ASK" 'A' "SK".toList (by decide) 'S' r (by decide) (by decide) (by decide)
      have hlen : (selVars (shapeOf p)).length ≤ 4 := by
        obtain ⟨a, b, c⟩ := p
        cases a <;> cases b <;> cases c <;> simp [shapeOf, selVars]
      have hrv := readVars_written (selVars (shapeOf p)) 4 (' ' :: (body ++ [' ', '}'])) hlen
      have hod : optDot [' ', '}'] = [' ', '}'] := by
        simp [optDot, sym, ws_sp, ws_cons '}' [] (by decide) (by decide)]
      have hname : (selVars (shapeOf p)).map (fun pos => [posName false pos]) ≠ [['n', 'a', 'm', 'e']] := by
        intro e3
        cases hs : selVars (shapeOf p) with
        | nil => exact hv hs
        | cons pos ps => rw [hs] at e3; cases pos <;> simp [posName] at e3
      have hq' := readQPat_write p body ['}'] hb hok
      have hkw : kw "SELECT" ('S' :: 'E' :: 'L' :: 'E' :: 'C' :: 'T' ::
          ((selVars (shapeOf p)).flatMap (fun pos => ' ' :: posVarLower pos) ++ ' ' :: ' ' :: '{' :: ' ' :: (body ++ [' ', '}']))) =
          some ((selVars (shapeOf p)).flatMap (fun pos => ' ' :: posVarLower pos) ++ ' ' :: ' ' :: '{' :: ' ' :: (body ++ [' ', '}'])) := by
        cases hs : selVars (shapeOf p) with
        | nil => exact absurd hs hv
        | cons pos ps =>
          simp only [List.flatMap_cons, List.cons_append]
          exact kw_SELECT _
      simp only [readQuery, hne, if_false, hkA, hkw, hrv, hname, sym_sp, sym_here '{' _ (by decide) (by decide),
        Option.bind_some, hq', hvn, hod, sym_here '}' _ (by decide) (by decide), readModifiers_nil, Option.map_some]
      simp [hv]
      exact fun x hx => ⟨x, hx, rfl⟩

theorem readQuery_len : readQuery lenQueryText = some .len := by simp [readQuery]

theorem kw_spWHERE' (r : Str) : kw "WHERE" (' ' :: 'W' :: 'H' :: 'E' :: 'R' :: 'E' :: ' ' :: r) = some (' ' :: r) :=
  kw_spWHERE r

theorem readQuery_contexts_all : readQuery "SELECT ?name WHERE { GRAPH ?name {} }".toList = some (.contexts none) := by
  decide

/-- `contexts(triple)`: `SELECT ?name WHERE { GRAPH ?name { s p o }}` -/
theorem readQuery_contexts (p : TPatT) (txt : Str) (hok : PatOK p = true) (h : wContexts (some p) = some txt) :
    readQuery txt = some (.contexts (some p)) := by
  simp only [wContexts, Option.map_eq_some_iff] at h
  obtain ⟨body, hb, rfl⟩ := h
  have hq := readQPat_write p body ['}', '}'] hb hok
  rw [← posVar_false] at hb
  obtain ⟨c0, r0, hh, hs⟩ := wPatBody_head false p body hb
  obtain ⟨_, _, _, _, _, hcb, _⟩ := nodeStart_facts hs
  have e : "SELECT ?name WHERE { GRAPH ?name { ".toList ++ body ++ " }}".toList =
      'S' :: 'E' :: 'L' :: 'E' :: 'C' :: 'T' :: ' ' :: '?' :: 'n' :: 'a' :: 'm' :: 'e' :: ' ' :: 'W' :: 'H' :: 'E' :: 'R' :: 'E' ::
        ' ' :: '{' :: ' ' :: 'G' :: 'R' :: 'A' :: 'P' :: 'H' :: ' ' :: '?' :: 'n' :: 'a' :: 'm' :: 'e' :: ' ' :: '{' :: ' ' ::
        (body ++ [' ', '}', '}']) := by simp
  rw [e]
  have hne : ('S' :: 'E' :: 'L' :: 'E' :: 'C' :: 'T' :: ' ' :: '?' :: 'n' :: 'a' :: 'm' :: 'e' :: ' ' :: 'W' :: 'H' :: 'E' :: 'R' :: 'E' ::
        ' ' :: '{' :: ' ' :: 'G' :: 'R' :: 'A' :: 'P' :: 'H' :: ' ' :: '?' :: 'n' :: 'a' :: 'm' :: 'e' :: ' ' :: '{' :: ' ' ::
        (body ++ [' ', '}', '}']) : Str) ≠ lenQueryText := by
    intro e2
    obtain ⟨r, hr⟩ := lenQueryText_head
    rw [hr] at e2
    simp at e2
  have hkA : ∀ r, kw "ASK" ('S' :: r) = none := fun r =>
    kw_none_head "ASK" 'A' "SK".toList (by decide) 'S' r (by decide) (by decide) (by decide)
  have hrv1 : ∀ r, readVarsAux 4 (' ' :: '?' :: 'n' :: 'a' :: 'm' :: 'e' :: ' ' :: 'W' :: r) =
      ([['n', 'a', 'm', 'e']], ' ' :: 'W' :: r) := by
    intro r
    simp [readVarsAux, ws, skip, isWs, spanName, isNameChar, isAlpha, isDigit]
  have hrv2 : ∀ r, readVarsAux 1 (' ' :: '?' :: 'n' :: 'a' :: 'm' :: 'e' :: ' ' :: '{' :: r) =
      ([['n', 'a', 'm', 'e']], ' ' :: '{' :: r) := by
    intro r
    simp [readVarsAux, ws, skip, isWs, spanName, isNameChar, isAlpha, isDigit]
  have hsym : sym '}' (' ' :: (body ++ [' ', '}', '}'])) = none := by
    rw [sym_sp, hh]
    obtain ⟨h1, h2, _⟩ := nodeStart_facts hs
    simp [sym, ws_cons c0 _ h1 h2, hcb]
  have hod : optDot [' ', '}', '}'] = [' ', '}', '}'] := by
    simp [optDot, sym, ws_sp, ws_cons '}' ['}'] (by decide) (by decide)]
  simp only [readQuery, hne, if_false, hkA, kw_SELECT, hrv1, if_true, kw_spWHERE, sym_sp,
    sym_here '{' _ (by decide) (by decide), Option.bind_some, kw_GRAPH, hrv2, hsym, hq, hod,
    sym_here '}' _ (by decide) (by decide)]
  simp [ws, skip]

end RV.C20
