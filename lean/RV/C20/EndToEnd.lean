import RV.C20.TextProps
import RV.C20.ConnProps
import RV.C20.ResultProps
/-
  C20 — the layers composed: API call → request text (Text.lean) → HTTP request (Conn.lean) → what a SPARQL 1.1
  Protocol server reads → what the text means (the reader of Text.lean).  Pure compositions of the theorems of
  TextProps / ConnProps; stated once so that the chain has no gap between the layers.
-/
namespace RV.C20

/-- WRITE PATH.  After any sequence of (textual) write calls, the request `commit()` hands to `urlopen` is read by the
    server as an UPDATE, posted directly to the UPDATE endpoint, whose text means exactly the queue of the state machine:
    every operation of every call, in call order, with multiplicity — for every connector configuration (method, caller
    params / headers). -/
def Statement_commit_reaches_endpoint_as_operations : Prop :=
  ∀ (V : Vocab) (ns : List (Str × Str)) (hook : Bool) (ws : List Write) (c : Conn),
    VocabOK V ns → (∀ w ∈ ws, w.textual = true) → ConnOK c → c.updateEndpoint ≠ [] →
    ∃ txts, queueTexts V ns hook ws = some txts ∧
      (txts ≠ [] → ∃ r p, c.update (joinEdits txts) none none = .ok r ∧ serverRead r = some p ∧
        p.kind = .update ∧ p.via = .direct ∧ p.path = c.updateEndpoint ∧
        readRequest p.text = some ((ws.flatMap (queuedBy hook)).flatten.map (UOp.toText V)))

theorem commit_reaches_endpoint_as_operations : Statement_commit_reaches_endpoint_as_operations := by
  intro V ns hook ws c hV hw ok hne
  obtain ⟨txts, h1, _, h3⟩ := commit_text_is_sequence V ns hook ws hV hw
  refine ⟨txts, h1, fun hn => ?_⟩
  obtain ⟨r, hr, hs⟩ := request_assembly_means_op.2.1 c (joinEdits txts) none none ok hne
  exact ⟨r, _, hr, hs, rfl, rfl, rfl, h3 hn⟩

/-- READ PATH.  The request `triples(pattern, context)` hands to `urlopen` is read by the server as a QUERY on the QUERY
    endpoint whose text means exactly that pattern, and it names the graph (`default-graph-uri`) exactly when
    `_is_contextual` says so — for every method, caller params / headers, `context_aware` setting and graph argument.
    (What comes back is `answer_comes_back`.) -/
def Statement_pattern_read_reaches_endpoint : Prop :=
  ∀ (c : Conn) (ca : Bool) (a : CtxArg) (p : TPatT) (txt : Str), ConnOK c → c.queryEndpoint ≠ [] → PatOK p = true →
    wTriplesQuery p none none none = some txt →
    ∃ r pr, c.query txt (storeDG ca a) = .ok r ∧ serverRead r = some pr ∧
      pr.kind = .query ∧ pr.via = viaOf c.method ∧ pr.path = c.queryEndpoint ∧
      readQuery pr.text = some (.triples p none none none) ∧
      (isContextual ca a = true → dget pr.params sDefaultGraphUri = a.ident) ∧
      (isContextual ca a = false → pr.params = queryParams c .none)

theorem pattern_read_reaches_endpoint : Statement_pattern_read_reaches_endpoint := by
  intro c ca a p txt ok hne hp hw
  obtain ⟨r, pr, h1, h2, h3, h4, h5, h6⟩ := context_argument_reaches_endpoint.2.2.2 c ca a txt ok hne
  obtain ⟨r', h1', h2', _⟩ := request_assembly_means_op.1 c txt (storeDG ca a) ok hne
  have er : r' = r := by
    have := h1'.symm.trans h1
    exact Except.ok.inj this
  subst er
  have ep : pr = _ := Option.some.inj (h2.symm.trans h2')
  refine ⟨r', pr, h1, h2, ?_, ?_, h4, ?_, h5, h6⟩
  · rw [ep]
  · rw [ep]
  · rw [h3]; exact query_text_means_pattern.1 p txt hp hw

end RV.C20
