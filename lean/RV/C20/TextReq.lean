import RV.C20.TextOps
/-
  C20 text layer, lemmas 5: every edit string the store queues reads back as its operation, and a
  request joined by `\n;\n` reads back as the sequence.
-/
namespace RV.C20

/-- what may follow an operation text: the end, or something that is not a name character -/
def RestOK (rest : Str) : Prop := ∀ c r, rest = c :: r → isNameChar c = false

/-- `txt` is the text of exactly the operation `u` for the reader (with prologue fuel `F`) -/
def AllWs (t : Str) : Prop := ∀ c ∈ t, isWs c = true

structure OpText (txt : Str) (u : TUOp) (F : Nat) : Prop where
  /-- reading stops after the operation; only trailing blanks of the text itself are left over -/
  reads : ∃ trail, AllWs trail ∧ ∀ rest, RestOK rest → readOp F (txt ++ rest) = some (u, trail ++ rest)
  head : ∃ c r, txt = c :: r ∧ isWs c = false ∧ c ≠ '#'

theorem ws_trail : ∀ (trail s : Str), AllWs trail → ws (trail ++ s) = ws s
  | [], s, _ => rfl
  | c :: t, s, h => by
    have hc : isWs c = true := h c (List.mem_cons_self ..)
    have ht : AllWs t := fun x hx => h x (List.mem_cons_of_mem _ hx)
    have : ws (c :: (t ++ s)) = ws (t ++ s) := by simp [ws, skip, hc]
    rw [List.cons_append, this, ws_trail t s ht]

theorem skipPrologue_id (F : Nat) (s : Str) (h : kw "PREFIX" s = none) : skipPrologue F s = s := by
  cases F <;> simp [skipPrologue, h]

/-! ### INSERT DATA -/

theorem insertText_reads (g : Option Str) (ts : List TTriple) (tts : List Str) (nl : Str) (F : Nat) (hne : ts ≠ [])
    (hg : GraphOK g = true) (hw : optAll (ts.map wTripleDot) = some tts) (hok : ∀ t ∈ ts, TripleOK t = true)
    (hF : ts.length + 1 ≤ F) (hnl : nl = [] ∨ nl = ['\n']) (txt : Str)
    (htxt : txt = match g with
      | none => "INSERT DATA { ".toList ++ joinWith ['\n'] tts ++ " }".toList ++ nl
      | some gn => "INSERT DATA { GRAPH ".toList ++ ('<' :: gn ++ ['>']) ++ " { ".toList ++ joinWith ['\n'] tts ++
          " } }".toList ++ nl) :
    OpText txt (.insertData g ts) F := by
  obtain ⟨k, hk⟩ : ∃ k, F = ts.length + 1 + k := ⟨F - (ts.length + 1), by omega⟩
  subst hk
  have hpre : ∀ r, kw "PREFIX" ('I' :: r) = none := fun r =>
    kw_none_head "PREFIX" 'P' "REFIX".toList (by decide) 'I' r (by decide) (by decide) (by decide)
  constructor
  · refine ⟨nl, by rcases hnl with rfl | rfl <;> simp [AllWs, isWs], ?_⟩
    intro rest _
    cases g with
    | none =>
      subst htxt
      have e : ("INSERT DATA { ".toList ++ joinWith ['\n'] tts ++ " }".toList ++ nl) ++ rest =
          'I' :: 'N' :: 'S' :: 'E' :: 'R' :: 'T' :: ' ' :: 'D' :: 'A' :: 'T' :: 'A' ::
            (' ' :: '{' :: ' ' :: (joinWith ['\n'] tts ++ ' ' :: '}' :: (nl ++ rest))) := by simp
      rw [e]
      have hq := readQuadData_default ts tts (nl ++ rest) k hne hw hok
      simp only [readOp, skipPrologue_id _ _ (hpre _)]
      have k1 : ∀ r, kw "INSERT" ('I' :: 'N' :: 'S' :: 'E' :: 'R' :: 'T' :: ' ' :: r) = some (' ' :: r) := by
        intro r; simp [kw, stripCI, ws, skip, isWs, upperChar, isNameChar, isAlpha, isDigit]
      have k2 : ∀ r, kw "DATA" (' ' :: 'D' :: 'A' :: 'T' :: 'A' :: ' ' :: r) = some (' ' :: r) := by
        intro r; simp [kw, stripCI, ws, skip, isWs, upperChar, isNameChar, isAlpha, isDigit]
      simp only [k1, k2, Option.bind_some, hq, Option.map_some]
    | some gn =>
      subst htxt
      have hgi : iriOK gn = true := by simpa [GraphOK] using hg
      have e : ("INSERT DATA { GRAPH ".toList ++ ('<' :: gn ++ ['>']) ++ " { ".toList ++ joinWith ['\n'] tts ++
          " } }".toList ++ nl) ++ rest =
          'I' :: 'N' :: 'S' :: 'E' :: 'R' :: 'T' :: ' ' :: 'D' :: 'A' :: 'T' :: 'A' ::
            (' ' :: '{' :: ' ' :: 'G' :: 'R' :: 'A' :: 'P' :: 'H' :: ' ' :: '<' :: (gn ++ '>' :: ' ' :: '{' :: ' ' ::
              (joinWith ['\n'] tts ++ ' ' :: '}' :: ' ' :: '}' :: (nl ++ rest)))) := by simp
      rw [e]
      have hq := readQuadData_named gn ts tts (nl ++ rest) k hne hgi hw hok
      simp only [readOp, skipPrologue_id _ _ (hpre _)]
      have k1 : ∀ r, kw "INSERT" ('I' :: 'N' :: 'S' :: 'E' :: 'R' :: 'T' :: ' ' :: r) = some (' ' :: r) := by
        intro r; simp [kw, stripCI, ws, skip, isWs, upperChar, isNameChar, isAlpha, isDigit]
      have k2 : ∀ r, kw "DATA" (' ' :: 'D' :: 'A' :: 'T' :: 'A' :: ' ' :: r) = some (' ' :: r) := by
        intro r; simp [kw, stripCI, ws, skip, isWs, upperChar, isNameChar, isAlpha, isDigit]
      simp only [k1, k2, Option.bind_some, hq, Option.map_some]
  · cases g <;> (subst htxt; exact ⟨'I', _, rfl, by decide, by decide⟩)

/-! ### DELETE … WHERE … -/

theorem readPat_sp (s : Str) : readPat (' ' :: s) = readPat s := by simp [readPat, readNode_sp]

theorem kw_DELETE (r : Str) : kw "DELETE" ('D' :: 'E' :: 'L' :: 'E' :: 'T' :: 'E' :: ' ' :: r) = some (' ' :: r) := by
  simp [kw, stripCI, ws, skip, isWs, upperChar, isNameChar, isAlpha, isDigit]
theorem kw_spDELETE (r : Str) : kw "DELETE" (' ' :: 'D' :: 'E' :: 'L' :: 'E' :: 'T' :: 'E' :: ' ' :: r) = some (' ' :: r) := by
  rw [kw_sp, kw_DELETE]
theorem kw_spWHERE (r : Str) : kw "WHERE" (' ' :: 'W' :: 'H' :: 'E' :: 'R' :: 'E' :: ' ' :: r) = some (' ' :: r) := by
  simp [kw, stripCI, ws, skip, isWs, upperChar, isNameChar, isAlpha, isDigit]
theorem kw_WITH (r : Str) : kw "WITH" ('W' :: 'I' :: 'T' :: 'H' :: ' ' :: r) = some (' ' :: r) := by
  simp [kw, stripCI, ws, skip, isWs, upperChar, isNameChar, isAlpha, isDigit]
theorem kw_brace_none (k : String) (k0 : Char) (ks : Str) (hk : k.toList = k0 :: ks) (h : k0 ≠ '{') (r : Str) :
    kw k (' ' :: '{' :: r) = none := by
  rw [kw_sp]
  exact kw_none_head k k0 ks hk '{' r (by decide) (by decide) (by simpa [upperChar] using fun e => h e.symm)

/-- `{ s p o . }` in a template / WHERE position -/
theorem readQuadPat_default (p : TPatT) (body tail : Str) (hw : wPatBody posVarUpper p = some body)
    (hok : PatOK p = true) :
    readQuadPat (' ' :: '{' :: ' ' :: (body ++ ' ' :: '.' :: ' ' :: '}' :: tail)) =
      some (([], .dflt, nodesOf true p), tail) := by
  rw [← posVar_true] at hw
  obtain ⟨c0, r0, hh, hs⟩ := wPatBody_head true p body hw
  have hp := readPat_write true p body (' ' :: '}' :: tail) hw hok
  have hv : readValues (' ' :: (body ++ ' ' :: '.' :: ' ' :: '}' :: tail)) =
      some ([], ' ' :: (body ++ ' ' :: '.' :: ' ' :: '}' :: tail)) := by
    rw [hh]; simp only [readValues, List.cons_append, kw_values_none c0 _ hs]
  have hg : readGraphOpen (' ' :: (body ++ ' ' :: '.' :: ' ' :: '}' :: tail)) =
      some (.dflt, ' ' :: (body ++ ' ' :: '.' :: ' ' :: '}' :: tail)) := by
    rw [hh]; simp only [readGraphOpen, List.cons_append, kw_graph_none c0 _ hs]
  simp only [readQuadPat, sym_sp, sym_here '{' _ (by decide) (by decide), hv, hg, readPat_sp, hp, closeFor,
    sym_here '}' _ (by decide) (by decide), Option.map_some]

/-- `{ GRAPH ?G { s p o . } }` -/
theorem readQuadPat_anyG (p : TPatT) (body tail : Str) (hw : wPatBody posVarUpper p = some body)
    (hok : PatOK p = true) :
    readQuadPat (' ' :: '{' :: ' ' :: 'G' :: 'R' :: 'A' :: 'P' :: 'H' :: ' ' :: '?' :: 'G' :: ' ' :: '{' :: ' ' ::
        (body ++ ' ' :: '.' :: ' ' :: '}' :: ' ' :: '}' :: tail)) =
      some (([], .anyNamed ['G'], nodesOf true p), tail) := by
  rw [← posVar_true] at hw
  have hp := readPat_write true p body (' ' :: '}' :: ' ' :: '}' :: tail) hw hok
  have hv : ∀ r, readValues (' ' :: 'G' :: r) = some ([], ' ' :: 'G' :: r) := by
    intro r
    have : kw "VALUES" (' ' :: 'G' :: r) = none := by
      rw [kw_sp]; exact kw_none_head "VALUES" 'V' "ALUES".toList (by decide) 'G' r (by decide) (by decide) (by decide)
    simp only [readValues, this]
  have hn : ∀ r, readNode (' ' :: '?' :: 'G' :: ' ' :: r) = some (.var ['G'], ' ' :: r) := by
    intro r; rw [readNode_sp]; exact readNode_var1 'G' r (by decide)
  simp only [readQuadPat, sym_sp, sym_here '{' _ (by decide) (by decide), hv, readGraphOpen, kw_GRAPH, hn,
    Option.map_some, readPat_sp, hp, closeFor, sym_here '}' _ (by decide) (by decide), Option.bind_some]

theorem modify_same (w : Option Str) (sel : GSel) (p : TPatT) :
    modifyMeaning w ([], sel, nodesOf true p) ([], sel, nodesOf true p) =
      match w, sel with
      | none, .dflt => some (.deleteWhere none p)
      | none, .named g => some (.deleteWhere (some g) p)
      | none, .anyNamed _ => some (.deleteNamed p)
      | some g, .dflt => some (.deleteWhere (some g) p)
      | some _, _ => none := by
  simp only [modifyMeaning, and_self, if_true, patOf_nodesOf]
  cases w <;> cases sel <;> simp

/-- `remove` on the default graph: `DELETE { t } WHERE { t } ` -/
theorem removeDefault_reads (p : TPatT) (body : Str) (F : Nat) (hw : wPatBody posVarUpper p = some body)
    (hok : PatOK p = true) :
    OpText ("DELETE { ".toList ++ (body ++ [' ', '.']) ++ " } WHERE { ".toList ++ (body ++ [' ', '.']) ++ " } ".toList)
      (.deleteWhere none p) F := by
  have hpre : ∀ r, kw "PREFIX" ('D' :: r) = none := fun r =>
    kw_none_head "PREFIX" 'P' "REFIX".toList (by decide) 'D' r (by decide) (by decide) (by decide)
  have hins : ∀ r, kw "INSERT" ('D' :: r) = none := fun r =>
    kw_none_head "INSERT" 'I' "NSERT".toList (by decide) 'D' r (by decide) (by decide) (by decide)
  constructor
  · refine ⟨[' '], by simp [AllWs, isWs], ?_⟩
    intro rest _
    have e : ("DELETE { ".toList ++ (body ++ [' ', '.']) ++ " } WHERE { ".toList ++ (body ++ [' ', '.']) ++ " } ".toList) ++ rest =
        'D' :: 'E' :: 'L' :: 'E' :: 'T' :: 'E' :: ' ' :: '{' :: ' ' :: (body ++ ' ' :: '.' :: ' ' :: '}' ::
          (' ' :: 'W' :: 'H' :: 'E' :: 'R' :: 'E' :: ' ' :: '{' :: ' ' :: (body ++ ' ' :: '.' :: ' ' :: '}' :: (' ' :: rest)))) := by
      simp
    rw [e]
    have q1 := readQuadPat_default p body (' ' :: 'W' :: 'H' :: 'E' :: 'R' :: 'E' :: ' ' :: '{' :: ' ' ::
      (body ++ ' ' :: '.' :: ' ' :: '}' :: (' ' :: rest))) hw hok
    have q2 := readQuadPat_default p body (' ' :: rest) hw hok
    simp only [readOp, skipPrologue_id _ _ (hpre _), hins, kw_DELETE,
      kw_brace_none "DATA" 'D' "ATA".toList (by decide) (by decide),
      kw_brace_none "WHERE" 'W' "HERE".toList (by decide) (by decide),
      q1, Option.bind_some, kw_spWHERE, q2, modify_same, Option.map_some]
    rfl
  · exact ⟨'D', _, rfl, by decide, by decide⟩

/-- the second operation of `remove` without a context: every named graph -/
theorem removeNamed_reads (p : TPatT) (body : Str) (F : Nat) (hw : wPatBody posVarUpper p = some body)
    (hok : PatOK p = true) :
    OpText ("DELETE { GRAPH ?G { ".toList ++ (body ++ [' ', '.']) ++ " } } WHERE { GRAPH ?G { ".toList ++
        (body ++ [' ', '.']) ++ " } } ".toList)
      (.deleteNamed p) F := by
  have hpre : ∀ r, kw "PREFIX" ('D' :: r) = none := fun r =>
    kw_none_head "PREFIX" 'P' "REFIX".toList (by decide) 'D' r (by decide) (by decide) (by decide)
  have hins : ∀ r, kw "INSERT" ('D' :: r) = none := fun r =>
    kw_none_head "INSERT" 'I' "NSERT".toList (by decide) 'D' r (by decide) (by decide) (by decide)
  constructor
  · refine ⟨[' '], by simp [AllWs, isWs], ?_⟩
    intro rest _
    have e : ("DELETE { GRAPH ?G { ".toList ++ (body ++ [' ', '.']) ++ " } } WHERE { GRAPH ?G { ".toList ++
        (body ++ [' ', '.']) ++ " } } ".toList) ++ rest =
        'D' :: 'E' :: 'L' :: 'E' :: 'T' :: 'E' :: ' ' :: '{' :: ' ' :: 'G' :: 'R' :: 'A' :: 'P' :: 'H' :: ' ' :: '?' :: 'G' ::
          ' ' :: '{' :: ' ' :: (body ++ ' ' :: '.' :: ' ' :: '}' :: ' ' :: '}' ::
          (' ' :: 'W' :: 'H' :: 'E' :: 'R' :: 'E' :: ' ' :: '{' :: ' ' :: 'G' :: 'R' :: 'A' :: 'P' :: 'H' :: ' ' :: '?' :: 'G' ::
            ' ' :: '{' :: ' ' :: (body ++ ' ' :: '.' :: ' ' :: '}' :: ' ' :: '}' :: (' ' :: rest)))) := by
      simp
    rw [e]
    have q1 := readQuadPat_anyG p body (' ' :: 'W' :: 'H' :: 'E' :: 'R' :: 'E' :: ' ' :: '{' :: ' ' :: 'G' :: 'R' :: 'A' ::
      'P' :: 'H' :: ' ' :: '?' :: 'G' :: ' ' :: '{' :: ' ' :: (body ++ ' ' :: '.' :: ' ' :: '}' :: ' ' :: '}' :: (' ' :: rest))) hw hok
    have q2 := readQuadPat_anyG p body (' ' :: rest) hw hok
    simp only [readOp, skipPrologue_id _ _ (hpre _), hins, kw_DELETE,
      kw_brace_none "DATA" 'D' "ATA".toList (by decide) (by decide),
      kw_brace_none "WHERE" 'W' "HERE".toList (by decide) (by decide),
      q1, Option.bind_some, kw_spWHERE, q2, modify_same, Option.map_some]
    rfl
  · exact ⟨'D', _, rfl, by decide, by decide⟩

/-- `remove` on a named graph: `WITH <g> DELETE { t } WHERE { t }` -/
theorem removeWith_reads (g : Str) (p : TPatT) (body : Str) (F : Nat) (hg : iriOK g = true)
    (hw : wPatBody posVarUpper p = some body) (hok : PatOK p = true) :
    OpText ("WITH ".toList ++ ('<' :: g ++ ['>']) ++ " DELETE { ".toList ++ (body ++ [' ', '.']) ++ " } WHERE { ".toList ++
        (body ++ [' ', '.']) ++ " }".toList)
      (.deleteWhere (some g) p) F := by
  have hpre : ∀ r, kw "PREFIX" ('W' :: r) = none := fun r =>
    kw_none_head "PREFIX" 'P' "REFIX".toList (by decide) 'W' r (by decide) (by decide) (by decide)
  have hins : ∀ r, kw "INSERT" ('W' :: r) = none := fun r =>
    kw_none_head "INSERT" 'I' "NSERT".toList (by decide) 'W' r (by decide) (by decide) (by decide)
  have hdel : ∀ r, kw "DELETE" ('W' :: r) = none := fun r =>
    kw_none_head "DELETE" 'D' "ELETE".toList (by decide) 'W' r (by decide) (by decide) (by decide)
  constructor
  · refine ⟨[], by simp [AllWs], ?_⟩
    intro rest _
    have e : ("WITH ".toList ++ ('<' :: g ++ ['>']) ++ " DELETE { ".toList ++ (body ++ [' ', '.']) ++ " } WHERE { ".toList ++
        (body ++ [' ', '.']) ++ " }".toList) ++ rest =
        'W' :: 'I' :: 'T' :: 'H' :: ' ' :: '<' :: (g ++ '>' :: (' ' :: 'D' :: 'E' :: 'L' :: 'E' :: 'T' :: 'E' :: ' ' :: '{' :: ' ' ::
          (body ++ ' ' :: '.' :: ' ' :: '}' ::
          (' ' :: 'W' :: 'H' :: 'E' :: 'R' :: 'E' :: ' ' :: '{' :: ' ' :: (body ++ ' ' :: '.' :: ' ' :: '}' :: rest))))) := by
      simp
    rw [e]
    have q1 := readQuadPat_default p body (' ' :: 'W' :: 'H' :: 'E' :: 'R' :: 'E' :: ' ' :: '{' :: ' ' ::
      (body ++ ' ' :: '.' :: ' ' :: '}' :: rest)) hw hok
    have q2 := readQuadPat_default p body rest hw hok
    have hi : ∀ r, readIri (' ' :: '<' :: (g ++ '>' :: r)) = some (g, r) := by
      intro r; simp only [readIri, ws_sp, ws_lt]; exact readIriRaw_write' g r hg
    simp only [readOp, skipPrologue_id _ _ (hpre _), hins, hdel, kw_WITH, hi, Option.bind_some, kw_spDELETE,
      q1, kw_spWHERE, q2, modify_same, Option.map_some]
    rfl
  · exact ⟨'W', _, rfl, by decide, by decide⟩

/-! ### the PREFIX block of `update()` and the graph operations behind it -/

def PrefixOK (kv : Str × Str) : Bool := kv.1.all isNameChar && iriOK kv.2

theorem kw_allws (k : String) (t s : Str) (h : AllWs t) : kw k (t ++ s) = kw k s := by
  simp [kw, ws_trail t s h]

theorem nameChar_facts {c : Char} (h : isNameChar c = true) : isWs c = false ∧ c ≠ '#' ∧ c ≠ ':' := by
  refine ⟨?_, ?_, ?_⟩
  · cases hw : isWs c with
    | false => rfl
    | true =>
      simp only [isWs, Bool.or_eq_true, decide_eq_true_eq] at hw
      rcases hw with ((rfl | rfl) | rfl) | rfl <;> simp [isNameChar, isAlpha, isDigit] at h
  · rintro rfl; simp [isNameChar, isAlpha, isDigit] at h
  · rintro rfl; simp [isNameChar, isAlpha, isDigit] at h

theorem kw_PREFIX (r : Str) : kw "PREFIX" ('P' :: 'R' :: 'E' :: 'F' :: 'I' :: 'X' :: ' ' :: r) = some (' ' :: r) := by
  simp [kw, stripCI, ws, skip, isWs, upperChar, isNameChar, isAlpha, isDigit]

theorem prefixLine_append (kv : Str × Str) (more : Str) :
    prefixLine kv ++ more =
      'P' :: 'R' :: 'E' :: 'F' :: 'I' :: 'X' :: ' ' :: (kv.1 ++ ':' :: ' ' :: '<' :: (kv.2 ++ '>' :: more)) := by
  simp [prefixLine]

theorem skipPrologue_line (n : Nat) (kv : Str × Str) (more : Str) (h : PrefixOK kv = true) :
    skipPrologue (n + 1) (prefixLine kv ++ more) = skipPrologue n more ∧
    skipPrologue (n + 1) ('\n' :: (prefixLine kv ++ more)) = skipPrologue n more := by
  obtain ⟨k, v⟩ := kv
  simp only [PrefixOK, Bool.and_eq_true] at h
  have hk : ':' ∉ k := by
    intro hm
    have := (nameChar_facts (List.all_eq_true.mp h.1 _ hm)).2.2
    exact this rfl
  have hws : ws (' ' :: (k ++ ':' :: ' ' :: '<' :: (v ++ '>' :: more))) = k ++ ':' :: ' ' :: '<' :: (v ++ '>' :: more) := by
    rw [ws_sp]
    cases k with
    | nil => exact ws_cons ':' _ (by decide) (by decide)
    | cons c k' =>
      have hc := nameChar_facts (List.all_eq_true.mp h.1 c (List.mem_cons_self ..))
      exact ws_cons c _ hc.1 hc.2.1
  rw [prefixLine_append]
  constructor
  · simp only [skipPrologue, kw_PREFIX, hws, splitAt?_append ':' k _ hk, readIri, ws_sp, ws_lt,
      readIriRaw_write' v more h.2]
  · simp only [skipPrologue, kw_nl, kw_PREFIX, hws, splitAt?_append ':' k _ hk, readIri, ws_sp, ws_lt,
      readIriRaw_write' v more h.2]

/-- the whole block is skipped; what is left is the blank line and the operation -/
theorem skipPrologue_block : ∀ (ns : List (Str × Str)) (k : Nat) (tail : Str),
    (∀ kv ∈ ns, PrefixOK kv = true) → kw "PREFIX" tail = none → ns ≠ [] →
    skipPrologue (ns.length + k) (joinWith ['\n'] (ns.map prefixLine) ++ tail) = tail ∧
    skipPrologue (ns.length + k) ('\n' :: (joinWith ['\n'] (ns.map prefixLine) ++ tail)) = tail
  | [kv], k, tail, hok, ht, _ => by
    have h1 := skipPrologue_line k kv tail (hok kv (List.mem_cons_self ..))
    have : [kv].length + k = k + 1 := by simp; omega
    rw [this]
    simp only [List.map_cons, List.map_nil, joinWith]
    rw [h1.1, h1.2, skipPrologue_id _ _ ht]
    exact ⟨rfl, rfl⟩
  | kv :: kv2 :: ns, k, tail, hok, ht, _ => by
    have ih := skipPrologue_block (kv2 :: ns) k tail (fun x hx => hok x (List.mem_cons_of_mem _ hx)) ht (by simp)
    have h1 := skipPrologue_line ((kv2 :: ns).length + k) kv
      ('\n' :: (joinWith ['\n'] ((kv2 :: ns).map prefixLine) ++ tail)) (hok kv (List.mem_cons_self ..))
    have hl : (kv :: kv2 :: ns).length + k = ((kv2 :: ns).length + k) + 1 := by simp; omega
    have hj : joinWith ['\n'] ((kv :: kv2 :: ns).map prefixLine) ++ tail =
        prefixLine kv ++ '\n' :: (joinWith ['\n'] ((kv2 :: ns).map prefixLine) ++ tail) := by
      simp [joinWith]
    rw [hl, hj, h1.1, h1.2]
    exact ⟨ih.2, ih.2⟩

theorem wPrologue_eq (ns : List (Str × Str)) (hne : ns ≠ []) :
    wPrologue ns = joinWith ['\n'] (ns.map prefixLine) ++ ['\n', '\n'] := by
  cases ns with
  | nil => exact absurd rfl hne
  | cons kv ns => rfl

/-- after the prologue the reader stands in front of the operation (up to the blank line) -/
theorem skipPrologue_wPrologue (ns : List (Str × Str)) (F : Nat) (op : Str) (hF : ns.length ≤ F)
    (hok : ∀ kv ∈ ns, PrefixOK kv = true) (hop : kw "PREFIX" op = none) :
    ∃ t, AllWs t ∧ skipPrologue F (wPrologue ns ++ op) = t ++ op := by
  cases ns with
  | nil => exact ⟨[], by simp [AllWs], by simp [wPrologue, skipPrologue_id _ _ hop]⟩
  | cons kv ns =>
    obtain ⟨k, hk⟩ : ∃ k, F = (kv :: ns).length + k := ⟨F - (kv :: ns).length, by omega⟩
    subst hk
    refine ⟨['\n', '\n'], by simp [AllWs, isWs], ?_⟩
    rw [wPrologue_eq _ (by simp), List.append_assoc]
    exact (skipPrologue_block (kv :: ns) k (['\n', '\n'] ++ op) hok
      (by rw [kw_allws _ _ _ (by simp [AllWs, isWs])]; exact hop) (by simp)).1

theorem kw_DROP (r : Str) : kw "DROP" ('D' :: 'R' :: 'O' :: 'P' :: ' ' :: r) = some (' ' :: r) := by
  simp [kw, stripCI, ws, skip, isWs, upperChar, isNameChar, isAlpha, isDigit]
theorem kw_CREATE (r : Str) : kw "CREATE" ('C' :: 'R' :: 'E' :: 'A' :: 'T' :: 'E' :: ' ' :: r) = some (' ' :: r) := by
  simp [kw, stripCI, ws, skip, isWs, upperChar, isNameChar, isAlpha, isDigit]
theorem kw_spGRAPH (r : Str) : kw "GRAPH" (' ' :: 'G' :: 'R' :: 'A' :: 'P' :: 'H' :: ' ' :: r) = some (' ' :: r) := kw_GRAPH r

theorem kw_spDEFAULT (rest : Str) (h : RestOK rest) :
    kw "DEFAULT" (' ' :: 'D' :: 'E' :: 'F' :: 'A' :: 'U' :: 'L' :: 'T' :: rest) = some rest := by
  cases rest with
  | nil => simp [kw, stripCI, ws, skip, isWs, upperChar]
  | cons c r =>
    have := h c r rfl
    simp [kw, stripCI, ws, skip, isWs, upperChar, this]

theorem prologue_head (ns : List (Str × Str)) (op : Str) (c : Char) (r : Str) (hop : op = c :: r)
    (h1 : isWs c = false) (h2 : c ≠ '#') :
    ∃ c' r', wPrologue ns ++ op = c' :: r' ∧ isWs c' = false ∧ c' ≠ '#' := by
  cases ns with
  | nil => exact ⟨c, r, by simp [wPrologue, hop], h1, h2⟩
  | cons kv ns =>
    have : ∃ r', wPrologue (kv :: ns) ++ op = 'P' :: r' := by
      cases ns with
      | nil => exact ⟨_, rfl⟩
      | cons kv2 ns => exact ⟨_, rfl⟩
    obtain ⟨r', hr'⟩ := this
    exact ⟨'P', r', hr', by decide, by decide⟩

/-- `remove_graph` / `add_graph`: PREFIX block, then `DROP DEFAULT` / `DROP GRAPH <g>` / `CREATE GRAPH <g>` -/
theorem dropDefault_reads (ns : List (Str × Str)) (F : Nat) (hF : ns.length ≤ F)
    (hok : ∀ kv ∈ ns, PrefixOK kv = true) :
    OpText (wPrologue ns ++ "DROP DEFAULT".toList) (.dropGraph none) F := by
  have hD : ∀ r k k0 ks, k.toList = k0 :: ks → k0 ≠ 'D' → kw k ('D' :: r) = none := fun r k k0 ks hk hne =>
    kw_none_head k k0 ks hk 'D' r (by decide) (by decide) (by simpa [upperChar] using fun e => hne e.symm)
  constructor
  · refine ⟨[], by simp [AllWs], ?_⟩
    intro rest hrest
    have e : (wPrologue ns ++ "DROP DEFAULT".toList) ++ rest =
        wPrologue ns ++ ('D' :: 'R' :: 'O' :: 'P' :: ' ' :: 'D' :: 'E' :: 'F' :: 'A' :: 'U' :: 'L' :: 'T' :: rest) := by simp
    rw [e]
    obtain ⟨t, ht, hs⟩ := skipPrologue_wPrologue ns F
      ('D' :: 'R' :: 'O' :: 'P' :: ' ' :: 'D' :: 'E' :: 'F' :: 'A' :: 'U' :: 'L' :: 'T' :: rest) hF hok
      (hD _ "PREFIX" 'P' "REFIX".toList (by decide) (by decide))
    simp only [readOp, hs, kw_allws _ t _ ht,
      hD _ "INSERT" 'I' "NSERT".toList (by decide) (by decide),
      hD _ "WITH" 'W' "ITH".toList (by decide) (by decide), kw_DROP, kw_spDEFAULT rest hrest]
    have hdel : kw "DELETE" ('D' :: 'R' :: 'O' :: 'P' :: ' ' :: 'D' :: 'E' :: 'F' :: 'A' :: 'U' :: 'L' :: 'T' :: rest) = none := by
      simp [kw, stripCI, ws, skip, isWs, upperChar]
    simp [hdel]
  · exact prologue_head ns _ 'D' _ rfl (by decide) (by decide)

theorem dropGraph_reads (ns : List (Str × Str)) (g : Str) (F : Nat) (hF : ns.length ≤ F)
    (hok : ∀ kv ∈ ns, PrefixOK kv = true) (hg : iriOK g = true) :
    OpText (wPrologue ns ++ "DROP GRAPH ".toList ++ ('<' :: g ++ ['>'])) (.dropGraph (some g)) F := by
  have hD : ∀ r k k0 ks, k.toList = k0 :: ks → k0 ≠ 'D' → kw k ('D' :: r) = none := fun r k k0 ks hk hne =>
    kw_none_head k k0 ks hk 'D' r (by decide) (by decide) (by simpa [upperChar] using fun e => hne e.symm)
  constructor
  · refine ⟨[], by simp [AllWs], ?_⟩
    intro rest _
    have e : (wPrologue ns ++ "DROP GRAPH ".toList ++ ('<' :: g ++ ['>'])) ++ rest =
        wPrologue ns ++ ('D' :: 'R' :: 'O' :: 'P' :: ' ' :: 'G' :: 'R' :: 'A' :: 'P' :: 'H' :: ' ' :: '<' :: (g ++ '>' :: rest)) := by simp
    rw [e]
    obtain ⟨t, ht, hs⟩ := skipPrologue_wPrologue ns F
      ('D' :: 'R' :: 'O' :: 'P' :: ' ' :: 'G' :: 'R' :: 'A' :: 'P' :: 'H' :: ' ' :: '<' :: (g ++ '>' :: rest)) hF hok
      (hD _ "PREFIX" 'P' "REFIX".toList (by decide) (by decide))
    have hdel : ∀ r, kw "DELETE" ('D' :: 'R' :: r) = none := by
      intro r; simp [kw, stripCI, ws, skip, isWs, upperChar]
    have hdef : ∀ r, kw "DEFAULT" (' ' :: 'G' :: r) = none := by
      intro r; rw [kw_sp]; exact kw_none_head "DEFAULT" 'D' "EFAULT".toList (by decide) 'G' r (by decide) (by decide) (by decide)
    have hi : ∀ r, readIri (' ' :: '<' :: (g ++ '>' :: r)) = some (g, r) := by
      intro r; simp only [readIri, ws_sp, ws_lt]; exact readIriRaw_write' g r hg
    simp only [readOp, hs, kw_allws _ t _ ht,
      hD _ "INSERT" 'I' "NSERT".toList (by decide) (by decide),
      hD _ "WITH" 'W' "ITH".toList (by decide) (by decide), hdel, kw_DROP, hdef, kw_spGRAPH, hi,
      Option.bind_some, Option.map_some]
    rfl
  · have := prologue_head ns ("DROP GRAPH ".toList ++ ('<' :: g ++ ['>'])) 'D' _ rfl (by decide) (by decide)
    simpa [List.append_assoc] using this

theorem createGraph_reads (ns : List (Str × Str)) (g : Str) (F : Nat) (hF : ns.length ≤ F)
    (hok : ∀ kv ∈ ns, PrefixOK kv = true) (hg : iriOK g = true) :
    OpText (wPrologue ns ++ "CREATE GRAPH ".toList ++ ('<' :: g ++ ['>'])) (.createGraph g) F := by
  have hC : ∀ r k k0 ks, k.toList = k0 :: ks → k0 ≠ 'C' → kw k ('C' :: r) = none := fun r k k0 ks hk hne =>
    kw_none_head k k0 ks hk 'C' r (by decide) (by decide) (by simpa [upperChar] using fun e => hne e.symm)
  constructor
  · refine ⟨[], by simp [AllWs], ?_⟩
    intro rest _
    have e : (wPrologue ns ++ "CREATE GRAPH ".toList ++ ('<' :: g ++ ['>'])) ++ rest =
        wPrologue ns ++ ('C' :: 'R' :: 'E' :: 'A' :: 'T' :: 'E' :: ' ' :: 'G' :: 'R' :: 'A' :: 'P' :: 'H' :: ' ' :: '<' :: (g ++ '>' :: rest)) := by simp
    rw [e]
    obtain ⟨t, ht, hs⟩ := skipPrologue_wPrologue ns F
      ('C' :: 'R' :: 'E' :: 'A' :: 'T' :: 'E' :: ' ' :: 'G' :: 'R' :: 'A' :: 'P' :: 'H' :: ' ' :: '<' :: (g ++ '>' :: rest)) hF hok
      (hC _ "PREFIX" 'P' "REFIX".toList (by decide) (by decide))
    have hi : ∀ r, readIri (' ' :: '<' :: (g ++ '>' :: r)) = some (g, r) := by
      intro r; simp only [readIri, ws_sp, ws_lt]; exact readIriRaw_write' g r hg
    simp only [readOp, hs, kw_allws _ t _ ht,
      hC _ "INSERT" 'I' "NSERT".toList (by decide) (by decide),
      hC _ "DELETE" 'D' "ELETE".toList (by decide) (by decide),
      hC _ "WITH" 'W' "ITH".toList (by decide) (by decide),
      hC _ "DROP" 'D' "ROP".toList (by decide) (by decide), kw_CREATE, kw_spGRAPH, hi,
      Option.bind_some, Option.map_some]
    rfl
  · have := prologue_head ns ("CREATE GRAPH ".toList ++ ('<' :: g ++ ['>'])) 'C' _ rfl (by decide) (by decide)
    simpa [List.append_assoc] using this

/-! ### a request: operations joined by `\n;\n` -/

def sep : Str := ['\n', ';', '\n']

theorem restOK_nil : RestOK [] := by intro c r h; cases h
theorem restOK_sep (r : Str) : RestOK (sep ++ r) := by
  intro c r' h
  simp only [sep, List.cons_append, List.nil_append, List.cons.injEq] at h
  rw [← h.1]; decide

theorem ws_allws (t : Str) (h : AllWs t) : ws t = [] := by
  have := ws_trail t [] h
  simpa [ws, skip] using this

theorem sym_trail_nil (c : Char) (t : Str) (h : AllWs t) : sym c t = none := by
  simp [sym, ws_allws t h]

theorem readOps_seq : ∀ (cs : List (Str × TUOp)) (n F : Nat), cs ≠ [] → (∀ c ∈ cs, OpText c.1 c.2 F) →
    cs.length ≤ n → readOps n F (joinWith sep (cs.map (·.1))) = some (cs.map (·.2))
  | [c], n, F, _, hc, hn => by
    obtain ⟨m, rfl⟩ : ∃ m, n = m + 1 := ⟨n - 1, by simp at hn; omega⟩
    obtain ⟨trail, htr, hr⟩ := (hc c (List.mem_cons_self ..)).reads
    have := hr [] restOK_nil
    simp only [List.append_nil] at this
    simp only [List.map_cons, List.map_nil, joinWith, readOps, this, sym_trail_nil ';' trail htr]
    simp [ws_allws trail htr]
  | c :: c2 :: cs, n, F, _, hc, hn => by
    obtain ⟨m, rfl⟩ : ∃ m, n = m + 1 := ⟨n - 1, by simp at hn; omega⟩
    have ih := readOps_seq (c2 :: cs) m F (by simp) (fun x hx => hc x (List.mem_cons_of_mem _ hx))
      (by simp at hn ⊢; omega)
    obtain ⟨trail, htr, hr⟩ := (hc c (List.mem_cons_self ..)).reads
    obtain ⟨h0, r0, hh, hnw, hnc⟩ := (hc c2 (List.mem_cons_of_mem _ (List.mem_cons_self ..))).head
    have hJ : ∃ r1, joinWith sep ((c2 :: cs).map (·.1)) = h0 :: r1 := by
      cases cs with
      | nil => exact ⟨r0, by simp [joinWith, hh]⟩
      | cons c3 cs => exact ⟨r0 ++ sep ++ joinWith sep ((c3 :: cs).map (·.1)), by simp [joinWith, hh]⟩
    obtain ⟨r1, hr1⟩ := hJ
    have htxt : joinWith sep ((c :: c2 :: cs).map (·.1)) =
        c.1 ++ (sep ++ joinWith sep ((c2 :: cs).map (·.1))) := by simp [joinWith]
    have h1 := hr (sep ++ joinWith sep ((c2 :: cs).map (·.1))) (restOK_sep _)
    have hsym : sym ';' (trail ++ (sep ++ joinWith sep ((c2 :: cs).map (·.1)))) =
        some ('\n' :: joinWith sep ((c2 :: cs).map (·.1))) := by
      simp only [sym, ws_trail _ _ htr, sep, List.cons_append, List.nil_append, ws_nl,
        ws_cons ';' _ (by decide) (by decide)]
      simp
    have hws : ws ('\n' :: joinWith sep ((c2 :: cs).map (·.1))) = joinWith sep ((c2 :: cs).map (·.1)) := by
      rw [ws_nl, hr1, ws_cons h0 r1 hnw hnc]
    rw [htxt]
    simp only [readOps, h1, hsym, hws]
    rw [hr1] at ih ⊢
    simp only [reduceCtorEq, if_false, ih, List.map_cons, Option.map_some]

end RV.C20
