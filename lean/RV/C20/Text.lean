import RV.C20.Model
import RV.C20.Tables
/-
  C20 — the TEXT layer of `sparqlstore.py`: the request strings the store really emits, as
  functions to `List Char`, and a small READER (recogniser + meaning) for exactly that fragment
  of SPARQL 1.1 Query / Update.  Not a general SPARQL parser.

  Writers (following the code):
    `wTerm`      `_node_to_sparql` = `n3()` of IRIs (`<…>`, refused when a character of
                 `rdflib.term._invalid_uri_chars` occurs — table regenerated from the source) and of
                 literals (`Literal._quote_encode`: short `"…"` form, long `\"\"\"…\"\"\"` form iff the
                 lexical form contains LF; `@lang` / `^^<datatype>`); variables `?S ?P ?O`;
    `wAdd`, `wAddN`, `wRemove`  the strings appended to `_edits` by `add`, `addN`, `remove`;
    `wGraphOp`   `DROP GRAPH <g>` / `DROP DEFAULT` / `CREATE GRAPH <g>` behind the PREFIX block
                 that `update()` injects (`_inject_prefixes`);
    `wTriplesQuery`  the SELECT / ASK of `SPARQLStore.triples` incl. ORDER BY / LIMIT / OFFSET;
    `lenQueryText`, `wContexts`  the fixed texts of `__len__` and `contexts`;
    `joinEdits`  `"\n;\n".join(edits)` of `commit`.
  The INF/NaN respelling branch of `_literal_n3` (C07/C09) is not modelled.

  Reader: scannerless recursive descent over the characters; white space and `#` comments are
  skipped between tokens, keywords are case-insensitive, a PREFIX prologue is skipped.
  `readRequest` gives the list of update operations of a request text (`TUOp`, the text-level
  mirror of `UOp`), `readQuery` the query (`TQuery`).  Anything else is `none` (not in the fragment).
-/
namespace RV.C20

abbrev Str := List Char

/-! ### text-level terms and operations -/

inductive TTerm
  | iri (s : Str)
  | lit (lex : Str) (dt : Option Str) (lang : Option Str)
  deriving Repr, DecidableEq

abbrev TTriple := TTerm × TTerm × TTerm
/-- `none` = an unbound position (written as the variable `?S` / `?P` / `?O`, resp. `?s ?p ?o`) -/
abbrev TPatT := Option TTerm × Option TTerm × Option TTerm

/-- text-level mirror of `UOp` (graph names are IRI strings) -/
inductive TUOp
  | insertData (g : Option Str) (ts : List TTriple)
  | deleteData (g : Option Str) (ts : List TTriple)
  | deleteWhere (g : Option Str) (p : TPatT)
  | deleteNamed (p : TPatT)
  | dropGraph (g : Option Str)
  | createGraph (g : Str)
  deriving Repr, DecidableEq

inductive TQuery
  /-- `SPARQLStore.triples`: pattern, ORDER BY position, LIMIT, OFFSET -/
  | triples (p : TPatT) (order : Option Pos) (limit offset : Option Nat)
  | len
  | contexts (t : Option TPatT)
  deriving Repr, DecidableEq

/-! ### writers -/

def isValidUri (s : Str) : Bool := Tables.invalidUriChars.all (fun c => !s.contains c)

/-- `str.replace(c, rep)` for a one-character pattern -/
def replaceChar (c : Char) (rep : Str) (s : Str) : Str :=
  s.flatMap (fun x => if x = c then rep else [x])

/-- the short-quoted branch of `_quote_encode` -/
def shortEncode (s : Str) : Str :=
  replaceChar '\r' ['\\', 'r'] (replaceChar '"' ['\\', '"'] (replaceChar '\\' ['\\', '\\']
    (replaceChar '\n' ['\\', 'n'] s)))

def hasTriple : Str → Bool
  | '"' :: '"' :: '"' :: _ => true
  | _ :: s => hasTriple s
  | [] => false

/-- `encoded.replace('"""', '\\"\\"\\"')` (leftmost, non-overlapping) -/
def replTriple : Str → Str
  | '"' :: '"' :: '"' :: s => '\\' :: '"' :: '\\' :: '"' :: '\\' :: '"' :: replTriple s
  | c :: s => c :: replTriple s
  | [] => []

/-- `s.rstrip("\\")` -/
def rstripBs : Str → Str
  | [] => []
  | c :: s =>
    match rstripBs s with
    | [] => if c = '\\' then [] else [c]
    | r => c :: r

/-- escape a final quote unless an odd number of backslashes comes before it -/
def fixTrail (e : Str) : Str :=
  if e.getLast? = some '"' then
    let body := e.dropLast
    if (body.length - (rstripBs body).length) % 2 = 0 then body ++ ['\\', '"'] else e
  else e

/-- the long-quoted branch of `_quote_encode` (without the surrounding quotes) -/
def longEncode (s : Str) : Str :=
  let e := replaceChar '\\' ['\\', '\\'] s
  let e := if hasTriple s then replTriple e else e
  replaceChar '\r' ['\\', 'r'] (fixTrail e)

def q3 : Str := ['"', '"', '"']

/-- `Literal._quote_encode` -/
def quoteEncode (s : Str) : Str :=
  if '\n' ∈ s then q3 ++ longEncode s ++ q3 else '"' :: (shortEncode s ++ ['"'])

/-- `node.n3()`; `none` = `URIRef.n3` raises -/
def wTerm : TTerm → Option Str
  | .iri s => if isValidUri s then some ('<' :: s ++ ['>']) else none
  | .lit x _ (some l) => some (quoteEncode x ++ '@' :: l)
  | .lit x (some d) none => some (quoteEncode x ++ '^' :: '^' :: '<' :: d ++ ['>'])
  | .lit x none none => some (quoteEncode x)

def wIri (g : Str) : Option Str := wTerm (.iri g)

def posVarUpper : Pos → Str
  | .s => ['?', 'S']
  | .p => ['?', 'P']
  | .o => ['?', 'O']

def posVarLower : Pos → Str
  | .s => ['?', 's']
  | .p => ['?', 'p']
  | .o => ['?', 'o']

def wNode (var : Pos → Str) (pos : Pos) : Option TTerm → Option Str
  | none => some (var pos)
  | some t => wTerm t

/-- `"%s %s %s" % (nts(s), nts(p), nts(o))` -/
def wPatBody (var : Pos → Str) (p : TPatT) : Option Str :=
  match wNode var .s p.1, wNode var .p p.2.1, wNode var .o p.2.2 with
  | some a, some b, some c => some (a ++ ' ' :: b ++ ' ' :: c)
  | _, _, _ => none

/-- `"%s %s %s ." % …` -/
def wTripleDot (t : TTriple) : Option Str :=
  (wPatBody posVarUpper (some t.1, some t.2.1, some t.2.2)).map (· ++ [' ', '.'])

def wPatDot (p : TPatT) : Option Str := (wPatBody posVarUpper p).map (· ++ [' ', '.'])

def optAll : List (Option Str) → Option (List Str)
  | [] => some []
  | x :: xs =>
    match x, optAll xs with
    | some a, some as => some (a :: as)
    | _, _ => none

def joinWith (sep : Str) : List Str → Str
  | [] => []
  | [a] => a
  | a :: b :: r => a ++ sep ++ joinWith sep (b :: r)

/-- `add`: `INSERT DATA { GRAPH <g> { t } }` / `INSERT DATA { t }` -/
def wAdd (g : Option Str) (t : TTriple) : Option Str :=
  match wTripleDot t, g with
  | some tt, none => some ("INSERT DATA { ".toList ++ tt ++ " }".toList)
  | some tt, some gn =>
    (wIri gn).map (fun gi => "INSERT DATA { GRAPH ".toList ++ gi ++ " { ".toList ++ tt ++ " } }".toList)
  | none, _ => none

/-- one group of `addN`: `INSERT DATA { GRAPH <g> { t\nt } }\n` / `INSERT DATA { t\nt }\n` -/
def wAddN (g : Option Str) (ts : List TTriple) : Option Str :=
  match optAll (ts.map wTripleDot), g with
  | some tts, none => some ("INSERT DATA { ".toList ++ joinWith ['\n'] tts ++ " }\n".toList)
  | some tts, some gn =>
    (wIri gn).map (fun gi =>
      "INSERT DATA { GRAPH ".toList ++ gi ++ " { ".toList ++ joinWith ['\n'] tts ++ " } }\n".toList)
  | none, _ => none

/-- `remove` with a context: `WITH <g> DELETE { t } WHERE { t }`; default graph:
    `DELETE { t } WHERE { t } ` -/
def wRemoveOne (g : Option Str) (p : TPatT) : Option Str :=
  match wPatDot p, g with
  | some tt, none => some ("DELETE { ".toList ++ tt ++ " } WHERE { ".toList ++ tt ++ " } ".toList)
  | some tt, some gn =>
    (wIri gn).map (fun gi =>
      "WITH ".toList ++ gi ++ " DELETE { ".toList ++ tt ++ " } WHERE { ".toList ++ tt ++ " }".toList)
  | none, _ => none

/-- `remove` without a context: default graph, then every named graph -/
def wRemoveAll (p : TPatT) : Option Str :=
  match wPatDot p with
  | some tt =>
    some ("DELETE { ".toList ++ tt ++ " } WHERE { ".toList ++ tt ++ " } ".toList ++
      "\n;\nDELETE { GRAPH ?G { ".toList ++ tt ++ " } } WHERE { GRAPH ?G { ".toList ++ tt ++ " } } ".toList)
  | none => none

/-- `"PREFIX %s: <%s>" % (k, v)` -/
def prefixLine (kv : Str × Str) : Str :=
  'P' :: 'R' :: 'E' :: 'F' :: 'I' :: 'X' :: ' ' :: (kv.1 ++ ':' :: ' ' :: '<' :: (kv.2 ++ ['>']))

/-- `_inject_prefixes`: `PREFIX k: <v>` lines, an empty line, the text (nothing when no bindings) -/
def wPrologue (ns : List (Str × Str)) : Str :=
  match ns with
  | [] => []
  | _ => joinWith ['\n'] (ns.map prefixLine) ++ ['\n', '\n']

/-- `remove_graph` / `add_graph` through `update()` -/
def wDrop (ns : List (Str × Str)) : Option Str → Option Str
  | none => some (wPrologue ns ++ "DROP DEFAULT".toList)
  | some g => (wIri g).map (fun gi => wPrologue ns ++ "DROP GRAPH ".toList ++ gi)

def wCreate (ns : List (Str × Str)) (g : Str) : Option Str :=
  (wIri g).map (fun gi => wPrologue ns ++ "CREATE GRAPH ".toList ++ gi)

/-- `commit`: `"\n;\n".join(self._edits)` -/
def joinEdits (es : List Str) : Str := joinWith ['\n', ';', '\n'] es

def natText (n : Nat) : Str := (toString n).toList

/-- the SELECT / ASK of `SPARQLStore.triples` -/
def wTriplesQuery (p : TPatT) (order : Option Pos) (limit offset : Option Nat) : Option Str :=
  let vars := (selVars (p.1.map (fun _ => 0), p.2.1.map (fun _ => 0), p.2.2.map (fun _ => 0))).map posVarLower
  let verb : Str := if vars.isEmpty then "ASK".toList else "SELECT ".toList ++ joinWith [' '] vars ++ [' ']
  match wPatBody posVarLower p with
  | none => none
  | some body =>
    let q := verb ++ " { ".toList ++ body ++ " }".toList
    let q := match order with
      | some pos => q ++ " ORDER BY ".toList ++ posVarLower pos
      | none => q
    let q := match limit with
      | some n => q ++ " LIMIT ".toList ++ natText n
      | none => q
    let q := match offset with
      | some n => q ++ " OFFSET ".toList ++ natText n
      | none => q
    some q

/-- the attributes `LIMIT`, `OFFSET`, `"ORDER BY"` of the context graph as `SPARQLStore.triples` sees them: unset / the
    integer; `"ORDER BY"`: unset / set to something that is no `Variable` (`some none`) / set to the variable of a position -/
structure SliceAttrs where
  limit : Option Nat
  offset : Option Nat
  orderBy : Option (Option Pos)
  deriving Repr, DecidableEq

/-- `if hasattr(context, LIMIT) or hasattr(context, OFFSET) or hasattr(context, ORDERBY):` then the first of s, p, o that
    is a variable, else (fully bound) the `"ORDER BY"` attribute when it is a Variable, else nothing.
    `unb` = which positions are unbound. -/
def sliceOrderS (unb : Bool × Bool × Bool) (a : SliceAttrs) : Option Pos :=
  if a.limit.isSome || a.offset.isSome || a.orderBy.isSome then
    if unb.1 then some .s else if unb.2.1 then some .p else if unb.2.2 then some .o
    else a.orderBy.join
  else none

def sliceOrder (p : TPatT) (a : SliceAttrs) : Option Pos := sliceOrderS (p.1.isNone, p.2.1.isNone, p.2.2.isNone) a

/-- the query `triples(pattern, context)` sends when the context carries slice attributes -/
def wSliceQuery (p : TPatT) (a : SliceAttrs) : Option Str := wTriplesQuery p (sliceOrder p a) a.limit a.offset

def lenQueryText : Str := "SELECT (count(*) as ?c) WHERE {?s ?p ?o .}".toList

def wContexts : Option TPatT → Option Str
  | none => some "SELECT ?name WHERE { GRAPH ?name {} }".toList
  | some p =>
    (wPatBody posVarLower p).map (fun b => "SELECT ?name WHERE { GRAPH ?name { ".toList ++ b ++ " }}".toList)

/-! ### reader: lexical level -/

def isWs (c : Char) : Bool := c = ' ' || c = '\n' || c = '\t' || c = '\r'

/-- skip white space and `#` comments (flag: inside a comment) -/
def skip : Bool → Str → Str
  | _, [] => []
  | true, c :: r => if c = '\n' || c = '\r' then skip false r else skip true r
  | false, c :: r => if isWs c then skip false r else if c = '#' then skip true r else c :: r

def ws (s : Str) : Str := skip false s

def upperChar (c : Char) : Char :=
  if 'a' ≤ c ∧ c ≤ 'z' then Char.ofNat (c.toNat - 32) else c

def isAlpha (c : Char) : Bool := ('a' ≤ c && c ≤ 'z') || ('A' ≤ c && c ≤ 'Z')
def isDigit (c : Char) : Bool := '0' ≤ c && c ≤ '9'
def isNameChar (c : Char) : Bool := isAlpha c || isDigit c || c = '_'
def isTagChar (c : Char) : Bool := isAlpha c || isDigit c || c = '-'

/-- case-insensitive prefix (the keyword is given in upper case) -/
def stripCI : Str → Str → Option Str
  | [], s => some s
  | _ :: _, [] => none
  | k :: ks, c :: s => if upperChar c = k then stripCI ks s else none

/-- a keyword: optional white space, the word, then something that is not a name character -/
def kw (k : String) (s : Str) : Option Str :=
  match stripCI k.toList (ws s) with
  | some r =>
    match r with
    | c :: _ => if isNameChar c then none else some r
    | [] => some r
  | none => none

/-- a punctuation character after optional white space -/
def sym (c : Char) (s : Str) : Option Str :=
  match ws s with
  | x :: r => if x = c then some r else none
  | [] => none

/-- `(body, rest)` with `s = body ++ stop :: rest`, `stop ∉ body` -/
def splitAt? (stop : Char) : Str → Option (Str × Str)
  | [] => none
  | c :: r => if c = stop then some ([], r) else (splitAt? stop r).map (fun br => (c :: br.1, br.2))

/-- IRIREF content: none of `<>"{}|^`\` and nothing up to U+0020 -/
def iriOK (s : Str) : Bool := s.all (fun c => !Tables.invalidUriChars.contains c && ' ' < c)

/-- `<iri>` (no white space skipping) -/
def readIriRaw : Str → Option (Str × Str)
  | '<' :: r =>
    match splitAt? '>' r with
    | some (b, rest) => if iriOK b then some (b, rest) else none
    | none => none
  | _ => none

def readIri (s : Str) : Option (Str × Str) := readIriRaw (ws s)

/-- ECHAR -/
def unesc : Char → Option Char
  | 't' => some '\t'
  | 'b' => some (Char.ofNat 8)
  | 'n' => some '\n'
  | 'r' => some '\r'
  | 'f' => some (Char.ofNat 12)
  | '\\' => some '\\'
  | '"' => some '"'
  | '\'' => some '\''
  | _ => none

/-- body of STRING_LITERAL2 up to and including the closing quote -/
def readShort : Str → Option (Str × Str)
  | [] => none
  | '"' :: r => some ([], r)
  | '\\' :: c :: r =>
    match unesc c, readShort r with
    | some x, some (b, rest) => some (x :: b, rest)
    | _, _ => none
  | c :: r =>
    if c = '\n' || c = '\r' || c = '\\' then none
    else (readShort r).map (fun br => (c :: br.1, br.2))

/-- body of STRING_LITERAL_LONG2 up to and including the closing `\"\"\"` -/
def readLong : Str → Option (Str × Str)
  | [] => none
  | '"' :: '"' :: '"' :: r => some ([], r)
  | '\\' :: c :: r =>
    match unesc c, readLong r with
    | some x, some (b, rest) => some (x :: b, rest)
    | _, _ => none
  | c :: r =>
    if c = '\\' then none
    else (readLong r).map (fun br => (c :: br.1, br.2))

def spanTag : Str → Str × Str
  | [] => ([], [])
  | c :: r => if isTagChar c then let (a, b) := spanTag r; (c :: a, b) else ([], c :: r)

/-- what follows the closing quote: `@lang`, `^^<datatype>`, or nothing -/
def readSuffix (lex : Str) : Str → Option (TTerm × Str)
  | '@' :: r =>
    match spanTag r with
    | ([], _) => none
    | (tag, rest) => some (.lit lex none (some tag), rest)
  | '^' :: '^' :: r =>
    match readIriRaw r with
    | some (d, rest) => some (.lit lex (some d) none, rest)
    | none => none
  | r => some (.lit lex none none, r)

/-- a literal starting at its opening quote -/
def readLitRaw : Str → Option (TTerm × Str)
  | '"' :: '"' :: '"' :: r =>
    match readLong r with
    | some (lex, rest) => readSuffix lex rest
    | none => none
  | '"' :: r =>
    match readShort r with
    | some (lex, rest) => readSuffix lex rest
    | none => none
  | _ => none

/-- a variable name after `?` -/
def spanName : Str → Str × Str
  | [] => ([], [])
  | c :: r => if isNameChar c then let (a, b) := spanName r; (c :: a, b) else ([], c :: r)

inductive Node
  | term (t : TTerm)
  | var (n : Str)
  deriving Repr, DecidableEq

/-- a term or a variable, after optional white space -/
def readNode (s : Str) : Option (Node × Str) :=
  match ws s with
  | '<' :: r => (readIriRaw ('<' :: r)).map (fun x => (.term (.iri x.1), x.2))
  | '"' :: r => (readLitRaw ('"' :: r)).map (fun x => (.term x.1, x.2))
  | '?' :: r =>
    match spanName r with
    | ([], _) => none
    | (n, rest) => some (.var n, rest)
  | _ => none

/-- up to `n` variables `?v ?w …`; their names -/
def readVarsAux : Nat → Str → List Str × Str
  | 0, s => ([], s)
  | n + 1, s =>
    match ws s with
    | '?' :: r =>
      match spanName r with
      | ([], _) => ([], s)
      | (v, rest) => let (vs, r') := readVarsAux n rest; (v :: vs, r')
    | _ => ([], s)

/-- a ground term -/
def readTerm (s : Str) : Option (TTerm × Str) :=
  match readNode s with
  | some (.term t, r) => some (t, r)
  | _ => none

/-- an optional `.` -/
def optDot (s : Str) : Str :=
  match sym '.' s with
  | some r => r
  | none => s

/-! ### reader: triples, patterns, blocks -/

def startsTerm (s : Str) : Bool :=
  match ws s with
  | c :: _ => c = '<' || c = '"'
  | [] => false

/-- ground triples `s p o [.]` as long as a term starts (fuel = number of triples allowed) -/
def readTriples : Nat → Str → Option (List TTriple × Str)
  | 0, _ => none
  | n + 1, s =>
    if startsTerm s then
      match readTerm s with
      | none => none
      | some (a, r1) =>
        match readTerm r1 with
        | none => none
        | some (b, r2) =>
          match readTerm r2 with
          | none => none
          | some (c, r3) =>
            match readTriples n (optDot r3) with
            | some (ts, rest) => some ((a, b, c) :: ts, rest)
            | none => none
    else some ([], s)

def nodePat : Node → Option TTerm
  | .term t => some t
  | .var _ => none

def nodeVar : Node → List Str
  | .term _ => []
  | .var n => [n]

abbrev NodeTriple := Node × Node × Node

/-- one triple pattern `s p o [.]`; the variables must be pairwise different (no joins) -/
def readPat (s : Str) : Option (NodeTriple × Str) :=
  match readNode s with
  | none => none
  | some (a, r1) =>
    match readNode r1 with
    | none => none
    | some (b, r2) =>
      match readNode r2 with
      | none => none
      | some (c, r3) =>
        let vs := nodeVar a ++ nodeVar b ++ nodeVar c
        if vs.Nodup then some ((a, b, c), optDot r3) else none

def lookupVar (n : Str) : List (Str × TTerm) → Option TTerm
  | [] => none
  | (k, v) :: r => if k = n then some v else lookupVar n r

/-- a position of a pattern under `VALUES` bindings: a term, a bound variable, or a wildcard -/
def nodeVal (bs : List (Str × TTerm)) : Node → Option TTerm
  | .term t => some t
  | .var n => lookupVar n bs

def patOf (bs : List (Str × TTerm)) (t : NodeTriple) : TPatT :=
  (nodeVal bs t.1, nodeVal bs t.2.1, nodeVal bs t.2.2)

/-- where a block is addressed: the default graph, a named graph, or `GRAPH ?var` -/
inductive GSel
  | dflt
  | named (g : Str)
  | anyNamed (v : Str)
  deriving Repr, DecidableEq

/-- `GRAPH <g> {` / `GRAPH ?v {` / nothing; the caller has consumed the outer `{` -/
def readGraphOpen (s : Str) : Option (GSel × Str) :=
  match kw "GRAPH" s with
  | none => some (.dflt, s)
  | some r =>
    match readNode r with
    | some (.term (.iri g), r') => (sym '{' r').map (fun r'' => (.named g, r''))
    | some (.var v, r') => (sym '{' r').map (fun r'' => (.anyNamed v, r''))
    | _ => none

def closeFor : GSel → Str → Option Str
  | .dflt, s => sym '}' s
  | _, s => (sym '}' s).bind (sym '}')

/-- `{ [GRAPH <g> {] triples [}] }` -/
def readQuadData (fuel : Nat) (s : Str) : Option ((Option Str × List TTriple) × Str) :=
  match sym '{' s with
  | none => none
  | some r =>
    match readGraphOpen r with
    | some (.dflt, r1) =>
      match readTriples fuel r1 with
      | some (ts, r2) => (sym '}' r2).map (fun r3 => ((none, ts), r3))
      | none => none
    | some (.named g, r1) =>
      match readTriples fuel r1 with
      | some (ts, r2) => (closeFor (.named g) r2).map (fun r3 => ((some g, ts), r3))
      | none => none
    | _ => none

def readTerms : Nat → Str → List TTerm × Str
  | 0, s => ([], s)
  | n + 1, s =>
    match readTerm s with
    | some (t, r) => let (ts, r') := readTerms n r; (t :: ts, r')
    | none => ([], s)

/-- `VALUES ( ?v … ) { ( t … ) }` with one row (what `update(initBindings=…)` injects); nothing
    when the keyword is absent -/
def readValues (s : Str) : Option (List (Str × TTerm) × Str) :=
  match kw "VALUES" s with
  | none => some ([], s)
  | some r =>
    (sym '(' r).bind fun r1 =>
      let (vs, r2) := readVarsAux 8 r1
      (sym ')' r2).bind fun r3 => (sym '{' r3).bind fun r4 => (sym '(' r4).bind fun r5 =>
        let (ts, r6) := readTerms 8 r5
        (sym ')' r6).bind fun r7 => (sym '}' r7).bind fun r8 =>
          if vs.length = ts.length then some (vs.zip ts, r8) else none

/-- `{ [VALUES …] [GRAPH g {] pattern [}] }` -/
def readQuadPat (s : Str) : Option ((List (Str × TTerm) × GSel × NodeTriple) × Str) :=
  match sym '{' s with
  | none => none
  | some r =>
    match readValues r with
    | none => none
    | some (bs, r0) =>
      match readGraphOpen r0 with
      | none => none
      | some (sel, r1) =>
        match readPat r1 with
        | none => none
        | some (p, r2) => (closeFor sel r2).map (fun r3 => ((bs, sel, p), r3))

/-! ### reader: update operations and requests -/

/-- `PREFIX name: <iri>` declarations -/
def skipPrologue : Nat → Str → Str
  | 0, s => s
  | n + 1, s =>
    match kw "PREFIX" s with
    | none => s
    | some r =>
      match splitAt? ':' (ws r) with
      | none => s
      | some (_, r1) =>
        match readIri r1 with
        | some (_, r2) => skipPrologue n r2
        | none => s

def selGraph : GSel → Option (Option Str)
  | .dflt => some none
  | .named g => some (some g)
  | .anyNamed _ => none

/-- meaning of `[WITH w] DELETE { tmpl } WHERE { [VALUES …] pat }` when template and pattern are
    the same single triple pattern in the same place (the template has no VALUES) -/
def modifyMeaning (w : Option Str) (d e : List (Str × TTerm) × GSel × NodeTriple) : Option TUOp :=
  if d.1 = [] ∧ d.2 = e.2 then
    let p := patOf e.1 e.2.2
    match w, e.2.1 with
    | none, .dflt => some (.deleteWhere none p)
    | none, .named g => some (.deleteWhere (some g) p)
    | none, .anyNamed _ => if e.1 = [] then some (.deleteNamed p) else none
    | some g, .dflt => some (.deleteWhere (some g) p)
    | some _, _ => none
  else none

def readOp (fuel : Nat) (s0 : Str) : Option (TUOp × Str) :=
  let s := skipPrologue fuel s0
  match kw "INSERT" s with
  | some r =>
    (kw "DATA" r).bind fun r1 => (readQuadData fuel r1).map fun x => (.insertData x.1.1 x.1.2, x.2)
  | none =>
  match kw "DELETE" s with
  | some r =>
    match kw "DATA" r with
    | some r1 => (readQuadData fuel r1).map fun x => (.deleteData x.1.1 x.1.2, x.2)
    | none =>
    match kw "WHERE" r with
    | some r1 =>
      (readQuadPat r1).bind fun x =>
        if x.1.1 = [] then (selGraph x.1.2.1).map fun g => (.deleteWhere g (patOf [] x.1.2.2), x.2) else none
    | none =>
      (readQuadPat r).bind fun d => (kw "WHERE" d.2).bind fun r2 => (readQuadPat r2).bind fun e =>
        (modifyMeaning none d.1 e.1).map fun u => (u, e.2)
  | none =>
  match kw "WITH" s with
  | some r =>
    (readIri r).bind fun g => (kw "DELETE" g.2).bind fun r1 => (readQuadPat r1).bind fun d =>
      (kw "WHERE" d.2).bind fun r2 => (readQuadPat r2).bind fun e =>
        (modifyMeaning (some g.1) d.1 e.1).map fun u => (u, e.2)
  | none =>
  match kw "DROP" s with
  | some r =>
    match kw "DEFAULT" r with
    | some r1 => some (.dropGraph none, r1)
    | none => (kw "GRAPH" r).bind fun r1 => (readIri r1).map fun g => (.dropGraph (some g.1), g.2)
  | none =>
  match kw "CREATE" s with
  | some r => (kw "GRAPH" r).bind fun r1 => (readIri r1).map fun g => (.createGraph g.1, g.2)
  | none => none

/-- operations separated by `;` up to the end of the text -/
def readOps : Nat → Nat → Str → Option (List TUOp)
  | 0, _, _ => none
  | n + 1, fuel, s =>
    match readOp fuel s with
    | none => none
    | some (u, r) =>
      match sym ';' r with
      | some r1 =>
        if ws r1 = [] then some [u]
        else (readOps n fuel (ws r1)).map (u :: ·)
      | none => if ws r = [] then some [u] else none

/-- the update operations a request text denotes -/
def readRequest (s : Str) : Option (List TUOp) := readOps (s.length + 1) (s.length + 1) s

/-! ### reader: the queries of `triples`, `__len__`, `contexts` -/

def readNat : Str → Option (Nat × Str)
  | s =>
    match (ws s).span isDigit with
    | ([], _) => none
    | (ds, rest) => some (ds.foldl (fun n c => 10 * n + (c.toNat - 48)) 0, rest)

def varPos (n : Str) : Option Pos :=
  if n = ['s'] then some .s else if n = ['p'] then some .p else if n = ['o'] then some .o else none

/-- with variables: their names must be `s`/`p`/`o` in their own positions -/
def patVarsOK (a b c : Node) : Bool :=
  (match a with | .var n => n == ['s'] | _ => true) &&
  (match b with | .var n => n == ['p'] | _ => true) &&
  (match c with | .var n => n == ['o'] | _ => true)

def readQPat (s : Str) : Option (TPatT × List Str × Str) :=
  match readNode s with
  | none => none
  | some (a, r1) =>
    match readNode r1 with
    | none => none
    | some (b, r2) =>
      match readNode r2 with
      | none => none
      | some (c, r3) =>
        if patVarsOK a b c then some ((nodePat a, nodePat b, nodePat c), nodeVar a ++ nodeVar b ++ nodeVar c, r3)
        else none

/-- `[ORDER BY ?v] [LIMIT n] [OFFSET n]`, and what follows -/
def readModifiersR (s : Str) : Option ((Option Pos × Option Nat × Option Nat) × Str) :=
  let (order, s1) : Option (Option Pos) × Str :=
    match kw "ORDER" s with
    | some r =>
      match kw "BY" r with
      | some r1 =>
        match readVarsAux 1 r1 with
        | ([v], r2) => ((varPos v).map some, r2)
        | _ => (none, r1)
      | none => (none, r)
    | none => (some none, s)
  match order with
  | none => none
  | some ord =>
    let (limit, s2) : Option (Option Nat) × Str :=
      match kw "LIMIT" s1 with
      | some r => match readNat r with | some (n, r1) => (some (some n), r1) | none => (none, r)
      | none => (some none, s1)
    match limit with
    | none => none
    | some lim =>
      let (offset, s3) : Option (Option Nat) × Str :=
        match kw "OFFSET" s2 with
        | some r => match readNat r with | some (n, r1) => (some (some n), r1) | none => (none, r)
        | none => (some none, s2)
      match offset with
      | none => none
      | some off => some ((ord, lim, off), s3)

def readModifiers (s : Str) : Option (Option Pos × Option Nat × Option Nat) :=
  (readModifiersR s).bind fun x => if ws x.2 = [] then some x.1 else none

def readQuery (s : Str) : Option TQuery :=
  if s = lenQueryText then some .len else
  match kw "ASK" s with
  | some r =>
    (sym '{' r).bind fun r1 => (readQPat r1).bind fun x =>
      if x.2.1 = [] then (sym '}' (optDot x.2.2)).bind fun r2 =>
        (readModifiers r2).map fun m => .triples x.1 m.1 m.2.1 m.2.2
      else none
  | none =>
  match kw "SELECT" s with
  | none => none
  | some r =>
    let (vs, r1) := readVarsAux 4 r
    if vs = [['n', 'a', 'm', 'e']] then
      -- contexts: SELECT ?name WHERE { GRAPH ?name { [s p o] } }
      (kw "WHERE" r1).bind fun r2 => (sym '{' r2).bind fun r3 => (kw "GRAPH" r3).bind fun r4 =>
        match readVarsAux 1 r4 with
        | ([['n', 'a', 'm', 'e']], r5) =>
          (sym '{' r5).bind fun r6 =>
            match sym '}' r6 with
            | some r7 => (sym '}' r7).bind fun r8 => if ws r8 = [] then some (.contexts none) else none
            | none =>
              (readQPat r6).bind fun x => (sym '}' (optDot x.2.2)).bind fun r7 => (sym '}' r7).bind fun r8 =>
                if ws r8 = [] then some (.contexts (some x.1)) else none
        | _ => none
    else
      (sym '{' r1).bind fun r2 => (readQPat r2).bind fun x =>
        -- the selected variables are exactly the variables of the pattern (in any order)
        if x.2.1.all (vs.contains ·) && vs.all (x.2.1.contains ·) && !vs.isEmpty then (sym '}' (optDot x.2.2)).bind fun r3 =>
          (readModifiers r3).map fun m => .triples x.1 m.1 m.2.1 m.2.2
        else none

/-- modifiers, then an optional one-row `VALUES` block (what `query(initBindings=…)` appends), then
    the end of the text -/
def readTailB (s : Str) : Option ((Option Pos × Option Nat × Option Nat) × List (Str × TTerm)) :=
  (readModifiersR s).bind fun m => (readValues m.2).bind fun v =>
    if ws v.2 = [] then some (m.1, v.1) else none

/-- a caller's or the store's pattern query with an optional trailing `VALUES` block:
    `[PREFIX …] (ASK | SELECT vars) [WHERE] { s p o [.] } [modifiers] [VALUES ( ?v … ) { ( t … ) }]`.
    The answer is the query and the one-row table it is joined with. -/
def readQueryB (s0 : Str) : Option (TQuery × List (Str × TTerm)) :=
  let s := skipPrologue (s0.length + 1) s0
  let body := fun (vs : Option (List Str)) (r : Str) =>
    let r' := match kw "WHERE" r with | some x => x | none => r
    (sym '{' r').bind fun r1 => (readQPat r1).bind fun x =>
      let ok := match vs with
        | none => x.2.1.isEmpty
        | some vs => x.2.1.all (vs.contains ·) && vs.all (x.2.1.contains ·) && !vs.isEmpty
      if ok then (sym '}' (optDot x.2.2)).bind fun r2 =>
        (readTailB r2).map fun t => (TQuery.triples x.1 t.1.1 t.1.2.1 t.1.2.2, t.2)
      else none
  match kw "ASK" s with
  | some r => body none r
  | none =>
    match kw "SELECT" s with
    | none => none
    | some r => let (vs, r1) := readVarsAux 4 r; body (some vs) r1

/-- joining a pattern query with a one-row table binds the table's variables in the pattern
    (`s`, `p`, `o` name the positions) -/
def TQuery.joinRow (bs : List (Str × TTerm)) : TQuery → TQuery
  | .triples p o l f =>
    .triples (match p.1 with | none => lookupVar ['s'] bs | x => x,
              match p.2.1 with | none => lookupVar ['p'] bs | x => x,
              match p.2.2 with | none => lookupVar ['o'] bs | x => x) o l f
  | q => q

end RV.C20
