import RV.C06.Lemmas
/-
  C06 — helper lemmas, part 4: the source object is a ConjunctiveGraph.
  Its default context is a graph of the store identified by a blank node (`Src.dflt = .bnode l₀`).
  N-Quads and TriX write it under that blank-node name; TriG, hext and JSON-LD write it as the
  default graph.  `toDs` is the second reading: the default context's quads moved to `Name.default`.
-/
namespace RV.C06

/-- the ConjunctiveGraph's default context read as "the default graph" -/
def toDs (dflt : Name) (q : Quad) : Quad := (q.1, if q.2 = dflt then Name.default else q.2)

structure CgWF (s : Src) : Prop where
  cg : s.cg = true
  dflt : s.dflt.isIri = false
  covers : Covers s

theorem mem_map_toDs {d : List Quad} {dflt : Name} {t : Triple} {g' : Name} :
    (t, g') ∈ d.map (toDs dflt) ↔ ∃ g, (t, g) ∈ d ∧ g' = if g = dflt then Name.default else g := by
  simp only [List.mem_map]
  constructor
  · rintro ⟨⟨t0, g0⟩, h, e⟩
    simp only [toDs, Prod.mk.injEq] at e
    obtain ⟨rfl, rfl⟩ := e
    exact ⟨g0, h, rfl⟩
  · rintro ⟨g0, h, rfl⟩
    exact ⟨(t, g0), h, rfl⟩

theorem stmts_map_toDs {d : List Quad} {sp : Name → Spell} {names : List Name} {dflt : Name}
    (hsp : ∀ g, (∃ t, (t, g) ∈ d) → dest (sp g) = if g = dflt then Name.default else g)
    (hcov : ∀ q ∈ d, q.2 ∈ names) (t : Triple) (g' : Name) :
    (t, g') ∈ stmts (names.map (blockOf d sp)) ↔ (t, g') ∈ d.map (toDs dflt) := by
  rw [mem_stmts_map, mem_map_toDs]
  constructor
  · rintro ⟨g, _, ht, hg⟩
    exact ⟨g, ht, by rw [hg, hsp g ⟨t, ht⟩]⟩
  · rintro ⟨g, ht, hg⟩
    exact ⟨g, hcov _ ht, ht, by rw [hg, hsp g ⟨t, ht⟩]⟩

theorem dfltNonEmpty_of_mem {s : Src} {t : Triple} (h : (t, s.dflt) ∈ s.d) : dfltNonEmpty s = true := by
  unfold dfltNonEmpty
  rw [isEmpty_triplesOf_false h]
  rfl

/-- N-Quads / TriX: the statements are the store's quads, literally (any source with `Covers`) -/
theorem stmts_emitNQuads_lit {s : Src} (hc : Covers s) (t : Triple) (g : Name) :
    (t, g) ∈ stmts (emitNQuads s) ↔ (t, g) ∈ s.d :=
  stmts_map_of_dest dest_nqSpell hc t g

theorem stmts_emitTrix_lit {s : Src} (hc : Covers s) (t : Triple) (g : Name) :
    (t, g) ∈ stmts (emitTrix s) ↔ (t, g) ∈ s.d :=
  stmts_map_of_dest (fun _ => rfl) hc t g

theorem stmts_emitTrig_cg {s : Src} (hc : Covers s) (t : Triple) (g : Name) :
    (t, g) ∈ stmts (emitTrig s) ↔ (t, g) ∈ s.d.map (toDs s.dflt) := by
  refine stmts_map_toDs ?_ ?_ t g
  · intro g _
    unfold trigSpell
    split <;> rfl
  · intro q hq
    rw [List.mem_filter]
    refine ⟨mem_dedup.mpr (mem_ctxPlusDefault.mpr (Or.inl (hc q hq))), ?_⟩
    have : (triplesOf s.d q.2).isEmpty = false := isEmpty_triplesOf_false (t := q.1) hq
    simp [this]

theorem stmts_emitHext_cg {s : Src} (hc : Covers s) (t : Triple) (g : Name) :
    (t, g) ∈ stmts (emitHext s) ↔ (t, g) ∈ s.d.map (toDs s.dflt) := by
  refine stmts_map_toDs ?_ ?_ t g
  · rintro g ⟨t0, ht0⟩
    unfold hextSpell
    split
    · next hg => subst hg; simp [dest]
    · next hg =>
      split
      · next h2 =>
        simp only [Bool.and_eq_true, decide_eq_true_eq] at h2
        simp [dest, h2.2]
      · next h2 =>
        have : g ≠ s.dflt := by
          intro e
          subst e
          exact h2 (by simp [dfltNonEmpty_of_mem ht0])
        simp [dest, this]
  · intro q hq
    exact mem_ctxPlusDefault.mpr (Or.inl (hc q hq))

/-- what the JSON-LD loop accumulates in the scratch default graph: the default context's triples -/
theorem mem_jsonldLoop_merged (s : Src) (hd : s.dflt.isIri = false) (t : Triple) (gs : List Name) :
    ∀ (named : List Name) (merged : List Triple), s.dflt ∉ named →
      (t ∈ (jsonldLoop s false gs (named, merged)).2 ↔
        t ∈ merged ∨ (s.dflt ∈ gs ∧ t ∈ triplesOf s.d s.dflt)) := by
  induction gs with
  | nil => intro named merged _; simp [jsonldLoop]
  | cons x xs ih =>
    intro named merged hn
    unfold jsonldLoop
    split
    · next h =>
      simp only [Bool.false_and, Bool.false_or, decide_eq_true_eq] at h
      have hx : s.dflt ≠ x := fun e => hn (e ▸ h)
      rw [ih _ _ hn]
      simp [hx]
    · next h =>
      split
      · next h2 =>
        simp only [Bool.or_eq_true, decide_eq_true_eq] at h2
        have hx : s.dflt ≠ x := by
          rcases h2 with h2 | h2
          · intro e; rw [← e, hd] at h2; cases h2
          · exact fun e => h2 e.symm
        rw [ih _ _ (by simp [hn, hx])]
        simp [hx]
      · next h2 =>
        simp only [Bool.or_eq_true, decide_eq_true_eq, not_or, Classical.not_not] at h2
        rw [ih _ _ hn, List.mem_append, h2.2]
        simp only [List.mem_cons, true_or, true_and]
        constructor
        · rintro ((h' | h') | ⟨_, h'⟩)
          · exact Or.inl h'
          · exact Or.inr h'
          · exact Or.inr h'
        · rintro (h' | h')
          · exact Or.inl (Or.inl h')
          · exact Or.inl (Or.inr h')

theorem jsonldOwn_cg {s : Src} (hd : s.dflt.isIri = false) : jsonldOwn s = false := by
  unfold jsonldOwn
  have : s.dflt ≠ Name.default := by intro e; rw [e] at hd; cases hd
  simp [this]

theorem stmts_emitJsonld_cg {s : Src} (h : CgWF s) (t : Triple) (g : Name) :
    (t, g) ∈ stmts (emitJsonld s) ↔ (t, g) ∈ s.d.map (toDs s.dflt) := by
  unfold emitJsonld
  simp only [jsonldOwn_cg h.dflt, Bool.false_eq_true, if_false, List.nil_append]
  rw [mem_stmts_nonEmptyBlocks, mem_map_toDs]
  simp only [stmts, List.mem_append, mem_blockStmts,
    mem_jsonldLoop_merged s h.dflt t (ctxList s) [] [] (by simp),
    mem_triplesOf, mem_stmts_map, mem_jsonldLoop_named, List.not_mem_nil,
    false_or, dest, Bool.false_eq_true, false_and, not_false_eq_true, true_and]
  constructor
  · rintro (⟨⟨_, ht⟩, hg⟩ | ⟨g0, ⟨_, hg0⟩, ht, hg⟩)
    · exact ⟨s.dflt, ht, by simp [hg]⟩
    · refine ⟨g0, ht, ?_⟩
      have : g0 ≠ s.dflt := by
        rcases hg0 with hg0 | hg0
        · intro e; rw [e, h.dflt] at hg0; cases hg0
        · exact hg0
      simp [this, hg]
  · rintro ⟨g0, ht, hg⟩
    by_cases e : g0 = s.dflt
    · subst e
      exact Or.inl ⟨⟨h.covers _ ht, ht⟩, by simp [hg]⟩
    · exact Or.inr ⟨g0, ⟨h.covers _ ht, Or.inr e⟩, ht, by simp [e, hg]⟩

end RV.C06
