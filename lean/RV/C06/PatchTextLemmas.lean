import RV.C06.Lemmas
import RV.C06.PatchLemmas
import RV.C06.PatchText
/-
  C06, round g — helper lemmas for the text level of RDF Patch.
-/
namespace RV.C06

/-! ### reading what the writer writes, line by line -/

theorem dest_spellLabel (sp : Spell) : (spellLabel sp).read = dest sp := by
  cases sp <;> rfl

theorem parseLine_patchRow (s : Src) (op : POp) (g : Name) (t : Triple) :
    parseLine (patchRow s op g t) = .row (op, (t, dest (patchSpell s g))) := by
  cases op <;>
    simp [patchRow, codeLine, opCode, parseLine, opOf, opOfIn, allCodes, PCode.text, startsWith, lstrip,
      readQuadRow, PTerm.read, dest_spellLabel]

theorem parseLine_header (b : PBody) : parseLine (codeLine .H b) = .skip := by
  simp [codeLine, parseLine, opOf, opOfIn, allCodes, PCode.text, startsWith]

theorem parseLine_tx (b : PBody) : parseLine (codeLine .TX b) = .skip := by
  simp [codeLine, parseLine, opOf, opOfIn, allCodes, PCode.text, startsWith]

theorem parseLine_tc (b : PBody) : parseLine (codeLine .TC b) = .skip := by
  simp [codeLine, parseLine, opOf, opOfIn, allCodes, PCode.text, startsWith]

/-! ### documents without a raising line -/

def NoErr (ls : List PLine) : Prop := ∀ l ∈ ls, ∀ e, parseLine l ≠ .err e

theorem NoErr.append {a b : List PLine} (ha : NoErr a) (hb : NoErr b) : NoErr (a ++ b) := by
  intro l hl
  rcases List.mem_append.mp hl with h | h
  · exact ha l h
  · exact hb l h

theorem docRows_append {a : List PLine} (ha : NoErr a) (b : List PLine) :
    docRows (a ++ b) = docRows a ++ docRows b := by
  induction a with
  | nil => rfl
  | cons l ls ih =>
    have hl := ha l (List.mem_cons_self ..)
    have ih' := ih (fun x hx => ha x (List.mem_cons_of_mem _ hx))
    simp only [List.cons_append, docRows]
    cases h : parseLine l with
    | skip => simpa using ih'
    | row r => simp [ih']
    | err e => exact absurd h (hl e)

theorem parseDoc_noErr {ls : List PLine} (h : NoErr ls) :
    ∀ d, parseDoc ls d = (apply (docRows ls) d, none) := by
  induction ls with
  | nil => intro d; rfl
  | cons l ls ih =>
    intro d
    have hl := h l (List.mem_cons_self ..)
    have ih' := ih (fun x hx => h x (List.mem_cons_of_mem _ hx))
    simp only [parseDoc, docRows]
    cases hp : parseLine l with
    | skip => simpa using ih' d
    | row r => simpa [apply] using ih' (applyRow d r)
    | err e => exact absurd hp (hl e)

/-! ### the writer -/

theorem tagRows_append (op : POp) (a b : List Quad) : tagRows op (a ++ b) = tagRows op a ++ tagRows op b := by
  induction a with
  | nil => rfl
  | cons x xs ih => simp [tagRows, ih]

theorem noErr_rowsOfGraph (s : Src) (op : POp) (g : Name) (ts : List Triple) : NoErr (rowsOfGraph s op g ts) := by
  induction ts with
  | nil => intro l hl; cases hl
  | cons t ts ih =>
    intro l hl e
    simp only [rowsOfGraph, List.mem_cons] at hl
    rcases hl with rfl | hl
    · rw [parseLine_patchRow]; simp
    · exact ih l hl e

theorem docRows_rowsOfGraph (s : Src) (op : POp) (g : Name) (ts : List Triple) :
    docRows (rowsOfGraph s op g ts) = tagRows op (blockStmts (patchSpell s g) ts) := by
  induction ts with
  | nil => rfl
  | cons t ts ih => simp [rowsOfGraph, docRows, parseLine_patchRow, blockStmts, tagRows, ih]

theorem noErr_writeTriples (s : Src) (d : List Quad) (op : POp) (gs : List Name) : NoErr (writeTriples s d op gs) := by
  induction gs with
  | nil => intro l hl; cases hl
  | cons g gs ih => exact NoErr.append (noErr_rowsOfGraph _ _ _ _) ih

/-- the rows of `write_triples` are, in this order, the statements of "one block per listed graph" -/
theorem docRows_writeTriples (s : Src) (d : List Quad) (op : POp) (gs : List Name) :
    docRows (writeTriples s d op gs) = tagRows op (stmts (gs.map (blockOf d (patchSpell s)))) := by
  induction gs with
  | nil => rfl
  | cons g gs ih =>
    simp only [writeTriples, List.map_cons, stmts, blockOf]
    rw [docRows_append (noErr_rowsOfGraph _ _ _ _), docRows_rowsOfGraph, ih, tagRows_append]

theorem NoErr.nil : NoErr [] := by intro l hl; cases hl

theorem NoErr.cons_skip {l : PLine} {ls : List PLine} (hl : parseLine l = .skip) (h : NoErr ls) : NoErr (l :: ls) := by
  intro x hx e
  rcases List.mem_cons.mp hx with rfl | hx
  · rw [hl]; simp
  · exact h x hx e

theorem noErr_writeHeader (hid hprev : Option Nat) : NoErr (writeHeader hid hprev) := by
  cases hid <;> cases hprev <;>
    simp only [writeHeader, List.nil_append, List.cons_append]
  · exact NoErr.cons_skip (parseLine_tx _) NoErr.nil
  · exact NoErr.cons_skip (parseLine_header _) (NoErr.cons_skip (parseLine_tx _) NoErr.nil)
  · exact NoErr.cons_skip (parseLine_header _) (NoErr.cons_skip (parseLine_tx _) NoErr.nil)
  · exact NoErr.cons_skip (parseLine_header _)
      (NoErr.cons_skip (parseLine_header _) (NoErr.cons_skip (parseLine_tx _) NoErr.nil))

theorem skip_writeHeader (hid hprev : Option Nat) : ∀ l ∈ writeHeader hid hprev, parseLine l = .skip := by
  intro l hl
  cases hid <;> cases hprev <;>
    simp only [writeHeader, List.nil_append, List.cons_append, List.mem_cons, List.not_mem_nil, or_false] at hl
  · subst hl; exact parseLine_tx _
  · rcases hl with rfl | rfl
    · exact parseLine_header _
    · exact parseLine_tx _
  · rcases hl with rfl | rfl
    · exact parseLine_header _
    · exact parseLine_tx _
  · rcases hl with rfl | rfl | rfl
    · exact parseLine_header _
    · exact parseLine_header _
    · exact parseLine_tx _

theorem docRows_writeHeader (hid hprev : Option Nat) : docRows (writeHeader hid hprev) = [] := by
  cases hid <;> cases hprev <;>
    simp [writeHeader, docRows, parseLine_header, parseLine_tx]

theorem noErr_tc : NoErr [codeLine .TC .dot] := NoErr.cons_skip (parseLine_tc _) NoErr.nil

/-- the document is header ++ body ++ `TC .`; its rows are the rows of the body -/
theorem docRows_frame (hid hprev : Option Nat) {body : List PLine} (hb : NoErr body) :
    docRows (writeHeader hid hprev ++ body ++ [codeLine .TC .dot]) = docRows body := by
  rw [List.append_assoc, docRows_append (noErr_writeHeader hid hprev), docRows_writeHeader,
    docRows_append hb]
  simp [docRows, parseLine_tc]

theorem noErr_frame (hid hprev : Option Nat) {body : List PLine} (hb : NoErr body) :
    NoErr (writeHeader hid hprev ++ body ++ [codeLine .TC .dot]) :=
  NoErr.append (NoErr.append (noErr_writeHeader hid hprev) hb) noErr_tc

/-! ### the scratch datasets of `_diff` -/

theorem dest_patchSpell {s : Src} (h : s.dflt = Name.default) (g : Name) : dest (patchSpell s g) = g := by
  unfold patchSpell
  split
  · next hg => rw [hg, h]; rfl
  · exact dest_nqSpell g

theorem mem_ctxList_of_mem_cs {s : Src} {g : Name} (h : g ∈ s.cs) : g ∈ ctxList s := by
  unfold ctxList
  split
  · exact h
  · split
    · exact h
    · exact List.mem_append_left _ h

theorem covers_quadSrc (d : List Quad) : ∀ q ∈ (quadSrc d).d, q.2 ∈ ctxList (quadSrc d) := by
  intro q hq
  have h1 : q.2 ∈ (quadSrc d).cs := mem_dedup.mpr (List.mem_map.mpr ⟨q, hq, rfl⟩)
  exact mem_ctxList_of_mem_cs h1

theorem setEq_stmts_quadSrc {s : Src} (h : s.dflt = Name.default) (d : List Quad) :
    SetEq (stmts ((ctxList (quadSrc d)).map (blockOf (quadSrc d).d (patchSpell s)))) d := by
  rintro ⟨t, g⟩
  exact stmts_map_of_dest (dest_patchSpell h) (covers_quadSrc d) t g

/-- body of the document written for `target=` -/
def diffBody (s : Src) (d2 : List Quad) : List PLine :=
  writeTriples s (quadSrc (qdiff d2 s.d)).d .add (ctxList (quadSrc (qdiff d2 s.d))) ++
  writeTriples s (quadSrc (qdiff s.d d2)).d .del (ctxList (quadSrc (qdiff s.d d2)))

theorem serializeDoc_target (d2 : List Quad) (hid hprev : Option Nat) (s : Src) :
    serializeDoc none (some d2) hid hprev s = writeHeader hid hprev ++ diffBody s d2 ++ [codeLine .TC .dot] := rfl

theorem serializeDoc_operation (o : POp) (target : Option (List Quad)) (hid hprev : Option Nat) (s : Src) :
    serializeDoc (some o) target hid hprev s =
      writeHeader hid hprev ++ writeTriples s s.d o (ctxList s) ++ [codeLine .TC .dot] := by
  cases target <;> rfl

theorem serializeDoc_default (hid hprev : Option Nat) (s : Src) :
    serializeDoc none none hid hprev s = serializeDoc (some .add) none hid hprev s := rfl

theorem noErr_diffBody (s : Src) (d2 : List Quad) : NoErr (diffBody s d2) :=
  NoErr.append (noErr_writeTriples _ _ _ _) (noErr_writeTriples _ _ _ _)

theorem docRows_diffBody (s : Src) (d2 : List Quad) :
    docRows (diffBody s d2) =
      tagRows .add (stmts ((ctxList (quadSrc (qdiff d2 s.d))).map (blockOf (quadSrc (qdiff d2 s.d)).d (patchSpell s)))) ++
      tagRows .del (stmts ((ctxList (quadSrc (qdiff s.d d2))).map (blockOf (quadSrc (qdiff s.d d2)).d (patchSpell s)))) := by
  unfold diffBody
  rw [docRows_append (noErr_writeTriples _ _ _ _), docRows_writeTriples, docRows_writeTriples]

end RV.C06
