import RV.C06.Model
/-
  C06, round g — the TriG serializer's per-graph bookkeeping as the loops it really runs:
  `TrigSerializer.preprocess` fills the dict `self._contexts` (keyed by graph; empty graphs are passed over; a graph
  listed twice overwrites its own entry and keeps its place), `TrigSerializer.serialize` walks the dict, passes over
  entries without subjects and chooses the block header by identifier.
-/
namespace RV.C06

/-- `self._contexts[context] = value`: Python dict — an existing key keeps its position, the value is replaced -/
def dictSet (m : List (Name × List Triple)) (g : Name) (v : List Triple) : List (Name × List Triple) :=
  match m with
  | [] => [(g, v)]
  | (k, w) :: m' => if k = g then (k, v) :: m' else (k, w) :: dictSet m' g v

/-- `preprocess`: `for context in self.contexts: if len(context) == 0: continue; …; self._contexts[context] = (…)` -/
def trigPreprocess (s : Src) : List Name → List (Name × List Triple) → List (Name × List Triple)
  | [], m => m
  | g :: gs, m =>
    if (triplesOf s.d g).isEmpty then trigPreprocess s gs m
    else trigPreprocess s gs (dictSet m g (triplesOf s.d g))

/-- `serialize`: `for store, (ordered_subjects, subjects) in self._contexts.items(): if not ordered_subjects: continue`,
    then `{` for the default graph (by identifier) or `<label> {` -/
def trigBlocks (s : Src) : List (Name × List Triple) → List Block
  | [] => []
  | (g, ts) :: m => if ts.isEmpty then trigBlocks s m else ⟨trigSpell s g, ts⟩ :: trigBlocks s m

/-- `TrigSerializer.__init__` + `preprocess` + `serialize` -/
def emitTrigLoop (s : Src) : List Block := trigBlocks s (trigPreprocess s (ctxPlusDefault s) [])

end RV.C06
