import RV.C06.Model
import RV.C16.Text
/-
  C06, round h — the TEXT level of HexTuples: the row `HextuplesSerializer._hex_line` writes
  (`json.dumps([s, p, value, datatype, language, graph]) + "\n"`, six JSON strings) and the row reader of
  `HextuplesParser` (`json.loads(line)`, `""` → `None` except for the value, `_parse_hextuple`).
  The JSON string codec is C16's verified model of CPython's `encode_basestring_ascii` / `scanstring`
  (`RV/C16/Text.lean`, core-only); this file adds the array level and the six columns.
-/
namespace RV.C06
open RV.C16 (Str Err pyDumpsStr jsonScan)

/-! ### terms at string level -/

inductive HNode
  | iri (s : Str)
  | bnode (l : Str)
  deriving DecidableEq, Repr

inductive HObj
  | node (n : HNode)
  | plain (lex : Str)                 -- `Literal("x")`
  | lang (lex : Str) (l : Str)        -- `Literal("x", lang=l)`
  | typed (lex : Str) (dt : Str)      -- `Literal("x", datatype=URIRef(dt))`
  deriving DecidableEq, Repr

def sGlobalId : Str := "globalId".toList
def sLocalId : Str := "localId".toList
def sLangString : Str := "http://www.w3.org/1999/02/22-rdf-syntax-ns#langString".toList
def sXsdString : Str := "http://www.w3.org/2001/XMLSchema#string".toList

/-- `_iri_or_bn`: `f"{iri}"` / `bnode.n3()` -/
def nodeStr : HNode → Str
  | .iri s => s
  | .bnode l => '_' :: ':' :: l

/-- the six columns of `_hex_line` (`ctx` = what `_context_str` returned) -/
def hexFields (s : HNode) (p : Str) (o : HObj) (ctx : Str) : List Str :=
  match o with
  | .node (.iri x) => [nodeStr s, p, x, sGlobalId, [], ctx]
  | .node (.bnode l) => [nodeStr s, p, nodeStr (.bnode l), sLocalId, [], ctx]
  | .plain lex => [nodeStr s, p, lex, sXsdString, [], ctx]
  | .lang lex l => [nodeStr s, p, lex, sLangString, l, ctx]
  | .typed lex dt => [nodeStr s, p, lex, dt, [], ctx]

/-- `_context_str` as text: `""`, `f"{iri}"` or `bnode.n3()` -/
def ctxStr : Option HNode → Str
  | none => []
  | some n => nodeStr n

/-- `json.dumps(list_of_str)`: `[`, items separated by `", "`, `]`; strings through `encode_basestring_ascii` -/
def dumpsItems : List Str → Str
  | [] => []
  | [x] => pyDumpsStr true x
  | x :: y :: xs => pyDumpsStr true x ++ ',' :: ' ' :: dumpsItems (y :: xs)

def dumpsArr (xs : List Str) : Str := '[' :: (dumpsItems xs ++ [']'])

/-- the line written for one triple: `json.dumps(line_list) + "\n"` -/
def hexLine (s : HNode) (p : Str) (o : HObj) (ctx : Str) : Str := dumpsArr (hexFields s p o ctx) ++ ['\n']

/-! ### `json.loads` of an array of strings / nulls -/

inductive JV
  | str (s : Str)
  | null
  deriving DecidableEq, Repr

/-- `WHITESPACE.match` of json.decoder -/
def skipWs : Str → Str
  | [] => []
  | c :: cs => if c = ' ' ∨ c = '\t' ∨ c = '\n' ∨ c = '\r' then skipWs cs else c :: cs

/-- one array element: a string (C16's `scanstring`) or `null`; other JSON values are outside the model -/
def readValue : Str → Except Err (JV × Str)
  | '"' :: r =>
    match jsonScan r with
    | .ok (s, rest, false) => .ok (.str s, rest)
    | .ok (_, _, true) => .error .unmodelled
    | .error e => .error e
  | 'n' :: 'u' :: 'l' :: 'l' :: r => .ok (.null, r)
  | [] => .error .value
  | c :: _ => if c = '[' ∨ c = '{' ∨ c = '-' ∨ c = 't' ∨ c = 'f' ∨ c = 'n' ∨ c.isDigit then .error .unmodelled else .error .value

/-- elements after `[` (at least one), up to and including `]`; `fuel` ≥ number of elements -/
def arrElems : Nat → Str → Except Err (List JV × Str)
  | 0, _ => .error .unmodelled
  | n + 1, s =>
    match readValue s with
    | .error e => .error e
    | .ok (v, rest) =>
      match skipWs rest with
      | ',' :: r =>
        match arrElems n (skipWs r) with
        | .ok (vs, r') => .ok (v :: vs, r')
        | .error e => .error e
      | ']' :: r => .ok ([v], r)
      | _ => .error .value

/-- `json.loads(line)` for a line that holds one array -/
def loadsArr (line : Str) : Except Err (List JV) :=
  match skipWs line with
  | '[' :: r =>
    match skipWs r with
    | ']' :: r' => if skipWs r' = [] then .ok [] else .error .value
    | r1 =>
      match arrElems line.length r1 with
      | .ok (vs, r') => if skipWs r' = [] then .ok vs else .error .value       -- "Extra data"
      | .error e => .error e
  | _ => .error .unmodelled

/-! ### the row reader -/

/-- `x if x != "" else None` -/
def noneIfEmpty : JV → Option Str
  | .str [] => none
  | .str s => some s
  | .null => none

/-- subject / `localId` value: `startswith("_")` → `BNode(x[2:] if x.startswith("_:") else x)` -/
def readBnodeLabel : Str → Str
  | '_' :: ':' :: l => l
  | x => x

def readSubject : Str → HNode
  | '_' :: r => .bnode (readBnodeLabel ('_' :: r))
  | x => .iri x

/-- graph column: `BNode(x[2:]) if x.startswith("_:") else URIRef(x)` -/
def readGraph : Str → HNode
  | '_' :: ':' :: l => .bnode l
  | x => .iri x

structure HQuad where
  s : HNode
  p : Str
  o : HObj
  g : Option HNode        -- `none` = the sink's default graph
  deriving DecidableEq, Repr

/-- `hex_tuple_line` + `_parse_hextuple` on the decoded list -/
def parseFields : List JV → Except Err HQuad
  | a :: b :: c :: d :: rest =>
    -- `if raw_line[2] == "": hex_tuple_line[2] = ""`
    let v : Option Str := match c with | .str s => some s | .null => none
    match noneIfEmpty a, noneIfEmpty b, v, noneIfEmpty d with
    | some s, some p, some v, some dt =>
      let subj := readSubject s
      let withCtx (o : HObj) : List JV → Except Err HQuad
        | g :: _ => .ok ⟨subj, p, o, (noneIfEmpty g).map readGraph⟩
        | [] => .error .index
      if dt = sGlobalId then
        match rest with
        | _ :: r => withCtx (.node (.iri v)) r
        | [] => .error .index
      else if dt = sLocalId then
        match rest with
        | _ :: r => withCtx (.node (.bnode (readBnodeLabel v))) r
        | [] => .error .index
      else
        match rest with
        | l :: r =>
          match noneIfEmpty l with
          | none => withCtx (.typed v dt) r
          | some l => withCtx (.lang v l) r
        | [] => .error .index
    | _, _, _, _ => .error .value        -- "subject, predicate, value, datatype cannot be None"
  | _ => .error .index

/-- one line of a hextuples document -/
def parseHexLine (line : Str) : Except Err HQuad :=
  match loadsArr line with
  | .ok vs => parseFields vs
  | .error e => .error e

/-- what a literal looks like after the trip: a plain literal comes back typed `xsd:string` -/
def normObj : HObj → HObj
  | .plain lex => .typed lex sXsdString
  | o => o

end RV.C06
