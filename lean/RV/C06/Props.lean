import RV.C06.Lemmas
namespace RV.C06
end RV.C06
