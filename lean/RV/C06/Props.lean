import RV.C06.Lemmas
import RV.C06.Fresh
import RV.C06.PatchLemmas
import RV.C06.CG
import RV.C06.PatchTextLemmas
import RV.C06.TrigLoopLemmas
import RV.C06.HextTextLemmas
/-
  C06 — property theorems (statements first, as `def … : Prop`, then the proofs).

  "Quad syntaxes round-trip a Dataset: each triple returns to the graph it was in; an RDF Patch
   produced as the difference of two datasets, applied to the first, yields the second."

  Specification side: a dataset is a list of quads read as a set; "the same up to renaming of
  blank nodes" is ONE injective function on labels applied to subjects, objects AND graph names.
-/
namespace RV.C06

/-! ### Specification -/

/-- equal as sets of quads up to one injective renaming of blank nodes (graph names included) -/
def Iso (a b : List Quad) : Prop :=
  ∃ f : Nat → Nat, Function.Injective f ∧ SetEq (a.map (mapQuad f)) b

/-! ### Statements -/

/-- Serialise a Dataset in format `F`, parse the document into an empty Dataset: the same quads up to
    one renaming of blank nodes — each triple is back in the graph (default, IRI-named or
    blank-node-named) it was asserted in, and in no other.  `fresh` = first node id the parser may allocate. -/
def Statement_quad_roundtrip (F : Fmt) : Prop :=
  ∀ (s : Src), DsWF s → ∀ fresh : Nat, Iso s.d (route F (emit F s) fresh)

/-- `(t, g)` is a quad of the dataset iff the document has a block that is routed to `g` and contains `t`
    (so a triple is written under the name of every graph it is in and under no other name, however
    often a graph is listed by `contexts()`). -/
def Statement_each_triple_one_block (F : Fmt) : Prop :=
  ∀ (s : Src), DsWF s → ∀ (t : Triple) (g : Name),
    (t, g) ∈ s.d ↔ ∃ b ∈ emit F s, dest b.spell = g ∧ t ∈ b.triples

/-- Which graphs are merely registered (empty named graphs, an empty default graph), in which order and
    how often `contexts()` lists them does not change where any triple is written. -/
def Statement_empty_default_ok (F : Fmt) : Prop :=
  ∀ (s s' : Src), DsWF s → DsWF s' → SetEq s.d s'.d → SetEq (stmts (emit F s)) (stmts (emit F s'))

/-- One renaming serves all quads: a blank node shared by several graphs — or used both as a graph name
    and inside triples — is still one node after the round trip. -/
def Statement_shared_bnode_preserved (F : Fmt) : Prop :=
  ∀ (s : Src), DsWF s → ∀ fresh : Nat,
    ∃ f : Nat → Nat, Function.Injective f ∧ ∀ q ∈ s.d, mapQuad f q ∈ route F (emit F s) fresh

/-- The patch `diff d1 d2` applied to `d1` gives `d2`. -/
def Statement_patch_apply_diff : Prop :=
  ∀ (d1 d2 : List Quad), SetEq (apply (diff d1 d2) d1) d2

/-- …and so does any reordering (or repetition) of its rows: adds and deletes are disjoint. -/
def Statement_patch_any_order : Prop :=
  ∀ (d1 d2 : List Quad) (rows : List PRow), (∀ r, r ∈ rows ↔ r ∈ diff d1 d2) → SetEq (apply rows d1) d2

def Statement_patch_disjoint : Prop :=
  ∀ (d1 d2 : List Quad), Disj (diff d1 d2) ∧
    ∀ q, ((POp.add, q) ∈ diff d1 d2 ↔ q ∈ d2 ∧ q ∉ d1) ∧ ((POp.del, q) ∈ diff d1 d2 ↔ q ∈ d1 ∧ q ∉ d2)

/-- A/D rows survive writing and reading; a row carries no graph label iff it is about the default graph. -/
def Statement_patch_rows_roundtrip : Prop :=
  ∀ (r : PRow), readRow (writeRow r) = r ∧ ((writeRow r).2.2 = Spell.unnamed ↔ r.2.2 = Name.default)

/-- rdf:first / rdf:rest triples (ids 10 and 11 of the harness vocabulary): the cells of an RDF collection -/
def IsCellTriple (t : Triple) : Prop := t.2.1 = Term.iri 10 ∨ t.2.1 = Term.iri 11

/-- The cells of an RDF collection are ordinary triples of their graph's block in this model (TriG `( … )` and
    JSON-LD `@list` are layouts of a block's triples, below the model's level): a cell of graph `g` is written in a
    block routed to `g`, and every block that contains it is routed to a graph that holds it.  In particular the
    parser must add `@list` cells to the graph of the enclosing block, never to the default graph. -/
def Statement_list_cells_stay_in_block (F : Fmt) : Prop :=
  ∀ (s : Src), DsWF s → ∀ (t : Triple) (g : Name), IsCellTriple t → (t, g) ∈ s.d →
    (∃ b ∈ emit F s, dest b.spell = g ∧ t ∈ b.triples) ∧
    (∀ b ∈ emit F s, t ∈ b.triples → (t, dest b.spell) ∈ s.d) ∧
    (∀ fresh, ∃ f : Nat → Nat, Function.Injective f ∧ mapQuad f (t, g) ∈ route F (emit F s) fresh)

/-- ConjunctiveGraph sources.  A ConjunctiveGraph's default context is a graph of the store identified by a
    blank node.  N-Quads and TriX write it under that name: the store's quads come back literally
    (`lit`).  TriG, hext and JSON-LD write it as THE default graph: its quads come back in the default
    graph of the receiving Dataset, everything else where it was (`asDefault`). -/
def Statement_cg_roundtrip : Prop :=
  ∀ (s : Src), CgWF s → ∀ fresh : Nat,
    (Iso s.d (route .nquads (emit .nquads s) fresh) ∧ Iso s.d (route .trix (emit .trix s) fresh)) ∧
    (Iso (s.d.map (toDs s.dflt)) (route .trig (emit .trig s) fresh) ∧
     Iso (s.d.map (toDs s.dflt)) (route .hext (emit .hext s) fresh) ∧
     Iso (s.d.map (toDs s.dflt)) (route .jsonld (emit .jsonld s) fresh))


/-! ### Round g — the text level of RDF Patch (`PatchText.lean`): statements -/

/-- The operation codes are recognised on the characters of a line the way `RDFPatchParser.operation` /
    `eat_op` do it (`startswith` in the order of the enum, then `lstrip`): every code, followed by a blank and
    anything, is read as itself (no earlier code of the enum is a prefix of it) and is eaten completely. -/
def Statement_patch_opcode_recognised : Prop :=
  ∀ (c : PCode) (rest : List Char),
    opOf (c.text ++ ' ' :: rest) = some c ∧ opOf c.text = some c ∧
    lstrip c.text (c.text ++ ' ' :: rest) = ' ' :: rest

/-- Line by line: what `_patch_row` writes for triple `t` of graph `g` is read by `parsepatch` as that operation on
    `(t, g)`; the row has no graph column iff `g` is the default graph; header rows, `TX .` and `TC .` are passed over. -/
def Statement_patch_line_roundtrip : Prop :=
  ∀ (s : Src), s.dflt = Name.default →
    (∀ op g t, parseLine (patchRow s op g t) = .row (op, (t, g))) ∧
    (∀ op g t, ∃ lab, patchRow s op g t = codeLine (opCode op) (.quad (.plain t.1) t.2.1 (.plain t.2.2) lab) ∧
      (lab = PLabel.none ↔ g = Name.default)) ∧
    (∀ hid hprev, ∀ l ∈ writeHeader hid hprev ++ [codeLine .TC .dot], parseLine l = .skip)

/-- The reader is a left fold of `applyRow` over the A / D rows of the document, whatever else the document
    contains (comments, blank lines, H / TX / TC / TA / PA / PD rows); a raising line stops it where it is. -/
def Statement_patch_reader_is_fold : Prop :=
  ∀ (ls : List PLine) (d : List Quad),
    (parseDoc ls d).1 = apply (docRows ls) d ∧ ((parseDoc ls d).2 = none ↔ NoErr ls)

/-- `serialize(format="patch", target=d2)` on a Dataset, read back: no line raises; the rows are all the adds
    (exactly the quads of d2 − d1) followed by all the deletes (exactly d1 − d2), i.e. the rows of `diff d1 d2`. -/
def Statement_patch_text_roundtrip : Prop :=
  ∀ (s : Src), s.dflt = Name.default → ∀ (d2 : List Quad) (hid hprev : Option Nat),
    NoErr (serializeDoc none (some d2) hid hprev s) ∧
    (∃ X Y, docRows (serializeDoc none (some d2) hid hprev s) = tagRows .add X ++ tagRows .del Y ∧
      SetEq X (qdiff d2 s.d) ∧ SetEq Y (qdiff s.d d2)) ∧
    (∀ r, r ∈ docRows (serializeDoc none (some d2) hid hprev s) ↔ r ∈ diff s.d d2)

/-- …composed with `patch_any_order`: parsing the written document into d1 gives d2 (text level of the second
    sentence of the property). -/
def Statement_patch_text_apply : Prop :=
  ∀ (s : Src), s.dflt = Name.default → ∀ (d2 : List Quad) (hid hprev : Option Nat),
    (parseDoc (serializeDoc none (some d2) hid hprev s) s.d).2 = none ∧
    SetEq (parseDoc (serializeDoc none (some d2) hid hprev s) s.d).1 d2

/-- `operation=` (which wins over `target=`; absent and no target means "add"): the rows are, in this order, the
    statements of `emitPatch` tagged with the operation; the add document parsed into an empty Dataset gives the
    dataset, the remove document parsed into the dataset empties it. -/
def Statement_patch_operation_doc : Prop :=
  ∀ (s : Src) (hid hprev : Option Nat),
    (∀ o target, NoErr (serializeDoc (some o) target hid hprev s) ∧
      docRows (serializeDoc (some o) target hid hprev s) = tagRows o (stmts (emitPatch s))) ∧
    serializeDoc none none hid hprev s = serializeDoc (some .add) none hid hprev s ∧
    (DsWF s → ∀ target,
      SetEq (parseDoc (serializeDoc (some .add) target hid hprev s) []).1 s.d ∧
      SetEq (parseDoc (serializeDoc (some .del) target hid hprev s) s.d).1 [])


/-! ### Round g — the TriG serializer as the loops it runs (`TrigLoop.lean`): statements -/

/-- `preprocess` (dict `_contexts`, empty graphs passed over, a graph listed twice keeps its first place) followed by
    the loop of `serialize` (entries without subjects passed over, header by identifier) writes exactly the block
    list `emitTrig` — same blocks, same order — for every source (Dataset or ConjunctiveGraph). -/
def Statement_trig_loop_refines : Prop := ∀ s : Src, emitTrigLoop s = emitTrig s

/-- `each_triple_one_block` for the loop model, with "ONE block": no two blocks of the document are routed to the
    same graph; and the round trip through the loop model. -/
def Statement_each_triple_one_block_trig_loop : Prop :=
  ∀ (s : Src), DsWF s →
    (∀ (t : Triple) (g : Name), (t, g) ∈ s.d ↔ ∃ b ∈ emitTrigLoop s, dest b.spell = g ∧ t ∈ b.triples) ∧
    ((emitTrigLoop s).map (fun b => dest b.spell)).Nodup ∧
    (∀ b ∈ emitTrigLoop s, b.triples ≠ []) ∧
    (∀ fresh, Iso s.d (route .trig (emitTrigLoop s) fresh))


/-! ### Round h — the text level of HexTuples (`HextText.lean`): statements -/

/-- One row through `HextuplesSerializer._hex_line` (`json.dumps` of the six columns + newline) and back through
    `json.loads` + `_parse_hextuple`: the same subject, predicate and graph (no graph = the default graph, spelled
    as the empty string and as nothing else), the same object — except that a plain literal comes back typed
    `xsd:string` (`normObj`; RDF 1.1 identifies the two, rdflib's `==` does not). -/
def Statement_hext_row_roundtrip : Prop :=
  ∀ (s : HNode) (p : RV.C16.Str) (o : HObj) (g : Option HNode),
    s.Ok → p ≠ [] → o.Ok → (∀ n, g = some n → n.Ok) →
    parseHexLine (hexLine s p o (ctxStr g)) = .ok ⟨s, p, normObj o, g⟩ ∧
    (ctxStr g = [] ↔ g = none)

/-- `json.loads` undoes `json.dumps` on any non-empty list of strings (all of Unicode, `ensure_ascii` escapes and
    surrogate pairs included — on top of C16's `scanstring` theorem). -/
def Statement_hext_json_array_roundtrip : Prop :=
  ∀ (x : RV.C16.Str) (xs : List RV.C16.Str), loadsArr (dumpsArr (x :: xs) ++ ['\n']) = .ok ((x :: xs).map JV.str)

/-! ### Proofs -/

theorem iso_fresh (gFirst : Bool) (F : Fmt) {s : Src} (h : DsWF s) (fresh : Nat) :
    Iso s.d (routeFresh gFirst (emit F s) fresh) := by
  obtain ⟨f, hf, e⟩ := routeFresh_eq gFirst (emit F s) fresh
  exact ⟨f, hf, e ▸ setEq_map _ (SetEq.symm (setEq_stmts_emit F h))⟩

theorem iso_verbatim (F : Fmt) {s : Src} (h : DsWF s) : Iso s.d (routeVerbatim (emit F s)) :=
  ⟨id, fun _ _ e => e, by rw [map_mapQuad_id]; exact SetEq.symm (setEq_stmts_emit F h)⟩

theorem quad_roundtrip (F : Fmt) : Statement_quad_roundtrip F := by
  intro s h fresh
  cases F
  · exact iso_fresh false .nquads h fresh
  · exact iso_fresh true .trig h fresh
  · exact iso_verbatim .trix h
  · exact iso_verbatim .hext h
  · exact iso_verbatim .jsonld h
  · exact iso_verbatim .patch h

theorem iso_of_stmts {d : List Quad} {bs : List Block} (h : ∀ t g, (t, g) ∈ stmts bs ↔ (t, g) ∈ d) :
    (∀ gFirst fresh, Iso d (routeFresh gFirst bs fresh)) ∧ Iso d (routeVerbatim bs) := by
  have hs : SetEq d (stmts bs) := by rintro ⟨t, g⟩; exact (h t g).symm
  constructor
  · intro gFirst fresh
    obtain ⟨f, hf, e⟩ := routeFresh_eq gFirst bs fresh
    exact ⟨f, hf, e ▸ setEq_map _ hs⟩
  · exact ⟨id, fun _ _ e => e, by rw [map_mapQuad_id]; exact hs⟩

theorem cg_roundtrip : Statement_cg_roundtrip := by
  intro s h fresh
  refine ⟨⟨?_, ?_⟩, ?_, ?_, ?_⟩
  · exact (iso_of_stmts (stmts_emitNQuads_lit h.covers)).1 false fresh
  · exact (iso_of_stmts (stmts_emitTrix_lit h.covers)).2
  · exact (iso_of_stmts (stmts_emitTrig_cg h.covers)).1 true fresh
  · exact (iso_of_stmts (stmts_emitHext_cg h.covers)).2
  · exact (iso_of_stmts (stmts_emitJsonld_cg h)).2

theorem each_triple_one_block (F : Fmt) : Statement_each_triple_one_block F := by
  intro s h t g
  rw [← stmts_emit F h t g, mem_stmts]
  constructor
  · rintro ⟨b, hb, ht, hg⟩; exact ⟨b, hb, hg.symm, ht⟩
  · rintro ⟨b, hb, hg, ht⟩; exact ⟨b, hb, ht, hg.symm⟩

theorem list_cells_stay_in_block (F : Fmt) : Statement_list_cells_stay_in_block F := by
  intro s h t g _ ht
  refine ⟨(each_triple_one_block F s h t g).mp ht, ?_, ?_⟩
  · intro b hb htb
    exact (each_triple_one_block F s h t (dest b.spell)).mpr ⟨b, hb, rfl, htb⟩
  · intro fresh
    obtain ⟨f, hf, e⟩ := quad_roundtrip F s h fresh
    exact ⟨f, hf, (e _).mp (List.mem_map.mpr ⟨(t, g), ht, rfl⟩)⟩

theorem empty_default_ok (F : Fmt) : Statement_empty_default_ok F := by
  intro s s' h h' e
  exact SetEq.trans (setEq_stmts_emit F h) (SetEq.trans e (SetEq.symm (setEq_stmts_emit F h')))

theorem shared_bnode_preserved (F : Fmt) : Statement_shared_bnode_preserved F := by
  intro s h fresh
  obtain ⟨f, hf, e⟩ := quad_roundtrip F s h fresh
  exact ⟨f, hf, fun q hq => (e _).mp (List.mem_map.mpr ⟨q, hq, rfl⟩)⟩

theorem patch_any_order : Statement_patch_any_order := by
  intro d1 d2 rows h x
  rw [mem_apply rows d1 (disj_of_mem_iff h) x, h, h, mem_diff, mem_diff]
  simp only [reduceCtorEq, false_and, or_false, true_and, false_or, not_and, Classical.not_not]
  constructor
  · rintro (h1 | ⟨h1, h2⟩)
    · exact h1.1
    · exact h2 h1
  · intro hx
    by_cases h1 : x ∈ d1
    · exact Or.inr ⟨h1, fun _ => hx⟩
    · exact Or.inl ⟨hx, h1⟩

theorem patch_apply_diff : Statement_patch_apply_diff :=
  fun d1 d2 => patch_any_order d1 d2 (diff d1 d2) (fun _ => Iff.rfl)

theorem patch_disjoint : Statement_patch_disjoint := by
  intro d1 d2
  refine ⟨disj_of_mem_iff (fun _ => Iff.rfl), fun q => ⟨?_, ?_⟩⟩ <;>
    simp [mem_diff]

theorem patch_rows_roundtrip : Statement_patch_rows_roundtrip := by
  rintro ⟨op, t, g⟩
  constructor
  · simp only [writeRow, readRow]
    split
    · next h => subst h; rfl
    · rfl
  · simp only [writeRow]
    split
    · next h => simp [h]
    · next h => simp [h]


/-! ### Round g — text level of RDF Patch: proofs -/

theorem patch_opcode_recognised : Statement_patch_opcode_recognised := by
  intro c rest
  cases c <;>
    simp [opOf, opOfIn, allCodes, PCode.text, startsWith, lstrip]

theorem patch_line_roundtrip : Statement_patch_line_roundtrip := by
  intro s h
  refine ⟨?_, ?_, ?_⟩
  · intro op g t
    rw [parseLine_patchRow, dest_patchSpell h]
  · intro op g t
    refine ⟨spellLabel (patchSpell s g), rfl, ?_⟩
    unfold patchSpell nqSpell
    rw [h]
    by_cases hg : g = Name.default
    · simp [hg, spellLabel]
    · simp [hg, spellLabel]
  · intro hid hprev l hl
    rcases List.mem_append.mp hl with h1 | h1
    · exact skip_writeHeader hid hprev l h1
    · simp only [List.mem_singleton] at h1
      subst h1
      exact parseLine_tc _

theorem patch_reader_is_fold : Statement_patch_reader_is_fold := by
  intro ls
  induction ls with
  | nil => intro d; exact ⟨rfl, by simp [parseDoc, NoErr]⟩
  | cons l ls ih =>
    intro d
    simp only [parseDoc, docRows]
    cases hp : parseLine l with
    | skip =>
      refine ⟨(ih d).1, (ih d).2.trans ⟨fun h => NoErr.cons_skip hp h, fun h x hx => h x (List.mem_cons_of_mem _ hx)⟩⟩
    | row r =>
      refine ⟨(ih (applyRow d r)).1, (ih (applyRow d r)).2.trans ⟨?_, fun h x hx => h x (List.mem_cons_of_mem _ hx)⟩⟩
      intro h x hx e
      rcases List.mem_cons.mp hx with rfl | hx
      · rw [hp]; simp
      · exact h x hx e
    | err e =>
      refine ⟨rfl, ?_⟩
      simp only [reduceCtorEq, false_iff]
      intro h
      exact h l (List.mem_cons_self ..) e hp

theorem patch_text_roundtrip : Statement_patch_text_roundtrip := by
  intro s h d2 hid hprev
  rw [serializeDoc_target]
  have hr := docRows_frame hid hprev (noErr_diffBody s d2)
  refine ⟨noErr_frame hid hprev (noErr_diffBody s d2), ⟨_, _, hr.trans (docRows_diffBody s d2),
    setEq_stmts_quadSrc h _, setEq_stmts_quadSrc h _⟩, ?_⟩
  rintro ⟨op, q⟩
  rw [hr, docRows_diffBody, List.mem_append, mem_tagRows, mem_tagRows, setEq_stmts_quadSrc h _ q,
    setEq_stmts_quadSrc h _ q, mem_diff, mem_qdiff, mem_qdiff]

theorem patch_text_apply : Statement_patch_text_apply := by
  intro s h d2 hid hprev
  obtain ⟨hn, _, hrows⟩ := patch_text_roundtrip s h d2 hid hprev
  rw [parseDoc_noErr hn]
  exact ⟨rfl, patch_any_order s.d d2 _ hrows⟩

theorem patch_operation_doc : Statement_patch_operation_doc := by
  intro s hid hprev
  have key : ∀ o target, NoErr (serializeDoc (some o) target hid hprev s) ∧
      docRows (serializeDoc (some o) target hid hprev s) = tagRows o (stmts (emitPatch s)) := by
    intro o target
    rw [serializeDoc_operation]
    exact ⟨noErr_frame hid hprev (noErr_writeTriples _ _ _ _),
      (docRows_frame hid hprev (noErr_writeTriples _ _ _ _)).trans (docRows_writeTriples _ _ _ _)⟩
  refine ⟨key, serializeDoc_default hid hprev s, ?_⟩
  intro hw target
  constructor
  · rw [parseDoc_noErr (key .add target).1, (key .add target).2]
    intro x
    rw [mem_apply _ _ (fun q _ h2 => by simp [mem_tagRows] at h2) x, mem_tagRows, mem_tagRows]
    simp only [true_and, List.not_mem_nil, false_and, or_false]
    exact setEq_stmts_emit .patch hw x
  · rw [parseDoc_noErr (key .del target).1, (key .del target).2]
    intro x
    rw [mem_apply _ _ (fun q h1 _ => by simp [mem_tagRows] at h1) x, mem_tagRows, mem_tagRows]
    simp only [reduceCtorEq, false_and, false_or, true_and, List.not_mem_nil, iff_false, not_and, Classical.not_not]
    intro hx
    exact (setEq_stmts_emit .patch hw x).mpr hx


/-! ### Round g — TriG loops: proofs -/

theorem trig_loop_refines : Statement_trig_loop_refines := emitTrigLoop_eq

theorem each_triple_one_block_trig_loop : Statement_each_triple_one_block_trig_loop := by
  intro s h
  rw [trig_loop_refines s]
  refine ⟨each_triple_one_block .trig s h, ?_, ?_, quad_roundtrip .trig s h⟩
  · have hd : ∀ g, dest (trigSpell s g) = g := by
      intro g
      unfold trigSpell
      split
      · next hg => rw [hg, h.dflt]; rfl
      · rfl
    have e : (emitTrig s).map (fun b => dest b.spell) =
        (dedup (ctxPlusDefault s)).filter (fun g => !(triplesOf s.d g).isEmpty) := by
      unfold emitTrig
      rw [List.map_map]
      conv => rhs; rw [← List.map_id (List.filter _ _)]
      apply List.map_congr_left
      intro g _
      simp [blockOf, hd]
    rw [e]
    exact (nodup_dedup _).sublist List.filter_sublist
  · intro b hb
    unfold emitTrig at hb
    obtain ⟨g, hg, rfl⟩ := List.mem_map.mp hb
    have := (List.mem_filter.mp hg).2
    intro hnil
    simp [blockOf] at hnil
    simp [hnil] at this


/-! ### Round h — HexTuples rows: proofs -/

theorem hext_json_array_roundtrip : Statement_hext_json_array_roundtrip := loadsArr_dumps

theorem hext_row_roundtrip : Statement_hext_row_roundtrip := by
  intro s p o g hs hp ho hg
  constructor
  · have hsn := noneIfEmpty_str (nodeStr_ne_nil hs)
    have hpn := noneIfEmpty_str hp
    have hctx := readCtx g hg
    unfold parseHexLine hexLine
    cases o with
    | node n =>
      cases n with
      | iri x =>
        simp only [hexFields, loadsArr_dumps, List.map_cons, List.map_nil, parseFields, hsn, hpn,
          noneIfEmpty_str (show sGlobalId ≠ [] by decide), if_true, readSubject_nodeStr hs, hctx, normObj]
      | bnode l =>
        simp only [hexFields, loadsArr_dumps, List.map_cons, List.map_nil, parseFields, hsn, hpn,
          noneIfEmpty_str (show sLocalId ≠ [] by decide), show sLocalId ≠ sGlobalId by decide, if_false, if_true,
          readSubject_nodeStr hs, hctx, normObj, readBnodeLabel_nodeStr]
    | plain lex =>
      simp only [hexFields, loadsArr_dumps, List.map_cons, List.map_nil, parseFields, hsn, hpn,
        noneIfEmpty_str (show sXsdString ≠ [] by decide), show sXsdString ≠ sGlobalId by decide,
        show sXsdString ≠ sLocalId by decide, if_false, noneIfEmpty_nil, readSubject_nodeStr hs, hctx, normObj]
    | lang lex l =>
      simp only [hexFields, loadsArr_dumps, List.map_cons, List.map_nil, parseFields, hsn, hpn,
        noneIfEmpty_str (show sLangString ≠ [] by decide), show sLangString ≠ sGlobalId by decide,
        show sLangString ≠ sLocalId by decide, if_false, noneIfEmpty_str (show l ≠ [] from ho),
        readSubject_nodeStr hs, hctx, normObj]
    | typed lex dt =>
      simp only [hexFields, loadsArr_dumps, List.map_cons, List.map_nil, parseFields, hsn, hpn,
        noneIfEmpty_str ho.1, ho.2.1, ho.2.2, if_false, noneIfEmpty_nil, readSubject_nodeStr hs, hctx, normObj]
  · cases g with
    | none => simp [ctxStr]
    | some n =>
      simp only [ctxStr, reduceCtorEq, iff_false]
      exact nodeStr_ne_nil (hg n rfl)

/-! ### Non-vacuity: a dataset with a non-empty default graph, an IRI-named graph, a blank-node-named
    graph whose name is also a subject and an object elsewhere, a triple present in two graphs, a
    blank node shared across graphs, a registered empty graph, a graph listed twice -/

def exSrc : Src :=
  { cg := false, dflt := Name.default,
    cs := [.iri 4, .bnode 1, .iri 9, .default, .iri 4],
    d := [((.iri 1, .iri 7, .lit 2), .default), ((.iri 1, .iri 7, .lit 2), .iri 4),
          ((.bnode 1, .iri 7, .bnode 2), .bnode 1), ((.iri 1, .iri 8, .bnode 1), .default),
          ((.bnode 2, .iri 7, .lit 3), .iri 4)] }

example : DsWF exSrc := ⟨rfl, rfl, by unfold Covers; decide⟩

example : route .nquads (emit .nquads exSrc) 1000 =
    [((.iri 1, .iri 7, .lit 2), .iri 4), ((.bnode 1000, .iri 7, .lit 3), .iri 4),
     ((.bnode 1001, .iri 7, .bnode 1000), .bnode 1001), ((.iri 1, .iri 7, .lit 2), .default),
     ((.iri 1, .iri 8, .bnode 1001), .default), ((.iri 1, .iri 7, .lit 2), .iri 4),
     ((.bnode 1000, .iri 7, .lit 3), .iri 4)] := by decide

example : (emit .trig exSrc).map (·.spell) = [.named (.iri 4), .named (.bnode 1), .unnamed] := by decide
example : (emit .jsonld exSrc).map (·.spell) = [.unnamed, .named (.iri 4), .named (.bnode 1)] := by decide

example : diff exSrc.d [((.iri 1, .iri 7, .lit 2), .iri 4), ((.iri 5, .iri 7, .lit 2), .bnode 1)] =
    [(.add, ((.iri 5, .iri 7, .lit 2), .bnode 1)), (.del, ((.iri 1, .iri 7, .lit 2), .default)),
     (.del, ((.bnode 1, .iri 7, .bnode 2), .bnode 1)), (.del, ((.iri 1, .iri 8, .bnode 1), .default)),
     (.del, ((.bnode 2, .iri 7, .lit 3), .iri 4))] := by decide

/-- a two-cell collection (cells 20, 21) inside a blank-node-named graph, its head referenced from that graph -/
def exList : Src :=
  { cg := false, dflt := Name.default, cs := [.bnode 1, .default],
    d := [((.iri 1, .iri 7, .bnode 20), .bnode 1), ((.bnode 20, .iri 10, .lit 2), .bnode 1),
          ((.bnode 20, .iri 11, .bnode 21), .bnode 1), ((.bnode 21, .iri 10, .iri 3), .bnode 1),
          ((.bnode 21, .iri 11, .iri 12), .bnode 1), ((.iri 1, .iri 7, .lit 2), .default)] }

example : DsWF exList := ⟨rfl, rfl, by unfold Covers; decide⟩
example : IsCellTriple (.bnode 20, .iri 11, .bnode 21) := Or.inr rfl
example : (emit .jsonld exList).map (fun b => (b.spell, b.triples.length)) =
    [(.unnamed, 1), (.named (.bnode 1), 5)] := by decide

/-- a ConjunctiveGraph with a non-empty default context (blank node 99), an IRI-named and a blank-node-named graph -/
def exCg : Src :=
  { cg := true, dflt := .bnode 99, cs := [.bnode 99, .iri 4, .bnode 1],
    d := [((.iri 1, .iri 7, .lit 2), .bnode 99), ((.iri 1, .iri 7, .lit 2), .iri 4),
          ((.bnode 1, .iri 7, .bnode 2), .bnode 1)] }

example : CgWF exCg := ⟨rfl, rfl, by unfold Covers; decide⟩
example : (emit .trig exCg).map (·.spell) = [.unnamed, .named (.iri 4), .named (.bnode 1)] := by decide
example : (emit .nquads exCg).map (·.spell) = [.named (.bnode 99), .named (.iri 4), .named (.bnode 1)] := by decide
example : (emit .jsonld exCg).map (·.spell) = [.unnamed, .named (.iri 4), .named (.bnode 1)] := by decide

example : (emitTrigLoop exSrc).map (fun b => (b.spell, b.triples)) = (emitTrig exSrc).map (fun b => (b.spell, b.triples)) := by decide
example : (trigPreprocess exSrc (ctxPlusDefault exSrc) []).map (·.1) = [.iri 4, .bnode 1, .default] := by decide

/-! ### Round g, non-vacuity: the patch document between `exSrc` and a second dataset, and a hand-made document -/

example : serializeDoc none (some [((.iri 1, .iri 7, .lit 2), .iri 4), ((.iri 5, .iri 7, .lit 2), .bnode 1)]) (some 2) none exSrc =
    [codeLine .H (.hdr false 2), codeLine .TX .dot,
     codeLine .A (.quad (.plain (.iri 5)) (.iri 7) (.plain (.lit 2)) (.plain (.bnode 1))),
     codeLine .D (.quad (.plain (.iri 1)) (.iri 7) (.plain (.lit 2)) .none),
     codeLine .D (.quad (.plain (.iri 1)) (.iri 8) (.plain (.bnode 1)) .none),
     codeLine .D (.quad (.plain (.bnode 1)) (.iri 7) (.plain (.bnode 2)) (.plain (.bnode 1))),
     codeLine .D (.quad (.plain (.bnode 2)) (.iri 7) (.plain (.lit 3)) (.plain (.iri 4))),
     codeLine .TC .dot] := by decide

/-- `AA` is read as an add (`lstrip`), `AD` raises, `<_:2>` is blank node 2, a row after `TA` still counts,
    an unknown word is a ValueError that leaves what was done -/
example : parseDoc [.comment, .cmd ['T', 'X'] .dot, .cmd ['A', 'A'] (.quad (.angle 2) (.iri 7) (.plain (.lit 1)) (.angle 3)),
      .cmd ['T', 'A'] .none, .cmd ['D'] (.quad (.plain (.iri 1)) (.iri 7) (.plain (.lit 2)) .none), .blank,
      .cmd ['X'] .none, .cmd ['A'] (.quad (.plain (.iri 1)) (.iri 7) (.plain (.lit 9)) .none)]
      [((.iri 1, .iri 7, .lit 2), .default)] =
    ([((.bnode 2, .iri 7, .lit 1), .bnode 3)], some .valueError) := by decide

example : parseLine (.cmd ['A', 'D'] (.quad (.plain (.iri 1)) (.iri 7) (.plain (.lit 9)) .none)) = .err .parseError := by decide

/-! ### Round h, non-vacuity: a hextuples row with a non-ASCII language literal in a blank-node-named graph -/

example : (HNode.bnode "b1".toList).Ok ∧ (HObj.lang "é☃".toList "en".toList).Ok ∧ (HNode.iri "http://e/g".toList).Ok :=
  ⟨trivial, by simp [HObj.Ok], by simp [HNode.Ok]⟩

example : String.ofList (hexLine (.bnode "b1".toList) "h:p".toList (.lang "é\"".toList "en".toList) (ctxStr (some (.bnode "g".toList)))) =
    "[\"_:b1\", \"h:p\", \"\\u00e9\\\"\", \"http://www.w3.org/1999/02/22-rdf-syntax-ns#langString\", \"en\", \"_:g\"]\n" := by decide

/-! ### The defects of the pinned code (before the `fix:` commits), kept as regression witnesses -/

def oldSrc : Src :=
  { cg := false, dflt := Name.default, cs := [.bnode 1], d := [((.bnode 1, .iri 7, .lit 2), .bnode 1)] }

/-- pre-fix JSON-LD merged every blank-node-named graph into the default graph: the triple cannot
    come back to the graph it was in -/
theorem jsonld_merge_breaks_roundtrip : ¬ Iso oldSrc.d (routeVerbatim (Old.emitJsonld oldSrc)) := by
  rintro ⟨f, _, h⟩
  have h1 : mapQuad f ((.bnode 1, .iri 7, .lit 2), .bnode 1) ∈ routeVerbatim (Old.emitJsonld oldSrc) :=
    (h _).mp (by simp [oldSrc])
  have e : routeVerbatim (Old.emitJsonld oldSrc) = [((.bnode 1, .iri 7, .lit 2), .default)] := by decide
  rw [e] at h1
  simp [mapQuad, mapName] at h1

/-- pre-fix TriX dropped blank-node graph names; the parser invents a new node for the anonymous
    graph, so a node that is both graph name and subject is split in two -/
theorem trix_anonymous_breaks_roundtrip (fresh : Nat) (hf : fresh ≠ 1) :
    ¬ Iso oldSrc.d (Old.trixRoute oldSrc (ctxList oldSrc) fresh) := by
  rintro ⟨f, _, h⟩
  have h1 : mapQuad f ((.bnode 1, .iri 7, .lit 2), .bnode 1) ∈ Old.trixRoute oldSrc (ctxList oldSrc) fresh :=
    (h _).mp (by simp [oldSrc])
  have e : Old.trixRoute oldSrc (ctxList oldSrc) fresh = [((.bnode 1, .iri 7, .lit 2), .bnode fresh)] := by
    simp [Old.trixRoute, ctxList, oldSrc, triplesOf, blockStmts, dest]
  rw [e] at h1
  simp only [mapQuad, mapTriple, mapTerm, mapName, List.mem_singleton, Prod.mk.injEq, Term.bnode.injEq,
    Name.bnode.injEq, and_true] at h1
  omega

end RV.C06
