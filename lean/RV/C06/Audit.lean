import RV.C06.Props
open RV.C06
