import RV.C06.Props
open RV.C06
#print axioms quad_roundtrip
#print axioms cg_roundtrip
#print axioms each_triple_one_block
#print axioms list_cells_stay_in_block
#print axioms empty_default_ok
#print axioms shared_bnode_preserved
#print axioms patch_apply_diff
#print axioms patch_any_order
#print axioms patch_disjoint
#print axioms patch_rows_roundtrip
#print axioms jsonld_merge_breaks_roundtrip
#print axioms trix_anonymous_breaks_roundtrip
#print axioms patch_opcode_recognised
#print axioms patch_line_roundtrip
#print axioms patch_reader_is_fold
#print axioms patch_text_roundtrip
#print axioms patch_text_apply
#print axioms patch_operation_doc
#print axioms trig_loop_refines
#print axioms each_triple_one_block_trig_loop
#print axioms hext_json_array_roundtrip
#print axioms hext_row_roundtrip
