import RV.Base.SetList
/-
  C06 — where does each triple land?  Model of the graph-name emission of rdflib's quad
  serializers and of the routing rule of the matching parsers (after the `fix:` commits of
  this property: TriX writes `<id>` for blank-node graph names, JSON-LD keeps blank-node-named
  graphs as `{"@id": "_:b", "@graph": …}` and never accumulates into the dataset's own default
  graph, `PatchSerializer._diff` is a difference of quad sets).

  Triple-level text (term spelling, literal quoting, prefixes, layout) is C03/C05's subject and
  is not modelled: a document is a list of *blocks* = graph name as spelled + triples.

  Source side (what the serializers consume):
    `Src.cs`   = what `store.contexts()` yields (every graph that was registered or received a
                 triple; may list a graph twice — the theorems do not need `Nodup`)
    `Src.d`    = the quads
    `Src.cg`   = the source object is a ConjunctiveGraph (true) or a Dataset (false)
    `Src.dflt` = identifier of its default context (`Name.default` = `urn:x-rdflib:default`
                 for a Dataset, a blank node for a ConjunctiveGraph)
  Target side: always an EMPTY `Dataset()`; its default graph is `Name.default`, and
  `get_context(<urn:x-rdflib:default>)` is that same graph.
-/
namespace RV.C06

inductive Term
  | iri (n : Nat)
  | lit (n : Nat)
  | bnode (l : Nat)
  deriving DecidableEq, Repr

/-- graph name; `default` is the identifier `urn:x-rdflib:default` (an IRI) -/
inductive Name
  | default
  | iri (n : Nat)
  | bnode (l : Nat)
  deriving DecidableEq, Repr

abbrev Triple := Term × Term × Term
abbrev Quad := Triple × Name

/-- how a block's graph name is spelled in the document -/
inductive Spell
  | unnamed                 -- no graph label (N-Quads 3-column row, TriG `{`, hext `""`, top-level JSON-LD node, patch triple row)
  | named (g : Name)        -- `<iri>` / `_:label`; `named .default` = `<urn:x-rdflib:default>` written out
  deriving DecidableEq, Repr

structure Block where
  spell : Spell
  triples : List Triple
  deriving Repr

structure Src where
  cg : Bool
  dflt : Name
  cs : List Name
  d : List Quad

/-! ### reading the source -/

/-- `for triple in context` : the triples of graph `g` -/
def triplesOf : List Quad → Name → List Triple
  | [], _ => []
  | (t, g') :: qs, g => if g' = g then t :: triplesOf qs g else triplesOf qs g

/-- `ConjunctiveGraph.contexts()` / `Dataset.contexts()` (the latter yields the default graph
    at the end when the store did not list it) -/
def ctxList (s : Src) : List Name :=
  if s.cg then s.cs else if Name.default ∈ s.cs then s.cs else s.cs ++ [Name.default]

/-- `if store.default_context:` — `Graph.__len__` truthiness -/
def dfltNonEmpty (s : Src) : Bool := !(triplesOf s.d s.dflt).isEmpty

/-- Python dict keyed by graph: first occurrence keeps its place -/
def dedup : List Name → List Name
  | [] => []
  | g :: gs => g :: sremove (dedup gs) g

def blockOf (d : List Quad) (sp : Name → Spell) (g : Name) : Block := ⟨sp g, triplesOf d g⟩

/-! ### emitters -/

/-- `_nq_row`: name suppressed iff falsy or `== DATASET_DEFAULT_GRAPH_ID` -/
def nqSpell (g : Name) : Spell := if g = Name.default then .unnamed else .named g

/-- `NQuadsSerializer.serialize` -/
def emitNQuads (s : Src) : List Block := (ctxList s).map (blockOf s.d nqSpell)

/-- `HextuplesSerializer.__init__` / `TrigSerializer.__init__`:
    `list(store.contexts())` plus the default context *if it is truthy* -/
def ctxPlusDefault (s : Src) : List Name :=
  ctxList s ++ (if dfltNonEmpty s then [s.dflt] else [])

/-- `HextuplesSerializer._context_str` (`self.default_context` is `None` when the default graph is empty) -/
def hextSpell (s : Src) (g : Name) : Spell :=
  if g = Name.default then .unnamed
  else if dfltNonEmpty s && g = s.dflt then .unnamed
  else .named g

def emitHext (s : Src) : List Block := (ctxPlusDefault s).map (blockOf s.d (hextSpell s))

/-- `TrigSerializer.serialize`: default block chosen by identifier -/
def trigSpell (s : Src) (g : Name) : Spell := if g = s.dflt then .unnamed else .named g

/-- `TrigSerializer.preprocess` (empty contexts skipped, `_contexts` dict) + `serialize` -/
def emitTrig (s : Src) : List Block :=
  ((dedup (ctxPlusDefault s)).filter (fun g => !(triplesOf s.d g).isEmpty)).map (blockOf s.d (trigSpell s))

/-- `TriXSerializer._writeGraph`: `<uri>` for IRIs (the Dataset default id included), `<id>` for blank nodes -/
def trixSpell (g : Name) : Spell := .named g

def emitTrix (s : Src) : List Block := (ctxList s).map (blockOf s.d trixSpell)

/-- `isinstance(g.identifier, URIRef)` — the default id is an IRI -/
def Name.isIri : Name → Bool
  | .bnode _ => false
  | _ => true

/-- JSON-LD `Converter.convert`: the loop over `all_contexts`.
    `own` = the dataset's own default graph is used as the default graph (it is in `graphs`
    from the start, and `g in graphs` compares identifiers);
    state = (named graphs so far, triples accumulated into the scratch default graph). -/
def jsonldLoop (s : Src) (own : Bool) : List Name → List Name × List Triple → List Name × List Triple
  | [], acc => acc
  | g :: gs, (named, merged) =>
    if (own && g = Name.default) || g ∈ named then jsonldLoop s own gs (named, merged)
    else if g.isIri || g ≠ s.dflt then jsonldLoop s own gs (named ++ [g], merged)
    else jsonldLoop s own gs (named, merged ++ triplesOf s.d g)

def jsonldOwn (s : Src) : Bool := (Name.default ∈ ctxList s) && s.dflt = Name.default

/-- blocks with no node are not written (`if not nodes: continue`) -/
def nonEmptyBlocks (bs : List Block) : List Block := bs.filter (fun b => !b.triples.isEmpty)

def emitJsonld (s : Src) : List Block :=
  let own := jsonldOwn s
  let r := jsonldLoop s own (ctxList s) ([], [])
  let dflt : Block := ⟨.unnamed, (if own then triplesOf s.d Name.default else []) ++ r.2⟩
  nonEmptyBlocks (dflt :: r.1.map (blockOf s.d Spell.named))

/-- `PatchSerializer._patch_row` (operation="add"): a triple row for the default graph, else `_nq_row` -/
def patchSpell (s : Src) (g : Name) : Spell := if g = s.dflt then .unnamed else nqSpell g

def emitPatch (s : Src) : List Block := (ctxList s).map (blockOf s.d (patchSpell s))

/-! ### applying a renaming of blank nodes (used to state "equal up to renaming") -/

def mapTerm (f : Nat → Nat) : Term → Term
  | .bnode l => .bnode (f l)
  | t => t

def mapName (f : Nat → Nat) : Name → Name
  | .bnode l => .bnode (f l)
  | g => g

def mapTriple (f : Nat → Nat) (t : Triple) : Triple := (mapTerm f t.1, mapTerm f t.2.1, mapTerm f t.2.2)
def mapQuad (f : Nat → Nat) (q : Quad) : Quad := (mapTriple f q.1, mapName f q.2)

/-! ### routing (parsers; the sink is an empty Dataset) -/

/-- `if context: get_context(context) else default_context`; `get_context(urn:x-rdflib:default)` is the default graph -/
def dest : Spell → Name
  | .unnamed => Name.default
  | .named g => g

def blockStmts (sp : Spell) : List Triple → List Quad
  | [] => []
  | t :: ts => (t, dest sp) :: blockStmts sp ts

/-- the statements of a document: every triple with the graph it is written under -/
def stmts : List Block → List Quad
  | [] => []
  | b :: bs => blockStmts b.spell b.triples ++ stmts bs

/-! #### document-scoped label map (`W3CNTriplesParser._bnode_ids`, `SinkParser._anonymousNodes`):
    a label gets a fresh node at its first occurrence and the same node afterwards -/

structure LSt where
  m : List (Nat × Nat)
  next : Nat

def lookup : List (Nat × Nat) → Nat → Option Nat
  | [], _ => none
  | (k, v) :: m, l => if k = l then some v else lookup m l

def LSt.get (st : LSt) (l : Nat) : LSt × Nat :=
  match lookup st.m l with
  | some v => (st, v)
  | none => (⟨(l, st.next) :: st.m, st.next + 1⟩, st.next)

def rnTerm (st : LSt) : Term → LSt × Term
  | .bnode l => let r := st.get l; (r.1, .bnode r.2)
  | t => (st, t)

def rnName (st : LSt) : Name → LSt × Name
  | .bnode l => let r := st.get l; (r.1, .bnode r.2)
  | g => (st, g)

def rnTriple (st : LSt) (t : Triple) : LSt × Triple :=
  let a := rnTerm st t.1
  let b := rnTerm a.1 t.2.1
  let c := rnTerm b.1 t.2.2
  (c.1, (a.2, b.2, c.2))

/-- N-Quads row: subject, predicate, object, then the graph label -/
def rnQuadGLast (st : LSt) (q : Quad) : LSt × Quad :=
  let t := rnTriple st q.1
  let g := rnName t.1 q.2
  (g.1, (t.2, g.2))

/-- TriG: the graph label is read before the block's triples -/
def rnQuadGFirst (st : LSt) (q : Quad) : LSt × Quad :=
  let g := rnName st q.2
  let t := rnTriple g.1 q.1
  (t.1, (t.2, g.2))

def rnList {α : Type} (r : LSt → α → LSt × α) (st : LSt) : List α → LSt × List α
  | [] => (st, [])
  | x :: xs =>
    let a := r st x
    let as := rnList r a.1 xs
    (as.1, a.2 :: as.2)

def rnQuads (gFirst : Bool) : LSt → List Quad → LSt × List Quad :=
  rnList (if gFirst then rnQuadGFirst else rnQuadGLast)

/-- parsers that relabel blank nodes per document (N-Quads, TriG); `fresh` = first unused node id -/
def routeFresh (gFirst : Bool) (bs : List Block) (fresh : Nat) : List Quad :=
  (rnQuads gFirst ⟨[], fresh⟩ (stmts bs)).2

/-- parsers that keep document labels (`BNode(label)`: TriX, hext, JSON-LD, RDF Patch) -/
def routeVerbatim (bs : List Block) : List Quad := stmts bs

inductive Fmt
  | nquads | trig | trix | hext | jsonld | patch
  deriving DecidableEq, Repr

def emit : Fmt → Src → List Block
  | .nquads => emitNQuads
  | .trig => emitTrig
  | .trix => emitTrix
  | .hext => emitHext
  | .jsonld => emitJsonld
  | .patch => emitPatch

def route : Fmt → List Block → Nat → List Quad
  | .nquads, bs, n => routeFresh false bs n
  | .trig, bs, n => routeFresh true bs n
  | _, bs, _ => routeVerbatim bs

/-! ### RDF Patch between two datasets -/

inductive POp | add | del
  deriving DecidableEq, Repr

abbrev PRow := POp × Quad

/-- set difference over quads (`set(a.quads()) - set(b.quads())`) -/
def qdiff : List Quad → List Quad → List Quad
  | [], _ => []
  | q :: qs, b => if q ∈ b then qdiff qs b else q :: qdiff qs b

def tagRows (op : POp) : List Quad → List PRow
  | [] => []
  | q :: qs => (op, q) :: tagRows op qs

/-- `PatchSerializer._diff` + the two `write_triples` calls: adds first, then deletes -/
def diff (d1 d2 : List Quad) : List PRow := tagRows .add (qdiff d2 d1) ++ tagRows .del (qdiff d1 d2)

/-- `RDFPatchParser.add_or_remove_triple_or_quad` on the target -/
def applyRow (d : List Quad) : PRow → List Quad
  | (.add, q) => sinsert d q
  | (.del, q) => sremove d q

def apply (rows : List PRow) (d : List Quad) : List Quad := rows.foldl applyRow d

/-- a patch row as written: op, triple, graph label as spelled (`_patch_row`) -/
abbrev PText := POp × Triple × Spell

def writeRow (r : PRow) : PText := (r.1, r.2.1, if r.2.2 = Name.default then .unnamed else .named r.2.2)
def readRow (x : PText) : PRow := (x.1, x.2.1, dest x.2.2)

/-! ### the code before the repairs (kept to document the defects; never used by the model) -/

namespace Old

/-- pre-fix JSON-LD loop: every non-IRI-named graph is merged into the default graph -/
def jsonldLoop (s : Src) (own : Bool) : List Name → List Name × List Triple → List Name × List Triple
  | [], acc => acc
  | g :: gs, (named, merged) =>
    if (own && g = Name.default) || g ∈ named then jsonldLoop s own gs (named, merged)
    else if g.isIri then jsonldLoop s own gs (named ++ [g], merged)
    else jsonldLoop s own gs (named, merged ++ triplesOf s.d g)

def emitJsonld (s : Src) : List Block :=
  let own := jsonldOwn s
  let r := jsonldLoop s own (ctxList s) ([], [])
  let dflt : Block := ⟨.unnamed, (if own then triplesOf s.d Name.default else []) ++ r.2⟩
  nonEmptyBlocks (dflt :: r.1.map (blockOf s.d Spell.named))

/-- pre-fix TriX: a blank-node-named graph is written without name element; the parser gives an
    anonymous `<graph>` a new `BNode()` identifier (`fresh`, `fresh+1`, …) -/
def trixRoute (s : Src) : List Name → Nat → List Quad
  | [], _ => []
  | g :: gs, fresh =>
    match g with
    | .bnode _ => blockStmts (.named (.bnode fresh)) (triplesOf s.d g) ++ trixRoute s gs (fresh + 1)
    | g => blockStmts (.named g) (triplesOf s.d g) ++ trixRoute s gs fresh

end Old

end RV.C06
