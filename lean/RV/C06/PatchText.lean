import RV.C06.Model
/-
  C06, round g — the TEXT level of RDF Patch: the document `PatchSerializer.serialize` writes
  (header rows, `TX .`, A / D rows with the graph column, `TC .`; which rows under which keyword
  arguments; adds before deletes) and the line reader of `RDFPatchParser`
  (`parse` / `parsepatch` / `operation` / `eat_op` / `add_or_remove_triple_or_quad`).

  A line is its leading word (characters — the operation code is recognised on them exactly as the
  code does, with `str.startswith` in the order of the `Operation` enum and `str.lstrip`) plus a
  body of tokens.  Term spelling inside a token is C03/C05's subject; the tokens distinguish what the
  row reader distinguishes: a plain term, a blank node written `<_:label>` (`labeled_bnode`), no
  graph column / a graph column.
-/
namespace RV.C06

/-! ### operation codes (`class Operation(Enum)`, in definition order) -/

inductive PCode
  | A | D | PA | PD | TX | TC | TA | H
  deriving DecidableEq, Repr

def PCode.text : PCode → List Char
  | .A => ['A'] | .D => ['D'] | .PA => ['P', 'A'] | .PD => ['P', 'D']
  | .TX => ['T', 'X'] | .TC => ['T', 'C'] | .TA => ['T', 'A'] | .H => ['H']

def allCodes : List PCode := [.A, .D, .PA, .PD, .TX, .TC, .TA, .H]

/-- `str.startswith` -/
def startsWith : List Char → List Char → Bool
  | _, [] => true
  | [], _ :: _ => false
  | c :: cs, p :: ps => c == p && startsWith cs ps

/-- `RDFPatchParser.operation`: `for op in Operation: if self.line.startswith(op.value)` -/
def opOfIn (line : List Char) : List PCode → Option PCode
  | [] => none
  | c :: cs => if startsWith line c.text then some c else opOfIn line cs

def opOf (line : List Char) : Option PCode := opOfIn line allCodes

/-- `eat_op` = `self.line.lstrip(op)`: drops every leading character that occurs in `op` -/
def lstrip (chars : List Char) : List Char → List Char
  | [] => []
  | c :: cs => if c ∈ chars then lstrip chars cs else c :: cs

/-! ### lines -/

/-- subject / object token -/
inductive PTerm
  | plain (t : Term)        -- `<iri>`, `_:label`, `"literal"…`
  | angle (l : Nat)         -- `<_:label>`
  deriving DecidableEq, Repr

/-- `self.labeled_bnode() or self.subject(…)` / `… or self.object(…)` -/
def PTerm.read : PTerm → Term
  | .plain t => t
  | .angle l => .bnode l

/-- graph column -/
inductive PLabel
  | none                    -- a triple row
  | plain (g : Name)        -- `<iri>` (`<urn:x-rdflib:default>` included) or `_:label`
  | angle (l : Nat)         -- `<_:label>`
  deriving DecidableEq, Repr

/-- `context = labeled_bnode() or uriref() or nodeid()`, then
    `if context: sink.get_context(context) else sink.default_context` -/
def PLabel.read : PLabel → Name
  | .none => Name.default
  | .plain g => g
  | .angle l => .bnode l

/-- what follows the leading word -/
inductive PBody
  | none                                            -- nothing
  | cmt                                             -- only a comment: `# c`
  | dot                                             -- `.`
  | hdr (prev : Bool) (h : Nat)                     -- `id <h> .` / `prev <h> .`
  | pfx                                             -- `ex: <http://…> .`  (PA / PD rows)
  | quad (s : PTerm) (p : Term) (o : PTerm) (g : PLabel)   -- `s p o [g] .`
  deriving DecidableEq, Repr

inductive PLine
  | blank                                           -- empty or white space only
  | comment                                         -- `# …`
  | cmd (head : List Char) (body : PBody)
  deriving DecidableEq, Repr

/-! ### the reader -/

inductive PErr
  | parseError      -- `ParserError` ("Invalid line …")
  | valueError      -- `ValueError` (no operation code / PA, PD row that does not split in three)
  deriving DecidableEq, Repr

inductive LineRes
  | skip
  | row (r : PRow)
  | err (e : PErr)
  deriving DecidableEq, Repr

/-- `add_or_remove_triple_or_quad` after the code was eaten (`rest` = what `lstrip` left of the word) -/
def readQuadRow (op : POp) (rest : List Char) : PBody → LineRes
  | .none => if rest.isEmpty then .skip else .err .parseError          -- `if not self.line or startswith("#"): return`
  | .cmt => if rest.isEmpty then .skip else .err .parseError
  | .quad s p o g => if rest.isEmpty then .row (op, ((s.read, p, o.read), g.read)) else .err .parseError
  | _ => .err .parseError                                             -- "Subject must be uriref or nodeID"

/-- number of blank-separated chunks of a body (a quad row has at least four) -/
def bodyChunks : PBody → Nat
  | .none => 0
  | .cmt => 2
  | .dot => 1
  | .hdr _ _ => 3
  | .pfx => 3
  | .quad _ _ _ _ => 4

/-- `add_prefix` / `delete_prefix`: `prefix, ns, _ = line.split(" ")` — exactly three chunks or `ValueError`
    (what `lstrip` left of the word counts as a chunk; `"".split(" ")` is one chunk); no effect on the quads -/
def readPrefixRow (rest : List Char) (b : PBody) : LineRes :=
  if (if rest.isEmpty then 0 else 1) + bodyChunks b = 3 then .skip else .err .valueError

/-- `parsepatch` -/
def parseLine : PLine → LineRes
  | .blank => .skip
  | .comment => .skip
  | .cmd head body =>
    match opOf head with
    | none => .err .valueError
    | some .A => readQuadRow .add (lstrip PCode.A.text head) body
    | some .D => readQuadRow .del (lstrip PCode.D.text head) body
    | some .PA => readPrefixRow (lstrip PCode.PA.text head) body
    | some .PD => readPrefixRow (lstrip PCode.PD.text head) body
    | some _ => .skip                                                  -- header, TX, TC, TA: nothing is done

/-- `RDFPatchParser.parse`: line after line on the sink; an exception leaves what was done so far -/
def parseDoc : List PLine → List Quad → List Quad × Option PErr
  | [], d => (d, none)
  | l :: ls, d =>
    match parseLine l with
    | .skip => parseDoc ls d
    | .row r => parseDoc ls (applyRow d r)
    | .err e => (d, some e)

/-- the A / D rows of a document, in order (up to the first line that raises) -/
def docRows : List PLine → List PRow
  | [] => []
  | l :: ls =>
    match parseLine l with
    | .skip => docRows ls
    | .row r => r :: docRows ls
    | .err _ => []

/-! ### the writer -/

def codeLine (c : PCode) (b : PBody) : PLine := .cmd c.text b

/-- `write_header`: `if header_id:` / `if header_prev:` (truthiness: `None` and `""` write nothing), then `TX .` -/
def writeHeader (hid hprev : Option Nat) : List PLine :=
  (match hid with | some h => [codeLine .H (.hdr false h)] | none => []) ++
  (match hprev with | some h => [codeLine .H (.hdr true h)] | none => []) ++
  [codeLine .TX .dot]

def spellLabel : Spell → PLabel
  | .unnamed => .none
  | .named g => .plain g

/-- `add_remove_methods = {"add": "A", "remove": "D"}` -/
def opCode : POp → PCode
  | .add => .A
  | .del => .D

/-- `_patch_row`: `_nt_row` for the store's default graph, else `_nq_row` -/
def patchRow (s : Src) (op : POp) (g : Name) (t : Triple) : PLine :=
  codeLine (opCode op) (.quad (.plain t.1) t.2.1 (.plain t.2.2) (spellLabel (patchSpell s g)))

def rowsOfGraph (s : Src) (op : POp) (g : Name) : List Triple → List PLine
  | [] => []
  | t :: ts => patchRow s op g t :: rowsOfGraph s op g ts

/-- `write_triples(contexts, op_code)`: `for context in contexts: for triple in context:`;
    `d` = the quads of the dataset the contexts belong to -/
def writeTriples (s : Src) (d : List Quad) (op : POp) : List Name → List PLine
  | [] => []
  | g :: gs => rowsOfGraph s op g (triplesOf d g) ++ writeTriples s d op gs

/-- `rows = Dataset(); rows.addN(quads)`: a fresh Dataset holding exactly these quads -/
def quadSrc (d : List Quad) : Src := ⟨false, Name.default, dedup (d.map (·.2)), d⟩

/-- `operation` after `if operation: assert … elif target is None: operation = "add"` -/
def effOperation (operation : Option POp) (target : Option (List Quad)) : Option POp :=
  match operation, target with
  | some o, _ => some o
  | none, none => some .add
  | none, some _ => none

/-- `PatchSerializer.serialize` (`operation` ∈ {absent, "add", "remove"}; `target` = quads of the target Dataset) -/
def serializeDoc (operation : Option POp) (target : Option (List Quad)) (hid hprev : Option Nat) (s : Src) :
    List PLine :=
  writeHeader hid hprev ++
  (match effOperation operation target, target with
   | some o, _ => writeTriples s s.d o (ctxList s)
   | none, some d2 =>
     let a := quadSrc (qdiff d2 s.d)
     let r := quadSrc (qdiff s.d d2)
     writeTriples s a.d .add (ctxList a) ++ writeTriples s r.d .del (ctxList r)
   | none, none => []) ++
  [codeLine .TC .dot]

end RV.C06
