import RV.C06.Model
/-
  C06 — helper lemmas, part 3: RDF Patch (set algebra of `diff` / `apply`).
-/
namespace RV.C06

theorem mem_qdiff {a b : List Quad} {q : Quad} : q ∈ qdiff a b ↔ q ∈ a ∧ q ∉ b := by
  induction a with
  | nil => simp [qdiff]
  | cons x xs ih =>
    unfold qdiff
    split
    · next h =>
      rw [ih, List.mem_cons]
      constructor
      · rintro ⟨h1, h2⟩; exact ⟨Or.inr h1, h2⟩
      · rintro ⟨rfl | h1, h2⟩
        · exact absurd h h2
        · exact ⟨h1, h2⟩
    · next h =>
      simp only [List.mem_cons, ih]
      constructor
      · rintro (rfl | ⟨h1, h2⟩)
        · exact ⟨Or.inl rfl, h⟩
        · exact ⟨Or.inr h1, h2⟩
      · rintro ⟨rfl | h1, h2⟩
        · exact Or.inl rfl
        · exact Or.inr ⟨h1, h2⟩

theorem mem_tagRows {op op' : POp} {qs : List Quad} {q : Quad} :
    (op', q) ∈ tagRows op qs ↔ op' = op ∧ q ∈ qs := by
  induction qs with
  | nil => simp [tagRows]
  | cons x xs ih =>
    simp only [tagRows, List.mem_cons, ih, Prod.mk.injEq]
    constructor
    · rintro (⟨h1, h2⟩ | ⟨h1, h2⟩)
      · exact ⟨h1, Or.inl h2⟩
      · exact ⟨h1, Or.inr h2⟩
    · rintro ⟨h1, h2 | h2⟩
      · exact Or.inl ⟨h1, h2⟩
      · exact Or.inr ⟨h1, h2⟩

theorem mem_diff {d1 d2 : List Quad} {op : POp} {q : Quad} :
    (op, q) ∈ diff d1 d2 ↔ (op = .add ∧ q ∈ d2 ∧ q ∉ d1) ∨ (op = .del ∧ q ∈ d1 ∧ q ∉ d2) := by
  simp only [diff, List.mem_append, mem_tagRows, mem_qdiff]

/-- no quad is both added and deleted -/
def Disj (rows : List PRow) : Prop := ∀ q, (POp.add, q) ∈ rows → (POp.del, q) ∉ rows

/-- applying rows whose adds and deletes are disjoint: the order does not matter -/
theorem mem_apply (rows : List PRow) :
    ∀ (d : List Quad), Disj rows → ∀ x,
      x ∈ apply rows d ↔ (POp.add, x) ∈ rows ∨ (x ∈ d ∧ (POp.del, x) ∉ rows) := by
  induction rows with
  | nil => intro d _ x; simp [apply]
  | cons r rs ih =>
    intro d hd x
    have hd' : Disj rs := fun q h1 h2 => hd q (List.mem_cons_of_mem _ h1) (List.mem_cons_of_mem _ h2)
    obtain ⟨op, q⟩ := r
    have e : apply ((op, q) :: rs) d = apply rs (applyRow d (op, q)) := rfl
    rw [e, ih _ hd' x]
    cases op with
    | add =>
      simp only [applyRow, mem_sinsert, List.mem_cons, Prod.mk.injEq, true_and, reduceCtorEq, false_and,
        false_or]
      constructor
      · rintro (h | ⟨h1 | h1, h2⟩)
        · exact Or.inl (Or.inr h)
        · exact Or.inl (Or.inl h1)
        · exact Or.inr ⟨h1, h2⟩
      · rintro ((h | h) | ⟨h1, h2⟩)
        · by_cases hx : (POp.add, x) ∈ rs
          · exact Or.inl hx
          · refine Or.inr ⟨Or.inl h, ?_⟩
            subst h
            intro hdel
            exact hd x (List.mem_cons_self ..) (List.mem_cons_of_mem _ hdel)
        · exact Or.inl h
        · exact Or.inr ⟨Or.inr h1, h2⟩
    | del =>
      simp only [applyRow, mem_sremove, List.mem_cons, Prod.mk.injEq, true_and, reduceCtorEq, false_and,
        false_or, not_or]
      constructor
      · rintro (h | ⟨⟨h0, h1⟩, h2⟩)
        · exact Or.inl h
        · exact Or.inr ⟨h1, h0, h2⟩
      · rintro (h | ⟨h1, h0, h2⟩)
        · exact Or.inl h
        · exact Or.inr ⟨⟨h0, h1⟩, h2⟩

theorem disj_of_mem_iff {rows : List PRow} {d1 d2 : List Quad}
    (h : ∀ r, r ∈ rows ↔ r ∈ diff d1 d2) : Disj rows := by
  intro q h1 h2
  have a := (h _).mp h1
  have b := (h _).mp h2
  rw [mem_diff] at a b
  simp only [reduceCtorEq, false_and, or_false, true_and, false_or] at a b
  exact a.2 b.1

end RV.C06
