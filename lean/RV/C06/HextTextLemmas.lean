import RV.C06.HextText
import RV.C16.LemTextJson
/-
  C06, round h — `json.loads` undoes `json.dumps` on a list of strings (on top of C16's string codec),
  and the six columns of a hextuples row are read back.
-/
namespace RV.C06
open RV.C16 (Str Err pyDumpsStr jsonScan pyEscCharAscii escAll jsonScan_escAll jsonScanP_pyEscCharAscii)

theorem readValue_dumps (x rest : Str) : readValue (pyDumpsStr true x ++ rest) = .ok (.str x, rest) := by
  have h : jsonScan (escAll pyEscCharAscii x ++ '"' :: rest) = .ok (x, rest, false) :=
    jsonScan_escAll jsonScanP_pyEscCharAscii x rest
  simp only [pyDumpsStr, if_true, List.cons_append, List.append_assoc, List.nil_append, readValue, h]

theorem arrElems_dumps (x : Str) (xs : List Str) :
    ∀ (k : Nat) (rest : Str), arrElems (k + (x :: xs).length) (dumpsItems (x :: xs) ++ ']' :: rest) =
      .ok ((x :: xs).map JV.str, rest) := by
  induction xs generalizing x with
  | nil =>
    intro k rest
    simp only [List.length_singleton, dumpsItems, arrElems, readValue_dumps, skipWs, List.map_cons, List.map_nil]
    simp
  | cons y ys ih =>
    intro k rest
    have e : k + (x :: y :: ys).length = (k + (y :: ys).length) + 1 := by simp [Nat.add_assoc]
    rw [e]
    simp only [dumpsItems, List.append_assoc, List.cons_append, arrElems, readValue_dumps]
    have hs : skipWs (',' :: ' ' :: (dumpsItems (y :: ys) ++ ']' :: rest)) =
        ',' :: ' ' :: (dumpsItems (y :: ys) ++ ']' :: rest) := by simp [skipWs]
    rw [hs]
    have hq : ∀ (z : Str) (zs : List Str) (tl : Str), skipWs (' ' :: (dumpsItems (z :: zs) ++ tl)) = dumpsItems (z :: zs) ++ tl := by
      intro z zs tl
      cases zs with
      | nil => simp [skipWs, dumpsItems, pyDumpsStr]
      | cons w ws => simp [skipWs, dumpsItems, pyDumpsStr]
    simp only [hq, ih y k rest, List.map_cons]

theorem length_dumpsItems (xs : List Str) : xs.length ≤ (dumpsItems xs).length := by
  induction xs with
  | nil => simp [dumpsItems]
  | cons x xs ih =>
    cases xs with
    | nil => simp [dumpsItems, pyDumpsStr]
    | cons y ys =>
      simp only [dumpsItems, List.length_append, List.length_cons] at ih ⊢
      omega

theorem dumpsItems_head (x : Str) (xs : List Str) (tl : Str) : ∃ r, dumpsItems (x :: xs) ++ tl = '"' :: r := by
  cases xs with
  | nil => exact ⟨_, by simp only [dumpsItems, pyDumpsStr, List.cons_append]; rfl⟩
  | cons y ys => exact ⟨_, by simp only [dumpsItems, pyDumpsStr, List.cons_append]; rfl⟩

theorem loadsArr_quote (r : Str) (line : Str) (h : skipWs line = '[' :: '"' :: r) (vs : List JV) (r' : Str)
    (h1 : arrElems line.length ('"' :: r) = .ok (vs, r')) (h2 : skipWs r' = []) : loadsArr line = .ok vs := by
  unfold loadsArr
  rw [h]
  simp [skipWs, h1, h2]

theorem loadsArr_dumps (x : Str) (xs : List Str) :
    loadsArr (dumpsArr (x :: xs) ++ ['\n']) = .ok ((x :: xs).map JV.str) := by
  have hlen : (x :: xs).length ≤ (dumpsArr (x :: xs) ++ ['\n']).length := by
    have := length_dumpsItems (x :: xs)
    simp only [dumpsArr, List.length_append, List.length_cons, List.length_nil] at this ⊢
    omega
  obtain ⟨k, hk⟩ := Nat.exists_eq_add_of_le hlen
  obtain ⟨r, hr⟩ := dumpsItems_head x xs (']' :: ['\n'])
  have h1 : skipWs (dumpsArr (x :: xs) ++ ['\n']) = '[' :: '"' :: r := by
    simp only [dumpsArr, List.cons_append, List.append_assoc, ← hr]
    simp [skipWs]
  refine loadsArr_quote r _ h1 _ ['\n'] ?_ (by simp [skipWs])
  rw [← hr, hk, Nat.add_comm, arrElems_dumps x xs k ['\n']]

/-! ### the six columns -/

/-- a node that can be a subject or a graph name of a hextuples row: an IRI is not empty and does not start with `_` -/
def HNode.Ok : HNode → Prop
  | .iri x => x ≠ [] ∧ x.head? ≠ some '_'
  | .bnode _ => True

/-- a language tag is not empty; a datatype IRI is not empty and is not one of the two keywords of the datatype column -/
def HObj.Ok : HObj → Prop
  | .lang _ l => l ≠ []
  | .typed _ dt => dt ≠ [] ∧ dt ≠ sGlobalId ∧ dt ≠ sLocalId
  | _ => True

theorem noneIfEmpty_str {s : Str} (h : s ≠ []) : noneIfEmpty (.str s) = some s := by
  cases s with
  | nil => exact absurd rfl h
  | cons _ _ => rfl

theorem noneIfEmpty_nil : noneIfEmpty (.str []) = none := rfl

theorem readBnodeLabel_nodeStr (l : Str) : readBnodeLabel (nodeStr (.bnode l)) = l := rfl

theorem nodeStr_ne_nil {n : HNode} (h : n.Ok) : nodeStr n ≠ [] := by
  cases n with
  | iri x => exact h.1
  | bnode l => simp [nodeStr]

theorem readSubject_nodeStr {n : HNode} (h : n.Ok) : readSubject (nodeStr n) = n := by
  cases n with
  | bnode l => rfl
  | iri x =>
    cases x with
    | nil => exact absurd rfl h.1
    | cons c cs =>
      have hc : c ≠ '_' := by
        intro e; exact h.2 (by simp [e])
      simp only [nodeStr]
      unfold readSubject
      split
      · next r heq => cases heq; exact absurd rfl hc
      · rfl

theorem readGraph_nodeStr {n : HNode} (h : n.Ok) : readGraph (nodeStr n) = n := by
  cases n with
  | bnode l => rfl
  | iri x =>
    cases x with
    | nil => exact absurd rfl h.1
    | cons c cs =>
      have hc : c ≠ '_' := by
        intro e; exact h.2 (by simp [e])
      simp only [nodeStr]
      unfold readGraph
      split
      · next l heq => cases heq; exact absurd rfl hc
      · rfl

theorem readCtx (g : Option HNode) (h : ∀ n, g = some n → n.Ok) :
    (noneIfEmpty (.str (ctxStr g))).map readGraph = g := by
  cases g with
  | none => rfl
  | some n =>
    have hn := h n rfl
    simp only [ctxStr, noneIfEmpty_str (nodeStr_ne_nil hn), Option.map_some, readGraph_nodeStr hn]

end RV.C06
