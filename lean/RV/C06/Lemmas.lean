import RV.C06.Model
/-
  C06 — helper lemmas, part 1: which statements does each emitter write?
  Everything is about membership (documents and datasets are read as sets).
-/
namespace RV.C06

/-! ### reading the source -/

theorem mem_triplesOf {d : List Quad} {g : Name} {t : Triple} :
    t ∈ triplesOf d g ↔ (t, g) ∈ d := by
  induction d with
  | nil => simp [triplesOf]
  | cons q qs ih =>
    obtain ⟨t', g'⟩ := q
    unfold triplesOf
    split
    · next h =>
      subst h
      simp only [List.mem_cons, ih, Prod.mk.injEq]
      constructor
      · rintro (h | h)
        · exact Or.inl (by simpa using h)
        · exact Or.inr h
      · rintro (h | h)
        · exact Or.inl (by simpa using h)
        · exact Or.inr h
    · next h =>
      simp only [List.mem_cons, ih, Prod.mk.injEq]
      constructor
      · exact Or.inr
      · rintro (⟨_, h'⟩ | h')
        · exact absurd h'.symm h
        · exact h'

theorem isEmpty_triplesOf_false {d : List Quad} {g : Name} {t : Triple} (h : (t, g) ∈ d) :
    (triplesOf d g).isEmpty = false := by
  have := mem_triplesOf.mpr h
  cases hx : triplesOf d g with
  | nil => rw [hx] at this; cases this
  | cons _ _ => rfl

theorem mem_dedup {l : List Name} {g : Name} : g ∈ dedup l ↔ g ∈ l := by
  induction l with
  | nil => simp [dedup]
  | cons x xs ih =>
    simp only [dedup, List.mem_cons, mem_sremove, ih]
    constructor
    · rintro (h | ⟨_, h⟩)
      · exact Or.inl h
      · exact Or.inr h
    · intro h
      by_cases e : g = x
      · exact Or.inl e
      · rcases h with h | h
        · exact absurd h e
        · exact Or.inr ⟨e, h⟩

theorem nodup_dedup (l : List Name) : (dedup l).Nodup := by
  induction l with
  | nil => simp [dedup]
  | cons x xs ih =>
    simp only [dedup, List.nodup_cons, mem_sremove]
    exact ⟨fun h => h.1 rfl, nodup_sremove ih⟩

/-! ### statements of a document -/

theorem mem_blockStmts {sp : Spell} {ts : List Triple} {t : Triple} {g : Name} :
    (t, g) ∈ blockStmts sp ts ↔ t ∈ ts ∧ g = dest sp := by
  induction ts with
  | nil => simp [blockStmts]
  | cons x xs ih =>
    simp only [blockStmts, List.mem_cons, ih, Prod.mk.injEq]
    constructor
    · rintro (⟨h1, h2⟩ | ⟨h1, h2⟩)
      · exact ⟨Or.inl h1, h2⟩
      · exact ⟨Or.inr h1, h2⟩
    · rintro ⟨h1 | h1, h2⟩
      · exact Or.inl ⟨h1, h2⟩
      · exact Or.inr ⟨h1, h2⟩

theorem mem_stmts {bs : List Block} {t : Triple} {g : Name} :
    (t, g) ∈ stmts bs ↔ ∃ b ∈ bs, t ∈ b.triples ∧ g = dest b.spell := by
  induction bs with
  | nil => simp [stmts]
  | cons b bs ih =>
    simp only [stmts, List.mem_append, mem_blockStmts, ih, List.mem_cons]
    constructor
    · rintro (h | ⟨b', hb', h⟩)
      · exact ⟨b, Or.inl rfl, h⟩
      · exact ⟨b', Or.inr hb', h⟩
    · rintro ⟨b', rfl | hb', h⟩
      · exact Or.inl h
      · exact Or.inr ⟨b', hb', h⟩

/-- the statements written by "one block per listed graph" -/
theorem mem_stmts_map {d : List Quad} {sp : Name → Spell} {names : List Name} {t : Triple} {g' : Name} :
    (t, g') ∈ stmts (names.map (blockOf d sp)) ↔ ∃ g ∈ names, (t, g) ∈ d ∧ g' = dest (sp g) := by
  rw [mem_stmts]
  constructor
  · rintro ⟨b, hb, ht, hg⟩
    obtain ⟨g, hg1, rfl⟩ := List.mem_map.mp hb
    exact ⟨g, hg1, mem_triplesOf.mp ht, hg⟩
  · rintro ⟨g, hg1, ht, hg⟩
    exact ⟨blockOf d sp g, List.mem_map.mpr ⟨g, hg1, rfl⟩, mem_triplesOf.mpr ht, hg⟩

theorem mem_stmts_nonEmptyBlocks {bs : List Block} {t : Triple} {g : Name} :
    (t, g) ∈ stmts (nonEmptyBlocks bs) ↔ (t, g) ∈ stmts bs := by
  simp only [mem_stmts, nonEmptyBlocks, List.mem_filter]
  constructor
  · rintro ⟨b, ⟨hb, _⟩, h⟩
    exact ⟨b, hb, h⟩
  · rintro ⟨b, hb, ht, hg⟩
    refine ⟨b, ⟨hb, ?_⟩, ht, hg⟩
    cases hx : b.triples with
    | nil => rw [hx] at ht; cases ht
    | cons _ _ => rfl

/-! ### the context lists -/

/-- every graph that carries a quad is listed by `contexts()` -/
def Covers (s : Src) : Prop := ∀ q ∈ s.d, q.2 ∈ ctxList s

theorem mem_ctxPlusDefault {s : Src} {g : Name} :
    g ∈ ctxPlusDefault s ↔ g ∈ ctxList s ∨ (dfltNonEmpty s = true ∧ g = s.dflt) := by
  unfold ctxPlusDefault
  rw [List.mem_append]
  split
  · next h => simp [h]
  · next h => simp [h]

/-! ### JSON-LD: the loop over all contexts -/

/-- named graphs collected by the loop -/
theorem mem_jsonldLoop_named (s : Src) (own : Bool) (gs : List Name) :
    ∀ (named : List Name) (merged : List Triple) (g : Name),
      g ∈ (jsonldLoop s own gs (named, merged)).1 ↔
        g ∈ named ∨ (g ∈ gs ∧ ¬ (own = true ∧ g = Name.default) ∧ (g.isIri = true ∨ g ≠ s.dflt)) := by
  induction gs with
  | nil => intro named merged g; simp [jsonldLoop]
  | cons x xs ih =>
    intro named merged g
    unfold jsonldLoop
    split
    · next h =>
      rw [ih]
      simp only [Bool.or_eq_true, Bool.and_eq_true, decide_eq_true_eq] at h
      constructor
      · rintro (h' | ⟨h1, h2⟩)
        · exact Or.inl h'
        · exact Or.inr ⟨List.mem_cons_of_mem _ h1, h2⟩
      · rintro (h' | ⟨h1, h2, h3⟩)
        · exact Or.inl h'
        · rcases List.mem_cons.mp h1 with rfl | h1
          · rcases h with h | h
            · exact absurd h h2
            · exact Or.inl h
          · exact Or.inr ⟨h1, h2, h3⟩
    · next h =>
      simp only [Bool.or_eq_true, Bool.and_eq_true, decide_eq_true_eq, not_or, not_and] at h
      split
      · next h2 =>
        rw [ih]
        simp only [Bool.or_eq_true, decide_eq_true_eq] at h2
        simp only [List.mem_append, List.mem_cons, List.not_mem_nil, or_false]
        constructor
        · rintro ((h' | rfl) | ⟨h1, h3⟩)
          · exact Or.inl h'
          · exact Or.inr ⟨Or.inl rfl, fun ⟨a, b⟩ => h.1 a b, h2⟩
          · exact Or.inr ⟨Or.inr h1, h3⟩
        · rintro (h' | ⟨rfl | h1, h3⟩)
          · exact Or.inl (Or.inl h')
          · exact Or.inl (Or.inr rfl)
          · exact Or.inr ⟨h1, h3⟩
      · next h2 =>
        rw [ih]
        simp only [Bool.or_eq_true, decide_eq_true_eq, not_or] at h2
        simp only [List.mem_cons]
        constructor
        · rintro (h' | ⟨h1, h3⟩)
          · exact Or.inl h'
          · exact Or.inr ⟨Or.inr h1, h3⟩
        · rintro (h' | ⟨rfl | h1, h3, h4⟩)
          · exact Or.inl h'
          · rcases h4 with h4 | h4
            · exact absurd h4 h2.1
            · exact absurd h4 (by simpa using h2.2)
          · exact Or.inr ⟨h1, h3, h4⟩

/-- for a Dataset (default identifier = `urn:x-rdflib:default`, an IRI) nothing is ever merged -/
theorem jsonldLoop_merged_ds (s : Src) (own : Bool) (hd : s.dflt = Name.default) (gs : List Name) :
    ∀ (named : List Name) (merged : List Triple), (jsonldLoop s own gs (named, merged)).2 = merged := by
  induction gs with
  | nil => intro named merged; simp [jsonldLoop]
  | cons x xs ih =>
    intro named merged
    unfold jsonldLoop
    split
    · exact ih _ _
    · split
      · exact ih _ _
      · next h2 =>
        exfalso
        apply h2
        simp only [Bool.or_eq_true, decide_eq_true_eq, hd]
        cases x with
        | default => exact Or.inl rfl
        | iri n => exact Or.inl rfl
        | bnode l => exact Or.inr (by simp)

/-! ### per format: the statements written are exactly the dataset's quads (Dataset source) -/

/-- the source object is a `Dataset`: its default graph is `urn:x-rdflib:default` -/
structure DsWF (s : Src) : Prop where
  ds : s.cg = false
  dflt : s.dflt = Name.default
  covers : Covers s

theorem stmts_map_of_dest {d : List Quad} {sp : Name → Spell} {names : List Name}
    (hsp : ∀ g, dest (sp g) = g) (hcov : ∀ q ∈ d, q.2 ∈ names) (t : Triple) (g : Name) :
    (t, g) ∈ stmts (names.map (blockOf d sp)) ↔ (t, g) ∈ d := by
  rw [mem_stmts_map]
  constructor
  · rintro ⟨g0, _, ht, hg⟩
    rw [hsp] at hg
    subst hg
    exact ht
  · intro h
    exact ⟨g, hcov _ h, h, (hsp g).symm⟩

theorem dest_nqSpell (g : Name) : dest (nqSpell g) = g := by
  unfold nqSpell
  split
  · next h => subst h; rfl
  · rfl

theorem default_mem_ctxList {s : Src} (h : s.cg = false) : Name.default ∈ ctxList s := by
  unfold ctxList
  rw [h]
  simp only [Bool.false_eq_true, if_false]
  split
  · assumption
  · simp

theorem stmts_emitNQuads {s : Src} (h : DsWF s) (t : Triple) (g : Name) :
    (t, g) ∈ stmts (emitNQuads s) ↔ (t, g) ∈ s.d :=
  stmts_map_of_dest dest_nqSpell h.covers t g

theorem stmts_emitTrix {s : Src} (h : DsWF s) (t : Triple) (g : Name) :
    (t, g) ∈ stmts (emitTrix s) ↔ (t, g) ∈ s.d :=
  stmts_map_of_dest (fun _ => rfl) h.covers t g

theorem stmts_emitPatch {s : Src} (h : DsWF s) (t : Triple) (g : Name) :
    (t, g) ∈ stmts (emitPatch s) ↔ (t, g) ∈ s.d := by
  refine stmts_map_of_dest ?_ h.covers t g
  intro g
  unfold patchSpell
  split
  · next hg => rw [hg, h.dflt]; rfl
  · exact dest_nqSpell g

theorem stmts_emitHext {s : Src} (h : DsWF s) (t : Triple) (g : Name) :
    (t, g) ∈ stmts (emitHext s) ↔ (t, g) ∈ s.d := by
  refine stmts_map_of_dest ?_ ?_ t g
  · intro g
    unfold hextSpell
    split
    · next hg => subst hg; rfl
    · next hg =>
      split
      · next h2 =>
        simp only [Bool.and_eq_true, decide_eq_true_eq] at h2
        exact absurd (h2.2.trans h.dflt) hg
      · rfl
  · intro q hq
    exact mem_ctxPlusDefault.mpr (Or.inl (h.covers q hq))

theorem stmts_emitTrig {s : Src} (h : DsWF s) (t : Triple) (g : Name) :
    (t, g) ∈ stmts (emitTrig s) ↔ (t, g) ∈ s.d := by
  refine stmts_map_of_dest ?_ ?_ t g
  · intro g
    unfold trigSpell
    split
    · next hg => rw [hg, h.dflt]; rfl
    · rfl
  · intro q hq
    rw [List.mem_filter]
    refine ⟨mem_dedup.mpr (mem_ctxPlusDefault.mpr (Or.inl (h.covers q hq))), ?_⟩
    have : (triplesOf s.d q.2).isEmpty = false := isEmpty_triplesOf_false (t := q.1) hq
    simp [this]

theorem jsonldOwn_ds {s : Src} (h : DsWF s) : jsonldOwn s = true := by
  unfold jsonldOwn
  simp [default_mem_ctxList h.ds, h.dflt]

theorem stmts_emitJsonld {s : Src} (h : DsWF s) (t : Triple) (g : Name) :
    (t, g) ∈ stmts (emitJsonld s) ↔ (t, g) ∈ s.d := by
  unfold emitJsonld
  simp only [jsonldOwn_ds h, if_true]
  rw [mem_stmts_nonEmptyBlocks]
  simp only [stmts, List.mem_append, mem_blockStmts, jsonldLoop_merged_ds s true h.dflt,
    List.append_nil, mem_triplesOf, mem_stmts_map, mem_jsonldLoop_named, List.not_mem_nil,
    false_or, true_and, dest]
  constructor
  · rintro (⟨ht, rfl⟩ | ⟨g0, _, ht, rfl⟩)
    · exact ht
    · exact ht
  · intro ht
    by_cases hg : g = Name.default
    · subst hg; exact Or.inl ⟨ht, rfl⟩
    · refine Or.inr ⟨g, ⟨h.covers _ ht, hg, Or.inr ?_⟩, ht, rfl⟩
      rw [h.dflt]; exact hg

theorem stmts_emit (F : Fmt) {s : Src} (h : DsWF s) (t : Triple) (g : Name) :
    (t, g) ∈ stmts (emit F s) ↔ (t, g) ∈ s.d := by
  cases F
  · exact stmts_emitNQuads h t g
  · exact stmts_emitTrig h t g
  · exact stmts_emitTrix h t g
  · exact stmts_emitHext h t g
  · exact stmts_emitJsonld h t g
  · exact stmts_emitPatch h t g

/-! ### glue: identity renaming, images of equal sets -/

theorem mapTerm_id (t : Term) : mapTerm id t = t := by cases t <;> rfl
theorem mapName_id (g : Name) : mapName id g = g := by cases g <;> rfl
theorem mapQuad_id (q : Quad) : mapQuad id q = q := by
  obtain ⟨⟨a, b, c⟩, g⟩ := q
  simp [mapQuad, mapTriple, mapTerm_id, mapName_id]

theorem map_mapQuad_id (d : List Quad) : d.map (mapQuad id) = d := by
  induction d with
  | nil => rfl
  | cons q qs ih => rw [List.map_cons, ih, mapQuad_id]

theorem setEq_stmts_emit (F : Fmt) {s : Src} (h : DsWF s) : SetEq (stmts (emit F s)) s.d := by
  rintro ⟨t, g⟩
  exact stmts_emit F h t g

theorem setEq_map {a b : List Quad} (g : Quad → Quad) (h : SetEq a b) : SetEq (a.map g) (b.map g) := by
  intro x
  simp only [List.mem_map]
  constructor
  · rintro ⟨y, hy, rfl⟩; exact ⟨y, (h y).mp hy, rfl⟩
  · rintro ⟨y, hy, rfl⟩; exact ⟨y, (h y).mpr hy, rfl⟩

end RV.C06
