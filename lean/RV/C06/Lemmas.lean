import RV.C06.Model
namespace RV.C06
end RV.C06
