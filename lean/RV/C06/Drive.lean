import RV.C06.Model
import RV.C06.PatchText
import RV.C06.TrigLoop
import RV.C06.HextText
import RV.Base.Proto
/-
  C06 driver.  Terms / names are tokens owned by the harness:
    term  = i<n> | l<n> | b<n>        name = D | i<n> | b<n>        spell = U | name
  Protocol:
    load  <0|1 = cg> <dflt name> | <registered names…> | <s p o g …>   -> ok     (source dataset)
    load2 … same …                                                        -> ok     (second dataset, patch target)
    emit  <fmt>      -> blocks as statements  "spell,s,p,o …"   (fmt = nquads|trig|trix|hext|jsonld|patch)
    route <fmt>      -> quads "s,p,o,g …" of route fmt (emit fmt src)  (fresh node ids start at 1000)
    diff             -> rows "A|D,s,p,o,spell …" of the patch  src → src2, as written
    apply            -> quads of  apply (read (write (diff src src2))) src
    pdoc <-|add|remove> <0|1 = target is src2> <hid|-> <hprev|->
                     -> the lines of serializeDoc on src, " ; "-separated:  H,id,n | H,prev,n | TX | TC | A|D,s,p,o,spell
    pparse <line> ; <line> ; …   -> "<ok|ParserError|ValueError> | quads" of parseDoc on the quads of src;
                     line = B | C | <head> N | <head> K (only a comment) | <head> . | <head> H <id|prev> <n> | <head> P | <head> Q s p o g
                     (s, o: term or w<n> = `<_:bn>`;  g: U | name | w<n>)
    loadvocab <tok> <I|B|P> <cps> ; <tok> <G|T> <cps> <cps> ; …   -> ok   (strings of the tokens: IRI text, blank node label,
                     plain literal, lang literal lex+tag, typed literal lex+datatype; cps = code points joined by `.`, `-` = empty)
    hextdoc          -> the lines `hexLine` writes for the statements of emitHext src (code points; space-separated)
    hparse <cps>     -> parseHexLine of one line: "ok <s> ; <p> ; <o> ; <g>" or ValueError | IndexError | unmodelled
  `store.contexts()` of the source = registered names ∪ names that carry a quad.
-/
open RV RV.C06 RV.Proto

def term? (w : String) : Option Term :=
  match w.toList with
  | 'i' :: r => (String.ofList r).toNat?.map Term.iri
  | 'l' :: r => (String.ofList r).toNat?.map Term.lit
  | 'b' :: r => (String.ofList r).toNat?.map Term.bnode
  | _ => none

def name? (w : String) : Option Name :=
  match w.toList with
  | ['D'] => some Name.default
  | 'i' :: r => (String.ofList r).toNat?.map Name.iri
  | 'b' :: r => (String.ofList r).toNat?.map Name.bnode
  | _ => none

def fmt? : String → Option Fmt
  | "nquads" => some .nquads | "trig" => some .trig | "trix" => some .trix
  | "hext" => some .hext | "jsonld" => some .jsonld | "patch" => some .patch
  | _ => none

def showTerm : Term → String
  | .iri n => s!"i{n}" | .lit n => s!"l{n}" | .bnode l => s!"b{l}"
def showName : Name → String
  | .default => "D" | .iri n => s!"i{n}" | .bnode l => s!"b{l}"
def showSpell : Spell → String
  | .unnamed => "U" | .named g => showName g
def showTriple (t : Triple) : String := s!"{showTerm t.1},{showTerm t.2.1},{showTerm t.2.2}"

def showBlocks (bs : List Block) : String :=
  " ".intercalate (bs.flatMap (fun b => b.triples.map (fun t => s!"{showSpell b.spell},{showTriple t}")))
def showQuads (qs : List Quad) : String :=
  " ".intercalate (qs.map (fun q => s!"{showTriple q.1},{showName q.2}"))
def showPOp : POp → String
  | .add => "A" | .del => "D"
def showRows (rs : List PText) : String :=
  " ".intercalate (rs.map (fun r => s!"{showPOp r.1},{showTriple r.2.1},{showSpell r.2.2}"))

def names? : List String → Option (List Name)
  | [] => some []
  | w :: ws => do let g ← name? w; let gs ← names? ws; pure (g :: gs)

def quads? : List String → Option (List Quad)
  | [] => some []
  | a :: b :: c :: g :: ws => do
    let a ← term? a; let b ← term? b; let c ← term? c; let g ← name? g
    let qs ← quads? ws
    pure (((a, b, c), g) :: qs)
  | _ => none

def splitBar (ws : List String) : List (List String) :=
  ws.foldr (fun w acc => if w = "|" then [] :: acc else
    match acc with
    | [] => [[w]]
    | a :: as => (w :: a) :: as) [[]]

def src? (ws : List String) : Option Src :=
  match splitBar ws with
  | [[cg, dflt], reg, qs] => do
    let cg ← (if cg = "0" then some false else if cg = "1" then some true else none)
    let dflt ← name? dflt
    let reg ← names? reg
    let d ← quads? qs
    pure ⟨cg, dflt, (reg ++ d.map (·.2)).foldl sinsert [], d⟩
  | _ => none

/-! #### round g: RDF Patch documents -/

def showPTerm : PTerm → String
  | .plain t => showTerm t | .angle l => s!"w{l}"
def showPLabel : PLabel → String
  | .none => "U" | .plain g => showName g | .angle l => s!"w{l}"
def showBody : PBody → String
  | .none => "" | .cmt => "" | .dot => "" | .hdr false h => s!",id,{h}" | .hdr true h => s!",prev,{h}" | .pfx => ",pfx"
  | .quad s p o g => s!",{showPTerm s},{showTerm p},{showPTerm o},{showPLabel g}"
def showLine : PLine → String
  | .blank => "B" | .comment => "C"
  | .cmd head body => String.ofList head ++ showBody body
def showDoc (ls : List PLine) : String := " ; ".intercalate (ls.map showLine)

def pterm? (w : String) : Option PTerm :=
  match w.toList with
  | 'w' :: r => (String.ofList r).toNat?.map PTerm.angle
  | _ => (term? w).map PTerm.plain
def plabel? (w : String) : Option PLabel :=
  match w.toList with
  | ['U'] => some PLabel.none
  | 'w' :: r => (String.ofList r).toNat?.map PLabel.angle
  | _ => (name? w).map PLabel.plain

def pline? : List String → Option PLine
  | ["B"] => some .blank
  | ["C"] => some .comment
  | [h, "N"] => some (.cmd h.toList .none)
  | [h, "K"] => some (.cmd h.toList .cmt)
  | [h, "."] => some (.cmd h.toList .dot)
  | [h, "P"] => some (.cmd h.toList .pfx)
  | [h, "H", k, n] => do
    let prev ← (if k = "id" then some false else if k = "prev" then some true else none)
    let n ← n.toNat?
    pure (.cmd h.toList (.hdr prev n))
  | [h, "Q", a, b, c, g] => do
    let a ← pterm? a; let b ← term? b; let c ← pterm? c; let g ← plabel? g
    pure (.cmd h.toList (.quad a b c g))
  | _ => none

def splitSemi (ws : List String) : List (List String) :=
  ws.foldr (fun w acc => if w = ";" then [] :: acc else
    match acc with
    | [] => [[w]]
    | a :: as => (w :: a) :: as) [[]]

def plines? : List (List String) → Option (List PLine)
  | [] => some []
  | l :: ls => do let x ← pline? l; let xs ← plines? ls; pure (x :: xs)

def optOp? : String → Option (Option POp)
  | "-" => some none | "add" => some (some .add) | "remove" => some (some .del) | _ => none

def showErr : Option PErr → String
  | none => "ok" | some .parseError => "ParserError" | some .valueError => "ValueError"

/-- what the driver runs for `emit`: for TriG the two loops of the serializer (`emitTrigLoop`, proved equal to
    `emit .trig` in `trig_loop_refines`) -/
def emitD : Fmt → Src → List Block
  | .trig, s => emitTrigLoop s
  | f, s => emit f s

/-! #### round h: hextuples rows -/

def cps? (w : String) : Option (List Char) :=
  if w = "-" then some [] else (w.splitOn ".").mapM (fun x => x.toNat?.map Char.ofNat)

def showCps (s : List Char) : String :=
  if s.isEmpty then "-" else ".".intercalate (s.map (fun c => toString c.toNat))

inductive VEntry
  | iri (s : List Char) | bnode (l : List Char) | plain (lex : List Char)
  | lang (lex l : List Char) | typed (lex dt : List Char)

def ventry? : List String → Option (String × VEntry)
  | [t, "I", a] => (cps? a).map (fun a => (t, .iri a))
  | [t, "B", a] => (cps? a).map (fun a => (t, .bnode a))
  | [t, "P", a] => (cps? a).map (fun a => (t, .plain a))
  | [t, "G", a, b] => do let a ← cps? a; let b ← cps? b; pure (t, .lang a b)
  | [t, "T", a, b] => do let a ← cps? a; let b ← cps? b; pure (t, .typed a b)
  | _ => none

def ventries? : List (List String) → Option (List (String × VEntry))
  | [] => some []
  | l :: ls => do let x ← ventry? l; let xs ← ventries? ls; pure (x :: xs)

def vlookup : List (String × VEntry) → String → Option VEntry
  | [], _ => none
  | (k, v) :: m, t => if k = t then some v else vlookup m t

def hnodeOf (v : List (String × VEntry)) (tok : String) : Option HNode :=
  match vlookup v tok with
  | some (.iri s) => some (.iri s)
  | some (.bnode l) => some (.bnode l)
  | _ => none

def hobjOf (v : List (String × VEntry)) (tok : String) : Option HObj :=
  match vlookup v tok with
  | some (.iri s) => some (.node (.iri s))
  | some (.bnode l) => some (.node (.bnode l))
  | some (.plain x) => some (.plain x)
  | some (.lang x l) => some (.lang x l)
  | some (.typed x d) => some (.typed x d)
  | none => none

def hexLineOf (v : List (String × VEntry)) (sp : Spell) (t : Triple) : String :=
  let g : Option (Option HNode) := match sp with
    | .unnamed => some none
    | .named .default => some (some (.iri "urn:x-rdflib:default".toList))
    | .named g => (hnodeOf v (showName g)).map some
  match hnodeOf v (showTerm t.1), hnodeOf v (showTerm t.2.1), hobjOf v (showTerm t.2.2), g with
  | some s, some (.iri p), some o, some g => showCps (hexLine s p o (ctxStr g))
  | _, _, _, _ => s!"missing:{showTriple t}"

def hextDoc (v : List (String × VEntry)) (s : Src) : String :=
  " ".intercalate ((emitHext s).flatMap (fun b => b.triples.map (hexLineOf v b.spell)))

def showHNode : HNode → String
  | .iri s => "I:" ++ showCps s | .bnode l => "B:" ++ showCps l
def showHObj : HObj → String
  | .node n => "N:" ++ showHNode n | .plain x => "P:" ++ showCps x
  | .lang x l => "G:" ++ showCps x ++ ":" ++ showCps l | .typed x d => "T:" ++ showCps x ++ ":" ++ showCps d
def showHRes : Except RV.C16.Err HQuad → String
  | .ok q => s!"ok {showHNode q.s} ; {showCps q.p} ; {showHObj q.o} ; " ++ (match q.g with | none => "U" | some n => showHNode n)
  | .error .value => "ValueError"
  | .error .index => "IndexError"
  | .error _ => "unmodelled"

structure DSt where
  s1 : Src
  s2 : Src
  vocab : List (String × VEntry) := []

def emptySrc : Src := ⟨false, Name.default, [], []⟩

def step (st : DSt) : List String → DSt × String
  | "load" :: ws =>
    match src? ws with
    | some s => ({ st with s1 := s }, "ok")
    | none => (st, "bad-op")
  | "load2" :: ws =>
    match src? ws with
    | some s => ({ st with s2 := s }, "ok")
    | none => (st, "bad-op")
  | ["emit", f] =>
    match fmt? f with
    | some f => (st, showBlocks (emitD f st.s1))
    | none => (st, "bad-op")
  | ["route", f] =>
    match fmt? f with
    | some f => (st, showQuads (route f (emitD f st.s1) 1000))
    | none => (st, "bad-op")
  | ["diff"] => (st, showRows ((diff st.s1.d st.s2.d).map writeRow))
  | ["apply"] => (st, showQuads (apply (((diff st.s1.d st.s2.d).map writeRow).map readRow) st.s1.d))
  | ["pdoc", o, tg, hid, hprev] =>
    match optOp? o, optNat? hid, optNat? hprev with
    | some o, some hid, some hprev =>
      if tg = "1" then (st, showDoc (serializeDoc o (some st.s2.d) hid hprev st.s1))
      else if tg = "0" then (st, showDoc (serializeDoc o none hid hprev st.s1))
      else (st, "bad-op")
    | _, _, _ => (st, "bad-op")
  | "loadvocab" :: ws =>
    match ventries? ((splitSemi ws).filter (· ≠ [])) with
    | some v => ({ st with vocab := v }, "ok")
    | none => (st, "bad-op")
  | ["hextdoc"] => (st, hextDoc st.vocab st.s1)
  | ["hparse", w] =>
    match cps? w with
    | some line => (st, showHRes (parseHexLine line))
    | none => (st, "bad-op")
  | "pparse" :: ws =>
    match plines? ((splitSemi ws).filter (· ≠ [])) with
    | some ls =>
      let r := parseDoc ls st.s1.d
      (st, showErr r.2 ++ " | " ++ showQuads r.1)
    | none => (st, "bad-op")
  | _ => (st, "bad-op")

def main : IO Unit := RV.Proto.run step ({ s1 := emptySrc, s2 := emptySrc } : DSt)
