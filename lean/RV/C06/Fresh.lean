import RV.C06.Model
/-
  C06 — helper lemmas, part 2: the document-scoped label map of the relabelling parsers.
  Reading a whole document with "first occurrence gets a fresh node, later occurrences reuse it"
  equals applying ONE injective function to every label of the document.
-/
namespace RV.C06

def LSt.le (a b : LSt) : Prop := ∀ l v, lookup a.m l = some v → lookup b.m l = some v

theorem LSt.le_refl (a : LSt) : a.le a := fun _ _ h => h
theorem LSt.le_trans {a b c : LSt} (h1 : a.le b) (h2 : b.le c) : a.le c :=
  fun l v h => h2 l v (h1 l v h)

/-- values are below `next` and no two labels share a value -/
structure Good (st : LSt) : Prop where
  lt : ∀ l v, lookup st.m l = some v → v < st.next
  inj : ∀ l l' v, lookup st.m l = some v → lookup st.m l' = some v → l = l'

/-- the renaming a state stands for (labels not in the map go above `next`, injectively) -/
def app (st : LSt) (l : Nat) : Nat :=
  match lookup st.m l with
  | some v => v
  | none => st.next + l

theorem app_of_lookup {st : LSt} {l v : Nat} (h : lookup st.m l = some v) : app st l = v := by
  simp [app, h]

theorem app_injective {st : LSt} (hg : Good st) : Function.Injective (app st) := by
  intro a b hab
  unfold app at hab
  cases ha : lookup st.m a with
  | some va =>
    cases hb : lookup st.m b with
    | some vb =>
      rw [ha, hb] at hab
      simp only at hab
      subst hab
      exact hg.inj a b va ha hb
    | none =>
      rw [ha, hb] at hab
      simp only at hab
      have := hg.lt a va ha
      omega
  | none =>
    cases hb : lookup st.m b with
    | some vb =>
      rw [ha, hb] at hab
      simp only at hab
      have := hg.lt b vb hb
      omega
    | none =>
      rw [ha, hb] at hab
      simp only at hab
      omega

theorem good_init (n : Nat) : Good ⟨[], n⟩ :=
  ⟨fun _ _ h => by simp [lookup] at h, fun _ _ _ h => by simp [lookup] at h⟩

theorem lookup_cons (k v : Nat) (m : List (Nat × Nat)) (l : Nat) :
    lookup ((k, v) :: m) l = if k = l then some v else lookup m l := rfl

theorem get_spec {st : LSt} (hg : Good st) (l : Nat) :
    Good (st.get l).1 ∧ st.le (st.get l).1 ∧ lookup (st.get l).1.m l = some (st.get l).2 := by
  unfold LSt.get
  cases h : lookup st.m l with
  | some v => exact ⟨hg, LSt.le_refl st, h⟩
  | none =>
    refine ⟨⟨?_, ?_⟩, ?_, ?_⟩
    · intro l' v hv
      simp only [lookup_cons] at hv
      split at hv
      · cases hv; exact Nat.lt_succ_self _
      · exact Nat.lt_succ_of_lt (hg.lt l' v hv)
    · intro l1 l2 v h1 h2
      simp only [lookup_cons] at h1 h2
      split at h1
      · next e1 =>
        cases h1
        split at h2
        · next e2 => exact e1.symm.trans e2
        · have := hg.lt l2 _ h2; omega
      · split at h2
        · cases h2; have := hg.lt l1 _ h1; omega
        · exact hg.inj l1 l2 v h1 h2
    · intro l' v hv
      simp only [lookup_cons]
      split
      · next e => subst e; rw [h] at hv; cases hv
      · exact hv
    · simp [lookup_cons]

/-- "renaming with state" agrees with "map the final renaming" -/
def RnSpec {α : Type} (rn : LSt → α → LSt × α) (mp : (Nat → Nat) → α → α) : Prop :=
  ∀ st x, Good st →
    Good (rn st x).1 ∧ st.le (rn st x).1 ∧ ∀ st'', (rn st x).1.le st'' → mp (app st'') x = (rn st x).2

theorem rnTerm_spec : RnSpec rnTerm mapTerm := by
  intro st x hg
  cases x with
  | iri n => exact ⟨hg, LSt.le_refl st, fun _ _ => rfl⟩
  | lit n => exact ⟨hg, LSt.le_refl st, fun _ _ => rfl⟩
  | bnode l =>
    obtain ⟨h1, h2, h3⟩ := get_spec hg l
    refine ⟨h1, h2, ?_⟩
    intro st'' hle
    simp only [rnTerm, mapTerm]
    rw [app_of_lookup (hle _ _ h3)]

theorem rnName_spec : RnSpec rnName mapName := by
  intro st x hg
  cases x with
  | default => exact ⟨hg, LSt.le_refl st, fun _ _ => rfl⟩
  | iri n => exact ⟨hg, LSt.le_refl st, fun _ _ => rfl⟩
  | bnode l =>
    obtain ⟨h1, h2, h3⟩ := get_spec hg l
    refine ⟨h1, h2, ?_⟩
    intro st'' hle
    simp only [rnName, mapName]
    rw [app_of_lookup (hle _ _ h3)]

/-- first component, then second -/
theorem RnSpec.seq {α β : Type} {ra : LSt → α → LSt × α} {mpa : (Nat → Nat) → α → α}
    {rb : LSt → β → LSt × β} {mpb : (Nat → Nat) → β → β}
    (ha : RnSpec ra mpa) (hb : RnSpec rb mpb) :
    RnSpec (fun st (x : α × β) => ((rb (ra st x.1).1 x.2).1, ((ra st x.1).2, (rb (ra st x.1).1 x.2).2)))
      (fun f x => (mpa f x.1, mpb f x.2)) := by
  intro st x hg
  obtain ⟨a1, a2, a3⟩ := ha st x.1 hg
  obtain ⟨b1, b2, b3⟩ := hb (ra st x.1).1 x.2 a1
  refine ⟨b1, LSt.le_trans a2 b2, ?_⟩
  intro st'' hle
  simp only
  rw [a3 st'' (LSt.le_trans b2 hle), b3 st'' hle]

/-- second component first (TriG: graph label before the triples), result in the original order -/
theorem RnSpec.seqRev {α β : Type} {ra : LSt → α → LSt × α} {mpa : (Nat → Nat) → α → α}
    {rb : LSt → β → LSt × β} {mpb : (Nat → Nat) → β → β}
    (ha : RnSpec ra mpa) (hb : RnSpec rb mpb) :
    RnSpec (fun st (x : α × β) => ((ra (rb st x.2).1 x.1).1, ((ra (rb st x.2).1 x.1).2, (rb st x.2).2)))
      (fun f x => (mpa f x.1, mpb f x.2)) := by
  intro st x hg
  obtain ⟨b1, b2, b3⟩ := hb st x.2 hg
  obtain ⟨a1, a2, a3⟩ := ha (rb st x.2).1 x.1 b1
  refine ⟨a1, LSt.le_trans b2 a2, ?_⟩
  intro st'' hle
  simp only
  rw [a3 st'' hle, b3 st'' (LSt.le_trans a2 hle)]

theorem rnTriple_spec : RnSpec rnTriple mapTriple :=
  RnSpec.seq rnTerm_spec (RnSpec.seq rnTerm_spec rnTerm_spec)

theorem rnQuadGLast_spec : RnSpec rnQuadGLast mapQuad :=
  RnSpec.seq rnTriple_spec rnName_spec

theorem rnQuadGFirst_spec : RnSpec rnQuadGFirst mapQuad :=
  RnSpec.seqRev rnTriple_spec rnName_spec

theorem RnSpec.list {α : Type} {r : LSt → α → LSt × α} {mp : (Nat → Nat) → α → α}
    (h : RnSpec r mp) : RnSpec (rnList r) (fun f xs => xs.map (mp f)) := by
  intro st xs
  induction xs generalizing st with
  | nil => intro hg; exact ⟨hg, LSt.le_refl st, fun _ _ => rfl⟩
  | cons x xs ih =>
    intro hg
    obtain ⟨a1, a2, a3⟩ := h st x hg
    obtain ⟨b1, b2, b3⟩ := ih (r st x).1 a1
    refine ⟨b1, LSt.le_trans a2 b2, ?_⟩
    intro st'' hle
    have e := b3 st'' hle
    simp only at e
    simp only [rnList, List.map_cons]
    rw [a3 st'' (LSt.le_trans b2 hle), e]

theorem rnQuads_spec (gFirst : Bool) : RnSpec (rnQuads gFirst) (fun f qs => qs.map (mapQuad f)) := by
  unfold rnQuads
  cases gFirst
  · exact RnSpec.list rnQuadGLast_spec
  · exact RnSpec.list rnQuadGFirst_spec

/-- the relabelling parsers apply ONE injective renaming to the whole document -/
theorem routeFresh_eq (gFirst : Bool) (bs : List Block) (fresh : Nat) :
    ∃ f : Nat → Nat, Function.Injective f ∧ routeFresh gFirst bs fresh = (stmts bs).map (mapQuad f) := by
  obtain ⟨h1, _, h3⟩ := rnQuads_spec gFirst ⟨[], fresh⟩ (stmts bs) (good_init fresh)
  exact ⟨app (rnQuads gFirst ⟨[], fresh⟩ (stmts bs)).1, app_injective h1, (h3 _ (LSt.le_refl _)).symm⟩

end RV.C06
