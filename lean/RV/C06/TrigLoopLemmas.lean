import RV.C06.Lemmas
import RV.C06.TrigLoop
/-
  C06, round g — the loops of the TriG serializer compute the block list of `emitTrig`.
-/
namespace RV.C06

def kv (s : Src) (g : Name) : Name × List Triple := (g, triplesOf s.d g)
def ne (s : Src) (g : Name) : Bool := !(triplesOf s.d g).isEmpty

theorem dictSet_kv (s : Src) (g : Name) (L : List Name) :
    dictSet (L.map (kv s)) g (triplesOf s.d g) = (sinsert L g).map (kv s) := by
  induction L with
  | nil => simp [dictSet, sinsert, kv]
  | cons x xs ih =>
    by_cases hx : x = g
    · subst hx
      simp [dictSet, sinsert, kv]
    · have h1 : dictSet ((x :: xs).map (kv s)) g (triplesOf s.d g) =
          kv s x :: dictSet (xs.map (kv s)) g (triplesOf s.d g) := by
        simp [dictSet, kv, hx]
      rw [h1, ih]
      unfold sinsert
      by_cases hg : g ∈ xs
      · have : g ∈ x :: xs := List.mem_cons_of_mem _ hg
        simp [hg, this]
      · have : g ∉ x :: xs := by
          intro h
          rcases List.mem_cons.mp h with h | h
          · exact hx h.symm
          · exact hg h
        simp [hg, this]

/-- the keys of the dict after the loop -/
def accNames (s : Src) : List Name → List Name → List Name
  | [], L => L
  | g :: gs, L => if ne s g then accNames s gs (sinsert L g) else accNames s gs L

theorem trigPreprocess_kv (s : Src) (gs : List Name) :
    ∀ L : List Name, trigPreprocess s gs (L.map (kv s)) = (accNames s gs L).map (kv s) := by
  induction gs with
  | nil => intro L; rfl
  | cons g gs ih =>
    intro L
    by_cases h : (triplesOf s.d g).isEmpty = true
    · have h1 : trigPreprocess s (g :: gs) (L.map (kv s)) = trigPreprocess s gs (L.map (kv s)) := by
        simp [trigPreprocess, h]
      have h2 : accNames s (g :: gs) L = accNames s gs L := by simp [accNames, ne, h]
      rw [h1, h2, ih]
    · have h1 : trigPreprocess s (g :: gs) (L.map (kv s)) =
          trigPreprocess s gs (dictSet (L.map (kv s)) g (triplesOf s.d g)) := by
        simp [trigPreprocess, h]
      have h2 : accNames s (g :: gs) L = accNames s gs (sinsert L g) := by simp [accNames, ne, h]
      rw [h1, h2, dictSet_kv, ih]

theorem filter_sremove (p : Name → Bool) (l : List Name) (x : Name) :
    (sremove l x).filter p = l.filter (fun y => p y && decide (y ≠ x)) := by
  induction l with
  | nil => rfl
  | cons y ys ih =>
    unfold sremove
    by_cases h : y = x
    · subst h
      simp [ih]
    · simp only [h, if_false, List.filter_cons, ih, ne_eq, not_false_eq_true, decide_true, Bool.and_true]

theorem accNames_eq (s : Src) (gs : List Name) :
    ∀ L : List Name, accNames s gs L = L ++ (dedup gs).filter (fun g => ne s g && decide (g ∉ L)) := by
  induction gs with
  | nil => intro L; simp [accNames, dedup]
  | cons g gs ih =>
    intro L
    simp only [accNames, dedup, List.filter_cons]
    by_cases hn : ne s g = true
    · by_cases hL : g ∈ L
      · have e : sinsert L g = L := by simp [sinsert, hL]
        simp only [hn, if_true, e, hL, not_true_eq_false, decide_false, Bool.and_false, Bool.false_eq_true, if_false]
        rw [ih, filter_sremove]
        congr 1
        apply List.filter_congr
        intro y _
        by_cases hy : y = g
        · subst hy; simp [hL]
        · simp [hy]
      · have e : sinsert L g = L ++ [g] := by simp [sinsert, hL]
        simp only [hn, if_true, e, hL, not_false_eq_true, decide_true, Bool.and_true]
        rw [ih, filter_sremove, List.append_assoc]
        congr 1
        simp only [List.singleton_append, List.cons.injEq, true_and]
        apply List.filter_congr
        intro y _
        by_cases hy : y = g
        · subst hy; simp
        · simp [hy, List.mem_append]
    · have hn' : ne s g = false := by simpa using hn
      simp only [hn', Bool.false_eq_true, if_false, Bool.false_and]
      rw [ih, filter_sremove]
      congr 1
      apply List.filter_congr
      intro y _
      by_cases hy : y = g
      · subst hy; simp [hn']
      · simp [hy]

theorem trigBlocks_kv (s : Src) (L : List Name) :
    trigBlocks s (L.map (kv s)) = (L.filter (fun g => !(triplesOf s.d g).isEmpty)).map (blockOf s.d (trigSpell s)) := by
  induction L with
  | nil => rfl
  | cons g gs ih =>
    simp only [List.map_cons, kv, trigBlocks, List.filter_cons]
    cases h : (triplesOf s.d g).isEmpty with
    | true => simpa [kv] using ih
    | false =>
      simp only [Bool.false_eq_true, if_false, Bool.not_false, if_true, List.map_cons, blockOf]
      congr 1

/-- the two loops of the TriG serializer write exactly the blocks of `emitTrig`, in the same order -/
theorem emitTrigLoop_eq (s : Src) : emitTrigLoop s = emitTrig s := by
  unfold emitTrigLoop emitTrig
  have h := trigPreprocess_kv s (ctxPlusDefault s) []
  simp only [List.map_nil] at h
  rw [h, trigBlocks_kv, accNames_eq]
  simp only [List.nil_append, List.not_mem_nil, not_false_eq_true, decide_true, Bool.and_true, List.filter_filter]
  congr 1
  apply List.filter_congr
  intro y _
  simp [ne]

end RV.C06
