import RV.C09.LitLemmas
import RV.C09.DurLemmas
import RV.C09.DateLemmas
/-
  C09 — normalised xsd:date literals and normalised literals of the three duration datatypes *denote* their
  value (re-reading the normalised lexical form returns the very same Python value), so that term-equal
  literals of these datatypes are `eq` (`term_eq_implies_eq_partial`).
-/
namespace RV.C09

/-! ### what the date / duration parsers can return -/

theorem mkDate_valid {y m d : Str} {v : PyVal} (h : mkDate y m d = some v) :
    ∃ a b c, v = .date a b c ∧ validYMD a b c = true := by
  unfold mkDate at h
  split at h
  · rename_i hc
    simp only [Bool.and_eq_true] at hc
    cases h; exact ⟨_, _, _, rfl, hc.2⟩
  · cases h

theorem pyDateFromIso_valid {s : Str} {v : PyVal} (h : pyDateFromIso s = some v) :
    ∃ a b c, v = .date a b c ∧ validYMD a b c = true := by
  unfold pyDateFromIso at h
  split at h
  · exact mkDate_valid h
  · exact mkDate_valid h
  · cases h

theorem parseXsdDate_valid {s : Str} {v : PyVal} (h : parseXsdDate s = some v) :
    ∃ a b c, v = .date a b c ∧ validYMD a b c = true := by
  simp only [parseXsdDate, dateFinish] at h
  repeat' split at h
  all_goals first | (cases h; done) | exact pyDateFromIso_valid h

/-- `parse_xsd_duration` returns a timedelta in range, or a `Duration` with `0 ≤ months < 12`, years and months not
    both zero, and its timedelta part in range -/
theorem durOfRaw_spec {r : DurRaw} {v : PyVal} (h : durOfRaw r = some v) :
    (∃ us, v = .timedelta us ∧ tdInRange us = true) ∨
    (∃ y m us, v = .duration y m us ∧ 0 ≤ m ∧ m < 12 ∧ tdInRange us = true ∧ dHasYM y m true = true) := by
  simp only [durOfRaw] at h
  have hym' : ∀ {a b : Nat}, ¬ (a == 0 && b == 0) = true → (a = 0 → b ≠ 0) := by
    intro a b hh e1 e2; subst e1; subst e2; simp at hh
  have hdh : ∀ {y m : Int}, (y = 0 → m ≠ 0) → dHasYM y m true = true := by
    intro y m hh
    by_cases hy : y = 0
    · have := hh hy; simp [dHasYM, hy, this]
    · simp [dHasYM, hy]
  repeat' split at h
  all_goals first | (cases h; done) | skip
  · rename_i _ _ _ hr; cases h; exact Or.inl ⟨_, rfl, hr⟩
  · rename_i _ _ _ hr; cases h; exact Or.inl ⟨_, rfl, hr⟩
  · rename_i _ hym _ hr
    cases h
    have hy := hym' hym
    refine Or.inr ⟨_, _, _, rfl, by omega, by omega, by simpa using hr, hdh ?_⟩
    intro e; omega
  · rename_i hr hym _
    cases h
    have hy := hym' hym
    refine Or.inr ⟨_, _, _, rfl, by omega, by omega, by simpa using hr, hdh ?_⟩
    intro e; omega

theorem parseXsdDuration_spec {s : Str} {v : PyVal} (h : parseXsdDuration s = some v) :
    (∃ us, v = .timedelta us ∧ tdInRange us = true) ∨
    (∃ y m us, v = .duration y m us ∧ 0 ≤ m ∧ m < 12 ∧ tdInRange us = true ∧ dHasYM y m true = true) := by
  unfold parseXsdDuration at h
  split at h
  · exact durOfRaw_spec h
  · cases h

theorem dur_conv_cases {d : Dt} (h : d.conv = .duration) : d = .duration ∨ d = .dayTimeDuration ∨ d = .yearMonthDuration := by
  cases d <;> simp [Dt.conv] at h <;> simp

/-- the printer's output for a value the duration parser returned reads back as that value -/
theorem dur_readback {d : Dt} (hd : d.conv = .duration) {pv : PyVal} {s : Str} (hc : parseXsdDuration s = some pv)
    {lx : Str} (hl : pyLex pv (some d) = some lx) : parseXsdDuration lx = some pv := by
  rcases parseXsdDuration_spec hc with ⟨us, rfl, hr⟩ | ⟨y, m, us, rfl, hm0, hm1, hr, hym⟩
  · simp only [pyLex] at hl
    split at hl
    · cases hl
      rename_i hz
      simp only [Bool.and_eq_true, beq_iff_eq] at hz
      rw [hz.2]; decide
    · have := parse_durationIso 0 0 us false lx ⟨by decide, by decide⟩ hr hl
      simpa [dHasYM] using this
  · simp only [pyLex] at hl
    split at hl
    · rename_i hz
      simp only [Bool.and_eq_true, beq_iff_eq] at hz
      obtain ⟨_, ⟨hy0, hm0'⟩, _⟩ := hz
      subst hy0; subst hm0'
      simp [dHasYM] at hym
    · have := parse_durationIso y m us true lx ⟨hm0, hm1⟩ hr hl
      rw [hym] at this
      simpa using this

/-- a normalised literal of xsd:date or of one of the three duration datatypes denotes its value -/
theorem denotes_mkLex_true_date_dur {d : Dt} {s : Str} {l : Lit} (hd : d.conv = .date ∨ d.conv = .duration)
    (h : mkLex (some d) s true = some l) : Denotes l := by
  have hpp : ∀ t, postProcess (some d) t = t := fun t =>
    postProcess_of_conv (by rcases hd with e | e <;> rw [e] <;> decide) t
  cases hc : castLex (some d) (postProcess (some d) s) with
  | none =>
    simp only [mkLex, hc] at h
    cases h
    intro v hv; cases hv
  | some pv =>
    have key : ∃ lx, pyLex pv (some d) = some lx ∧ castLex (some d) (postProcess (some d) lx) = some pv := by
      rw [hpp] at hc
      rcases hd with hcv | hcv
      · simp only [castLex, hcv] at hc
        obtain ⟨a, b, c, rfl, hv⟩ := parseXsdDate_valid hc
        refine ⟨dateIso a b c, rfl, ?_⟩
        rw [hpp]; simp only [castLex, hcv]
        exact (parseXsdDate_dateIso hv).1
      · simp only [castLex, hcv] at hc
        -- the literal exists, so the printer did not refuse the value
        cases hl : pyLex pv (some d) with
        | none =>
          have hc' : castLex (some d) (postProcess (some d) s) = some pv := by
            rw [hpp]; simp only [castLex, hcv]; exact hc
          simp only [mkLex, hc', hl] at h
          cases h
        | some lx =>
          refine ⟨lx, rfl, ?_⟩
          rw [hpp]; simp only [castLex, hcv]
          exact dur_readback hcv hc hl
    obtain ⟨lx, hlx, hback⟩ := key
    rw [mkLex_true_of hc hlx] at h
    cases h
    intro v hv
    cases hv
    exact hback

/-- `Literal(date)`, `Literal(timedelta)`, `Literal(Duration)` (years and months not both zero) denote their value -/
theorem denotes_mkValue_date {y m d : Nat} (hv : validYMD y m d = true) {l : Lit}
    (h : mkValue (.date y m d) none = some l) : Denotes l := by
  simp only [mkValue, mkPy, pyLex, coalesceDt, genericDt, postProcess] at h
  cases h
  intro w hw; cases hw
  simpa [castLex, Dt.conv] using (parseXsdDate_dateIso hv).1

theorem denotes_mkValue_dur {y m us : Int} {isDur : Bool} (hm : 0 ≤ m ∧ m < 12) (hr : tdInRange us = true)
    (hym : isDur = true → dHasYM y m true = true) {l : Lit}
    (h : mkValue (if isDur then .duration y m us else .timedelta us) none = some l) : Denotes l := by
  cases isDur with
  | false =>
    simp only [Bool.false_eq_true, if_false, mkValue, mkPy, pyLex] at h
    split at h
    · rename_i lx hl
      cases h
      intro w hw; cases hw
      have hl' : durationIso 0 0 us false = some lx := by simpa using hl
      have := parse_durationIso 0 0 us false lx ⟨by decide, by decide⟩ hr hl'
      simpa [castLex, Dt.conv, coalesceDt, genericDt, postProcess, dHasYM] using this
    · cases h
  | true =>
    simp only [if_true, mkValue, mkPy, pyLex] at h
    split at h
    · rename_i lx hl
      cases h
      intro w hw; cases hw
      have hl' : durationIso y m us true = some lx := by simpa using hl
      have := parse_durationIso y m us true lx hm hr hl'
      rw [hym rfl] at this
      simpa [castLex, Dt.conv, coalesceDt, genericDt, postProcess] using this
    · cases h

end RV.C09
