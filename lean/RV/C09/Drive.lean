import RV.C09.Spec
import RV.C09.FloatModel
import RV.Base.Proto
/-
  C09 driver.  Strings cross the protocol as comma-separated code points (`-` = empty).

    lex <dt> <cps> [d|t|o]               (normalize default / explicit True / rdflib.NORMALIZE_LITERALS off)
                                         → lex|ill₀|val₀|valid₁|back₁|n1same|idem|ill₁|val₁|eq(l₁, reread l₁)|xsd-value (Spec, date/time/dateTime)[|spell…]
        l₀ = Literal(s, dt, normalize=False), l₁ = Literal(s, dt), n₁ = l₀.normalize(), n₂ = n₁.normalize()
    py <pyspec>                          → py|dt|valid|back[|spell]
        l = Literal(v); valid = lexical form in the XSD lexical space (Lean recogniser); back = value of re-reading it
    eq <lit> <lit>                       → eq|term-equal (spelling mode only, else -)|a.eq(b)|b.eq(a)|a.neq(b)     lit = L <dt|-> <cps> <0|1> | P <pyspec>
    spell 0|1                            → ok      (also print the exact lexical forms; development diagnostic)
    relit <dt|-> <lit>                   → relit|ill|val|valid|back|idem|val(normalize())|eq(ref)|eq(old)[|spell…]
        new = Literal(old) / Literal(old, datatype=dt); ref = Literal(str(new), datatype=new.datatype, normalize=False)
    eqpy <lit> <pyspec>                  → eqpy|1|0|NotImplemented|neq      Literal.eq / neq (plain Python object)
    pyd <dt|-> <pyspec>                  → like py, for Literal(v, datatype=dt)
    flex double|float <cps> [d|t|o]      → the `lex` line for the two floating-point datatypes (values: nan | inf | -inf | f:<neg>:<m>:<e> = ±m·2^e)
    fpy nan|inf|-inf|<neg> <m> <e>       → py|double|valid|back for Literal(float)
    skip                                 → unmodelled   (the harness declares the case outside the model)
  pyspec: int i | bool 0|1 | dec 0|1 coeff exp | str cps | date y m d | time h mi s us tz|- |
          datetime y m d h mi s us tz|- | td us | dur years months us
  Answers `unmodelled` outside the fragment the model declares (`inFragment`), `bad-op` on anything else.
-/
open RV RV.C09 RV.Proto

def cps? (w : String) : Option Str :=
  if w = "-" then some []
  else (w.splitOn ",").mapM (fun x => x.toNat?.map Char.ofNat)

def showCps (s : Str) : String :=
  if s.isEmpty then "-" else ",".intercalate (s.map (fun c => toString c.toNat))

def dt? (w : String) : Option Dt := Dt.all.find? (fun d => d.name == w)

def optDt? (w : String) : Option (Option Dt) :=
  if w = "-" then some none else (dt? w).map some

def showOptInt : Option Int → String
  | none => "-"
  | some i => toString i

def canon : Option PyVal → String
  | none => "None"
  | some (.int i) => s!"int:{i}"
  | some (.bool b) => if b then "bool:1" else "bool:0"
  | some (.dec n c e) => s!"dec:{if n then 1 else 0}:{c}:{e}"
  | some (.str s) => s!"str:{showCps s}"
  | some (.bytes b) => "bytes:" ++ (if b.isEmpty then "-" else ",".intercalate (b.map toString))
  | some (.date y m d) => s!"date:{y}:{m}:{d}"
  | some (.time h mi s us tz) => s!"time:{h}:{mi}:{s}:{us}:{showOptInt tz}"
  | some (.datetime y m d h mi s us tz) => s!"datetime:{y}:{m}:{d}:{h}:{mi}:{s}:{us}:{showOptInt tz}"
  | some (.timedelta us) => s!"td:{us}"
  | some (.duration y m us) => s!"dur:{y}:{m}:{us}"

def showIll : Option Bool → String
  | none => "N" | some true => "T" | some false => "F"

def b01 (b : Bool) : String := if b then "1" else "0"

/-! ### the declared fragment -/

def asciiOk (s : Str) : Bool := s.all (fun c => (9 ≤ c.toNat && c.toNat ≤ 13) || (32 ≤ c.toNat && c.toNat ≤ 126))

def afterExp : Str → Str
  | [] => []
  | c :: r => if c == 'e' || c == 'E' then r else afterExp r

def decFragment (s : Str) : Bool :=
  let t := dropUnderscores (strip s)
  let t := match t with | '+' :: r => r | '-' :: r => r | r => r
  (afterExp t).length ≤ 3

def tokShort (t : Option NumTok) : Bool :=
  match t with
  | none => true
  | some t => t.ip.length ≤ 18
def tokIntOnly (t : Option NumTok) : Bool :=
  match t with
  | none => true
  | some t => t.fp.isNone && t.ip.length ≤ 18

def durFragment (s : Str) : Bool :=
  match matchPeriod s with
  | some r => tokIntOnly r.y && tokIntOnly r.mo && tokIntOnly r.w && tokIntOnly r.d && tokIntOnly r.h &&
      tokIntOnly r.mi && tokShort r.s
  | none => s.head? != some 'P'

def inFragment (dt : Option Dt) (s : Str) : Bool :=
  asciiOk s &&
  match dt with
  | none => true
  | some d =>
    match d.conv with
    | .decimal => decFragment s
    | .date => !s.contains 'W'
    | .time => (timeShape s).isSome
    | .dateTime => (dateTimeShape s).isSome
    | .duration => durFragment s
    | _ => true

/-! ### python value specs -/

def nat? (w : String) : Option Nat := w.toNat?
def int? (w : String) : Option Int := w.toInt?
def tz? (w : String) : Option (Option Int) := if w = "-" then some none else w.toInt?.map some

/-- parse a pyspec from the head of the word list -/
def pySpec? : List String → Option (PyVal × List String)
  | "int" :: i :: r => (int? i).map (fun i => (.int i, r))
  | "bool" :: b :: r => if b = "1" then some (.bool true, r) else if b = "0" then some (.bool false, r) else none
  | "dec" :: n :: c :: e :: r => do
    let c ← nat? c; let e ← int? e
    if n = "1" then pure (.dec true c e, r) else if n = "0" then pure (.dec false c e, r) else none
  | "str" :: s :: r => (cps? s).map (fun s => (.str s, r))
  | "date" :: y :: m :: d :: r => do
    let y ← nat? y; let m ← nat? m; let d ← nat? d
    pure (.date y m d, r)
  | "time" :: h :: mi :: s :: us :: tz :: r => do
    let h ← nat? h; let mi ← nat? mi; let s ← nat? s; let us ← nat? us; let tz ← tz? tz
    pure (.time h mi s us tz, r)
  | "datetime" :: y :: m :: d :: h :: mi :: s :: us :: tz :: r => do
    let y ← nat? y; let m ← nat? m; let d ← nat? d
    let h ← nat? h; let mi ← nat? mi; let s ← nat? s; let us ← nat? us; let tz ← tz? tz
    pure (.datetime y m d h mi s us tz, r)
  | "td" :: us :: r => (int? us).map (fun us => (.timedelta us, r))
  | "dur" :: y :: m :: us :: r => do
    let y ← int? y; let m ← int? m; let us ← int? us
    -- Duration.__init__: fquotmod(months, 0, 12)
    pure (.duration (y + m / 12) (m % 12) us, r)
  | _ => none

inductive LitR
  | lit (l : Lit)
  | raises
  | unmodelled

/-- parse a literal spec from the head of the word list -/
def litSpec? : List String → Option (LitR × List String)
  | "L" :: d :: s :: n :: r => do
    let d ← optDt? d; let s ← cps? s
    let n ← (if n = "1" then some true else if n = "0" then some false else none)
    if !inFragment d s then pure (.unmodelled, r)
    else match mkLex d s n with
      | some l => pure (.lit l, r)
      | none => pure (.raises, r)
  | "P" :: r => do
    let (v, r') ← pySpec? r
    match mkValue v none with
    | some l => pure (.lit l, r')
    | none => pure (.raises, r')
  | _ => none

structure St where
  spell : Bool

/-- the value XSD assigns, computed from the specification (`Spec.dateVal`, `timeVal`, `dateTimeVal` — not from the
    model's parsers), for forms of xsd:date / time / dateTime that CPython's types hold exactly; `-` otherwise -/
def specValue (d : Dt) (s : Str) : String :=
  let tzS := fun (z : Option Int) => showOptInt (z.map (· * 60000000))
  match d with
  | .date =>
    let v := (Spec.dateVal s).1
    if Spec.dateLex s && decide (1 ≤ v.year) && decide (v.year ≤ 9999) then s!"date:{v.year}:{v.month}:{v.day}" else "-"
  | .time =>
    let t := Spec.timeVal s
    if Spec.timeLex s && t.hour != 24 && decide (t.frac.length ≤ 6) then
      s!"time:{t.hour}:{t.minute}:{t.second}:{Spec.fracMicros t.frac}:{tzS t.tz}" else "-"
  | .dateTime =>
    let v := (Spec.dateTimeVal s).1
    let t := (Spec.dateTimeVal s).2
    if Spec.dateTimeLex s && decide (1 ≤ v.year) && decide (v.year ≤ 9999) && t.hour != 24 && decide (t.frac.length ≤ 6) then
      s!"datetime:{v.year}:{v.month}:{v.day}:{t.hour}:{t.minute}:{t.second}:{Spec.fracMicros t.frac}:{tzS t.tz}" else "-"
  | _ => "-"

def lexLine (st : St) (d : Dt) (s : Str) (nz : Bool := true) : String :=
  if !inFragment (some d) s then "unmodelled"
  else
    match mkLex (some d) s false, mkLex (some d) s nz with
    | some l0, some l1 =>
      match l0.normalize with
      | some n1 =>
        match n1.normalize with
        | some n2 =>
          let back := (mkLex (some d) l1.lex false).map (·.value)
          let backS := match back with | some v => canon v | none => "raise"
          -- value-space equality with the (term-equal) literal built from its own lexical form
          let eqB := match mkLex (some d) l1.lex false with
            | some r => (match l1.eq r with | some true => "1" | some false => "0" | none => "TypeError")
            | none => "raise"
          let base := s!"lex|{showIll l0.ill}|{canon l0.value}|{b01 (Spec.validLex d l1.lex)}|{backS}|{if !nz && !st.spell then "-" else b01 (n1.lex == l1.lex)}|{b01 (n2.lex == n1.lex)}|{showIll l1.ill}|{canon l1.value}|{eqB}|{specValue d s}"
          if st.spell then s!"{base}|{showCps l0.lex}|{showCps l1.lex}|{showCps n1.lex}|{showCps n2.lex}" else base
        | none => "lex|raise"
      | none => "lex|raise"
    | _, _ => "lex|raise"

def pyLine (st : St) (v : PyVal) (dt : Option Dt := none) : String :=
  match mkValue v dt with
  | none => "py|raise"
  | some l =>
    let back := (mkLex l.dt l.lex false).map (·.value)
    let backS := match back with | some v => canon v | none => "raise"
    let dtS := match l.dt with | some d => d.name | none => "-"
    let base := s!"py|{dtS}|{b01 (Spec.validLexOpt l.dt l.lex)}|{backS}"
    if st.spell then s!"{base}|{showCps l.lex}" else base

def eqLine (st : St) (a b : LitR) : String :=
  match a, b with
  | .lit x, .lit y =>
    let sh := fun (r : Option Bool) => match r with | some true => "1" | some false => "0" | none => "TypeError"
    let ne := fun (r : Option Bool) => match r with | some b => b01 (!b) | none => "TypeError"
    let t := if st.spell then b01 (x.termEq y) else "-"
    s!"eq|{t}|{sh (x.eq y)}|{sh (y.eq x)}|{ne (x.eq y)}"
  | .unmodelled, _ => "unmodelled"
  | _, .unmodelled => "unmodelled"
  | _, _ => "eq|raise"

/-- `Literal(old)` / `Literal(old, datatype=dt)` -/
def relitLine (st : St) (old : LitR) (dt : Option Dt) : String :=
  match old with
  | .unmodelled => "unmodelled"
  | .raises => "relit|raise"
  | .lit o =>
    if dt.isSome && !inFragment dt o.lex then "unmodelled"
    else
      let new := mkFromLit o dt
      let back := (mkLex new.dt new.lex false).map (·.value)
      let backS := match back with | some v => canon v | none => "raise"
      let eqS := fun (r : Option Bool) => match r with | some true => "1" | some false => "0" | none => "TypeError"
      let refEq := match mkLex new.dt new.lex false with | some r => eqS (new.eq r) | none => "raise"
      match new.normalize with
      | some n1 =>
        match n1.normalize with
        | some n2 =>
          let base := s!"relit|{showIll new.ill}|{canon new.value}|{b01 (Spec.validLexOpt new.dt new.lex)}|{backS}|{b01 (n2.lex == n1.lex)}|{canon n1.value}|{refEq}|{eqS (new.eq o)}"
          if st.spell then s!"{base}|{showCps new.lex}|{showCps n1.lex}" else base
        | none => "relit|raise"
      | none => "relit|raise"

/-! ### xsd:double / xsd:float -/

def canonF : Option FVal → String
  | none => "None"
  | some .nan => "nan"
  | some (.inf false) => "inf"
  | some (.inf true) => "-inf"
  | some (.fin n m e) => s!"f:{b01 n}:{m}:{e}"

/-- exponent parts are kept short (the model computes 10^|exponent| exactly) -/
def floatFragment (s : Str) : Bool :=
  asciiOk s && (s.dropWhile Spec.notExpChar).length ≤ 6

def flexLine (st : St) (s : Str) (nz : Bool) : String :=
  if !floatFragment s then "unmodelled"
  else
    let v := pyFloat s
    let illS := if v.isSome then "F" else "T"
    -- lexical form after normalisation (`_float_to_xsd(value)`), `none` = the printer found no digits
    let norm : Option Str := match v with | some x => floatToXsd x | none => some s
    match norm with
    | none => "lex|raise"
    | some n1 =>
      let l1 := if nz then n1 else s
      let back := pyFloat l1
      let n2 : Option Str := match v with | some x => floatToXsd x | none => some n1
      let eqB := match v, back with
        | some x, some y => b01 (x.pyEq y)
        | none, none => "1"
        | _, _ => "0"
      let base := s!"lex|{illS}|{canonF v}|{b01 (Spec.doubleLex l1)}|{canonF back}|{if !nz && !st.spell then "-" else b01 (n1 == l1)}|{b01 (n2 == some n1)}|{illS}|{canonF v}|{eqB}|-"
      if st.spell then s!"{base}|{showCps s}|{showCps l1}|{showCps n1}|{showCps n1}" else base

def fspec? : List String → Option FVal
  | ["nan"] => some .nan
  | ["inf"] => some (.inf false)
  | ["-inf"] => some (.inf true)
  | [n, m, e] => do
    let m ← nat? m; let e ← int? e
    if n = "1" then pure (.fin true m e) else if n = "0" then pure (.fin false m e) else none
  | _ => none

def fpyLine (st : St) (v : FVal) : String :=
  match floatToXsd v with
  | none => "py|raise"
  | some l =>
    let base := s!"py|double|{b01 (Spec.doubleLex l)}|{canonF (pyFloat l)}"
    if st.spell then s!"{base}|{showCps l}" else base

def step (st : St) : List String → St × String
  | ["skip"] => (st, "unmodelled")
  | "fpy" :: r =>
    match fspec? r with
    | some v => (st, fpyLine st v)
    | none => (st, "bad-op")
  | ["flex", d, s] =>
    match cps? s with
    | some s => if d = "double" || d = "float" then (st, flexLine st s true) else (st, "bad-op")
    | none => (st, "bad-op")
  | ["flex", d, s, mode] =>
    match cps? s with
    | some s =>
      if !(d = "double" || d = "float") then (st, "bad-op")
      else if mode = "o" then (st, flexLine st s false) else if mode = "t" || mode = "d" then (st, flexLine st s true)
      else (st, "bad-op")
    | none => (st, "bad-op")
  | ["spell", b] => if b = "1" then (⟨true⟩, "ok") else if b = "0" then (⟨false⟩, "ok") else (st, "bad-op")
  | ["lex", d, s] =>
    match dt? d, cps? s with
    | some d, some s => (st, lexLine st d s)
    | _, _ => (st, "bad-op")
  | ["lex", d, s, mode] =>
    match dt? d, cps? s with
    | some d, some s =>
      if mode = "o" then (st, lexLine st d s false) else if mode = "t" || mode = "d" then (st, lexLine st d s true)
      else (st, "bad-op")
    | _, _ => (st, "bad-op")
  | "pyd" :: d :: r =>
    match optDt? d, pySpec? r with
    | some d, some (v, []) => (st, pyLine st v d)
    | _, _ => (st, "bad-op")
  | "py" :: r =>
    match pySpec? r with
    | some (v, []) => (st, pyLine st v)
    | _ => (st, "bad-op")
  | "relit" :: d :: r =>
    match optDt? d, litSpec? r with
    | some d, some (o, []) => (st, relitLine st o d)
    | _, _ => (st, "bad-op")
  | "eqpy" :: r =>
    match litSpec? r with
    | some (.lit l, r') =>
      match pySpec? r' with
      | some (v, []) =>
        (st, match l.eqPy v with | some true => "eqpy|1|0" | some false => "eqpy|0|1" | none => "eqpy|NotImplemented|-")
      | _ => (st, "bad-op")
    | some (.unmodelled, _) => (st, "unmodelled")
    | some (.raises, _) => (st, "eqpy|raise")
    | none => (st, "bad-op")
  | "eq" :: r =>
    match litSpec? r with
    | some (a, r') =>
      match litSpec? r' with
      | some (b, []) => (st, eqLine st a b)
      | _ => (st, "bad-op")
    | none => (st, "bad-op")
  | _ => (st, "bad-op")

def main : IO Unit := RV.Proto.run step (⟨false⟩ : St)
