import RV.C09.LitLemmas
/-
  C09 — `date.isoformat()` read back by `parse_xsd_date`: lemmas.
-/
namespace RV.C09

theorem list_len2 {s : Str} (h : s.length = 2) : ∃ a b, s = [a, b] := by
  match s, h with
  | [a, b], _ => exact ⟨a, b, rfl⟩

theorem list_len4 {s : Str} (h : s.length = 4) : ∃ a b c d, s = [a, b, c, d] := by
  match s, h with
  | [a, b, c, d], _ => exact ⟨a, b, c, d, rfl⟩

theorem digitsW_length' {w n : Nat} (hw : 0 < w) (h : n < 10 ^ w) : (digitsW w n).length = w := by
  have : (digits n).length ≤ w := (Nat.length_toDigits_le_iff (by decide) hw).mpr h
  simp only [digitsW, zfill, List.length_append, List.length_replicate]
  omega

theorem num_digitsW (w n : Nat) : num (digitsW w n) = n := by rw [digitsW, num_zfill, num_digits]
theorem allDigits_digitsW (w n : Nat) : allDigits (digitsW w n) = true := allDigits_zfill (allDigits_digits n)

/-- a digit is none of the separators the date/time parsers look for -/
theorem digit_seps {c : Char} (h : c.isDigit = true) :
    c ≠ '-' ∧ c ≠ 'T' ∧ c ≠ '+' ∧ c ≠ ':' ∧ c ≠ 'Z' ∧ c ≠ 'z' ∧ c ≠ '.' :=
  ⟨digit_ne h (by decide), digit_ne h (by decide), digit_ne h (by decide), digit_ne h (by decide),
   digit_ne h (by decide), digit_ne h (by decide), digit_ne h (by decide)⟩

theorem digit_seps' {c : Char} (h : c.isDigit = true) :
    '-' ≠ c ∧ 'T' ≠ c ∧ '+' ≠ c ∧ ':' ≠ c ∧ 'Z' ≠ c ∧ 'z' ≠ c ∧ '.' ≠ c :=
  let s := digit_seps h
  ⟨s.1.symm, s.2.1.symm, s.2.2.1.symm, s.2.2.2.1.symm, s.2.2.2.2.1.symm, s.2.2.2.2.2.1.symm, s.2.2.2.2.2.2.symm⟩

/-- `parse_xsd_date(date.isoformat())` is the date, and the form is in the XSD lexical space -/
theorem parseXsdDate_dateIso {y m d : Nat} (hv : validYMD y m d = true) :
    parseXsdDate (dateIso y m d) = some (.date y m d) ∧ Spec.dateLex (dateIso y m d) = true := by
  have hv' := hv
  simp only [validYMD, Bool.and_eq_true, decide_eq_true_eq] at hv'
  obtain ⟨⟨⟨⟨⟨hy1, hy2⟩, hm1⟩, hm2⟩, hd1⟩, hd2⟩ := hv'
  have hd3 : d ≤ 31 := by
    have : daysInMonth y m ≤ 31 := by unfold daysInMonth; split <;> (try split) <;> (try split) <;> omega
    omega
  obtain ⟨y1, y2, y3, y4, hye⟩ := list_len4 (digitsW_length' (w := 4) (by decide) (by omega : y < 10 ^ 4))
  obtain ⟨m1, m2, hme⟩ := list_len2 (digitsW_length' (w := 2) (by decide) (by omega : m < 10 ^ 2))
  obtain ⟨d1, d2, hde⟩ := list_len2 (digitsW_length' (w := 2) (by decide) (by omega : d < 10 ^ 2))
  have hyd := allDigits_digitsW 4 y
  have hmd := allDigits_digitsW 2 m
  have hdd := allDigits_digitsW 2 d
  have hyn := num_digitsW 4 y
  have hmn := num_digitsW 2 m
  have hdn := num_digitsW 2 d
  rw [hye] at hyd hyn; rw [hme] at hmd hmn; rw [hde] at hdd hdn
  simp only [allDigits, List.all_cons, List.all_nil, Bool.and_true, Bool.and_eq_true] at hyd hmd hdd
  obtain ⟨hy1d, hy2d, hy3d, hy4d⟩ := hyd
  obtain ⟨hm1d, hm2d⟩ := hmd
  obtain ⟨hd1d, hd2d⟩ := hdd
  have s1 := digit_seps hy1d; have s2 := digit_seps hy2d; have s3 := digit_seps hy3d; have s4 := digit_seps hy4d
  have s5 := digit_seps hm1d; have s6 := digit_seps hm2d; have s7 := digit_seps hd1d; have s8 := digit_seps hd2d
  have t1 := digit_seps' hy1d; have t2 := digit_seps' hy2d; have t3 := digit_seps' hy3d; have t4 := digit_seps' hy4d
  have t5 := digit_seps' hm1d; have t6 := digit_seps' hm2d; have t7 := digit_seps' hd1d; have t8 := digit_seps' hd2d
  have hform : dateIso y m d = [y1, y2, y3, y4, '-', m1, m2, '-', d1, d2] := by
    simp only [dateIso, pad2, hye, hme, hde]; rfl
  rw [hform]
  have hnum : validYMD (num [y1, y2, y3, y4]) (num [m1, m2]) (num [d1, d2]) = true := by rw [hyn, hmn, hdn]; exact hv
  constructor
  · simp [parseXsdDate, dateStripZ, lastChar?, dateCut, lastIdx, dateFinish, pyDateFromIso, mkDate, allDigits,
      s1, s2, s3, s4, s5, s6, s7, s8, t1, t2, t3, t4, t5, t6, t7, t8, hy1d, hy2d, hy3d, hy4d, hm1d, hm2d, hd1d, hd2d, hyn, hmn, hdn, hv]
  · have hdo : Spec.dayOk false y m d = true := by
      simp only [Spec.dayOk, Spec.isLeapAstro, Bool.and_eq_true, decide_eq_true_eq]
      refine ⟨⟨⟨hm1, hm2⟩, hd1⟩, ?_⟩
      simpa [daysInMonth, isLeap] using hd2
    have htk : takeDigits [y1, y2, y3, y4, '-', m1, m2, '-', d1, d2] = [y1, y2, y3, y4] := by
      simp [takeDigits, hy1d, hy2d, hy3d, hy4d]
    have hdr : dropDigits [y1, y2, y3, y4, '-', m1, m2, '-', d1, d2] = ['-', m1, m2, '-', d1, d2] := by
      simp [dropDigits, hy1d, hy2d, hy3d, hy4d]
    unfold Spec.dateLex
    split
    · rename_i heq; cases heq; exact absurd rfl s1.1
    · simp only [Spec.dateBodyLex, htk, hdr]
      simp [Spec.yearLex, Spec.tzLex, natVal_eq_num, hyn, hmn, hdn, hdo, hy1d, hy2d, hy3d, hy4d, hm1d, hm2d, hd1d, hd2d]

/-! ### time and datetime -/


theorem pad2_form {n : Nat} (h : n < 100) :
    ∃ a b, pad2 n = [a, b] ∧ a.isDigit = true ∧ b.isDigit = true ∧ num [a, b] = n := by
  obtain ⟨a, b, he⟩ := list_len2 (digitsW_length' (w := 2) (by decide) (by omega : n < 10 ^ 2))
  have hd := allDigits_digitsW 2 n
  have hn := num_digitsW 2 n
  rw [he] at hd hn
  simp only [allDigits, List.all_cons, List.all_nil, Bool.and_true, Bool.and_eq_true] at hd
  exact ⟨a, b, he, hd.1, hd.2, hn⟩

theorem tzIso_form {off : Int} (h : TzOk (some off)) :
    ∃ a b c d, tzIso (some off) = [if off < 0 then '-' else '+', a, b, ':', c, d] ∧
      a.isDigit = true ∧ b.isDigit = true ∧ c.isDigit = true ∧ d.isDigit = true ∧
      ((num [a, b] * 3600 + num [c, d] * 60 : Nat) : Int) * 1000000 = (off.natAbs : Int) ∧
      num [a, b] < 24 ∧ num [c, d] < 60 := by
  obtain ⟨h1, h2, h3⟩ := h
  have hus : off.natAbs % 1000000 = 0 := by omega
  have hss : off.natAbs / 1000000 % 60 = 0 := by omega
  obtain ⟨a, b, hab, had, hbd, habn⟩ := pad2_form (n := off.natAbs / 1000000 / 3600) (by omega)
  obtain ⟨c, d, hcd, hcdig, hddig, hcdn⟩ := pad2_form (n := off.natAbs / 1000000 / 60 % 60) (by omega)
  refine ⟨a, b, c, d, ?_, had, hbd, hcdig, hddig, ?_, ?_, ?_⟩
  · simp only [tzIso, hus, hss, bne_self_eq_false, Bool.false_eq_true, if_false, hab, hcd]
    by_cases hn : off < 0 <;> simp [hn]
  · rw [habn, hcdn]; omega
  · rw [habn]; omega
  · rw [hcdn]; omega


theorem fracToMicrosTrunc_nil : fracToMicrosTrunc [] = 0 := by decide

theorem fracToMicrosTrunc_six {us : Nat} (h : us < 1000000) : fracToMicrosTrunc (digitsW 6 us) = us := by
  have hl : (digitsW 6 us).length = 6 := digitsW_length' (by decide) (by simpa using h)
  unfold fracToMicrosTrunc
  rw [List.take_append_of_le_length (by omega), List.take_of_length_le (by omega)]
  exact num_digitsW 6 us

/-- the utcoffset suffix is read back -/
theorem parseTz_tzIso {tz : Option Int} (h : TzOk tz) :
    ∃ raw, parseTzShape (tzIso tz) = some raw ∧ tzOfShape raw = some tz ∧
      (∀ c r, tzIso tz = c :: r → c.isDigit = false ∧ c ≠ '.') := by
  cases tz with
  | none => exact ⟨none, rfl, rfl, by intro c r e; cases e⟩
  | some off =>
    obtain ⟨a, b, c, d, hf, ha, hb, hc, hd, hval, _, _⟩ := tzIso_form h
    obtain ⟨_, h2, h3⟩ := h
    refine ⟨some (decide (off < 0), num [a, b], num [c, d], 0, []), ?_, ?_, ?_⟩
    · rw [hf]
      by_cases hn : off < 0 <;> simp [hn, parseTzShape, allDigits, ha, hb, hc, hd]
    · simp only [tzOfShape, fracToMicrosTrunc_nil, Nat.add_zero]
      have hv' : ((num [a, b] * 3600 + num [c, d] * 60) * 1000000 : Nat) = off.natAbs := by
        have := hval; omega
      rw [hv']
      have : off.natAbs < 86400000000 := by omega
      simp only [this, if_true]
      by_cases hn : off < 0
      · simp only [hn, decide_true, if_true]; congr 2; omega
      · simp only [hn, decide_false, Bool.false_eq_true, if_false]; congr 2; omega
    · intro x r e
      rw [hf] at e
      cases e
      by_cases hn : off < 0 <;> simp [hn] <;> decide

/-- `time.fromisoformat(t.isoformat()) == t` for whole-minute offsets -/
theorem pyTimeFromIso_timeIso {h mi s us : Nat} {tz : Option Int} (hh : h < 24) (hmi : mi < 60) (hs : s < 60)
    (hus : us < 1000000) (htz : TzOk tz) :
    pyTimeFromIso (timeIso h mi s us tz) = some (.time h mi s us tz) := by
  obtain ⟨h1, h2, hhe, hh1, hh2, hhn⟩ := pad2_form (n := h) (by omega)
  obtain ⟨m1, m2, hme, hm1, hm2, hmn⟩ := pad2_form (n := mi) (by omega)
  obtain ⟨s1, s2, hse, hs1, hs2, hsn⟩ := pad2_form (n := s) (by omega)
  obtain ⟨raw, hp, ho, hhead⟩ := parseTz_tzIso htz
  have hform : timeIso h mi s us tz = h1 :: h2 :: ':' :: m1 :: m2 :: ':' :: s1 :: s2 ::
      ((if us = 0 then [] else '.' :: digitsW 6 us) ++ tzIso tz) := by
    simp only [timeIso, hhe, hme, hse, List.cons_append, List.nil_append, List.append_assoc]
  -- the fraction
  have hsplit : splitFrac ((if us = 0 then [] else '.' :: digitsW 6 us) ++ tzIso tz) =
      some (if us = 0 then [] else digitsW 6 us, tzIso tz) := by
    by_cases h0 : us = 0
    · simp only [h0, if_true, List.nil_append]
      cases hz : tzIso tz with
      | nil => rfl
      | cons c r =>
        have := (hhead c r hz).2
        unfold splitFrac
        split
        · rename_i heq; cases heq; exact absurd rfl this
        · rfl
    · simp only [h0, if_false, List.cons_append, splitFrac]
      have hF := allDigits_digitsW 6 us
      have htk : takeDigits (digitsW 6 us ++ tzIso tz) = digitsW 6 us :=
        takeDigits_append hF (fun c r e => (hhead c r e).1)
      have hdr : dropDigits (digitsW 6 us ++ tzIso tz) = tzIso tz :=
        dropDigits_append hF (fun c r e => (hhead c r e).1)
      have hne : (digitsW 6 us).isEmpty = false := by
        have : (digitsW 6 us).length = 6 := digitsW_length' (by decide) (by simpa using hus)
        cases hq : digitsW 6 us with
        | nil => rw [hq] at this; cases this
        | cons _ _ => rfl
      simp [htk, hdr, hne]
  have hfr : fracToMicrosTrunc (if us = 0 then [] else digitsW 6 us) = us := by
    by_cases h0 : us = 0
    · simp [h0, fracToMicrosTrunc_nil]
    · simp only [h0, if_false]; exact fracToMicrosTrunc_six hus
  unfold pyTimeFromIso
  rw [hform]
  simp only [timeShape, allDigits, List.all_cons, List.all_nil, hh1, hh2, hm1, hm2, hs1, hs2, Bool.and_self,
    if_true, hsplit, hp, hhn, hmn, hsn, ho, hfr]
  simp [hh, hmi, hs]


theorem TzOk_of_XsdTz {tz : Option Int} (h : XsdTz tz) : TzOk tz := by
  cases tz with
  | none => trivial
  | some off => obtain ⟨a, b, c⟩ := h; exact ⟨a, by omega, by omega⟩

theorem tzLex_tzIso {tz : Option Int} (h : XsdTz tz) : Spec.tzLex (tzIso tz) = true := by
  cases tz with
  | none => rfl
  | some off =>
    obtain ⟨a, b, c, d, hf, ha, hb, hc, hd, hval, _, hm⟩ := tzIso_form (TzOk_of_XsdTz h)
    obtain ⟨h1, h2, h3⟩ := h
    rw [hf]
    have hsg : ((if off < 0 then '-' else '+') == '+' || (if off < 0 then '-' else '+') == '-') = true := by
      by_cases hn : off < 0 <;> simp [hn]
    simp only [Spec.tzLex, hsg, List.all_cons, List.all_nil, ha, hb, hc, hd, Bool.and_self, Bool.true_and,
      natVal_eq_num, Bool.or_eq_true, Bool.and_eq_true, decide_eq_true_eq, beq_iff_eq]
    have : (num [a, b] * 3600 + num [c, d] * 60) * 1000000 ≤ 50400000000 := by
      have := hval; omega
    by_cases h14 : num [a, b] ≤ 13
    · left; exact ⟨h14, by omega⟩
    · right; constructor <;> omega

/-- … and the form is in the lexical space of xsd:time when XSD can write the offset -/
theorem timeLex_timeIso {h mi s us : Nat} {tz : Option Int} (hh : h < 24) (hmi : mi < 60) (hs : s < 60)
    (hus : us < 1000000) (htz : XsdTz tz) : Spec.timeLex (timeIso h mi s us tz) = true := by
  obtain ⟨h1, h2, hhe, hh1, hh2, hhn⟩ := pad2_form (n := h) (by omega)
  obtain ⟨m1, m2, hme, hm1, hm2, hmn⟩ := pad2_form (n := mi) (by omega)
  obtain ⟨s1, s2, hse, hs1, hs2, hsn⟩ := pad2_form (n := s) (by omega)
  obtain ⟨raw, hp, ho, hhead⟩ := parseTz_tzIso (TzOk_of_XsdTz htz)
  have htzl := tzLex_tzIso htz
  have hform : timeIso h mi s us tz = h1 :: h2 :: ':' :: m1 :: m2 :: ':' :: s1 :: s2 ::
      ((if us = 0 then [] else '.' :: digitsW 6 us) ++ tzIso tz) := by
    simp only [timeIso, hhe, hme, hse, List.cons_append, List.nil_append, List.append_assoc]
  have hrange : (decide (Spec.natVal [h1, h2] ≤ 23) && decide (Spec.natVal [m1, m2] ≤ 59) &&
      decide (Spec.natVal [s1, s2] ≤ 59)) = true := by
    simp only [natVal_eq_num, hhn, hmn, hsn, Bool.and_eq_true, decide_eq_true_eq]; omega
  rw [hform]
  simp only [Spec.timeLex, List.all_cons, List.all_nil, hh1, hh2, hm1, hm2, hs1, hs2, Bool.and_self, Bool.true_and]
  by_cases h0 : us = 0
  · simp only [h0, if_true, List.nil_append]
    cases hz : tzIso tz with
    | nil => simp [Spec.tzLex, hrange]
    | cons c r =>
      have hc := (hhead c r hz).2
      rw [hz] at htzl
      split
      · rename_i heq; cases heq; exact absurd rfl hc
      · simp [htzl, hrange]
  · simp only [h0, if_false, List.cons_append]
    have hF := allDigits_digitsW 6 us
    have htk : takeDigits (digitsW 6 us ++ tzIso tz) = digitsW 6 us :=
      takeDigits_append hF (fun c r e => (hhead c r e).1)
    have hdr : dropDigits (digitsW 6 us ++ tzIso tz) = tzIso tz :=
      dropDigits_append hF (fun c r e => (hhead c r e).1)
    have hne : (digitsW 6 us).isEmpty = false := by
      have : (digitsW 6 us).length = 6 := digitsW_length' (by decide) (by simpa using hus)
      cases hq : digitsW 6 us with
      | nil => rw [hq] at this; cases this
      | cons _ _ => rfl
    simp [htk, hdr, hne, htzl, hrange]


theorem dateIso_form {y m d : Nat} (hv : validYMD y m d = true) :
    ∃ y1 y2 y3 y4 m1 m2 d1 d2, dateIso y m d = [y1, y2, y3, y4, '-', m1, m2, '-', d1, d2] ∧
      allDigits [y1, y2, y3, y4] = true ∧ allDigits [m1, m2] = true ∧ allDigits [d1, d2] = true ∧
      num [y1, y2, y3, y4] = y ∧ num [m1, m2] = m ∧ num [d1, d2] = d := by
  have hv' := hv
  simp only [validYMD, Bool.and_eq_true, decide_eq_true_eq] at hv'
  obtain ⟨⟨⟨⟨⟨hy1, hy2⟩, hm1⟩, hm2⟩, hd1⟩, hd2⟩ := hv'
  have hd3 : d ≤ 31 := by
    have : daysInMonth y m ≤ 31 := by unfold daysInMonth; split <;> (try split) <;> (try split) <;> omega
    omega
  obtain ⟨y1, y2, y3, y4, hye⟩ := list_len4 (digitsW_length' (w := 4) (by decide) (by omega : y < 10 ^ 4))
  obtain ⟨m1, m2, hme, hm1d, hm2d, hmn⟩ := pad2_form (n := m) (by omega)
  obtain ⟨d1, d2, hde, hd1d, hd2d, hdn⟩ := pad2_form (n := d) (by omega)
  have hyd := allDigits_digitsW 4 y
  have hyn := num_digitsW 4 y
  rw [hye] at hyd hyn
  refine ⟨y1, y2, y3, y4, m1, m2, d1, d2, ?_, hyd, by simp [allDigits, hm1d, hm2d], by simp [allDigits, hd1d, hd2d], hyn, hmn, hdn⟩
  simp only [dateIso, hye, hme, hde]; rfl

/-- `datetime.fromisoformat(dt.isoformat()) == dt` for whole-minute offsets -/
theorem pyDateTimeFromIso_datetimeIso {y m d h mi s us : Nat} {tz : Option Int} (hv : validYMD y m d = true)
    (hh : h < 24) (hmi : mi < 60) (hs : s < 60) (hus : us < 1000000) (htz : TzOk tz) :
    pyDateTimeFromIso (datetimeIso y m d h mi s us tz) = some (.datetime y m d h mi s us tz) := by
  obtain ⟨y1, y2, y3, y4, m1, m2, d1, d2, hf, hyd, hmd, hdd, hyn, hmn, hdn⟩ := dateIso_form hv
  have ht := pyTimeFromIso_timeIso hh hmi hs hus htz
  have hshape : (timeShape (timeIso h mi s us tz)).isSome = true := by
    unfold pyTimeFromIso at ht
    cases hq : timeShape (timeIso h mi s us tz) with
    | none => rw [hq] at ht; cases ht
    | some _ => rfl
  have hyd' := hyd
  simp only [allDigits, List.all_cons, List.all_nil, Bool.and_true, Bool.and_eq_true] at hyd'
  obtain ⟨a1, a2, a3, a4⟩ := hyd'
  have hy1 : y1 ≠ '-' := (digit_seps a1).1
  have hform : datetimeIso y m d h mi s us tz =
      y1 :: y2 :: y3 :: y4 :: '-' :: m1 :: m2 :: '-' :: d1 :: d2 :: 'T' :: timeIso h mi s us tz := by
    simp only [datetimeIso, hf, List.cons_append, List.nil_append]
  have htk : takeDigits (y1 :: y2 :: y3 :: y4 :: '-' :: m1 :: m2 :: '-' :: d1 :: d2 :: 'T' :: timeIso h mi s us tz)
      = [y1, y2, y3, y4] := by simp [takeDigits, a1, a2, a3, a4]
  have hdr : dropDigits (y1 :: y2 :: y3 :: y4 :: '-' :: m1 :: m2 :: '-' :: d1 :: d2 :: 'T' :: timeIso h mi s us tz)
      = '-' :: m1 :: m2 :: '-' :: d1 :: d2 :: 'T' :: timeIso h mi s us tz := by simp [dropDigits, a1, a2, a3, a4]
  have hmd' : allDigits [m1, m2, d1, d2] = true := by
    simp only [allDigits, List.all_cons, List.all_nil, Bool.and_true, Bool.and_eq_true] at hmd hdd ⊢
    exact ⟨hmd.1, hmd.2, hdd.1, hdd.2⟩
  have hshp : dateTimeShape (datetimeIso y m d h mi s us tz) =
      some (false, [y1, y2, y3, y4], [m1, m2], [d1, d2], timeIso h mi s us tz) := by
    rw [hform]
    have hneg : ((y1 :: y2 :: y3 :: y4 :: '-' :: m1 :: m2 :: '-' :: d1 :: d2 :: 'T' :: timeIso h mi s us tz).head? == some '-') = false := by
      simpa using hy1
    simp only [dateTimeShape, hneg, Bool.false_eq_true, if_false, htk, hdr, hmd', hshape]
    simp
  have hmk : mkDate [y1, y2, y3, y4] [m1, m2] [d1, d2] = some (.date y m d) := by
    simp [mkDate, hyd, hmd, hdd, hyn, hmn, hdn, hv]
  unfold pyDateTimeFromIso
  rw [hshp]
  simp [hmk, ht]


theorem dayOk_of_valid {y m d : Nat} (hv : validYMD y m d = true) : Spec.dayOk false y m d = true := by
  simp only [validYMD, Bool.and_eq_true, decide_eq_true_eq] at hv
  obtain ⟨⟨⟨⟨⟨_, _⟩, hm1⟩, hm2⟩, hd1⟩, hd2⟩ := hv
  simp only [Spec.dayOk, Spec.isLeapAstro, Bool.and_eq_true, decide_eq_true_eq]
  refine ⟨⟨⟨hm1, hm2⟩, hd1⟩, ?_⟩
  simpa [daysInMonth, isLeap] using hd2

theorem dateTimeLex_datetimeIso {y m d h mi s us : Nat} {tz : Option Int} (hv : validYMD y m d = true)
    (hh : h < 24) (hmi : mi < 60) (hs : s < 60) (hus : us < 1000000) (htz : XsdTz tz) :
    Spec.dateTimeLex (datetimeIso y m d h mi s us tz) = true := by
  obtain ⟨y1, y2, y3, y4, m1, m2, d1, d2, hf, hyd, hmd, hdd, hyn, hmn, hdn⟩ := dateIso_form hv
  have ht := timeLex_timeIso hh hmi hs hus htz
  have hyd' := hyd
  simp only [allDigits, List.all_cons, List.all_nil, Bool.and_true, Bool.and_eq_true] at hyd' hmd hdd
  obtain ⟨a1, a2, a3, a4⟩ := hyd'
  have hy1 : y1 ≠ '-' := (digit_seps a1).1
  have hform : datetimeIso y m d h mi s us tz =
      y1 :: y2 :: y3 :: y4 :: '-' :: m1 :: m2 :: '-' :: d1 :: d2 :: 'T' :: timeIso h mi s us tz := by
    simp only [datetimeIso, hf, List.cons_append, List.nil_append]
  have htk : takeDigits (y1 :: y2 :: y3 :: y4 :: '-' :: m1 :: m2 :: '-' :: d1 :: d2 :: 'T' :: timeIso h mi s us tz)
      = [y1, y2, y3, y4] := by simp [takeDigits, a1, a2, a3, a4]
  have hdr : dropDigits (y1 :: y2 :: y3 :: y4 :: '-' :: m1 :: m2 :: '-' :: d1 :: d2 :: 'T' :: timeIso h mi s us tz)
      = '-' :: m1 :: m2 :: '-' :: d1 :: d2 :: 'T' :: timeIso h mi s us tz := by simp [dropDigits, a1, a2, a3, a4]
  rw [hform]
  unfold Spec.dateTimeLex
  split
  · rename_i heq; cases heq; exact absurd rfl hy1
  · simp only [Spec.dateBodyLex, htk, hdr]
    simp [Spec.yearLex, natVal_eq_num, hyn, hmn, hdn, dayOk_of_valid hv, a1, a2, a3, a4, hmd.1, hmd.2, hdd.1, hdd.2, ht]

end RV.C09
