import RV.C09.Spec
/-
  C09 — vocabulary of the property statements (kept apart from the lemmas so that
  `Props.lean` reads on its own): which Python values and which datatypes the theorems
  quantify over, what "the value XSD assigns" means per datatype, which literals exist.
-/
namespace RV.C09

/-- the Python values the Python→literal theorems quantify over: every int, bool,
    finite Decimal (any exponent) and str.  Floats are outside Lean (IEEE rounding and
    `repr` are opaque); bytes: finding C09-K5; dates/times/durations: correspondence,
    `duration_roundtrip`. -/
def Supported : PyVal → Prop
  | .int _ => True
  | .bool _ => True
  | .dec _ _ _ => True
  | .str _ => True
  | _ => False

/-- datatypes whose XSD value space CPython's types hold exactly (no range / precision limit):
    the integer family, decimal, boolean, the string family, hexBinary, base64Binary -/
def Covered (d : Dt) : Bool :=
  match d.conv with
  | .int | .decimal | .boolean | .none | .hex | .b64 => true
  | _ => false

/-- "`v` is the value XSD assigns to the lexical form `s` of datatype `d`" -/
def ValueIs (d : Dt) (s : Str) (v : Option PyVal) : Prop :=
  match d.conv with
  | .int => v = some (.int (Spec.intVal s))
  | .decimal => ∃ (n : Bool) (c k : Nat), v = some (.dec n c (-(k : Int))) ∧
      Spec.decVal s = (((if n then -(c : Int) else (c : Int)) : Int), (k : Nat))
  | .boolean => ∃ b, Spec.boolVal? s = some b ∧ v = some (.bool b)
  | .none => v = some (.str s)
  | .hex => v = some (.bytes (Spec.hexVal s))
  | .b64 => v = some (.bytes (Spec.b64ValOf s))
  | _ => v.isSome = true   -- date/time/duration families: *a* value (the fields are tied by correspondence)

/-- literals the constructors produce: `Literal(s, datatype=dt, normalize=nz)` for any string, any
    (modelled) datatype or none, either setting of `normalize`; `Literal(v)` for a Python value
    (documented datatype); `Literal(old)` / `Literal(old, datatype=dt)` for a literal already built -/
inductive Built : Lit → Prop
  | lex {dt : Option Dt} {s : Str} {nz : Bool} {l : Lit} : mkLex dt s nz = some l → Built l
  | py {v : PyVal} {l : Lit} : mkValue v none = some l → Built l
  | fromLit {old : Lit} (dt : Option Dt) : Built old → Built (mkFromLit old dt)

/-- the lexical form denotes the stored value: reading it back with the datatype's converter gives the value -/
def Denotes (l : Lit) : Prop := ∀ v, l.value = some v → castLex l.dt l.lex = some v

/-- datatypes for which re-reading the normalised form returns the very same Python value -/
def ExactBack (dt : Option Dt) : Bool :=
  match dt with
  | none => true
  | some d => match d.conv with | .int | .boolean | .none | .hex | .b64 => true | _ => false

/-- whole-minute utcoffset (microseconds), strictly inside ±24 h -/
def TzOk (tz : Option Int) : Prop :=
  match tz with
  | none => True
  | some off => off % 60000000 = 0 ∧ -86400000000 < off ∧ off < 86400000000

/-- utcoffsets XSD can write: whole minutes within ±14:00 -/
def XsdTz (tz : Option Int) : Prop :=
  match tz with
  | none => True
  | some off => off % 60000000 = 0 ∧ -50400000000 ≤ off ∧ off ≤ 50400000000

/-- field ranges of a Python `time` -/
def ValidTime (h mi s us : Nat) : Prop := h < 24 ∧ mi < 60 ∧ s < 60 ∧ us < 1000000

def PyVal.isStr : PyVal → Bool | .str _ => true | _ => false
def PyVal.isBytes : PyVal → Bool | .bytes _ => true | _ => false

end RV.C09
