import RV.C09.Lemmas
import RV.C09.B64Lemmas
import RV.C09.Claims
/-
  C09 — lemmas at the level of `Lit` (constructors, normalisation, eq).
-/
namespace RV.C09

theorem mkValue_int (i : Int) : mkValue (.int i) none = some ⟨intRepr i, some .integer, some (.int i), none⟩ := rfl
theorem mkValue_bool (b : Bool) : mkValue (.bool b) none = some ⟨boolLex b, some .boolean, some (.bool b), none⟩ := rfl
theorem mkValue_dec (n : Bool) (c : Nat) (e : Int) :
    mkValue (.dec n c e) none = some ⟨fmtF n c e, some .decimal, some (.dec n c e), none⟩ := rfl
theorem mkValue_str (s : Str) : mkValue (.str s) none = some ⟨s, none, some (.str s), none⟩ := rfl

theorem validLex_integer_intRepr (i : Int) : Spec.validLex .integer (intRepr i) = true := by
  simp [Spec.validLex, intLex_intRepr, Spec.inBounds, Spec.xsdBounds]


theorem pyEq_dec_self (n : Bool) (c : Nat) (e : Int) : pyEq (.dec n c e) (.dec n c e) = true := by
  simp only [pyEq]
  by_cases hc : c = 0
  · simp [hc]
  · simp [hc, scaledEq]

theorem pyEq_fmtFBack (n : Bool) (c : Nat) (e : Int) : pyEq (fmtFBack n c e) (.dec n c e) = true := by
  unfold fmtFBack
  split
  · rename_i he
    simp only [pyEq]
    by_cases hc : c = 0
    · simp [hc]
    · have h10 : 10 ^ e.toNat ≠ 0 := Nat.pos_iff_ne_zero.mp (Nat.pow_pos (by decide))
      have : c * 10 ^ e.toNat ≠ 0 := Nat.mul_ne_zero hc h10
      have hmin : min 0 e = 0 := Int.min_eq_left he
      simp [hc, this, scaledEq, hmin]
  · exact pyEq_dec_self n c e


/-- value and flag of `mkLex` do not depend on `normalize` -/
theorem mkLex_fields {dt : Option Dt} {s : Str} {nz : Bool} {l : Lit} (h : mkLex dt s nz = some l) :
    l.value = castLex dt (postProcess dt s) ∧
      l.ill = dt.map (fun d => !wellFormed d (postProcess dt s) (castLex dt (postProcess dt s))) ∧ l.dt = dt := by
  simp only [mkLex] at h
  split at h
  · rename_i pv hv
    split at h
    · cases h; exact ⟨hv.symm, by rw [hv], rfl⟩
    · cases h
  · cases h; exact ⟨rfl, rfl, rfl⟩

theorem mkLex_isSome_of_pyLex {dt : Option Dt} {s : Str} {nz : Bool}
    (h : ∀ pv, castLex dt (postProcess dt s) = some pv → (pyLex pv dt).isSome = true) :
    (mkLex dt s nz).isSome = true := by
  simp only [mkLex]
  split
  · rename_i pv hv
    have := h pv hv
    split
    · rfl
    · rename_i hn; rw [hn] at this; cases this
  · rfl

theorem wellFormed_nobounds {d : Dt} (hb : d ≠ .boolean) (hn : d.bounds = none) (s : Str) (v : Option PyVal) :
    wellFormed d s v = v.isSome := by
  unfold wellFormed
  have : (d == Dt.boolean) = false := by simpa using hb
  simp [this, hn]

theorem postProcess_of_conv {d : Dt} (h : d.conv ≠ .none) (s : Str) : postProcess (some d) s = s := by
  cases d <;> first | rfl | exact absurd rfl h

theorem lex_to_value_xsd_covered (d : Dt) (s : Str) (nz : Bool) (hc : Covered d = true)
    (hv : Spec.validLex d s = true) :
    ∃ l, mkLex (some d) s nz = some l ∧ l.ill = some false ∧ ValueIs d s l.value := by
  -- value of the converter and the verdict of the checker
  have key : ValueIs d s (castLex (some d) s) ∧ wellFormed d s (castLex (some d) s) = true ∧
      (∀ pv, castLex (some d) s = some pv → (pyLex pv (some d)).isSome = true) := by
    unfold Covered at hc
    generalize hcv : d.conv = cv at hc
    cases cv with
    | int =>
      rw [validLex_int hcv, Bool.and_eq_true] at hv
      have h1 : castLex (some d) s = some (.int (Spec.intVal s)) := by
        rw [castLex_int hcv, pyInt_xsd hv.1]; rfl
      refine ⟨by simp [ValueIs, hcv, h1], ?_, ?_⟩
      · rw [h1]; exact wellFormed_int hcv (by rw [validLex_int hcv, Bool.and_eq_true]; exact hv)
      · intro pv hp; rw [h1] at hp; cases hp; rfl
    | decimal =>
      have hd : d = .decimal := by cases d <;> simp [Dt.conv] at hcv <;> rfl
      subst hd
      obtain ⟨n, c, k, h1, h2⟩ := pyDecimal_xsd (by simpa [Spec.validLex] using hv)
      have h1' : castLex (some .decimal) s = some (.dec n c (-(k : Int))) := by simp [castLex, Dt.conv, h1]
      refine ⟨by simp only [ValueIs, Dt.conv]; exact ⟨n, c, k, h1', h2⟩, ?_, ?_⟩
      · rw [wellFormed_nobounds (by decide) (by decide), h1']; rfl
      · intro pv hp; rw [h1'] at hp; cases hp; rfl
    | boolean =>
      have hd : d = .boolean := by cases d <;> simp [Dt.conv] at hcv <;> rfl
      subst hd
      have : ∃ b, Spec.boolVal? s = some b := by
        simpa [Spec.validLex, Option.isSome_iff_exists] using hv
      obtain ⟨b, hb⟩ := this
      have ⟨hp, hw⟩ := parseBoolean_xsd hb
      have h1 : castLex (some .boolean) s = some (.bool b) := by simp [castLex, Dt.conv, hp]
      refine ⟨by simp only [ValueIs, Dt.conv]; exact ⟨b, hb, h1⟩, ?_, ?_⟩
      · unfold wellFormed
        simpa [Tables.booleanCheckedLexically] using hw
      · intro pv hp; rw [h1] at hp; cases hp; rfl
    | none =>
      have h1 : castLex (some d) s = some (.str s) := by simp [castLex, hcv]
      refine ⟨by simp [ValueIs, hcv, h1], ?_, ?_⟩
      · rw [wellFormed_nobounds (by cases d <;> simp [Dt.conv] at hcv <;> decide)
          (by cases d <;> simp [Dt.conv] at hcv <;> decide), h1]; rfl
      · intro pv hp; rw [h1] at hp; cases hp; rfl
    | hex =>
      have hd : d = .hexBinary := by cases d <;> simp [Dt.conv] at hcv <;> rfl
      subst hd
      have h1 : castLex (some .hexBinary) s = some (.bytes (Spec.hexVal s)) := by
        simp [castLex, Dt.conv, unhexlify_xsd (by simpa [Spec.validLex] using hv)]
      refine ⟨by simp [ValueIs, Dt.conv, h1], ?_, ?_⟩
      · rw [wellFormed_nobounds (by decide) (by decide), h1]; rfl
      · intro pv hp; rw [h1] at hp; cases hp; rfl
    | b64 =>
      have hd : d = .base64Binary := by cases d <;> simp [Dt.conv] at hcv <;> rfl
      subst hd
      have h1 : castLex (some .base64Binary) s = some (.bytes (Spec.b64ValOf s)) := by
        simp [castLex, Dt.conv, b64decode_xsd (by simpa [Spec.validLex] using hv)]
      refine ⟨by simp [ValueIs, Dt.conv, h1], ?_, ?_⟩
      · rw [wellFormed_nobounds (by decide) (by decide), h1]; rfl
      · intro pv hp; rw [h1] at hp; cases hp; rfl
    | _ => simp at hc
  obtain ⟨hval, hwf, hpy⟩ := key
  have hpp : postProcess (some d) s = s := by
    by_cases hn : d.conv = .none
    · exact postProcess_valid hn hv
    · exact postProcess_of_conv hn s
  have hsome := mkLex_isSome_of_pyLex (dt := some d) (s := s) (nz := nz) (by rw [hpp]; exact hpy)
  obtain ⟨l, hl⟩ := Option.isSome_iff_exists.mp hsome
  obtain ⟨h1, h2, _⟩ := mkLex_fields hl
  rw [hpp] at h1 h2
  exact ⟨l, hl, by simp [h2, hwf], by rw [h1]; exact hval⟩


theorem pyDecBody_kind {n : Bool} {s : Str} {v : PyVal} (h : pyDecBody n s = some v) : ∃ c e, v = .dec n c e := by
  simp only [pyDecBody] at h
  split at h
  · split at h
    · cases h
    · simp only [Option.map_eq_some_iff] at h
      obtain ⟨e, _, rfl⟩ := h; exact ⟨_, _, rfl⟩
  · split at h
    · cases h
    · simp only [Option.map_eq_some_iff] at h
      obtain ⟨e, _, rfl⟩ := h; exact ⟨_, _, rfl⟩

theorem pyDecimal_kind {s : Str} {v : PyVal} (h : pyDecimal s = some v) : ∃ n c e, v = .dec n c e := by
  unfold pyDecimal at h
  split at h <;> exact ⟨_, pyDecBody_kind h⟩

theorem mkDate_kind {y m d : Str} {v : PyVal} (h : mkDate y m d = some v) : ∃ a b c, v = .date a b c := by
  unfold mkDate at h
  split at h
  · cases h; exact ⟨_, _, _, rfl⟩
  · cases h

theorem pyDateFromIso_kind {s : Str} {v : PyVal} (h : pyDateFromIso s = some v) : ∃ a b c, v = .date a b c := by
  unfold pyDateFromIso at h
  split at h
  · exact mkDate_kind h
  · exact mkDate_kind h
  · cases h

theorem parseXsdDate_kind {s : Str} {v : PyVal} (h : parseXsdDate s = some v) : ∃ a b c, v = .date a b c := by
  simp only [parseXsdDate, dateFinish] at h
  repeat' split at h
  all_goals first | (cases h; done) | exact pyDateFromIso_kind h

theorem pyTimeFromIso_kind {s : Str} {v : PyVal} (h : pyTimeFromIso s = some v) :
    ∃ a b c d e, v = .time a b c d e := by
  unfold pyTimeFromIso at h
  split at h
  · split at h
    · split at h
      · cases h; exact ⟨_, _, _, _, _, rfl⟩
      · cases h
    · cases h
  · cases h

theorem pyDateTimeFromIso_kind {s : Str} {v : PyVal} (h : pyDateTimeFromIso s = some v) :
    ∃ a b c d e f g t, v = .datetime a b c d e f g t := by
  unfold pyDateTimeFromIso at h
  split at h
  · split at h
    · cases h
    · split at h
      · cases h; exact ⟨_, _, _, _, _, _, _, _, rfl⟩
      · cases h
  · cases h

theorem parseXsdDuration_kind {s : Str} {v : PyVal} (h : parseXsdDuration s = some v) :
    (∃ u, v = .timedelta u) ∨ (∃ y m u, v = .duration y m u) := by
  unfold parseXsdDuration at h
  split at h
  · simp only [durOfRaw] at h
    repeat' split at h
    all_goals first | (cases h; done) | (cases h; exact Or.inl ⟨_, rfl⟩) | (cases h; exact Or.inr ⟨_, _, _, rfl⟩)
  · cases h

/-- what kind of value each converter can return -/
theorem castLex_str {dt : Option Dt} {s s' : Str} (h : castLex dt s = some (.str s')) :
    s' = s ∧ (dt = none ∨ ∃ d, dt = some d ∧ d.conv = .none) := by
  unfold castLex at h
  split at h
  · cases h; exact ⟨rfl, Or.inl rfl⟩
  · rename_i d
    split at h
    · rename_i hc; cases h; exact ⟨rfl, Or.inr ⟨d, rfl, hc⟩⟩
    · simp only [Option.map_eq_some_iff] at h; obtain ⟨_, _, h⟩ := h; cases h
    · obtain ⟨_, _, _, h'⟩ := pyDecimal_kind h; cases h'
    · cases h
    · obtain ⟨_, _, _, h'⟩ := parseXsdDate_kind h; cases h'
    · obtain ⟨_, _, _, _, _, h'⟩ := pyTimeFromIso_kind h; cases h'
    · obtain ⟨_, _, _, _, _, _, _, _, h'⟩ := pyDateTimeFromIso_kind h; cases h'
    · rcases parseXsdDuration_kind h with ⟨_, h'⟩ | ⟨_, _, _, h'⟩ <;> cases h'
    · simp only [Option.map_eq_some_iff] at h; obtain ⟨_, _, h⟩ := h; cases h
    · simp only [Option.map_eq_some_iff] at h; obtain ⟨_, _, h⟩ := h; cases h

theorem castLex_bytes {dt : Option Dt} {s : Str} {b : List Nat} (h : castLex dt s = some (.bytes b)) :
    (dt = some .hexBinary ∧ unhexlify s = some b) ∨ (dt = some .base64Binary ∧ b64decode s = some b) := by
  unfold castLex at h
  split at h
  · cases h
  · rename_i d
    split at h
    · cases h
    · simp only [Option.map_eq_some_iff] at h; obtain ⟨_, _, h⟩ := h; cases h
    · obtain ⟨_, _, _, h'⟩ := pyDecimal_kind h; cases h'
    · cases h
    · obtain ⟨_, _, _, h'⟩ := parseXsdDate_kind h; cases h'
    · obtain ⟨_, _, _, _, _, h'⟩ := pyTimeFromIso_kind h; cases h'
    · obtain ⟨_, _, _, _, _, _, _, _, h'⟩ := pyDateTimeFromIso_kind h; cases h'
    · rcases parseXsdDuration_kind h with ⟨_, h'⟩ | ⟨_, _, _, h'⟩ <;> cases h'
    · rename_i hc
      simp only [Option.map_eq_some_iff] at h; obtain ⟨b', hb, h⟩ := h; cases h
      refine Or.inl ⟨?_, hb⟩
      cases d <;> simp [Dt.conv] at hc <;> rfl
    · rename_i hc
      simp only [Option.map_eq_some_iff] at h; obtain ⟨b', hb, h⟩ := h; cases h
      refine Or.inr ⟨?_, hb⟩
      cases d <;> simp [Dt.conv] at hc <;> rfl

/-- the two binary datatypes: the bytes are bytes, and what the printer writes reads back as the same bytes -/
theorem castLex_bytes_lt {dt : Option Dt} {s : Str} {b : List Nat} (h : castLex dt s = some (.bytes b)) :
    (dt = some .hexBinary ∨ dt = some .base64Binary) ∧ ∀ x ∈ b, x < 256 := by
  rcases castLex_bytes h with ⟨h1, h2⟩ | ⟨h1, h2⟩
  · exact ⟨Or.inl h1, unhexlify_lt h2⟩
  · exact ⟨Or.inr h1, b64decode_lt h2⟩

theorem bin_roundtrip {dt : Option Dt} {b : List Nat} (hd : dt = some .hexBinary ∨ dt = some .base64Binary)
    (hlt : ∀ x ∈ b, x < 256) :
    ∃ lx, pyLex (.bytes b) dt = some lx ∧ castLex dt lx = some (.bytes b) ∧ ∀ t, postProcess dt t = t := by
  rcases hd with rfl | rfl
  · exact ⟨hexlify b, by simp [pyLex], by simp [castLex, Dt.conv, unhexlify_hexlify hlt], fun t => rfl⟩
  · exact ⟨b64encode b, by simp [pyLex], by simp [castLex, Dt.conv, b64decode_b64encode hlt], fun t => rfl⟩

/-! ### well-formed literals, `normalize()` is a fixpoint after one step -/

structure WF (l : Lit) : Prop where
  bytes : ∀ b, l.value = some (.bytes b) → (l.dt = some .hexBinary ∨ l.dt = some .base64Binary) ∧ ∀ x ∈ b, x < 256
  str : ∀ s, l.value = some (.str s) → castLex l.dt s = some (.str s) ∧ postProcess l.dt s = s
  other : ∀ v, l.value = some v → v.isStr = false → v.isBytes = false → l.dt.isSome = true

theorem wf_mkLex {dt : Option Dt} {s : Str} {nz : Bool} {l : Lit} (h : mkLex dt s nz = some l) : WF l := by
  obtain ⟨hv, _, hd⟩ := mkLex_fields h
  refine ⟨?_, ?_, ?_⟩
  · intro b hb
    rw [hv] at hb
    obtain ⟨h1, h2⟩ := castLex_bytes_lt hb
    exact ⟨by rw [hd]; exact h1, h2⟩
  · intro s' hs
    rw [hv] at hs
    obtain ⟨h1, _⟩ := castLex_str hs
    subst h1
    rw [hd]; exact ⟨hs, postProcess_idem dt s⟩
  · intro v hv' hs _
    rw [hv] at hv'
    rw [hd]
    cases dt with
    | none => simp [castLex] at hv'; subst hv'; simp [PyVal.isStr] at hs
    | some d => rfl

theorem mkPy_fields {v : PyVal} {dt : Option Dt} {l : Lit} (h : mkPy v dt = some l) :
    ∃ lx, pyLex v dt = some lx ∧ l = ⟨postProcess (coalesceDt dt v) lx, coalesceDt dt v, some v, none⟩ := by
  simp only [mkPy] at h
  split at h
  · rename_i lx hlx; cases h; exact ⟨lx, hlx, rfl⟩
  · cases h

theorem genericDt_isSome {v : PyVal} (hs : v.isStr = false) (hb : v.isBytes = false) : (genericDt v).isSome = true := by
  cases v <;> simp_all [PyVal.isStr, PyVal.isBytes, genericDt]

theorem wf_mkPy {v : PyVal} {dt : Option Dt} {l : Lit} (hs : v.isStr = false) (hb : v.isBytes = false)
    (h : mkPy v dt = some l) : WF l := by
  obtain ⟨lx, _, rfl⟩ := mkPy_fields h
  refine ⟨?_, ?_, ?_⟩
  · intro b hb'; cases hb'; simp [PyVal.isBytes] at hb
  · intro s hs'; cases hs'; simp [PyVal.isStr] at hs
  · intro w hw _ _
    cases dt with
    | none => exact genericDt_isSome hs hb
    | some d => rfl

theorem wf_mkValue {v : PyVal} {dt : Option Dt} {l : Lit} (h : mkValue v dt = some l) : WF l := by
  cases v with
  | str s => exact wf_mkLex h
  | bytes b => simp [mkValue] at h
  | _ => all_goals (simp only [mkValue] at h; exact wf_mkPy rfl rfl h)

theorem isWsDt_conv {d : Dt} (h : (some d == some Dt.normalizedString || some d == some Dt.token) = true) :
    d.conv = .none := by
  cases d <;> simp at h <;> rfl

/-- re-typing / copying an existing well-formed literal gives a well-formed literal -/
theorem wf_mkFromLit {old : Lit} (dt : Option Dt) (hw : WF old) : WF (mkFromLit old dt) := by
  cases dt with
  | some d =>
    simp only [mkFromLit, fixWs]
    by_cases hws : (some d == some Dt.normalizedString || some d == some Dt.token) = true
    · -- white-space datatype: the converter returns the string, replaced by the processed form
      have hcv := isWsDt_conv hws
      have hc : castLex (some d) old.lex = some (.str old.lex) := by simp [castLex, hcv]
      simp only [hws, if_true, hc]
      refine ⟨(by intro b hb; cases hb), ?_, (by intro v _ _ _; rfl)⟩
      intro s hs
      cases hs
      exact ⟨by simp [castLex, hcv], postProcess_idem _ _⟩
    · simp only [hws, Bool.false_eq_true, if_false]
      have hpp : ∀ t, postProcess (some d) t = t := by
        intro t; cases d <;> first | rfl | (simp at hws)
      refine ⟨?_, ?_, (by intro v _ _ _; rfl)⟩
      · intro b hb
        exact castLex_bytes_lt (show castLex (some d) old.lex = some (.bytes b) from hb)
      · intro s hs
        have hs' : castLex (some d) old.lex = some (.str s) := hs
        obtain ⟨h1, _⟩ := castLex_str hs'
        subst h1
        exact ⟨hs', hpp _⟩
  | none =>
    simp only [mkFromLit, fixWs]
    by_cases hws : (old.dt == some Dt.normalizedString || old.dt == some Dt.token) = true
    · simp only [hws, if_true]
      have hdt : ∃ d, old.dt = some d ∧ d.conv = .none := by
        cases hd : old.dt with
        | none => rw [hd] at hws; simp at hws
        | some d => rw [hd] at hws; exact ⟨d, rfl, isWsDt_conv hws⟩
      obtain ⟨d, hd, hcv⟩ := hdt
      refine ⟨?_, ?_, ?_⟩
      · intro b hb
        split at hb
        · cases hb
        · rename_i hne
          obtain ⟨h1, _⟩ := hw.bytes b hb
          rw [hd] at h1; rcases h1 with h1 | h1 <;> cases h1 <;> simp [Dt.conv] at hcv
      · intro s hs
        split at hs
        · cases hs
          rw [hd]
          exact ⟨by simp [castLex, hcv], by rw [← hd]; exact postProcess_idem _ _⟩
        · rename_i hne
          exact absurd hs (by intro e; exact hne s e)
      · intro v _ _ _; rw [hd]; rfl
    · simp only [hws, Bool.false_eq_true, if_false]
      have hpp : ∀ t, postProcess old.dt t = t := by
        intro t
        simp only [postProcess]
        simp only [Bool.or_eq_true, not_or] at hws
        simp [hws.1, hws.2]
      exact ⟨hw.bytes, hw.str, hw.other⟩

theorem wf_built {l : Lit} (h : Built l) : WF l := by
  induction h with
  | lex h => exact wf_mkLex h
  | py h => exact wf_mkValue h
  | fromLit dt _ ih => exact wf_mkFromLit dt ih

/-- in the other two branches of `__new__` the late white-space assignment changes nothing -/
theorem fixWs_mkLex {dt : Option Dt} {s : Str} {nz : Bool} {l : Lit} (h : mkLex dt s nz = some l) :
    fixWs l.dt l.lex l.value = l.value := by
  have hw := wf_mkLex h
  unfold fixWs
  split
  · rename_i hws
    split
    · rename_i s' hv
      obtain ⟨_, hpp⟩ := hw.str s' hv
      -- the lexical form is the processed value string
      simp only [mkLex] at h
      split at h
      · rename_i pv hc
        split at h
        · rename_i lx hlx
          cases h
          simp only at hv hws hpp ⊢
          cases hv
          simp only [pyLex] at hlx
          cases hlx
          rw [hpp]
        · cases h
      · rename_i hc
        cases h
        simp only at hv hws hpp ⊢
        obtain ⟨h1, _⟩ := castLex_str hv
        rw [hv, h1]
    · rfl
  · rfl

/-- `mkLex … true` when the converter's value is known -/
theorem mkLex_true_of {dt : Option Dt} {s lx : Str} {pv : PyVal} (hv : castLex dt (postProcess dt s) = some pv)
    (hl : pyLex pv dt = some lx) :
    mkLex dt s true = some ⟨postProcess dt lx, dt, some pv,
      dt.map (fun d => !wellFormed d (postProcess dt s) (some pv))⟩ := by
  simp only [mkLex, hv, hl]

theorem coalesceDt_some (d : Dt) (v : PyVal) : coalesceDt (some d) v = some d := rfl

/-- re-normalising what `mkPy` built gives the same literal -/
theorem normalize_mkPy {v : PyVal} {dt : Option Dt} {l : Lit} (hs : v.isStr = false) (hb : v.isBytes = false)
    (hd : dt.isSome = true) (h : mkPy v dt = some l) : l.normalize = some l := by
  obtain ⟨d, rfl⟩ := Option.isSome_iff_exists.mp hd
  obtain ⟨lx, hlx, rfl⟩ := mkPy_fields h
  cases v <;> first
    | (simp [PyVal.isStr] at hs; done)
    | (simp [PyVal.isBytes] at hb; done)
    | simp only [Lit.normalize, mkValue, mkPy, coalesceDt_some, hlx]

/-- normalising an already normalised literal changes nothing (every datatype of the model) -/
theorem normalize_fixpoint {l n1 : Lit} (hw : WF l) (h : l.normalize = some n1) : n1.normalize = some n1 := by
  cases hv : l.value with
  | none =>
    simp only [Lit.normalize, hv] at h
    cases h
    simp only [Lit.normalize, hv]
  | some v =>
    cases v with
    | bytes b =>
      obtain ⟨hdt, hlt⟩ := hw.bytes b hv
      obtain ⟨lx, hp, hc0, hpp⟩ := bin_roundtrip hdt hlt
      have hc : castLex l.dt (postProcess l.dt lx) = some (.bytes b) := by rw [hpp]; exact hc0
      simp only [Lit.normalize, hv, hp, mkLex_true_of hc hp] at h
      cases h
      simp only [Lit.normalize, hp, mkLex_true_of hc hp]
    | str s =>
      obtain ⟨hc, hpp⟩ := hw.str s hv
      have hp : pyLex (.str s) l.dt = some s := rfl
      have hc' : castLex l.dt (postProcess l.dt s) = some (.str s) := by rw [hpp]; exact hc
      simp only [Lit.normalize, hv, mkValue, mkLex_true_of hc' hp] at h
      cases h
      simp only [Lit.normalize, mkValue, mkLex_true_of hc' hp]
    | _ =>
      all_goals
        have hsome := hw.other _ hv rfl rfl
        simp only [Lit.normalize, hv, mkValue] at h
        exact normalize_mkPy rfl rfl hsome h

/-! ### normalisation keeps the XSD value (covered datatypes) -/

theorem intVal_intRepr (i : Int) : Spec.intVal (intRepr i) = i := by
  have h1 := pyInt_xsd (intLex_intRepr i)
  rw [pyInt_intRepr] at h1
  exact (Option.some.inj h1).symm

theorem sameValue_int {d : Dt} (h : d.conv = .int) (s t : Str) :
    Spec.sameValue d s t = (Spec.intVal s = Spec.intVal t) := by
  cases d <;> first | (simp [Dt.conv] at h; done) | rfl

theorem decVal_fmtF (n : Bool) (c k : Nat) :
    Spec.decVal (fmtF n c (-(k : Int))) = (((if n then -(c : Int) else (c : Int)) : Int), k) := by
  obtain ⟨hp, hl⟩ := pyDecimal_fmtF n c (-(k : Int))
  obtain ⟨n', c', k', h1, h2⟩ := pyDecimal_xsd hl
  rw [hp] at h1
  have hb : fmtFBack n c (-(k : Int)) = .dec n c (-(k : Int)) := by
    unfold fmtFBack
    split
    · rename_i h0
      have hk : k = 0 := by omega
      subst hk; simp
    · rfl
  rw [hb] at h1
  have h1' := Option.some.inj h1
  injection h1' with e1 e2 e3
  subst e1; subst e2
  have : k = k' := by omega
  subst this
  exact h2

/-- normalising a valid form of a covered datatype: a valid form of the same value -/
theorem normalize_same_value_covered (d : Dt) (s : Str) (hc : Covered d = true) (hv : Spec.validLex d s = true) :
    ∃ l, mkLex (some d) s true = some l ∧ Spec.validLex d l.lex = true ∧ Spec.sameValue d s l.lex := by
  have hpp : postProcess (some d) s = s := by
    by_cases hn : d.conv = .none
    · exact postProcess_valid hn hv
    · exact postProcess_of_conv hn s
  unfold Covered at hc
  generalize hcv : d.conv = cv at hc
  cases cv with
  | int =>
    have hv' := hv
    rw [validLex_int hcv, Bool.and_eq_true] at hv'
    have h1 : castLex (some d) (postProcess (some d) s) = some (.int (Spec.intVal s)) := by
      rw [hpp, castLex_int hcv, pyInt_xsd hv'.1]; rfl
    refine ⟨_, mkLex_true_of h1 rfl, ?_, ?_⟩
    · simp only [postProcess_int hcv]
      rw [validLex_int hcv, intLex_intRepr, intVal_intRepr]; simpa using hv'.2
    · simp only [postProcess_int hcv]
      rw [sameValue_int hcv, intVal_intRepr]
  | decimal =>
    have hd : d = .decimal := by cases d <;> simp [Dt.conv] at hcv <;> rfl
    subst hd
    obtain ⟨n, c, k, h1, h2⟩ := pyDecimal_xsd (by simpa [Spec.validLex] using hv)
    have h1' : castLex (some .decimal) (postProcess (some .decimal) s) = some (.dec n c (-(k : Int))) := by
      rw [hpp]; simp [castLex, Dt.conv, h1]
    refine ⟨_, mkLex_true_of h1' rfl, ?_, ?_⟩
    · exact (pyDecimal_fmtF n c _).2
    · show Spec.ratEq (Spec.decVal s) (Spec.decVal (fmtF n c (-(k : Int))))
      rw [decVal_fmtF, h2]; rfl
  | boolean =>
    have hd : d = .boolean := by cases d <;> simp [Dt.conv] at hcv <;> rfl
    subst hd
    have : ∃ b, Spec.boolVal? s = some b := by
      simpa [Spec.validLex, Option.isSome_iff_exists] using hv
    obtain ⟨b, hb⟩ := this
    have ⟨hp, _⟩ := parseBoolean_xsd hb
    have h1 : castLex (some .boolean) (postProcess (some .boolean) s) = some (.bool b) := by
      rw [hpp]; simp [castLex, Dt.conv, hp]
    refine ⟨_, mkLex_true_of h1 rfl, ?_, ?_⟩
    · show Spec.validLex .boolean (boolLex b) = true
      simp [Spec.validLex, boolVal_boolLex]
    · show Spec.boolVal? s = Spec.boolVal? (boolLex b)
      rw [hb, boolVal_boolLex]
  | none =>
    have h1 : castLex (some d) (postProcess (some d) s) = some (.str s) := by
      rw [hpp]; simp [castLex, hcv]
    refine ⟨_, mkLex_true_of h1 rfl, ?_, ?_⟩
    · simp only [hpp]; exact hv
    · simp only [hpp]
      cases d <;> simp [Dt.conv] at hcv <;> rfl
  | hex =>
    have hd : d = .hexBinary := by cases d <;> simp [Dt.conv] at hcv <;> rfl
    subst hd
    have hx : Spec.hexLex s = true := by simpa [Spec.validLex] using hv
    have hu := unhexlify_xsd hx
    have hlt := unhexlify_lt hu
    have h1 : castLex (some .hexBinary) (postProcess (some .hexBinary) s) = some (.bytes (Spec.hexVal s)) := by
      rw [hpp]; simp [castLex, Dt.conv, hu]
    have hp : pyLex (.bytes (Spec.hexVal s)) (some .hexBinary) = some (hexlify (Spec.hexVal s)) := by simp [pyLex]
    refine ⟨_, mkLex_true_of h1 hp, ?_, ?_⟩
    · show Spec.validLex .hexBinary (hexlify (Spec.hexVal s)) = true
      simpa [Spec.validLex] using hexLex_hexlify hlt
    · show Spec.hexVal s = Spec.hexVal (hexlify (Spec.hexVal s))
      have h2 := unhexlify_xsd (hexLex_hexlify hlt)
      rw [unhexlify_hexlify hlt] at h2
      exact Option.some.inj h2
  | b64 =>
    have hd : d = .base64Binary := by cases d <;> simp [Dt.conv] at hcv <;> rfl
    subst hd
    have hx : Spec.b64Lex s = true := by simpa [Spec.validLex] using hv
    have hu := b64decode_xsd hx
    have hlt := b64decode_lt hu
    have h1 : castLex (some .base64Binary) (postProcess (some .base64Binary) s) = some (.bytes (Spec.b64ValOf s)) := by
      rw [hpp]; simp [castLex, Dt.conv, hu]
    have hp : pyLex (.bytes (Spec.b64ValOf s)) (some .base64Binary) = some (b64encode (Spec.b64ValOf s)) := by simp [pyLex]
    obtain ⟨e1, e2⟩ := b64Lex_b64encode hlt
    refine ⟨_, mkLex_true_of h1 hp, ?_, ?_⟩
    · show Spec.validLex .base64Binary (b64encode (Spec.b64ValOf s)) = true
      simpa [Spec.validLex] using e1
    · show Spec.b64ValOf s = Spec.b64ValOf (b64encode (Spec.b64ValOf s))
      exact e2.symm
  | _ => simp at hc

/-! ### eq, term equality -/


theorem pyEq_refl (v : PyVal) : pyEq v v = true := by
  cases v with
  | dec n c e => exact pyEq_dec_self n c e
  | time h mi s us tz => cases tz <;> simp [pyEq]
  | datetime y m d h mi s us tz => cases tz <;> simp [pyEq]
  | _ => simp [pyEq]

theorem termEq_iff {a b : Lit} : a.termEq b = true ↔ a.dt = b.dt ∧ a.lex = b.lex := by
  simp [Lit.termEq]

/-- term-equal literals whose lexical forms denote their values are equal in value space -/
theorem eq_of_termEq {a b : Lit} (ha : Denotes a) (hb : Denotes b) (h : a.termEq b = true) :
    a.eq b = some true := by
  obtain ⟨hdt, hlex⟩ := termEq_iff.mp h
  have hval : ∀ x y, a.value = some x → b.value = some y → pyEq x y = true := by
    intro x y hx hy
    have h1 := ha x hx
    have h2 := hb y hy
    rw [hdt, hlex, h2] at h1
    cases h1
    exact pyEq_refl _
  unfold Lit.eq
  split
  · cases hx : a.value with
    | none => simp_all
    | some x =>
      cases hy : b.value with
      | none => simp_all
      | some y => simp [hval x y hx hy]
  · split
    · simp [hlex]
    · split
      · rename_i hne; rw [hdt] at hne; simp at hne
      · cases hx : a.value with
        | none => simp [hlex]
        | some x =>
          cases hy : b.value with
          | none => simp [hlex]
          | some y => simp [hval x y hx hy]

theorem denotes_mkLex_false {dt : Option Dt} {s : Str} {l : Lit} (h : mkLex dt s false = some l) : Denotes l := by
  have hform : mkLex dt s false = some ⟨postProcess dt s, dt, castLex dt (postProcess dt s),
      dt.map (fun d => !wellFormed d (postProcess dt s) (castLex dt (postProcess dt s)))⟩ := by
    simp only [mkLex]
    split
    · rename_i hf; simp at hf
    · rfl
  rw [hform] at h
  cases h
  intro v hv
  exact hv

theorem denotes_mkLex_true {dt : Option Dt} {s : Str} {l : Lit} (hx : ExactBack dt = true)
    (h : mkLex dt s true = some l) : Denotes l := by
  cases hc : castLex dt (postProcess dt s) with
  | none =>
    simp only [mkLex, hc] at h
    cases h
    intro v hv; cases hv
  | some pv =>
    -- the printer's output reads back as `pv`
    have key : ∃ lx, pyLex pv dt = some lx ∧ castLex dt (postProcess dt lx) = some pv := by
      cases dt with
      | none =>
        simp only [castLex] at hc
        cases hc
        exact ⟨_, rfl, rfl⟩
      | some d =>
        simp only [ExactBack] at hx
        generalize hcv : d.conv = cv at hx
        cases cv with
        | int =>
          rw [castLex_int hcv] at hc
          obtain ⟨i, _, rfl⟩ := Option.map_eq_some_iff.mp hc
          refine ⟨intRepr i, rfl, ?_⟩
          rw [postProcess_int hcv, castLex_int hcv, pyInt_intRepr]; rfl
        | boolean =>
          have hd : d = .boolean := by cases d <;> simp [Dt.conv] at hcv <;> rfl
          subst hd
          simp only [castLex, Dt.conv] at hc
          cases hc
          exact ⟨_, rfl, by simp [castLex, Dt.conv, postProcess, parseBoolean_boolLex]⟩
        | none =>
          simp only [castLex, hcv] at hc
          cases hc
          exact ⟨_, rfl, by simp [castLex, hcv, postProcess_idem]⟩
        | hex =>
          have hd : d = .hexBinary := by cases d <;> simp [Dt.conv] at hcv <;> rfl
          subst hd
          have hpp : ∀ t, postProcess (some Dt.hexBinary) t = t := fun t => rfl
          rw [hpp] at hc
          simp only [castLex, Dt.conv] at hc
          obtain ⟨b, hb, rfl⟩ := Option.map_eq_some_iff.mp hc
          refine ⟨hexlify b, by simp [pyLex], ?_⟩
          rw [hpp]; simp [castLex, Dt.conv, unhexlify_hexlify (unhexlify_lt hb)]
        | b64 =>
          have hd : d = .base64Binary := by cases d <;> simp [Dt.conv] at hcv <;> rfl
          subst hd
          have hpp : ∀ t, postProcess (some Dt.base64Binary) t = t := fun t => rfl
          rw [hpp] at hc
          simp only [castLex, Dt.conv] at hc
          obtain ⟨b, hb, rfl⟩ := Option.map_eq_some_iff.mp hc
          refine ⟨b64encode b, by simp [pyLex], ?_⟩
          rw [hpp]; simp [castLex, Dt.conv, b64decode_b64encode (b64decode_lt hb)]
        | _ => simp at hx
    obtain ⟨lx, hlx, hback⟩ := key
    rw [mkLex_true_of hc hlx] at h
    cases h
    intro v hv
    cases hv
    exact hback

theorem denotes_mkValue {v : PyVal} {l : Lit} (hs : Supported v) (hd : ∀ n c e, v ≠ .dec n c e)
    (h : mkValue v none = some l) : Denotes l := by
  cases v with
  | int i => rw [mkValue_int] at h; cases h; intro w hw; cases hw; simp [castLex, Dt.conv, pyInt_intRepr]
  | bool b => rw [mkValue_bool] at h; cases h; intro w hw; cases hw; simp [castLex, Dt.conv, parseBoolean_boolLex]
  | dec n c e => exact absurd rfl (hd n c e)
  | str s => rw [mkValue_str] at h; cases h; intro w hw; cases hw; rfl
  | _ => exact absurd hs (by simp [Supported])


theorem isNumeric_not_string {d : Option Dt} (h : isStringDt d = true) : isNumeric d = false := by
  simp only [isStringDt, Bool.or_eq_true, beq_iff_eq] at h
  rcases h with h | h <;> subst h
  · rfl
  · decide

theorem eq_numeric {a b : Lit} {x y : PyVal} (hx : a.value = some x) (hy : b.value = some y)
    (hna : isNumeric a.dt = true) (hnb : isNumeric b.dt = true)
    (hia : a.ill ≠ some true) (hib : b.ill ≠ some true) : a.eq b = some (pyEq x y) := by
  unfold Lit.eq
  have : (isNumeric a.dt && isNumeric b.dt && a.ill != some true && b.ill != some true
      && a.value.isSome && b.value.isSome) = true := by
    simp [hna, hnb, hia, hib, hx, hy]
  rw [if_pos this]
  simp [hx, hy]

theorem eq_same_dt {a b : Lit} {x y : PyVal} (hx : a.value = some x) (hy : b.value = some y)
    (hdt : a.dt = b.dt) (hns : isStringDt a.dt = false) : a.eq b = some (pyEq x y) := by
  unfold Lit.eq
  split
  · simp [hx, hy]
  · rw [← hdt]
    simp [hns, hx, hy]

theorem eq_strings {a b : Lit} (ha : isStringDt a.dt = true) (hb : isStringDt b.dt = true) :
    a.eq b = some (a.lex == b.lex) := by
  unfold Lit.eq
  simp [isNumeric_not_string ha, ha, hb]

/-- plain / xsd:string literals made by the constructors carry their lexical form as value -/
theorem string_value_of_built {l : Lit} (h : Built l) (hs : isStringDt l.dt = true) :
    l.value = some (.str l.lex) := by
  have hpp : ∀ dt, isStringDt dt = true → ∀ t, postProcess dt t = t := by
    intro dt hdt t
    simp only [isStringDt, Bool.or_eq_true, beq_iff_eq] at hdt
    rcases hdt with h | h <;> subst h <;> rfl
  have hcl : ∀ dt, isStringDt dt = true → ∀ t, castLex dt t = some (.str t) := by
    intro dt hdt t
    simp only [isStringDt, Bool.or_eq_true, beq_iff_eq] at hdt
    rcases hdt with h | h <;> subst h <;> rfl
  induction h with
  | @lex dt s nz l h =>
    obtain ⟨_, _, hd⟩ := mkLex_fields h
    rw [hd] at hs
    cases nz with
    | false =>
      simp only [mkLex] at h
      have hc := hcl dt hs (postProcess dt s)
      rw [hc] at h
      simp only [hpp dt hs] at h
      cases h; rfl
    | true =>
      have hc := hcl dt hs (postProcess dt s)
      rw [mkLex_true_of hc rfl] at h
      cases h
      simp [hpp dt hs]
  | @py v l h =>
    cases v with
    | str s => rw [mkValue_str] at h; cases h; rfl
    | bytes b => simp [mkValue] at h
    | _ =>
      all_goals
        simp only [mkValue] at h
        obtain ⟨lx, _, rfl⟩ := mkPy_fields h
        simp [coalesceDt, genericDt, isStringDt] at hs
  | @fromLit old dt _ ih =>
    cases dt with
    | some d =>
      simp only [mkFromLit] at hs ⊢
      have hns : (some d == some Dt.normalizedString || some d == some Dt.token) = false := by
        simp only [isStringDt, Bool.or_eq_true, beq_iff_eq] at hs
        rcases hs with h | h
        · cases h
        · cases h; rfl
      simp only [fixWs, hns, Bool.false_eq_true, if_false, hpp _ hs, hcl _ hs]
    | none =>
      simp only [mkFromLit] at hs ⊢
      have hv := ih hs
      have hns : (old.dt == some Dt.normalizedString || old.dt == some Dt.token) = false := by
        simp only [isStringDt, Bool.or_eq_true, beq_iff_eq] at hs
        rcases hs with h | h <;> rw [h] <;> rfl
      simp only [fixWs, hns, Bool.false_eq_true, if_false, hpp _ hs, hv]

/-- a re-typed literal's lexical form denotes its value — because of the late white-space assignment -/
theorem denotes_mkFromLit_some (old : Lit) (d : Dt) : Denotes (mkFromLit old (some d)) := by
  intro v hv
  simp only [mkFromLit, fixWs] at hv ⊢
  by_cases hws : (some d == some Dt.normalizedString || some d == some Dt.token) = true
  · have hcv := isWsDt_conv hws
    simp only [hws, if_true, castLex, hcv] at hv ⊢
    exact hv
  · simp only [hws, Bool.false_eq_true, if_false] at hv
    have hpp : ∀ t, postProcess (some d) t = t := by
      intro t; cases d <;> first | rfl | (simp at hws)
    rw [hpp]; exact hv

/-- copying a literal keeps "the lexical form denotes the value" -/
theorem denotes_mkFromLit_none {old : Lit} (h : Denotes old) : Denotes (mkFromLit old none) := by
  intro v hv
  simp only [mkFromLit, fixWs] at hv ⊢
  by_cases hws : (old.dt == some Dt.normalizedString || old.dt == some Dt.token) = true
  · simp only [hws, if_true] at hv
    have hdt : ∃ d, old.dt = some d ∧ d.conv = .none := by
      cases hd : old.dt with
      | none => rw [hd] at hws; simp at hws
      | some d => rw [hd] at hws; exact ⟨d, rfl, isWsDt_conv hws⟩
    obtain ⟨d, hd, hcv⟩ := hdt
    split at hv
    · cases hv; rw [hd]; simp [castLex, hcv]
    · rename_i hne
      -- a non-string value cannot be denoted under a string datatype
      have := h v hv
      rw [hd] at this
      simp only [castLex, hcv] at this
      cases this
      exact absurd hv (hne _)
  · simp only [hws, Bool.false_eq_true, if_false] at hv
    have hpp : ∀ t, postProcess old.dt t = t := by
      intro t
      simp only [postProcess]
      simp only [Bool.or_eq_true, not_or] at hws
      simp [hws.1, hws.2]
    rw [hpp]; exact h v hv


/-- re-typing an existing literal = building from its lexical form with `normalize=False`, except that
    `ill_typed` stays `None` -/
theorem mkFromLit_some_eq_mkLex (old : Lit) (d : Dt) :
    mkLex (some d) old.lex false = some { mkFromLit old (some d) with
      ill := some (!wellFormed d (postProcess (some d) old.lex) (castLex (some d) (postProcess (some d) old.lex))) } := by
  have hform : mkLex (some d) old.lex false = some ⟨postProcess (some d) old.lex, some d,
      castLex (some d) (postProcess (some d) old.lex),
      some (!wellFormed d (postProcess (some d) old.lex) (castLex (some d) (postProcess (some d) old.lex)))⟩ := by
    simp only [mkLex]
    split
    · rename_i hf; simp at hf
    · rfl
  rw [hform]
  simp only [mkFromLit, fixWs]
  by_cases hws : (some d == some Dt.normalizedString || some d == some Dt.token) = true
  · have hcv := isWsDt_conv hws
    rw [if_pos hws]
    simp only [castLex, hcv]
  · have hpp : ∀ t, postProcess (some d) t = t := by
      intro t; cases d <;> first | rfl | (simp at hws)
    rw [if_neg hws]
    simp only [hpp]


theorem fixWs_idem (dt : Option Dt) (lx : Str) (v : Option PyVal) : fixWs dt lx (fixWs dt lx v) = fixWs dt lx v := by
  unfold fixWs
  split
  · cases v with
    | none => rfl
    | some w => cases w <;> rfl
  · rfl

/-- literals the constructors produce are already white-space processed -/
theorem processed_of_built {l : Lit} (h : Built l) :
    postProcess l.dt l.lex = l.lex ∧ fixWs l.dt l.lex l.value = l.value := by
  induction h with
  | @lex dt s nz l h =>
    refine ⟨?_, fixWs_mkLex h⟩
    simp only [mkLex] at h
    split at h
    · split at h
      · cases h; exact postProcess_idem _ _
      · cases h
    · cases h; exact postProcess_idem _ _
  | @py v l h =>
    cases v with
    | str s =>
      have h' : mkLex none s true = some l := h
      refine ⟨?_, fixWs_mkLex h'⟩
      rw [mkValue_str] at h; cases h; rfl
    | bytes b => simp [mkValue] at h
    | _ =>
      all_goals
        simp only [mkValue] at h
        obtain ⟨lx, _, rfl⟩ := mkPy_fields h
        exact ⟨postProcess_idem _ _, by simp [fixWs]⟩
  | @fromLit old dt _ _ =>
    cases dt with
    | some d => exact ⟨postProcess_idem _ _, fixWs_idem _ _ _⟩
    | none => exact ⟨postProcess_idem _ _, fixWs_idem _ _ _⟩

theorem copy_same_of_built (old : Lit) (h : Built old) :
    (mkFromLit old none).lex = old.lex ∧ (mkFromLit old none).dt = old.dt ∧
      (mkFromLit old none).value = old.value := by
  obtain ⟨h1, h2⟩ := processed_of_built h
  refine ⟨h1, rfl, ?_⟩
  simp only [mkFromLit]
  rw [h1]; exact h2


/-! ### eq with a plain Python object -/

theorem eqPy_outside {l : Lit} {v : PyVal} (h : eqPyDomain l.dt v = false) : l.eqPy v = none := by
  simp [Lit.eqPy, h]

theorem eqPy_value {l : Lit} {v x : PyVal} (hd : eqPyDomain l.dt v = true) (hv : l.value = some x)
    (hs : v.isStr = false) : l.eqPy v = some (pyEq x v) := by
  unfold Lit.eqPy
  rw [if_pos hd]
  cases v <;> first | (simp [PyVal.isStr] at hs; done) | simp [hv]

theorem eqPy_str {l : Lit} {s : Str} (hb : Built l) (hd : eqPyDomain l.dt (.str s) = true) :
    ∃ x, l.value = some x ∧ l.eqPy (.str s) = some (pyEq x (.str s)) := by
  have hsd : isStringDt l.dt = true := hd
  have hv := string_value_of_built hb hsd
  refine ⟨_, hv, ?_⟩
  unfold Lit.eqPy
  rw [if_pos hd]
  simp [pyEq]

end RV.C09
