import RV.C09.Model
/-
  C09 — xsd:double / xsd:float: model of `float(str)` (the converter of both datatypes in `XSDToPython`) and of
  `_float_to_xsd` (the lexicaliser of the `float` rule, after fix C09-F1).

  rdflib OWNS: the choice of `float` as converter, `_float_to_xsd` (NaN / INF / -INF, else `str(value)`),
  `_well_formed_by_value`.  CPython's `float(str)` and `repr(float)` are parameters with their documented
  behaviour: `float(str)` = strip, sign, `inf|infinity|nan` (any case) or a decimal numeral (underscores only
  between digits) *correctly rounded* to binary64 (round-half-even, overflow to inf, gradual underflow);
  `repr(float)` = the shortest digit string that reads back as the same double (the closest one among the shortest),
  laid out by `format_float_short` (`'r'`: exponent form iff decpt > 16 or decpt < -3, at least two exponent digits,
  `.0` appended to an integer).  Everything is exact integer / rational arithmetic: no `Float` is used.
-/
namespace RV.C09

/-- a binary64 value: `fin neg m e` = (-1)^neg · m · 2^e, canonical (m = 0 → e = 0; else 2^52 ≤ m < 2^53 with
    -1074 ≤ e ≤ 971, or m < 2^52 with e = -1074) -/
inductive FVal
  | nan
  | inf (neg : Bool)
  | fin (neg : Bool) (m : Nat) (e : Int)
  deriving DecidableEq, Repr

/-- zero is written `fin neg 0 0` -/
def FVal.canonical : FVal → Prop
  | .fin _ m e => m = 0 → e = 0
  | _ => True

/-- the decimal number c · 10^e -/
def decRat (c : Nat) (e : Int) : Rat :=
  if 0 ≤ e then mkRat ((c * 10 ^ e.toNat : Nat) : Int) 1 else mkRat (c : Int) (10 ^ (-e).toNat)

/-- a / b rounded to the nearest integer, ties to even (b > 0) -/
def rneDiv (a b : Nat) : Nat :=
  let q := a / b
  let r := a % b
  if 2 * r < b then q else if b < 2 * r then q + 1 else (if q % 2 == 0 then q else q + 1)

/-- IEEE 754 round-to-nearest-even of the non-negative rational p/q to binary64 -/
def roundPQ (neg : Bool) (p q : Nat) : FVal :=
  if p == 0 then .fin neg 0 0
  else
    let k : Int := (Nat.log2 p : Int) - (Nat.log2 q : Int)
    -- floor(log2(p/q)) is k or k - 1
    let ge : Bool := if 0 ≤ k then decide (q * 2 ^ k.toNat ≤ p) else decide (q ≤ p * 2 ^ (-k).toNat)
    let l : Int := if ge then k else k - 1
    let e : Int := max (l - 52) (-1074)
    let m : Nat := if 0 ≤ e then rneDiv p (q * 2 ^ e.toNat) else rneDiv (p * 2 ^ (-e).toNat) q
    let m' : Nat := if m == 2 ^ 53 then 2 ^ 52 else m
    let e' : Int := if m == 2 ^ 53 then e + 1 else e
    if 971 < e' then .inf neg else if m' == 0 then .fin neg 0 0 else .fin neg m' e'

def roundRat (neg : Bool) (r : Rat) : FVal := roundPQ neg r.num.toNat r.den

/-- the double nearest to the decimal c · 10^e -/
def roundDec (neg : Bool) (c : Nat) (e : Int) : FVal := roundRat neg (decRat c e)

/-- PEP 515: an underscore only between two digits -/
def underscoresOk : Option Char → Str → Bool
  | prev, [] => prev != some '_'
  | prev, c :: cs =>
    if c == '_' then (match prev with | some p => p.isDigit | none => false) && underscoresOk (some c) cs
    else (prev != some '_' || c.isDigit) && underscoresOk (some c) cs

def dropSign : Str → Str
  | '-' :: r => r
  | '+' :: r => r
  | r => r

/-- the decimal numeral read, rounded to the nearest double -/
def decToFloat : Option PyVal → Option FVal
  | some (.dec n c e) => some (roundDec n c e)
  | _ => none

/-- `float(str)`; `none` = ValueError -/
def pyFloat (s : Str) : Option FVal :=
  let t := strip s
  let neg := t.head? == some '-'
  let r := dropSign t
  let low := r.map lowerC
  if low == ['i', 'n', 'f'] || low == ['i', 'n', 'f', 'i', 'n', 'i', 't', 'y'] then some (.inf neg)
  else if low == ['n', 'a', 'n'] then some .nan
  else if !underscoresOk none r then none
  else decToFloat (pyDecBody neg (dropUnderscores r))

/-! ### `repr(float)` -/

def ndigits (n : Nat) : Nat := (digits n).length

/-- floor(log10(P/Q)) for P, Q > 0 -/
def floorLog10 (P Q : Nat) : Int :=
  let d : Int := (ndigits P : Int) - (ndigits Q : Int)
  let ge : Bool := if 0 ≤ d then decide (Q * 10 ^ d.toNat ≤ P) else decide (Q ≤ P * 10 ^ (-d).toNat)
  if ge then d else d - 1

/-- does the decimal D · 10^s read back as the double `v`? -/
def readsBack (v : FVal) (neg : Bool) (D : Nat) (s : Int) : Bool := roundDec neg D s == v

/-- P/Q · 10^(-s) as a fraction -/
def scaledNum (P : Nat) (s : Int) : Nat := if 0 ≤ s then P else P * 10 ^ (-s).toNat
def scaledDen (Q : Nat) (s : Int) : Nat := if 0 ≤ s then Q * 10 ^ s.toNat else Q

/-- the integer nearest to P/Q · 10^(-s) (ties to even) … -/
def cand1 (P Q : Nat) (s : Int) : Nat :=
  let lo := scaledNum P s / scaledDen Q s
  let r := scaledNum P s % scaledDen Q s
  if 2 * r < scaledDen Q s || (2 * r == scaledDen Q s && lo % 2 == 0) then lo else lo + 1

/-- … and its neighbour on the other side -/
def cand2 (P Q : Nat) (s : Int) : Nat :=
  let lo := scaledNum P s / scaledDen Q s
  if cand1 P Q s == lo then lo + 1 else lo

/-- the two `k`-digit decimals D · 10^s around P/Q, the nearer first: digits (no trailing zeros) and `decpt` of the
    first that reads back as `v` -/
def tryDigits (v : FVal) (neg : Bool) (P Q : Nat) (s : Int) : Option (Str × Int) :=
  if readsBack v neg (cand1 P Q s) s then some (rstrip0 (digits (cand1 P Q s)), s + (ndigits (cand1 P Q s) : Int))
  else if readsBack v neg (cand2 P Q s) s then some (rstrip0 (digits (cand2 P Q s)), s + (ndigits (cand2 P Q s) : Int))
  else none

/-- `k`, `k+1`, … significant digits (at most `fuel` of them), `t` = floor(log10(P/Q)) -/
def shortestFrom (v : FVal) (neg : Bool) (P Q : Nat) (t : Int) : Nat → Nat → Option (Str × Int)
  | 0, _ => none
  | fuel + 1, k =>
    match tryDigits v neg P Q (t - ((k : Int) - 1)) with
    | some r => some r
    | none => shortestFrom v neg P Q t fuel (k + 1)

/-- `float_repr_style = 'short'`, mode 0 of `_Py_dg_dtoa`: shortest, at most 17 digits -/
def shortest (neg : Bool) (m : Nat) (e : Int) : Option (Str × Int) :=
  let P := if 0 ≤ e then m * 2 ^ e.toNat else m
  let Q := if 0 ≤ e then 1 else 2 ^ (-e).toNat
  shortestFrom (.fin neg m e) neg P Q (floorLog10 P Q) 17 1

/-- `format_float_short` for `repr`: digits `ds` (non-empty), decimal point after `decpt` digits -/
def fmtRepr (neg : Bool) (ds : Str) (decpt : Int) : Str :=
  let body : Str :=
    if decpt < -3 || 16 < decpt then
      let x := decpt - 1
      let mant := match ds with | [] => [] | [d] => [d] | d :: r => d :: '.' :: r
      mant ++ 'e' :: (if x < 0 then '-' else '+') :: digitsW 2 x.natAbs
    else if decpt ≤ 0 then '0' :: '.' :: (List.replicate (-decpt).toNat '0' ++ ds)
    else if (ds.length : Int) ≤ decpt then ds ++ List.replicate (decpt.toNat - ds.length) '0' ++ ['.', '0']
    else ds.take decpt.toNat ++ '.' :: ds.drop decpt.toNat
  if neg then '-' :: body else body

/-- `_float_to_xsd` (rdflib/term.py, fix C09-F1); `none` only if no 17-digit string reads back (never observed) -/
def floatToXsd : FVal → Option Str
  | .nan => some ['N', 'a', 'N']
  | .inf false => some ['I', 'N', 'F']
  | .inf true => some ['-', 'I', 'N', 'F']
  | .fin neg m e =>
    if m = 0 then some (fmtRepr neg ['0'] 1)
    else (shortest neg m e).map (fun p => fmtRepr neg p.1 p.2)

/-- Python `==` on floats -/
def FVal.pyEq : FVal → FVal → Bool
  | .nan, _ => false
  | _, .nan => false
  | .fin _ 0 _, .fin _ 0 _ => true
  | a, b => a == b

end RV.C09
