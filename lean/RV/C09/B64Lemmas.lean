import RV.C09.Lemmas
/-
  C09 — lemmas about the base64 codec of the model (`a2bLoop`/`b64decode`, `b64encode`) against the
  XSD / RFC 4648 specification of `Spec.lean` (`b64Lex`, `b64ValOf`).
-/
namespace RV.C09

/-! ### characters -/

/-- on ASCII the decoder's table is the position in the RFC 4648 alphabet -/
theorem b64Val_table : ∀ n : Fin 128, Spec.isB64 (Char.ofNat n.val) = true →
    b64Val (Char.ofNat n.val) = some (Spec.b64Six (Char.ofNat n.val)) ∧ Char.ofNat n.val ≠ '=' := by
  decide +kernel

theorem b64_notAlpha_table : ∀ n : Fin 128, Spec.isB64 (Char.ofNat n.val) = false →
    Char.ofNat n.val = '=' ∨ b64Val (Char.ofNat n.val) = none := by
  decide +kernel

theorem b64Alphabet_ascii : ∀ x ∈ Spec.b64Alphabet, x.toNat < 128 := by decide +kernel

theorem isB64_ascii {c : Char} (h : Spec.isB64 c = true) : c.toNat < 128 := by
  have hm : c ∈ Spec.b64Alphabet := by simpa [Spec.isB64] using h
  exact b64Alphabet_ascii c hm

theorem b64Val_of_isB64 {c : Char} (h : Spec.isB64 c = true) : b64Val c = some (Spec.b64Six c) ∧ c ≠ '=' := by
  have hlt := isB64_ascii h
  have := b64Val_table ⟨c.toNat, hlt⟩
  simp only [Char.ofNat_toNat] at this
  exact this h

theorem b16_sub : ∀ x ∈ "AEIMQUYcgkosw048".toList, Spec.isB64 x = true := by decide +kernel
theorem b04_sub : ∀ x ∈ "AQgw".toList, Spec.isB64 x = true := by decide +kernel

theorem isB64_of_sub {c : Char} : (Spec.isB16 c = true → Spec.isB64 c = true) ∧ (Spec.isB04 c = true → Spec.isB64 c = true) := by
  constructor
  · intro h
    exact b16_sub c (by simpa [Spec.isB16] using h)
  · intro h
    exact b04_sub c (by simpa [Spec.isB04] using h)

theorem b64Char_table : ∀ n : Fin 64, Spec.isB64 (b64Char n.val) = true ∧ Spec.b64Six (b64Char n.val) = n.val ∧
    b64Char n.val ≠ '=' ∧ b64Char n.val ≠ ' ' ∧ (b64Char n.val).toNat < 128 := by
  decide +kernel

theorem b64Char_16 : ∀ n : Fin 16, Spec.isB16 (b64Char (n.val * 4)) = true := by decide +kernel
theorem b64Char_04 : ∀ n : Fin 4, Spec.isB04 (b64Char (n.val * 16)) = true := by decide +kernel

theorem b64Char_spec {n : Nat} (h : n < 64) : Spec.isB64 (b64Char n) = true ∧ Spec.b64Six (b64Char n) = n ∧
    b64Char n ≠ '=' ∧ b64Char n ≠ ' ' ∧ (b64Char n).toNat < 128 := b64Char_table ⟨n, h⟩

theorem b64Alphabet_length : Spec.b64Alphabet.length = 64 := by decide +kernel

theorem b64Six_lt {c : Char} (h : Spec.isB64 c = true) : Spec.b64Six c < 64 := by
  have hm : c ∈ Spec.b64Alphabet := by simpa [Spec.isB64] using h
  have := List.idxOf_lt_length_of_mem hm
  rw [b64Alphabet_length] at this
  exact this

/-! ### the decoder skips spaces -/

theorem b64Val_space : b64Val ' ' = none := by decide

theorem a2bLoop_noSpaces (s : Str) : ∀ q l p, a2bLoop q l p s = a2bLoop q l p (Spec.noSpaces s) := by
  induction s with
  | nil => intro q l p; rfl
  | cons c cs ih =>
    intro q l p
    by_cases hc : c = ' '
    · subst hc
      have : Spec.noSpaces (' ' :: cs) = Spec.noSpaces cs := by simp [Spec.noSpaces]
      rw [this, ← ih]
      simp [a2bLoop, b64Val_space]
    · have : Spec.noSpaces (c :: cs) = c :: Spec.noSpaces cs := by simp [Spec.noSpaces, hc]
      rw [this]
      simp only [a2bLoop, ih]

/-! ### the decoder on the language without spaces -/

theorem a2bLoop_body : ∀ (t : Str), Spec.b64Body t = true → a2bLoop 0 0 0 t = some (Spec.b64BodyVal t) := by
  intro t
  induction t using Spec.b64Body.induct with
  | case1 => intro _; rfl
  | case2 a b c d r hd =>
    -- final padded quad
    intro h
    have hd' : d = '=' := by simpa using hd
    subst hd'
    simp only [Spec.b64Body, beq_self_eq_true, if_true, Bool.and_eq_true] at h
    obtain ⟨⟨hr, ha⟩, hbc⟩ := h
    have hr' : r = [] := by simpa using hr
    subst hr'
    obtain ⟨va, hane⟩ := b64Val_of_isB64 ha
    by_cases hc : c = '='
    · subst hc
      simp only [beq_self_eq_true, if_true] at hbc
      obtain ⟨vb, hbne⟩ := b64Val_of_isB64 (isB64_of_sub.2 hbc)
      simp [a2bLoop, Spec.b64BodyVal, hane, hbne, va, vb]
    · have hc' : (c == '=') = false := by simpa using hc
      simp only [hc', Bool.false_eq_true, if_false, Bool.and_eq_true] at hbc
      obtain ⟨vb, hbne⟩ := b64Val_of_isB64 hbc.1
      obtain ⟨vc, hcne⟩ := b64Val_of_isB64 (isB64_of_sub.1 hbc.2)
      simp [a2bLoop, Spec.b64BodyVal, hane, hbne, va, vb, vc, hc']
  | case3 a b c d r hd ih =>
    intro h
    have hd' : (d == '=') = false := by simpa using hd
    simp only [Spec.b64Body, hd', Bool.false_eq_true, if_false, Bool.and_eq_true] at h
    obtain ⟨⟨⟨⟨ha, hb⟩, hc⟩, hdd⟩, hr⟩ := h
    obtain ⟨va, hane⟩ := b64Val_of_isB64 ha
    obtain ⟨vb, hbne⟩ := b64Val_of_isB64 hb
    obtain ⟨vc, hcne⟩ := b64Val_of_isB64 hc
    obtain ⟨vd, hdne⟩ := b64Val_of_isB64 hdd
    simp [a2bLoop, Spec.b64BodyVal, hane, hbne, hcne, va, vb, vc, vd, ih hr, hd']
  | case4 t h1 h2 =>
    intro h
    exfalso
    revert h
    unfold Spec.b64Body
    split
    · exact absurd rfl h1
    · rename_i a b c d r; exact absurd rfl (h2 a b c d r)
    · simp

theorem all_ascii_of_b64Body : ∀ (t : Str), Spec.b64Body t = true → t.all (fun c => decide (c.toNat < 128)) = true := by
  intro t
  induction t using Spec.b64Body.induct with
  | case1 => intro _; rfl
  | case2 a b c d r hd =>
    intro h
    have hd' : d = '=' := by simpa using hd
    subst hd'
    simp only [Spec.b64Body, beq_self_eq_true, if_true, Bool.and_eq_true] at h
    obtain ⟨⟨hr, ha⟩, hbc⟩ := h
    have hr' : r = [] := by simpa using hr
    subst hr'
    have h1 := isB64_ascii ha
    by_cases hc : c = '='
    · subst hc
      simp only [beq_self_eq_true, if_true] at hbc
      have h2 := isB64_ascii (isB64_of_sub.2 hbc)
      simp [h1, h2]
    · have hc' : (c == '=') = false := by simpa using hc
      simp only [hc', Bool.false_eq_true, if_false, Bool.and_eq_true] at hbc
      have h2 := isB64_ascii hbc.1
      have h3 := isB64_ascii (isB64_of_sub.1 hbc.2)
      simp [h1, h2, h3]
  | case3 a b c d r hd ih =>
    intro h
    have hd' : (d == '=') = false := by simpa using hd
    simp only [Spec.b64Body, hd', Bool.false_eq_true, if_false, Bool.and_eq_true] at h
    obtain ⟨⟨⟨⟨ha, hb⟩, hc⟩, hdd⟩, hr⟩ := h
    have := ih hr
    simp [isB64_ascii ha, isB64_ascii hb, isB64_ascii hc, isB64_ascii hdd, this]
  | case4 t h1 h2 =>
    intro h
    exfalso
    revert h
    unfold Spec.b64Body
    split
    · exact absurd rfl h1
    · rename_i a b c d r; exact absurd rfl (h2 a b c d r)
    · simp

theorem all_ascii_of_noSpaces {s : Str} (h : (Spec.noSpaces s).all (fun c => decide (c.toNat < 128)) = true) :
    s.all (fun c => decide (c.toNat < 128)) = true := by
  induction s with
  | nil => rfl
  | cons c cs ih =>
    by_cases hc : c = ' '
    · subst hc
      have : Spec.noSpaces (' ' :: cs) = Spec.noSpaces cs := by simp [Spec.noSpaces]
      rw [this] at h
      simp [ih h]
    · have : Spec.noSpaces (c :: cs) = c :: Spec.noSpaces cs := by simp [Spec.noSpaces, hc]
      rw [this] at h
      simp only [List.all_cons, Bool.and_eq_true] at h ⊢
      exact ⟨h.1, ih h.2⟩

/-- every form of the XSD lexical space is decoded to the value XSD (RFC 4648) assigns to it -/
theorem b64decode_xsd {s : Str} (h : Spec.b64Lex s = true) : b64decode s = some (Spec.b64ValOf s) := by
  simp only [Spec.b64Lex, Bool.and_eq_true] at h
  have hb := h.2
  have hascii := all_ascii_of_noSpaces (all_ascii_of_b64Body _ hb)
  unfold b64decode
  rw [if_pos hascii, a2bLoop_noSpaces, a2bLoop_body _ hb]
  rfl

/-! ### the encoder -/

theorem b64encode_body : ∀ (b : List Nat), (∀ x ∈ b, x < 256) →
    Spec.b64Body (b64encode b) = true ∧ Spec.b64BodyVal (b64encode b) = b ∧ Spec.noSpaces (b64encode b) = b64encode b ∧
    Spec.noDoubleSpace (b64encode b) = true ∧ (b64encode b).head? ≠ some ' ' ∧ (b64encode b).getLast? ≠ some ' ' := by
  intro b
  induction b using b64encode.induct with
  | case1 => intro _; exact ⟨rfl, rfl, rfl, rfl, by simp [b64encode], by simp [b64encode]⟩
  | case2 a =>
    intro h
    have ha : a < 256 := h a (by simp)
    obtain ⟨p1, p2, p3, p4, _⟩ := b64Char_spec (n := a / 4) (by omega)
    obtain ⟨q1, q2, q3, q4, _⟩ := b64Char_spec (n := a % 4 * 16) (by omega)
    have q5 := b64Char_04 ⟨a % 4, by omega⟩
    simp only at q5
    refine ⟨?_, ?_, ?_, ?_, ?_, ?_⟩
    · simp [b64encode, Spec.b64Body, p1, q5]
    · simp [b64encode, Spec.b64BodyVal, p2, q2]; omega
    · simp [b64encode, Spec.noSpaces, p4, q4]
    · simp [b64encode, Spec.noDoubleSpace, p4, q4]
    · simp [b64encode, p4]
    · simp [b64encode]
  | case3 a b =>
    intro h
    have ha : a < 256 := h a (by simp)
    have hb : b < 256 := h b (by simp)
    obtain ⟨p1, p2, p3, p4, _⟩ := b64Char_spec (n := a / 4) (by omega)
    obtain ⟨q1, q2, q3, q4, _⟩ := b64Char_spec (n := a % 4 * 16 + b / 16) (by omega)
    obtain ⟨r1, r2, r3, r4, _⟩ := b64Char_spec (n := b % 16 * 4) (by omega)
    have r5 := b64Char_16 ⟨b % 16, by omega⟩
    simp only at r5
    have r3' : (b64Char (b % 16 * 4) == '=') = false := by simpa using r3
    refine ⟨?_, ?_, ?_, ?_, ?_, ?_⟩
    · simp [b64encode, Spec.b64Body, p1, q1, r5, r3']
    · simp [b64encode, Spec.b64BodyVal, p2, q2, r2, r3']; omega
    · simp [b64encode, Spec.noSpaces, p4, q4, r4]
    · simp [b64encode, Spec.noDoubleSpace, p4, q4, r4]
    · simp [b64encode, p4]
    · simp [b64encode]
  | case4 a b c r ih =>
    intro h
    have ha : a < 256 := h a (by simp)
    have hb : b < 256 := h b (by simp)
    have hc : c < 256 := h c (by simp)
    obtain ⟨i1, i2, i3, i4, i5, i6⟩ := ih (fun x hx => h x (by simp [hx]))
    obtain ⟨p1, p2, p3, p4, _⟩ := b64Char_spec (n := a / 4) (by omega)
    obtain ⟨q1, q2, q3, q4, _⟩ := b64Char_spec (n := a % 4 * 16 + b / 16) (by omega)
    obtain ⟨r1, r2, r3, r4, _⟩ := b64Char_spec (n := b % 16 * 4 + c / 64) (by omega)
    obtain ⟨s1, s2, s3, s4, _⟩ := b64Char_spec (n := c % 64) (by omega)
    have s3' : (b64Char (c % 64) == '=') = false := by simpa using s3
    refine ⟨?_, ?_, ?_, ?_, ?_, ?_⟩
    · simp [b64encode, Spec.b64Body, p1, q1, r1, s1, s3', i1]
    · simp only [b64encode, Spec.b64BodyVal, s3', Bool.false_eq_true, if_false, p2, q2, r2, s2, i2]
      congr 1
      · omega
      · congr 1
        · omega
        · congr 1; omega
    · have : Spec.noSpaces (b64encode (a :: b :: c :: r)) =
          b64Char (a / 4) :: b64Char (a % 4 * 16 + b / 16) :: b64Char (b % 16 * 4 + c / 64) :: b64Char (c % 64) ::
            Spec.noSpaces (b64encode r) := by
        simp [b64encode, Spec.noSpaces, p4, q4, r4, s4]
      rw [this, i3, b64encode]
    · cases hr : b64encode r with
      | nil => simp [b64encode, hr, Spec.noDoubleSpace, p4, q4, r4]
      | cons x xs =>
        rw [hr] at i4
        simp [b64encode, hr, Spec.noDoubleSpace, p4, q4, r4, s4, i4]
    · simp [b64encode, p4]
    · cases hr : b64encode r with
      | nil => simp [b64encode, hr, s4]
      | cons x xs =>
        rw [hr] at i6
        simpa [b64encode, hr, List.getLast?_cons_cons] using i6

/-- what `b64encode` writes is in the XSD lexical space and denotes the bytes encoded -/
theorem b64Lex_b64encode {b : List Nat} (h : ∀ x ∈ b, x < 256) :
    Spec.b64Lex (b64encode b) = true ∧ Spec.b64ValOf (b64encode b) = b := by
  obtain ⟨h1, h2, h3, h4, h5, h6⟩ := b64encode_body b h
  constructor
  · simp only [Spec.b64Lex, Bool.and_eq_true, h3, h1, h4, and_true]
    exact ⟨by simpa using h5, by simpa using h6⟩
  · simp only [Spec.b64ValOf, h3, h2]

/-- `b64decode(b64encode(b)) = b` -/
theorem b64decode_b64encode {b : List Nat} (h : ∀ x ∈ b, x < 256) : b64decode (b64encode b) = some b := by
  obtain ⟨h1, h2⟩ := b64Lex_b64encode h
  rw [b64decode_xsd h1, h2]

/-! ### decoded values are bytes -/

theorem b64Val_lt {c : Char} {v : Nat} (h : b64Val c = some v) : v < 64 := by
  unfold b64Val at h
  split at h
  · rename_i hd; simp at hd; cases h; omega
  · split at h
    · rename_i hd; simp at hd; cases h; omega
    · split at h
      · rename_i hd; rw [isDigit_iff] at hd; cases h; omega
      · split at h
        · cases h; omega
        · split at h
          · cases h; omega
          · cases h

theorem a2bLoop_lt (s : Str) : ∀ q l p b, q ≤ 3 → l < 64 → (q = 2 → l < 16) → (q = 3 → l < 4) →
    a2bLoop q l p s = some b → ∀ x ∈ b, x < 256 := by
  induction s with
  | nil =>
    intro q l p b _ _ _ _ h
    simp only [a2bLoop] at h
    split at h
    · cases h; intro x hx; cases hx
    · cases h
  | cons c cs ih =>
    intro q l p b hq hl h2 h3 h
    simp only [a2bLoop] at h
    split at h
    · split at h
      · split at h
        · cases h; intro x hx; cases hx
        · exact ih _ _ _ _ hq hl h2 h3 h
      · exact ih _ _ _ _ hq hl h2 h3 h
    · split at h
      · exact ih _ _ _ _ hq hl h2 h3 h
      · rename_i v hv
        have hv64 := b64Val_lt hv
        split at h
        · exact ih 1 v 0 b (by omega) hv64 (by intro e; cases e) (by intro e; cases e) h
        · split at h
          · obtain ⟨t, ht, rfl⟩ := Option.map_eq_some_iff.mp h
            have := ih 2 (v % 16) 0 t (by omega) (by omega) (by intro _; omega) (by intro e; cases e) ht
            intro x hx
            rcases List.mem_cons.mp hx with rfl | hx
            · omega
            · exact this x hx
          · split at h
            · rename_i hq2
              have hq2' : q = 2 := by simpa using hq2
              obtain ⟨t, ht, rfl⟩ := Option.map_eq_some_iff.mp h
              have := ih 3 (v % 4) 0 t (by omega) (by omega) (by intro e; cases e) (by intro _; omega) ht
              have hl16 := h2 hq2'
              intro x hx
              rcases List.mem_cons.mp hx with rfl | hx
              · omega
              · exact this x hx
            · rename_i hq0 hq1 hq2
              obtain ⟨t, ht, rfl⟩ := Option.map_eq_some_iff.mp h
              have := ih 0 0 0 t (by omega) (by omega) (by intro e; cases e) (by intro e; cases e) ht
              intro x hx
              rcases List.mem_cons.mp hx with rfl | hx
              · have hq0' : q ≠ 0 := by simpa using hq0
                have hq1' : q ≠ 1 := by simpa using hq1
                have hq2' : q ≠ 2 := by simpa using hq2
                have := h3 (by omega)
                omega
              · exact this x hx

theorem b64decode_lt {s : Str} {b : List Nat} (h : b64decode s = some b) : ∀ x ∈ b, x < 256 := by
  unfold b64decode at h
  split at h
  · exact a2bLoop_lt s 0 0 0 b (by omega) (by omega) (by intro e; cases e) (by intro e; cases e) h
  · cases h

end RV.C09

