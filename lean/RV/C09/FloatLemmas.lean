import RV.C09.Lemmas
import RV.C09.FloatModel
/-
  C09 — lemmas about the float model: what `_float_to_xsd` writes is in the lexical space of xsd:double, and
  reading it back with `float(str)` gives the same double (on top of the defining property of `repr`'s digits,
  which the model checks by search: `readsBack`).
-/
namespace RV.C09

/-! ### small facts -/

theorem rstrip0_spec : ∀ x : Str, ∃ z, x = rstrip0 x ++ List.replicate z '0' := by
  intro x
  induction x with
  | nil => exact ⟨0, rfl⟩
  | cons c cs ih =>
    obtain ⟨z, hz⟩ := ih
    simp only [rstrip0]
    split
    · rename_i hr
      rw [hr] at hz
      split
      · rename_i hc
        have hc' : c = '0' := by simpa using hc
        refine ⟨z + 1, ?_⟩
        rw [hz, hc']
        simp [List.replicate_succ]
      · exact ⟨z, by rw [hz]; simp⟩
    · rename_i hr
      exact ⟨z, by rw [List.cons_append, ← hz]⟩

theorem allDigits_rstrip0 {x : Str} (h : allDigits x = true) : allDigits (rstrip0 x) = true := by
  obtain ⟨z, hz⟩ := rstrip0_spec x
  rw [hz, allDigits_append, Bool.and_eq_true] at h
  exact h.1

theorem rstrip0_ne_nil {x : Str} (h : num x ≠ 0) : rstrip0 x ≠ [] := by
  obtain ⟨z, hz⟩ := rstrip0_spec x
  intro e
  rw [e] at hz
  rw [hz] at h
  simp [num_replicate_zero] at h

theorem notExp_of_digit {c : Char} (h : c.isDigit = true) : Spec.notExpChar c = true := by
  have h1 : c ≠ 'e' := digit_ne h (by decide)
  have h2 : c ≠ 'E' := digit_ne h (by decide)
  simp [Spec.notExpChar, h1, h2]

theorem takeWhile_notExp {x : Str} (hx : ∀ c ∈ x, Spec.notExpChar c = true) (y : Str) :
    (x ++ 'e' :: y).takeWhile Spec.notExpChar = x ∧ (x ++ 'e' :: y).dropWhile Spec.notExpChar = 'e' :: y := by
  induction x with
  | nil => simp [Spec.notExpChar]
  | cons c cs ih =>
    have hc := hx c (by simp)
    obtain ⟨i1, i2⟩ := ih (fun d hd => hx d (by simp [hd]))
    simp [List.takeWhile, List.dropWhile, hc, i1, i2]

theorem takeWhile_notExp_all {x : Str} (hx : ∀ c ∈ x, Spec.notExpChar c = true) :
    x.takeWhile Spec.notExpChar = x ∧ x.dropWhile Spec.notExpChar = [] := by
  induction x with
  | nil => simp
  | cons c cs ih =>
    have hc := hx c (by simp)
    obtain ⟨i1, i2⟩ := ih (fun d hd => hx d (by simp [hd]))
    simp [List.takeWhile, List.dropWhile, hc, i1, i2]

theorem digitsW2_lex (n : Nat) : Spec.nonEmptyDigits (digitsW 2 n) = true := by
  rw [nonEmptyDigits_iff]
  refine ⟨?_, allDigits_zfill (allDigits_digits n)⟩
  intro e
  have := (zfill_length_ge 2 (digits n)).1
  rw [digitsW] at e
  rw [e] at this
  simp at this

/-- an unsigned numeral `mant [e±XX]` -/
theorem numeralLex_exp {mant : Str} (hm : ∀ c ∈ mant, Spec.notExpChar c = true) (hb : Spec.decBodyLex mant = true)
    (sg : Char) (hs : sg = '+' ∨ sg = '-') (n : Nat) :
    Spec.numeralLex (mant ++ 'e' :: sg :: digitsW 2 n) = true := by
  obtain ⟨h1, h2⟩ := takeWhile_notExp hm (sg :: digitsW 2 n)
  simp only [Spec.numeralLex, h1, h2, hb, Bool.true_and]
  rcases hs with rfl | rfl <;> simp [Spec.expLex, digitsW2_lex]

theorem numeralLex_plain {mant : Str} (hm : ∀ c ∈ mant, Spec.notExpChar c = true) (hb : Spec.decBodyLex mant = true) :
    Spec.numeralLex mant = true := by
  obtain ⟨h1, h2⟩ := takeWhile_notExp_all hm
  simp [Spec.numeralLex, h1, h2, hb, Spec.expLex]

theorem notExp_mem_digits {x : Str} (h : allDigits x = true) : ∀ c ∈ x, Spec.notExpChar c = true :=
  fun c hc => notExp_of_digit (mem_allDigits h c hc)

/-- the unsigned body of `fmtRepr` is an XSD numeral -/
theorem numeralLex_fmtRepr {ds : Str} (hne : ds ≠ []) (hd : allDigits ds = true) (decpt : Int) :
    Spec.numeralLex (fmtRepr false ds decpt) = true := by
  simp only [fmtRepr, Bool.false_eq_true, if_false]
  split
  · -- exponent form
    have hsg : ((if decpt - 1 < 0 then '-' else '+') = '+' ∨ (if decpt - 1 < 0 then '-' else '+') = '-') := by
      split <;> simp
    cases ds with
    | nil => exact absurd rfl hne
    | cons d r =>
      cases r with
      | nil =>
        exact numeralLex_exp (notExp_mem_digits hd) (decBodyLex_int hd (by simp)) _ hsg _
      | cons d2 r2 =>
        have hd1 : allDigits [d] = true := by
          rw [allDigits_cons, Bool.and_eq_true] at hd; simp [allDigits_cons, hd.1, allDigits]
        have hd2 : allDigits (d2 :: r2) = true := by
          rw [allDigits_cons, Bool.and_eq_true] at hd; exact hd.2
        have hb := decBodyLex_point hd1 hd2 (by simp)
        have hm : ∀ c ∈ [d] ++ '.' :: (d2 :: r2), Spec.notExpChar c = true := by
          intro c hc
          rcases List.mem_append.mp hc with h | h
          · exact notExp_mem_digits hd1 c h
          · rcases List.mem_cons.mp h with rfl | h
            · decide
            · exact notExp_mem_digits hd2 c h
        exact numeralLex_exp hm hb _ hsg _
  · split
    · -- 0.000ddd
      have hz : allDigits (List.replicate (-decpt).toNat '0' ++ ds) = true := by
        rw [allDigits_append, allDigits_replicate_zero, hd]; rfl
      have h0 : allDigits ['0'] = true := by decide
      have hb := decBodyLex_point h0 hz (by simp)
      have hm : ∀ c ∈ ['0'] ++ '.' :: (List.replicate (-decpt).toNat '0' ++ ds), Spec.notExpChar c = true := by
        intro c hc
        rcases List.mem_append.mp hc with h | h
        · exact notExp_mem_digits h0 c h
        · rcases List.mem_cons.mp h with rfl | h
          · decide
          · exact notExp_mem_digits hz c h
      exact numeralLex_plain hm hb
    · split
      · -- ddd000.0
        have hz : allDigits (ds ++ List.replicate (decpt.toNat - ds.length) '0') = true := by
          rw [allDigits_append, allDigits_replicate_zero, hd]; rfl
        have h0 : allDigits ['0'] = true := by decide
        have hne' : ds ++ List.replicate (decpt.toNat - ds.length) '0' ≠ [] := by
          intro e; exact hne (List.append_eq_nil_iff.mp e).1
        have hb := decBodyLex_point hz h0 hne'
        have hm : ∀ c ∈ (ds ++ List.replicate (decpt.toNat - ds.length) '0') ++ '.' :: ['0'], Spec.notExpChar c = true := by
          intro c hc
          rcases List.mem_append.mp hc with h | h
          · exact notExp_mem_digits hz c h
          · rcases List.mem_cons.mp h with rfl | h
            · decide
            · exact notExp_mem_digits h0 c h
        have := numeralLex_plain hm hb
        simpa [List.append_assoc] using this
      · -- dd.ddd
        have h1 := allDigits_take hd decpt.toNat
        have h2 := allDigits_drop hd decpt.toNat
        have hne' : ds.take decpt.toNat ≠ [] := by
          rename_i hnn hpos _
          have : 0 < decpt.toNat := by omega
          cases ds with
          | nil => exact absurd rfl hne
          | cons a b =>
            obtain ⟨k, hk⟩ : ∃ k, decpt.toNat = k + 1 := ⟨decpt.toNat - 1, by omega⟩
            rw [hk]; simp
        have hb := decBodyLex_point h1 h2 hne'
        have hm : ∀ c ∈ ds.take decpt.toNat ++ '.' :: ds.drop decpt.toNat, Spec.notExpChar c = true := by
          intro c hc
          rcases List.mem_append.mp hc with h | h
          · exact notExp_mem_digits h1 c h
          · rcases List.mem_cons.mp h with rfl | h
            · decide
            · exact notExp_mem_digits h2 c h
        exact numeralLex_plain hm hb

theorem doubleLex_fmtRepr (neg : Bool) {ds : Str} (hne : ds ≠ []) (hd : allDigits ds = true) (decpt : Int) :
    Spec.doubleLex (fmtRepr neg ds decpt) = true := by
  have hb := numeralLex_fmtRepr hne hd decpt
  cases neg with
  | true =>
    have : fmtRepr true ds decpt = '-' :: fmtRepr false ds decpt := by simp [fmtRepr]
    rw [this]
    simp [Spec.doubleLex, hb]
  | false =>
    -- the body starts with a digit or '0', never with a sign
    have hhead : ∃ c r, fmtRepr false ds decpt = c :: r ∧ c.isDigit = true := by
      cases ds with
      | nil => exact absurd rfl hne
      | cons d r =>
        have hdd : d.isDigit = true := by rw [allDigits_cons, Bool.and_eq_true] at hd; exact hd.1
        simp only [fmtRepr, Bool.false_eq_true, if_false]
        split
        · cases r with
          | nil => exact ⟨d, _, rfl, hdd⟩
          | cons _ _ => exact ⟨d, _, rfl, hdd⟩
        · split
          · exact ⟨'0', _, rfl, by decide⟩
          · split
            · exact ⟨d, r ++ (List.replicate (decpt.toNat - (d :: r).length) '0' ++ ['.', '0']), by simp, hdd⟩
            · rename_i h1 h2 h3
              obtain ⟨k, hk⟩ : ∃ k, decpt.toNat = k + 1 := ⟨decpt.toNat - 1, by omega⟩
              exact ⟨d, List.take k r ++ '.' :: List.drop (k + 1) (d :: r), by rw [hk]; simp, hdd⟩
    obtain ⟨c, r, hcr, hc⟩ := hhead
    rw [hcr] at hb ⊢
    have h1 : c ≠ '+' := digit_ne hc (by decide)
    have h2 : c ≠ '-' := digit_ne hc (by decide)
    unfold Spec.doubleLex
    split
    · rename_i heq; cases heq; exact absurd rfl h1
    · rename_i heq; cases heq; exact absurd rfl h2
    · simp [hb]

/-! ### the digits found by the search -/

theorem tryDigits_spec {v : FVal} {neg : Bool} {P Q : Nat} {s : Int} {ds : Str} {decpt : Int}
    (h : tryDigits v neg P Q s = some (ds, decpt)) :
    ∃ D, readsBack v neg D s = true ∧ ds = rstrip0 (digits D) ∧ decpt = s + (ndigits D : Int) := by
  unfold tryDigits at h
  split at h
  · rename_i hr; cases h; exact ⟨_, hr, rfl, rfl⟩
  · split at h
    · rename_i hr; cases h; exact ⟨_, hr, rfl, rfl⟩
    · cases h

theorem shortestFrom_spec (v : FVal) (neg : Bool) (P Q : Nat) (t : Int) :
    ∀ fuel k ds decpt, shortestFrom v neg P Q t fuel k = some (ds, decpt) →
      ∃ D s, readsBack v neg D s = true ∧ ds = rstrip0 (digits D) ∧ decpt = s + (ndigits D : Int) := by
  intro fuel
  induction fuel with
  | zero => intro k ds decpt h; simp [shortestFrom] at h
  | succ f ih =>
    intro k ds decpt h
    simp only [shortestFrom] at h
    split at h
    · rename_i r hr
      cases h
      obtain ⟨D, h1, h2, h3⟩ := tryDigits_spec hr
      exact ⟨D, _, h1, h2, h3⟩
    · exact ih _ _ _ h

theorem decRat_zero (s : Int) : decRat 0 s = 0 := by
  unfold decRat
  split <;> simp

theorem roundDec_zero (neg : Bool) (s : Int) : roundDec neg 0 s = .fin neg 0 0 := by
  simp [roundDec, decRat_zero, roundRat, roundPQ]

/-- what `_float_to_xsd` writes is in the lexical space of xsd:double -/
theorem doubleLex_floatToXsd {v : FVal} {s : Str} (h : floatToXsd v = some s) : Spec.doubleLex s = true := by
  cases v with
  | nan => simp only [floatToXsd, Option.some.injEq] at h; subst h; decide +kernel
  | inf neg => cases neg <;> (simp only [floatToXsd, Option.some.injEq] at h; subst h; decide +kernel)
  | fin neg m e =>
    simp only [floatToXsd] at h
    by_cases hm : m = 0
    · rw [if_pos hm] at h
      cases h
      exact doubleLex_fmtRepr neg (by simp) (by decide) 1
    · rw [if_neg hm] at h
      obtain ⟨⟨ds, decpt⟩, hs, rfl⟩ := Option.map_eq_some_iff.mp h
      obtain ⟨D, sx, hrb, rfl, _⟩ := shortestFrom_spec _ _ _ _ _ _ _ _ _ hs
      have hD : D ≠ 0 := by
        intro e0
        subst e0
        simp only [readsBack, roundDec_zero, beq_iff_eq] at hrb
        injection hrb with _ h2 _
        exact hm h2.symm
      exact doubleLex_fmtRepr neg (rstrip0_ne_nil (by rw [num_digits]; exact hD))
        (allDigits_rstrip0 (allDigits_digits D)) _


/-! ### reading back what `_float_to_xsd` writes -/

theorem num_lead0 (k : Nat) (x : Str) : num (List.replicate k '0' ++ x) = num x := by
  rw [num_append, num_replicate_zero]; simp

theorem pyExp_e {sg : Char} (hs : sg = '+' ∨ sg = '-') {X : Str} (hX : allDigits X = true) (hne : X ≠ []) :
    pyExp ('e' :: sg :: X) = some (if sg = '-' then -(num X : Int) else (num X : Int)) := by
  have he : X.isEmpty = false := by cases X with | nil => exact absurd rfl hne | cons _ _ => rfl
  rcases hs with rfl | rfl <;> simp [pyExp, he, hX]

/-- `d e±XX` -/
theorem pyDecBody_exp_int (neg : Bool) {ip : Str} (hi : allDigits ip = true) (hne : ip ≠ [])
    {sg : Char} (hs : sg = '+' ∨ sg = '-') {X : Str} (hX : allDigits X = true) (hXne : X ≠ []) :
    pyDecBody neg (ip ++ 'e' :: sg :: X) =
      some (.dec neg (num ip) (if sg = '-' then -(num X : Int) else (num X : Int))) := by
  have h1 : takeDigits (ip ++ 'e' :: sg :: X) = ip := takeDigits_append hi (by intro c r h; cases h; decide)
  have h2 : dropDigits (ip ++ 'e' :: sg :: X) = 'e' :: sg :: X := dropDigits_append hi (by intro c r h; cases h; decide)
  have he : ip.isEmpty = false := by cases ip with | nil => exact absurd rfl hne | cons _ _ => rfl
  unfold pyDecBody
  simp only [h1, h2, he]
  simp [pyExp_e hs hX hXne]

/-- `d.ddd e±XX` -/
theorem pyDecBody_exp_point (neg : Bool) {ip fp : Str} (hi : allDigits ip = true) (hf : allDigits fp = true) (hne : ip ≠ [])
    {sg : Char} (hs : sg = '+' ∨ sg = '-') {X : Str} (hX : allDigits X = true) (hXne : X ≠ []) :
    pyDecBody neg (ip ++ '.' :: (fp ++ 'e' :: sg :: X)) =
      some (.dec neg (num (ip ++ fp)) ((if sg = '-' then -(num X : Int) else (num X : Int)) - fp.length)) := by
  have h1 : takeDigits (ip ++ '.' :: (fp ++ 'e' :: sg :: X)) = ip := takeDigits_append hi (by intro c r h; cases h; decide)
  have h2 : dropDigits (ip ++ '.' :: (fp ++ 'e' :: sg :: X)) = '.' :: (fp ++ 'e' :: sg :: X) :=
    dropDigits_append hi (by intro c r h; cases h; decide)
  have h3 : takeDigits (fp ++ 'e' :: sg :: X) = fp := takeDigits_append hf (by intro c r h; cases h; decide)
  have h4 : dropDigits (fp ++ 'e' :: sg :: X) = 'e' :: sg :: X := dropDigits_append hf (by intro c r h; cases h; decide)
  have he : ip.isEmpty = false := by cases ip with | nil => exact absurd rfl hne | cons _ _ => rfl
  unfold pyDecBody
  simp only [h1, h2, h3, h4, he, pyExp_e hs hX hXne]
  simp

theorem pow10_ne (a : Nat) : 10 ^ a ≠ 0 := Nat.pos_iff_ne_zero.mp (Nat.pow_pos (by decide))
theorem decRat_scale (c k : Nat) (e : Int) : decRat (c * 10 ^ k) e = decRat c (e + k) := by
  unfold decRat
  by_cases h1 : 0 ≤ e
  · have h2 : 0 ≤ e + (k : Int) := by omega
    rw [if_pos h1, if_pos h2]
    have : (e + (k : Int)).toNat = k + e.toNat := by omega
    rw [this, Nat.pow_add, Nat.mul_assoc]
  · rw [if_neg h1]
    by_cases h2 : 0 ≤ e + (k : Int)
    · rw [if_pos h2]
      rw [Rat.mkRat_eq_iff (pow10_ne _) (by decide)]
      have : k = (e + (k : Int)).toNat + (-e).toNat := by omega
      generalize (e + (k : Int)).toNat = a at this
      generalize (-e).toNat = b at this
      subst this
      have : c * 10 ^ (a + b) * 1 = c * 10 ^ a * 10 ^ b := by simp [Nat.pow_add, Nat.mul_assoc]
      exact_mod_cast this
    · rw [if_neg h2]
      rw [Rat.mkRat_eq_iff (pow10_ne _) (pow10_ne _)]
      have : (-e).toNat = k + (-(e + (k : Int))).toNat := by omega
      generalize (-(e + (k : Int))).toNat = a at this
      generalize (-e).toNat = b at this
      subst this
      have : c * 10 ^ k * 10 ^ a = c * 10 ^ (k + a) := by simp [Nat.pow_add, Nat.mul_assoc]
      exact_mod_cast this

theorem num_digitsW2 (n : Nat) : num (digitsW 2 n) = n := by rw [digitsW, num_zfill, num_digits]
theorem digitsW2_ne (n : Nat) : digitsW 2 n ≠ [] := by
  intro e
  have := (zfill_length_ge 2 (digits n)).1
  rw [digitsW] at e
  rw [e] at this
  simp at this

/-- `float(str)`'s numeral parser on every layout of `format_float_short`: the decimal the digits denote -/
theorem pyDecBody_fmtRepr (neg : Bool) {ds : Str} (hne : ds ≠ []) (hd : allDigits ds = true) (decpt : Int) :
    ∃ c e, pyDecBody neg (fmtRepr false ds decpt) = some (.dec neg c e) ∧
      decRat c e = decRat (num ds) (decpt - ds.length) := by
  simp only [fmtRepr, Bool.false_eq_true, if_false]
  split
  · -- exponent form
    have hsg : ((if decpt - 1 < 0 then '-' else '+') = '+' ∨ (if decpt - 1 < 0 then '-' else '+') = '-') := by
      split <;> simp
    have hX : allDigits (digitsW 2 (decpt - 1).natAbs) = true := allDigits_zfill (allDigits_digits _)
    have hXne := digitsW2_ne (decpt - 1).natAbs
    have hval : (if (if decpt - 1 < 0 then '-' else '+') = '-' then -((num (digitsW 2 (decpt - 1).natAbs) : Nat) : Int)
        else ((num (digitsW 2 (decpt - 1).natAbs) : Nat) : Int)) = decpt - 1 := by
      rw [num_digitsW2]
      by_cases h : decpt - 1 < 0 <;> simp [h] <;> omega
    cases ds with
    | nil => exact absurd rfl hne
    | cons d r =>
      cases r with
      | nil =>
        refine ⟨_, _, pyDecBody_exp_int neg hd (by simp) hsg hX hXne, ?_⟩
        rw [hval]; simp
      | cons d2 r2 =>
        have hd1 : allDigits [d] = true := by
          rw [allDigits_cons, Bool.and_eq_true] at hd; simp [hd.1, allDigits]
        have hd2 : allDigits (d2 :: r2) = true := by
          rw [allDigits_cons, Bool.and_eq_true] at hd; exact hd.2
        have := pyDecBody_exp_point neg hd1 hd2 (by simp) hsg hX hXne
        refine ⟨_, _, this, ?_⟩
        rw [hval]
        have : decpt - 1 - ((d2 :: r2).length : Int) = decpt - ((d :: d2 :: r2).length : Int) := by
          simp only [List.length_cons]; omega
        rw [this]; rfl
  · split
    · -- 0.000ddd
      rename_i h1 h2
      have hz : allDigits (List.replicate (-decpt).toNat '0' ++ ds) = true := by
        rw [allDigits_append, allDigits_replicate_zero, hd]; rfl
      have h0 : allDigits ['0'] = true := by decide
      have := pyDecBody_point neg h0 hz (Or.inl (by simp))
      refine ⟨_, _, this, ?_⟩
      have e1 : num (['0'] ++ (List.replicate (-decpt).toNat '0' ++ ds)) = num ds := by
        have : ['0'] ++ (List.replicate (-decpt).toNat '0' ++ ds) = List.replicate ((-decpt).toNat + 1) '0' ++ ds := by
          simp [List.replicate_succ]
        rw [this, num_lead0]
      have e2 : -((List.replicate (-decpt).toNat '0' ++ ds).length : Int) = decpt - (ds.length : Int) := by
        simp only [List.length_append, List.length_replicate]; omega
      rw [e1, e2]
    · split
      · -- ddd000.0
        rename_i h1 h2 h3
        have hz : allDigits (ds ++ List.replicate (decpt.toNat - ds.length) '0') = true := by
          rw [allDigits_append, allDigits_replicate_zero, hd]; rfl
        have h0 : allDigits ['0'] = true := by decide
        have := pyDecBody_point neg hz h0 (Or.inr (by simp))
        refine ⟨_, _, this, ?_⟩
        have e1 : num ((ds ++ List.replicate (decpt.toNat - ds.length) '0') ++ ['0']) =
            num ds * 10 ^ (decpt.toNat - ds.length + 1) := by
          have : (ds ++ List.replicate (decpt.toNat - ds.length) '0') ++ ['0'] =
              ds ++ List.replicate (decpt.toNat - ds.length + 1) '0' := by
            rw [List.append_assoc]; congr 1
            rw [List.replicate_succ']
          rw [this, num_append, num_replicate_zero]; simp
        rw [e1, decRat_scale]
        congr 1
        simp only [List.length_cons, List.length_nil]
        omega
      · -- dd.ddd
        rename_i h1 h2 h3
        have t1 := allDigits_take hd decpt.toNat
        have t2 := allDigits_drop hd decpt.toNat
        have hne' : ds.take decpt.toNat ≠ [] := by
          cases ds with
          | nil => exact absurd rfl hne
          | cons a b =>
            obtain ⟨k, hk⟩ : ∃ k, decpt.toNat = k + 1 := ⟨decpt.toNat - 1, by omega⟩
            rw [hk]; simp
        have := pyDecBody_point neg t1 t2 (Or.inl hne')
        refine ⟨_, _, this, ?_⟩
        rw [List.take_append_drop]
        congr 1
        simp only [List.length_drop]
        omega

/-- characters of a printed float -/
def fchar (c : Char) : Prop := c.isDigit = true ∨ c = '.' ∨ c = 'e' ∨ c = '+' ∨ c = '-'

theorem fchar_props {c : Char} (h : fchar c) : isWs c = false ∧ c ≠ '_' := by
  rcases h with h | rfl | rfl | rfl | rfl
  · exact ⟨isWs_of_digit h, digit_ne h (by decide)⟩
  all_goals decide

theorem underscoresOk_none {b : Str} (h : ∀ c ∈ b, c ≠ '_') : ∀ p, p ≠ some '_' → underscoresOk p b = true := by
  induction b with
  | nil => intro p hp; simp [underscoresOk, hp]
  | cons c cs ih =>
    intro p hp
    have hc : c ≠ '_' := h c (by simp)
    have := ih (fun d hd => h d (by simp [hd])) (some c) (by simp [hc])
    simp [underscoresOk, hc, hp, this]

theorem lowerC_digit {c : Char} (h : c.isDigit = true) : lowerC c = c := by
  rw [isDigit_iff] at h
  unfold lowerC
  have : ¬ (65 ≤ c.toNat ∧ c.toNat ≤ 90) := by omega
  simp only [Bool.and_eq_true, decide_eq_true_eq, this, if_false]

/-- `float(str)` on a printed body: no white space, no underscores, not a special value -/
theorem pyFloat_body (neg : Bool) {c0 : Char} {r0 : Str} (h0 : c0.isDigit = true) (hch : ∀ c ∈ c0 :: r0, fchar c) :
    pyFloat (if neg then '-' :: c0 :: r0 else c0 :: r0) = decToFloat (pyDecBody neg (c0 :: r0)) := by
  have hws : ∀ c ∈ c0 :: r0, isWs c = false := fun c hc => (fchar_props (hch c hc)).1
  have hus : ∀ c ∈ c0 :: r0, c ≠ '_' := fun c hc => (fchar_props (hch c hc)).2
  have hi : c0 ≠ 'i' := digit_ne h0 (by decide)
  have hn : c0 ≠ 'n' := digit_ne h0 (by decide)
  have hp : c0 ≠ '+' := digit_ne h0 (by decide)
  have hm : c0 ≠ '-' := digit_ne h0 (by decide)
  have hlow : ((c0 :: r0).map lowerC == ['i', 'n', 'f']) = false ∧
      ((c0 :: r0).map lowerC == ['i', 'n', 'f', 'i', 'n', 'i', 't', 'y']) = false ∧
      ((c0 :: r0).map lowerC == ['n', 'a', 'n']) = false := by
    simp [List.map, lowerC_digit h0, hi, hn]
  have huo := underscoresOk_none hus none (by simp)
  have hds : dropSign (c0 :: r0) = c0 :: r0 := by
    unfold dropSign
    split
    · rename_i heq; cases heq; exact absurd rfl hm
    · rename_i heq; cases heq; exact absurd rfl hp
    · rfl
  cases neg with
  | false =>
    simp only [Bool.false_eq_true, if_false]
    unfold pyFloat
    rw [strip_noWs hws]
    have hneg : ((c0 :: r0).head? == some '-') = false := by simp [hm]
    simp only [hds, hneg, hlow.1, hlow.2.1, hlow.2.2, huo, dropUnderscores_id hus]
    simp
  | true =>
    simp only [if_true]
    unfold pyFloat
    rw [strip_noWs (by intro d hd; rcases List.mem_cons.mp hd with rfl | hd; decide; exact hws d hd)]
    have hneg : (('-' :: c0 :: r0).head? == some '-') = true := by simp
    have hds' : dropSign ('-' :: c0 :: r0) = c0 :: r0 := rfl
    simp only [hds', hneg, hlow.1, hlow.2.1, hlow.2.2, huo, dropUnderscores_id hus]
    simp

theorem fchar_fmtRepr {ds : Str} (hd : allDigits ds = true) (decpt : Int) : ∀ c ∈ fmtRepr false ds decpt, fchar c := by
  have hdig : ∀ {x : Str}, allDigits x = true → ∀ c ∈ x, fchar c := fun hx c hc => Or.inl (mem_allDigits hx c hc)
  intro c hc
  simp only [fmtRepr, Bool.false_eq_true, if_false] at hc
  split at hc
  · rcases List.mem_append.mp hc with h | h
    · -- mantissa
      cases ds with
      | nil => simp at h
      | cons d r =>
        cases r with
        | nil => exact hdig hd c h
        | cons d2 r2 =>
          rcases List.mem_cons.mp h with rfl | h
          · exact hdig hd _ (by simp)
          · rcases List.mem_cons.mp h with rfl | h
            · exact Or.inr (Or.inl rfl)
            · exact hdig hd c (by simp [h])
    · rcases List.mem_cons.mp h with rfl | h
      · exact Or.inr (Or.inr (Or.inl rfl))
      · rcases List.mem_cons.mp h with rfl | h
        · split
          · exact Or.inr (Or.inr (Or.inr (Or.inr rfl)))
          · exact Or.inr (Or.inr (Or.inr (Or.inl rfl)))
        · exact hdig (allDigits_zfill (allDigits_digits _)) c h
  · split at hc
    · rcases List.mem_cons.mp hc with rfl | h
      · exact Or.inl (by decide)
      · rcases List.mem_cons.mp h with rfl | h
        · exact Or.inr (Or.inl rfl)
        · rcases List.mem_append.mp h with h | h
          · exact hdig (allDigits_replicate_zero _) c h
          · exact hdig hd c h
    · split at hc
      · rcases List.mem_append.mp hc with h | h
        · rcases List.mem_append.mp h with h | h
          · exact hdig hd c h
          · exact hdig (allDigits_replicate_zero _) c h
        · rcases List.mem_cons.mp h with rfl | h
          · exact Or.inr (Or.inl rfl)
          · exact hdig (show allDigits ['0'] = true by decide) c h
      · rcases List.mem_append.mp hc with h | h
        · exact hdig (allDigits_take hd _) c h
        · rcases List.mem_cons.mp h with rfl | h
          · exact Or.inr (Or.inl rfl)
          · exact hdig (allDigits_drop hd _) c h

theorem fmtRepr_head {ds : Str} (hne : ds ≠ []) (hd : allDigits ds = true) (decpt : Int) :
    ∃ c r, fmtRepr false ds decpt = c :: r ∧ c.isDigit = true := by
  cases ds with
  | nil => exact absurd rfl hne
  | cons d r =>
    have hdd : d.isDigit = true := by rw [allDigits_cons, Bool.and_eq_true] at hd; exact hd.1
    simp only [fmtRepr, Bool.false_eq_true, if_false]
    split
    · cases r with
      | nil => exact ⟨d, _, rfl, hdd⟩
      | cons _ _ => exact ⟨d, _, rfl, hdd⟩
    · split
      · exact ⟨'0', _, rfl, by decide⟩
      · split
        · exact ⟨d, r ++ (List.replicate (decpt.toNat - (d :: r).length) '0' ++ ['.', '0']), by simp, hdd⟩
        · rename_i h1 h2 h3
          obtain ⟨k, hk⟩ : ∃ k, decpt.toNat = k + 1 := ⟨decpt.toNat - 1, by omega⟩
          exact ⟨d, List.take k r ++ '.' :: List.drop (k + 1) (d :: r), by rw [hk]; simp, hdd⟩

/-- `float(str)` of the printed digits is the double nearest to the decimal they denote -/
theorem pyFloat_fmtRepr (neg : Bool) {ds : Str} (hne : ds ≠ []) (hd : allDigits ds = true) (decpt : Int) :
    pyFloat (fmtRepr neg ds decpt) = some (roundRat neg (decRat (num ds) (decpt - ds.length))) := by
  obtain ⟨c0, r0, hcr, hc0⟩ := fmtRepr_head hne hd decpt
  have hsplit : fmtRepr neg ds decpt = if neg then '-' :: c0 :: r0 else c0 :: r0 := by
    rw [← hcr]; cases neg <;> simp [fmtRepr]
  have hch : ∀ c ∈ c0 :: r0, fchar c := by rw [← hcr]; exact fchar_fmtRepr hd decpt
  rw [hsplit, pyFloat_body neg hc0 hch, ← hcr]
  obtain ⟨c, e, h1, h2⟩ := pyDecBody_fmtRepr neg hne hd decpt
  rw [h1]
  simp only [decToFloat, roundDec, h2]

/-- the decimal the digits denote is the decimal `D · 10^s` the search accepted -/
theorem decRat_digits (D : Nat) (s : Int) :
    decRat (num (rstrip0 (digits D))) (s + (ndigits D : Int) - ((rstrip0 (digits D)).length : Int)) = decRat D s := by
  obtain ⟨z, hz⟩ := rstrip0_spec (digits D)
  have hD : D = num (rstrip0 (digits D)) * 10 ^ z := by
    have := num_digits D
    rw [hz, num_append, num_replicate_zero] at this
    simpa using this.symm
  have hlen : (ndigits D : Int) = ((rstrip0 (digits D)).length : Int) + z := by
    unfold ndigits
    conv => lhs; rw [hz]
    simp
  conv => rhs; rw [hD]
  rw [decRat_scale, hlen]
  congr 1
  omega

/-- END TO END: what `_float_to_xsd` writes for a finite double reads back, through `float(str)`, as the same double -/
theorem pyFloat_floatToXsd {neg : Bool} {m : Nat} {e : Int} {s : Str} (hc : m = 0 → e = 0)
    (h : floatToXsd (.fin neg m e) = some s) : pyFloat s = some (.fin neg m e) := by
  simp only [floatToXsd] at h
  by_cases hm : m = 0
  · rw [if_pos hm] at h
    cases h
    rw [hm, hc hm, pyFloat_fmtRepr neg (by simp) (by decide) 1]
    have : decRat (num ['0']) (1 - ((['0'] : Str).length : Int)) = 0 := by decide +kernel
    rw [this]
    simp [roundRat, roundPQ]
  · rw [if_neg hm] at h
    obtain ⟨⟨ds, decpt⟩, hs, rfl⟩ := Option.map_eq_some_iff.mp h
    obtain ⟨D, sx, hrb, rfl, rfl⟩ := shortestFrom_spec _ _ _ _ _ _ _ _ _ hs
    have hrb' : roundDec neg D sx = .fin neg m e := by simpa [readsBack] using hrb
    have hD : D ≠ 0 := by
      intro e0
      subst e0
      rw [roundDec_zero] at hrb'
      injection hrb' with _ h2 _
      exact hm h2.symm
    rw [pyFloat_fmtRepr neg (rstrip0_ne_nil (by rw [num_digits]; exact hD)) (allDigits_rstrip0 (allDigits_digits D)),
      decRat_digits]
    exact congrArg some hrb'

end RV.C09
