import RV.C09.Lemmas
import RV.C09.FloatModel
/-
  C09 — lemmas about the float model: what `_float_to_xsd` writes is in the lexical space of xsd:double, and
  reading it back with `float(str)` gives the same double (on top of the defining property of `repr`'s digits,
  which the model checks by search: `readsBack`).
-/
namespace RV.C09

/-! ### small facts -/

theorem rstrip0_spec : ∀ x : Str, ∃ z, x = rstrip0 x ++ List.replicate z '0' := by
  intro x
  induction x with
  | nil => exact ⟨0, rfl⟩
  | cons c cs ih =>
    obtain ⟨z, hz⟩ := ih
    simp only [rstrip0]
    split
    · rename_i hr
      rw [hr] at hz
      split
      · rename_i hc
        have hc' : c = '0' := by simpa using hc
        refine ⟨z + 1, ?_⟩
        rw [hz, hc']
        simp [List.replicate_succ]
      · exact ⟨z, by rw [hz]; simp⟩
    · rename_i hr
      exact ⟨z, by rw [List.cons_append, ← hz]⟩

theorem allDigits_rstrip0 {x : Str} (h : allDigits x = true) : allDigits (rstrip0 x) = true := by
  obtain ⟨z, hz⟩ := rstrip0_spec x
  rw [hz, allDigits_append, Bool.and_eq_true] at h
  exact h.1

theorem rstrip0_ne_nil {x : Str} (h : num x ≠ 0) : rstrip0 x ≠ [] := by
  obtain ⟨z, hz⟩ := rstrip0_spec x
  intro e
  rw [e] at hz
  rw [hz] at h
  simp [num_replicate_zero] at h

theorem notExp_of_digit {c : Char} (h : c.isDigit = true) : Spec.notExpChar c = true := by
  have h1 : c ≠ 'e' := digit_ne h (by decide)
  have h2 : c ≠ 'E' := digit_ne h (by decide)
  simp [Spec.notExpChar, h1, h2]

theorem takeWhile_notExp {x : Str} (hx : ∀ c ∈ x, Spec.notExpChar c = true) (y : Str) :
    (x ++ 'e' :: y).takeWhile Spec.notExpChar = x ∧ (x ++ 'e' :: y).dropWhile Spec.notExpChar = 'e' :: y := by
  induction x with
  | nil => simp [Spec.notExpChar]
  | cons c cs ih =>
    have hc := hx c (by simp)
    obtain ⟨i1, i2⟩ := ih (fun d hd => hx d (by simp [hd]))
    simp [List.takeWhile, List.dropWhile, hc, i1, i2]

theorem takeWhile_notExp_all {x : Str} (hx : ∀ c ∈ x, Spec.notExpChar c = true) :
    x.takeWhile Spec.notExpChar = x ∧ x.dropWhile Spec.notExpChar = [] := by
  induction x with
  | nil => simp
  | cons c cs ih =>
    have hc := hx c (by simp)
    obtain ⟨i1, i2⟩ := ih (fun d hd => hx d (by simp [hd]))
    simp [List.takeWhile, List.dropWhile, hc, i1, i2]

theorem digitsW2_lex (n : Nat) : Spec.nonEmptyDigits (digitsW 2 n) = true := by
  rw [nonEmptyDigits_iff]
  refine ⟨?_, allDigits_zfill (allDigits_digits n)⟩
  intro e
  have := (zfill_length_ge 2 (digits n)).1
  rw [digitsW] at e
  rw [e] at this
  simp at this

/-- an unsigned numeral `mant [e±XX]` -/
theorem numeralLex_exp {mant : Str} (hm : ∀ c ∈ mant, Spec.notExpChar c = true) (hb : Spec.decBodyLex mant = true)
    (sg : Char) (hs : sg = '+' ∨ sg = '-') (n : Nat) :
    Spec.numeralLex (mant ++ 'e' :: sg :: digitsW 2 n) = true := by
  obtain ⟨h1, h2⟩ := takeWhile_notExp hm (sg :: digitsW 2 n)
  simp only [Spec.numeralLex, h1, h2, hb, Bool.true_and]
  rcases hs with rfl | rfl <;> simp [Spec.expLex, digitsW2_lex]

theorem numeralLex_plain {mant : Str} (hm : ∀ c ∈ mant, Spec.notExpChar c = true) (hb : Spec.decBodyLex mant = true) :
    Spec.numeralLex mant = true := by
  obtain ⟨h1, h2⟩ := takeWhile_notExp_all hm
  simp [Spec.numeralLex, h1, h2, hb, Spec.expLex]

theorem notExp_mem_digits {x : Str} (h : allDigits x = true) : ∀ c ∈ x, Spec.notExpChar c = true :=
  fun c hc => notExp_of_digit (mem_allDigits h c hc)

/-- the unsigned body of `fmtRepr` is an XSD numeral -/
theorem numeralLex_fmtRepr {ds : Str} (hne : ds ≠ []) (hd : allDigits ds = true) (decpt : Int) :
    Spec.numeralLex (fmtRepr false ds decpt) = true := by
  simp only [fmtRepr, Bool.false_eq_true, if_false]
  split
  · -- exponent form
    have hsg : ((if decpt - 1 < 0 then '-' else '+') = '+' ∨ (if decpt - 1 < 0 then '-' else '+') = '-') := by
      split <;> simp
    cases ds with
    | nil => exact absurd rfl hne
    | cons d r =>
      cases r with
      | nil =>
        exact numeralLex_exp (notExp_mem_digits hd) (decBodyLex_int hd (by simp)) _ hsg _
      | cons d2 r2 =>
        have hd1 : allDigits [d] = true := by
          rw [allDigits_cons, Bool.and_eq_true] at hd; simp [allDigits_cons, hd.1, allDigits]
        have hd2 : allDigits (d2 :: r2) = true := by
          rw [allDigits_cons, Bool.and_eq_true] at hd; exact hd.2
        have hb := decBodyLex_point hd1 hd2 (by simp)
        have hm : ∀ c ∈ [d] ++ '.' :: (d2 :: r2), Spec.notExpChar c = true := by
          intro c hc
          rcases List.mem_append.mp hc with h | h
          · exact notExp_mem_digits hd1 c h
          · rcases List.mem_cons.mp h with rfl | h
            · decide
            · exact notExp_mem_digits hd2 c h
        exact numeralLex_exp hm hb _ hsg _
  · split
    · -- 0.000ddd
      have hz : allDigits (List.replicate (-decpt).toNat '0' ++ ds) = true := by
        rw [allDigits_append, allDigits_replicate_zero, hd]; rfl
      have h0 : allDigits ['0'] = true := by decide
      have hb := decBodyLex_point h0 hz (by simp)
      have hm : ∀ c ∈ ['0'] ++ '.' :: (List.replicate (-decpt).toNat '0' ++ ds), Spec.notExpChar c = true := by
        intro c hc
        rcases List.mem_append.mp hc with h | h
        · exact notExp_mem_digits h0 c h
        · rcases List.mem_cons.mp h with rfl | h
          · decide
          · exact notExp_mem_digits hz c h
      exact numeralLex_plain hm hb
    · split
      · -- ddd000.0
        have hz : allDigits (ds ++ List.replicate (decpt.toNat - ds.length) '0') = true := by
          rw [allDigits_append, allDigits_replicate_zero, hd]; rfl
        have h0 : allDigits ['0'] = true := by decide
        have hne' : ds ++ List.replicate (decpt.toNat - ds.length) '0' ≠ [] := by
          intro e; exact hne (List.append_eq_nil_iff.mp e).1
        have hb := decBodyLex_point hz h0 hne'
        have hm : ∀ c ∈ (ds ++ List.replicate (decpt.toNat - ds.length) '0') ++ '.' :: ['0'], Spec.notExpChar c = true := by
          intro c hc
          rcases List.mem_append.mp hc with h | h
          · exact notExp_mem_digits hz c h
          · rcases List.mem_cons.mp h with rfl | h
            · decide
            · exact notExp_mem_digits h0 c h
        have := numeralLex_plain hm hb
        simpa [List.append_assoc] using this
      · -- dd.ddd
        have h1 := allDigits_take hd decpt.toNat
        have h2 := allDigits_drop hd decpt.toNat
        have hne' : ds.take decpt.toNat ≠ [] := by
          rename_i hnn hpos _
          have : 0 < decpt.toNat := by omega
          cases ds with
          | nil => exact absurd rfl hne
          | cons a b =>
            obtain ⟨k, hk⟩ : ∃ k, decpt.toNat = k + 1 := ⟨decpt.toNat - 1, by omega⟩
            rw [hk]; simp
        have hb := decBodyLex_point h1 h2 hne'
        have hm : ∀ c ∈ ds.take decpt.toNat ++ '.' :: ds.drop decpt.toNat, Spec.notExpChar c = true := by
          intro c hc
          rcases List.mem_append.mp hc with h | h
          · exact notExp_mem_digits h1 c h
          · rcases List.mem_cons.mp h with rfl | h
            · decide
            · exact notExp_mem_digits h2 c h
        exact numeralLex_plain hm hb

theorem doubleLex_fmtRepr (neg : Bool) {ds : Str} (hne : ds ≠ []) (hd : allDigits ds = true) (decpt : Int) :
    Spec.doubleLex (fmtRepr neg ds decpt) = true := by
  have hb := numeralLex_fmtRepr hne hd decpt
  cases neg with
  | true =>
    have : fmtRepr true ds decpt = '-' :: fmtRepr false ds decpt := by simp [fmtRepr]
    rw [this]
    simp [Spec.doubleLex, hb]
  | false =>
    -- the body starts with a digit or '0', never with a sign
    have hhead : ∃ c r, fmtRepr false ds decpt = c :: r ∧ c.isDigit = true := by
      cases ds with
      | nil => exact absurd rfl hne
      | cons d r =>
        have hdd : d.isDigit = true := by rw [allDigits_cons, Bool.and_eq_true] at hd; exact hd.1
        simp only [fmtRepr, Bool.false_eq_true, if_false]
        split
        · cases r with
          | nil => exact ⟨d, _, rfl, hdd⟩
          | cons _ _ => exact ⟨d, _, rfl, hdd⟩
        · split
          · exact ⟨'0', _, rfl, by decide⟩
          · split
            · exact ⟨d, r ++ (List.replicate (decpt.toNat - (d :: r).length) '0' ++ ['.', '0']), by simp, hdd⟩
            · rename_i h1 h2 h3
              obtain ⟨k, hk⟩ : ∃ k, decpt.toNat = k + 1 := ⟨decpt.toNat - 1, by omega⟩
              exact ⟨d, List.take k r ++ '.' :: List.drop (k + 1) (d :: r), by rw [hk]; simp, hdd⟩
    obtain ⟨c, r, hcr, hc⟩ := hhead
    rw [hcr] at hb ⊢
    have h1 : c ≠ '+' := digit_ne hc (by decide)
    have h2 : c ≠ '-' := digit_ne hc (by decide)
    unfold Spec.doubleLex
    split
    · rename_i heq; cases heq; exact absurd rfl h1
    · rename_i heq; cases heq; exact absurd rfl h2
    · simp [hb]

/-! ### the digits found by the search -/

theorem tryDigits_spec {v : FVal} {neg : Bool} {P Q : Nat} {s : Int} {ds : Str} {decpt : Int}
    (h : tryDigits v neg P Q s = some (ds, decpt)) :
    ∃ D, readsBack v neg D s = true ∧ ds = rstrip0 (digits D) ∧ decpt = s + (ndigits D : Int) := by
  unfold tryDigits at h
  split at h
  · rename_i hr; cases h; exact ⟨_, hr, rfl, rfl⟩
  · split at h
    · rename_i hr; cases h; exact ⟨_, hr, rfl, rfl⟩
    · cases h

theorem shortestFrom_spec (v : FVal) (neg : Bool) (P Q : Nat) (t : Int) :
    ∀ fuel k ds decpt, shortestFrom v neg P Q t fuel k = some (ds, decpt) →
      ∃ D s, readsBack v neg D s = true ∧ ds = rstrip0 (digits D) ∧ decpt = s + (ndigits D : Int) := by
  intro fuel
  induction fuel with
  | zero => intro k ds decpt h; simp [shortestFrom] at h
  | succ f ih =>
    intro k ds decpt h
    simp only [shortestFrom] at h
    split at h
    · rename_i r hr
      cases h
      obtain ⟨D, h1, h2, h3⟩ := tryDigits_spec hr
      exact ⟨D, _, h1, h2, h3⟩
    · exact ih _ _ _ h

theorem decRat_zero (s : Int) : decRat 0 s = 0 := by
  unfold decRat
  split <;> simp

theorem roundDec_zero (neg : Bool) (s : Int) : roundDec neg 0 s = .fin neg 0 0 := by
  simp [roundDec, decRat_zero, roundRat, roundPQ]

/-- what `_float_to_xsd` writes is in the lexical space of xsd:double -/
theorem doubleLex_floatToXsd {v : FVal} {s : Str} (h : floatToXsd v = some s) : Spec.doubleLex s = true := by
  cases v with
  | nan => simp only [floatToXsd, Option.some.injEq] at h; subst h; decide +kernel
  | inf neg => cases neg <;> (simp only [floatToXsd, Option.some.injEq] at h; subst h; decide +kernel)
  | fin neg m e =>
    simp only [floatToXsd] at h
    by_cases hm : m = 0
    · rw [if_pos hm] at h
      cases h
      exact doubleLex_fmtRepr neg (by simp) (by decide) 1
    · rw [if_neg hm] at h
      obtain ⟨⟨ds, decpt⟩, hs, rfl⟩ := Option.map_eq_some_iff.mp h
      obtain ⟨D, sx, hrb, rfl, _⟩ := shortestFrom_spec _ _ _ _ _ _ _ _ _ hs
      have hD : D ≠ 0 := by
        intro e0
        subst e0
        simp only [readsBack, roundDec_zero, beq_iff_eq] at hrb
        injection hrb with _ h2 _
        exact hm h2.symm
      exact doubleLex_fmtRepr neg (rstrip0_ne_nil (by rw [num_digits]; exact hD))
        (allDigits_rstrip0 (allDigits_digits D)) _

end RV.C09
