import RV.C09.DateLemmas
import RV.C09.FloatLemmas
/-
  C09 — field-level values: every form of the XSD lexical space of xsd:time / xsd:dateTime / xsd:date that CPython's
  types can hold is given exactly the fields XSD reads from it (hour, minute, second, fraction as microseconds, zone in
  minutes; year, month, day).  The specification side is `Spec.timeVal`, `Spec.dateVal`, `Spec.dateTimeVal`.
-/
namespace RV.C09

/-- time-zone part: XSD's `Z | ±hh:mm` is read as that many minutes -/
theorem tz_xsd {z : Str} (h : Spec.tzLex z = true) :
    ∃ raw, parseTzShape z = some raw ∧ tzOfShape raw = some ((Spec.tzVal z).map (· * 60000000)) := by
  unfold Spec.tzLex at h
  split at h
  · exact ⟨none, rfl, rfl⟩
  · exact ⟨_, rfl, by decide⟩
  · rename_i sg a b c d
    simp only [Bool.and_eq_true, Bool.or_eq_true, List.all_cons, List.all_nil, Bool.and_true, beq_iff_eq,
      decide_eq_true_eq, natVal_eq_num] at h
    obtain ⟨⟨hsg, ⟨ha, hb, hc, hd⟩⟩, hr⟩ := h
    have hdig : allDigits [a, b, c, d] = true := by simp [allDigits, ha, hb, hc, hd]
    have hsg' : (sg == '+' || sg == '-') = true := by simpa using hsg
    have hZ : sg ≠ 'Z' := by rcases hsg with rfl | rfl <;> decide
    refine ⟨some (sg == '-', num [a, b], num [c, d], 0, []), ?_, ?_⟩
    · unfold parseTzShape
      split
      · rename_i heq; cases heq
      · rename_i heq; cases heq
      · rename_i heq
        cases heq
        simp [hsg', hdig]
      · rename_i hne; exact absurd rfl (hne sg a b c d [])
    · simp only [tzOfShape, Spec.tzVal, fracToMicrosTrunc_nil, natVal_eq_num]
      have hlt : (num [a, b] * 3600 + num [c, d] * 60 + 0) * 1000000 + 0 < 86400000000 := by
        rcases hr with ⟨h1, h2⟩ | ⟨h1, h2⟩ <;> omega
      rw [if_pos hlt]
      by_cases hm : sg = '-'
      · subst hm; simp; omega
      · have : (sg == '-') = false := by simpa using hm
        simp [this]; omega
  · cases h
theorem rstripZeros_eq (x : Str) : Spec.rstripZeros x = rstrip0 x := by
  induction x with
  | nil => rfl
  | cons c cs ih =>
    rw [Spec.rstripZeros, rstrip0, ih]
    cases rstrip0 cs <;> rfl

/-- truncating to microseconds is exact when the fraction has at most six significant digits -/
theorem frac_exact {fp : Str} (hl : (Spec.rstripZeros fp).length ≤ 6) :
    fracToMicrosTrunc fp = Spec.fracMicros (Spec.rstripZeros fp) := by
  rw [rstripZeros_eq] at hl ⊢
  obtain ⟨z, hz⟩ := rstrip0_spec fp
  generalize rstrip0 fp = r at hz hl
  subst hz
  unfold fracToMicrosTrunc Spec.fracMicros
  have e1 : r ++ List.replicate z '0' ++ ['0', '0', '0', '0', '0', '0'] = r ++ List.replicate (z + 6) '0' := by
    rw [List.append_assoc]; congr 1
    have : (['0', '0', '0', '0', '0', '0'] : Str) = List.replicate 6 '0' := rfl
    rw [this, List.replicate_append_replicate]
  rw [e1, List.take_append, List.take_of_length_le hl, List.take_replicate, num_append, num_replicate_zero,
    natVal_eq_num]
  simp only [List.length_replicate, Nat.add_zero]
  congr 2
  omega
/-- every form of the lexical space of xsd:time except the end-of-day form `24:00:00`: `time.fromisoformat` builds the
    time with the hour, minute, second and zone XSD reads, and the fraction truncated to microseconds — exact when it
    has at most six significant digits -/
theorem pyTimeFromIso_xsd {s : Str} (h : Spec.timeLex s = true) (h24 : (Spec.timeVal s).hour ≠ 24) :
    ∃ us, pyTimeFromIso s = some (.time (Spec.timeVal s).hour (Spec.timeVal s).minute (Spec.timeVal s).second us
        ((Spec.timeVal s).tz.map (· * 60000000))) ∧
      ((Spec.timeVal s).frac.length ≤ 6 → us = Spec.fracMicros (Spec.timeVal s).frac) := by
  unfold Spec.timeLex at h
  split at h
  · rename_i h1 h2 m1 m2 s1 s2 r
    simp only [Bool.and_eq_true] at h
    obtain ⟨hdig, hrest⟩ := h
    have hd6 : allDigits [h1, h2, m1, m2, s1, s2] = true := hdig
    by_cases hdot : ∃ r', r = '.' :: r'
    · obtain ⟨r', rfl⟩ := hdot
      simp only [Bool.and_eq_true, Bool.or_eq_true, decide_eq_true_eq, natVal_eq_num, beq_iff_eq] at hrest
      obtain ⟨⟨hfp, htz⟩, hrange⟩ := hrest
      obtain ⟨raw, hp, ht⟩ := tz_xsd htz
      have htv : Spec.timeVal (h1 :: h2 :: ':' :: m1 :: m2 :: ':' :: s1 :: s2 :: '.' :: r') =
          ⟨num [h1, h2], num [m1, m2], num [s1, s2], Spec.rstripZeros (takeDigits r'), Spec.tzVal (dropDigits r')⟩ := by
        simp only [← natVal_eq_num]; rfl
      rw [htv] at h24 ⊢
      simp only at h24
      have hr : num [h1, h2] ≤ 23 ∧ num [m1, m2] ≤ 59 ∧ num [s1, s2] ≤ 59 := by
        rcases hrange with ⟨⟨a, b⟩, c⟩ | ⟨⟨⟨a, _⟩, _⟩, _⟩
        · exact ⟨a, b, c⟩
        · exact absurd a h24
      have hfp' : (takeDigits r').isEmpty = false := by simpa using hfp
      refine ⟨fracToMicrosTrunc (takeDigits r'), ?_, fun hl => frac_exact hl⟩
      simp only [pyTimeFromIso, timeShape, hd6, if_true, splitFrac, hfp', Bool.false_eq_true, if_false, hp, ht]
      have : (decide (num [h1, h2] < 24) && decide (num [m1, m2] < 60) && decide (num [s1, s2] < 60)) = true := by
        simp; omega
      simp [this]
    · have hsf : splitFrac r = some ([], r) := by
        unfold splitFrac
        split
        · rename_i r' ; exact absurd ⟨r', rfl⟩ hdot
        · rfl
      have hrest' : Spec.tzLex r = true ∧ ((num [h1, h2] ≤ 23 ∧ num [m1, m2] ≤ 59 ∧ num [s1, s2] ≤ 59) ∨
          (num [h1, h2] = 24 ∧ num [m1, m2] = 0 ∧ num [s1, s2] = 0)) := by
        revert hrest
        split
        · rename_i r'; exact absurd ⟨r', rfl⟩ hdot
        · simp only [Bool.and_eq_true, Bool.or_eq_true, decide_eq_true_eq, natVal_eq_num, beq_iff_eq]
          intro hh; exact ⟨hh.1, hh.2.imp (fun x => ⟨x.1.1, x.1.2, x.2⟩) (fun x => ⟨x.1.1, x.1.2, x.2⟩)⟩
      obtain ⟨htz, hrange⟩ := hrest'
      obtain ⟨raw, hp, ht⟩ := tz_xsd htz
      have htv : Spec.timeVal (h1 :: h2 :: ':' :: m1 :: m2 :: ':' :: s1 :: s2 :: r) =
          ⟨num [h1, h2], num [m1, m2], num [s1, s2], [], Spec.tzVal r⟩ := by
        unfold Spec.timeVal
        split
        · rename_i heq
          cases heq
          split
          · rename_i r'; exact absurd ⟨r', rfl⟩ hdot
          · simp [natVal_eq_num]
        · rename_i hne; exact absurd rfl (hne _ _ _ _ _ _ _)
      rw [htv] at h24 ⊢
      simp only at h24
      have hr : num [h1, h2] ≤ 23 ∧ num [m1, m2] ≤ 59 ∧ num [s1, s2] ≤ 59 := by
        rcases hrange with a | a
        · exact a
        · exact absurd a.1 h24
      refine ⟨0, ?_, fun _ => by simp [Spec.fracMicros, Spec.natVal]⟩
      simp only [pyTimeFromIso, timeShape, hd6, if_true, hsf, hp, ht, fracToMicrosTrunc_nil]
      have : (decide (num [h1, h2] < 24) && decide (num [m1, m2] < 60) && decide (num [s1, s2] < 60)) = true := by
        simp; omega
      simp [this]
  · cases h
theorem num_single {c : Char} (h : c.isDigit = true) (h0 : c ≠ '0') : 1 ≤ num [c] := by
  rw [← natVal_eq_num]
  rw [isDigit_iff] at h
  have : c.toNat ≠ 48 := by
    intro e; apply h0
    have := Char.ofNat_toNat c
    rw [e] at this
    exact this.symm
  simp [Spec.natVal]; omega

theorem num_ge_head {c : Char} {r : Str} (h : c.isDigit = true) (h0 : c ≠ '0') : 10 ^ r.length ≤ num (c :: r) := by
  have : c :: r = [c] ++ r := rfl
  rw [this, num_append]
  have := num_single h h0
  calc 10 ^ r.length = 1 * 10 ^ r.length := by omega
    _ ≤ num [c] * 10 ^ r.length := Nat.mul_le_mul_right _ this
    _ ≤ _ := Nat.le_add_right _ _

/-- a year numeral of XSD's shape denoting at most 9999 has exactly four digits -/
theorem year_len4 {y : Str} (hy : Spec.yearLex y = true) (hle : num y ≤ 9999) : y.length = 4 := by
  simp only [Spec.yearLex, Bool.and_eq_true, Bool.or_eq_true, beq_iff_eq, decide_eq_true_eq] at hy
  obtain ⟨hd, h4 | ⟨hlen, hh⟩⟩ := hy
  · exact h4
  · exfalso
    cases y with
    | nil => simp at hlen
    | cons c r =>
      have hcd : c.isDigit = true := by simp at hd; exact hd.1
      have hc0 : c ≠ '0' := by simpa using hh
      have := num_ge_head (r := r) hcd hc0
      have h4 : 4 ≤ r.length := by simp at hlen; omega
      have : 10 ^ 4 ≤ 10 ^ r.length := Nat.pow_le_pow_right (by decide) h4
      omega

theorem valid_of_dayOk {y m d : Nat} (hy : 1 ≤ y ∧ y ≤ 9999) (h : Spec.dayOk false y m d = true) : validYMD y m d = true := by
  simp only [Spec.dayOk, Spec.isLeapAstro, Bool.and_eq_true, decide_eq_true_eq] at h
  obtain ⟨⟨⟨hm1, hm2⟩, hd1⟩, hd2⟩ := h
  simp only [validYMD, Bool.and_eq_true, decide_eq_true_eq]
  refine ⟨⟨⟨⟨⟨hy.1, hy.2⟩, hm1⟩, hm2⟩, hd1⟩, ?_⟩
  simpa [daysInMonth, isLeap] using hd2

theorem timeShape_of_parse {t : Str} {v : PyVal} (h : pyTimeFromIso t = some v) : (timeShape t).isSome = true := by
  unfold pyTimeFromIso at h
  split at h
  · rename_i hts; simp [hts]
  · cases h

/-- the date part of a non-negative date / dateTime form -/
theorem dateVal_nonneg {s : Str} (hneg : (s.head? == some '-') = false) {m1 m2 d1 d2 : Char} {r : Str}
    (hdrop : dropDigits s = '-' :: m1 :: m2 :: '-' :: d1 :: d2 :: r) :
    Spec.dateVal s = (⟨(num (takeDigits s) : Int), num [m1, m2], num [d1, d2], Spec.tzVal r⟩, r) := by
  simp only [Spec.dateVal, hneg, Bool.false_eq_true, if_false, hdrop, natVal_eq_num]

theorem dateVal_neg {r0 : Str} {m1 m2 d1 d2 : Char} {r : Str}
    (hdrop : dropDigits r0 = '-' :: m1 :: m2 :: '-' :: d1 :: d2 :: r) :
    (Spec.dateVal ('-' :: r0)).1.year = -(num (takeDigits r0) : Int) := by
  have : (('-' :: r0).head? == some '-') = true := by simp
  simp only [Spec.dateVal, this, if_true, List.drop_succ_cons, List.drop_zero, hdrop, natVal_eq_num]

/-- every form of the lexical space of xsd:dateTime with a year in 0001…9999 and not the end-of-day form:
    `datetime.fromisoformat` builds the datetime with exactly the fields XSD reads (fraction truncated to microseconds,
    exact for at most six significant digits; zone in minutes) -/
theorem pyDateTimeFromIso_xsd {s : Str} (h : Spec.dateTimeLex s = true)
    (hy : 1 ≤ (Spec.dateTimeVal s).1.year ∧ (Spec.dateTimeVal s).1.year ≤ 9999) (h24 : (Spec.dateTimeVal s).2.hour ≠ 24) :
    ∃ us, pyDateTimeFromIso s = some (.datetime (Spec.dateTimeVal s).1.year.toNat (Spec.dateTimeVal s).1.month
        (Spec.dateTimeVal s).1.day (Spec.dateTimeVal s).2.hour (Spec.dateTimeVal s).2.minute (Spec.dateTimeVal s).2.second us
        ((Spec.dateTimeVal s).2.tz.map (· * 60000000))) ∧
      ((Spec.dateTimeVal s).2.frac.length ≤ 6 → us = Spec.fracMicros (Spec.dateTimeVal s).2.frac) := by
  unfold Spec.dateTimeLex at h
  split at h
  · -- a negative year is outside 1…9999
    rename_i r0
    exfalso
    simp only [Spec.dateBodyLex] at h
    split at h
    · rename_i m1 m2 d1 d2 r hdrop
      have := dateVal_neg hdrop
      have hyy : (Spec.dateTimeVal ('-' :: r0)).1.year = (Spec.dateVal ('-' :: r0)).1.year := by
        simp only [Spec.dateTimeVal]
      rw [hyy, this] at hy
      omega
    · cases h
  · rename_i hnotneg
    have hneg : (s.head? == some '-') = false := by
      cases s with
      | nil => rfl
      | cons c cs =>
        have : c ≠ '-' := fun e => hnotneg cs (by rw [e])
        simp [this]
    simp only [Spec.dateBodyLex] at h
    split at h
    · rename_i m1 m2 d1 d2 r hdrop
      simp only [Bool.and_eq_true] at h
      obtain ⟨⟨⟨hyl, hdig⟩, hday⟩, htail⟩ := h
      -- the tail is `T` + a time
      cases r with
      | nil => simp at htail
      | cons c t =>
        by_cases hc : c = 'T'
        · subst hc
          have htl : Spec.timeLex t = true := htail
          have hdv := dateVal_nonneg hneg hdrop
          have hval : Spec.dateTimeVal s =
              (⟨(num (takeDigits s) : Int), num [m1, m2], num [d1, d2], none⟩, Spec.timeVal t) := by
            simp only [Spec.dateTimeVal, hdv]
          rw [hval] at hy h24 ⊢
          simp only at hy h24 ⊢
          have hy' : 1 ≤ num (takeDigits s) ∧ num (takeDigits s) ≤ 9999 := by omega
          obtain ⟨us, hpt, hus⟩ := pyTimeFromIso_xsd htl h24
          have hlen := year_len4 hyl hy'.2
          have hd4 : allDigits [m1, m2, d1, d2] = true := hdig
          have hvalid : validYMD (num (takeDigits s)) (num [m1, m2]) (num [d1, d2]) = true :=
            valid_of_dayOk hy' (by simpa [natVal_eq_num] using hday)
          refine ⟨us, ?_, hus⟩
          have hshape : dateTimeShape s = some (false, takeDigits s, [m1, m2], [d1, d2], t) := by
            simp only [dateTimeShape, hneg, Bool.false_eq_true, if_false, hdrop, hd4, timeShape_of_parse hpt, hlen]
            simp
          have hmk : mkDate (takeDigits s) [m1, m2] [d1, d2] =
              some (.date (num (takeDigits s)) (num [m1, m2]) (num [d1, d2])) := by
            have ha : allDigits [m1, m2] = true ∧ allDigits [d1, d2] = true := by
              simp only [allDigits, List.all_cons, List.all_nil, Bool.and_true, Bool.and_eq_true] at hd4 ⊢
              exact ⟨⟨hd4.1, hd4.2.1⟩, ⟨hd4.2.2.1, hd4.2.2.2⟩⟩
            simp [mkDate, allDigits_takeDigits, ha.1, ha.2, hvalid]
          simp only [pyDateTimeFromIso, hshape, hlen, hmk, hpt]
          simp
        · exfalso
          revert htail
          split
          · rename_i heq; cases heq; exact absurd rfl hc
          · simp
    · cases h
/-- the string surgery of `parse_xsd_date` on `YYYY-MM-DD` followed by any XSD time zone: the zone is cut off -/
theorem parseXsdDate_body_tz {y1 y2 y3 y4 m1 m2 d1 d2 : Char} {z : Str}
    (hd : allDigits [y1, y2, y3, y4, m1, m2, d1, d2] = true) (hz : Spec.tzLex z = true) :
    parseXsdDate ([y1, y2, y3, y4, '-', m1, m2, '-', d1, d2] ++ z) = mkDate [y1, y2, y3, y4] [m1, m2] [d1, d2] := by
  simp only [allDigits, List.all_cons, List.all_nil, Bool.and_true, Bool.and_eq_true] at hd
  obtain ⟨hy1d, hy2d, hy3d, hy4d, hm1d, hm2d, hd1d, hd2d⟩ := hd
  have s1 := digit_seps hy1d; have s2 := digit_seps hy2d; have s3 := digit_seps hy3d; have s4 := digit_seps hy4d
  have s5 := digit_seps hm1d; have s6 := digit_seps hm2d; have s7 := digit_seps hd1d; have s8 := digit_seps hd2d
  have t1 := digit_seps' hy1d; have t2 := digit_seps' hy2d; have t3 := digit_seps' hy3d; have t4 := digit_seps' hy4d
  have t5 := digit_seps' hm1d; have t6 := digit_seps' hm2d; have t7 := digit_seps' hd1d; have t8 := digit_seps' hd2d
  unfold Spec.tzLex at hz
  split at hz
  · simp [parseXsdDate, dateStripZ, lastChar?, dateCut, lastIdx, dateFinish, pyDateFromIso,
      s1, s2, s3, s4, s5, s6, s7, s8, t1, t2, t3, t4, t5, t6, t7, t8]
  · simp [parseXsdDate, dateStripZ, lastChar?, dropLast, dateCut, lastIdx, dateFinish, pyDateFromIso,
      s1, s2, s3, s4, s5, s6, s7, s8, t1, t2, t3, t4, t5, t6, t7, t8]
  · rename_i sg a b c d
    simp only [Bool.and_eq_true, Bool.or_eq_true, List.all_cons, List.all_nil, Bool.and_true, beq_iff_eq] at hz
    obtain ⟨⟨hsg, ⟨ha, hb, hc, hdd⟩⟩, _⟩ := hz
    have u1 := digit_seps ha; have u2 := digit_seps hb; have u3 := digit_seps hc; have u4 := digit_seps hdd
    have v1 := digit_seps' ha; have v2 := digit_seps' hb; have v3 := digit_seps' hc; have v4 := digit_seps' hdd
    rcases hsg with rfl | rfl
    · simp [parseXsdDate, dateStripZ, lastChar?, dateCut, lastIdx, dateFinish, pyDateFromIso,
        s1, s2, s3, s4, s5, s6, s7, s8, t1, t2, t3, t4, t5, t6, t7, t8, u1, u2, u3, u4, v1, v2, v3, v4]
    · simp [parseXsdDate, dateStripZ, lastChar?, dateCut, lastIdx, dateFinish, pyDateFromIso,
        s1, s2, s3, s4, s5, s6, s7, s8, t1, t2, t3, t4, t5, t6, t7, t8, u1, u2, u3, u4, v1, v2, v3, v4]
  · cases hz

/-- every form of the lexical space of xsd:date with a year in 0001…9999: `parse_xsd_date` builds the date with exactly the
    year, month and day XSD reads; a time zone, if any, is dropped (finding C09-K3 is exactly this) -/
theorem parseXsdDate_xsd {s : Str} (h : Spec.dateLex s = true)
    (hy : 1 ≤ (Spec.dateVal s).1.year ∧ (Spec.dateVal s).1.year ≤ 9999) :
    parseXsdDate s = some (.date (Spec.dateVal s).1.year.toNat (Spec.dateVal s).1.month (Spec.dateVal s).1.day) := by
  unfold Spec.dateLex at h
  split at h
  · rename_i r0
    exfalso
    simp only [Spec.dateBodyLex] at h
    split at h
    · rename_i m1 m2 d1 d2 r hdrop
      rw [dateVal_neg hdrop] at hy
      omega
    · cases h
  · rename_i hnotneg
    have hneg : (s.head? == some '-') = false := by
      cases s with
      | nil => rfl
      | cons c cs =>
        have : c ≠ '-' := fun e => hnotneg cs (by rw [e])
        simp [this]
    simp only [Spec.dateBodyLex] at h
    split at h
    · rename_i m1 m2 d1 d2 r hdrop
      simp only [Bool.and_eq_true] at h
      obtain ⟨⟨⟨hyl, hdig⟩, hday⟩, htz⟩ := h
      rw [dateVal_nonneg hneg hdrop] at hy ⊢
      simp only at hy ⊢
      have hy' : 1 ≤ num (takeDigits s) ∧ num (takeDigits s) ≤ 9999 := by omega
      obtain ⟨y1, y2, y3, y4, hye⟩ := list_len4 (year_len4 hyl hy'.2)
      have hs : s = [y1, y2, y3, y4, '-', m1, m2, '-', d1, d2] ++ r := by
        have := take_append_dropDigits s
        rw [hye, hdrop] at this
        exact this.symm
      have hyd : allDigits [y1, y2, y3, y4] = true := by rw [← hye]; exact allDigits_takeDigits s
      have hd4 : allDigits [m1, m2, d1, d2] = true := hdig
      have hall : allDigits [y1, y2, y3, y4, m1, m2, d1, d2] = true := by
        simp only [allDigits, List.all_cons, List.all_nil, Bool.and_true, Bool.and_eq_true] at hyd hd4 ⊢
        exact ⟨hyd.1, hyd.2.1, hyd.2.2.1, hyd.2.2.2, hd4⟩
      have hvalid : validYMD (num (takeDigits s)) (num [m1, m2]) (num [d1, d2]) = true :=
        valid_of_dayOk hy' (by simpa [natVal_eq_num] using hday)
      have hpar := parseXsdDate_body_tz hall htz
      rw [← hs] at hpar
      rw [hpar]
      rw [hye] at hvalid ⊢
      have ha : allDigits [m1, m2] = true ∧ allDigits [d1, d2] = true := by
        simp only [allDigits, List.all_cons, List.all_nil, Bool.and_true, Bool.and_eq_true] at hd4 ⊢
        exact ⟨⟨hd4.1, hd4.2.1⟩, ⟨hd4.2.2.1, hd4.2.2.2⟩⟩
      simp [mkDate, hyd, ha.1, ha.2, hvalid]
    · cases h
end RV.C09
