import RV.C09.Spec
/-
  C09 — helper lemmas (digits, CPython int/Decimal grammar on XSD forms, printers).
-/
namespace RV.C09

/-! ### characters -/

theorem isDigit_iff (c : Char) : c.isDigit = true ↔ 48 ≤ c.toNat ∧ c.toNat ≤ 57 := by
  unfold Char.isDigit
  simp only [Bool.and_eq_true, decide_eq_true_eq, ge_iff_le, UInt32.le_iff_toNat_le]
  simp

theorem isWs_of_digit {c : Char} (h : c.isDigit = true) : isWs c = false := by
  rw [isDigit_iff] at h
  unfold isWs
  have : c ≠ ' ' := by
    intro hc; subst hc; simp at h
  simp [this]
  omega

theorem digit_ne {c d : Char} (h : c.isDigit = true) (hd : d.isDigit = false) : c ≠ d := by
  intro e; subst e; simp [h] at hd

/-! ### digit strings -/

theorem natVal_eq_num (s : Str) : Spec.natVal s = num s := by
  simp [Spec.natVal, num, Nat.ofDigitChars]

theorem num_digits (n : Nat) : num (digits n) = n := Nat.ofDigitChars_ten_toDigits

theorem allDigits_digits (n : Nat) : allDigits (digits n) = true := by
  simp only [allDigits, List.all_eq_true]
  intro c hc
  exact Nat.isDigit_of_mem_toDigits (by decide) (by decide) hc

theorem digits_ne_nil (n : Nat) : digits n ≠ [] := Nat.toDigits_ne_nil

theorem allDigits_cons {c : Char} {s : Str} : allDigits (c :: s) = (c.isDigit && allDigits s) := by
  simp [allDigits]

theorem allDigits_append {s t : Str} : allDigits (s ++ t) = (allDigits s && allDigits t) := by
  simp [allDigits]

theorem num_append (s t : Str) : num (s ++ t) = num s * 10 ^ t.length + num t := by
  unfold num
  rw [Nat.ofDigitChars_append, Nat.ofDigitChars_eq_ofDigitChars_zero]
  rw [Nat.mul_comm]

theorem num_replicate_zero (k : Nat) : num (List.replicate k '0') = 0 := by
  simp [num]

theorem num_zfill (w : Nat) (s : Str) : num (zfill w s) = num s := by
  simp [zfill, num_append, num_replicate_zero]

theorem allDigits_replicate_zero (k : Nat) : allDigits (List.replicate k '0') = true := by
  simp [allDigits]

theorem allDigits_zfill {w : Nat} {s : Str} (h : allDigits s = true) : allDigits (zfill w s) = true := by
  simp [zfill, allDigits_append, allDigits_replicate_zero, h]

/-- the head of a non-empty all-digit string is a digit -/
theorem head_digit {s : Str} (h : allDigits s = true) (hne : s ≠ []) :
    ∃ c r, s = c :: r ∧ c.isDigit = true ∧ allDigits r = true := by
  cases s with
  | nil => exact absurd rfl hne
  | cons c r =>
    rw [allDigits_cons, Bool.and_eq_true] at h
    exact ⟨c, r, rfl, h.1, h.2⟩

theorem takeDigits_append {s t : Str} (hs : allDigits s = true)
    (ht : ∀ c r, t = c :: r → c.isDigit = false) : takeDigits (s ++ t) = s := by
  induction s with
  | nil =>
    cases t with
    | nil => rfl
    | cons c r => simp [takeDigits, ht c r rfl]
  | cons c s ih =>
    rw [allDigits_cons, Bool.and_eq_true] at hs
    simp [takeDigits, hs.1, ih hs.2]

theorem dropDigits_append {s t : Str} (hs : allDigits s = true)
    (ht : ∀ c r, t = c :: r → c.isDigit = false) : dropDigits (s ++ t) = t := by
  induction s with
  | nil =>
    cases t with
    | nil => rfl
    | cons c r => simp [dropDigits, ht c r rfl]
  | cons c s ih =>
    rw [allDigits_cons, Bool.and_eq_true] at hs
    simp [dropDigits, hs.1, ih hs.2]

theorem takeDigits_all {s : Str} (hs : allDigits s = true) : takeDigits s = s := by
  have := takeDigits_append (t := []) hs (by intro c r h; cases h)
  simpa using this

theorem dropDigits_all {s : Str} (hs : allDigits s = true) : dropDigits s = [] := by
  have := dropDigits_append (t := []) hs (by intro c r h; cases h)
  simpa using this

theorem allDigits_takeDigits (s : Str) : allDigits (takeDigits s) = true := by
  induction s with
  | nil => rfl
  | cons c s ih =>
    unfold takeDigits
    split
    · rename_i h; simp [allDigits_cons, h, ih]
    · rfl

theorem take_append_dropDigits (s : Str) : takeDigits s ++ dropDigits s = s := by
  induction s with
  | nil => rfl
  | cons c s ih =>
    unfold takeDigits dropDigits
    split <;> simp [ih]

theorem dropDigits_head (s : Str) : ∀ c r, dropDigits s = c :: r → c.isDigit = false := by
  induction s with
  | nil => intro c r h; cases h
  | cons a s ih =>
    intro c r h
    unfold dropDigits at h
    split at h
    · exact ih c r h
    · rename_i hd
      cases h
      simpa using hd

/-! ### white space -/

theorem stripR_noWs {s : Str} (h : ∀ c ∈ s, isWs c = false) : stripR s = s := by
  induction s with
  | nil => rfl
  | cons c s ih =>
    have hc : isWs c = false := h c (by simp)
    have hs : stripR s = s := ih (fun d hd => h d (by simp [hd]))
    unfold stripR
    rw [hs]
    cases s with
    | nil => simp [hc]
    | cons d t => rfl

theorem stripL_noWs {s : Str} (h : ∀ c ∈ s, isWs c = false) : stripL s = s := by
  cases s with
  | nil => rfl
  | cons c s => simp [stripL, h c (by simp)]

theorem strip_noWs {s : Str} (h : ∀ c ∈ s, isWs c = false) : strip s = s := by
  unfold strip
  rw [stripL_noWs h, stripR_noWs h]

theorem noWs_of_allDigits {s : Str} (h : allDigits s = true) : ∀ c ∈ s, isWs c = false := by
  intro c hc
  simp only [allDigits, List.all_eq_true] at h
  exact isWs_of_digit (h c hc)

/-! ### CPython `int()` on plain digit strings -/

theorem ungroup_digits {s : Str} (h : allDigits s = true) (pd : Bool) (hne : s ≠ [] ∨ pd = true) :
    ungroup pd s = some s := by
  induction s generalizing pd with
  | nil =>
    rcases hne with h' | h'
    · exact absurd rfl h'
    · simp [ungroup, h']
  | cons c s ih =>
    rw [allDigits_cons, Bool.and_eq_true] at h
    simp [ungroup, h.1, ih h.2 true (Or.inr rfl)]

theorem pyNat_digits {s : Str} (h : allDigits s = true) (hne : s ≠ []) : pyNat s = some (num s) := by
  simp [pyNat, ungroup_digits h false (Or.inl hne)]

/-! ### `int()` on the XSD integer lexical space, and `str(int)` -/

theorem nonEmptyDigits_iff {s : Str} : Spec.nonEmptyDigits s = true ↔ s ≠ [] ∧ allDigits s = true := by
  simp [Spec.nonEmptyDigits, allDigits]

/-- `int()` of `sign? digits+` -/
theorem pyInt_signed {r : Str} (h : allDigits r = true) (hne : r ≠ []) :
    pyInt r = some (num r : Int) ∧ pyInt ('+' :: r) = some (num r : Int) ∧ pyInt ('-' :: r) = some (-(num r : Int)) := by
  have hws := noWs_of_allDigits h
  obtain ⟨c, t, rfl, hc, ht⟩ := head_digit h hne
  have hcp : c ≠ '+' := digit_ne hc (by decide)
  have hcm : c ≠ '-' := digit_ne hc (by decide)
  refine ⟨?_, ?_, ?_⟩
  · unfold pyInt
    rw [strip_noWs hws]
    split
    · rename_i heq; cases heq; exact absurd rfl hcm
    · rename_i heq; cases heq; exact absurd rfl hcp
    · simp [pyNat_digits h hne]
  · unfold pyInt
    rw [strip_noWs (by intro d hd; rcases List.mem_cons.mp hd with rfl | hd; decide; exact hws d hd)]
    simp [pyNat_digits h hne]
  · unfold pyInt
    rw [strip_noWs (by intro d hd; rcases List.mem_cons.mp hd with rfl | hd; decide; exact hws d hd)]
    simp [pyNat_digits h hne]

theorem pyInt_xsd {s : Str} (h : Spec.intLex s = true) : pyInt s = some (Spec.intVal s) := by
  unfold Spec.intLex at h
  split at h
  · rw [nonEmptyDigits_iff] at h
    simp [Spec.intVal, natVal_eq_num, (pyInt_signed h.2 h.1).2.1]
  · rw [nonEmptyDigits_iff] at h
    simp [Spec.intVal, natVal_eq_num, (pyInt_signed h.2 h.1).2.2]
  · rename_i hp hm
    rw [nonEmptyDigits_iff] at h
    have : Spec.intVal s = (num s : Int) := by
      unfold Spec.intVal
      split
      · exact absurd rfl (hp _)
      · exact absurd rfl (hm _)
      · simp [natVal_eq_num]
    rw [this]; exact (pyInt_signed h.2 h.1).1

theorem intLex_intRepr (i : Int) : Spec.intLex (intRepr i) = true := by
  cases i with
  | ofNat n =>
    simp only [intRepr]
    obtain ⟨c, t, he, hc, ht⟩ := head_digit (allDigits_digits n) (digits_ne_nil n)
    unfold Spec.intLex
    split
    · rename_i heq; rw [he] at heq; cases heq; exact absurd hc (by decide)
    · rename_i heq; rw [he] at heq; cases heq; exact absurd hc (by decide)
    · exact nonEmptyDigits_iff.mpr ⟨digits_ne_nil n, allDigits_digits n⟩
  | negSucc n =>
    simp only [intRepr, Spec.intLex]
    exact nonEmptyDigits_iff.mpr ⟨digits_ne_nil _, allDigits_digits _⟩

theorem pyInt_intRepr (i : Int) : pyInt (intRepr i) = some i := by
  cases i with
  | ofNat n =>
    simp only [intRepr]
    rw [(pyInt_signed (allDigits_digits n) (digits_ne_nil n)).1, num_digits]; rfl
  | negSucc n =>
    simp only [intRepr]
    rw [(pyInt_signed (allDigits_digits (n+1)) (digits_ne_nil _)).2.2, num_digits]
    rfl
/-! ### the integer family: regenerated bounds, well-formedness -/

/-- interval `b` contains interval `x` -/
def covers (b x : Option Int × Option Int) : Bool :=
  (match b.1, x.1 with | none, _ => true | some l, some l' => decide (l ≤ l') | some _, none => false) &&
  (match b.2, x.2 with | none, _ => true | some h, some h' => decide (h' ≤ h) | some _, none => false)

theorem inBounds_of_covers {b x : Option Int × Option Int} (h : covers b x = true) {i : Int}
    (hi : Spec.inBounds x i = true) : Spec.inBounds b i = true := by
  obtain ⟨bl, bh⟩ := b
  obtain ⟨xl, xh⟩ := x
  simp only [covers, Bool.and_eq_true] at h
  simp only [Spec.inBounds, Bool.and_eq_true] at hi ⊢
  constructor
  · cases bl <;> cases xl <;> simp_all <;> omega
  · cases bh <;> cases xh <;> simp_all <;> omega

/-- regenerated table: each checker accepts at least the XSD value range of its datatype -/
theorem bounds_table (d : Dt) (h : d.conv = .int) :
    d.bounds = none ∨ ∃ b, d.bounds = some b ∧ covers b (Spec.xsdBounds d) = true := by
  cases d <;> first | (simp [Dt.conv] at h; done) | decide

/-- …and exactly the XSD range except for `long` (no checker) and `unsignedLong` (no upper bound) -/
theorem bounds_table_exact (d : Dt) (h : d.conv = .int) :
    d = .integer ∨ d = .long ∨ d = .unsignedLong ∨ d.bounds = some (Spec.xsdBounds d) := by
  cases d <;> first | (simp [Dt.conv] at h; done) | decide

theorem inOpt_eq_inBounds (lo hi : Option Int) (i : Int) : inOpt lo hi i = Spec.inBounds (lo, hi) i := rfl

theorem validLex_int {d : Dt} (h : d.conv = .int) (s : Str) :
    Spec.validLex d s = (Spec.intLex s && Spec.inBounds (Spec.xsdBounds d) (Spec.intVal s)) := by
  cases d <;> first | (simp [Dt.conv] at h; done) | rfl

theorem castLex_int {d : Dt} (h : d.conv = .int) (s : Str) : castLex (some d) s = (pyInt s).map .int := by
  simp [castLex, h]

theorem wellFormed_int {d : Dt} (h : d.conv = .int) {s : Str} (hv : Spec.validLex d s = true) :
    wellFormed d s (some (.int (Spec.intVal s))) = true := by
  rw [validLex_int h, Bool.and_eq_true] at hv
  have hb : (d == Dt.boolean) = false := by cases d <;> first | (simp [Dt.conv] at h; done) | rfl
  unfold wellFormed
  simp only [hb, Bool.false_and]
  rcases bounds_table d h with hn | ⟨⟨lo, hi⟩, hs, hc⟩
  · simp [hn]
  · rw [hs]; simpa [inOpt_eq_inBounds] using inBounds_of_covers hc hv.2

theorem postProcess_int {d : Dt} (h : d.conv = .int) (s : Str) : postProcess (some d) s = s := by
  cases d <;> first | (simp [Dt.conv] at h; done) | rfl
/-! ### CPython `Decimal()` on the XSD decimal lexical space -/


theorem dropUnderscores_id {s : Str} (h : ∀ c ∈ s, c ≠ '_') : dropUnderscores s = s := by
  unfold dropUnderscores
  rw [List.filter_eq_self]
  intro c hc
  simp [h c hc]

theorem pyDecBody_point (neg : Bool) {ip fp : Str} (hi : allDigits ip = true) (hf : allDigits fp = true)
    (hne : ip ≠ [] ∨ fp ≠ []) :
    pyDecBody neg (ip ++ '.' :: fp) = some (.dec neg (num (ip ++ fp)) (-(fp.length : Int))) := by
  have h1 : takeDigits (ip ++ '.' :: fp) = ip :=
    takeDigits_append hi (by intro c r h; cases h; decide)
  have h2 : dropDigits (ip ++ '.' :: fp) = '.' :: fp :=
    dropDigits_append hi (by intro c r h; cases h; decide)
  unfold pyDecBody
  simp only [h1, h2, takeDigits_all hf, dropDigits_all hf, pyExp]
  have : (ip.isEmpty && fp.isEmpty) = false := by
    rcases hne with h | h
    · cases ip with | nil => exact absurd rfl h | cons _ _ => rfl
    · cases fp with | nil => exact absurd rfl h | cons _ _ => simp
  simp [this]

theorem pyDecBody_int (neg : Bool) {ip : Str} (hi : allDigits ip = true) (hne : ip ≠ []) :
    pyDecBody neg ip = some (.dec neg (num ip) 0) := by
  unfold pyDecBody
  simp only [takeDigits_all hi, dropDigits_all hi, pyExp]
  cases ip with
  | nil => exact absurd rfl hne
  | cons _ _ => simp



def decChar (c : Char) : Prop := c.isDigit = true ∨ c = '.'

theorem decChar_props {c : Char} (h : decChar c) : isWs c = false ∧ c ≠ '_' ∧ c ≠ '+' ∧ c ≠ '-' := by
  rcases h with h | h
  · exact ⟨isWs_of_digit h, digit_ne h (by decide), digit_ne h (by decide), digit_ne h (by decide)⟩
  · subst h; decide

theorem pyDecimal_signed {b : Str} (h : ∀ c ∈ b, decChar c) :
    pyDecimal b = pyDecBody false b ∧ pyDecimal ('+' :: b) = pyDecBody false b ∧
      pyDecimal ('-' :: b) = pyDecBody true b := by
  have hws : ∀ c ∈ b, isWs c = false := fun c hc => (decChar_props (h c hc)).1
  have hus : ∀ c ∈ b, c ≠ '_' := fun c hc => (decChar_props (h c hc)).2.1
  refine ⟨?_, ?_, ?_⟩
  · unfold pyDecimal
    rw [strip_noWs hws, dropUnderscores_id hus]
    split
    · exact absurd rfl (decChar_props (h '-' (by simp))).2.2.2
    · exact absurd rfl (decChar_props (h '+' (by simp))).2.2.1
    · rfl
  · unfold pyDecimal
    rw [strip_noWs (by intro d hd; rcases List.mem_cons.mp hd with rfl | hd; decide; exact hws d hd),
      dropUnderscores_id (by intro d hd; rcases List.mem_cons.mp hd with rfl | hd; decide; exact hus d hd)]
    rfl
  · unfold pyDecimal
    rw [strip_noWs (by intro d hd; rcases List.mem_cons.mp hd with rfl | hd; decide; exact hws d hd),
      dropUnderscores_id (by intro d hd; rcases List.mem_cons.mp hd with rfl | hd; decide; exact hus d hd)]
    rfl

theorem mem_allDigits {s : Str} (h : allDigits s = true) : ∀ c ∈ s, c.isDigit = true := by
  simpa [allDigits] using h

/-- the unsigned decimal numerals: shape, model value and spec value -/
theorem decBody_xsd {b : Str} (h : Spec.decBodyLex b = true) (neg : Bool) :
    (∀ c ∈ b, decChar c) ∧
    pyDecBody neg b = some (.dec neg (Spec.decBodyVal b).1 (-((Spec.decBodyVal b).2 : Int))) := by
  have hsplit := take_append_dropDigits b
  have hip := allDigits_takeDigits b
  unfold Spec.decBodyLex at h
  unfold Spec.decBodyVal
  generalize hr : dropDigits b = r at h hsplit
  cases r with
  | nil =>
    simp only [] at h
    have hb : takeDigits b = b := by simpa using hsplit
    have hne : b ≠ [] := by
      intro e; rw [e] at h; simp [takeDigits] at h
    have hd : allDigits b = true := by rw [← hb]; exact hip
    refine ⟨fun c hc => Or.inl (mem_allDigits hd c hc), ?_⟩
    simp [pyDecBody_int neg hd hne, natVal_eq_num, hb]
  | cons c fp =>
    by_cases hc : c = '.'
    · subst hc
      simp only [Bool.and_eq_true, Bool.or_eq_true, Bool.not_eq_true', List.isEmpty_eq_false_iff] at h
      have hfp : allDigits fp = true := by simpa [allDigits] using h.1
      have hne : takeDigits b ≠ [] ∨ fp ≠ [] := by
        rcases h.2 with h' | h'
        · left; intro e; simp [e] at h'
        · right; intro e; simp [e] at h'
      refine ⟨?_, ?_⟩
      · intro c hc
        rw [← hsplit] at hc
        rcases List.mem_append.mp hc with hc | hc
        · exact Or.inl (mem_allDigits hip c hc)
        · rcases List.mem_cons.mp hc with rfl | hc
          · exact Or.inr rfl
          · exact Or.inl (mem_allDigits hfp c hc)
      · have := pyDecBody_point neg hip hfp hne
        rw [hsplit] at this
        simp [this, natVal_eq_num]
    · exfalso
      revert h
      split
      · rename_i heq; cases heq
      · rename_i heq; cases heq; exact absurd rfl hc
      · simp

theorem pyDecimal_xsd {s : Str} (h : Spec.decLex s = true) :
    ∃ (n : Bool) (c k : Nat), pyDecimal s = some (.dec n c (-(k : Int))) ∧
      Spec.decVal s = (((if n then -(c : Int) else (c : Int)) : Int), (k : Nat)) := by
  unfold Spec.decLex at h
  split at h
  · rename_i r
    obtain ⟨hch, hv⟩ := decBody_xsd h false
    exact ⟨false, _, _, by rw [(pyDecimal_signed hch).2.1, hv], by simp [Spec.decVal]⟩
  · rename_i r
    obtain ⟨hch, hv⟩ := decBody_xsd h true
    exact ⟨true, _, _, by rw [(pyDecimal_signed hch).2.2, hv], by simp [Spec.decVal]⟩
  · rename_i r hp hm
    obtain ⟨hch, hv⟩ := decBody_xsd h false
    refine ⟨false, _, _, by rw [(pyDecimal_signed hch).1, hv], ?_⟩
    unfold Spec.decVal
    split
    · exact absurd rfl (hp _)
    · exact absurd rfl (hm _)
    · simp

/-! ### `"{:f}".format(Decimal)` read back by `Decimal()` -/

theorem zfill_length_ge (w : Nat) (s : Str) : w ≤ (zfill w s).length ∧ s.length ≤ (zfill w s).length := by
  simp [zfill]; omega

theorem allDigits_take {s : Str} (h : allDigits s = true) (n : Nat) : allDigits (s.take n) = true := by
  simp only [allDigits, List.all_eq_true] at *
  intro c hc; exact h c (List.mem_of_mem_take hc)

theorem allDigits_drop {s : Str} (h : allDigits s = true) (n : Nat) : allDigits (s.drop n) = true := by
  simp only [allDigits, List.all_eq_true] at *
  intro c hc; exact h c (List.mem_of_mem_drop hc)

/-- body of `"{:f}"` for a negative exponent: `k` fraction digits -/
theorem fmtF_neg_body (c k : Nat) :
    let p := zfill (k + 1) (digits c)
    let ip := p.take (p.length - k)
    let fp := p.drop (p.length - k)
    allDigits ip = true ∧ allDigits fp = true ∧ ip ≠ [] ∧ fp.length = k ∧ num (ip ++ fp) = c := by
  intro p ip fp
  have hp : allDigits p = true := allDigits_zfill (allDigits_digits c)
  have hl := (zfill_length_ge (k + 1) (digits c)).1
  refine ⟨allDigits_take hp _, allDigits_drop hp _, ?_, ?_, ?_⟩
  · intro e
    have : ip.length = 0 := by rw [e]; rfl
    simp only [ip, List.length_take] at this
    change k + 1 ≤ p.length at hl
    omega
  · simp only [fp, List.length_drop]
    change k + 1 ≤ p.length at hl
    omega
  · simp only [ip, fp, List.take_append_drop]
    exact (num_zfill _ _).trans (num_digits c)

theorem decChar_of_allDigits {s : Str} (h : allDigits s = true) : ∀ c ∈ s, decChar c :=
  fun c hc => Or.inl (mem_allDigits h c hc)

/-- what `Decimal(format(d, 'f'))` is, structurally -/
def fmtFBack (neg : Bool) (coeff : Nat) (exp : Int) : PyVal :=
  if 0 ≤ exp then .dec neg (coeff * 10 ^ exp.toNat) 0 else .dec neg coeff exp

theorem decBodyLex_int {b : Str} (h : allDigits b = true) (hne : b ≠ []) : Spec.decBodyLex b = true := by
  unfold Spec.decBodyLex
  simp only [takeDigits_all h, dropDigits_all h]
  cases b with
  | nil => exact absurd rfl hne
  | cons _ _ => rfl

theorem decBodyLex_point {ip fp : Str} (hi : allDigits ip = true) (hf : allDigits fp = true) (hne : ip ≠ []) :
    Spec.decBodyLex (ip ++ '.' :: fp) = true := by
  have h1 : takeDigits (ip ++ '.' :: fp) = ip :=
    takeDigits_append hi (by intro c r h; cases h; decide)
  have h2 : dropDigits (ip ++ '.' :: fp) = '.' :: fp :=
    dropDigits_append hi (by intro c r h; cases h; decide)
  unfold Spec.decBodyLex
  simp only [h1, h2]
  have : ip.isEmpty = false := by cases ip with | nil => exact absurd rfl hne | cons _ _ => rfl
  simpa [this, allDigits] using hf

theorem decLex_signed {b : Str} (hb : Spec.decBodyLex b = true) (hch : ∀ c ∈ b, decChar c) (neg : Bool) :
    Spec.decLex (if neg then '-' :: b else b) = true := by
  cases neg with
  | true => simpa [Spec.decLex] using hb
  | false =>
    simp only [Bool.false_eq_true, if_false]
    unfold Spec.decLex
    split
    · exact absurd rfl (decChar_props (hch '+' (by simp))).2.2.1
    · exact absurd rfl (decChar_props (hch '-' (by simp))).2.2.2
    · exact hb

theorem pyDecimal_signed' {b : Str} (hch : ∀ c ∈ b, decChar c) (neg : Bool) :
    pyDecimal (if neg then '-' :: b else b) = pyDecBody neg b := by
  cases neg with
  | true => simpa using (pyDecimal_signed hch).2.2
  | false => simpa using (pyDecimal_signed hch).1

theorem pyDecimal_fmtF (neg : Bool) (c : Nat) (e : Int) :
    pyDecimal (fmtF neg c e) = some (fmtFBack neg c e) ∧ Spec.decLex (fmtF neg c e) = true := by
  unfold fmtF fmtFBack
  by_cases he : 0 ≤ e
  · simp only [he, if_true]
    by_cases hc : c = 0
    · subst hc
      have hd : allDigits ['0'] = true := by decide
      have hch := decChar_of_allDigits hd
      refine ⟨?_, decLex_signed (decBodyLex_int hd (by simp)) hch neg⟩
      rw [if_pos rfl, pyDecimal_signed' hch, pyDecBody_int neg hd (by simp)]
      simp [num, Nat.ofDigitChars]
    · simp only [hc, if_false]
      have hd : allDigits (digits c ++ List.replicate e.toNat '0') = true := by
        simp [allDigits_append, allDigits_digits, allDigits_replicate_zero]
      have hne : digits c ++ List.replicate e.toNat '0' ≠ [] := by
        simp [digits_ne_nil]
      have hch := decChar_of_allDigits hd
      refine ⟨?_, decLex_signed (decBodyLex_int hd hne) hch neg⟩
      rw [pyDecimal_signed' hch, pyDecBody_int neg hd hne]
      simp [num_append, num_digits, num_replicate_zero]
  · simp only [he, if_false]
    obtain ⟨hi, hf, hne, hlen, hnum⟩ := fmtF_neg_body c (-e).toNat
    have hch : ∀ x ∈ (List.take ((zfill ((-e).toNat + 1) (digits c)).length - (-e).toNat) (zfill ((-e).toNat + 1) (digits c))) ++
        '.' :: List.drop ((zfill ((-e).toNat + 1) (digits c)).length - (-e).toNat) (zfill ((-e).toNat + 1) (digits c)), decChar x := by
      intro x hx
      rcases List.mem_append.mp hx with hx | hx
      · exact Or.inl (mem_allDigits hi x hx)
      · rcases List.mem_cons.mp hx with rfl | hx
        · exact Or.inr rfl
        · exact Or.inl (mem_allDigits hf x hx)
    refine ⟨?_, decLex_signed (decBodyLex_point hi hf hne) hch neg⟩
    rw [pyDecimal_signed' hch, pyDecBody_point neg hi hf (Or.inl hne), hnum, hlen]
    have : -(((-e).toNat : Nat) : Int) = e := by omega
    rw [this]


/-! ### boolean -/
theorem parseBoolean_boolLex (b : Bool) : parseBoolean (boolLex b) = b := by cases b <;> decide
theorem boolVal_boolLex (b : Bool) : Spec.boolVal? (boolLex b) = some b := by cases b <;> decide

theorem boolVal_cases {s : Str} {b : Bool} (h : Spec.boolVal? s = some b) :
    (s = ['t','r','u','e'] ∧ b = true) ∨ (s = ['1'] ∧ b = true) ∨ (s = ['f','a','l','s','e'] ∧ b = false) ∨ (s = ['0'] ∧ b = false) := by
  unfold Spec.boolVal? at h
  split at h
  · rename_i h1; cases h; rcases h1 with h1 | h1 <;> simp [h1]
  · split at h
    · rename_i h1; cases h; rcases h1 with h1 | h1 <;> simp [h1]
    · cases h

theorem parseBoolean_xsd {s : Str} {b : Bool} (h : Spec.boolVal? s = some b) :
    parseBoolean s = b ∧ boolLexicals.contains s = true := by
  rcases boolVal_cases h with ⟨rfl, rfl⟩ | ⟨rfl, rfl⟩ | ⟨rfl, rfl⟩ | ⟨rfl, rfl⟩ <;> decide

/-! ### hexBinary -/
theorem hexVal_hexDigit : ∀ n, n < 16 → hexVal (hexDigit n) = some n := by decide

theorem hexVal_lt {c : Char} {x : Nat} (h : hexVal c = some x) : x < 16 := by
  unfold hexVal at h
  split at h
  · rename_i hd; rw [isDigit_iff] at hd; cases h; omega
  · split at h
    · rename_i hd; simp at hd; cases h; omega
    · split at h
      · rename_i hd; simp at hd; cases h; omega
      · cases h

theorem unhexlify_lt : ∀ {s : Str} {b : List Nat}, unhexlify s = some b → ∀ x ∈ b, x < 256 := by
  intro s
  induction s using unhexlify.induct with
  | case1 => intro b h x hx; simp [unhexlify] at h; subst h; cases hx
  | case2 c => intro b h; simp [unhexlify] at h
  | case3 a b r x y t ht hb ha ih =>
    intro bs h z hz
    simp only [unhexlify, ha, hb, ht] at h
    cases h
    rcases List.mem_cons.mp hz with rfl | hz
    · have := hexVal_lt ha; have := hexVal_lt hb; omega
    · exact ih ht z hz
  | case4 a b r hno ih =>
    intro bs h
    simp only [unhexlify] at h
    cases h

theorem unhexlify_hexlify {b : List Nat} (h : ∀ x ∈ b, x < 256) : unhexlify (hexlify b) = some b := by
  induction b with
  | nil => rfl
  | cons x r ih =>
    have hx : x < 256 := h x (by simp)
    simp only [hexlify, unhexlify]
    rw [hexVal_hexDigit _ (by omega), hexVal_hexDigit _ (by omega), ih (fun y hy => h y (by simp [hy]))]
    simp; omega

theorem hexVal_of_isHex {c : Char} (h : Spec.isHex c = true) : hexVal c = some (Spec.hexNib c) := by
  unfold Spec.isHex at h
  unfold hexVal Spec.hexNib
  by_cases hd : c.isDigit = true
  · simp [hd]
  · have hd' : c.isDigit = false := by simpa using hd
    simp only [hd', Bool.false_or, Bool.or_eq_true, Bool.and_eq_true, decide_eq_true_eq] at h
    simp only [hd', Bool.false_eq_true, if_false]
    rcases h with h | h
    · simp [h.1, h.2]
    · have : ¬ (97 ≤ c.toNat) := by omega
      simp [this, h.1, h.2]

theorem unhexlify_xsd : ∀ {s : Str}, Spec.hexLex s = true → unhexlify s = some (Spec.hexVal s) := by
  intro s
  induction s using Spec.hexLex.induct with
  | case1 => intro _; rfl
  | case2 c => intro h; simp [Spec.hexLex] at h
  | case3 a b r ih =>
    intro h
    simp only [Spec.hexLex, Bool.and_eq_true] at h
    simp only [unhexlify, hexVal_of_isHex h.1.1, hexVal_of_isHex h.1.2, ih h.2, Spec.hexVal]

theorem isHex_hexDigit : ∀ n, n < 16 → Spec.isHex (hexDigit n) = true := by decide

theorem hexLex_hexlify {b : List Nat} (h : ∀ x ∈ b, x < 256) : Spec.hexLex (hexlify b) = true := by
  induction b with
  | nil => rfl
  | cons x r ih =>
    have hx : x < 256 := h x (by simp)
    simp only [hexlify, Spec.hexLex, Bool.and_eq_true]
    exact ⟨⟨isHex_hexDigit _ (by omega), isHex_hexDigit _ (by omega)⟩, ih (fun y hy => h y (by simp [hy]))⟩


/-! ### white-space facet of normalizedString / token -/

def notTNR (c : Char) : Bool := c != '\t' && c != '\n' && c != '\r'

theorem normaliseXsdString_id {s : Str} (h : s.all notTNR = true) : normaliseXsdString s = s := by
  induction s with
  | nil => rfl
  | cons c s ih =>
    simp only [List.all_cons, Bool.and_eq_true] at h
    have hc := h.1
    simp only [notTNR, Bool.and_eq_true, bne_iff_ne, ne_eq] at hc
    simp only [normaliseXsdString, List.map_cons] at ih ⊢
    rw [ih h.2]
    simp [hc.1.1, hc.1.2, hc.2]

theorem all_notTNR_normalise (s : Str) : (normaliseXsdString s).all notTNR = true := by
  induction s with
  | nil => rfl
  | cons c s ih =>
    simp only [normaliseXsdString, List.map_cons, List.all_cons, Bool.and_eq_true] at ih ⊢
    refine ⟨?_, ih⟩
    split <;> simp_all [notTNR]

theorem normaliseXsdString_idem (s : Str) : normaliseXsdString (normaliseXsdString s) = normaliseXsdString s :=
  normaliseXsdString_id (all_notTNR_normalise s)

/-- shape of a collapsed token: no space at either end, no two spaces in a row -/
def headNotSp (s : Str) : Bool := s.head? != some ' '
def lastNotSp : Str → Bool
  | [] => true
  | [c] => c != ' '
  | _ :: cs => lastNotSp cs

theorem stripSpL_id {s : Str} (h : headNotSp s = true) : stripSpL s = s := by
  cases s with
  | nil => rfl
  | cons c s =>
    simp only [headNotSp, List.head?_cons, bne_iff_ne, ne_eq, Option.some.injEq] at h
    simp [stripSpL, h]

theorem stripSpR_id {s : Str} (h : lastNotSp s = true) : stripSpR s = s := by
  induction s with
  | nil => rfl
  | cons c s ih =>
    cases s with
    | nil =>
      simp only [lastNotSp, bne_iff_ne, ne_eq] at h
      simp [stripSpR, h]
    | cons d t =>
      have := ih (by simpa [lastNotSp] using h)
      rw [stripSpR, this]

theorem collapseSpaces_id {s : Str} (h : Spec.noDoubleSpace s = true) : collapseSpaces s = s := by
  induction s with
  | nil => rfl
  | cons c s ih =>
    cases s with
    | nil => simp [collapseSpaces]
    | cons d t =>
      simp only [Spec.noDoubleSpace, Bool.and_eq_true, Bool.not_eq_true'] at h
      have iht := ih h.2
      simp only [collapseSpaces, List.head?_cons] at iht ⊢
      have : (c == ' ' && some d == some ' ') = false := by simpa using h.1
      simp only [this, Bool.false_eq_true, if_false]
      rw [iht]


theorem headNotSp_stripSpL (s : Str) : headNotSp (stripSpL s) = true := by
  induction s with
  | nil => rfl
  | cons c s ih =>
    unfold stripSpL
    split
    · exact ih
    · rename_i hc; simpa [headNotSp] using hc

theorem stripSpR_cases (c : Char) (s : Str) :
    (stripSpR (c :: s) = [] ∧ stripSpR s = [] ∧ c = ' ') ∨ (stripSpR (c :: s) = [c] ∧ stripSpR s = [] ∧ c ≠ ' ')
      ∨ (stripSpR (c :: s) = c :: stripSpR s ∧ stripSpR s ≠ []) := by
  cases hs : stripSpR s with
  | nil =>
    by_cases hc : c = ' '
    · left; simp [stripSpR, hs, hc]
    · right; left; simp [stripSpR, hs, hc]
  | cons d t => right; right; simp [stripSpR, hs]

theorem lastNotSp_stripSpR (s : Str) : lastNotSp (stripSpR s) = true := by
  induction s with
  | nil => rfl
  | cons c s ih =>
    rcases stripSpR_cases c s with ⟨h1, _, _⟩ | ⟨h1, _, hc⟩ | ⟨h1, hne⟩
    · rw [h1]; rfl
    · rw [h1]; simpa [lastNotSp] using hc
    · rw [h1]
      cases hr : stripSpR s with
      | nil => exact absurd hr hne
      | cons d t => rw [hr] at ih; simpa [lastNotSp] using ih

theorem headNotSp_stripSpR {s : Str} (h : headNotSp s = true) : headNotSp (stripSpR s) = true := by
  cases s with
  | nil => rfl
  | cons c s =>
    rcases stripSpR_cases c s with ⟨h1, _, _⟩ | ⟨h1, _, _⟩ | ⟨h1, _⟩ <;> rw [h1]
    · rfl
    · simpa [headNotSp] using h
    · simpa [headNotSp] using h

theorem collapse_ne_nil : ∀ {s : Str}, s ≠ [] → collapseSpaces s ≠ [] := by
  intro s
  induction s with
  | nil => intro h; exact absurd rfl h
  | cons c s ih =>
    intro _
    simp only [collapseSpaces]
    split
    · rename_i hc
      apply ih
      intro e; subst e; simp at hc
    · simp

theorem noDoubleSpace_collapse (s : Str) : Spec.noDoubleSpace (collapseSpaces s) = true := by
  induction s with
  | nil => rfl
  | cons c s ih =>
    simp only [collapseSpaces]
    split
    · exact ih
    · rename_i hc
      cases s with
      | nil => simp [collapseSpaces, Spec.noDoubleSpace]
      | cons d t =>
        -- the collapsed tail starts with `d` or (if `d` is a dropped space) with a space
        simp only [List.head?_cons, Bool.and_eq_true, beq_iff_eq, Option.some.injEq, not_and] at hc
        simp only [collapseSpaces] at ih ⊢
        split
        · rename_i hd
          -- d = ' ' (dropped), so c ≠ ' '
          have hd' : d = ' ' := by
            simp only [Bool.and_eq_true, beq_iff_eq] at hd; exact hd.1
          have hcs : c ≠ ' ' := fun e => hc e hd'
          split at ih
          · cases hr : collapseSpaces t with
            | nil => rfl
            | cons y z =>
              rw [hr] at ih
              simp only [Spec.noDoubleSpace, Bool.and_eq_true, Bool.not_eq_true', Bool.and_eq_false_iff]
              exact ⟨Or.inl (by simpa using hcs), ih⟩
          · rename_i hn; exact absurd hd hn
        · rename_i hd
          split at ih
          · rename_i hp; exact absurd hp hd
          · simp only [Spec.noDoubleSpace, Bool.and_eq_true, Bool.not_eq_true', Bool.and_eq_false_iff]
            refine ⟨?_, ih⟩
            by_cases hcs : c = ' '
            · right; simpa using hc hcs
            · left; simpa using hcs

theorem headNotSp_collapse {s : Str} (h : headNotSp s = true) : headNotSp (collapseSpaces s) = true := by
  cases s with
  | nil => rfl
  | cons c s =>
    have hc : (c == ' ') = false := by simpa [headNotSp] using h
    simp only [collapseSpaces, hc, Bool.false_and, Bool.false_eq_true, if_false]
    simpa [headNotSp] using hc

theorem lastNotSp_collapse : ∀ {s : Str}, lastNotSp s = true → lastNotSp (collapseSpaces s) = true := by
  intro s
  induction s with
  | nil => intro _; rfl
  | cons c s ih =>
    intro h
    cases s with
    | nil => simpa [collapseSpaces] using h
    | cons d t =>
      have h' : lastNotSp (d :: t) = true := by simpa [lastNotSp] using h
      have iht := ih h'
      have hne : collapseSpaces (d :: t) ≠ [] := collapse_ne_nil (by simp)
      rw [collapseSpaces]
      split
      · exact iht
      · cases hr : collapseSpaces (d :: t) with
        | nil => exact absurd hr hne
        | cons y z => rw [hr] at iht; simpa [lastNotSp] using iht

theorem all_stripSpL {p : Char → Bool} {s : Str} (h : s.all p = true) : (stripSpL s).all p = true := by
  induction s with
  | nil => rfl
  | cons c s ih =>
    simp only [List.all_cons, Bool.and_eq_true] at h
    unfold stripSpL
    split
    · exact ih h.2
    · simp [h.1, h.2]

theorem all_stripSpR {p : Char → Bool} {s : Str} (h : s.all p = true) : (stripSpR s).all p = true := by
  induction s with
  | nil => rfl
  | cons c s ih =>
    simp only [List.all_cons, Bool.and_eq_true] at h
    rcases stripSpR_cases c s with ⟨h1, _, _⟩ | ⟨h1, _, _⟩ | ⟨h1, _⟩ <;> rw [h1]
    · rfl
    · simp [h.1]
    · simp [h.1, ih h.2]

theorem all_collapse {p : Char → Bool} {s : Str} (h : s.all p = true) : (collapseSpaces s).all p = true := by
  induction s with
  | nil => rfl
  | cons c s ih =>
    simp only [List.all_cons, Bool.and_eq_true] at h
    simp only [collapseSpaces]
    split
    · exact ih h.2
    · simp [h.1, ih h.2]

/-- the white-space processing is idempotent -/
theorem postProcess_idem (dt : Option Dt) (s : Str) : postProcess dt (postProcess dt s) = postProcess dt s := by
  unfold postProcess
  split
  · exact normaliseXsdString_idem s
  · split
    · have h1 := all_notTNR_normalise s
      have h2 : (stripAndCollapse (normaliseXsdString s)).all notTNR = true :=
        all_collapse (all_stripSpR (all_stripSpL h1))
      rw [normaliseXsdString_id h2]
      unfold stripAndCollapse
      have hh : headNotSp (collapseSpaces (stripSpR (stripSpL (normaliseXsdString s)))) = true :=
        headNotSp_collapse (headNotSp_stripSpR (headNotSp_stripSpL _))
      have hl : lastNotSp (collapseSpaces (stripSpR (stripSpL (normaliseXsdString s)))) = true :=
        lastNotSp_collapse (lastNotSp_stripSpR _)
      rw [stripSpL_id hh, stripSpR_id hl, collapseSpaces_id (noDoubleSpace_collapse _)]
    · rfl

theorem lastNotSp_of_getLast : ∀ {s : Str}, (s.getLast? != some ' ') = true → lastNotSp s = true := by
  intro s
  induction s with
  | nil => intro _; rfl
  | cons c s ih =>
    intro h
    cases s with
    | nil => simpa [lastNotSp] using h
    | cons d t =>
      simp only [lastNotSp]
      apply ih
      simpa [List.getLast?_cons_cons] using h

theorem noTabNlCr_eq (s : Str) : Spec.noTabNlCr s = s.all notTNR := rfl

/-- a form in the lexical space of a string-family datatype is left alone by the white-space processing -/
theorem postProcess_valid {d : Dt} {s : Str} (hc : d.conv = .none) (hv : Spec.validLex d s = true) :
    postProcess (some d) s = s := by
  cases d <;> simp [Dt.conv] at hc
  · rfl
  · -- normalizedString
    simp only [Spec.validLex, Bool.and_eq_true] at hv
    simp only [postProcess]
    exact normaliseXsdString_id (by rw [← noTabNlCr_eq]; exact hv.2)
  · -- token
    simp only [Spec.validLex, Spec.tokenLex, Bool.and_eq_true] at hv
    obtain ⟨_, ⟨⟨⟨h1, h2⟩, h3⟩, h4⟩⟩ := hv
    have : postProcess (some Dt.token) s = stripAndCollapse (normaliseXsdString s) := rfl
    rw [this, normaliseXsdString_id (by rw [← noTabNlCr_eq]; exact h1)]
    unfold stripAndCollapse
    rw [stripSpL_id (by simpa [headNotSp] using h2), stripSpR_id (lastNotSp_of_getLast h3), collapseSpaces_id h4]
  · rfl
  · rfl

end RV.C09
