import RV.C09.Lemmas
/-
  C09 — `parse_xsd_duration (duration_isoformat d) = d`: lemmas.
-/
namespace RV.C09

/-! ### `parse_xsd_duration` reads what `duration_isoformat` writes -/

/-- rendering of a sequence of optional integer fields `n X` -/
def renderFields : List (Char × Option Nat) → Str
  | [] => []
  | (des, some n) :: r => digits n ++ des :: renderFields r
  | (_, none) :: r => renderFields r

def expectToks (fs : List (Char × Option Nat)) : List (Option NumTok) :=
  fs.map (fun p => p.2.map (fun n => (⟨digits n, none⟩ : NumTok)))

theorem tryField_hit {des : Char} (hd : des.isDigit = false) (n : Nat) (rest : Str) :
    tryField des (digits n ++ des :: rest) = some (⟨digits n, none⟩, rest) := by
  have h1 : takeDigits (digits n ++ des :: rest) = digits n :=
    takeDigits_append (allDigits_digits n) (by intro c r h; cases h; exact hd)
  have h2 : dropDigits (digits n ++ des :: rest) = des :: rest :=
    dropDigits_append (allDigits_digits n) (by intro c r h; cases h; exact hd)
  have hne : (digits n).isEmpty = false := by
    cases h : digits n with
    | nil => exact absurd h (digits_ne_nil n)
    | cons _ _ => rfl
  simp [tryField, h1, h2, hne]

theorem tryField_other {des c : Char} (hc : c.isDigit = false) (hne : c ≠ des) (hp : c ≠ '.') (hk : c ≠ ',')
    (n : Nat) (rest : Str) : tryField des (digits n ++ c :: rest) = none := by
  have h1 : takeDigits (digits n ++ c :: rest) = digits n :=
    takeDigits_append (allDigits_digits n) (by intro c' r h; cases h; exact hc)
  have h2 : dropDigits (digits n ++ c :: rest) = c :: rest :=
    dropDigits_append (allDigits_digits n) (by intro c' r h; cases h; exact hc)
  simp [tryField, h1, h2, hne, hp, hk]

theorem tryField_nondigit {des c : Char} (hc : c.isDigit = false) (rest : Str) :
    tryField des (c :: rest) = none := by
  simp [tryField, takeDigits, hc]

theorem tryField_nil (des : Char) : tryField des [] = none := by
  simp [tryField, takeDigits]

theorem miss_render {des : Char} {fs : List (Char × Option Nat)} {rest : Str}
    (hdes : ∀ p ∈ fs, p.1.isDigit = false ∧ p.1 ≠ '.' ∧ p.1 ≠ ',' ∧ p.1 ≠ des)
    (hrest : tryField des rest = none) : tryField des (renderFields fs ++ rest) = none := by
  induction fs with
  | nil => simpa [renderFields] using hrest
  | cons p r ih =>
    obtain ⟨d', on⟩ := p
    have hp := hdes (d', on) (by simp)
    have ihr := ih (fun q hq => hdes q (by simp [hq]))
    cases on with
    | none => simpa [renderFields] using ihr
    | some n =>
      simp only [renderFields, List.append_assoc, List.cons_append]
      exact tryField_other hp.1 hp.2.2.2 hp.2.1 hp.2.2.1 n _

theorem fieldsInOrder_render (fs : List (Char × Option Nat)) (ds2 : List Char) (rest : Str)
    (hdes : ∀ p ∈ fs, p.1.isDigit = false ∧ p.1 ≠ '.' ∧ p.1 ≠ ',')
    (hnodup : (fs.map Prod.fst).Nodup)
    (hrest : ∀ p ∈ fs, tryField p.1 rest = none) :
    fieldsInOrder (fs.map Prod.fst ++ ds2) (renderFields fs ++ rest) =
      (expectToks fs ++ (fieldsInOrder ds2 rest).1, (fieldsInOrder ds2 rest).2) := by
  induction fs with
  | nil => simp [renderFields, expectToks]
  | cons p r ih =>
    obtain ⟨des, on⟩ := p
    have hp := hdes (des, on) (by simp)
    simp only [List.map_cons, List.nodup_cons] at hnodup
    have ihr := ih (fun q hq => hdes q (by simp [hq])) hnodup.2 (fun q hq => hrest q (by simp [hq]))
    cases on with
    | some n =>
      simp only [renderFields, List.map_cons, List.cons_append, List.append_assoc, fieldsInOrder,
        tryField_hit hp.1]
      rw [ihr]
      simp [expectToks]
    | none =>
      have hmiss : tryField des (renderFields r ++ rest) = none := by
        apply miss_render
        · intro q hq
          have hq' := hdes q (by simp [hq])
          refine ⟨hq'.1, hq'.2.1, hq'.2.2, ?_⟩
          intro e
          exact hnodup.1 (by rw [← e]; exact List.mem_map_of_mem hq)
        · exact hrest (des, none) (by simp)
      simp only [renderFields, List.map_cons, List.cons_append, fieldsInOrder, hmiss]
      rw [ihr]
      simp [expectToks]

theorem rstrip0_append_of_ne {a b : Str} (h : rstrip0 b ≠ []) : rstrip0 (a ++ b) = a ++ rstrip0 b := by
  induction a with
  | nil => rfl
  | cons c a ih =>
    simp only [List.cons_append, rstrip0, ih]
    cases hr : a ++ rstrip0 b with
    | nil =>
      have : rstrip0 b = [] := by
        cases a with
        | nil => simpa using hr
        | cons _ _ => simp at hr
      exact absurd this h
    | cons d t => rfl

theorem rstrip0_nil_iff {s : Str} (h : rstrip0 s = []) : s = List.replicate s.length '0' := by
  induction s with
  | nil => rfl
  | cons c s ih =>
    simp only [rstrip0] at h
    split at h
    · rename_i hr
      split at h
      · rename_i hc
        have hc' : c = '0' := by simpa using hc
        rw [hc', List.length_cons, List.replicate_succ, ← ih hr]
      · cases h
    · cases h

/-- `s` = its `rstrip("0")` followed by the stripped zeros -/
theorem rstrip0_prefix (s : Str) : s = rstrip0 s ++ List.replicate (s.length - (rstrip0 s).length) '0' := by
  induction s with
  | nil => rfl
  | cons c s ih =>
    simp only [rstrip0]
    split
    · rename_i hr
      have hs := rstrip0_nil_iff hr
      split
      · rename_i hc
        have hc' : c = '0' := by simpa using hc
        subst hc'
        simp only [List.nil_append, List.length_nil, Nat.sub_zero, List.length_cons, List.replicate_succ]
        rw [← hs]
      · simp only [List.length_cons, List.length_nil, List.cons_append, List.nil_append]
        rw [show s.length + 1 - (0 + 1) = s.length by omega, ← hs]
    · rename_i r hne
      generalize hr : rstrip0 s = r' at *
      simp only [List.cons_append, List.length_cons]
      rw [show s.length + 1 - (r'.length + 1) = s.length - r'.length by omega, ← ih]

theorem rstrip0_length_le (s : Str) : (rstrip0 s).length ≤ s.length := by
  have h := congrArg List.length (rstrip0_prefix s)
  simp only [List.length_append, List.length_replicate] at h
  omega

theorem allDigits_rstrip0 {s : Str} (h : allDigits s = true) : allDigits (rstrip0 s) = true := by
  have hp := rstrip0_prefix s
  rw [hp, allDigits_append, Bool.and_eq_true] at h
  exact h.1

theorem rstrip0_ne_nil_of_num {s : Str} (h : num s ≠ 0) : rstrip0 s ≠ [] := by
  intro e
  have := rstrip0_nil_iff e
  rw [this, num_replicate_zero] at h
  exact h rfl

theorem digitsW_length {w n : Nat} (hw : 0 < w) (h : n < 10 ^ w) : (digitsW w n).length = w := by
  have : (digits n).length ≤ w := (Nat.length_toDigits_le_iff (by decide) hw).mpr h
  simp only [digitsW, zfill, List.length_append, List.length_replicate]
  omega

/-- `_seconds_to_microseconds` on what `duration_isoformat` prints for `s.uuuuuu` -/
theorem secondsToMicros_printed (s us : Nat) (hus : us < 1000000) :
    secondsToMicros (digits s) (rstrip0 (digitsW 6 us)) = s * 1000000 + us := by
  have hlen : (digitsW 6 us).length = 6 := digitsW_length (by decide) (by simpa using hus)
  have hpre := rstrip0_prefix (digitsW 6 us)
  have hle := rstrip0_length_le (digitsW 6 us)
  generalize hR : rstrip0 (digitsW 6 us) = R at *
  have hRlen : R.length ≤ 6 := by omega
  have htake : (R ++ ['0', '0', '0', '0', '0', '0']).take 6 = digitsW 6 us := by
    rw [hpre, hlen]
    have : ['0', '0', '0', '0', '0', '0'] = List.replicate (6 - R.length) '0' ++ List.replicate R.length '0' := by
      rw [List.replicate_append_replicate]
      have : 6 - R.length + R.length = 6 := by omega
      rw [this]; rfl
    rw [this, ← List.append_assoc, List.take_append_of_le_length (by simp; omega)]
    rw [List.take_of_length_le (by simp; omega)]
  have hdrop : R.drop 6 = [] := List.drop_eq_nil_of_le hRlen
  unfold secondsToMicros
  simp only [htake, hdrop, rstrip0, gtHalf, num_digits]
  have : num (digitsW 6 us) = us := by rw [digitsW, num_zfill, num_digits]
  simp [this]


def optN (n : Nat) : Option Nat := if n != 0 then some n else none

/-- the seconds field as `duration_isoformat` prints it -/
def secSeg (s us : Nat) : Str :=
  if s != 0 || us != 0 then
    (if us != 0 then rstrip0 (digits s ++ '.' :: digitsW 6 us) else digits s) ++ ['S']
  else []

/-- the part after the date fields -/
def timePart (h mi s us : Nat) : Str :=
  if h != 0 || mi != 0 || s != 0 || us != 0 then
    'T' :: (renderFields [('H', optN h), ('M', optN mi)] ++ secSeg s us)
  else []

theorem seg_eq (n : Nat) (des : Char) :
    (if n != 0 then digits n ++ [des] else []) = renderFields [(des, optN n)] := by
  unfold optN
  split <;> simp [renderFields]

theorem renderFields_append (a b : List (Char × Option Nat)) :
    renderFields (a ++ b) = renderFields a ++ renderFields b := by
  induction a with
  | nil => rfl
  | cons p r ih =>
    obtain ⟨d, on⟩ := p
    cases on <;> simp [renderFields, ih]

theorem dayTimeIso_eq (u : Nat) :
    dayTimeIso u = renderFields [('D', optN (u / 1000000 / 60 / 60 / 24))] ++
      timePart (u / 1000000 / 60 / 60 % 24) (u / 1000000 / 60 % 60) (u / 1000000 % 60) (u % 1000000) := by
  simp only [dayTimeIso, timePart, secSeg, ← seg_eq]
  have : renderFields [('H', optN (u / 1000000 / 60 / 60 % 24)), ('M', optN (u / 1000000 / 60 % 60))] =
      (if (u / 1000000 / 60 / 60 % 24) != 0 then digits (u / 1000000 / 60 / 60 % 24) ++ ['H'] else []) ++
      (if (u / 1000000 / 60 % 60) != 0 then digits (u / 1000000 / 60 % 60) ++ ['M'] else []) := by
    rw [seg_eq, seg_eq, ← renderFields_append]; rfl
  rw [this]


theorem tryField_frac {des c : Char} (hdp : des ≠ '.') (n : Nat) {fp : Str} (hf : allDigits fp = true) (hne : fp ≠ [])
    (hc : c.isDigit = false) (rest : Str) :
    tryField des (digits n ++ '.' :: (fp ++ c :: rest)) =
      if c == des then some (⟨digits n, some fp⟩, rest) else none := by
  have h1 : takeDigits (digits n ++ '.' :: (fp ++ c :: rest)) = digits n :=
    takeDigits_append (allDigits_digits n) (by intro c' r h; cases h; decide)
  have h2 : dropDigits (digits n ++ '.' :: (fp ++ c :: rest)) = '.' :: (fp ++ c :: rest) :=
    dropDigits_append (allDigits_digits n) (by intro c' r h; cases h; decide)
  have h3 : takeDigits (fp ++ c :: rest) = fp := takeDigits_append hf (by intro c' r h; cases h; exact hc)
  have h4 : dropDigits (fp ++ c :: rest) = c :: rest := dropDigits_append hf (by intro c' r h; cases h; exact hc)
  have hne1 : (digits n).isEmpty = false := by
    cases h : digits n with
    | nil => exact absurd h (digits_ne_nil n)
    | cons _ _ => rfl
  have hne2 : fp.isEmpty = false := by
    cases fp with
    | nil => exact absurd rfl hne
    | cons _ _ => rfl
  unfold tryField
  simp only [h1, h2, hne1, Bool.false_eq_true, if_false]
  have : (('.' : Char) == des) = false := by simpa using Ne.symm hdp
  simp [this, h3, h4, hne2]

/-- the token of the seconds field -/
def secTok (s us : Nat) : Option NumTok :=
  if s != 0 || us != 0 then some ⟨digits s, if us != 0 then some (rstrip0 (digitsW 6 us)) else none⟩ else none

theorem secSeg_frac {s us : Nat} (hus : us ≠ 0) :
    secSeg s us = digits s ++ '.' :: (rstrip0 (digitsW 6 us) ++ ['S']) ∧
      allDigits (rstrip0 (digitsW 6 us)) = true ∧ rstrip0 (digitsW 6 us) ≠ [] := by
  have hF : allDigits (digitsW 6 us) = true := allDigits_zfill (allDigits_digits us)
  have hnum : num (digitsW 6 us) ≠ 0 := by rw [digitsW, num_zfill, num_digits]; exact hus
  have hne := rstrip0_ne_nil_of_num hnum
  refine ⟨?_, allDigits_rstrip0 hF, hne⟩
  have h1 : rstrip0 ('.' :: digitsW 6 us) = '.' :: rstrip0 (digitsW 6 us) :=
    rstrip0_append_of_ne (a := ['.']) hne
  have h2 : rstrip0 (digits s ++ '.' :: digitsW 6 us) = digits s ++ '.' :: rstrip0 (digitsW 6 us) := by
    rw [rstrip0_append_of_ne (by rw [h1]; simp), h1]
  have hb : (us != 0) = true := by simpa using hus
  simp [secSeg, hb, h2]

theorem fieldsInOrder_secSeg (s us : Nat) (hlt : us < 1000000) :
    fieldsInOrder ['S'] (secSeg s us) = ([secTok s us], []) := by
  by_cases hus : us = 0
  · subst hus
    by_cases hs : s = 0
    · subst hs; simp [secSeg, secTok, fieldsInOrder, tryField_nil]
    · have hb : (s != 0) = true := by simpa using hs
      simp [secSeg, secTok, hb, fieldsInOrder, tryField_hit (des := 'S') (by decide)]
  · obtain ⟨h1, h2, h3⟩ := secSeg_frac (s := s) hus
    have hb : (us != 0) = true := by simpa using hus
    rw [h1]
    simp [fieldsInOrder, tryField_frac (des := 'S') (by decide) s h2 h3 (c := 'S') (by decide), secTok, hb]

theorem tryField_secSeg_miss {des : Char} (hd : des ≠ 'S') (hdp : des ≠ '.') (s us : Nat) (hlt : us < 1000000) :
    tryField des (secSeg s us) = none := by
  by_cases hus : us = 0
  · subst hus
    by_cases hs : s = 0
    · subst hs; simp [secSeg, tryField_nil]
    · have hb : (s != 0) = true := by simpa using hs
      simp only [secSeg, hb, Bool.true_or, if_true, bne_self_eq_false, Bool.false_eq_true, if_false]
      exact tryField_other (by decide) (Ne.symm hd) (by decide) (by decide) s []
  · obtain ⟨h1, h2, h3⟩ := secSeg_frac (s := s) hus
    rw [h1, tryField_frac hdp s h2 h3 (c := 'S') (by decide)]
    have : ('S' == des) = false := by simpa using Ne.symm hd
    simp [this]


def tokOf (on : Option Nat) : Option NumTok := on.map (fun n => (⟨digits n, none⟩ : NumTok))

def notNl (s : Str) : Bool := s.all (fun c => c != '\n')

theorem lastChar?_ne_nl : ∀ {s : Str}, notNl s = true → (lastChar? s == some '\n') = false := by
  intro s
  induction s with
  | nil => intro _; rfl
  | cons c s ih =>
    intro h
    simp only [notNl, List.all_cons, Bool.and_eq_true, bne_iff_ne, ne_eq] at h
    cases s with
    | nil => simpa [lastChar?] using h.1
    | cons d t =>
      simp only [lastChar?]
      exact ih (by simpa [notNl] using h.2)

theorem notNl_digits (n : Nat) : notNl (digits n) = true := by
  simp only [notNl, List.all_eq_true]
  intro c hc
  have := mem_allDigits (allDigits_digits n) c hc
  have : c ≠ '\n' := digit_ne this (by decide)
  simpa using this

theorem all_rstrip0 {p : Char → Bool} {s : Str} (h : s.all p = true) : (rstrip0 s).all p = true := by
  have hp := rstrip0_prefix s
  rw [hp, List.all_append, Bool.and_eq_true] at h
  exact h.1

theorem notNl_renderFields {fs : List (Char × Option Nat)} (h : ∀ p ∈ fs, p.1 ≠ '\n') :
    notNl (renderFields fs) = true := by
  induction fs with
  | nil => rfl
  | cons p r ih =>
    obtain ⟨d, on⟩ := p
    have hd := h (d, on) (by simp)
    have ihr := ih (fun q hq => h q (by simp [hq]))
    cases on with
    | none => simpa [renderFields] using ihr
    | some n =>
      simp only [renderFields, notNl, List.all_append, List.all_cons, Bool.and_eq_true] at ihr ⊢
      exact ⟨notNl_digits n, by simpa using hd, ihr⟩

theorem notNl_secSeg (s us : Nat) : notNl (secSeg s us) = true := by
  unfold secSeg
  split
  · split
    · simp only [notNl, List.all_append, Bool.and_eq_true]
      refine ⟨all_rstrip0 ?_, by decide⟩
      simp only [List.all_append, List.all_cons, Bool.and_eq_true]
      have h1 := notNl_digits s
      have h2 : notNl (digitsW 6 us) = true := by
        simp only [notNl, digitsW, zfill, List.all_append, Bool.and_eq_true]
        exact ⟨by simp, notNl_digits us⟩
      exact ⟨h1, by decide, h2⟩
    · simp only [notNl, List.all_append, Bool.and_eq_true]
      exact ⟨notNl_digits s, by decide⟩
  · rfl

theorem tryField_timePart (des : Char) (h mi s us : Nat) : tryField des (timePart h mi s us) = none := by
  unfold timePart
  split
  · exact tryField_nondigit (by decide) _
  · exact tryField_nil des

theorem desig4 (oy om od : Option Nat) :
    ∀ p ∈ [('Y', oy), ('M', om), ('W', (none : Option Nat)), ('D', od)],
      p.1.isDigit = false ∧ p.1 ≠ '.' ∧ p.1 ≠ ',' ∧ p.1 ≠ '\n' := by
  intro p hp
  simp only [List.mem_cons, List.not_mem_nil, or_false] at hp
  rcases hp with rfl | rfl | rfl | rfl <;> (dsimp only; decide)

theorem desig2 (oh om : Option Nat) :
    ∀ p ∈ [('H', oh), ('M', om)],
      p.1.isDigit = false ∧ p.1 ≠ '.' ∧ p.1 ≠ ',' ∧ p.1 ≠ '\n' ∧ p.1 ≠ 'S' := by
  intro p hp
  simp only [List.mem_cons, List.not_mem_nil, or_false] at hp
  rcases hp with rfl | rfl <;> (dsimp only; decide)

theorem notNl_timePart (h mi s us : Nat) : notNl (timePart h mi s us) = true := by
  unfold timePart
  split
  · simp only [notNl, List.all_cons, List.all_append, Bool.and_eq_true]
    exact ⟨by decide, notNl_renderFields (fun p hp => (desig2 _ _ p hp).2.2.2.1), notNl_secSeg s us⟩
  · rfl

theorem periodBody_render (neg : Bool) (oy om od : Option Nat) (h mi s us : Nat) (hlt : us < 1000000)
    (hne : renderFields [('Y', oy), ('M', om), ('W', none), ('D', od)] ++ timePart h mi s us ≠ []) :
    periodBody neg (renderFields [('Y', oy), ('M', om), ('W', none), ('D', od)] ++ timePart h mi s us) =
      some ⟨neg, tokOf oy, tokOf om, none, tokOf od, tokOf (optN h), tokOf (optN mi), secTok s us⟩ := by
  -- the date fields
  have hdate : fieldsInOrder ['Y', 'M', 'W', 'D']
      (renderFields [('Y', oy), ('M', om), ('W', none), ('D', od)] ++ timePart h mi s us) =
      ([tokOf oy, tokOf om, none, tokOf od], timePart h mi s us) := by
    have := fieldsInOrder_render [('Y', oy), ('M', om), ('W', none), ('D', od)] [] (timePart h mi s us)
      (fun p hp => ⟨(desig4 _ _ _ p hp).1, (desig4 _ _ _ p hp).2.1, (desig4 _ _ _ p hp).2.2.1⟩)
      (by simp)
      (by intro p _; exact tryField_timePart p.1 h mi s us)
    simpa [fieldsInOrder, expectToks, tokOf] using this
  -- the time fields
  have htime : ∀ r2, timePart h mi s us = 'T' :: r2 →
      fieldsInOrder ['H', 'M', 'S'] r2 = ([tokOf (optN h), tokOf (optN mi), secTok s us], []) := by
    intro r2 h2
    unfold timePart at h2
    split at h2
    · cases h2
      have := fieldsInOrder_render [('H', optN h), ('M', optN mi)] ['S'] (secSeg s us)
        (fun p hp => ⟨(desig2 _ _ p hp).1, (desig2 _ _ p hp).2.1, (desig2 _ _ p hp).2.2.1⟩)
        (by simp)
        (fun p hp => tryField_secSeg_miss (desig2 _ _ p hp).2.2.2.2 (desig2 _ _ p hp).2.1 s us hlt)
      rw [fieldsInOrder_secSeg s us hlt] at this
      simpa [expectToks, tokOf] using this
    · cases h2
  have hrne : (renderFields [('Y', oy), ('M', om), ('W', none), ('D', od)] ++ timePart h mi s us).isEmpty = false := by
    cases hh : renderFields [('Y', oy), ('M', om), ('W', none), ('D', od)] ++ timePart h mi s us with
    | nil => exact absurd hh hne
    | cons _ _ => rfl
  unfold periodBody
  rw [hrne, hdate]
  simp only [Bool.false_eq_true, if_false]
  cases htp : timePart h mi s us with
  | nil =>
    have h0 : h = 0 ∧ mi = 0 ∧ s = 0 ∧ us = 0 := by
      unfold timePart at htp
      split at htp
      · cases htp
      · rename_i hc; simp at hc; omega
    obtain ⟨rfl, rfl, rfl, rfl⟩ := h0
    simp [tokOf, optN, secTok]
  | cons c r2 =>
    have hc : c = 'T' := by
      unfold timePart at htp
      split at htp
      · cases htp; rfl
      · cases htp
    subst hc
    simp [htime r2 htp]

theorem matchPeriod_render (neg : Bool) (oy om od : Option Nat) (h mi s us : Nat) (hlt : us < 1000000)
    (hne : renderFields [('Y', oy), ('M', om), ('W', none), ('D', od)] ++ timePart h mi s us ≠ []) :
    matchPeriod ((if neg then ['-', 'P'] else ['P']) ++
        (renderFields [('Y', oy), ('M', om), ('W', none), ('D', od)] ++ timePart h mi s us)) =
      some ⟨neg, tokOf oy, tokOf om, none, tokOf od, tokOf (optN h), tokOf (optN mi), secTok s us⟩ := by
  have hnl : notNl ((if neg then ['-', 'P'] else ['P']) ++
      (renderFields [('Y', oy), ('M', om), ('W', none), ('D', od)] ++ timePart h mi s us)) = true := by
    simp only [notNl, List.all_append, Bool.and_eq_true]
    exact ⟨by cases neg <;> decide, notNl_renderFields (fun p hp => (desig4 _ _ _ p hp).2.2.2), notNl_timePart h mi s us⟩
  unfold matchPeriod
  rw [lastChar?_ne_nl hnl]
  cases neg with
  | true => simpa using periodBody_render true oy om od h mi s us hlt hne
  | false => simpa using periodBody_render false oy om od h mi s us hlt hne

theorem renderFields_nil_iff4 (oy om od : Option Nat) :
    renderFields [('Y', oy), ('M', om), ('W', none), ('D', od)] = [] ↔ oy = none ∧ om = none ∧ od = none := by
  cases oy <;> cases om <;> cases od <;> simp [renderFields, digits_ne_nil]

theorem timePart_nil_iff (h mi s us : Nat) : timePart h mi s us = [] ↔ h = 0 ∧ mi = 0 ∧ s = 0 ∧ us = 0 := by
  unfold timePart
  split
  · rename_i hc
    simp only [Bool.or_eq_true, bne_iff_ne, ne_eq] at hc
    constructor
    · intro e; cases e
    · intro ⟨a, b, c, d⟩; omega
  · rename_i hc
    simp only [Bool.or_eq_true, bne_iff_ne, ne_eq, not_or, Decidable.not_not] at hc
    simp; omega

/-- the year-month fields `duration_isoformat` prints -/
def ymFields (hasYM : Bool) (a : Nat) (months : Int) : Option Nat × Option Nat :=
  (if hasYM && a / 12 != 0 then some (a / 12) else none, if hasYM && months != 0 then some (a % 12) else none)

/-- `duration_isoformat` as a rendering of optional fields -/
theorem durationIso_eq (y m us : Int) (isDur : Bool) (lx : Str) (h : durationIso y m us isDur = some lx) :
    let hasYM := isDur && !(y == 0 && m == 0)
    let a := (y * 12 + m).natAbs
    let U := us.natAbs
    let minus := (hasYM && decide (y * 12 + m < 0)) || decide (us < 0)
    let oy := (ymFields hasYM a m).1
    let om := (ymFields hasYM a m).2
    let d := U / 1000000 / 60 / 60 / 24
    let od := if oy = none ∧ om = none ∧ U = 0 then some 0 else optN d
    lx = (if minus then ['-', 'P'] else ['P']) ++
      (renderFields [('Y', oy), ('M', om), ('W', none), ('D', od)] ++
        timePart (U / 1000000 / 60 / 60 % 24) (U / 1000000 / 60 % 60) (U / 1000000 % 60) (U % 1000000)) := by
  intro hasYM a U minus oy om d od
  -- the two halves of the output as field renderings
  have hym : (if hasYM then (if a / 12 != 0 then digits (a / 12) ++ ['Y'] else []) ++
      (if m != 0 then digits (a % 12) ++ ['M'] else []) else []) = renderFields [('Y', oy), ('M', om)] := by
    simp only [oy, om, ymFields]
    cases hasYM <;> simp only [Bool.true_and, Bool.false_and, Bool.false_eq_true, if_false, if_true, renderFields]
    split <;> split <;> simp [renderFields]
  have hdt : (if us == 0 then [] else dayTimeIso U) =
      renderFields [('D', optN d)] ++
        timePart (U / 1000000 / 60 / 60 % 24) (U / 1000000 / 60 % 60) (U / 1000000 % 60) (U % 1000000) := by
    split
    · rename_i h0
      have : U = 0 := by simp only [U]; simpa using h0
      simp [this, d, optN, renderFields, timePart]
    · exact dayTimeIso_eq U
  have hsplit : ∀ od', renderFields [('Y', oy), ('M', om), ('W', none), ('D', od')] =
      renderFields [('Y', oy), ('M', om)] ++ renderFields [('D', od')] := by
    intro od'
    rw [← renderFields_append]
    cases oy <;> cases om <;> cases od' <;> simp [renderFields]
  have hempty : (renderFields [('Y', oy), ('M', om)] ++ (renderFields [('D', optN d)] ++
      timePart (U / 1000000 / 60 / 60 % 24) (U / 1000000 / 60 % 60) (U / 1000000 % 60) (U % 1000000))).isEmpty = true
      ↔ (oy = none ∧ om = none ∧ U = 0) := by
    rw [List.isEmpty_iff, List.append_eq_nil_iff, List.append_eq_nil_iff, timePart_nil_iff]
    have h1 : renderFields [('Y', oy), ('M', om)] = [] ↔ oy = none ∧ om = none := by
      cases oy <;> cases om <;> simp [renderFields, digits_ne_nil]
    have h2 : renderFields [('D', optN d)] = [] ↔ d = 0 := by
      unfold optN
      split
      · rename_i hd; simp [renderFields, digits_ne_nil] ; simpa using hd
      · rename_i hd; simp [renderFields]; simpa using hd
    rw [h1, h2]
    simp only [d]
    constructor
    · rintro ⟨⟨a1, a2⟩, a3, a4, a5, a6, a7⟩; exact ⟨a1, a2, by omega⟩
    · rintro ⟨a1, a2, a3⟩; exact ⟨⟨a1, a2⟩, by omega, by omega, by omega, by omega, by omega⟩
  simp only [durationIso] at h
  split at h
  · cases h
  · split at h
    · cases h
    · rw [hym, hdt] at h
      split at h
      · rename_i he
        have he' := hempty.mp he
        have hod : od = some 0 := by simp only [od]; rw [if_pos he']
        have hU : U = 0 := he'.2.2
        cases h
        rw [hod, hsplit, he'.1, he'.2.1, hU]
        simp only [minus, hasYM]
        split <;> simp [renderFields, timePart, digits, Nat.toDigits, Nat.toDigitsCore, Nat.digitChar]
      · rename_i he
        have he' : ¬ (oy = none ∧ om = none ∧ U = 0) := fun hh => he (hempty.mpr hh)
        have hod : od = optN d := by simp only [od]; rw [if_neg he']
        cases h
        rw [hod, hsplit]
        simp only [minus, hasYM, List.append_assoc]


theorem tokInt_tokOf (on : Option Nat) : tokInt (tokOf on) = on.getD 0 := by
  cases on <;> simp [tokOf, tokInt, num_digits]

theorem optN_getD (n : Nat) : (optN n).getD 0 = n := by
  unfold optN; split
  · rfl
  · rename_i h; simp at h; simp [h]

theorem tokMicros_secTok (s us : Nat) (hlt : us < 1000000) : tokMicros (secTok s us) = s * 1000000 + us := by
  unfold secTok
  split
  · split
    · simp only [tokMicros, Option.getD_some]
      exact secondsToMicros_printed s us hlt
    · rename_i h0
      have : us = 0 := by simpa using h0
      subst this
      have hz : num ['0', '0', '0', '0', '0', '0'] = 0 := by decide
      simp [tokMicros, secondsToMicros, rstrip0, gtHalf, num_digits, hz]
  · rename_i h0
    simp only [Bool.or_eq_true, bne_iff_ne, ne_eq, not_or, Decidable.not_not] at h0
    simp [tokMicros, h0.1, h0.2]



theorem tokInt_none : tokInt none = 0 := rfl

/-- `durOfRaw` on the record `matchPeriod_render` produces -/
theorem durOfRaw_render (neg : Bool) (oy om od : Option Nat) (h mi s u : Nat) (hlt : u < 1000000) :
    durOfRaw ⟨neg, tokOf oy, tokOf om, none, tokOf od, tokOf (optN h), tokOf (optN mi), secTok s u⟩ =
      (let years := oy.getD 0
       let months := om.getD 0
       let us : Int := ((((((0 * 7 + od.getD 0) * 24 + h) * 60 + mi) * 60 : Nat) : Int) * 1000000)
          + ((s * 1000000 + u : Nat) : Int)
       if !tdInRange us then none
       else if years == 0 && months == 0 then
         (if tdInRange (if neg then -us else us) then some (.timedelta (if neg then -us else us)) else none)
       else
         (if neg then
            (if !tdInRange (-us) then none
             else some (.duration (-((years + months / 12 : Nat) : Int) + (-((months % 12 : Nat) : Int)) / 12)
               ((-((months % 12 : Nat) : Int)) % 12) (-us)))
          else some (.duration ((years + months / 12 : Nat) : Int) ((months % 12 : Nat) : Int) us))) := by
  simp only [durOfRaw, tokInt_tokOf, optN_getD, tokMicros_secTok s u hlt, tokInt_none]



def dHasYM (y m : Int) (isDur : Bool) : Bool := isDur && !(y == 0 && m == 0)
def dMinus (y m us : Int) (isDur : Bool) : Bool := (dHasYM y m isDur && decide (y * 12 + m < 0)) || decide (us < 0)
def dOy (y m : Int) (isDur : Bool) : Option Nat := (ymFields (dHasYM y m isDur) (y * 12 + m).natAbs m).1
def dOm (y m : Int) (isDur : Bool) : Option Nat := (ymFields (dHasYM y m isDur) (y * 12 + m).natAbs m).2
def dOd (y m us : Int) (isDur : Bool) : Option Nat :=
  if dOy y m isDur = none ∧ dOm y m isDur = none ∧ us.natAbs = 0 then some 0
  else optN (us.natAbs / 1000000 / 60 / 60 / 24)

theorem durationIso_eq' (y m us : Int) (isDur : Bool) (lx : Str) (h : durationIso y m us isDur = some lx) :
    lx = (if dMinus y m us isDur then ['-', 'P'] else ['P']) ++
      (renderFields [('Y', dOy y m isDur), ('M', dOm y m isDur), ('W', none), ('D', dOd y m us isDur)] ++
        timePart (us.natAbs / 1000000 / 60 / 60 % 24) (us.natAbs / 1000000 / 60 % 60)
          (us.natAbs / 1000000 % 60) (us.natAbs % 1000000)) :=
  durationIso_eq y m us isDur lx h

theorem durationIso_sign (y m us : Int) (isDur : Bool) (lx : Str) (h : durationIso y m us isDur = some lx) :
    ¬ (us < 0 ∧ dHasYM y m isDur = true ∧ ¬ (y * 12 + m < 0)) ∧
      ¬ (0 < us ∧ dHasYM y m isDur = true ∧ y * 12 + m < 0) := by
  simp only [durationIso] at h
  split at h
  · cases h
  · rename_i h1
    split at h
    · cases h
    · rename_i h2
      unfold dHasYM
      constructor
      · rintro ⟨a1, a2, a3⟩; apply h1; rw [a2]; simp [a1, a3]
      · rintro ⟨a1, a2, a3⟩; apply h2; rw [a2]; simp [a1, a3]

theorem rendered_ne_nil (y m us : Int) (isDur : Bool) :
    renderFields [('Y', dOy y m isDur), ('M', dOm y m isDur), ('W', none), ('D', dOd y m us isDur)] ++
      timePart (us.natAbs / 1000000 / 60 / 60 % 24) (us.natAbs / 1000000 / 60 % 60)
        (us.natAbs / 1000000 % 60) (us.natAbs % 1000000) ≠ [] := by
  intro e
  rw [List.append_eq_nil_iff, renderFields_nil_iff4, timePart_nil_iff] at e
  obtain ⟨⟨h1, h2, h3⟩, h4, h5, h6, h7⟩ := e
  unfold dOd at h3
  split at h3
  · cases h3
  · rename_i hc
    have hd : us.natAbs / 1000000 / 60 / 60 / 24 = 0 := by
      unfold optN at h3
      split at h3
      · cases h3
      · rename_i hn; simpa using hn
    exact hc ⟨h1, h2, by omega⟩



theorem dOd_getD (y m us : Int) (isDur : Bool) :
    (dOd y m us isDur).getD 0 = us.natAbs / 1000000 / 60 / 60 / 24 := by
  unfold dOd
  split
  · rename_i hc; simp; omega
  · exact optN_getD _

theorem recompose (U : Nat) :
    ((((((0 * 7 + U / 1000000 / 60 / 60 / 24) * 24 + U / 1000000 / 60 / 60 % 24) * 60 + U / 1000000 / 60 % 60) * 60 : Nat) : Int)
      * 1000000) + ((U / 1000000 % 60 * 1000000 + U % 1000000 : Nat) : Int) = (U : Int) := by
  omega

theorem tdInRange_natAbs {us : Int} (h : tdInRange us = true) : tdInRange (us.natAbs : Int) = true := by
  simp only [tdInRange, Bool.and_eq_true, decide_eq_true_eq] at h ⊢
  omega

theorem tdInRange_neg_natAbs {us : Int} (h : tdInRange us = true) (hn : us ≤ 0) : tdInRange (-(us.natAbs : Int)) = true := by
  have : -(us.natAbs : Int) = us := by omega
  rw [this]; exact h

/-- `parse_xsd_duration(duration_isoformat(d)) == d` on integer microseconds:
    a timedelta (`isDur = false`) or a Duration with `0 ≤ months < 12` (the constructor's invariant),
    inside timedelta's range -/
theorem parse_durationIso (y m us : Int) (isDur : Bool) (lx : Str)
    (hm : 0 ≤ m ∧ m < 12) (hr1 : tdInRange us = true)
    (h : durationIso y m us isDur = some lx) :
    parseXsdDuration lx =
      some (if dHasYM y m isDur then .duration y m us else .timedelta us) := by
  have hs := durationIso_eq' y m us isDur lx h
  obtain ⟨hs1, hs2⟩ := durationIso_sign y m us isDur lx h
  have hlt : us.natAbs % 1000000 < 1000000 := Nat.mod_lt _ (by decide)
  rw [hs]
  unfold parseXsdDuration
  rw [matchPeriod_render _ _ _ _ _ _ _ _ hlt (rendered_ne_nil y m us isDur)]
  simp only []
  rw [durOfRaw_render _ _ _ _ _ _ _ _ hlt]
  simp only [dOd_getD, recompose]
  have hUr : tdInRange (us.natAbs : Int) = true := tdInRange_natAbs hr1
  simp only [hUr, Bool.not_true, Bool.false_eq_true, if_false]
  by_cases hYM : dHasYM y m isDur = true
  · have hne0 : ¬ (y = 0 ∧ m = 0) := by
      intro ⟨h1, h2⟩; subst h1; subst h2; simp [dHasYM] at hYM
    have htot : y * 12 + m ≠ 0 := by
      intro e; apply hne0; constructor <;> omega
    have hoy : (dOy y m isDur).getD 0 = (y * 12 + m).natAbs / 12 := by
      simp only [dOy, ymFields, hYM, Bool.true_and]
      split
      · rfl
      · rename_i hc; simp at hc; simp only [Option.getD_none]; omega
    have hom : (dOm y m isDur).getD 0 = (y * 12 + m).natAbs % 12 := by
      simp only [dOm, ymFields, hYM, Bool.true_and]
      split
      · rfl
      · rename_i hc
        have : m = 0 := by simpa using hc
        subst this
        simp; omega
    have hnz : ((y * 12 + m).natAbs / 12 == 0 && (y * 12 + m).natAbs % 12 == 0) = false := by
      have : ¬ ((y * 12 + m).natAbs / 12 = 0 ∧ (y * 12 + m).natAbs % 12 = 0) := by omega
      simpa using this
    simp only [hoy, hom, hnz, hYM, Bool.false_eq_true, if_false, if_true]
    by_cases hneg : y * 12 + m < 0
    · have hmin : dMinus y m us isDur = true := by simp [dMinus, hYM, hneg]
      have hus : us ≤ 0 := Int.not_lt.mp (fun hc => hs2 ⟨hc, hYM, hneg⟩)
      have hU : -(us.natAbs : Int) = us := by omega
      simp only [hmin, if_true, hU, hr1, Bool.not_true, Bool.false_eq_true, if_false]
      congr 2
      · omega
      · omega
    · have hmin : dMinus y m us isDur = false := by
        have : ¬ us < 0 := fun hc => hs1 ⟨hc, hYM, hneg⟩
        simp [dMinus, hYM, hneg, this]
      have hus : 0 ≤ us := Int.not_lt.mp (fun hc => hs1 ⟨hc, hYM, hneg⟩)
      have hU : (us.natAbs : Int) = us := by omega
      simp only [hmin, Bool.false_eq_true, if_false, hU]
      congr 2
      · omega
      · omega
  · have hYM' : dHasYM y m isDur = false := by simpa using hYM
    have hoy : dOy y m isDur = none := by simp [dOy, ymFields, hYM']
    have hom : dOm y m isDur = none := by simp [dOm, ymFields, hYM']
    simp only [hoy, hom, Option.getD_none, beq_self_eq_true, Bool.and_self, if_true, hYM', Bool.false_eq_true, if_false]
    simp only [dMinus, hYM', Bool.false_and, Bool.false_or]
    by_cases hneg : us < 0
    · have : -(us.natAbs : Int) = us := by omega
      simp [hneg, this, hr1]
    · have : (us.natAbs : Int) = us := by omega
      simp [hneg, this, hr1]



/-! ### what `duration_isoformat` writes is in the XSD lexical space -/

theorem intField_hit {des : Char} (hd : des.isDigit = false) (n : Nat) (rest : Str) :
    Spec.intField des (digits n ++ des :: rest) = some rest := by
  have h1 : takeDigits (digits n ++ des :: rest) = digits n :=
    takeDigits_append (allDigits_digits n) (by intro c r h; cases h; exact hd)
  have h2 : dropDigits (digits n ++ des :: rest) = des :: rest :=
    dropDigits_append (allDigits_digits n) (by intro c r h; cases h; exact hd)
  have hne : (digits n).isEmpty = false := by
    cases h : digits n with
    | nil => exact absurd h (digits_ne_nil n)
    | cons _ _ => rfl
  simp [Spec.intField, h1, h2, hne]

theorem intField_other {des c : Char} (hc : c.isDigit = false) (hne : c ≠ des) (n : Nat) (rest : Str) :
    Spec.intField des (digits n ++ c :: rest) = none := by
  have h2 : dropDigits (digits n ++ c :: rest) = c :: rest :=
    dropDigits_append (allDigits_digits n) (by intro c' r h; cases h; exact hc)
  simp [Spec.intField, h2, hne]

theorem intField_nondigit {des c : Char} (hc : c.isDigit = false) (rest : Str) :
    Spec.intField des (c :: rest) = none := by
  simp [Spec.intField, takeDigits, dropDigits, hc]

theorem intField_nil (des : Char) : Spec.intField des [] = none := by
  simp [Spec.intField, dropDigits]

/-- an optional field followed by something that cannot be mistaken for it -/
theorem optField_seg {des : Char} (hd : des.isDigit = false) (on : Option Nat) (rest : Str)
    (hrest : Spec.intField des rest = none) :
    Spec.optField (Spec.intField des) (renderFields [(des, on)] ++ rest) = (rest, on.isSome) := by
  cases on with
  | none => simp [renderFields, Spec.optField, hrest]
  | some n => simp [renderFields, Spec.optField, intField_hit hd]



theorem intField_miss_render {des : Char} {fs : List (Char × Option Nat)} {rest : Str}
    (hdes : ∀ p ∈ fs, p.1.isDigit = false ∧ p.1 ≠ des)
    (hrest : Spec.intField des rest = none) : Spec.intField des (renderFields fs ++ rest) = none := by
  induction fs with
  | nil => simpa [renderFields] using hrest
  | cons p r ih =>
    obtain ⟨d', on⟩ := p
    have hp := hdes (d', on) (by simp)
    have ihr := ih (fun q hq => hdes q (by simp [hq]))
    cases on with
    | none => simpa [renderFields] using ihr
    | some n =>
      simp only [renderFields, List.append_assoc, List.cons_append]
      exact intField_other hp.1 hp.2 n _

theorem intField_timePart (des : Char) (h mi s us : Nat) : Spec.intField des (timePart h mi s us) = none := by
  unfold timePart
  split
  · exact intField_nondigit (by decide) _
  · exact intField_nil des

theorem intField_secSeg {des : Char} (hd : des ≠ 'S') (hdp : des ≠ '.') (s us : Nat) :
    Spec.intField des (secSeg s us) = none := by
  by_cases hus : us = 0
  · subst hus
    by_cases hs : s = 0
    · subst hs; simp [secSeg, intField_nil]
    · have hb : (s != 0) = true := by simpa using hs
      simp only [secSeg, hb, Bool.true_or, if_true, bne_self_eq_false, Bool.false_eq_true, if_false]
      exact intField_other (by decide) (Ne.symm hd) s []
  · obtain ⟨h1, _, _⟩ := secSeg_frac (s := s) hus
    rw [h1]
    exact intField_other (by decide) (Ne.symm hdp) s _

theorem secField_secSeg (s us : Nat) :
    Spec.optField Spec.secField (secSeg s us) = ([], (s != 0 || us != 0)) := by
  by_cases hus : us = 0
  · subst hus
    by_cases hs : s = 0
    · subst hs; simp [secSeg, Spec.optField, Spec.secField, takeDigits]
    · have hb : (s != 0) = true := by simpa using hs
      have h1 : takeDigits (digits s ++ ['S']) = digits s :=
        takeDigits_append (allDigits_digits s) (by intro c r h; cases h; decide)
      have h2 : dropDigits (digits s ++ ['S']) = ['S'] :=
        dropDigits_append (allDigits_digits s) (by intro c r h; cases h; decide)
      have hne : (digits s).isEmpty = false := by
        cases h : digits s with
        | nil => exact absurd h (digits_ne_nil s)
        | cons _ _ => rfl
      simp [secSeg, hb, Spec.optField, Spec.secField, h1, h2, hne]
  · obtain ⟨h1, h2, h3⟩ := secSeg_frac (s := s) hus
    have hb : (us != 0) = true := by simpa using hus
    have t1 : takeDigits (digits s ++ '.' :: (rstrip0 (digitsW 6 us) ++ ['S'])) = digits s :=
      takeDigits_append (allDigits_digits s) (by intro c r h; cases h; decide)
    have t2 : dropDigits (digits s ++ '.' :: (rstrip0 (digitsW 6 us) ++ ['S'])) = '.' :: (rstrip0 (digitsW 6 us) ++ ['S']) :=
      dropDigits_append (allDigits_digits s) (by intro c r h; cases h; decide)
    have t3 : takeDigits (rstrip0 (digitsW 6 us) ++ ['S']) = rstrip0 (digitsW 6 us) :=
      takeDigits_append h2 (by intro c r h; cases h; decide)
    have t4 : dropDigits (rstrip0 (digitsW 6 us) ++ ['S']) = ['S'] :=
      dropDigits_append h2 (by intro c r h; cases h; decide)
    have hne : (digits s).isEmpty = false := by
      cases h : digits s with
      | nil => exact absurd h (digits_ne_nil s)
      | cons _ _ => rfl
    have hne2 : (rstrip0 (digitsW 6 us)).isEmpty = false := by
      cases h : rstrip0 (digitsW 6 us) with
      | nil => exact absurd h h3
      | cons _ _ => rfl
    rw [h1]
    simp [Spec.optField, Spec.secField, t1, t2, t3, t4, hne, hne2, hb]


theorem render4_split (oy om od : Option Nat) (tp : Str) :
    renderFields [('Y', oy), ('M', om), ('W', none), ('D', od)] ++ tp =
      renderFields [('Y', oy)] ++ (renderFields [('M', om)] ++ (renderFields [('D', od)] ++ tp)) := by
  cases oy <;> cases om <;> cases od <;> simp [renderFields]

theorem render2_split (oh omi : Option Nat) (tp : Str) :
    renderFields [('H', oh), ('M', omi)] ++ tp = renderFields [('H', oh)] ++ (renderFields [('M', omi)] ++ tp) := by
  cases oh <;> cases omi <;> simp [renderFields]

theorem optN_isSome (n : Nat) : (optN n).isSome = (n != 0) := by
  unfold optN; split <;> simp_all

theorem durBodyLex_render (allowYM : Bool) (oy om od : Option Nat) (h mi s us : Nat)
    (hne : renderFields [('Y', oy), ('M', om), ('W', none), ('D', od)] ++ timePart h mi s us ≠ [])
    (hym : allowYM = true ∨ (oy = none ∧ om = none)) :
    Spec.durBodyLex allowYM true
      (renderFields [('Y', oy), ('M', om), ('W', none), ('D', od)] ++ timePart h mi s us) = true := by
  have hpres : oy.isSome = true ∨ om.isSome = true ∨ od.isSome = true ∨ timePart h mi s us ≠ [] := by
    cases oy <;> cases om <;> cases od <;> simp_all [renderFields]
  rw [render4_split]
  -- date fields
  have e1 := optField_seg (des := 'Y') (by decide) oy
    (renderFields [('M', om)] ++ (renderFields [('D', od)] ++ timePart h mi s us))
    (by
      rw [← List.append_assoc, ← renderFields_append]
      exact intField_miss_render (by intro p hp; simp at hp; rcases hp with rfl | rfl <;> (dsimp only; decide))
        (intField_timePart _ _ _ _ _))
  have e2 := optField_seg (des := 'M') (by decide) om (renderFields [('D', od)] ++ timePart h mi s us)
    (intField_miss_render (by intro p hp; simp at hp; rcases hp with rfl; dsimp only; decide)
        (intField_timePart _ _ _ _ _))
  have e3 := optField_seg (des := 'D') (by decide) od (timePart h mi s us) (intField_timePart _ _ _ _ _)
  unfold Spec.durBodyLex
  simp only [e1, e2, e3]
  have hymOk : (allowYM || !(oy.isSome || om.isSome)) = true := by
    rcases hym with h1 | ⟨h1, h2⟩
    · simp [h1]
    · simp [h1, h2]
  cases htp : timePart h mi s us with
  | nil =>
    have : (oy.isSome || om.isSome || od.isSome) = true := by
      rcases hpres with h1 | h1 | h1 | h1
      · simp [h1]
      · simp [h1]
      · simp [h1]
      · exact absurd htp h1
    simp only [hymOk, this, Bool.true_or, Bool.and_self]
  | cons c t =>
    have hc : c = 'T' ∧ t = renderFields [('H', optN h), ('M', optN mi)] ++ secSeg s us ∧
        (h != 0 || mi != 0 || s != 0 || us != 0) = true := by
      unfold timePart at htp
      split at htp
      · rename_i hcond; cases htp; exact ⟨rfl, rfl, hcond⟩
      · cases htp
    obtain ⟨rfl, rfl, hcond⟩ := hc
    rw [render2_split]
    have f1 := optField_seg (des := 'H') (by decide) (optN h) (renderFields [('M', optN mi)] ++ secSeg s us)
      (intField_miss_render (by intro p hp; simp at hp; rcases hp with rfl; dsimp only; decide)
        (intField_secSeg (by decide) (by decide) s us))
    have f2 := optField_seg (des := 'M') (by decide) (optN mi) (secSeg s us)
      (intField_secSeg (by decide) (by decide) s us)
    simp only [f1, f2, secField_secSeg, optN_isSome]
    simp only [Bool.or_eq_true, bne_iff_ne, ne_eq] at hcond
    simp only [hymOk, Bool.true_and, List.isEmpty_nil, Bool.or_eq_true, bne_iff_ne, ne_eq]
    rcases hcond with ((h1 | h1) | h1) | h1
    · exact Or.inl (Or.inl h1)
    · exact Or.inl (Or.inr h1)
    · exact Or.inr (Or.inl h1)
    · exact Or.inr (Or.inr h1)


/-- what `duration_isoformat` writes is an xsd:duration; without a year-month part (every timedelta) it is
    an xsd:dayTimeDuration -/
theorem durLex_durationIso (y m us : Int) (isDur : Bool) (lx : Str) (h : durationIso y m us isDur = some lx) :
    Spec.durLex true true lx = true ∧ (dHasYM y m isDur = false → Spec.durLex false true lx = true) := by
  have hs := durationIso_eq' y m us isDur lx h
  have hne := rendered_ne_nil y m us isDur
  have key : ∀ allowYM, (allowYM = true ∨ (dOy y m isDur = none ∧ dOm y m isDur = none)) →
      Spec.durLex allowYM true lx = true := by
    intro allowYM hym
    rw [hs]
    have hb := durBodyLex_render allowYM (dOy y m isDur) (dOm y m isDur) (dOd y m us isDur) _ _ _ _ hne hym
    cases dMinus y m us isDur <;> simpa [Spec.durLex] using hb
  refine ⟨key true (Or.inl rfl), fun hno => key false (Or.inr ?_)⟩
  simp [dOy, dOm, ymFields, hno]

end RV.C09
