import RV.C09.Spec
/-
  C09 — property statements and theorems (work in progress: table theorems first).
-/
namespace RV.C09

/-- every modelled datatype is a key of `XSDToPython` and maps to the converter the model applies -/
def Statement_converter_table : Prop :=
  ∀ d ∈ Dt.all, lookupStr d.name Tables.xsdToPython = some d.conv.tableName

theorem converter_table : Statement_converter_table := by
  unfold Statement_converter_table; decide

end RV.C09
