import RV.C09.LitLemmas
import RV.C09.DurLemmas
import RV.C09.DateLemmas
import RV.C09.EqLemmas
import RV.C09.FloatLemmas
import RV.C09.FieldLemmas
/-
  C09 — "Literal ↔ Python value mapping is faithful and normalisation is idempotent":
  property statements (each first as `def Statement_… : Prop` at full strength) and theorems.

  Vocabulary: `RV/C09/Claims.lean` (Supported, Covered, ValueIs, Built, Denotes, ExactBack),
  XSD lexical spaces and values: `RV/C09/Spec.lean`, model of rdflib: `RV/C09/Model.lean`.
  No floats occur anywhere (xsd:float/double are tied by correspondence only).
-/
namespace RV.C09

/-! ## 0. Regenerated tables (re-proved against the live `rdflib.term` on every run) -/

/-- every modelled datatype is a key of `XSDToPython` and maps to the converter the model applies -/
def Statement_converter_table : Prop :=
  ∀ d ∈ Dt.all, lookupStr d.name Tables.xsdToPython = some d.conv.tableName

theorem converter_table : Statement_converter_table := by
  unfold Statement_converter_table; decide

/-- each integer checker of `_check_well_formed_types` accepts at least the XSD value range of its
    datatype, and exactly that range except for `integer`/`long` (no checker) and `unsignedLong`
    (no upper bound in the code) -/
def Statement_integer_bounds_table : Prop :=
  ∀ d ∈ Dt.all, d.conv = .int →
    (d.bounds = none ∨ ∃ b, d.bounds = some b ∧ covers b (Spec.xsdBounds d) = true) ∧
    (d = .integer ∨ d = .long ∨ d = .unsignedLong ∨ d.bounds = some (Spec.xsdBounds d))

theorem integer_bounds_table : Statement_integer_bounds_table :=
  fun d _ h => ⟨bounds_table d h, bounds_table_exact d h⟩

/-- the rule lists give int → xsd:integer, bool → xsd:boolean (before int), Decimal → xsd:decimal,
    str → no datatype, datetime before date, and the model's numeric set is `_NUMERIC_LITERAL_TYPES` -/
def Statement_rule_tables : Prop :=
  (Tables.genericRules.map (fun r => (r.1, r.2.1))).take 11 =
    [("str", "-"), ("float", "double"), ("bool", "boolean"), ("int", "integer"), ("int", "integer"),
     ("Decimal", "decimal"), ("datetime", "dateTime"), ("date", "date"), ("time", "time"),
     ("Duration", "duration"), ("timedelta", "dayTimeDuration")] ∧
  (∀ d ∈ Dt.all, isNumeric (some d) = (d.conv == .int || d == .decimal)) ∧
  ("bytes", "hexBinary") ∈ Tables.specificRules ∧ ("timedelta", "yearMonthDuration") ∈ Tables.specificRules ∧
  ("Duration", "yearMonthDuration") ∈ Tables.specificRules

theorem rule_tables : Statement_rule_tables := by
  unfold Statement_rule_tables; decide

/-! ## 1. Python value → literal -/

/-- `Literal(v)` has the documented datatype and a lexical form in that datatype's XSD lexical space -/
def Statement_py_to_lit_valid : Prop :=
  ∀ v, Supported v → ∃ l, mkValue v none = some l ∧ l.dt = genericDt v ∧ Spec.validLexOpt l.dt l.lex = true

theorem py_to_lit_valid : Statement_py_to_lit_valid := by
  intro v hv
  cases v with
  | int i => exact ⟨_, mkValue_int i, rfl, validLex_integer_intRepr i⟩
  | bool b => exact ⟨_, mkValue_bool b, rfl, by simp [Spec.validLexOpt, Spec.validLex, boolVal_boolLex]⟩
  | dec n c e => exact ⟨_, mkValue_dec n c e, rfl, (pyDecimal_fmtF n c e).2⟩
  | str s => exact ⟨_, mkValue_str s, rfl, rfl⟩
  | _ => exact absurd hv (by simp [Supported])

/-- `Literal(v).toPython()` is `v`, and reading the lexical form back (`Literal(str(l), datatype=l.datatype)`)
    gives a value Python-equal to `v` (for a Decimal: possibly with another exponent) -/
def Statement_lit_to_py_back : Prop :=
  ∀ v, Supported v → ∃ l, mkValue v none = some l ∧ l.value = some v ∧
    ∃ v', castLex l.dt l.lex = some v' ∧ pyEq v' v = true

theorem lit_to_py_back : Statement_lit_to_py_back := by
  intro v hv
  cases v with
  | int i => exact ⟨_, mkValue_int i, rfl, .int i, by simp [castLex, Dt.conv, pyInt_intRepr], by simp [pyEq]⟩
  | bool b => exact ⟨_, mkValue_bool b, rfl, .bool b, by simp [castLex, Dt.conv, parseBoolean_boolLex], by simp [pyEq]⟩
  | dec n c e =>
    exact ⟨_, mkValue_dec n c e, rfl, fmtFBack n c e, by simp [castLex, Dt.conv, (pyDecimal_fmtF n c e).1],
      pyEq_fmtFBack n c e⟩
  | str s => exact ⟨_, mkValue_str s, rfl, .str s, rfl, by simp [pyEq]⟩
  | _ => exact absurd hv (by simp [Supported])

/-! ## 2. lexical form → value -/

/-- a valid lexical form of a recognised datatype gives, without the ill-typed flag, the value XSD
    assigns to it — with either setting of `normalize` -/
def Statement_lex_to_value_xsd : Prop :=
  ∀ (d : Dt) (s : Str) (nz : Bool), Spec.validLex d s = true →
    ∃ l, mkLex (some d) s nz = some l ∧ l.ill = some false ∧ ValueIs d s l.value

/-- proved for the integer family (bounds, leading zeros, `+`, `-0`), decimal (`.5`, `5.`, signs),
    boolean, the string family and hexBinary -/
theorem lex_to_value_xsd_partial : ∀ (d : Dt) (s : Str) (nz : Bool), Covered d = true →
    Spec.validLex d s = true → ∃ l, mkLex (some d) s nz = some l ∧ l.ill = some false ∧ ValueIs d s l.value :=
  lex_to_value_xsd_covered

/-- the code falsifies the full statement: `24:00:00` is a valid xsd:time (finding C09-K1) -/
theorem lex_to_value_xsd_witness : ¬ Statement_lex_to_value_xsd := by
  intro h
  obtain ⟨l, hl, hill, _⟩ := h .time "24:00:00".toList false (by decide)
  have : mkLex (some .time) "24:00:00".toList false =
      some ⟨"24:00:00".toList, some .time, none, some true⟩ := by decide
  rw [this] at hl
  cases hl
  cases hill

/-! ## 3. normalisation -/

/-- normalisation replaces a valid form only by a valid form of the same XSD value -/
def Statement_normalize_same_value : Prop :=
  ∀ (d : Dt) (s : Str), Spec.validLex d s = true →
    ∃ l, mkLex (some d) s true = some l ∧ Spec.validLex d l.lex = true ∧ Spec.sameValue d s l.lex

theorem normalize_same_value_partial : ∀ (d : Dt) (s : Str), Covered d = true → Spec.validLex d s = true →
    ∃ l, mkLex (some d) s true = some l ∧ Spec.validLex d l.lex = true ∧ Spec.sameValue d s l.lex :=
  normalize_same_value_covered

/-- the code falsifies the full statement: `2000-01-01Z` is rewritten to `2000-01-01` (finding C09-K3) -/
theorem normalize_same_value_witness : ¬ Statement_normalize_same_value := by
  intro h
  obtain ⟨l, hl, _, hs⟩ := h .date "2000-01-01Z".toList (by decide)
  have : mkLex (some .date) "2000-01-01Z".toList true =
      some ⟨"2000-01-01".toList, some .date, some (.date 2000 1 1), some false⟩ := by decide
  rw [this] at hl
  cases hl
  revert hs
  show ¬ ((Spec.dateVal "2000-01-01Z".toList).1 = (Spec.dateVal "2000-01-01".toList).1)
  decide

/-- normalising an already normalised literal changes nothing: after one `normalize()` the literal is
    a fixpoint (lexical form, datatype, value and flag) — for every literal the constructors produce,
    every datatype of the model (dates, times, durations and hexBinary included) -/
def Statement_normalize_idempotent : Prop :=
  ∀ l n1, Built l → l.normalize = some n1 → n1.normalize = some n1

theorem normalize_idempotent : Statement_normalize_idempotent :=
  fun _ _ hb h => normalize_fixpoint (wf_built hb) h

/-! ## 4. value-space equality -/

/-- `eq` is Python equality of the mapped values on comparable pairs: two numeric literals that are
    not ill-typed; two literals of the same non-string datatype; two plain / xsd:string literals -/
def Statement_eq_agrees : Prop :=
  ∀ a b x y, Built a → Built b → a.value = some x → b.value = some y →
    ((isNumeric a.dt = true ∧ isNumeric b.dt = true ∧ a.ill ≠ some true ∧ b.ill ≠ some true) ∨
      (a.dt = b.dt ∧ isStringDt a.dt = false) ∨ (isStringDt a.dt = true ∧ isStringDt b.dt = true)) →
    a.eq b = some (pyEq x y)

theorem eq_agrees : Statement_eq_agrees := by
  intro a b x y ha hb hx hy hcmp
  rcases hcmp with ⟨h1, h2, h3, h4⟩ | ⟨h1, h2⟩ | ⟨h1, h2⟩
  · exact eq_numeric hx hy h1 h2 h3 h4
  · exact eq_same_dt hx hy h1 h2
  · rw [eq_strings h1 h2]
    have h3 := string_value_of_built ha h1
    have h4 := string_value_of_built hb h2
    rw [hx] at h3; rw [hy] at h4
    cases h3; cases h4
    simp [pyEq]

/-- value-space equality holds whenever term equality does -/
def Statement_term_eq_implies_eq : Prop :=
  ∀ a b, Built a → Built b → a.termEq b = true → a.eq b = some true

/-- proved for literals whose lexical form denotes their value … -/
theorem term_eq_implies_eq_partial : ∀ a b, Denotes a → Denotes b → a.termEq b = true → a.eq b = some true :=
  fun _ _ => eq_of_termEq

/-- … which is every literal built with `normalize=False`, every normalised literal of the integer
    family, boolean, the string family, hexBinary or without datatype, and `Literal(v)` for int/bool/str -/
theorem denotes_cases :
    (∀ dt s l, mkLex dt s false = some l → Denotes l) ∧
    (∀ dt s l, ExactBack dt = true → mkLex dt s true = some l → Denotes l) ∧
    (∀ v l, Supported v → (∀ n c e, v ≠ .dec n c e) → mkValue v none = some l → Denotes l) ∧
    (∀ old d, Denotes (mkFromLit old (some d))) ∧
    (∀ old, Denotes old → Denotes (mkFromLit old none)) :=
  ⟨fun _ _ _ => denotes_mkLex_false, fun _ _ _ => denotes_mkLex_true, fun _ _ => denotes_mkValue,
    denotes_mkFromLit_some, fun _ => denotes_mkFromLit_none⟩

/-- … and also every *normalised* literal of xsd:date and of the three duration datatypes (what `duration_isoformat` /
    `date.isoformat()` write is read back by `parse_xsd_duration` / `parse_xsd_date` as the very same value), base64Binary
    (through `ExactBack`), `Literal(date)`, `Literal(timedelta)` and `Literal(Duration)` with years, months not both zero:
    term-equal literals of these kinds are `eq` -/
theorem denotes_cases_dates_durations :
    (∀ (d : Dt) s l, (d.conv = .date ∨ d.conv = .duration) → mkLex (some d) s true = some l → Denotes l) ∧
    (∀ y m d l, validYMD y m d = true → mkValue (.date y m d) none = some l → Denotes l) ∧
    (∀ us l, tdInRange us = true → mkValue (.timedelta us) none = some l → Denotes l) ∧
    (∀ y m us l, 0 ≤ m ∧ m < 12 → tdInRange us = true → ¬ (y = 0 ∧ m = 0) →
      mkValue (.duration y m us) none = some l → Denotes l) ∧
    ExactBack (some .base64Binary) = true :=
  ⟨fun _ _ _ hd h => denotes_mkLex_true_date_dur hd h,
    fun _ _ _ _ hv h => denotes_mkValue_date hv h,
    fun us _ hr h => denotes_mkValue_dur (y := 0) (m := 0) (isDur := false) ⟨by decide, by decide⟩ hr (by intro e; cases e) h,
    fun y m us _ hm hr hne h => denotes_mkValue_dur (isDur := true) hm hr
      (by intro _; by_cases hy : y = 0
          · have : m ≠ 0 := fun e => hne ⟨hy, e⟩
            simp [dHasYM, hy, this]
          · simp [dHasYM, hy]) h,
    rfl⟩

/-- `lit.eq(v)` for a plain Python object `v` of a kind `eq` documents for the literal's datatype
    (`eqPyDomain`: str ↔ plain / xsd:string, bool ↔ xsd:boolean, int / Decimal ↔ the numeric types,
    date / time / datetime ↔ xsd:date / time / dateTime, timedelta / Duration ↔ all three duration datatypes)
    is Python equality of the mapped value with `v` — in particular `lit.eq(lit.toPython())` is True; outside
    that domain it answers `NotImplemented` -/
def Statement_eq_python_value : Prop :=
  (∀ l v x, Built l → eqPyDomain l.dt v = true → l.value = some x → l.eqPy v = some (pyEq x v)) ∧
  (∀ l x, Built l → l.value = some x → eqPyDomain l.dt x = true → l.eqPy x = some true) ∧
  (∀ (l : Lit) v, eqPyDomain l.dt v = false → l.eqPy v = none)

theorem eq_python_value : Statement_eq_python_value := by
  have key : ∀ l v x, Built l → eqPyDomain l.dt v = true → l.value = some x → l.eqPy v = some (pyEq x v) := by
    intro l v x hb hd hv
    by_cases hs : v.isStr = true
    · cases v <;> simp [PyVal.isStr] at hs
      obtain ⟨y, hy, he⟩ := eqPy_str hb hd
      rw [hv] at hy; cases hy; exact he
    · exact eqPy_value hd hv (by simpa using hs)
  refine ⟨key, fun l x hb hv hd => ?_, fun l v h => eqPy_outside h⟩
  rw [key l x x hb hd hv, pyEq_refl]

/-- every duration datatype, every date/time datatype and every numeric datatype is in the domain of its value kind
    (the tables `eq` tests against must not lose a member) -/
theorem eq_python_domain_tables :
    (∀ d ∈ Dt.all, d.conv = .duration → eqPyDomain (some d) (.timedelta 0) = true ∧ eqPyDomain (some d) (.duration 0 0 0) = true) ∧
    (∀ d ∈ Dt.all, (d.conv = .date ∨ d.conv = .time ∨ d.conv = .dateTime) → eqPyDomain (some d) (.date 1 1 1) = true) ∧
    (∀ d ∈ Dt.all, (d.conv = .int ∨ d.conv = .decimal) → eqPyDomain (some d) (.int 0) = true ∧ eqPyDomain (some d) (.dec false 0 0) = true) := by
  refine ⟨?_, ?_, ?_⟩ <;> decide

/-! ## 4b. literals made from literals (first branch of `__new__`) -/

/-- `Literal(old, datatype=d)` is `Literal(str(old), datatype=d, normalize=False)` with `ill_typed = None`:
    same lexical form (white-space facet applied), same datatype, same value — so the value clauses of §2
    carry over to re-typed literals, and (`denotes_cases`) a re-typed literal is `eq` to every term-equal one. -/
def Statement_retype_is_lex : Prop :=
  ∀ (old : Lit) (d : Dt), ∃ l, mkLex (some d) old.lex false = some l ∧
    (mkFromLit old (some d)).lex = l.lex ∧ (mkFromLit old (some d)).dt = l.dt ∧
    (mkFromLit old (some d)).value = l.value ∧ (mkFromLit old (some d)).ill = none

theorem retype_is_lex : Statement_retype_is_lex :=
  fun old d => ⟨_, mkFromLit_some_eq_mkLex old d, rfl, rfl, rfl, rfl⟩

/-- `Literal(old)` of a built literal is the same term with the same value (`ill_typed` is not copied) -/
def Statement_copy_same : Prop :=
  ∀ old, Built old → (mkFromLit old none).lex = old.lex ∧ (mkFromLit old none).dt = old.dt ∧
    (mkFromLit old none).value = old.value

theorem copy_same : Statement_copy_same := copy_same_of_built

/-! ## 5. durations: the repo-owned printer and parser -/

/-- what `duration_isoformat` writes, `parse_xsd_duration` reads back as the same value — for every
    timedelta (`isDur = false`) and every Duration with whole years and `0 ≤ months < 12` (the
    constructor's invariant) inside timedelta's range, on integer microseconds (after fix C09-F3 there
    is no float on this path).  A Duration of 0 years 0 months comes back as the equal timedelta. -/
def Statement_duration_roundtrip : Prop :=
  ∀ (y m us : Int) (isDur : Bool) (lx : Str), 0 ≤ m ∧ m < 12 → tdInRange us = true →
    durationIso y m us isDur = some lx →
    parseXsdDuration lx = some (if isDur && !(y == 0 && m == 0) then .duration y m us else .timedelta us)

theorem duration_roundtrip : Statement_duration_roundtrip :=
  fun y m us isDur lx hm hr h => parse_durationIso y m us isDur lx hm hr h

/-- mixed signs have no XSD form: the printer refuses them (and only them) -/
def Statement_duration_printer_total : Prop :=
  ∀ (y m us : Int) (isDur : Bool),
    (durationIso y m us isDur).isSome = true ↔
      ¬ ((isDur && !(y == 0 && m == 0)) = true ∧ ((us < 0 ∧ ¬ (y * 12 + m < 0)) ∨ (0 < us ∧ y * 12 + m < 0)))

theorem duration_printer_total : Statement_duration_printer_total := by
  intro y m us isDur
  simp only [durationIso]
  by_cases h1 : us < 0 <;> by_cases h2 : 0 < us <;> by_cases h3 : y * 12 + m < 0 <;>
    cases hh : (isDur && !(y == 0 && m == 0)) <;> simp [h1, h2, h3] <;> (try split) <;> simp <;> omega

/-- `Literal(timedelta)` / `Literal(Duration)`: documented datatype (xsd:dayTimeDuration / xsd:duration), a
    lexical form in that datatype's XSD lexical space, and the same value read back — for every timedelta in
    range and every Duration with whole years, `0 ≤ months < 12` and one sign -/
def Statement_duration_py_to_lit : Prop :=
  (∀ us : Int, tdInRange us = true →
    ∃ l, mkValue (.timedelta us) none = some l ∧ l.dt = some .dayTimeDuration ∧
      Spec.validLex .dayTimeDuration l.lex = true ∧ castLex l.dt l.lex = some (.timedelta us)) ∧
  (∀ (y m us : Int) (lx : Str), 0 ≤ m ∧ m < 12 → tdInRange us = true → durationIso y m us true = some lx →
    ∃ l, mkValue (.duration y m us) none = some l ∧ l.dt = some .duration ∧ l.lex = lx ∧
      Spec.validLex .duration l.lex = true ∧
      castLex l.dt l.lex = some (if y == 0 && m == 0 then .timedelta us else .duration y m us))

theorem duration_py_to_lit : Statement_duration_py_to_lit := by
  constructor
  · intro us hr
    -- a timedelta is never refused by the printer
    have hsome : (durationIso 0 0 us false).isSome = true := (duration_printer_total 0 0 us false).mpr (by simp)
    obtain ⟨lx, hlx⟩ := Option.isSome_iff_exists.mp hsome
    have hback := parse_durationIso 0 0 us false lx ⟨by decide, by decide⟩ hr hlx
    have hval := (durLex_durationIso 0 0 us false lx hlx).2 rfl
    have hp : pyLex (.timedelta us) none = some lx := by simp [pyLex, hlx]
    refine ⟨⟨lx, some .dayTimeDuration, some (.timedelta us), none⟩, ?_, rfl, hval, ?_⟩
    · simp [mkValue, mkPy, hp, coalesceDt, genericDt, postProcess]
    · simpa [castLex, Dt.conv, dHasYM] using hback
  · intro y m us lx hm hr hlx
    have hback := parse_durationIso y m us true lx hm hr hlx
    have hval := (durLex_durationIso y m us true lx hlx).1
    have hp : pyLex (.duration y m us) none = some lx := by simp [pyLex, hlx]
    refine ⟨⟨lx, some .duration, some (.duration y m us), none⟩, ?_, rfl, rfl, hval, ?_⟩
    · simp [mkValue, mkPy, hp, coalesceDt, genericDt, postProcess]
    · simp only [castLex, Dt.conv, hback, dHasYM, Bool.true_and]
      by_cases h0 : (y == 0 && m == 0) = true <;> simp [h0]

/-! ## 6. dates -/

/-- `Literal(date(y, m, d))` (any date CPython can hold): datatype xsd:date, a lexical form in the XSD
    lexical space, and `parse_xsd_date` reads it back as the same date -/
def Statement_date_roundtrip : Prop :=
  ∀ y m d, validYMD y m d = true →
    ∃ l, mkValue (.date y m d) none = some l ∧ l.dt = some .date ∧ Spec.validLex .date l.lex = true ∧
      castLex l.dt l.lex = some (.date y m d)

theorem date_roundtrip : Statement_date_roundtrip := by
  intro y m d hv
  obtain ⟨h1, h2⟩ := parseXsdDate_dateIso hv
  exact ⟨⟨dateIso y m d, some .date, some (.date y m d), none⟩, rfl, rfl, h2, by simpa [castLex, Dt.conv] using h1⟩

/-- `Literal(time(...))` / `Literal(datetime(...))`: datatype, a lexical form in the XSD lexical space and
    the same value read back — for every Python time / datetime, naive or aware (utcoffset strictly inside ±24 h) -/
def Statement_time_roundtrip : Prop :=
  ∀ h mi s us (tz : Option Int), ValidTime h mi s us →
    (match tz with | none => True | some off => -86400000000 < off ∧ off < 86400000000) →
    ∃ l, mkValue (.time h mi s us tz) none = some l ∧ l.dt = some .time ∧ Spec.validLex .time l.lex = true ∧
      castLex l.dt l.lex = some (.time h mi s us tz)

def Statement_datetime_roundtrip : Prop :=
  ∀ y m d h mi s us (tz : Option Int), validYMD y m d = true → ValidTime h mi s us →
    (match tz with | none => True | some off => -86400000000 < off ∧ off < 86400000000) →
    ∃ l, mkValue (.datetime y m d h mi s us tz) none = some l ∧ l.dt = some .dateTime ∧
      Spec.validLex .dateTime l.lex = true ∧ castLex l.dt l.lex = some (.datetime y m d h mi s us tz)

/-- proved for naive values and for the utcoffsets XSD can write (whole minutes within ±14:00) -/
theorem time_roundtrip_partial : ∀ h mi s us (tz : Option Int), ValidTime h mi s us → XsdTz tz →
    ∃ l, mkValue (.time h mi s us tz) none = some l ∧ l.dt = some .time ∧ Spec.validLex .time l.lex = true ∧
      castLex l.dt l.lex = some (.time h mi s us tz) := by
  intro h mi s us tz ⟨h1, h2, h3, h4⟩ htz
  exact ⟨⟨timeIso h mi s us tz, some .time, some (.time h mi s us tz), none⟩, rfl, rfl,
    timeLex_timeIso h1 h2 h3 h4 htz,
    by simpa [castLex, Dt.conv] using pyTimeFromIso_timeIso h1 h2 h3 h4 (TzOk_of_XsdTz htz)⟩

theorem datetime_roundtrip_partial : ∀ y m d h mi s us (tz : Option Int), validYMD y m d = true →
    ValidTime h mi s us → XsdTz tz →
    ∃ l, mkValue (.datetime y m d h mi s us tz) none = some l ∧ l.dt = some .dateTime ∧
      Spec.validLex .dateTime l.lex = true ∧ castLex l.dt l.lex = some (.datetime y m d h mi s us tz) := by
  intro y m d h mi s us tz hv ⟨h1, h2, h3, h4⟩ htz
  exact ⟨⟨datetimeIso y m d h mi s us tz, some .dateTime, some (.datetime y m d h mi s us tz), none⟩, rfl, rfl,
    dateTimeLex_datetimeIso hv h1 h2 h3 h4 htz,
    by simpa [castLex, Dt.conv] using pyDateTimeFromIso_datetimeIso hv h1 h2 h3 h4 (TzOk_of_XsdTz htz)⟩

/-- the value is still read back for whole-minute offsets up to ±23:59, which XSD cannot write (finding C09-K4) -/
theorem time_readback_wide : ∀ h mi s us (tz : Option Int), ValidTime h mi s us → TzOk tz →
    pyTimeFromIso (timeIso h mi s us tz) = some (.time h mi s us tz) :=
  fun _ _ _ _ _ ⟨h1, h2, h3, h4⟩ htz => pyTimeFromIso_timeIso h1 h2 h3 h4 htz

/-- the code falsifies the full statement: a utcoffset of one second is written `+00:00:01` (finding C09-K4) -/
theorem time_roundtrip_witness : ¬ Statement_time_roundtrip := by
  intro h
  obtain ⟨l, hl, _, hv, _⟩ := h 0 0 0 0 (some 1000000) ⟨by decide, by decide, by decide, by decide⟩ (by decide)
  have : mkValue (.time 0 0 0 0 (some 1000000)) none =
      some ⟨"00:00:00+00:00:01".toList, some .time, some (.time 0 0 0 0 (some 1000000)), none⟩ := by decide
  rw [this] at hl
  cases hl
  revert hv
  decide

/-! ## 7. the binary datatypes: xsd:hexBinary and xsd:base64Binary codecs -/

/-- `hexlify`/`_unhexlify` and `b64encode`/`b64decode` (the loop of `binascii.a2b_base64`, non-strict): what the
    encoder writes is in the XSD lexical space, denotes the bytes encoded and is decoded to them again; and every
    form of the XSD lexical space (RFC 4648 alphabet and padding, for base64Binary a single space allowed after any
    character but the last) is decoded to the octets XSD assigns to it -/
def Statement_binary_codecs : Prop :=
  (∀ b : List Nat, (∀ x ∈ b, x < 256) →
    unhexlify (hexlify b) = some b ∧ Spec.hexLex (hexlify b) = true ∧
    b64decode (b64encode b) = some b ∧ Spec.b64Lex (b64encode b) = true ∧ Spec.b64ValOf (b64encode b) = b) ∧
  (∀ s, Spec.hexLex s = true → unhexlify s = some (Spec.hexVal s)) ∧
  (∀ s, Spec.b64Lex s = true → b64decode s = some (Spec.b64ValOf s)) ∧
  (∀ s b, (unhexlify s = some b ∨ b64decode s = some b) → ∀ x ∈ b, x < 256)

theorem binary_codecs : Statement_binary_codecs :=
  ⟨fun _ h => ⟨unhexlify_hexlify h, hexLex_hexlify h, b64decode_b64encode h, (b64Lex_b64encode h).1, (b64Lex_b64encode h).2⟩,
    fun _ h => unhexlify_xsd h, fun _ h => b64decode_xsd h,
    fun _ _ h => h.elim unhexlify_lt b64decode_lt⟩

/-! ## 8. xsd:double / xsd:float (model: `FloatModel.lean`, exact integer / rational arithmetic, no `Float`) -/

/-- both floating-point datatypes are keys of `XSDToPython` mapped to `float`, and the `float` rule writes xsd:double
    through a lexicaliser (regenerated tables) -/
theorem float_converter_table :
    lookupStr "double" Tables.xsdToPython = some "float" ∧ lookupStr "float" Tables.xsdToPython = some "float" ∧
    ("float", "double", "fn") ∈ Tables.genericRules ∧ "double" ∈ Tables.numericTypes ∧ "float" ∈ Tables.numericTypes := by
  decide

/-- `Literal(float)`: whatever `_float_to_xsd` writes — `NaN`, `INF`, `-INF` (fix C09-F1), or `repr` of a finite double in
    any of the layouts of `format_float_short` — is in the lexical space of xsd:double -/
def Statement_float_printer_valid : Prop :=
  ∀ v s, floatToXsd v = some s → Spec.doubleLex s = true

theorem float_printer_valid : Statement_float_printer_valid := fun _ _ h => doubleLex_floatToXsd h

/-- the special values and the signed zeros: XSD's spellings are read as the right value and written back in XSD's
    spelling (never Python's `inf` / `nan`), in both directions; overflow goes to INF and underflow to a signed zero as
    XSD's `floatingPointRound` prescribes -/
theorem float_specials :
    pyFloat "INF".toList = some (.inf false) ∧ pyFloat "+INF".toList = some (.inf false) ∧
    pyFloat "-INF".toList = some (.inf true) ∧ pyFloat "NaN".toList = some .nan ∧
    floatToXsd .nan = some "NaN".toList ∧ floatToXsd (.inf false) = some "INF".toList ∧
    floatToXsd (.inf true) = some "-INF".toList ∧
    pyFloat "-0".toList = some (.fin true 0 0) ∧ pyFloat "0".toList = some (.fin false 0 0) ∧
    floatToXsd (.fin true 0 0) = some "-0.0".toList ∧ floatToXsd (.fin false 0 0) = some "0.0".toList ∧
    pyFloat "-0.0".toList = some (.fin true 0 0) ∧ FVal.pyEq (.fin true 0 0) (.fin false 0 0) = true ∧
    FVal.pyEq .nan .nan = false ∧
    pyFloat "1e400".toList = some (.inf false) ∧ pyFloat "-1e-400".toList = some (.fin true 0 0) ∧
    Spec.doubleLex "inf".toList = false ∧ Spec.doubleLex "nan".toList = false ∧ Spec.doubleLex "1e".toList = false ∧
    Spec.doubleLex "-.5E-3".toList = true := by
  decide +kernel

/-- a zero keeps its sign and every double whose digits the search finds is written with them:
    the defining property of `repr` — the digits read back as the same double — holds by construction of the search
    (`readsBack`), for the decimal `D · 10^s` the digits denote -/
def Statement_float_digits_read_back : Prop :=
  ∀ neg m e ds decpt, m ≠ 0 → shortest neg m e = some (ds, decpt) →
    ∃ D s, roundDec neg D s = .fin neg m e ∧ D ≠ 0 ∧ ds = rstrip0 (digits D) ∧ decpt = s + (ndigits D : Int) ∧
      ds ≠ [] ∧ allDigits ds = true

theorem float_digits_read_back : Statement_float_digits_read_back := by
  intro neg m e ds decpt hm h
  obtain ⟨D, s, hrb, h2, h3⟩ := shortestFrom_spec _ _ _ _ _ _ _ _ _ h
  have hrb' : roundDec neg D s = .fin neg m e := by simpa [readsBack] using hrb
  have hD : D ≠ 0 := by
    intro e0
    subst e0
    rw [roundDec_zero] at hrb'
    injection hrb' with _ h2 _
    exact hm h2.symm
  exact ⟨D, s, hrb', hD, h2, h3, by rw [h2]; exact rstrip0_ne_nil (by rw [num_digits]; exact hD),
    by rw [h2]; exact allDigits_rstrip0 (allDigits_digits D)⟩

/-- `Literal(float)` → lexical form → `float(str)` (the converter of xsd:double and xsd:float): the form is in the XSD lexical
    space and reads back as the very same double — every finite double in every layout `repr` uses (fixed, exponent,
    `.0` appended), both zeros, ±INF; NaN reads back as NaN.  The only thing not proved is that the 17-digit search
    always finds digits (`floatToXsd v = some s` is a hypothesis; the driver would answer `raise`, never observed). -/
def Statement_float_roundtrip : Prop :=
  ∀ v s, v.canonical → floatToXsd v = some s → Spec.doubleLex s = true ∧ pyFloat s = some v

theorem float_roundtrip : Statement_float_roundtrip := by
  intro v s hc h
  refine ⟨doubleLex_floatToXsd h, ?_⟩
  cases v with
  | nan => simp only [floatToXsd, Option.some.injEq] at h; subst h; decide +kernel
  | inf neg => cases neg <;> (simp only [floatToXsd, Option.some.injEq] at h; subst h; decide +kernel)
  | fin neg m e => exact pyFloat_floatToXsd hc h

/-! ## 9. field-level values of xsd:date, xsd:time, xsd:dateTime (round h) -/

/-- `Literal(s, datatype=d, normalize=nz)` when the converter is known to return `v` and the printer accepts `v`
    (glue: value and flag of `mkLex` for the date/time datatypes) -/
theorem mkLex_of_castLex {d : Dt} (hc : d.conv = .date ∨ d.conv = .time ∨ d.conv = .dateTime) {s : Str} {v : PyVal} (nz : Bool)
    (hv : castLex (some d) s = some v) (hp : (pyLex v (some d)).isSome = true) :
    ∃ l, mkLex (some d) s nz = some l ∧ l.ill = some false ∧ l.value = some v := by
  have hpp : postProcess (some d) s = s := postProcess_of_conv (by rcases hc with e | e | e <;> rw [e] <;> decide) s
  have hsome := mkLex_isSome_of_pyLex (dt := some d) (s := s) (nz := nz) (by
    intro pv h; rw [hpp, hv] at h; cases h; exact hp)
  obtain ⟨l, hl⟩ := Option.isSome_iff_exists.mp hsome
  obtain ⟨h1, h2, _⟩ := mkLex_fields hl
  rw [hpp, hv] at h1 h2
  refine ⟨l, hl, ?_, h1⟩
  have hw : wellFormed d s (some v) = true := by
    rw [wellFormed_nobounds (by rcases hc with e | e | e <;> (intro hb; rw [hb] at e; cases e))
      (by cases d <;> first | rfl | (rcases hc with e | e | e <;> cases e))]
    rfl
  rw [h2]; simp [hw]

/-- the value XSD assigns, field by field, for the three date/time datatypes — on every form of the lexical space that
    CPython's `date` / `time` / `datetime` can hold (year 0001…9999, not the end-of-day form `24:00:00`):
    * xsd:time: hour, minute, second and zone (minutes → microseconds) exactly as XSD reads them; the fraction truncated to
      microseconds — equal to XSD's fraction whenever it has at most six significant digits (else finding C09-K2);
      then the time of day Python compares (`todMicros`) is XSD's local time, and for zoned values
      `todMicros − utcoffset` is XSD's position on the timeline;
    * xsd:dateTime: year, month, day and the same time fields;
    * xsd:date: year, month, day; a zone is dropped (this is exactly finding C09-K3).
    With either setting of `normalize`; never flagged ill-typed. -/
def Statement_lex_to_value_fields : Prop :=
  (∀ (s : Str) (nz : Bool), Spec.timeLex s = true → (Spec.timeVal s).hour ≠ 24 →
    ∃ l us, mkLex (some .time) s nz = some l ∧ l.ill = some false ∧
      l.value = some (.time (Spec.timeVal s).hour (Spec.timeVal s).minute (Spec.timeVal s).second us
        ((Spec.timeVal s).tz.map (· * 60000000))) ∧
      ((Spec.timeVal s).frac.length ≤ 6 →
        us = Spec.fracMicros (Spec.timeVal s).frac ∧
        todMicros (Spec.timeVal s).hour (Spec.timeVal s).minute (Spec.timeVal s).second us = (Spec.timeVal s).localMicros ∧
        ∀ z, (Spec.timeVal s).tz = some z →
          some (todMicros (Spec.timeVal s).hour (Spec.timeVal s).minute (Spec.timeVal s).second us - z * 60000000) =
            (Spec.timeVal s).utcMicros)) ∧
  (∀ (s : Str) (nz : Bool), Spec.dateTimeLex s = true →
    1 ≤ (Spec.dateTimeVal s).1.year ∧ (Spec.dateTimeVal s).1.year ≤ 9999 → (Spec.dateTimeVal s).2.hour ≠ 24 →
    ∃ l us, mkLex (some .dateTime) s nz = some l ∧ l.ill = some false ∧
      l.value = some (.datetime (Spec.dateTimeVal s).1.year.toNat (Spec.dateTimeVal s).1.month (Spec.dateTimeVal s).1.day
        (Spec.dateTimeVal s).2.hour (Spec.dateTimeVal s).2.minute (Spec.dateTimeVal s).2.second us
        ((Spec.dateTimeVal s).2.tz.map (· * 60000000))) ∧
      ((Spec.dateTimeVal s).2.frac.length ≤ 6 → us = Spec.fracMicros (Spec.dateTimeVal s).2.frac)) ∧
  (∀ (s : Str) (nz : Bool), Spec.dateLex s = true →
    1 ≤ (Spec.dateVal s).1.year ∧ (Spec.dateVal s).1.year ≤ 9999 →
    ∃ l, mkLex (some .date) s nz = some l ∧ l.ill = some false ∧
      l.value = some (.date (Spec.dateVal s).1.year.toNat (Spec.dateVal s).1.month (Spec.dateVal s).1.day))

theorem lex_to_value_fields : Statement_lex_to_value_fields := by
  refine ⟨?_, ?_, ?_⟩
  · intro s nz h h24
    obtain ⟨us, hp, hus⟩ := pyTimeFromIso_xsd h h24
    obtain ⟨l, h1, h2, h3⟩ := mkLex_of_castLex (d := .time) (Or.inr (Or.inl rfl)) nz
      (show castLex (some .time) s = some _ from hp) rfl
    refine ⟨l, us, h1, h2, h3, fun hl => ?_⟩
    have e := hus hl
    refine ⟨e, ?_, ?_⟩
    · simp [todMicros, Spec.TimeV.localMicros, e]
    · intro z hz
      simp [todMicros, Spec.TimeV.utcMicros, Spec.TimeV.localMicros, hz, e]
  · intro s nz h hy h24
    obtain ⟨us, hp, hus⟩ := pyDateTimeFromIso_xsd h hy h24
    obtain ⟨l, h1, h2, h3⟩ := mkLex_of_castLex (d := .dateTime) (Or.inr (Or.inr rfl)) nz
      (show castLex (some .dateTime) s = some _ from hp) rfl
    exact ⟨l, us, h1, h2, h3, hus⟩
  · intro s nz h hy
    have hp := parseXsdDate_xsd h hy
    obtain ⟨l, h1, h2, h3⟩ := mkLex_of_castLex (d := .date) (Or.inl rfl) nz
      (show castLex (some .date) s = some _ from hp) rfl
    exact ⟨l, h1, h2, h3⟩

/-! ## Non-vacuity: the hypotheses are met by concrete, non-trivial instances -/

example : XsdTz (some (-50400000000)) ∧ ¬ XsdTz (some 1000000) ∧ TzOk (some 86340000000) := by
  simp only [XsdTz, TzOk]; decide
example : validYMD 2024 2 29 = true ∧ validYMD 1900 2 29 = false ∧ dateIso 33 1 1 = "0033-01-01".toList := by decide


example : durationIso (-2) 10 (-273906700000) true = some "-P1Y2M3DT4H5M6.7S".toList ∧
    tdInRange (-273906700000) = true := by decide


example : Spec.validLex .base64Binary "YW Jj ZA==".toList = true ∧ Covered .base64Binary = true ∧
    b64decode "YW Jj ZA==".toList = some [97, 98, 99, 100] ∧ Spec.validLex .base64Binary "YWJj ".toList = false ∧
    b64decode "YQ=".toList = none ∧ b64decode "YQ=a=".toList = some [97, 6] ∧ b64decode "YQ=YQ==".toList = some [97, 6, 16] ∧ b64encode [97, 98, 99, 100] = "YWJjZA==".toList := by
  decide +kernel
example : floatToXsd (.fin false 7205759403792794 (-56)) = some "0.1".toList ∧
    pyFloat "0.1".toList = some (.fin false 7205759403792794 (-56)) ∧
    floatToXsd (.fin true 5000000000000000 1) = some "-1e+16".toList ∧
    floatToXsd (.fin false 1 (-1074)) = some "5e-324".toList ∧ pyFloat "5e-324".toList = some (.fin false 1 (-1074)) := by
  decide +kernel
example : Spec.timeLex "23:59:59.1230000-14:00".toList = true ∧ (Spec.timeVal "23:59:59.1230000-14:00".toList).hour ≠ 24 ∧
    (Spec.timeVal "23:59:59.1230000-14:00".toList).frac.length ≤ 6 ∧
    (Spec.timeVal "23:59:59.1230000-14:00".toList).utcMicros = some 136799123000 ∧
    Spec.dateTimeLex "9999-12-31T00:00:00Z".toList = true ∧ (Spec.dateTimeVal "9999-12-31T00:00:00Z".toList).1.year = 9999 ∧
    Spec.dateLex "0001-02-28+05:30".toList = true ∧ (Spec.dateVal "0001-02-28+05:30".toList).1.year = 1 := by
  decide +kernel
example : Spec.validLex .unsignedByte "+0255".toList = true ∧ Covered .unsignedByte = true := by decide
example : Spec.validLex .decimal "-.50".toList = true ∧ Covered .decimal = true := by decide
example : ∃ l, mkLex (some .integer) ['-', '0'] true = some l ∧ l.lex = ['0'] ∧ Built l :=
  ⟨⟨['0'], some .integer, some (.int 0), some false⟩, by decide, rfl, Built.lex (dt := some .integer) (s := ['-', '0']) (nz := true) (by decide)⟩
example : ∃ l n1, Built l ∧ l.normalize = some n1 ∧ n1.lex ≠ l.lex :=
  ⟨⟨['0', 'F'], some .hexBinary, some (.bytes [15]), some false⟩, ⟨['0', 'f'], some .hexBinary, some (.bytes [15]), some false⟩,
    Built.lex (dt := some .hexBinary) (s := ['0', 'F']) (nz := false) (by decide), by decide, by decide⟩
example : mkLex (some .duration) "P14M".toList true = some ⟨"P1Y2M".toList, some .duration, some (.duration 1 2 0), some false⟩ ∧
    mkLex (some .date) "2024-02-29".toList true = some ⟨"2024-02-29".toList, some .date, some (.date 2024 2 29), some false⟩ := by
  decide +kernel
example : ∃ a b, Denotes a ∧ Denotes b ∧ a.termEq b = true ∧ a.lex = ['1', '2'] :=
  ⟨⟨['1', '2'], some .integer, some (.int 12), some false⟩, ⟨['1', '2'], some .integer, some (.int 12), none⟩,
    denotes_mkLex_true (dt := some .integer) (s := ['+', '0', '1', '2']) rfl (by decide),
    denotes_mkValue (v := .int 12) trivial (by intro _ _ _ h; cases h) (by decide), by decide, rfl⟩

end RV.C09
