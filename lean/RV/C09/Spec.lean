import RV.C09.Model
/-
  C09 — specification side: XML Schema 1.1 Part 2 lexical spaces (as Bool recognisers
  over the character list) and lexical → value maps, written as directly as possible
  from the W3C productions and independent of the model's parsers.  Core-only imports:
  the driver links the recognisers to judge the lexical forms the model produces.

  Lexical space = exactly the strings the datatype's production generates (RDF 1.1
  Semantics §7: no white-space pre-processing for literals in RDF).
-/
namespace RV.C09.Spec
open RV.C09

/-- value of a string of decimal digits -/
def natVal (s : Str) : Nat := s.foldl (fun a c => 10 * a + (c.toNat - 48)) 0

def nonEmptyDigits (s : Str) : Bool := !s.isEmpty && s.all Char.isDigit

/-! ### integer family: `[+-]?[0-9]+` + the value bounds of each derived type -/

def intLex : Str → Bool
  | '+' :: r => nonEmptyDigits r
  | '-' :: r => nonEmptyDigits r
  | r => nonEmptyDigits r

def intVal : Str → Int
  | '+' :: r => (natVal r : Int)
  | '-' :: r => -(natVal r : Int)
  | r => (natVal r : Int)

/-- XSD 1.1 Part 2 §3.4: minInclusive / maxInclusive of the integer-derived types -/
def xsdBounds : Dt → Option Int × Option Int
  | .integer => (none, none)
  | .nonPositiveInteger => (none, some 0)
  | .negativeInteger => (none, some (-1))
  | .long => (some (-9223372036854775808), some 9223372036854775807)
  | .int => (some (-2147483648), some 2147483647)
  | .short => (some (-32768), some 32767)
  | .byte => (some (-128), some 127)
  | .nonNegativeInteger => (some 0, none)
  | .unsignedLong => (some 0, some 18446744073709551615)
  | .unsignedInt => (some 0, some 4294967295)
  | .unsignedShort => (some 0, some 65535)
  | .unsignedByte => (some 0, some 255)
  | .positiveInteger => (some 1, none)
  | _ => (none, none)

def inBounds (b : Option Int × Option Int) (i : Int) : Bool :=
  (match b.1 with | some l => decide (l ≤ i) | none => true) &&
  (match b.2 with | some h => decide (i ≤ h) | none => true)

/-! ### decimal: `(\+|-)?([0-9]+(\.[0-9]*)?|\.[0-9]+)`; value = numerator / 10^scale -/

def decBodyLex (s : Str) : Bool :=
  let ip := takeDigits s
  match dropDigits s with
  | [] => !ip.isEmpty
  | '.' :: fp => fp.all Char.isDigit && (!ip.isEmpty || !fp.isEmpty)
  | _ => false

def decLex : Str → Bool
  | '+' :: r => decBodyLex r
  | '-' :: r => decBodyLex r
  | r => decBodyLex r

/-- (numerator, number of fraction digits) of an unsigned decimal numeral -/
def decBodyVal (s : Str) : Nat × Nat :=
  let ip := takeDigits s
  match dropDigits s with
  | '.' :: fp => (natVal (ip ++ fp), fp.length)
  | _ => (natVal ip, 0)

def decVal : Str → Int × Nat
  | '+' :: r => ((decBodyVal r).1, (decBodyVal r).2)
  | '-' :: r => (-((decBodyVal r).1 : Int), (decBodyVal r).2)
  | r => ((decBodyVal r).1, (decBodyVal r).2)

/-- equality of `n₁/10^k₁` and `n₂/10^k₂` by cross-multiplication -/
def ratEq (a b : Int × Nat) : Prop := a.1 * 10 ^ b.2 = b.1 * 10 ^ a.2

/-! ### boolean -/

def boolVal? (s : Str) : Option Bool :=
  if s = ['t', 'r', 'u', 'e'] ∨ s = ['1'] then some true
  else if s = ['f', 'a', 'l', 's', 'e'] ∨ s = ['0'] then some false
  else none

/-! ### string family -/

/-- XML 1.0 `Char`: the characters an `xsd:string` may contain -/
def xmlChar (c : Char) : Bool :=
  let n := c.toNat
  n == 9 || n == 10 || n == 13 || (32 ≤ n && n ≤ 0xD7FF) || (0xE000 ≤ n && n ≤ 0xFFFD) || 0x10000 ≤ n

def stringLex (s : Str) : Bool := s.all xmlChar

def noTabNlCr (s : Str) : Bool := s.all (fun c => c != '\t' && c != '\n' && c != '\r')

def noDoubleSpace : Str → Bool
  | [] => true
  | [_] => true
  | a :: b :: r => !(a == ' ' && b == ' ') && noDoubleSpace (b :: r)

def tokenLex (s : Str) : Bool :=
  noTabNlCr s && s.head? != some ' ' && s.getLast? != some ' ' && noDoubleSpace s

def isAlpha (c : Char) : Bool := (65 ≤ c.toNat && c.toNat ≤ 90) || (97 ≤ c.toNat && c.toNat ≤ 122)
def isAlnum (c : Char) : Bool := isAlpha c || c.isDigit

/-- `[a-zA-Z]{1,8}(-[a-zA-Z0-9]{1,8})*`; `n` = length of the current subtag so far -/
def langAux (first : Bool) (n : Nat) : Str → Bool
  | [] => 1 ≤ n && n ≤ 8
  | c :: r =>
    if c == '-' then 1 ≤ n && n ≤ 8 && langAux false 0 r
    else (if first then isAlpha c else isAlnum c) && langAux first (n + 1) r

def langLex (s : Str) : Bool := langAux true 0 s

/-! ### date, time, dateTime (XSD 1.1 §3.3.7–3.3.9) -/

def yearLex (y : Str) : Bool :=
  y.all Char.isDigit && (y.length == 4 || (4 < y.length && y.head? != some '0'))

/-- `Z | (+|-)((0[0-9]|1[0-3]):[0-5][0-9]|14:00)` or absent -/
def tzLex : Str → Bool
  | [] => true
  | ['Z'] => true
  | [sg, a, b, ':', c, d] =>
    (sg == '+' || sg == '-') && [a, b, c, d].all Char.isDigit &&
      ((natVal [a, b] ≤ 13 && natVal [c, d] ≤ 59) || (natVal [a, b] == 14 && natVal [c, d] == 0))
  | _ => false

/-- year 0000 and negative years are astronomical (XSD 1.1): leap rule on the signed year -/
def isLeapAstro (neg : Bool) (y : Nat) : Bool :=
  let _ := neg
  y % 400 == 0 || (y % 100 != 0 && y % 4 == 0)

def dayOk (neg : Bool) (y m d : Nat) : Bool :=
  1 ≤ m && m ≤ 12 && 1 ≤ d &&
    d ≤ (if m == 2 then (if isLeapAstro neg y then 29 else 28)
         else if m == 4 || m == 6 || m == 9 || m == 11 then 30 else 31)

def dateBodyLex (neg : Bool) (s : Str) (tail : Str → Bool) : Bool :=
  let y := takeDigits s
  match dropDigits s with
  | '-' :: m1 :: m2 :: '-' :: d1 :: d2 :: r =>
    yearLex y && [m1, m2, d1, d2].all Char.isDigit && dayOk neg (natVal y) (natVal [m1, m2]) (natVal [d1, d2]) && tail r
  | _ => false

def dateLex : Str → Bool
  | '-' :: r => dateBodyLex true r tzLex
  | r => dateBodyLex false r tzLex

/-- `hh:mm:ss(.s+)?` with the end-of-day form `24:00:00(.0+)?`, then the time zone -/
def timeLex (s : Str) : Bool :=
  match s with
  | h1 :: h2 :: ':' :: m1 :: m2 :: ':' :: s1 :: s2 :: r =>
    [h1, h2, m1, m2, s1, s2].all Char.isDigit &&
    (match r with
     | '.' :: r' =>
       let fp := takeDigits r'
       !fp.isEmpty && tzLex (dropDigits r') &&
         ((natVal [h1, h2] ≤ 23 && natVal [m1, m2] ≤ 59 && natVal [s1, s2] ≤ 59) ||
          (natVal [h1, h2] == 24 && natVal [m1, m2] == 0 && natVal [s1, s2] == 0 && fp.all (· == '0')))
     | _ =>
       tzLex r &&
         ((natVal [h1, h2] ≤ 23 && natVal [m1, m2] ≤ 59 && natVal [s1, s2] ≤ 59) ||
          (natVal [h1, h2] == 24 && natVal [m1, m2] == 0 && natVal [s1, s2] == 0)))
  | _ => false

def dateTimeLex : Str → Bool
  | '-' :: r => dateBodyLex true r (fun t => match t with | 'T' :: t' => timeLex t' | _ => false)
  | r => dateBodyLex false r (fun t => match t with | 'T' :: t' => timeLex t' | _ => false)

/-! ### durations (§3.3.6, §3.4.26–27): `-?P(nY)?(nM)?(nD)?(T(nH)?(nM)?(n(.n)?S)?)?`,
    at least one field, and at least one field after `T` -/

/-- integer field `[0-9]+X` at the head; returns the rest -/
def intField (des : Char) (s : Str) : Option Str :=
  let ip := takeDigits s
  match dropDigits s with
  | c :: r => if !ip.isEmpty && c == des then some r else none
  | [] => none

/-- seconds field `[0-9]+(\.[0-9]+)?S` at the head -/
def secField (s : Str) : Option Str :=
  let ip := takeDigits s
  if ip.isEmpty then none
  else
    match dropDigits s with
    | 'S' :: r => some r
    | '.' :: r =>
      let fp := takeDigits r
      match dropDigits r with
      | 'S' :: r' => if fp.isEmpty then none else some r'
      | _ => none
    | _ => none

/-- optional field: (rest, present?) -/
def optField (f : Str → Option Str) (s : Str) : Str × Bool :=
  match f s with
  | some r => (r, true)
  | none => (s, false)

/-- the part after `P`; `allowYM`/`allowDT` select duration / yearMonthDuration / dayTimeDuration -/
def durBodyLex (allowYM allowDT : Bool) (s : Str) : Bool :=
  let (s1, hy) := optField (intField 'Y') s
  let (s2, hm) := optField (intField 'M') s1
  let (s3, hd) := optField (intField 'D') s2
  let ymOk := allowYM || !(hy || hm)
  match s3 with
  | [] => ymOk && (allowDT || !hd) && (hy || hm || hd)
  | 'T' :: t =>
    let (t1, hh) := optField (intField 'H') t
    let (t2, hmi) := optField (intField 'M') t1
    let (t3, hs) := optField secField t2
    ymOk && allowDT && t3.isEmpty && (hh || hmi || hs)
  | _ => false

def durLex (allowYM allowDT : Bool) : Str → Bool
  | '-' :: 'P' :: r => durBodyLex allowYM allowDT r
  | 'P' :: r => durBodyLex allowYM allowDT r
  | _ => false

/-! ### hexBinary: `([0-9a-fA-F]{2})*` -/

def isHex (c : Char) : Bool :=
  c.isDigit || (97 ≤ c.toNat && c.toNat ≤ 102) || (65 ≤ c.toNat && c.toNat ≤ 70)

def hexLex : Str → Bool
  | [] => true
  | [_] => false
  | a :: b :: r => isHex a && isHex b && hexLex r

def hexNib (c : Char) : Nat :=
  if c.isDigit then c.toNat - 48 else if 97 ≤ c.toNat then c.toNat - 87 else c.toNat - 55

def hexVal : Str → List Nat
  | a :: b :: r => (16 * hexNib a + hexNib b) :: hexVal r
  | _ => []

/-! ### float / double (§3.3.4, §3.3.5): `(\+|-)?([0-9]+(\.[0-9]*)?|\.[0-9]+)([Ee](\+|-)?[0-9]+)?|(\+|-)?INF|NaN` -/

def notExpChar (c : Char) : Bool := c != 'e' && c != 'E'

/-- the exponent part: absent, or `[Ee](\+|-)?[0-9]+` -/
def expLex : Str → Bool
  | [] => true
  | _ :: '+' :: r => nonEmptyDigits r
  | _ :: '-' :: r => nonEmptyDigits r
  | _ :: r => nonEmptyDigits r

/-- an unsigned numeral: mantissa up to the first `e`/`E`, then the exponent part -/
def numeralLex (r : Str) : Bool := decBodyLex (r.takeWhile notExpChar) && expLex (r.dropWhile notExpChar)

def doubleLex (s : Str) : Bool :=
  s == ['N', 'a', 'N'] ||
  (match s with
   | '+' :: r => r == ['I', 'N', 'F'] || numeralLex r
   | '-' :: r => r == ['I', 'N', 'F'] || numeralLex r
   | r => r == ['I', 'N', 'F'] || numeralLex r)

/-! ### base64Binary (§3.3.16): `((B64 B64 B64 B64)* (B64 B64 B64 B64char | B64 B64 B16 '=' | B64 B04 '=' #x20? '='))?`
    with `B64 ::= B64char #x20?` — i.e. the canonical language without spaces, and a single space allowed after
    every character but the last -/

def b64Alphabet : Str := "ABCDEFGHIJKLMNOPQRSTUVWXYZabcdefghijklmnopqrstuvwxyz0123456789+/".toList

def isB64 (c : Char) : Bool := b64Alphabet.contains c
def isB16 (c : Char) : Bool := "AEIMQUYcgkosw048".toList.contains c
def isB04 (c : Char) : Bool := "AQgw".toList.contains c

/-- the six bits a character stands for: its position in the alphabet (RFC 4648 table 1) -/
def b64Six (c : Char) : Nat := b64Alphabet.idxOf c

/-- the language without spaces -/
def b64Body : Str → Bool
  | [] => true
  | a :: b :: c :: d :: r =>
    if d == '=' then r.isEmpty && isB64 a && (if c == '=' then isB04 b else isB64 b && isB16 c)
    else isB64 a && isB64 b && isB64 c && isB64 d && b64Body r
  | _ => false

def noSpaces (s : Str) : Str := s.filter (fun c => c != ' ')

def b64Lex (s : Str) : Bool :=
  s.head? != some ' ' && s.getLast? != some ' ' && noDoubleSpace s && b64Body (noSpaces s)

/-- four characters = 24 bits = three octets; with `=` padding one or two octets -/
def b64BodyVal : Str → List Nat
  | a :: b :: c :: d :: r =>
    if d == '=' then
      (if c == '=' then [b64Six a * 4 + b64Six b / 16]
       else [b64Six a * 4 + b64Six b / 16, b64Six b % 16 * 16 + b64Six c / 4])
    else (b64Six a * 4 + b64Six b / 16) :: (b64Six b % 16 * 16 + b64Six c / 4) :: (b64Six c % 4 * 64 + b64Six d) ::
      b64BodyVal r
  | _ => []

def b64ValOf (s : Str) : List Nat := b64BodyVal (noSpaces s)

/-! ### values of the date/time and duration families at field level

  Only meaningful on forms in the lexical space.  Fractions of a second are compared as digit
  strings without trailing zeros; 24:00:00 is kept as written (stricter than XSD, which
  identifies it with 00:00:00 of the next day). -/

def rstripZeros : Str → Str
  | [] => []
  | c :: cs =>
    match rstripZeros cs with
    | [] => if c == '0' then [] else [c]
    | r => c :: r

/-- time-zone offset in minutes -/
def tzVal : Str → Option Int
  | ['Z'] => some 0
  | [sg, a, b, ':', c, d] =>
    let m : Int := (natVal [a, b] * 60 + natVal [c, d] : Nat)
    some (if sg == '-' then -m else m)
  | _ => none

structure DateV where
  year : Int
  month : Nat
  day : Nat
  tz : Option Int
  deriving DecidableEq, Repr

structure TimeV where
  hour : Nat
  minute : Nat
  second : Nat
  frac : Str          -- fraction digits, trailing zeros removed
  tz : Option Int
  deriving DecidableEq, Repr

/-- microseconds of a fraction of a second given without trailing zeros (exact when it has at most six digits) -/
def fracMicros (fr : Str) : Nat := natVal fr * 10 ^ (6 - fr.length)

/-- the time of day as microseconds since midnight, local -/
def TimeV.localMicros (t : TimeV) : Nat := ((t.hour * 60 + t.minute) * 60 + t.second) * 1000000 + fracMicros t.frac

/-- XSD timeline value of a time of day with a zone (microseconds): local time minus the offset (§3.3.8: `timeOnTimeline`) -/
def TimeV.utcMicros (t : TimeV) : Option Int := t.tz.map (fun z => (t.localMicros : Int) - z * 60000000)

def dateVal (s : Str) : DateV × Str :=
  let neg := s.head? == some '-'
  let s' := if neg then s.drop 1 else s
  let y := takeDigits s'
  match dropDigits s' with
  | '-' :: m1 :: m2 :: '-' :: d1 :: d2 :: r =>
    (⟨if neg then -(natVal y : Int) else (natVal y : Int), natVal [m1, m2], natVal [d1, d2], tzVal r⟩, r)
  | r => (⟨0, 0, 0, none⟩, r)

def timeVal (s : Str) : TimeV :=
  match s with
  | h1 :: h2 :: ':' :: m1 :: m2 :: ':' :: s1 :: s2 :: r =>
    match r with
    | '.' :: r' => ⟨natVal [h1, h2], natVal [m1, m2], natVal [s1, s2], rstripZeros (takeDigits r'), tzVal (dropDigits r')⟩
    | _ => ⟨natVal [h1, h2], natVal [m1, m2], natVal [s1, s2], [], tzVal r⟩
  | _ => ⟨0, 0, 0, [], none⟩

/-- dateTime: the date fields (without zone) and the time fields (with zone) -/
def dateTimeVal (s : Str) : DateV × TimeV :=
  let (d, r) := dateVal s
  ({ d with tz := none }, match r with | 'T' :: t => timeVal t | _ => timeVal [])

/-- value of an optional integer field -/
def fieldVal (des : Char) (s : Str) : Nat × Str :=
  match intField des s with
  | some r => (natVal (takeDigits s), r)
  | none => (0, s)

/-- duration value: months, and seconds as numerator / 10^scale (both carry the sign) -/
def durVal (s0 : Str) : Int × Int × Nat :=
  let neg := s0.head? == some '-'
  let s := (if neg then s0.drop 1 else s0).drop 1      -- after `P`
  let (y, s1) := fieldVal 'Y' s
  let (mo, s2) := fieldVal 'M' s1
  let (d, s3) := fieldVal 'D' s2
  let t := match s3 with | 'T' :: t => t | _ => []
  let (h, t1) := fieldVal 'H' t
  let (mi, t2) := fieldVal 'M' t1
  let ip := takeDigits t2
  let fp := match dropDigits t2 with | '.' :: r => takeDigits r | _ => []
  let secs : Nat := (((d * 24 + h) * 60 + mi) * 60) * 10 ^ fp.length + natVal (ip ++ fp)
  let months : Nat := y * 12 + mo
  (if neg then -(months : Int) else months, if neg then -(secs : Int) else secs, fp.length)

/-- equality in the value space of datatype `d` of two forms of its lexical space -/
def sameValue (d : Dt) (s t : Str) : Prop :=
  match d with
  | .decimal => ratEq (decVal s) (decVal t)
  | .boolean => boolVal? s = boolVal? t
  | .string | .anyURI | .normalizedString | .token | .language => s = t
  | .date => (dateVal s).1 = (dateVal t).1
  | .time => timeVal s = timeVal t
  | .dateTime => dateTimeVal s = dateTimeVal t
  | .duration | .dayTimeDuration | .yearMonthDuration =>
    (durVal s).1 = (durVal t).1 ∧ ratEq ((durVal s).2.1, (durVal s).2.2) ((durVal t).2.1, (durVal t).2.2)
  | .hexBinary => hexVal s = hexVal t
  | .base64Binary => b64ValOf s = b64ValOf t
  | _ => intVal s = intVal t

/-! ### the lexical space of each modelled datatype -/

def validLex (d : Dt) (s : Str) : Bool :=
  match d with
  | .decimal => decLex s
  | .boolean => (boolVal? s).isSome
  | .string | .anyURI => stringLex s
  | .normalizedString => stringLex s && noTabNlCr s
  | .token => stringLex s && tokenLex s
  | .language => langLex s
  | .date => dateLex s
  | .time => timeLex s
  | .dateTime => dateTimeLex s
  | .duration => durLex true true s
  | .dayTimeDuration => durLex false true s
  | .yearMonthDuration => durLex true false s
  | .hexBinary => hexLex s
  | .base64Binary => b64Lex s
  | d => intLex s && inBounds (xsdBounds d) (intVal s)

/-- plain literal (no datatype): every string -/
def validLexOpt : Option Dt → Str → Bool
  | none, _ => true
  | some d, s => validLex d s

end RV.C09.Spec
