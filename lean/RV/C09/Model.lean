import RV.C09.Tables
/-
  C09 — model of the Literal ↔ Python value mapping of `rdflib/term.py` and of the
  repo-owned parsers / printers of `rdflib/xsd_datetime.py` (after the four `fix:`
  commits of this property: `_float_to_xsd`, `duration_isoformat` signs,
  `_seconds_to_microseconds`, `normalize()` on bytes).

  What rdflib OWNS is modelled step by step: the rule tables python type →
  (lexicaliser, datatype) (`_castPythonToLiteral`), the converter table
  (`_castLexicalToPython`), the well-formedness checkers, the normalise branch of
  `Literal.__new__`, `normalize()`, `eq`, `_parseBoolean`, `parse_xsd_date`'s string
  surgery, `parse_xsd_duration` (its regular expression as a recogniser over the
  character list), `duration_isoformat`, `_unhexlify`/`hexlify`, the whitespace
  post-processing of `xsd:normalizedString` / `xsd:token`.

  CPython's constructors are *parameters with their documented grammar*, modelled on a
  declared fragment (printable ASCII + ASCII white space; `inFragment` below — the
  driver answers `unmodelled` outside it):
    `int(str)`        strip white space, sign, digit groups separated by single `_`
    `Decimal(str)`    strip, drop every `_`, sign, digits[.digits] | .digits, exponent (NaN / sNaN / Infinity are
                      refused by rdflib's `_parse_xsd_decimal`, fix C09-F13: `pyDecimal` = the finite values)
    `"{:f}".format(Decimal)`, `str(int)`, `date/time/datetime.isoformat()`
    `date.fromisoformat`   YYYY-MM-DD | YYYYMMDD (week dates are outside the fragment)
    `time/datetime.fromisoformat` on the XSD-shaped fragment `hh:mm:ss[.f+][Z|±hh:mm]`
  No floats anywhere: `xsd:float/double` are outside the model.

  A lexical form given as `bytes` is decoded as UTF-8 first (fix C09-F11) and is then the `str` case.
  Strings are `List Char`; Python `None` is `Option.none`; an exception escaping
  `Literal(...)` is `none` of `mkLex`/`mkPy`.
-/
namespace RV.C09

abbrev Str := List Char

/-! ## digits (core `Nat.toDigits` / `Nat.ofDigitChars`) -/

/-- `str(n)` for a natural number -/
def digits (n : Nat) : Str := Nat.toDigits 10 n
/-- value of a string of ASCII digits (`int(s)` on digits) -/
def num (s : Str) : Nat := Nat.ofDigitChars 10 s 0
def allDigits (s : Str) : Bool := s.all Char.isDigit
/-- `s.zfill(w)` on digit strings / `"%0wd"` -/
def zfill (w : Nat) (s : Str) : Str := List.replicate (w - s.length) '0' ++ s
def digitsW (w n : Nat) : Str := zfill w (digits n)

def takeDigits : Str → Str
  | [] => []
  | c :: cs => if c.isDigit then c :: takeDigits cs else []
def dropDigits : Str → Str
  | [] => []
  | c :: cs => if c.isDigit then dropDigits cs else c :: cs

/-- `str(i)` for a Python int -/
def intRepr (i : Int) : Str :=
  match i with
  | .ofNat n => digits n
  | .negSucc n => '-' :: digits (n + 1)

/-! ## Python white space (ASCII part) -/

def isWs (c : Char) : Bool := c == ' ' || (9 ≤ c.toNat && c.toNat ≤ 13)
def stripL : Str → Str
  | [] => []
  | c :: cs => if isWs c then stripL cs else c :: cs
def stripR : Str → Str
  | [] => []
  | c :: cs =>
    match stripR cs with
    | [] => if isWs c then [] else [c]
    | r => c :: r
def strip (s : Str) : Str := stripR (stripL s)

/-! ## CPython `int(str)` -/

/-- digit groups separated by single underscores; `pd` = previous char was a digit -/
def ungroup : Bool → Str → Option Str
  | pd, [] => if pd then some [] else none
  | pd, c :: cs =>
    if c.isDigit then (ungroup true cs).map (c :: ·)
    else if c == '_' && pd then ungroup false cs
    else none

def pyNat (s : Str) : Option Nat := (ungroup false s).map num

def pyInt (s : Str) : Option Int :=
  match strip s with
  | '-' :: r => (pyNat r).map (fun n => - (n : Int))
  | '+' :: r => (pyNat r).map (fun n => (n : Int))
  | r => (pyNat r).map (fun n => (n : Int))

/-! ## Python values -/

inductive PyVal
  | int (i : Int)
  | bool (b : Bool)
  /-- finite `Decimal`: sign, coefficient, exponent (`as_tuple`) -/
  | dec (neg : Bool) (coeff : Nat) (exp : Int)
  | str (s : Str)
  | bytes (b : List Nat)
  | date (y m d : Nat)
  /-- tz = utcoffset in microseconds -/
  | time (h mi s us : Nat) (tz : Option Int)
  | datetime (y m d h mi s us : Nat) (tz : Option Int)
  /-- total microseconds -/
  | timedelta (us : Int)
  /-- `Duration`: years, months (0 ≤ months < 12 after the constructor), tdelta µs -/
  | duration (years : Int) (months : Int) (us : Int)
  deriving DecidableEq, Repr

/-! ## CPython `Decimal(str)` (finite values) and `"{:f}"` -/

def dropUnderscores (s : Str) : Str := s.filter (fun c => c != '_')

/-- exponent part: `[]` or `e|E [sign] digits+` -/
def pyExp : Str → Option Int
  | [] => some 0
  | c :: r =>
    if c == 'e' || c == 'E' then
      match r with
      | '-' :: ds => if !ds.isEmpty && allDigits ds then some (-(num ds : Int)) else none
      | '+' :: ds => if !ds.isEmpty && allDigits ds then some (num ds : Int) else none
      | ds => if !ds.isEmpty && allDigits ds then some (num ds : Int) else none
    else none

def pyDecBody (neg : Bool) (s : Str) : Option PyVal :=
  let ip := takeDigits s
  match dropDigits s with
  | '.' :: r' =>
    let fp := takeDigits r'
    if ip.isEmpty && fp.isEmpty then none
    else (pyExp (dropDigits r')).map (fun e => .dec neg (num (ip ++ fp)) (e - fp.length))
  | r => if ip.isEmpty then none else (pyExp r).map (fun e => .dec neg (num ip) e)

def pyDecimal (s : Str) : Option PyVal :=
  match dropUnderscores (strip s) with
  | '-' :: r => pyDecBody true r
  | '+' :: r => pyDecBody false r
  | r => pyDecBody false r

/-- `"{:f}".format(Decimal((neg, coeff, exp)))` -/
def fmtF (neg : Bool) (coeff : Nat) (exp : Int) : Str :=
  let body :=
    if 0 ≤ exp then
      (if coeff = 0 then ['0'] else digits coeff ++ List.replicate exp.toNat '0')
    else
      let k := (-exp).toNat
      let p := zfill (k + 1) (digits coeff)
      p.take (p.length - k) ++ '.' :: p.drop (p.length - k)
  if neg then '-' :: body else body

/-! ## boolean -/

def lowerC (c : Char) : Char :=
  if 65 ≤ c.toNat && c.toNat ≤ 90 then Char.ofNat (c.toNat + 32) else c

/-- `_parseBoolean` -/
def parseBoolean (s : Str) : Bool :=
  let l := s.map lowerC
  l == ['1'] || l == ['t', 'r', 'u', 'e']

/-- `str(b).lower()` -/
def boolLex (b : Bool) : Str := if b then ['t', 'r', 'u', 'e'] else ['f', 'a', 'l', 's', 'e']

/-! ## string post-processing (`_normalise_XSD_STRING`, `_strip_and_collapse_whitespace`) -/

def normaliseXsdString (s : Str) : Str :=
  s.map (fun c => if c == '\t' || c == '\n' || c == '\r' then ' ' else c)

/-- `re.sub(" +", " ", s)`: a space followed by a space is dropped -/
def collapseSpaces : Str → Str
  | [] => []
  | c :: cs => if c == ' ' && cs.head? == some ' ' then collapseSpaces cs else c :: collapseSpaces cs

/-- `s.strip(" ")` -/
def stripSpL : Str → Str
  | [] => []
  | c :: cs => if c == ' ' then stripSpL cs else c :: cs
def stripSpR : Str → Str
  | [] => []
  | c :: cs =>
    match stripSpR cs with
    | [] => if c == ' ' then [] else [c]
    | r => c :: r

def stripAndCollapse (s : Str) : Str := collapseSpaces (stripSpR (stripSpL s))

/-! ## dates and times (CPython `fromisoformat` / `isoformat` on the declared fragment) -/

def isLeap (y : Nat) : Bool := y % 400 == 0 || (y % 100 != 0 && y % 4 == 0)

def daysInMonth (y m : Nat) : Nat :=
  if m == 2 then (if isLeap y then 29 else 28)
  else if m == 4 || m == 6 || m == 9 || m == 11 then 30 else 31

def validYMD (y m d : Nat) : Bool :=
  1 ≤ y && y ≤ 9999 && 1 ≤ m && m ≤ 12 && 1 ≤ d && d ≤ daysInMonth y m

def mkDate (y m d : Str) : Option PyVal :=
  if allDigits y && allDigits m && allDigits d && validYMD (num y) (num m) (num d)
  then some (.date (num y) (num m) (num d)) else none

/-- `date.fromisoformat` (Python ≥ 3.11) without ISO week dates -/
def pyDateFromIso (s : Str) : Option PyVal :=
  match s with
  | [y1, y2, y3, y4, '-', m1, m2, '-', d1, d2] => mkDate [y1, y2, y3, y4] [m1, m2] [d1, d2]
  | [y1, y2, y3, y4, m1, m2, d1, d2] => mkDate [y1, y2, y3, y4] [m1, m2] [d1, d2]
  | _ => none

/-- index of the last occurrence (`str.rfind`) -/
def lastIdx (c : Char) : Str → Option Nat
  | [] => none
  | x :: xs =>
    match lastIdx c xs with
    | some i => some (i + 1)
    | none => if x == c then some 0 else none

def dropLast : Str → Str
  | [] => []
  | [_] => []
  | c :: cs => c :: dropLast cs

def lastChar? : Str → Option Char
  | [] => none
  | [c] => some c
  | _ :: cs => lastChar? cs

/-- `parse_xsd_date`, step 1: drop a final `Z`/`z` -/
def dateStripZ (s0 : Str) : Str :=
  if lastChar? s0 == some 'Z' || lastChar? s0 == some 'z' then dropLast s0 else s0

/-- step 3: cut a time part (`…T…`) or a time-zone suffix (`+hh:mm`, `-hh:mm`) -/
def dateCut (s2 : Str) : Str :=
  if s2.contains 'T' then s2.takeWhile (fun c => c != 'T')
  else
    match lastIdx '+' s2 with
    | some (i + 1) => s2.take (i + 1)
    | _ =>
      match lastIdx '-' s2 with
      | some i => if (s2.drop (i + 1)).contains ':' then s2.take i else s2
      | none => s2

/-- final step: at least one dash, then `date.fromisoformat` (which never parses a leading `-`) -/
def dateFinish (minus : Bool) (s3 : Str) : Option PyVal :=
  if !s3.contains '-' then none
  else if minus then none
  else pyDateFromIso s3

/-- `parse_xsd_date` — the string surgery is rdflib's, the final call is `date.fromisoformat` -/
def parseXsdDate (s0 : Str) : Option PyVal :=
  let s1 := dateStripZ s0
  let minus := s1.head? == some '-'
  dateFinish minus (dateCut (if minus then s1.drop 1 else s1))

/-- fraction digits → microseconds, truncating (CPython ≥ 3.11) -/
def fracToMicrosTrunc (fp : Str) : Nat := num ((fp ++ ['0', '0', '0', '0', '0', '0']).take 6)

/-- raw utcoffset fields: negative?, hh, mm, ss, fraction digits -/
abbrev TzRaw := Bool × Nat × Nat × Nat × Str

/-- utcoffset part `Z | ±hh:mm[:ss[.f+]]` of the fragment; `none` = not of this shape,
    `some none` = absent -/
def parseTzShape : Str → Option (Option TzRaw)
  | [] => some none
  | ['Z'] => some (some (false, 0, 0, 0, []))
  | sg :: a :: b :: ':' :: c :: d :: r =>
    if (sg == '+' || sg == '-') && allDigits [a, b, c, d] then
      match r with
      | [] => some (some (sg == '-', num [a, b], num [c, d], 0, []))
      | ':' :: e :: f :: r' =>
        if allDigits [e, f] then
          match r' with
          | [] => some (some (sg == '-', num [a, b], num [c, d], num [e, f], []))
          | '.' :: fp => if !fp.isEmpty && allDigits fp then some (some (sg == '-', num [a, b], num [c, d], num [e, f], fp)) else none
          | _ => none
        else none
      | _ => none
    else none
  | _ => none

/-- CPython: the offset must be strictly inside ±24 h; its fields are not range-checked one by one -/
def tzOfShape : Option TzRaw → Option (Option Int)
  | none => some none
  | some (neg, hh, mm, ss, fp) =>
    let us := (hh * 3600 + mm * 60 + ss) * 1000000 + fracToMicrosTrunc fp
    if us < 86400000000 then some (some (if neg then -(us : Int) else (us : Int)))
    else none

/-- the part after `hh:mm:ss`: `[.f+][tz]` -/
def splitFrac (r : Str) : Option (Str × Str) :=
  match r with
  | '.' :: r' =>
    let fp := takeDigits r'
    if fp.isEmpty then none else some (fp, dropDigits r')
  | _ => some ([], r)

/-- shape `hh:mm:ss[.f+][Z|±hh:mm]` → raw fields -/
def timeShape (s : Str) : Option (Nat × Nat × Nat × Str × Option TzRaw) :=
  match s with
  | h1 :: h2 :: ':' :: m1 :: m2 :: ':' :: s1 :: s2 :: r =>
    if allDigits [h1, h2, m1, m2, s1, s2] then
      match splitFrac r with
      | some (fp, r') =>
        match parseTzShape r' with
        | some tz => some (num [h1, h2], num [m1, m2], num [s1, s2], fp, tz)
        | none => none
      | none => none
    else none
  | _ => none

/-- `time.fromisoformat` on the fragment -/
def pyTimeFromIso (s : Str) : Option PyVal :=
  match timeShape s with
  | some (h, mi, sec, fp, tz) =>
    if h < 24 && mi < 60 && sec < 60 then
      match tzOfShape tz with
      | some off => some (.time h mi sec (fracToMicrosTrunc fp) off)
      | none => none
    else none
  | none => none

/-- shape `[-]Y{4,}-MM-DDThh:mm:ss…` → (sign, year digits, month, day, time part) -/
def dateTimeShape (s : Str) : Option (Bool × Str × Str × Str × Str) :=
  let neg := s.head? == some '-'
  let s' := if neg then s.drop 1 else s
  let y := takeDigits s'
  match dropDigits s' with
  | '-' :: m1 :: m2 :: '-' :: d1 :: d2 :: 'T' :: t =>
    if 4 ≤ y.length && allDigits [m1, m2, d1, d2] && (timeShape t).isSome
    then some (neg, y, [m1, m2], [d1, d2], t) else none
  | _ => none

/-- `datetime.fromisoformat` on the fragment -/
def pyDateTimeFromIso (s : Str) : Option PyVal :=
  match dateTimeShape s with
  | some (neg, y, m, d, t) =>
    if neg || y.length != 4 then none
    else
      match mkDate y m d, pyTimeFromIso t with
      | some (.date yy mm dd), some (.time h mi sec us tz) => some (.datetime yy mm dd h mi sec us tz)
      | _, _ => none
  | none => none

def pad2 (n : Nat) : Str := digitsW 2 n

/-- `date.isoformat()` -/
def dateIso (y m d : Nat) : Str := digitsW 4 y ++ '-' :: pad2 m ++ '-' :: pad2 d

/-- utcoffset suffix of `isoformat()`: `±hh:mm[:ss[.ffffff]]` -/
def tzIso : Option Int → Str
  | none => []
  | some off =>
    let a := off.natAbs
    let us := a % 1000000
    let secs := a / 1000000
    let base := (if off < 0 then '-' else '+') :: pad2 (secs / 3600) ++ ':' :: pad2 (secs / 60 % 60)
    if us != 0 then base ++ ':' :: pad2 (secs % 60) ++ '.' :: digitsW 6 us
    else if secs % 60 != 0 then base ++ ':' :: pad2 (secs % 60)
    else base

/-- `time.isoformat()` -/
def timeIso (h mi s us : Nat) (tz : Option Int) : Str :=
  pad2 h ++ ':' :: pad2 mi ++ ':' :: pad2 s ++ (if us = 0 then [] else '.' :: digitsW 6 us) ++ tzIso tz

/-- `datetime.isoformat()` -/
def datetimeIso (y m d h mi s us : Nat) (tz : Option Int) : Str :=
  dateIso y m d ++ 'T' :: timeIso h mi s us tz

/-! ## durations (`rdflib/xsd_datetime.py`) -/

/-- a number token of `ISO8601_PERIOD_REGEX`: `[0-9]+([,.][0-9]+)?` -/
structure NumTok where
  ip : Str
  fp : Option Str
  deriving DecidableEq, Repr

/-- one optional group `([0-9]+([,.][0-9]+)?X)?` tried at the current position -/
def tryField (des : Char) (s : Str) : Option (NumTok × Str) :=
  let ip := takeDigits s
  if ip.isEmpty then none
  else
    match dropDigits s with
    | c :: r =>
      if c == des then some (⟨ip, none⟩, r)
      else if c == '.' || c == ',' then
        let fp := takeDigits r
        match dropDigits r with
        | c' :: r' => if c' == des && !fp.isEmpty then some (⟨ip, some fp⟩, r') else none
        | [] => none
      else none
    | [] => none

/-- the sequence of optional groups for the designators in `order` -/
def fieldsInOrder : List Char → Str → List (Option NumTok) × Str
  | [], s => ([], s)
  | des :: rest, s =>
    match tryField des s with
    | some (t, s') => let (ts, r) := fieldsInOrder rest s'; (some t :: ts, r)
    | none => let (ts, r) := fieldsInOrder rest s; (none :: ts, r)

structure DurRaw where
  neg : Bool
  y : Option NumTok
  mo : Option NumTok
  w : Option NumTok
  d : Option NumTok
  h : Option NumTok
  mi : Option NumTok
  s : Option NumTok
  deriving DecidableEq, Repr

/-- the part of `ISO8601_PERIOD_REGEX` after `P` (`P(?!\b)`: a word character must follow) -/
def periodBody (neg : Bool) (r : Str) : Option DurRaw :=
  if r.isEmpty then none
  else
    match fieldsInOrder ['Y', 'M', 'W', 'D'] r with
    | ([y, mo, w, d], r1) =>
      match r1 with
      | [] => some ⟨neg, y, mo, w, d, none, none, none⟩
      | 'T' :: r2 =>
        match fieldsInOrder ['H', 'M', 'S'] r2 with
        | ([h, mi, sec], []) => some ⟨neg, y, mo, w, d, h, mi, sec⟩
        | _ => none
      | _ => none
    | _ => none

/-- `ISO8601_PERIOD_REGEX.match` (`$` also matches before one final newline) -/
def matchPeriod (s0 : Str) : Option DurRaw :=
  match (if lastChar? s0 == some '\n' then dropLast s0 else s0) with
  | '-' :: 'P' :: r => periodBody true r
  | '+' :: 'P' :: r => periodBody false r
  | 'P' :: r => periodBody false r
  | _ => none

def tokInt : Option NumTok → Nat
  | none => 0
  | some t => num t.ip

/-- `str.rstrip("0")` -/
def rstrip0 : Str → Str
  | [] => []
  | c :: cs =>
    match rstrip0 cs with
    | [] => if c == '0' then [] else [c]
    | r => c :: r

/-- `rest > "5"` (string comparison; `rest` has no trailing zeros) -/
def gtHalf : Str → Bool
  | [] => false
  | c :: cs => c.toNat > 53 || (c == '5' && !cs.isEmpty)

/-- `_seconds_to_microseconds` (digits beyond the sixth rounded half to even) -/
def secondsToMicros (ip fp : Str) : Nat :=
  let us := num ip * 1000000 + num ((fp ++ ['0', '0', '0', '0', '0', '0']).take 6)
  let rest := rstrip0 (fp.drop 6)
  if gtHalf rest || (rest == ['5'] && us % 2 == 1) then us + 1 else us

def tokMicros : Option NumTok → Nat
  | none => 0
  | some t => secondsToMicros t.ip (t.fp.getD [])

/-- timedelta range check (CPython: |days| ≤ 999999999); `Int./` is floor division for a positive divisor -/
def tdInRange (us : Int) : Bool :=
  let days := us / 86400000000
  decide (-999999999 ≤ days) && decide (days ≤ 999999999)

/-- `parse_xsd_duration` on a regex match without fractional non-second fields -/
def durOfRaw (r : DurRaw) : Option PyVal :=
  let years := tokInt r.y
  let months := tokInt r.mo
  let us : Int :=
    ((((((tokInt r.w * 7 + tokInt r.d) * 24 + tokInt r.h) * 60 + tokInt r.mi) * 60 : Nat) : Int) * 1000000)
      + (tokMicros r.s : Nat)
  if !tdInRange us then none
  else if years == 0 && months == 0 then
    let v := if r.neg then -us else us
    if tdInRange v then some (.timedelta v) else none
  else
    -- Duration.__init__: fquotmod(months, 0, 12)
    let y1 : Int := (years + months / 12 : Nat)
    let m1 : Int := (months % 12 : Nat)
    if r.neg then
      -- Duration(0) - ret  →  Duration(years=-y1, months=-m1) with tdelta = -us
      if !tdInRange (-us) then none
      else some (.duration (-y1 + (-m1) / 12) ((-m1) % 12) (-us))
    else some (.duration y1 m1 us)

def parseXsdDuration (s : Str) : Option PyVal :=
  match matchPeriod s with
  | some r => durOfRaw r
  | none => none

/-- the day-time part of `duration_isoformat` for `usecs > 0` -/
def dayTimeIso (usecs : Nat) : Str :=
  let us := usecs % 1000000
  let secsT := usecs / 1000000
  let s := secsT % 60
  let mins := secsT / 60
  let mi := mins % 60
  let hrs := mins / 60
  let h := hrs % 24
  let d := hrs / 24
  (if d != 0 then digits d ++ ['D'] else []) ++
  (if h != 0 || mi != 0 || s != 0 || us != 0 then
     'T' :: ((if h != 0 then digits h ++ ['H'] else []) ++
       (if mi != 0 then digits mi ++ ['M'] else []) ++
       (if s != 0 || us != 0 then
          (if us != 0 then rstrip0 (digits s ++ '.' :: digitsW 6 us) else digits s) ++ ['S']
        else []))
   else [])

/-- `duration_isoformat` (in_weeks = False); `none` = raises ValueError (mixed signs) -/
def durationIso (years months us : Int) (isDuration : Bool) : Option Str :=
  let hasYM := isDuration && !(years == 0 && months == 0)
  let total := years * 12 + months
  let minusYM := hasYM && decide (total < 0)
  let a := total.natAbs
  let ym : Str :=
    if hasYM then
      (if a / 12 != 0 then digits (a / 12) ++ ['Y'] else []) ++
      (if months != 0 then digits (a % 12) ++ ['M'] else [])
    else []
  if us < 0 && hasYM && !minusYM then none
  else if 0 < us && minusYM then none
  else
    let minus := minusYM || decide (us < 0)
    let dt := if us == 0 then [] else dayTimeIso us.natAbs
    let ret := ym ++ dt
    if ret.isEmpty then some (if minus then ['-', 'P', '0', 'D'] else ['P', '0', 'D'])
    else some ((if minus then ['-', 'P'] else ['P']) ++ ret)

/-! ## hexBinary -/

def hexVal (c : Char) : Option Nat :=
  if c.isDigit then some (c.toNat - 48)
  else if 97 ≤ c.toNat && c.toNat ≤ 102 then some (c.toNat - 87)
  else if 65 ≤ c.toNat && c.toNat ≤ 70 then some (c.toNat - 55)
  else none

/-- `binascii.unhexlify` -/
def unhexlify : Str → Option (List Nat)
  | [] => some []
  | [_] => none
  | a :: b :: r =>
    match hexVal a, hexVal b, unhexlify r with
    | some x, some y, some t => some ((16 * x + y) :: t)
    | _, _, _ => none

def hexDigit (n : Nat) : Char := if n < 10 then Char.ofNat (48 + n) else Char.ofNat (87 + n)

/-- `binascii.hexlify` -/
def hexlify : List Nat → Str
  | [] => []
  | b :: r => hexDigit (b / 16) :: hexDigit (b % 16) :: hexlify r

/-! ## base64Binary (`base64.b64decode(s)` = `binascii.a2b_base64`, non-strict; `base64.b64encode`) -/

/-- `table_a2b_base64`: the sextet of an alphabet character -/
def b64Val (c : Char) : Option Nat :=
  if 65 ≤ c.toNat && c.toNat ≤ 90 then some (c.toNat - 65)
  else if 97 ≤ c.toNat && c.toNat ≤ 122 then some (c.toNat - 71)
  else if c.isDigit then some (c.toNat + 4)
  else if c == '+' then some 62
  else if c == '/' then some 63
  else none

/-- the loop of `binascii.a2b_base64` (strict_mode = False) with its state `quad_pos`, `leftchar`, `pads`:
    characters outside the alphabet are skipped; a `=` counts as padding only when at least two characters of
    the current quad have been seen, and the pad that completes the quad ends the decoding (what follows is
    ignored); other `=` are skipped; at the end of the input an unfinished quad is an error
    (`none` = `binascii.Error`: "Incorrect padding" / "number of data characters cannot be 1 more than a multiple of 4") -/
def a2bLoop : Nat → Nat → Nat → Str → Option (List Nat)
  | q, _, _, [] => if q == 0 then some [] else none
  | q, left, pads, c :: cs =>
    if c == '=' then
      if 2 ≤ q then
        (if 4 ≤ q + (pads + 1) then some [] else a2bLoop q left (pads + 1) cs)
      else a2bLoop q left pads cs
    else
      match b64Val c with
      | none => a2bLoop q left pads cs
      | some v =>
        if q == 0 then a2bLoop 1 v 0 cs
        else if q == 1 then (a2bLoop 2 (v % 16) 0 cs).map ((left * 4 + v / 16) :: ·)
        else if q == 2 then (a2bLoop 3 (v % 4) 0 cs).map ((left * 16 + v / 4) :: ·)
        else (a2bLoop 0 0 0 cs).map ((left * 64 + v) :: ·)

/-- `base64.b64decode(s)` for a `str`: `s.encode("ascii")` first (ValueError on a non-ASCII character) -/
def b64decode (s : Str) : Option (List Nat) :=
  if s.all (fun c => c.toNat < 128) then a2bLoop 0 0 0 s else none

/-- `table_b2a_base64` -/
def b64Char (n : Nat) : Char :=
  if n < 26 then Char.ofNat (65 + n)
  else if n < 52 then Char.ofNat (71 + n)
  else if n < 62 then Char.ofNat (n - 4)
  else if n == 62 then '+' else '/'

/-- `base64.b64encode` (three bytes → four characters, `=` padding) -/
def b64encode : List Nat → Str
  | [] => []
  | [a] => [b64Char (a / 4), b64Char (a % 4 * 16), '=', '=']
  | [a, b] => [b64Char (a / 4), b64Char (a % 4 * 16 + b / 16), b64Char (b % 16 * 4), '=']
  | a :: b :: c :: r =>
    b64Char (a / 4) :: b64Char (a % 4 * 16 + b / 16) :: b64Char (b % 16 * 4 + c / 64) :: b64Char (c % 64) :: b64encode r

/-! ## datatypes -/

inductive Dt
  | integer | nonPositiveInteger | negativeInteger | long | int | short | byte
  | nonNegativeInteger | unsignedLong | unsignedInt | unsignedShort | unsignedByte | positiveInteger
  | decimal | boolean
  | string | normalizedString | token | language | anyURI
  | date | time | dateTime
  | duration | dayTimeDuration | yearMonthDuration
  | hexBinary | base64Binary
  deriving DecidableEq, Repr

def Dt.name : Dt → String
  | .integer => "integer" | .nonPositiveInteger => "nonPositiveInteger" | .negativeInteger => "negativeInteger"
  | .long => "long" | .int => "int" | .short => "short" | .byte => "byte"
  | .nonNegativeInteger => "nonNegativeInteger" | .unsignedLong => "unsignedLong" | .unsignedInt => "unsignedInt"
  | .unsignedShort => "unsignedShort" | .unsignedByte => "unsignedByte" | .positiveInteger => "positiveInteger"
  | .decimal => "decimal" | .boolean => "boolean"
  | .string => "string" | .normalizedString => "normalizedString" | .token => "token"
  | .language => "language" | .anyURI => "anyURI"
  | .date => "date" | .time => "time" | .dateTime => "dateTime"
  | .duration => "duration" | .dayTimeDuration => "dayTimeDuration" | .yearMonthDuration => "yearMonthDuration"
  | .hexBinary => "hexBinary" | .base64Binary => "base64Binary"

def Dt.all : List Dt :=
  [.integer, .nonPositiveInteger, .negativeInteger, .long, .int, .short, .byte, .nonNegativeInteger,
   .unsignedLong, .unsignedInt, .unsignedShort, .unsignedByte, .positiveInteger, .decimal, .boolean,
   .string, .normalizedString, .token, .language, .anyURI, .date, .time, .dateTime,
   .duration, .dayTimeDuration, .yearMonthDuration, .hexBinary, .base64Binary]

/-- which converter the model applies (checked against `Tables.xsdToPython` in Props) -/
inductive Conv
  | none | int | decimal | boolean | date | time | dateTime | duration | hex | b64
  deriving DecidableEq, Repr

def Dt.conv : Dt → Conv
  | .integer | .nonPositiveInteger | .negativeInteger | .long | .int | .short | .byte
  | .nonNegativeInteger | .unsignedLong | .unsignedInt | .unsignedShort | .unsignedByte | .positiveInteger => .int
  | .decimal => .decimal
  | .boolean => .boolean
  | .string | .normalizedString | .token | .language | .anyURI => .none
  | .date => .date
  | .time => .time
  | .dateTime => .dateTime
  | .duration | .dayTimeDuration | .yearMonthDuration => .duration
  | .hexBinary => .hex
  | .base64Binary => .b64

def Conv.tableName : Conv → String
  | .none => "none" | .int => "int" | .decimal => "_parse_xsd_decimal" | .boolean => "_parseBoolean"
  | .date => "parse_xsd_date" | .time => "time.fromisoformat" | .dateTime => "datetime.fromisoformat"
  | .duration => "parse_xsd_duration" | .hex => "_unhexlify" | .b64 => "b64decode"

def lookupStr {β : Type} (k : String) : List (String × β) → Option β
  | [] => none
  | (k', v) :: r => if k' == k then some v else lookupStr k r

/-- interval accepted by the datatype's checker in `_check_well_formed_types` (regenerated table) -/
def Dt.bounds (d : Dt) : Option (Option Int × Option Int) := lookupStr d.name Tables.wellFormedBounds

def isNumeric (d : Option Dt) : Bool :=
  match d with
  | some d => Tables.numericTypes.contains d.name
  | none => false

/-! ## `_castLexicalToPython`, the well-formedness check -/

def castLex (dt : Option Dt) (s : Str) : Option PyVal :=
  match dt with
  | none => some (.str s)
  | some d =>
    match d.conv with
    | .none => some (.str s)
    | .int => (pyInt s).map .int
    | .decimal => pyDecimal s
    | .boolean => some (.bool (parseBoolean s))
    | .date => parseXsdDate s
    | .time => pyTimeFromIso s
    | .dateTime => pyDateTimeFromIso s
    | .duration => parseXsdDuration s
    | .hex => (unhexlify s).map .bytes
    | .b64 => (b64decode s).map .bytes

def inOpt (lo hi : Option Int) (i : Int) : Bool :=
  (match lo with | some l => decide (l ≤ i) | none => true) &&
  (match hi with | some h => decide (i ≤ h) | none => true)

def boolLexicals : List Str := [['t', 'r', 'u', 'e'], ['f', 'a', 'l', 's', 'e'], ['1'], ['0']]

/-- `_check_well_formed_types.get(dt, _well_formed_by_value)(lexical, value)` -/
def wellFormed (d : Dt) (s : Str) (v : Option PyVal) : Bool :=
  if d == .boolean && Tables.booleanCheckedLexically then boolLexicals.contains s
  else
    match d.bounds with
    | some (lo, hi) =>
      match v with
      | some (.int i) => inOpt lo hi i
      | _ => false
    | none => v.isSome

/-! ## `_castPythonToLiteral` + `str.__new__` : the lexical form rdflib gives a value -/

/-- documented datatype of the generic rule for the value's Python type -/
def genericDt : PyVal → Option Dt
  | .str _ => none
  | .bool _ => some .boolean
  | .int _ => some .integer
  | .dec .. => some .decimal
  | .datetime .. => some .dateTime
  | .date .. => some .date
  | .time .. => some .time
  | .duration .. => some .duration
  | .timedelta _ => some .dayTimeDuration
  | .bytes _ => none

/-- UTF-8 decoding of bytes is outside the model: only ASCII bytes are decoded -/
def asciiDecode (b : List Nat) : Option Str :=
  if b.all (· < 128) then some (b.map Char.ofNat) else none

/-- lexical form for value `v` when the literal's datatype is `dt`; `none` = an exception escapes -/
def pyLex (v : PyVal) (dt : Option Dt) : Option Str :=
  match v with
  | .bytes b =>
    -- specific rules (bytes, hexBinary) → hexlify, (bytes, base64Binary) → b64encode; no generic rule for bytes
    if dt == some .hexBinary then some (hexlify b)
    else if dt == some .base64Binary then some (b64encode b)
    else asciiDecode b
  | .str s => some s
  | .bool b => some (boolLex b)
  | .int i => some (intRepr i)
  | .dec n c e => some (fmtF n c e)
  | .datetime y m d h mi s us tz => some (datetimeIso y m d h mi s us tz)
  | .date y m d => some (dateIso y m d)
  | .time h mi s us tz => some (timeIso h mi s us tz)
  | .duration y m us =>
    -- specific rule (Duration, yearMonthDuration): the zero duration is written P0M
    if dt == some .yearMonthDuration && (y == 0 && m == 0 && us == 0) then some ['P', '0', 'M']
    else durationIso y m us true
  | .timedelta us =>
    -- specific rule (timedelta, yearMonthDuration): the zero duration is written P0M
    if dt == some .yearMonthDuration && us == 0 then some ['P', '0', 'M']
    else durationIso 0 0 us false

/-! ## Literal -/

structure Lit where
  lex : Str
  dt : Option Dt
  value : Option PyVal
  ill : Option Bool
  deriving DecidableEq, Repr

/-- whitespace post-processing applied to every new literal of these two datatypes -/
def postProcess (dt : Option Dt) (s : Str) : Str :=
  if dt == some .normalizedString then normaliseXsdString s
  else if dt == some .token then stripAndCollapse (normaliseXsdString s)
  else s

/-- `Literal(s, datatype=dt, normalize=…)` for a `str` argument: the white-space facet of
    token / normalizedString is applied first, then converter, checker, optional normalisation -/
def mkLex (dt : Option Dt) (s0 : Str) (normalize : Bool) : Option Lit :=
  match castLex dt (postProcess dt s0), normalize with
  | some pv, true =>
    match pyLex pv dt with
    | some l => some ⟨postProcess dt l, dt, some pv, dt.map (fun d => !wellFormed d (postProcess dt s0) (some pv))⟩
    | none => none
  | v, _ => some ⟨postProcess dt s0, dt, v, dt.map (fun d => !wellFormed d (postProcess dt s0) v)⟩

/-- `rdflib.util._coalesce(datatype, _datatype)` -/
def coalesceDt (dt : Option Dt) (v : PyVal) : Option Dt :=
  match dt with
  | some d => some d
  | none => genericDt v

/-- `Literal(v, datatype=dt)` for a non-string Python object -/
def mkPy (v : PyVal) (dt : Option Dt) : Option Lit :=
  match pyLex v dt with
  | some l => some ⟨postProcess (coalesceDt dt v) l, coalesceDt dt v, some v, none⟩
  | none => none

/-- `Literal(v)` as dispatched by `__new__`: `str` (and `bytes`) go through the lexical branch -/
def mkValue (v : PyVal) (dt : Option Dt) : Option Lit :=
  match v with
  | .str s => mkLex dt s true
  | .bytes _ => none     -- bytes are read as an *encoded lexical form* (finding C09-K5): outside the model
  | _ => mkPy v dt

/-- the late assignment in `__new__`: for xsd:normalizedString / xsd:token a `str` value is replaced by the
    white-space-processed lexical form (a no-op after `mkLex`, `mkPy`: lemma `fixWs_mkLex`; it matters
    when an existing literal is re-typed) -/
def fixWs (dt : Option Dt) (lx : Str) (v : Option PyVal) : Option PyVal :=
  if dt == some .normalizedString || dt == some .token then
    match v with
    | some (.str _) => some (.str lx)
    | v => v
  else v

/-- `Literal(old)` / `Literal(old, datatype=dt)` for an existing literal `old` (first branch of `__new__`):
    with a datatype the old *lexical form* is cast with the new datatype, without one datatype and value are
    copied; no normalisation, `ill_typed` stays `None`; then the white-space post-processing -/
def mkFromLit (old : Lit) (dt : Option Dt) : Lit :=
  match dt with
  | some d =>
    let lx := postProcess (some d) old.lex
    ⟨lx, some d, fixWs (some d) lx (castLex (some d) old.lex), none⟩
  | none =>
    let lx := postProcess old.dt old.lex
    ⟨lx, old.dt, fixWs old.dt lx old.value, none⟩

/-- `Literal.normalize()` -/
def Lit.normalize (l : Lit) : Option Lit :=
  match l.value with
  | none => some l
  | some (.bytes b) =>
    match pyLex (.bytes b) l.dt with
    | some s => mkLex l.dt s true
    | none => none
  | some v => mkValue v l.dt

/-! ## Python `==` on the mapped values, `Literal.__eq__`, `Literal.eq` -/

/-- `c₁·10^e₁ = c₂·10^e₂` by cross-multiplication (no division) -/
def scaledEq (c1 : Nat) (e1 : Int) (c2 : Nat) (e2 : Int) : Bool :=
  let m := min e1 e2
  c1 * 10 ^ (e1 - m).toNat == c2 * 10 ^ (e2 - m).toNat

def decEqInt (n : Bool) (c : Nat) (e : Int) (i : Int) : Bool :=
  if c == 0 then i == 0
  else (n == decide (i < 0)) && scaledEq c e i.natAbs 0

/-- days since 0001-01-01 (proleptic Gregorian), `date.toordinal() - 1` -/
def daysBeforeYear (y : Nat) : Nat := let y' := y - 1; y' * 365 + y' / 4 - y' / 100 + y' / 400
def daysBeforeMonth (y m : Nat) : Nat :=
  ((List.range (m - 1)).map (fun i => daysInMonth y (i + 1))).foldl (· + ·) 0
def ordinal (y m d : Nat) : Nat := daysBeforeYear y + daysBeforeMonth y m + (d - 1)

def todMicros (h mi s us : Nat) : Int := (((h * 60 + mi) * 60 + s) * 1000000 + us : Nat)

/-- Python `==` between mapped values (the pairs `Literal.eq` can reach) -/
def pyEq : PyVal → PyVal → Bool
  | .int a, .int b => a == b
  | .bool a, .bool b => a == b
  | .bool a, .int b => (if a then 1 else 0) == b
  | .int a, .bool b => a == (if b then 1 else 0)
  | .dec n c e, .int i => decEqInt n c e i
  | .int i, .dec n c e => decEqInt n c e i
  | .dec n1 c1 e1, .dec n2 c2 e2 =>
    if c1 == 0 || c2 == 0 then c1 == 0 && c2 == 0
    else n1 == n2 && scaledEq c1 e1 c2 e2
  | .str a, .str b => a == b
  | .bytes a, .bytes b => a == b
  | .date y1 m1 d1, .date y2 m2 d2 => y1 == y2 && m1 == m2 && d1 == d2
  | .time h1 mi1 s1 us1 tz1, .time h2 mi2 s2 us2 tz2 =>
    match tz1, tz2 with
    | none, none => h1 == h2 && mi1 == mi2 && s1 == s2 && us1 == us2
    | some o1, some o2 => todMicros h1 mi1 s1 us1 - o1 == todMicros h2 mi2 s2 us2 - o2
    | _, _ => false
  | .datetime y1 m1 d1 h1 mi1 s1 us1 tz1, .datetime y2 m2 d2 h2 mi2 s2 us2 tz2 =>
    match tz1, tz2 with
    | none, none => y1 == y2 && m1 == m2 && d1 == d2 && h1 == h2 && mi1 == mi2 && s1 == s2 && us1 == us2
    | some o1, some o2 =>
      (ordinal y1 m1 d1 : Int) * 86400000000 + todMicros h1 mi1 s1 us1 - o1
        == (ordinal y2 m2 d2 : Int) * 86400000000 + todMicros h2 mi2 s2 us2 - o2
    | _, _ => false
  | .timedelta a, .timedelta b => a == b
  | .duration y1 m1 u1, .duration y2 m2 u2 => y1 * 12 + m1 == y2 * 12 + m2 && u1 == u2
  | .duration y m u, .timedelta b => y == 0 && m == 0 && u == b
  | .timedelta b, .duration y m u => y == 0 && m == 0 && u == b
  | _, _ => false

/-- `Literal.__eq__` (no language tags in this model) -/
def Lit.termEq (a b : Lit) : Bool := a.dt == b.dt && a.lex == b.lex

def isStringDt (d : Option Dt) : Bool := d == none || d == some .string

/-- `Literal.eq(other)` for two literals; `none` = raises TypeError -/
def Lit.eq (a b : Lit) : Option Bool :=
  if isNumeric a.dt && isNumeric b.dt && a.ill != some true && b.ill != some true
      && a.value.isSome && b.value.isSome then
    match a.value, b.value with
    | some x, some y => some (pyEq x y)
    | _, _ => none
  else if isStringDt a.dt && isStringDt b.dt then some (a.lex == b.lex)
  else if (a.dt.getD .string) != (b.dt.getD .string) then some false
  else
    match a.value, b.value with
    | some x, some y => some (pyEq x y)
    | _, _ =>
      if a.lex == b.lex then some true
      else if a.dt == some .string then some false
      else none

/-- which Python objects `Literal.eq` compares with a literal of datatype `dt` (its docstring: str with plain /
    xsd:string literals, bool with xsd:boolean, int / float / Decimal with the numeric types, date / time /
    datetime with xsd:date / time / dateTime, timedelta / Duration with the three duration datatypes) -/
def eqPyDomain (dt : Option Dt) (v : PyVal) : Bool :=
  match v with
  | .str _ => isStringDt dt
  | .bool _ => dt == some .boolean
  | .int _ | .dec .. => isNumeric dt
  | .date .. | .time .. | .datetime .. => dt == some .date || dt == some .time || dt == some .dateTime
  | .timedelta _ | .duration .. =>
    dt == some .duration || dt == some .dayTimeDuration || dt == some .yearMonthDuration
  | .bytes _ => false

/-- `Literal.eq(other)` for a plain Python object (no language tag); `none` = `NotImplemented` -/
def Lit.eqPy (l : Lit) (v : PyVal) : Option Bool :=
  if eqPyDomain l.dt v then
    match v with
    | .str s => some (l.lex == s)                    -- `str(self) == other`
    | _ =>
      match l.value with                             -- `self.value == other`
      | some x => some (pyEq x v)
      | none => some false
  else none

end RV.C09
