import RV.C09.Props
open RV.C09
#print axioms converter_table
