import RV.C09.Props
open RV.C09
#print axioms converter_table
#print axioms integer_bounds_table
#print axioms rule_tables
#print axioms py_to_lit_valid
#print axioms lit_to_py_back
#print axioms lex_to_value_xsd_partial
#print axioms lex_to_value_xsd_witness
#print axioms normalize_same_value_partial
#print axioms normalize_same_value_witness
#print axioms normalize_idempotent
#print axioms eq_agrees
#print axioms term_eq_implies_eq_partial
#print axioms denotes_cases
#print axioms duration_roundtrip
#print axioms duration_printer_total
#print axioms date_roundtrip
#print axioms time_roundtrip_partial
#print axioms datetime_roundtrip_partial
#print axioms time_readback_wide
#print axioms time_roundtrip_witness
#print axioms duration_py_to_lit
#print axioms retype_is_lex
#print axioms copy_same
#print axioms eq_python_value
#print axioms eq_python_domain_tables
#print axioms binary_codecs
