import RV.C07.Lemmas
namespace RV.C07
end RV.C07
