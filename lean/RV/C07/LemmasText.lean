import RV.C07.Lemmas
/-
  C07 helper lemmas, part 2: `_quote_encode` followed by `decodeUnicodeEscape` is the identity.

  `Spell e l` : the encoded text `e` is a spelling of `l` made of the tokens
  `\\` (backslash), `\"` (quote), `\r` (CR) and single characters other than a backslash.
  Every step of `_quote_encode` keeps the text a spelling of the lexical form, and the decoder
  reads any spelling back.
-/
namespace RV.C07

/-- spellings without escaped quotes / CR: doubled backslashes and plain characters -/
inductive Spell0 : Str → Str → Prop
  | nil : Spell0 [] []
  | bs {e l} : Spell0 e l → Spell0 ('\\' :: '\\' :: e) ('\\' :: l)
  | plain {e l} (c : Char) : c ≠ '\\' → Spell0 e l → Spell0 (c :: e) (c :: l)

inductive Spell : Str → Str → Prop
  | nil : Spell [] []
  | bs {e l} : Spell e l → Spell ('\\' :: '\\' :: e) ('\\' :: l)
  | quote {e l} : Spell e l → Spell ('\\' :: '"' :: e) ('"' :: l)
  | cr {e l} : Spell e l → Spell ('\\' :: 'r' :: e) ('\r' :: l)
  | plain {e l} (c : Char) : c ≠ '\\' → Spell e l → Spell (c :: e) (c :: l)

theorem Spell0.toSpell {e l : Str} (h : Spell0 e l) : Spell e l := by
  induction h with
  | nil => exact .nil
  | bs _ ih => exact .bs ih
  | plain c hc _ ih => exact .plain c hc ih

theorem Spell.append {e₁ l₁ e₂ l₂ : Str} (h₁ : Spell e₁ l₁) (h₂ : Spell e₂ l₂) : Spell (e₁ ++ e₂) (l₁ ++ l₂) := by
  induction h₁ with
  | nil => exact h₂
  | bs _ ih => exact .bs ih
  | quote _ ih => exact .quote ih
  | cr _ ih => exact .cr ih
  | plain c hc _ ih => exact .plain c hc ih

/-! ### `str.replace` of one character -/

@[simp] theorem replaceChar_nil (c : Char) (rep : Str) : replaceChar c rep [] = [] := rfl

theorem replaceChar_cons (c : Char) (rep : Str) (x : Char) (s : Str) :
    replaceChar c rep (x :: s) = (if x = c then rep else [x]) ++ replaceChar c rep s := by
  simp [replaceChar, List.flatMap_cons]

theorem replaceChar_not_mem (c : Char) (rep : Str) : ∀ s : Str, c ∉ s → replaceChar c rep s = s
  | [], _ => rfl
  | x :: s, h => by
    have hx : x ≠ c := fun e => h (by simp [e])
    have hs : c ∉ s := fun e => h (List.mem_cons_of_mem _ e)
    rw [replaceChar_cons, if_neg hx, replaceChar_not_mem c rep s hs]
    rfl

/-- `.replace("\\", "\\\\")` -/
theorem spell0_dbl : ∀ s : Str, Spell0 (replaceChar '\\' ['\\', '\\'] s) s
  | [] => .nil
  | x :: s => by
    rw [replaceChar_cons]
    by_cases h : x = '\\'
    · subst h; simpa using Spell0.bs (spell0_dbl s)
    · simpa [h] using Spell0.plain x h (spell0_dbl s)

/-- `.replace('"', '\\"')` after the backslashes were doubled -/
theorem spell_replQ {e l : Str} (h : Spell0 e l) : Spell (replaceChar '"' ['\\', '"'] e) l := by
  induction h with
  | nil => exact .nil
  | bs _ ih =>
    rw [replaceChar_cons, replaceChar_cons]
    simpa using Spell.bs ih
  | plain c hc _ ih =>
    rw [replaceChar_cons]
    by_cases hq : c = '"'
    · subst hq; simpa using Spell.quote ih
    · simpa [hq] using Spell.plain c hc ih

/-- `.replace("\r", "\\r")` -/
theorem spell_replCR {e l : Str} (h : Spell e l) : Spell (replaceChar '\r' ['\\', 'r'] e) l := by
  induction h with
  | nil => exact .nil
  | bs _ ih =>
    rw [replaceChar_cons, replaceChar_cons]
    simpa using Spell.bs ih
  | quote _ ih =>
    rw [replaceChar_cons, replaceChar_cons]
    simpa using Spell.quote ih
  | cr _ ih =>
    rw [replaceChar_cons, replaceChar_cons]
    simpa using Spell.cr ih
  | plain c hc _ ih =>
    rw [replaceChar_cons]
    by_cases hq : c = '\r'
    · subst hq; simpa using Spell.cr ih
    · simpa [hq] using Spell.plain c hc ih

/-- the short-quoted branch spells the lexical form (it has no newline) -/
theorem spell_shortEncode (s : Str) (h : '\n' ∉ s) : Spell (shortEncode s) s := by
  unfold shortEncode
  rw [replaceChar_not_mem _ _ s h]
  exact spell_replCR (spell_replQ (spell0_dbl s))

/-! ### the long-quoted branch -/

theorem replTriple_cons_ne (c : Char) (s : Str) (h : c ≠ '"') : replTriple (c :: s) = c :: replTriple s := by
  rw [replTriple]
  intro s' hc; exact absurd hc h

theorem replTriple_q_nil : replTriple ['"'] = ['"'] := by decide

theorem replTriple_q_ne (c : Char) (s : Str) (h : c ≠ '"') : replTriple ('"' :: c :: s) = '"' :: replTriple (c :: s) := by
  rw [replTriple]
  intro s' _ hs; injection hs with h1 _; exact h h1

theorem replTriple_qq_nil : replTriple ['"', '"'] = ['"', '"'] := by decide

theorem replTriple_qq_ne (c : Char) (s : Str) (h : c ≠ '"') :
    replTriple ('"' :: '"' :: c :: s) = '"' :: '"' :: replTriple (c :: s) := by
  rw [replTriple]
  · rw [replTriple]
    intro s' _ hs; injection hs with h1 _; exact h h1
  · intro s' _ hs; injection hs with _ h2; injection h2 with h3 _; exact h h3

/-- `.replace('"""', '\\"\\"\\"')` after the backslashes were doubled -/
theorem spell_replTriple_aux : ∀ (n : Nat) (e l : Str), e.length ≤ n → Spell0 e l → Spell (replTriple e) l
  | 0, e, l, hn, h => by
    have : e = [] := List.eq_nil_of_length_eq_zero (Nat.le_zero.mp hn)
    subst this; cases h; exact .nil
  | n + 1, e, l, hn, h => by
    cases h with
    | nil => exact .nil
    | @bs e1 l1 h1 =>
      rw [replTriple_cons_ne _ _ (by decide), replTriple_cons_ne _ _ (by decide)]
      exact .bs (spell_replTriple_aux n e1 l1 (by simp at hn; omega) h1)
    | @plain e1 l1 c hc h1 =>
      have len1 : e1.length ≤ n := by simp at hn; omega
      by_cases hq : c = '"'
      · subst hq
        cases h1 with
        | nil => rw [replTriple_q_nil]; exact .plain _ hc .nil
        | @bs e2 l2 h2 =>
          rw [replTriple_q_ne _ _ (by decide)]
          exact .plain _ hc (spell_replTriple_aux n _ _ len1 (.bs h2))
        | @plain e2 l2 c2 hc2 h2 =>
          by_cases hq2 : c2 = '"'
          · subst hq2
            cases h2 with
            | nil => rw [replTriple_qq_nil]; exact .plain _ hc (.plain _ hc .nil)
            | @bs e3 l3 h3 =>
              rw [replTriple_qq_ne _ _ (by decide)]
              exact .plain _ hc (.plain _ hc (spell_replTriple_aux n _ _ (by simp at len1 ⊢; omega) (.bs h3)))
            | @plain e3 l3 c3 hc3 h3 =>
              by_cases hq3 : c3 = '"'
              · subst hq3
                rw [replTriple]
                exact .quote (.quote (.quote (spell_replTriple_aux n e3 l3 (by simp at len1; omega) h3)))
              · rw [replTriple_qq_ne _ _ hq3]
                exact .plain _ hc (.plain _ hc (spell_replTriple_aux n _ _ (by simp at len1 ⊢; omega) (.plain c3 hc3 h3)))
          · rw [replTriple_q_ne _ _ hq2]
            exact .plain _ hc (spell_replTriple_aux n _ _ len1 (.plain c2 hc2 h2))
      · rw [replTriple_cons_ne _ _ hq]
        exact .plain c hc (spell_replTriple_aux n e1 l1 len1 h1)

theorem spell_replTriple {e l : Str} (h : Spell0 e l) : Spell (replTriple e) l :=
  spell_replTriple_aux e.length e l (Nat.le_refl _) h

/-! ### the trailing-quote step -/

/-- `len(body) - len(body.rstrip("\\"))`: number of backslashes at the end of `body` -/
def trailBs (b : Str) : Nat := b.length - (rstripBs b).length

theorem rstripBs_cons (c : Char) (s : Str) :
    rstripBs (c :: s) = if rstripBs s = [] then (if c = '\\' then [] else [c]) else c :: rstripBs s := by
  simp only [rstripBs]
  cases rstripBs s <;> simp

theorem rstripBs_length_le : ∀ b : Str, (rstripBs b).length ≤ b.length
  | [] => Nat.le_refl _
  | c :: s => by
    have ih := rstripBs_length_le s
    rw [rstripBs_cons]
    by_cases h : rstripBs s = []
    · by_cases hc : c = '\\' <;> simp [h, hc]
    · simp [h]; omega

theorem trailBs_cons_ne (c : Char) (b : Str) (h : c ≠ '\\') : trailBs (c :: b) = trailBs b := by
  have ih := rstripBs_length_le b
  simp only [trailBs, rstripBs_cons]
  by_cases hr : rstripBs b = []
  · simp [hr, h]
  · simp [hr]

theorem trailBs_bs_cons (b : Str) :
    trailBs ('\\' :: b) = if rstripBs b = [] then b.length + 1 else trailBs b := by
  have ih := rstripBs_length_le b
  simp only [trailBs, rstripBs_cons]
  by_cases hr : rstripBs b = []
  · simp [hr]
  · simp [hr]

theorem rstripBs_cons_ne_nil (c : Char) (b : Str) (h : c ≠ '\\') : rstripBs (c :: b) ≠ [] := by
  rw [rstripBs_cons]
  by_cases hr : rstripBs b = [] <;> simp [hr, h]

theorem trailBs_bs_bs (b : Str) : trailBs ('\\' :: '\\' :: b) % 2 = trailBs b % 2 := by
  rw [trailBs_bs_cons]
  by_cases h : rstripBs b = []
  · have h2 : rstripBs ('\\' :: b) = [] := by simp [rstripBs_cons, h]
    have h3 : trailBs b = b.length := by simp [trailBs, h]
    simp [h2, h3]; omega
  · have h2 : rstripBs ('\\' :: b) ≠ [] := by simp [rstripBs_cons, h]
    rw [if_neg h2, trailBs_bs_cons, if_neg h]

theorem trailBs_bs_ne (c : Char) (b : Str) (h : c ≠ '\\') : trailBs ('\\' :: c :: b) = trailBs b := by
  rw [trailBs_bs_cons, if_neg (rstripBs_cons_ne_nil c b h), trailBs_cons_ne c b h]

/-- a final quote that follows an even number of backslashes is an unescaped token of the spelling -/
theorem spell_final_quote : ∀ {e lex : Str}, Spell e lex → ∀ body : Str, e = body ++ ['"'] → trailBs body % 2 = 0 →
    ∃ lex', lex = lex' ++ ['"'] ∧ Spell body lex' := by
  intro e lex h
  induction h with
  | nil => intro body hb; cases body <;> simp at hb
  | @bs e1 l1 h1 ih =>
    intro body hb hpar
    match body, hb with
    | [], hb => simp at hb
    | [x], hb => simp at hb
    | x :: y :: b1, hb =>
      simp only [List.cons_append, List.cons.injEq] at hb
      obtain ⟨hx, hy, he⟩ := hb
      subst hx hy
      rw [trailBs_bs_bs] at hpar
      obtain ⟨l', hl, hs⟩ := ih b1 he hpar
      exact ⟨'\\' :: l', by simp [hl], .bs hs⟩
  | @quote e1 l1 h1 ih =>
    intro body hb hpar
    match body, hb with
    | [], hb => simp at hb
    | [x], hb =>
      simp only [List.cons_append, List.nil_append, List.cons.injEq] at hb
      obtain ⟨hx, _, _⟩ := hb
      subst hx
      have : trailBs ['\\'] % 2 = 1 := by decide
      omega
    | x :: y :: b1, hb =>
      simp only [List.cons_append, List.cons.injEq] at hb
      obtain ⟨hx, hy, he⟩ := hb
      subst hx hy
      rw [trailBs_bs_ne _ _ (by decide)] at hpar
      obtain ⟨l', hl, hs⟩ := ih b1 he hpar
      exact ⟨'"' :: l', by simp [hl], .quote hs⟩
  | @cr e1 l1 h1 ih =>
    intro body hb hpar
    match body, hb with
    | [], hb => simp at hb
    | [x], hb => simp at hb
    | x :: y :: b1, hb =>
      simp only [List.cons_append, List.cons.injEq] at hb
      obtain ⟨hx, hy, he⟩ := hb
      subst hx hy
      rw [trailBs_bs_ne _ _ (by decide)] at hpar
      obtain ⟨l', hl, hs⟩ := ih b1 he hpar
      exact ⟨'\r' :: l', by simp [hl], .cr hs⟩
  | @plain e1 l1 c hc h1 ih =>
    intro body hb hpar
    match body, hb with
    | [], hb =>
      simp only [List.nil_append, List.cons.injEq] at hb
      obtain ⟨hx, he⟩ := hb
      subst hx he
      cases h1
      exact ⟨[], rfl, .nil⟩
    | x :: b1, hb =>
      simp only [List.cons_append, List.cons.injEq] at hb
      obtain ⟨hx, he⟩ := hb
      subst hx
      rw [trailBs_cons_ne _ _ hc] at hpar
      obtain ⟨l', hl, hs⟩ := ih b1 he hpar
      exact ⟨c :: l', by simp [hl], .plain c hc hs⟩

theorem spell_fixTrail {e l : Str} (h : Spell e l) : Spell (fixTrail e) l := by
  unfold fixTrail
  split
  · next hlast =>
    simp only
    split
    · next hpar =>
      have he : e = e.dropLast ++ ['"'] := by
        obtain ⟨ys, hys⟩ := List.getLast?_eq_some_iff.mp hlast
        rw [hys, List.dropLast_concat]
      obtain ⟨l', hl, hs⟩ := spell_final_quote h e.dropLast he hpar
      subst hl
      exact hs.append (.quote .nil)
    · exact h
  · exact h

/-- the long-quoted branch spells the lexical form -/
theorem spell_longEncode (s : Str) : Spell (longEncode s) s := by
  unfold longEncode
  simp only
  apply spell_replCR
  apply spell_fixTrail
  split
  · exact spell_replTriple (spell0_dbl s)
  · exact (spell0_dbl s).toSpell

/-! ### the decoder reads every spelling back -/

theorem alookup_bs : alookup '\\' Tables.stringEscapeMap = some '\\' := by decide
theorem alookup_q : alookup '"' Tables.stringEscapeMap = some '"' := by decide
theorem alookup_r : alookup 'r' Tables.stringEscapeMap = some '\r' := by decide

theorem decodeF_esc (n : Nat) (c r : Char) (s : Str) (h : alookup c Tables.stringEscapeMap = some r) :
    decodeF (n + 1) ('\\' :: c :: s) = (decodeF n s).map (r :: ·) := by
  simp [decodeF, h]

theorem decodeF_plain (n : Nat) (c : Char) (s : Str) (h : c ≠ '\\') :
    decodeF (n + 1) (c :: s) = (decodeF n s).map (c :: ·) := by
  rw [decodeF]
  intro c' s' hc; exact absurd hc h

theorem decodeF_nil (n : Nat) : decodeF n [] = some [] := by
  cases n <;> simp [decodeF]

theorem decode_spell {e l : Str} (h : Spell e l) : ∀ n : Nat, e.length ≤ n → decodeF n e = some l := by
  induction h with
  | nil => intro n _; exact decodeF_nil n
  | bs _ ih =>
    intro n hn
    match n, hn with
    | m + 1, hn => rw [decodeF_esc m _ _ _ alookup_bs, ih m (by simp at hn; omega)]; rfl
  | quote _ ih =>
    intro n hn
    match n, hn with
    | m + 1, hn => rw [decodeF_esc m _ _ _ alookup_q, ih m (by simp at hn; omega)]; rfl
  | cr _ ih =>
    intro n hn
    match n, hn with
    | m + 1, hn => rw [decodeF_esc m _ _ _ alookup_r, ih m (by simp at hn; omega)]; rfl
  | plain c hc _ ih =>
    intro n hn
    match n, hn with
    | m + 1, hn => rw [decodeF_plain m c _ hc, ih m (by simp at hn; omega)]; rfl

/-- ⊢ the string-escape round trip: decoding what `_quote_encode` wrote (without the quotes)
    gives back the lexical form, for every string -/
theorem decode_shortEncode (s : Str) (h : '\n' ∉ s) : decodeEsc (shortEncode s) = some s :=
  decode_spell (spell_shortEncode s h) _ (Nat.le_refl _)

theorem decode_longEncode (s : Str) : decodeEsc (longEncode s) = some s :=
  decode_spell (spell_longEncode s) _ (Nat.le_refl _)

end RV.C07
