import RV.C07.Lemmas
/-
  C07 helper lemmas, part 2: `_quote_encode` followed by `decodeUnicodeEscape` is the identity,
  for EVERY table of written forms that is well-formed.

  The way `_quote_encode` writes each character is not fixed in the model: it is read from tables probed from the
  live function.  `wfTab T` (decidable, checked on the regenerated tables by `decide`) says what the property needs
  of such a table: every written form is a token the decoder reads back to that character without touching what follows
  (the character itself if it is not a backslash, or a backslash and an ECHAR letter of `compat._string_escape_map`),
  in particular the backslash is never written raw.  `Spell e l` : the text `e` is a sequence of such tokens for `l`.
-/
namespace RV.C07

/-- `t` is a token the decoder reads as `c`, whatever follows -/
def tokOk (c : Char) : Str → Bool
  | [x] => decide (x = c) && decide (c ≠ '\\')
  | ['\\', k] => decide (alookup k Tables.stringEscapeMap = some c)
  | _ => false

/-- what the property needs of a table of written forms -/
def wfTab (T : List (Char × Str)) : Bool :=
  T.all (fun p => tokOk p.1 (escWith T p.1)) && tokOk '\\' (escWith T '\\')

inductive Spell : Str → Str → Prop
  | nil : Spell [] []
  | esc {e l} (k c : Char) : alookup k Tables.stringEscapeMap = some c → Spell e l → Spell ('\\' :: k :: e) (c :: l)
  | plain {e l} (c : Char) : c ≠ '\\' → Spell e l → Spell (c :: e) (c :: l)

theorem Spell.append {e₁ l₁ e₂ l₂ : Str} (h₁ : Spell e₁ l₁) (h₂ : Spell e₂ l₂) : Spell (e₁ ++ e₂) (l₁ ++ l₂) := by
  induction h₁ with
  | nil => exact h₂
  | esc k c hk _ ih => exact .esc k c hk ih
  | plain c hc _ ih => exact .plain c hc ih

theorem spell_tok {c : Char} {t e l : Str} (h : tokOk c t = true) (hs : Spell e l) : Spell (t ++ e) (c :: l) := by
  match t, h with
  | [x], h =>
    simp only [tokOk, Bool.and_eq_true, decide_eq_true_eq] at h
    obtain ⟨rfl, hc⟩ := h
    exact .plain x hc hs
  | [a, k], h =>
    by_cases ha : a = '\\'
    · subst ha
      simp only [tokOk, decide_eq_true_eq] at h
      exact .esc k c h hs
    · exfalso
      unfold tokOk at h
      split at h
      · next heq => simp at heq
      · next heq => simp at heq; exact ha heq.1
      · cases h
  | [], h => simp [tokOk] at h
  | _ :: _ :: _ :: _, h => simp [tokOk] at h

theorem tokOk_head {c : Char} {t : Str} (h : tokOk c t = true) : t.head? = some c ∨ t.head? = some '\\' := by
  match t, h with
  | [x], h =>
    simp only [tokOk, Bool.and_eq_true, decide_eq_true_eq] at h
    exact Or.inl (by simp [h.1])
  | [a, k], h =>
    by_cases ha : a = '\\'
    · subst ha; exact Or.inr rfl
    · exfalso
      unfold tokOk at h
      split at h
      · next heq => simp at heq
      · next heq => simp at heq; exact ha heq.1
      · cases h
  | [], h => simp [tokOk] at h
  | _ :: _ :: _ :: _, h => simp [tokOk] at h

theorem alookupS_some_mem {c : Char} {e : Str} : ∀ {T : List (Char × Str)}, alookupS c T = some e → ∃ p ∈ T, p.1 = c
  | [], h => by simp [alookupS] at h
  | (a, b) :: r, h => by
    simp only [alookupS] at h
    split at h
    · next ha => exact ⟨(a, b), List.mem_cons_self, ha⟩
    · obtain ⟨p, hp, hc⟩ := alookupS_some_mem h
      exact ⟨p, List.mem_cons_of_mem _ hp, hc⟩

/-- in a well-formed table every character (in the table or not) has a written form that is a token for it -/
theorem tokOk_escWith {T : List (Char × Str)} (hT : wfTab T = true) (c : Char) : tokOk c (escWith T c) = true := by
  simp only [wfTab, Bool.and_eq_true, List.all_eq_true] at hT
  obtain ⟨hall, hbs⟩ := hT
  cases hl : alookupS c T with
  | some e =>
    obtain ⟨p, hp, hc⟩ := alookupS_some_mem hl
    have := hall p hp
    rw [hc] at this
    exact this
  | none =>
    have he : escWith T c = [c] := by simp [escWith, hl]
    rw [he]
    by_cases hc : c = '\\'
    · subst hc
      rw [he] at hbs
      simp [tokOk] at hbs
    · simp [tokOk, hc]

/-- the short-quoted branch spells the lexical form -/
theorem spell_shortEncodeT {T : List (Char × Str)} (hT : wfTab T = true) : ∀ s : Str, Spell (shortEncodeT T s) s
  | [] => .nil
  | c :: s => by
    have ih := spell_shortEncodeT hT s
    simp only [shortEncodeT, List.flatMap_cons] at ih ⊢
    exact spell_tok (tokOk_escWith hT c) ih

theorem alookup_q : alookup '"' Tables.stringEscapeMap = some '"' := by decide

/-- the long-quoted branch before the final-quote step spells the lexical form -/
theorem spell_encT {T : List (Char × Str)} (hT : wfTab T = true) : ∀ s : Str, Spell (encT T s) s := by
  intro s
  induction s using encT.induct with
  | case1 s ih =>
    rw [encT]
    exact .esc '"' '"' alookup_q (.esc '"' '"' alookup_q (.esc '"' '"' alookup_q ih))
  | case2 c s hnot ih =>
    rw [encT]
    · exact spell_tok (tokOk_escWith hT c) ih
    · exact hnot
  | case3 => exact .nil

/-! ### the trailing-quote step -/

/-- `len(body) - len(body.rstrip("\\"))`: number of backslashes at the end of `body` -/
def trailBs (b : Str) : Nat := b.length - (rstripBs b).length

theorem rstripBs_cons (c : Char) (s : Str) :
    rstripBs (c :: s) = if rstripBs s = [] then (if c = '\\' then [] else [c]) else c :: rstripBs s := by
  simp only [rstripBs]
  cases rstripBs s <;> simp

theorem rstripBs_length_le : ∀ b : Str, (rstripBs b).length ≤ b.length
  | [] => Nat.le_refl _
  | c :: s => by
    have ih := rstripBs_length_le s
    rw [rstripBs_cons]
    by_cases h : rstripBs s = []
    · by_cases hc : c = '\\' <;> simp [h, hc]
    · simp [h]; omega

theorem trailBs_cons_ne (c : Char) (b : Str) (h : c ≠ '\\') : trailBs (c :: b) = trailBs b := by
  have ih := rstripBs_length_le b
  simp only [trailBs, rstripBs_cons]
  by_cases hr : rstripBs b = []
  · simp [hr, h]
  · simp [hr]

theorem trailBs_bs_cons (b : Str) :
    trailBs ('\\' :: b) = if rstripBs b = [] then b.length + 1 else trailBs b := by
  have ih := rstripBs_length_le b
  simp only [trailBs, rstripBs_cons]
  by_cases hr : rstripBs b = []
  · simp [hr]
  · simp [hr]

theorem rstripBs_cons_ne_nil (c : Char) (b : Str) (h : c ≠ '\\') : rstripBs (c :: b) ≠ [] := by
  rw [rstripBs_cons]
  by_cases hr : rstripBs b = [] <;> simp [hr, h]

theorem trailBs_bs_bs (b : Str) : trailBs ('\\' :: '\\' :: b) % 2 = trailBs b % 2 := by
  rw [trailBs_bs_cons]
  by_cases h : rstripBs b = []
  · have h2 : rstripBs ('\\' :: b) = [] := by simp [rstripBs_cons, h]
    have h3 : trailBs b = b.length := by simp [trailBs, h]
    simp [h2, h3]; omega
  · have h2 : rstripBs ('\\' :: b) ≠ [] := by simp [rstripBs_cons, h]
    rw [if_neg h2, trailBs_bs_cons, if_neg h]

theorem trailBs_bs_ne (c : Char) (b : Str) (h : c ≠ '\\') : trailBs ('\\' :: c :: b) = trailBs b := by
  rw [trailBs_bs_cons, if_neg (rstripBs_cons_ne_nil c b h), trailBs_cons_ne c b h]

/-- a final quote that follows an even number of backslashes is an unescaped token of the spelling -/
theorem spell_final_quote : ∀ {e lex : Str}, Spell e lex → ∀ body : Str, e = body ++ ['"'] → trailBs body % 2 = 0 →
    ∃ lex', lex = lex' ++ ['"'] ∧ Spell body lex' := by
  intro e lex h
  induction h with
  | nil => intro body hb; cases body <;> simp at hb
  | @esc e1 l1 k c hk h1 ih =>
    intro body hb hpar
    match body, hb with
    | [], hb => simp at hb
    | [x], hb =>
      simp only [List.cons_append, List.nil_append, List.cons.injEq] at hb
      obtain ⟨hx, _, _⟩ := hb
      subst hx
      have : trailBs ['\\'] % 2 = 1 := by decide
      omega
    | x :: y :: b1, hb =>
      simp only [List.cons_append, List.cons.injEq] at hb
      obtain ⟨hx, hy, he⟩ := hb
      subst hx hy
      by_cases hkb : k = '\\'
      · subst hkb
        rw [trailBs_bs_bs] at hpar
        obtain ⟨l', hl, hs⟩ := ih b1 he hpar
        exact ⟨c :: l', by simp [hl], .esc _ c hk hs⟩
      · rw [trailBs_bs_ne _ _ hkb] at hpar
        obtain ⟨l', hl, hs⟩ := ih b1 he hpar
        exact ⟨c :: l', by simp [hl], .esc _ c hk hs⟩
  | @plain e1 l1 c hc h1 ih =>
    intro body hb hpar
    match body, hb with
    | [], hb =>
      simp only [List.nil_append, List.cons.injEq] at hb
      obtain ⟨hx, he⟩ := hb
      subst hx he
      cases h1
      exact ⟨[], rfl, .nil⟩
    | x :: b1, hb =>
      simp only [List.cons_append, List.cons.injEq] at hb
      obtain ⟨hx, he⟩ := hb
      subst hx
      rw [trailBs_cons_ne _ _ hc] at hpar
      obtain ⟨l', hl, hs⟩ := ih b1 he hpar
      exact ⟨c :: l', by simp [hl], .plain c hc hs⟩

theorem spell_fixTrail {e l : Str} (h : Spell e l) : Spell (fixTrail e) l := by
  unfold fixTrail
  split
  · next hlast =>
    simp only
    split
    · next hpar =>
      have he : e = e.dropLast ++ ['"'] := by
        obtain ⟨ys, hys⟩ := List.getLast?_eq_some_iff.mp hlast
        rw [hys, List.dropLast_concat]
      obtain ⟨l', hl, hs⟩ := spell_final_quote h e.dropLast he hpar
      subst hl
      exact hs.append (.esc '"' '"' alookup_q .nil)
    · exact h
  · exact h

/-- the long-quoted branch spells the lexical form -/
theorem spell_longEncodeT {T : List (Char × Str)} (hT : wfTab T = true) (s : Str) : Spell (longEncodeT T s) s :=
  spell_fixTrail (spell_encT hT s)

/-! ### the decoder reads every spelling back -/

theorem decodeF_esc (n : Nat) (c r : Char) (s : Str) (h : alookup c Tables.stringEscapeMap = some r) :
    decodeF (n + 1) ('\\' :: c :: s) = (decodeF n s).map (r :: ·) := by
  simp [decodeF, h]

theorem decodeF_plain (n : Nat) (c : Char) (s : Str) (h : c ≠ '\\') :
    decodeF (n + 1) (c :: s) = (decodeF n s).map (c :: ·) := by
  rw [decodeF]
  intro c' s' hc; exact absurd hc h

theorem decodeF_nil (n : Nat) : decodeF n [] = some [] := by
  cases n <;> simp [decodeF]

theorem decode_spell {e l : Str} (h : Spell e l) : ∀ n : Nat, e.length ≤ n → decodeF n e = some l := by
  induction h with
  | nil => intro n _; exact decodeF_nil n
  | esc k c hk _ ih =>
    intro n hn
    match n, hn with
    | m + 1, hn => rw [decodeF_esc m _ _ _ hk, ih m (by simp at hn; omega)]; rfl
  | plain c hc _ ih =>
    intro n hn
    match n, hn with
    | m + 1, hn => rw [decodeF_plain m c _ hc, ih m (by simp at hn; omega)]; rfl

/-- ⊢ the string-escape round trip, for ANY well-formed table of written forms: decoding what `_quote_encode`
    wrote (without the surrounding quotes) gives back the lexical form, for every string -/
theorem decode_shortEncodeT {T : List (Char × Str)} (hT : wfTab T = true) (s : Str) :
    decodeEsc (shortEncodeT T s) = some s :=
  decode_spell (spell_shortEncodeT hT s) _ (Nat.le_refl _)

theorem decode_longEncodeT {T : List (Char × Str)} (hT : wfTab T = true) (s : Str) :
    decodeEsc (longEncodeT T s) = some s :=
  decode_spell (spell_longEncodeT hT s) _ (Nat.le_refl _)

/-- in a short-quoted string the quote itself is never written raw: the text between the quotes does not begin with one -/
theorem head_shortEncodeT {T : List (Char × Str)} (hT : wfTab T = true) (hq : escWith T '"' ≠ ['"']) :
    ∀ s : Str, (shortEncodeT T s).head? ≠ some '"'
  | [] => by simp [shortEncodeT]
  | c :: s => by
    have hk := tokOk_escWith hT c
    simp only [shortEncodeT, List.flatMap_cons]
    cases hw : escWith T c with
    | nil => rw [hw] at hk; simp [tokOk] at hk
    | cons a r =>
      simp only [List.cons_append, List.head?_cons, ne_eq, Option.some.injEq]
      intro ha
      subst ha
      rw [hw] at hk
      match r, hk, hw with
      | [], hk, hw =>
        simp only [tokOk, Bool.and_eq_true, decide_eq_true_eq] at hk
        obtain ⟨rfl, _⟩ := hk
        exact hq hw
      | [k], hk, _ => simp [tokOk] at hk
      | _ :: _ :: _, hk, _ => simp [tokOk] at hk

end RV.C07
