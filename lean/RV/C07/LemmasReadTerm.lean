import RV.C07.ReadTerm
import RV.C07.LemmasRead
/-
  C07 helper lemmas, part 5: the grammar-level reader `readTerm` reads back what `n3()` wrote
  and leaves what follows untouched.
-/
namespace RV.C07

/-! ### greedy runs -/

theorem takeWhile_append_stop (p : Char → Bool) : ∀ (a b : Str), (∀ c ∈ a, p c = true) → (∀ c, b.head? = some c → p c = false) →
    (a ++ b).takeWhile p = a ∧ (a ++ b).dropWhile p = b
  | [], b, _, hb => by
    cases b with
    | nil => simp
    | cons x r => simp [List.takeWhile, List.dropWhile, hb x rfl]
  | x :: a, b, ha, hb => by
    have hx : p x = true := ha x List.mem_cons_self
    have ih := takeWhile_append_stop p a b (fun c hc => ha c (List.mem_cons_of_mem _ hc)) hb
    simp [List.takeWhile, List.dropWhile, hx, ih.1, ih.2]

/-! ### IRIREF -/

theorem iriCharOk_ne {c : Char} (h : iriCharOk c = true) : c ≠ '>' ∧ c ≠ '\\' := by
  simp only [iriCharOk, Bool.and_eq_true, Bool.not_eq_true', decide_eq_true_eq] at h
  constructor <;> (intro e; subst e; revert h; decide)

theorem scanIri_plain : ∀ (s suffix : Str), (∀ c ∈ s, iriCharOk c = true) → ∀ n, s.length < n →
    scanIri n (s ++ '>' :: suffix) = some (s, suffix)
  | [], suffix, _, n, hn => by
    match n, hn with
    | m + 1, _ => simp [scanIri]
  | c :: s, suffix, h, n, hn => by
    match n, hn with
    | m + 1, hn =>
      have hc := h c List.mem_cons_self
      obtain ⟨h1, h2⟩ := iriCharOk_ne hc
      have ih := scanIri_plain s suffix (fun x hx => h x (List.mem_cons_of_mem _ hx)) m (by simp at hn; omega)
      simp [scanIri, h1, h2, hc, ih, consFst]

theorem iriCharOk_of_valid {s : Str} (hv : isValidUri s = true) (hg : ∀ c ∈ s, c.toNat > 0x20) :
    ∀ c ∈ s, iriCharOk c = true := by
  intro c hc
  simp only [iriCharOk, Bool.and_eq_true, Bool.not_eq_true', decide_eq_true_eq]
  refine ⟨hg c hc, ?_⟩
  cases hm : Tables.invalidUriChars.contains c with
  | false => rfl
  | true =>
    exfalso
    have : c ∈ Tables.invalidUriChars := by simpa using hm
    exact mem_invalid_of_not_valid hv this hc

/-! ### short-quoted strings -/

/-- spelling accepted inside `"…"`: ECHAR tokens, and raw characters other than backslash, quote, LF, CR -/
inductive SSpell : Str → Str → Prop
  | nil : SSpell [] []
  | esc {e l} (k c : Char) : alookup k Tables.stringEscapeMap = some c → SSpell e l → SSpell ('\\' :: k :: e) (c :: l)
  | plain {e l} (c : Char) : c ≠ '\\' → c ≠ '"' → c ≠ '\n' → c ≠ '\r' → SSpell e l → SSpell (c :: e) (c :: l)

theorem readEscape_echar (k c : Char) (r : Str) (h : alookup k Tables.stringEscapeMap = some c) :
    readEscape (k :: r) = some (c, r) := by
  simp [readEscape, h]

theorem scanShort_spell {e l : Str} (h : SSpell e l) (suffix : Str) : ∀ n, e.length < n →
    scanShort '"' n (e ++ '"' :: suffix) = some (l, suffix) := by
  induction h with
  | nil =>
    intro n hn
    match n, hn with
    | m + 1, _ => simp [scanShort]
  | esc k c hk _ ih =>
    intro n hn
    match n, hn with
    | m + 1, hn =>
      have := ih m (by simp at hn; omega)
      simp [scanShort, readEscape_echar k c _ hk, this, consFst]
  | plain c h1 h2 h3 h4 _ ih =>
    intro n hn
    match n, hn with
    | m + 1, hn =>
      have := ih m (by simp at hn; omega)
      simp [scanShort, h1, h2, h3, h4, this, consFst]

/-- a token of a well-formed table that is neither a raw quote, LF nor CR keeps a short spelling -/
theorem sspell_tok {c : Char} {t e l : Str} (h : tokOk c t = true)
    (hraw : t = [c] → c ≠ '"' ∧ c ≠ '\n' ∧ c ≠ '\r') (hs : SSpell e l) : SSpell (t ++ e) (c :: l) := by
  match t, h, hraw with
  | [x], h, hraw =>
    simp only [tokOk, Bool.and_eq_true, decide_eq_true_eq] at h
    obtain ⟨rfl, hc⟩ := h
    obtain ⟨a, b, d⟩ := hraw rfl
    exact .plain x hc a b d hs
  | [a, k], h, _ =>
    by_cases ha : a = '\\'
    · subst ha
      simp only [tokOk, decide_eq_true_eq] at h
      exact .esc k c h hs
    · exfalso
      unfold tokOk at h
      split at h
      · next heq => simp at heq
      · next heq => simp at heq; exact ha heq.1
      · cases h
  | [], h, _ => simp [tokOk] at h
  | _ :: _ :: _ :: _, h, _ => simp [tokOk] at h

theorem sspell_shortEncodeT {T : List (Char × Str)} (hT : wfTab T = true)
    (hq : escWith T '"' ≠ ['"']) (hr : escWith T '\r' ≠ ['\r']) :
    ∀ s : Str, '\n' ∉ s → SSpell (shortEncodeT T s) s
  | [], _ => .nil
  | c :: s, hn => by
    have ih := sspell_shortEncodeT hT hq hr s (fun h => hn (List.mem_cons_of_mem _ h))
    have hc : c ≠ '\n' := fun e => hn (by simp [e])
    simp only [shortEncodeT, List.flatMap_cons] at ih ⊢
    refine sspell_tok (tokOk_escWith hT c) ?_ ih
    intro ht
    refine ⟨?_, hc, ?_⟩
    · intro e; subst e; exact hq ht
    · intro e; subst e; exact hr ht

/-! ### long-quoted strings -/

/-- spelling accepted inside `"""…"""` when `K` follows: ECHAR tokens, raw characters other than backslash and quote,
    and raw quotes that are not followed by two more quote characters (of the text or of `K`) -/
inductive QSpell (K : Str) : Str → Str → Prop
  | nil : QSpell K [] []
  | esc {e l} (k c : Char) : alookup k Tables.stringEscapeMap = some c → QSpell K e l → QSpell K ('\\' :: k :: e) (c :: l)
  | plain {e l} (c : Char) : c ≠ '\\' → c ≠ '"' → QSpell K e l → QSpell K (c :: e) (c :: l)
  | quote {e l} : QSpell K e l → isPrefix ['"', '"'] (e ++ K) = false → QSpell K ('"' :: e) ('"' :: l)

theorem scanLong_spell {suffix e l : Str} (h : QSpell (q3 ++ suffix) e l) : ∀ n, e.length < n →
    scanLong '"' n (e ++ (q3 ++ suffix)) = some (l, suffix) := by
  induction h with
  | nil =>
    intro n hn
    match n, hn with
    | m + 1, _ => simp [scanLong, q3, isPrefix]
  | esc k c hk _ ih =>
    intro n hn
    match n, hn with
    | m + 1, hn =>
      have := ih m (by simp at hn; omega)
      simp [scanLong, readEscape_echar k c _ hk, this, consFst]
  | plain c h1 h2 _ ih =>
    intro n hn
    match n, hn with
    | m + 1, hn =>
      have := ih m (by simp at hn; omega)
      simp [scanLong, h1, h2, this, consFst]
  | quote _ hp ih =>
    intro n hn
    match n, hn with
    | m + 1, hn =>
      have := ih m (by simp at hn; omega)
      simp [scanLong, hp, this, consFst]

/-! the text before the final-quote step -/

theorem encT_head_quote {T : List (Char × Str)} (hT : wfTab T = true) :
    ∀ s : Str, (encT T s).head? = some '"' → ∃ r, s = '"' :: r ∧ encT T s = '"' :: encT T r := by
  intro s
  induction s using encT.induct with
  | case1 s _ => intro h; rw [encT] at h; simp at h
  | case2 c s hnot _ =>
    intro h
    rw [encT] at h ⊢
    · have hk := tokOk_escWith hT c
      match hw : escWith T c, hk with
      | [x], hk' =>
        simp only [tokOk, Bool.and_eq_true, decide_eq_true_eq] at hk'
        rw [hw] at h
        simp only [List.cons_append, List.nil_append, List.head?_cons, Option.some.injEq] at h
        obtain ⟨rfl, _⟩ := hk'
        subst h
        exact ⟨s, rfl, by simp⟩
      | [a, k], hk' =>
        rw [hw] at h
        simp only [List.cons_append, List.head?_cons, Option.some.injEq] at h
        subst h
        simp [tokOk] at hk'
      | [], hk' => simp [tokOk] at hk'
      | _ :: _ :: _ :: _, hk' => simp [tokOk] at hk'
    · exact hnot
    · exact hnot
  | case3 => intro h; simp [encT] at h

theorem encT_prefix2 {T : List (Char × Str)} (hT : wfTab T = true) (s : Str)
    (h : isPrefix ['"', '"'] (encT T s) = true) : ∃ r, s = '"' :: '"' :: r := by
  cases he : encT T s with
  | nil => rw [he] at h; simp [isPrefix] at h
  | cons a e1 =>
    rw [he] at h
    simp only [isPrefix, Bool.and_eq_true, decide_eq_true_eq] at h
    obtain ⟨ha, h2⟩ := h
    subst ha
    obtain ⟨r, hs, her⟩ := encT_head_quote hT s (by rw [he]; rfl)
    rw [her] at he
    have he1 : encT T r = e1 := by simpa using he
    cases e1 with
    | nil => simp [isPrefix] at h2
    | cons b e2 =>
      simp only [isPrefix, Bool.and_eq_true, decide_eq_true_eq] at h2
      obtain ⟨hb, _⟩ := h2
      subst hb
      obtain ⟨r2, hr, _⟩ := encT_head_quote hT r (by rw [he1]; rfl)
      exact ⟨r2, by rw [hs, hr]⟩

theorem qspell_tok {K : Str} {c : Char} {t e l : Str} (h : tokOk c t = true) (hraw : t = [c] → c ≠ '"')
    (hs : QSpell K e l) : QSpell K (t ++ e) (c :: l) := by
  match t, h, hraw with
  | [x], h, hraw =>
    simp only [tokOk, Bool.and_eq_true, decide_eq_true_eq] at h
    obtain ⟨rfl, hc⟩ := h
    exact .plain x hc (hraw rfl) hs
  | [a, k], h, _ =>
    by_cases ha : a = '\\'
    · subst ha
      simp only [tokOk, decide_eq_true_eq] at h
      exact .esc k c h hs
    · exfalso
      unfold tokOk at h
      split at h
      · next heq => simp at heq
      · next heq => simp at heq; exact ha heq.1
      · cases h
  | [], h, _ => simp [tokOk] at h
  | _ :: _ :: _ :: _, h, _ => simp [tokOk] at h

/-- before the final-quote step a raw quote is never followed by two more raw quotes -/
theorem qspell_encT {T : List (Char × Str)} (hT : wfTab T = true) : ∀ s : Str, QSpell [] (encT T s) s := by
  intro s
  induction s using encT.induct with
  | case1 s ih =>
    rw [encT]
    exact .esc '"' '"' alookup_q (.esc '"' '"' alookup_q (.esc '"' '"' alookup_q ih))
  | case2 c s hnot ih =>
    rw [encT]
    · by_cases hraw : escWith T c = [c] ∧ c = '"'
      · obtain ⟨hw, hc⟩ := hraw
        subst hc
        rw [hw]
        simp only [List.cons_append, List.nil_append]
        refine .quote ih ?_
        rw [List.append_nil]
        cases hp : isPrefix ['"', '"'] (encT T s) with
        | false => rfl
        | true =>
          obtain ⟨r, hr⟩ := encT_prefix2 hT s hp
          exact absurd hr (hnot r rfl)
      · exact qspell_tok (tokOk_escWith hT c) (fun ht hc => hraw ⟨ht, hc⟩) ih
    · exact hnot
  | case3 => exact .nil

/-! the final-quote step -/

theorem fixTrail_eq (e : Str) :
    fixTrail e = if e.getLast? = some '"' then
      (if trailBs e.dropLast % 2 = 0 then e.dropLast ++ ['\\', '"'] else e) else e := rfl

theorem fixTrail_prepend (p e : Str) (he : e ≠ []) (hp : ∀ b, trailBs (p ++ b) % 2 = trailBs b % 2) :
    fixTrail (p ++ e) = p ++ fixTrail e := by
  have hl : (p ++ e).getLast? = e.getLast? := by
    rw [List.getLast?_append]
    cases hg : e.getLast? with
    | some x => rfl
    | none => exact absurd (List.getLast?_eq_none_iff.mp hg) he
  rw [fixTrail_eq, fixTrail_eq, hl, List.dropLast_append_of_ne_nil he, hp]
  split
  · split
    · simp
    · rfl
  · rfl

theorem fixTrail_cons_ne (c : Char) (e : Str) (hc : c ≠ '\\') (he : e ≠ []) : fixTrail (c :: e) = c :: fixTrail e :=
  fixTrail_prepend [c] e he (fun b => by simp [trailBs_cons_ne c b hc])

theorem fixTrail_esc (k : Char) (e : Str) (he : e ≠ []) : fixTrail ('\\' :: k :: e) = '\\' :: k :: fixTrail e := by
  refine fixTrail_prepend ['\\', k] e he (fun b => ?_)
  by_cases hk : k = '\\'
  · subst hk; exact trailBs_bs_bs b
  · simp [trailBs_bs_ne k b hk]

theorem fixTrail_esc_nil (k : Char) : fixTrail ['\\', k] = ['\\', k] := by
  by_cases hk : k = '"'
  · subst hk; decide
  · simp [fixTrail, hk]

theorem fixTrail_single (c : Char) (hc : c ≠ '"') : fixTrail [c] = [c] := by
  simp [fixTrail, hc]

/-- the final-quote step does not create two leading quotes -/
theorem fixTrail_prefix2 (e K : Str) (he : e ≠ []) (h : isPrefix ['"', '"'] e = false) :
    isPrefix ['"', '"'] (fixTrail e ++ K) = false := by
  match e, he, h with
  | [a], _, _ =>
    by_cases ha : a = '"'
    · subst ha
      have : fixTrail ['"'] = ['\\', '"'] := by decide
      rw [this]; simp [isPrefix]
    · rw [fixTrail_single a ha]; simp [isPrefix]; intro e; exact absurd e.symm ha
  | [a, b], _, h =>
    rw [fixTrail_eq]
    split
    · split
      · simp [isPrefix]
      · simpa [isPrefix] using h
    · simpa [isPrefix] using h
  | a :: b :: c :: r, _, h =>
    rw [fixTrail_eq]
    split
    · split
      · simpa [isPrefix] using h
      · simpa [isPrefix] using h
    · simpa [isPrefix] using h

/-- ⊢ after the final-quote step the text can be followed by anything (in particular by the closing quotes) -/
theorem qspell_fixTrail {K e l : Str} (h : QSpell [] e l) : QSpell K (fixTrail e) l := by
  induction h with
  | nil => exact .nil
  | @esc e1 l1 k c hk h1 ih =>
    cases e1 with
    | nil => cases h1; rw [fixTrail_esc_nil]; exact .esc k c hk .nil
    | cons x r => rw [fixTrail_esc k _ (by simp)]; exact .esc k c hk ih
  | @plain e1 l1 c h1 h2 hs ih =>
    cases e1 with
    | nil => cases hs; rw [fixTrail_single c h2]; exact .plain c h1 h2 .nil
    | cons x r => rw [fixTrail_cons_ne c _ h1 (by simp)]; exact .plain c h1 h2 ih
  | @quote e1 l1 hs hp ih =>
    cases e1 with
    | nil =>
      cases hs
      have : fixTrail ['"'] = ['\\', '"'] := by decide
      rw [this]
      exact .esc '"' '"' alookup_q .nil
    | cons x r =>
      rw [fixTrail_cons_ne '"' _ (by decide) (by simp)]
      refine .quote ih ?_
      rw [List.append_nil] at hp
      exact fixTrail_prefix2 _ K (by simp) hp

theorem qspell_longEncodeT {T : List (Char × Str)} (hT : wfTab T = true) (K s : Str) :
    QSpell K (longEncodeT T s) s := qspell_fixTrail (qspell_encT hT s)

/-! ### the quoted part of a literal -/

theorem readQuoted_quoteEncode (x R : Str) (hR : R.head? ≠ some '"') :
    readQuoted (quoteEncode x ++ R) = some (x, R) := by
  unfold quoteEncode
  by_cases hn : '\n' ∈ x
  · simp only [hn, if_true]
    have hq := qspell_longEncodeT long_table_wf (q3 ++ R) x
    have hs := scanLong_spell hq ((longEncode x ++ (q3 ++ R)).length + 2 + 1) (by simp [longEncode]; omega)
    have hshape : q3 ++ longEncode x ++ q3 ++ R = '"' :: ('"' :: '"' :: (longEncode x ++ (q3 ++ R))) := by simp [q3]
    rw [hshape]
    simp only [readQuoted, isPrefix, true_or, if_true, decide_true, Bool.and_self, List.drop_succ_cons, List.drop_zero,
      List.length_cons]
    exact hs
  · simp only [hn, if_false]
    have hsp := sspell_shortEncodeT short_table_wf short_table_raw.1 short_table_raw.2 x hn
    have hnot : isPrefix ['"', '"'] (shortEncode x ++ '"' :: R) = false := by
      have hh := head_shortEncode x
      cases hS : shortEncode x with
      | nil =>
        cases R with
        | nil => rfl
        | cons y r =>
          have : '"' ≠ y := fun e => hR (by rw [← e]; rfl)
          simp [isPrefix, this]
      | cons c S =>
        have : '"' ≠ c := by
          intro e; apply hh; rw [hS, ← e]; rfl
        simp [isPrefix, this]
    have hs := scanShort_spell hsp R ((shortEncode x ++ '"' :: R).length + 1) (by simp [shortEncode]; omega)
    have hshape : '"' :: (shortEncode x ++ ['"']) ++ R = '"' :: (shortEncode x ++ '"' :: R) := by simp
    rw [hshape]
    simp only [readQuoted, true_or, if_true, hnot, Bool.false_eq_true, if_false]
    exact hs

/-! ### what may follow a term -/

def delimChar (c : Char) : Bool :=
  decide (c = ' ') || decide (c = '\t') || decide (c = '\n') || decide (c = '\r') || decide (c = ';') ||
  decide (c = ',') || decide (c = ')')

def wsChar (c : Char) : Bool := decide (c = ' ') || decide (c = '\t') || decide (c = '\n') || decide (c = '\r')

/-- the text after a term: nothing, white space, `;`, `,`, `)`, or a `.` that ends the statement
    (itself followed by white space or nothing) -/
def delimSafe : Str → Bool
  | [] => true
  | ['.'] => true
  | '.' :: c :: _ => wsChar c
  | c :: _ => delimChar c

theorem delimChar_cases {c : Char} (h : delimChar c = true) :
    c = ' ' ∨ c = '\t' ∨ c = '\n' ∨ c = '\r' ∨ c = ';' ∨ c = ',' ∨ c = ')' := by
  simpa [delimChar, or_assoc] using h

theorem wsChar_delim {c : Char} (h : wsChar c = true) : delimChar c = true := by
  simp only [wsChar, Bool.or_eq_true, decide_eq_true_eq] at h
  rcases h with (((rfl | rfl) | rfl) | rfl) <;> decide

/-- the shapes of a delimiter-safe text -/
theorem delimSafe_cases {s : Str} (h : delimSafe s = true) :
    s = [] ∨ (∃ c r, s = c :: r ∧ delimChar c = true) ∨ (s = ['.']) ∨ (∃ c r, s = '.' :: c :: r ∧ wsChar c = true) := by
  match s, h with
  | [], _ => exact Or.inl rfl
  | [c], h =>
    by_cases hc : c = '.'
    · subst hc; exact Or.inr (Or.inr (Or.inl rfl))
    · have : delimChar c = true := by
        unfold delimSafe at h
        split at h
        · next heq => cases heq
        · next heq => simp at heq; exact absurd heq hc
        · next heq => simp at heq
        · next heq => simp at heq; obtain ⟨rfl, _⟩ := heq; exact h
      exact Or.inr (Or.inl ⟨c, [], rfl, this⟩)
  | c :: d :: r, h =>
    by_cases hc : c = '.'
    · subst hc
      exact Or.inr (Or.inr (Or.inr ⟨d, r, rfl, by simpa [delimSafe] using h⟩))
    · have : delimChar c = true := by
        unfold delimSafe at h
        split at h
        · next heq => cases heq
        · next heq => simp at heq
        · next heq => simp at heq; exact absurd heq.1 hc
        · next heq => simp at heq; obtain ⟨rfl, _⟩ := heq; exact h
      exact Or.inr (Or.inl ⟨c, d :: r, rfl, this⟩)

/-- the first character of a delimiter-safe text is a delimiter or the dot -/
theorem delimSafe_head {s : Str} (h : delimSafe s = true) : ∀ c, s.head? = some c → delimChar c = true ∨ c = '.' := by
  intro c hc
  rcases delimSafe_cases h with rfl | ⟨x, r, rfl, hx⟩ | rfl | ⟨x, r, rfl, _⟩
  · cases hc
  · simp at hc; subst hc; exact Or.inl hx
  · simp at hc; exact Or.inr hc.symm
  · simp at hc; exact Or.inr hc.symm

theorem delim_facts {c : Char} (h : delimChar c = true ∨ c = '.') :
    c ≠ '"' ∧ c ≠ '@' ∧ c ≠ '^' ∧ (isAlnum c || decide (c = '-')) = false := by
  rcases h with h | rfl
  · rcases delimChar_cases h with rfl | rfl | rfl | rfl | rfl | rfl | rfl <;> decide
  · decide

theorem delimChar_not_label {c : Char} (h : delimChar c = true) : labelChar c = false := by
  rcases delimChar_cases h with rfl | rfl | rfl | rfl | rfl | rfl | rfl <;> decide

/-! ### language tag, datatype, nothing -/

theorem mkLit_plain_ok (E : Ext) (nz : Bool) (x : Str) (h : newLex E nz none x = x) :
    mkLit E nz x none none = .ok (.lit x none none) := by simp [mkLit, h]

theorem mkLit_lang_ok (E : Ext) (nz : Bool) (x tag : Str) (hv : validLangTag tag = true) (h : newLex E nz none x = x) :
    mkLit E nz x (some tag) none = .ok (.lit x none (some tag)) := by
  have hne : tag ≠ [] := by intro e; subst e; simp [validLangTag] at hv
  simp [mkLit, hne, hv, h]

theorem mkLit_dt_ok (E : Ext) (nz : Bool) (x u : Str) (h : newLex E nz (some u) x = x) :
    mkLit E nz x none (some u) = .ok (.lit x (some u) none) := by simp [mkLit, h]

theorem readLitSuffix_plain (E : Ext) (nz : Bool) (x suffix : Str) (hs : delimSafe suffix = true)
    (h : newLex E nz none x = x) : readLitSuffix E nz x suffix = some (.lit x none none, suffix) := by
  have hh := delimSafe_head hs
  unfold readLitSuffix
  split
  · next r => exact absurd rfl (delim_facts (hh '@' rfl)).2.1
  · next r => exact absurd rfl (delim_facts (hh '^' rfl)).2.2.1
  · next r => exact absurd rfl (delim_facts (hh '^' rfl)).2.2.1
  · simp [mkLit_plain_ok E nz x h, okOpt]

theorem readLitSuffix_lang (E : Ext) (nz : Bool) (x tag suffix : Str) (hs : delimSafe suffix = true)
    (hv : validLangTag tag = true) (h : newLex E nz none x = x) :
    readLitSuffix E nz x ('@' :: tag ++ suffix) = some (.lit x none (some tag), suffix) := by
  have hrun := takeWhile_append_stop (fun c => isAlnum c || decide (c = '-')) tag suffix
    (by
      intro c hc
      rcases validLangTag_chars hv c hc with h' | h'
      · simp [h']
      · simp [h'])
    (fun c hc => (delim_facts (delimSafe_head hs c hc)).2.2.2)
  simp only [readLitSuffix, List.cons_append]
  rw [hrun.1, hrun.2]
  simp [hv, mkLit_lang_ok E nz x tag hv h, okOpt]

theorem readLitSuffix_dt (E : Ext) (nz : Bool) (x u suffix : Str) (hu : ∀ c ∈ u, iriCharOk c = true)
    (h : newLex E nz (some u) x = x) :
    readLitSuffix E nz x ('^' :: '^' :: '<' :: u ++ '>' :: suffix) = some (.lit x (some u) none, suffix) := by
  have hi := scanIri_plain u suffix hu ((u ++ '>' :: suffix).length + 1) (by simp; omega)
  simp only [readLitSuffix, List.cons_append]
  rw [hi]
  simp [mkLit_dt_ok E nz x u h, okOpt]

/-! ### blank node labels -/

/-- BLANK_NODE_LABEL: first character PN_CHARS_U or a digit, then PN_CHARS or dots, not ending in a dot -/
def LabelOK (s : Str) : Prop :=
  ∃ c r, s = c :: r ∧ (pnCharsU c || isDigit c) = true ∧ (∀ x ∈ r, labelChar x = true) ∧ r.getLast? ≠ some '.'

theorem dropWhile_dot_of_head (l : Str) (h : l.head? ≠ some '.') : l.dropWhile (fun c => decide (c = '.')) = l := by
  cases l with
  | nil => rfl
  | cons a r =>
    have : a ≠ '.' := fun e => h (by rw [e]; rfl)
    simp [List.dropWhile, this]

theorem giveBackDots_nodot (r rest : Str) (h : r.getLast? ≠ some '.') : giveBackDots r rest = (r, rest) := by
  have hd := dropWhile_dot_of_head r.reverse (by rw [List.head?_reverse]; exact h)
  simp [giveBackDots, hd]

theorem giveBackDots_onedot (r rest : Str) (h : r.getLast? ≠ some '.') :
    giveBackDots (r ++ ['.']) rest = (r, '.' :: rest) := by
  have hd := dropWhile_dot_of_head r.reverse (by rw [List.head?_reverse]; exact h)
  simp [giveBackDots, List.dropWhile, hd]

theorem readBNode_label (E : Ext) (nz : Bool) (s suffix : Str) (hl : LabelOK s) (hs : delimSafe suffix = true) :
    readTerm E nz ('_' :: ':' :: s ++ suffix) = some (.node .bnode s, suffix) := by
  obtain ⟨c, r, rfl, hc, hr, hlast⟩ := hl
  simp only [List.cons_append, readTerm, hc, if_true]
  rcases delimSafe_cases hs with rfl | ⟨x, t, rfl, hx⟩ | rfl | ⟨x, t, rfl, hx⟩
  · have hrun := takeWhile_append_stop labelChar r [] hr (by simp)
    rw [hrun.1, hrun.2, giveBackDots_nodot r [] hlast]
  · have hrun := takeWhile_append_stop labelChar r (x :: t) hr
      (by intro y hy; simp at hy; subst hy; exact delimChar_not_label hx)
    rw [hrun.1, hrun.2, giveBackDots_nodot r _ hlast]
  · have hrun := takeWhile_append_stop labelChar (r ++ ['.']) [] 
      (by
        intro y hy
        rcases List.mem_append.mp hy with h' | h'
        · exact hr y h'
        · simp at h'; subst h'; decide)
      (by simp)
    have e : r ++ ['.'] = (r ++ ['.']) ++ [] := by simp
    rw [e, hrun.1, hrun.2, giveBackDots_onedot r [] hlast]
  · have hrun := takeWhile_append_stop labelChar (r ++ ['.']) (x :: t)
      (by
        intro y hy
        rcases List.mem_append.mp hy with h' | h'
        · exact hr y h'
        · simp at h'; subst h'; decide)
      (by intro y hy; simp at hy; subst hy; exact delimChar_not_label (wsChar_delim hx))
    have e : r ++ '.' :: x :: t = (r ++ ['.']) ++ x :: t := by simp
    rw [e, hrun.1, hrun.2, giveBackDots_onedot r _ hlast]

/-! ### a literal as a whole -/

theorem quoteEncode_cons (x : Str) : ∃ r, quoteEncode x = '"' :: r := by
  unfold quoteEncode
  split
  · exact ⟨_, by simp [q3]; rfl⟩
  · exact ⟨_, rfl⟩

theorem readTerm_quoted (E : Ext) (nz : Bool) (x R : Str) (hR : R.head? ≠ some '"') :
    readTerm E nz (quoteEncode x ++ R) = readLitSuffix E nz x R := by
  have hq := readQuoted_quoteEncode x R hR
  obtain ⟨r, hr⟩ := quoteEncode_cons x
  rw [hr] at hq ⊢
  simp only [List.cons_append] at hq ⊢
  simp only [readTerm, hq]

end RV.C07
