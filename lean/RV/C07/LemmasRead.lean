import RV.C07.LemmasText
/-
  C07 helper lemmas, part 3: `from_n3` finds the pieces of the text `n3()` wrote.
-/
namespace RV.C07

/-! ### `startswith`, `rsplit` -/

theorem isPrefix_append (q b : Str) : isPrefix q (q ++ b) = true := by
  induction q with
  | nil => rfl
  | cons c q ih => simp [isPrefix, ih]

theorem isPrefix_cons_ne (c x : Char) (q s : Str) (h : c ≠ x) : isPrefix (c :: q) (x :: s) = false := by
  simp [isPrefix, h]

theorem rsplit1_cons (q : Str) (c : Char) (s : Str) :
    rsplit1 q (c :: s) =
      match rsplit1 q s with
      | some (a, b) => some (c :: a, b)
      | none => if isPrefix q (c :: s) then some ([], (c :: s).drop q.length) else none := rfl

/-- no occurrence of the first character of the pattern: no split -/
theorem rsplit1_none_of_not_mem (c : Char) (q : Str) : ∀ s : Str, c ∉ s → rsplit1 (c :: q) s = none
  | [], _ => rfl
  | x :: s, h => by
    have hx : c ≠ x := fun e => h (by simp [e])
    have hs : c ∉ s := fun e => h (List.mem_cons_of_mem _ e)
    rw [rsplit1_cons, rsplit1_none_of_not_mem c q s hs]
    simp [isPrefix_cons_ne c x q s hx]

/-- the split is at the given occurrence when no later one exists -/
theorem rsplit1_append (c : Char) (q : Str) (b : Str) (h : rsplit1 (c :: q) (q ++ b) = none) :
    ∀ a : Str, rsplit1 (c :: q) (a ++ (c :: q) ++ b) = some (a, b)
  | [] => by
    simp only [List.nil_append, List.cons_append]
    rw [rsplit1_cons, h]
    have := isPrefix_append (c :: q) b
    simp only [List.cons_append] at this
    simp [this]
  | x :: a => by
    have ih := rsplit1_append c q b h a
    simp only [List.cons_append, List.append_assoc] at ih ⊢
    rw [rsplit1_cons, ih]

theorem rsplit1_q1 (a b : Str) (hb : '"' ∉ b) : rsplit1 ['"'] (a ++ '"' :: b) = some (a, b) := by
  have := rsplit1_append '"' [] b (by simpa using rsplit1_none_of_not_mem '"' [] b hb) a
  simpa using this

theorem rsplit1_q3_tail (b : Str) (hb : '"' ∉ b) : rsplit1 q3 ('"' :: '"' :: b) = none := by
  have h0 := rsplit1_none_of_not_mem '"' ['"', '"'] b hb
  have hp1 : isPrefix ['"', '"'] b = false := by
    cases b with
    | nil => rfl
    | cons y b' => exact isPrefix_cons_ne _ _ _ _ (fun e => hb (List.mem_cons.mpr (Or.inl e)))
  have hp2 : isPrefix ['"'] b = false := by
    cases b with
    | nil => rfl
    | cons y b' => exact isPrefix_cons_ne _ _ _ _ (fun e => hb (List.mem_cons.mpr (Or.inl e)))
  have h1 : rsplit1 q3 ('"' :: b) = none := by
    rw [rsplit1_cons]
    simp only [q3] at h0 ⊢
    rw [h0]
    simp [isPrefix, hp1]
  rw [rsplit1_cons, h1]
  simp [q3, isPrefix, hp2]

theorem rsplit1_q3 (a b : Str) (hb : '"' ∉ b) : rsplit1 q3 (a ++ q3 ++ b) = some (a, b) := by
  have := rsplit1_append '"' ['"', '"'] b (by simpa [q3] using rsplit1_q3_tail b hb) a
  simpa [q3] using this

theorem rsplit1_hat (b : Str) (hb : '^' ∉ b) : rsplit1 ['^', '^'] ('^' :: '^' :: b) = some ([], b) := by
  have h0 := rsplit1_none_of_not_mem '^' ['^'] b hb
  have hp : isPrefix ['^'] b = false := by
    cases b with
    | nil => rfl
    | cons y b' => exact isPrefix_cons_ne _ _ _ _ (fun e => hb (List.mem_cons.mpr (Or.inl e)))
  have h1 : rsplit1 ['^', '^'] ('^' :: b) = none := by
    rw [rsplit1_cons, h0]
    simp [isPrefix, hp]
  have := rsplit1_append '^' ['^'] b (by simpa using h1) []
  simpa using this

/-! ### characters that cannot occur in the suffix -/

theorem mem_invalid_of_not_valid {s : Str} (h : isValidUri s = true) {c : Char} (hc : c ∈ Tables.invalidUriChars) : c ∉ s := by
  simp only [isValidUri, List.all_eq_true] at h
  have := h c hc
  simpa using this

theorem quote_invalid : '"' ∈ Tables.invalidUriChars := by decide
theorem hat_invalid : '^' ∈ Tables.invalidUriChars := by decide
theorem backslash_invalid : '\\' ∈ Tables.invalidUriChars := by decide
theorem gt_invalid : '>' ∈ Tables.invalidUriChars := by decide

theorem tagGo_chars : ∀ (first : Bool) (s : Str), tagGo first s = true → ∀ c ∈ s, isAlnum c = true ∨ c = '-' := by
  intro first s
  induction first, s using tagGo.induct with
  | case1 => intro _ c hc; cases hc
  | case2 first c s ih =>
    intro h x hx
    simp only [tagGo, Bool.and_eq_true] at h
    rcases List.mem_cons.mp hx with e | hx
    · exact Or.inr e
    · rcases List.mem_cons.mp hx with e | hx
      · exact Or.inl (e ▸ h.1)
      · exact ih h.2 x hx
  | case3 first c s hne ih =>
    intro h x hx
    rw [tagGo] at h
    · simp only [Bool.and_eq_true] at h
      rcases List.mem_cons.mp hx with e | hx
      · subst e
        cases first
        · exact Or.inl (by simpa using h.1)
        · left
          have : isAlpha x = true := by simpa using h.1
          simp [isAlnum, this]
      · exact ih h.2 x hx
    · exact hne

theorem validLangTag_chars {t : Str} (h : validLangTag t = true) : ∀ c ∈ t, isAlnum c = true ∨ c = '-' := by
  cases t with
  | nil => intro c hc; cases hc
  | cons a s =>
    simp only [validLangTag, Bool.and_eq_true] at h
    intro c hc
    rcases List.mem_cons.mp hc with e | hc
    · subst e; left; simp [isAlnum, h.1]
    · exact tagGo_chars true s h.2 c hc

theorem validLangTag_no_quote_hat {t : Str} (h : validLangTag t = true) : '"' ∉ t ∧ '^' ∉ t := by
  constructor <;> intro hc <;> rcases validLangTag_chars h _ hc with h' | h' <;> revert h' <;> decide

/-! ### the quoted text is found again -/

/-- what the theorems assume about the CPython externals -/
structure ExtOK (E : Ext) : Prop where
  /-- the `raw-unicode-escape` / `unicode-escape` round trip does not change a string without backslashes -/
  iri : ∀ s : Str, '\\' ∉ s → E.iriDecode s = s
  num_us : E.isNumeric '_' = false
  num_q : E.isNumeric '?' = false
  /-- `str.lower()` keeps a leading `_` / `?` -/
  low_us : ∀ s : Str, ∃ r, E.lowerU ('_' :: s) = '_' :: r
  low_q : ∀ s : Str, ∃ r, E.lowerU ('?' :: s) = '?' :: r
  num_colon : E.isNumeric ':' = false
  /-- `str.lower()` keeps a colon -/
  low_colon : ∀ s : Str, ':' ∈ s → ':' ∈ E.lowerU s

/-- the text between the quotes -/
def encBody (x : Str) : Str := if '\n' ∈ x then longEncode x else shortEncode x

/-! the regenerated tables of written forms are well-formed (re-proved on every run against the live `_quote_encode`) -/

theorem short_table_wf : wfTab Tables.shortEscapes = true := by decide
theorem long_table_wf : wfTab Tables.longEscapes = true := by decide
/-- in a short-quoted string the quote, CR and LF are not written raw -/
theorem short_table_raw :
    escWith Tables.shortEscapes '"' ≠ ['"'] ∧ escWith Tables.shortEscapes '\r' ≠ ['\r'] := by decide

theorem decode_encBody (x : Str) : decodeEsc (encBody x) = some x := by
  unfold encBody
  split
  · exact decode_longEncodeT long_table_wf x
  · exact decode_shortEncodeT short_table_wf x

theorem head_shortEncode (x : Str) : (shortEncode x).head? ≠ some '"' :=
  head_shortEncodeT short_table_wf short_table_raw.1 x

theorem fromN3_quoteEncode (E : Ext) (nz : Bool) (x suffix : Str) (hs : '"' ∉ suffix) :
    fromN3 E nz (quoteEncode x ++ suffix) = litFromParts E nz (encBody x) suffix := by
  unfold quoteEncode encBody
  by_cases hn : '\n' ∈ x
  · simp only [hn, if_true]
    have hshape : q3 ++ longEncode x ++ q3 ++ suffix = '"' :: ('"' :: '"' :: (longEncode x ++ q3 ++ suffix)) := by
      simp [q3]
    have hpre : isPrefix q3 (q3 ++ longEncode x ++ q3 ++ suffix) = true := by
      have := isPrefix_append q3 (longEncode x ++ q3 ++ suffix)
      simpa [List.append_assoc] using this
    have hsplit := rsplit1_q3 (q3 ++ longEncode x) suffix hs
    rw [fromN3.eq_def]
    rw [hshape] at hpre hsplit ⊢
    simp only [hpre, if_true]
    have : (q3 ++ longEncode x ++ q3 ++ suffix) = '"' :: ('"' :: '"' :: (longEncode x ++ q3 ++ suffix)) := hshape
    simp only [List.append_assoc] at hsplit
    simp only [List.append_assoc, hsplit]
    simp [q3]
  · simp only [hn, if_false]
    have hnot : isPrefix q3 ('"' :: (shortEncode x ++ ['"']) ++ suffix) = false := by
      have hh := head_shortEncode x
      cases hS : shortEncode x with
      | nil =>
        cases suffix with
        | nil => rfl
        | cons y r =>
          have : '"' ≠ y := fun e => hs (List.mem_cons.mpr (Or.inl e))
          simp [q3, isPrefix, this]
      | cons c S =>
        have : '"' ≠ c := by
          intro e; apply hh; rw [hS, ← e]; rfl
        simp [q3, isPrefix, this]
    have hsplit := rsplit1_q1 ('"' :: shortEncode x) suffix hs
    rw [fromN3.eq_def]
    simp only [List.cons_append, List.append_assoc, List.nil_append] at hnot hsplit ⊢
    simp only [hnot, Bool.false_eq_true, if_false, hsplit]
    simp

theorem litFromParts_plain (E : Ext) (nz : Bool) (x : Str) :
    litFromParts E nz (encBody x) [] =
      Rd.ofExcept (mkLit E nz x none none) := by
  simp [litFromParts, rsplit1, decode_encBody]

theorem litFromParts_lang (E : Ext) (nz : Bool) (x tag : Str) (h : '^' ∉ tag) :
    litFromParts E nz (encBody x) ('@' :: tag) =
      Rd.ofExcept (mkLit E nz x (some tag) none) := by
  have hn : rsplit1 ['^', '^'] ('@' :: tag) = none := by
    apply rsplit1_none_of_not_mem
    intro hm
    rcases List.mem_cons.mp hm with e | hm
    · revert e; decide
    · exact h hm
  simp [litFromParts, hn, decode_encBody]

theorem dropLast_append_singleton (u : Str) (c : Char) : (u ++ [c]).dropLast = u := by
  simp

theorem litFromParts_dt (E : Ext) (hE : ExtOK E) (nz : Bool) (x u : Str) (hu : isValidUri u = true) :
    litFromParts E nz (encBody x) ('^' :: '^' :: '<' :: u ++ ['>']) =
      Rd.ofExcept (mkLit E nz x none (some u)) := by
  have hhat : '^' ∉ '<' :: u ++ ['>'] := by
    intro hm
    rcases List.mem_cons.mp hm with e | hm
    · revert e; decide
    · rcases List.mem_append.mp hm with hm | hm
      · exact mem_invalid_of_not_valid hu hat_invalid hm
      · simp at hm
  have hsplit := rsplit1_hat ('<' :: u ++ ['>']) hhat
  have hnode : fromN3Node E ('<' :: u ++ ['>']) = .term (.node .uri u) := by
    simp only [fromN3Node, List.cons_append]
    rw [dropLast_append_singleton, hE.iri u (mem_invalid_of_not_valid hu backslash_invalid)]
  simp only [litFromParts, List.cons_append] at hsplit ⊢
  simp only [hsplit]
  simp only [List.cons_append] at hnode
  simp [hnode, decode_encBody]

/-! ### the three shapes of `_literal_n3` output -/

theorem litN3_plain (E : Ext) (x : Str) : litN3 E x none none = quoteEncode x := by
  simp [litN3, truthy]

theorem litN3_lang (E : Ext) (x : Str) (c : Char) (r : Str) :
    litN3 E x none (some (c :: r)) = quoteEncode x ++ '@' :: c :: r := by
  simp [litN3, truthy]

/-- the INF / NaN respelling of `_literal_n3` (`encoded.replace("inf", "INF").replace("Infinity", "INF")` for an infinite
    `float(self)`, `encoded.replace("nan", "NaN")` for a NaN) leaves the quoted text as it is: the lexical form is not a
    float infinity / NaN at all, or it is spelled the way the respelling spells it (`INF`, `-INF`, `NaN`, …) -/
def RespellNoop (E : Ext) (x : Str) : Prop :=
  match E.floatKind x with
  | .inf => replaceSub "Infinity".toList "INF".toList (replaceSub "inf".toList "INF".toList (quoteEncode x)) = quoteEncode x
  | .nan => replaceSub "nan".toList "NaN".toList (quoteEncode x) = quoteEncode x
  | .other => True

instance (E : Ext) (x : Str) : Decidable (RespellNoop E x) := by
  unfold RespellNoop
  cases E.floatKind x <;> exact inferInstance

theorem respellNoop_of_other {E : Ext} {x : Str} (h : E.floatKind x = .other) : RespellNoop E x := by
  simp [RespellNoop, h]

theorem litN3_dt (E : Ext) (x : Str) (c : Char) (r : Str)
    (hinf : (c :: r) ∈ Tables.infNanTypes → RespellNoop E x) :
    litN3 E x (some (c :: r)) none = quoteEncode x ++ ('^' :: '^' :: '<' :: (c :: r) ++ ['>']) := by
  by_cases hm : (c :: r) ∈ Tables.infNanTypes
  · have hn := hinf hm
    simp only [RespellNoop] at hn
    cases hk : E.floatKind x with
    | inf => simp only [hk] at hn; simpa [litN3, truthy, hm, hk] using hn
    | nan => simp only [hk] at hn; simpa [litN3, truthy, hm, hk] using hn
    | other => simp [litN3, truthy, hm, hk]
  · simp [litN3, truthy, hm]

theorem litN3Q_dt (E : Ext) (x : Str) (c : Char) (r : Str)
    (hinf : (c :: r) ∈ Tables.infNanTypes → RespellNoop E x) (hq : E.qname (c :: r) ≠ []) :
    litN3Q E x (some (c :: r)) none = quoteEncode x ++ ('^' :: '^' :: E.qname (c :: r)) := by
  by_cases hm : (c :: r) ∈ Tables.infNanTypes
  · have hn := hinf hm
    simp only [RespellNoop] at hn
    cases hk : E.floatKind x with
    | inf => simp only [hk] at hn; simpa [litN3Q, truthy, hm, hk, hq] using hn
    | nan => simp only [hk] at hn; simpa [litN3Q, truthy, hm, hk, hq] using hn
    | other => simp [litN3Q, truthy, hm, hk, hq]
  · simp [litN3Q, truthy, hm, hq]

/-! ### the forms that are not quoted -/

theorem removeFirst_cons_ne (c x : Char) (s : Str) (h : x ≠ c) : removeFirst c (x :: s) = x :: removeFirst c s := by
  simp [removeFirst, h]

theorem numericLike_us (E : Ext) (hE : ExtOK E) (s : Str) : numericLike E ('_' :: s) = false := by
  obtain ⟨r, hr⟩ := hE.low_us s
  simp only [numericLike, hr]
  rw [removeFirst_cons_ne _ _ _ (by decide), removeFirst_cons_ne _ _ _ (by decide),
    removeFirst_cons_ne _ _ _ (by decide)]
  simp [hE.num_us]

theorem numericLike_q (E : Ext) (hE : ExtOK E) (s : Str) : numericLike E ('?' :: s) = false := by
  obtain ⟨r, hr⟩ := hE.low_q s
  simp only [numericLike, hr]
  rw [removeFirst_cons_ne _ _ _ (by decide), removeFirst_cons_ne _ _ _ (by decide),
    removeFirst_cons_ne _ _ _ (by decide)]
  simp [hE.num_q]

theorem fromN3_bnode (E : Ext) (hE : ExtOK E) (nz : Bool) (s : Str) :
    fromN3 E nz ('_' :: ':' :: s) = .term (.node .bnode s) := by
  simp [fromN3, fromN3Node, numericLike_us E hE]

theorem fromN3_var (E : Ext) (hE : ExtOK E) (nz : Bool) (s : Str) :
    fromN3 E nz ('?' :: s) = .term (.node .var s) := by
  simp [fromN3, fromN3Node, numericLike_q E hE, mkVar, Rd.ofExcept]

theorem fromN3_iri (E : Ext) (hE : ExtOK E) (nz : Bool) (s : Str) (hs : isValidUri s = true) :
    fromN3 E nz ('<' :: s ++ ['>']) = .term (.node .uri s) := by
  have h1 : fromN3 E nz ('<' :: s ++ ['>']) = fromN3Node E ('<' :: s ++ ['>']) := by simp [fromN3]
  rw [h1]
  simp only [fromN3Node, List.cons_append]
  rw [dropLast_append_singleton, hE.iri s (mem_invalid_of_not_valid hs backslash_invalid)]

/-! ### prefixed names (`from_n3(…, nsm=…)`) -/

theorem mem_removeFirst_of_ne {x c : Char} (h : x ≠ c) : ∀ s : Str, x ∈ s → x ∈ removeFirst c s
  | [], hm => by cases hm
  | y :: s, hm => by
    simp only [removeFirst]
    split
    · next hy =>
      rcases List.mem_cons.mp hm with e | hm
      · exact absurd (e.trans hy) h
      · exact hm
    · rcases List.mem_cons.mp hm with e | hm
      · exact List.mem_cons.mpr (Or.inl e)
      · exact List.mem_cons_of_mem _ (mem_removeFirst_of_ne h s hm)

theorem numericLike_colon (E : Ext) (hE : ExtOK E) (s : Str) (h : ':' ∈ s) : numericLike E s = false := by
  have h1 := hE.low_colon s h
  have h2 := mem_removeFirst_of_ne (c := 'e') (by decide)
    _ (mem_removeFirst_of_ne (c := '-') (by decide) _ (mem_removeFirst_of_ne (c := '.') (by decide) _ h1))
  simp only [numericLike, Bool.and_eq_false_iff]
  right
  rw [List.all_eq_false]
  exact ⟨':', h2, by simp [hE.num_colon]⟩

theorem splitFirst_append (c : Char) : ∀ (p l : Str), c ∉ p → splitFirst c (p ++ c :: l) = (p, l)
  | [], l, _ => by simp [splitFirst]
  | x :: p, l, h => by
    have hx : x ≠ c := fun e => h (List.mem_cons.mpr (Or.inl e.symm))
    have ih := splitFirst_append c p l (fun e => h (List.mem_cons_of_mem _ e))
    simp [splitFirst, hx, ih]

/-- a prefix as a namespace manager hands them out: it begins with an ASCII letter and has no colon -/
def GoodPrefix (p : Str) : Prop := (∃ a r, p = a :: r ∧ isAlpha a = true) ∧ ':' ∉ p

theorem alpha_ne {a : Char} (h : isAlpha a = true) :
    a ≠ '"' ∧ a ≠ '<' ∧ a ≠ '{' ∧ a ≠ '[' ∧ a ≠ '_' ∧ a ≠ '?' := by
  refine ⟨?_, ?_, ?_, ?_, ?_, ?_⟩ <;> (intro e; subst e; revert h; decide)

/-- ⊢ a prefixed name whose prefix the manager binds is read as the IRI namespace + local part -/
theorem fromN3_qname (E : Ext) (hE : ExtOK E) (nz : Bool) (tbl : List (Str × Str)) (hn : E.nsm = some tbl)
    (p l ns : Str) (hp : GoodPrefix p) (hl : dlookup p tbl = some ns) :
    fromN3 E nz (p ++ ':' :: l) = .term (.node .uri (ns ++ l)) := by
  obtain ⟨⟨a, r, rfl, ha⟩, hc⟩ := hp
  obtain ⟨h1, h2, h3, h4, h5, h6⟩ := alpha_ne ha
  have hmem : ':' ∈ (a :: r) ++ ':' :: l := by simp
  have hnum := numericLike_colon E hE _ hmem
  have hsplit := splitFirst_append ':' (a :: r) l hc
  have ht : ¬ ((a :: r) ++ ':' :: l = "true".toList) := by
    intro e; have := e ▸ hmem; revert this; decide
  have hf : ¬ ((a :: r) ++ ':' :: l = "false".toList) := by
    intro e; have := e ▸ hmem; revert this; decide
  have e1 : fromN3 E nz ((a :: r) ++ ':' :: l) = fromN3Node E ((a :: r) ++ ':' :: l) := by
    simp [fromN3, h1]
  rw [e1]
  simp only [List.cons_append] at hnum hsplit ht hf hmem ⊢
  simp only [fromN3Node, ht, hf, hnum, hmem, hn, hsplit, hl, if_false, if_true,
    Bool.false_eq_true]
  split
  · next heq => simp at heq
  · next heq => simp [h2] at heq
  · split
    · next heq => simp [h3] at heq
    · next heq => simp [h4] at heq
    · next heq => simp [h5] at heq
    · next heq => simp [h6] at heq
    · rfl

theorem litFromParts_qdt (E : Ext) (hE : ExtOK E) (nz : Bool) (tbl : List (Str × Str)) (hn : E.nsm = some tbl)
    (x p l ns : Str) (hp : GoodPrefix p) (hl : dlookup p tbl = some ns) (hhat : '^' ∉ p ++ ':' :: l) :
    litFromParts E nz (encBody x) ('^' :: '^' :: (p ++ ':' :: l)) = Rd.ofExcept (mkLit E nz x none (some (ns ++ l))) := by
  have hsplit := rsplit1_hat (p ++ ':' :: l) hhat
  have hq := fromN3_qname E hE nz tbl hn p l ns hp hl
  obtain ⟨⟨a, r, rfl, ha⟩, hc⟩ := hp
  obtain ⟨h1, _⟩ := alpha_ne ha
  have e1 : fromN3 E nz ((a :: r) ++ ':' :: l) = fromN3Node E ((a :: r) ++ ':' :: l) := by
    simp [fromN3, h1]
  rw [e1] at hq
  simp only [List.cons_append] at hsplit hq ⊢
  simp only [litFromParts, hsplit, hq, decode_encBody]
  split
  all_goals first
    | rfl
    | (rename_i heq; simp at heq; done)
    | (rename_i heq; simp [h1] at heq; done)
    | (rename_i heq _; simp at heq; done)
    | (rename_i heq; simp at heq; obtain ⟨_, rfl⟩ := heq; rfl)
    | (rename_i heq _; simp at heq; obtain ⟨_, rfl⟩ := heq; rfl)
    | simp_all

end RV.C07
