import RV.C07.LemmasVal
/-
  C07, round g — sorting over a key order, generically, and the keys of mixed collections
  (non-literal terms by (rank of the class, string), literals of one family by their family key).
-/
namespace RV.C07

/-- a strict order on keys that is total on the keys satisfying `ok` -/
structure KeyOrder (K : Type) where
  lt : K → K → Bool
  ok : K → Prop
  irrefl : ∀ x, lt x x = false
  trans : ∀ {x y z}, lt x y = true → lt y z = true → lt x z = true
  total : ∀ {x y}, ok x → ok y → lt x y = false → lt y x = false → x = y

namespace KeyOrder
variable {K : Type} (O : KeyOrder K)

theorem asymm {x y : K} (h : O.lt x y = true) : O.lt y x = false := by
  cases hyx : O.lt y x with
  | false => rfl
  | true => have := O.trans h hyx; rw [O.irrefl] at this; cases this

theorem le_trans {x y z : K} (hx : O.ok x) (hy : O.ok y) (h1 : O.lt y x = false) (h2 : O.lt z y = false) :
    O.lt z x = false := by
  cases hzx : O.lt z x with
  | false => rfl
  | true =>
    exfalso
    cases hxy : O.lt x y with
    | true => have := O.trans hzx hxy; rw [h2] at this; cases this
    | false =>
      have e := O.total hx hy hxy h1
      subst e; rw [h2] at hzx; cases hzx

/-- increasing: no later key is `<` an earlier one -/
def Sorted : List K → Prop
  | [] => True
  | x :: xs => (∀ y ∈ xs, O.lt y x = false) ∧ Sorted xs

theorem sorted_insert {x : K} (hx : O.ok x) :
    ∀ {l : List K}, (∀ t ∈ l, O.ok t) → O.Sorted l → O.Sorted (insertG O.lt x l)
  | [], _, _ => by simp [insertG, Sorted]
  | z :: zs, hl, hs => by
    have hz := hl z List.mem_cons_self
    have hzs : ∀ t ∈ zs, O.ok t := fun t ht => hl t (List.mem_cons_of_mem _ ht)
    simp only [insertG]
    split
    · next h =>
      refine ⟨?_, sorted_insert hx hzs hs.2⟩
      intro y hy
      rcases (mem_insertG _ x y zs).mp hy with e | hy
      · subst e; exact O.asymm h
      · exact hs.1 y hy
    · next h =>
      have h : O.lt z x = false := by simpa using h
      refine ⟨?_, hs⟩
      intro y hy
      rcases List.mem_cons.mp hy with e | hy
      · subst e; exact h
      · exact O.le_trans hx hz h (hs.1 y hy)

theorem sorted_sort : ∀ {l : List K}, (∀ t ∈ l, O.ok t) → O.Sorted (sortG O.lt l)
  | [], _ => trivial
  | x :: xs, hl => by
    simp only [sortG, List.foldr_cons]
    have hxs : ∀ t ∈ xs, O.ok t := fun t ht => hl t (List.mem_cons_of_mem _ ht)
    refine O.sorted_insert (hl x List.mem_cons_self) ?_ (sorted_sort hxs)
    intro t ht
    exact hxs t ((perm_sortG _ xs).mem_iff.mp ht)

theorem sorted_perm_unique :
    ∀ {l₁ l₂ : List K}, (∀ t ∈ l₁, O.ok t) → O.Sorted l₁ → O.Sorted l₂ → l₁.Perm l₂ → l₁ = l₂
  | [], l₂, _, _, _, hp => (List.Perm.nil_eq hp)
  | x :: xs, [], _, _, _, hp => by simpa using hp.length_eq
  | x :: xs, y :: ys, hn, h1, h2, hp => by
    have hx := hn x List.mem_cons_self
    have hy1 : y ∈ x :: xs := hp.mem_iff.mpr List.mem_cons_self
    have hx2 : x ∈ y :: ys := hp.mem_iff.mp List.mem_cons_self
    have hy := hn y hy1
    have a1 : O.lt y x = false := by
      rcases List.mem_cons.mp hy1 with e' | h
      · rw [e']; exact O.irrefl x
      · exact h1.1 y h
    have a2 : O.lt x y = false := by
      rcases List.mem_cons.mp hx2 with e' | h
      · rw [e']; exact O.irrefl y
      · exact h2.1 x h
    have hxy : x = y := O.total hx hy a2 a1
    subst hxy
    have hp' : xs.Perm ys := List.Perm.cons_inv hp
    rw [sorted_perm_unique (fun t ht => hn t (List.mem_cons_of_mem _ ht)) h1.2 h2.2 hp']

/-- sorting with an order that is the key order on the members: the keys of the result depend only on the multiset,
    and they are increasing -/
theorem sort_keys {α : Type} (lt : α → α → Bool) (k : α → K) {l l' : List α}
    (hlt : ∀ x ∈ l, ∀ y ∈ l, lt x y = O.lt (k x) (k y)) (hok : ∀ x ∈ l, O.ok (k x)) (hp : l.Perm l') :
    (sortG lt l).map k = (sortG lt l').map k ∧ O.Sorted ((sortG lt l).map k) := by
  have hlt' : ∀ x ∈ l', ∀ y ∈ l', lt x y = O.lt (k x) (k y) :=
    fun x hx y hy => hlt x (hp.mem_iff.mpr hx) y (hp.mem_iff.mpr hy)
  have m1 := map_sortG lt O.lt k l hlt
  have m2 := map_sortG lt O.lt k l' hlt'
  have k1 : ∀ t ∈ l.map k, O.ok t := by
    intro t ht
    obtain ⟨a, ha, rfl⟩ := List.mem_map.mp ht
    exact hok a ha
  have k2 : ∀ t ∈ l'.map k, O.ok t := by
    intro t ht
    obtain ⟨a, ha, rfl⟩ := List.mem_map.mp ht
    exact hok a (hp.mem_iff.mpr ha)
  have s1 := O.sorted_sort k1
  have s2 := O.sorted_sort k2
  have p : (sortG O.lt (l.map k)).Perm (sortG O.lt (l'.map k)) :=
    (perm_sortG _ _).trans ((hp.map _).trans (perm_sortG _ _).symm)
  have k1' : ∀ t ∈ sortG O.lt (l.map k), O.ok t := fun t ht => k1 t ((perm_sortG _ _).mem_iff.mp ht)
  rw [m1, m2]
  exact ⟨O.sorted_perm_unique k1' s1 s2 p, s1⟩

theorem pairwise_of_sorted {α : Type} (lt : α → α → Bool) (k : α → K) :
    ∀ {s : List α}, (∀ x ∈ s, ∀ y ∈ s, lt x y = O.lt (k x) (k y)) → O.Sorted (s.map k) →
      List.Pairwise (fun a b => lt b a = false) s
  | [], _, _ => List.Pairwise.nil
  | x :: xs, hm, hs => by
    simp only [List.map_cons, Sorted] at hs
    refine List.Pairwise.cons ?_
      (pairwise_of_sorted lt k (fun a ha b hb => hm a (List.mem_cons_of_mem _ ha) b (List.mem_cons_of_mem _ hb)) hs.2)
    intro y hy
    rw [hm y (List.mem_cons_of_mem _ hy) x List.mem_cons_self]
    exact hs.1 _ (List.mem_map.mpr ⟨y, hy, rfl⟩)

end KeyOrder

/-! ### keys of mixed collections -/

inductive TKey
  | node (r : Nat) (s : Str)
  | lit (k : FKey)
  deriving DecidableEq

def TKey.lt : TKey → TKey → Bool
  | .node r s, .node r' s' => decide (r < r') || (decide (r = r') && strLt s s')
  | .node _ _, .lit _ => true
  | .lit _, .node _ _ => false
  | .lit k, .lit k' => FKey.lt k k'

def VTerm.tkey : VTerm → TKey
  | .node c s => .node (rank c) s
  | .lit a => .lit a.fkey

def tkeyOK (F : Fam) : TKey → Prop
  | .node _ _ => True
  | .lit k => F.keyOK k = true

theorem TKey.lt_irrefl (x : TKey) : TKey.lt x x = false := by
  cases x <;> simp [TKey.lt, strLt_irrefl, FKey.lt_irrefl]

theorem TKey.lt_trans {x y z : TKey} (h1 : TKey.lt x y = true) (h2 : TKey.lt y z = true) : TKey.lt x z = true := by
  cases x <;> cases y <;> simp [TKey.lt] at h1 <;> cases z <;> simp [TKey.lt] at h2 ⊢
  · rename_i r s r' s' r'' s''
    rcases h1 with h1 | ⟨e1, h1⟩ <;> rcases h2 with h2 | ⟨e2, h2⟩
    · exact Or.inl (by omega)
    · exact Or.inl (by omega)
    · exact Or.inl (by omega)
    · exact Or.inr ⟨by omega, strLt_trans h1 h2⟩
  · exact FKey.lt_trans h1 h2

theorem TKey.lt_total (F : Fam) {x y : TKey} (hx : tkeyOK F x) (hy : tkeyOK F y)
    (h1 : TKey.lt x y = false) (h2 : TKey.lt y x = false) : x = y := by
  cases x <;> cases y <;> simp [TKey.lt] at h1 h2 ⊢
  · rename_i r s r' s'
    have hr : r = r' := by omega
    subst hr
    refine ⟨rfl, ?_⟩
    by_cases e : s = s'
    · exact e
    · rcases strLt_connected e with h | h
      · rw [h1.2 rfl] at h; cases h
      · rw [h2.2 rfl] at h; cases h
  · exact FKey.lt_total F hx hy h1 h2

def tOrder (F : Fam) : KeyOrder TKey where
  lt := TKey.lt
  ok := tkeyOK F
  irrefl := TKey.lt_irrefl
  trans := TKey.lt_trans
  total := TKey.lt_total F

theorem rank_lt_rankLit (c : NCls) : rank c < rankLit := by cases c <;> decide

/-- all literals of the collection are members of the family -/
def LitsIn (F : Fam) (l : List VTerm) : Prop := ∀ a, VTerm.lit a ∈ l → F.mem a = true

theorem vtLt_key (F : Fam) {x y : VTerm} (hx : ∀ a, x = .lit a → F.mem a = true) (hy : ∀ a, y = .lit a → F.mem a = true) :
    vtLt x y = TKey.lt x.tkey y.tkey := by
  cases x with
  | node c s =>
    cases y with
    | node c' s' =>
      simp only [vtLt, VTerm.tkey, TKey.lt]
      by_cases e : c = c'
      · subst e; simp
      · have : rank c ≠ rank c' := fun h => e (rank_injective _ _ h)
        simp [e, this]
    | lit b => simp [vtLt, VTerm.tkey, TKey.lt, rank_lt_rankLit]
  | lit a =>
    cases y with
    | node c' s' => simp [vtLt, VTerm.tkey, TKey.lt]
    | lit b => simp only [vtLt, VTerm.tkey, TKey.lt]; exact fam_lt F (hx a rfl) (hy b rfl)

theorem tkey_ok (F : Fam) {x : VTerm} (hx : ∀ a, x = .lit a → F.mem a = true) : tkeyOK F x.tkey := by
  cases x with
  | node c s => trivial
  | lit a => exact mem_keyOK (hx a rfl)

/-- the same term / value-equal literals -/
def vtValueEq : VTerm → VTerm → Prop
  | .node c s, .node c' s' => c = c' ∧ s = s'
  | .lit a, .lit b => litEqV a b = some true
  | _, _ => False

theorem vtValueEq_of_tkey (F : Fam) {x y : VTerm} (hx : ∀ a, x = .lit a → F.mem a = true)
    (hy : ∀ a, y = .lit a → F.mem a = true) (h : x.tkey = y.tkey) : vtValueEq x y := by
  cases x with
  | node c s =>
    cases y with
    | node c' s' =>
      simp only [VTerm.tkey, TKey.node.injEq] at h
      exact ⟨rank_injective _ _ h.1, h.2⟩
    | lit b => simp [VTerm.tkey] at h
  | lit a =>
    cases y with
    | node c' s' => simp [VTerm.tkey] at h
    | lit b =>
      simp only [VTerm.tkey, TKey.lit.injEq] at h
      exact (fam_eq_iff F (hx a rfl) (hy b rfl)).mpr h

end RV.C07
