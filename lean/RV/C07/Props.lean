import RV.C07.Model
namespace RV.C07
theorem placeholder : eqb (.iri []) (.iri []) = true := by decide
end RV.C07
