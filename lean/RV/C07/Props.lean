import RV.C07.Lemmas
import RV.C07.LemmasText
/-
  C07 — property statements (each first as `def Statement_… : Prop` at full strength), theorems,
  non-vacuity examples.  "RDF terms obey identity laws: equality, hashing, ordering, pickling, n3 text."
-/
namespace RV.C07

/-! ## Equality -/

/-- `==` is an equivalence relation and `!=` is its negation -/
def Statement_eq_equiv : Prop :=
  (∀ a, eqb a a = true) ∧ (∀ a b, eqb a b = eqb b a) ∧
  (∀ a b c, eqb a b = true → eqb b c = true → eqb a c = true) ∧ (∀ a b, neb a b = !eqb a b)

/-- IRIs, blank nodes, literals and variables are never equal to each other -/
def Statement_eq_kind_disjoint : Prop := ∀ a b : Term, a.kind ≠ b.kind → eqb a b = false

/-- literals are distinguished by lexical form, datatype and language tag up to case;
    non-literal terms of one class by their string -/
def Statement_lit_eq_iff : Prop :=
  (∀ x d l x' d' l', eqb (.lit x d l) (.lit x' d' l') = true ↔ (x = x' ∧ d = d' ∧ langKey l = langKey l')) ∧
  (∀ c s s', eqb (.node c s) (.node c s') = true ↔ s = s') ∧
  (∀ l : Str, l ≠ [] → langKey (some l) = langKey (some (lower l)))

theorem eq_equiv : Statement_eq_equiv :=
  ⟨eqb_refl, eqb_symm, fun _ _ _ => eqb_trans, fun _ _ => rfl⟩

theorem eq_kind_disjoint : Statement_eq_kind_disjoint := by
  intro a b h
  cases a with
  | lit => cases b with
    | lit => exact absurd rfl h
    | node => rfl
  | node c s => cases b with
    | lit => rfl
    | node c' s' =>
      simp only [eqb, decide_eq_false_iff_not]
      rintro ⟨e, _⟩
      subst e
      exact h rfl

theorem lit_eq_iff : Statement_lit_eq_iff := by
  refine ⟨?_, ?_, ?_⟩
  · intro x d l x' d' l'
    simp only [eqb, decide_eq_true_eq]
    constructor
    · rintro ⟨a, b, c⟩; exact ⟨c, a, b⟩
    · rintro ⟨a, b, c⟩; exact ⟨b, c, a⟩
  · intro c s s'; simp [eqb]
  · intro l hl
    cases l with
    | nil => exact absurd rfl hl
    | cons c s => simp [langKey, truthy, lower, lowerChar_idem]

/-! ## Hashing -/

/-- equal terms have equal hashes, whatever `str.__hash__` (and `^`) are -/
def Statement_hash_coherent : Prop :=
  ∀ (strHash : Str → Int) (xor : Int → Int → Int) (a b : Term),
    eqb a b = true → hash strHash xor a = hash strHash xor b

theorem hash_coherent : Statement_hash_coherent := by
  intro strHash xor a b h
  cases a with
  | node c s => cases b with
    | lit => simp [eqb] at h
    | node c' s' =>
      simp only [eqb, decide_eq_true_eq] at h
      simp [hash, h.2]
  | lit x d l => cases b with
    | node => simp [eqb] at h
    | lit x' d' l' =>
      simp only [eqb, decide_eq_true_eq] at h
      obtain ⟨hd, hl, hx⟩ := h
      subst hd hx
      simp only [hash]
      have : (match truthy l with
          | some t => xor (strHash x) (strHash (lower t))
          | none => strHash x) =
        (match truthy l' with
          | some t => xor (strHash x) (strHash (lower t))
          | none => strHash x) := by
        simp only [langKey] at hl
        cases h1 : truthy l <;> cases h2 : truthy l' <;> simp [h1, h2] at hl ⊢
        rw [hl]
      cases d with
      | none => exact this
      | some dd => exact congrArg (fun v => xor v (strHash dd)) this

/-! ## Ordering -/

/-- the order of kinds the property states: blank node < variable < IRI < literal -/
def kindRank : Kind → Nat
  | .bnode => 0
  | .var => 1
  | .iri => 2
  | .lit => 3

/-- terms of different kinds compare by kind (from the regenerated `_ORDERING` table and the
    `isinstance(other, Node)` branches of `Literal.__gt__/__lt__`), whatever the value oracle -/
def Statement_kind_order : Prop :=
  ∀ (V : ValOracle) (a b : Term), a.kind ≠ b.kind →
    (ltTerm V a b = true ↔ kindRank a.kind < kindRank b.kind) ∧
    (gtTerm V a b = true ↔ kindRank a.kind > kindRank b.kind)

theorem rank_kind (c c' : NCls) (h : c.kind ≠ c'.kind) :
    (rank c < rank c' ↔ kindRank c.kind < kindRank c'.kind) ∧ (rank c > rank c' ↔ kindRank c.kind > kindRank c'.kind) := by
  cases c <;> cases c' <;> first | exact absurd rfl h | decide

theorem rank_lt_lit (c : NCls) : rank c < rankLit ∧ ¬ rank c > rankLit ∧ kindRank c.kind < kindRank Kind.lit := by
  cases c <;> decide

theorem kind_order : Statement_kind_order := by
  intro V a b h
  cases a with
  | node c s => cases b with
    | node c' s' =>
      have hc : c ≠ c' := fun e => h (by subst e; rfl)
      have := rank_kind c c' h
      simp only [ltTerm, gtTerm, hc, if_false, decide_eq_true_eq, Term.kind]
      exact this
    | lit x d l =>
      have := rank_lt_lit c
      simp only [ltTerm, gtTerm, decide_eq_true_eq, Term.kind]
      omega
  | lit x d l => cases b with
    | node c s =>
      have := rank_lt_lit c
      simp only [ltTerm, gtTerm, Term.kind]
      constructor
      · constructor
        · intro h'; cases h'
        · intro h'; omega
      · constructor
        · intro _; omega
        · intro _; trivial
    | lit => exact absurd rfl h

/-- on IRIs, blank nodes and variables `<` is a strict total order whose equivalence is `==`,
    `>` is its converse, and terms of one class order as their strings -/
def Statement_nonlit_strict_total : Prop :=
  ∀ (V : ValOracle) (a b c : Term), a.isNode → b.isNode → c.isNode →
    ltTerm V a a = false ∧
    (ltTerm V a b = true → ltTerm V b c = true → ltTerm V a c = true) ∧
    (ltTerm V a b = true ∨ eqb a b = true ∨ ltTerm V b a = true) ∧
    (eqb a b = true → ltTerm V a b = false ∧ gtTerm V a b = false) ∧
    gtTerm V a b = ltTerm V b a

def Statement_same_class_string_order : Prop :=
  ∀ (V : ValOracle) (c : NCls) (s s' : Str),
    ltTerm V (.node c s) (.node c s') = strLt s s' ∧ gtTerm V (.node c s) (.node c s') = strLt s' s

theorem nonlit_strict_total : Statement_nonlit_strict_total := by
  intro V a b c ha hb hc
  have hirr : ∀ t : Term, t.isNode → ltTerm V t t = false := by
    intro t ht; cases t with
    | lit => cases ht
    | node c s => exact lt_node_irrefl V c s
  have heq : eqb a b = true → a = b := by
    cases a with
    | lit => cases ha
    | node ca sa => cases b with
      | lit => cases hb
      | node cb sb => exact (eqb_node_iff _ _ _ _).mp
  refine ⟨hirr a ha, lt_node_trans V ha hb hc, ?_, ?_, gt_node_eq_lt_swap V ha hb⟩
  · by_cases e : a = b
    · subst e; exact Or.inr (Or.inl (eqb_refl a))
    · rcases lt_node_connected V ha hb e with h | h
      · exact Or.inl h
      · exact Or.inr (Or.inr h)
  · intro h
    have e := heq h
    subst e
    rw [gt_node_eq_lt_swap V ha ha]
    exact ⟨hirr a ha, hirr a ha⟩

theorem same_class_string_order : Statement_same_class_string_order := by
  intro V c s s'; simp [ltTerm, gtTerm]

/-- sorting a collection of IRIs, blank nodes and variables with `<` does not depend on the order
    in which the collection is given, and the result is an increasing rearrangement of it -/
def Statement_sort_deterministic : Prop :=
  ∀ (V : ValOracle) (l l' : List Term), (∀ t ∈ l, t.isNode) → l.Perm l' →
    sortT (ltTerm V) l = sortT (ltTerm V) l' ∧ (sortT (ltTerm V) l).Perm l ∧ SortedBy (ltTerm V) (sortT (ltTerm V) l)

theorem sort_deterministic : Statement_sort_deterministic := by
  intro V l l' hn hp
  have hn' : ∀ t ∈ l', t.isNode := fun t ht => hn t (hp.mem_iff.mpr ht)
  have hs := sorted_sortT V hn
  have hs' := sorted_sortT V hn'
  have p1 := perm_sortT (ltTerm V) l
  have p2 := perm_sortT (ltTerm V) l'
  refine ⟨?_, p1, hs⟩
  exact sorted_perm_unique V (fun t ht => hn t (p1.mem_iff.mp ht)) hs hs' (p1.trans (hp.trans p2.symm))

/-- equal terms are never strictly ordered (any kind).  For two literals this depends on the typed
    values: FALSE for an arbitrary oracle (a NaN value is not equal to itself, see `_witness`) -/
def Statement_order_consistent : Prop :=
  ∀ (V : ValOracle) (a b : Term), eqb a b = true → ltTerm V a b = false ∧ gtTerm V a b = false

/-- what the comparison of typed values has to satisfy on equal literals -/
def SoundOracle (V : ValOracle) : Prop :=
  ∀ (x : Str) (d l : Option Str) (x' : Str) (d' l' : Option Str),
    eqb (.lit x d l) (.lit x' d' l') = true →
      V.fast (.lit x d l) (.lit x' d' l') ≠ some true ∧ V.valGt (.lit x d l) (.lit x' d' l') ≠ some true ∧
      V.eqv (.lit x d l) (.lit x' d' l') = some true

theorem order_consistent_partial (V : ValOracle) (hV : SoundOracle V) (a b : Term) (h : eqb a b = true) :
    ltTerm V a b = false ∧ gtTerm V a b = false := by
  cases a with
  | node c s => cases b with
    | lit => simp [eqb] at h
    | node c' s' => exact (nonlit_strict_total V _ _ _ rfl rfl (rfl : (Term.node c s).isNode)).2.2.2.1 h
  | lit x d l => cases b with
    | node => simp [eqb] at h
    | lit x' d' l' =>
      obtain ⟨h1, h2, h3⟩ := hV _ _ _ _ _ _ h
      simp only [eqb, decide_eq_true_eq] at h
      obtain ⟨hd, hl, hx⟩ := h
      subst hd hx
      have hgt : litGt V (.lit x d l) (.lit x d l') = false := by
        simp only [litGt]
        cases hf : V.fast (.lit x d l) (.lit x d l') with
        | some r => cases r with
          | true => exact absurd hf h1
          | false => rfl
        | none =>
          simp only [hl, ne_eq, not_true_eq_false, if_false]
          cases hv : V.valGt (.lit x d l) (.lit x d l') with
          | some r => cases r with
            | true => exact absurd hv h2
            | false => rfl
          | none => rfl
      simp only [ltTerm, gtTerm, litLt, hgt, h3]
      simp

/-- a value comparison in which a value is not equal to itself (NaN) makes a literal `<` itself -/
theorem order_consistent_witness : ¬ Statement_order_consistent := by
  intro h
  have := (h ⟨fun _ _ => none, fun _ _ => none, fun _ _ => some false⟩ (.lit [] none none) (.lit [] none none) (by decide)).1
  revert this
  decide

/-- the oracle used by the driver (plain / xsd:string literals, value = lexical form) is sound -/
theorem strOracle_sound : SoundOracle strOracle := by
  intro x d l x' d' l' h
  simp only [eqb, decide_eq_true_eq] at h
  obtain ⟨hd, hl, hx⟩ := h
  subst hd hx
  refine ⟨by simp [strOracle], ?_, ?_⟩
  · simp only [strOracle]
    cases d with
    | none => simp [strValue, strLt_irrefl]
    | some dt =>
      by_cases e : dt = Tables.xsdString <;> simp [strValue, e, strLt_irrefl]
  · simp only [strOracle, hl, ne_eq, not_true_eq_false, if_false, and_self]
    by_cases e : d.getD Tables.xsdString = Tables.xsdString <;> simp [e]

end RV.C07
