import RV.C07.Lemmas
import RV.C07.LemmasRead
import RV.C07.LemmasWs
import RV.C07.LemmasReadTerm
/-
  C07 — property statements (each first as `def Statement_… : Prop` at full strength), theorems,
  non-vacuity examples.  "RDF terms obey identity laws: equality, hashing, ordering, pickling, n3 text."
-/
namespace RV.C07

/-! ## Equality -/

/-- `==` is an equivalence relation and `!=` is its negation -/
def Statement_eq_equiv : Prop :=
  (∀ a, eqb a a = true) ∧ (∀ a b, eqb a b = eqb b a) ∧
  (∀ a b c, eqb a b = true → eqb b c = true → eqb a c = true) ∧ (∀ a b, neb a b = !eqb a b)

/-- IRIs, blank nodes, literals and variables are never equal to each other -/
def Statement_eq_kind_disjoint : Prop := ∀ a b : Term, a.kind ≠ b.kind → eqb a b = false

/-- literals are distinguished by lexical form, datatype and language tag up to case;
    non-literal terms of one class by their string -/
def Statement_lit_eq_iff : Prop :=
  (∀ x d l x' d' l', eqb (.lit x d l) (.lit x' d' l') = true ↔ (x = x' ∧ d = d' ∧ langKey l = langKey l')) ∧
  (∀ c s s', eqb (.node c s) (.node c s') = true ↔ s = s') ∧
  (∀ l : Str, l ≠ [] → langKey (some l) = langKey (some (lower l)))

theorem eq_equiv : Statement_eq_equiv :=
  ⟨eqb_refl, eqb_symm, fun _ _ _ => eqb_trans, fun _ _ => rfl⟩

theorem eq_kind_disjoint : Statement_eq_kind_disjoint := by
  intro a b h
  cases a with
  | lit => cases b with
    | lit => exact absurd rfl h
    | node => rfl
  | node c s => cases b with
    | lit => rfl
    | node c' s' =>
      simp only [eqb, decide_eq_false_iff_not]
      rintro ⟨e, _⟩
      subst e
      exact h rfl

theorem lit_eq_iff : Statement_lit_eq_iff := by
  refine ⟨?_, ?_, ?_⟩
  · intro x d l x' d' l'
    simp only [eqb, decide_eq_true_eq]
    constructor
    · rintro ⟨a, b, c⟩; exact ⟨c, a, b⟩
    · rintro ⟨a, b, c⟩; exact ⟨b, c, a⟩
  · intro c s s'; simp [eqb]
  · intro l hl
    cases l with
    | nil => exact absurd rfl hl
    | cons c s => simp [langKey, truthy, lower, lowerChar_idem]

/-! ## Hashing -/

/-- equal terms have equal hashes, whatever `str.__hash__` (and `^`) are -/
def Statement_hash_coherent : Prop :=
  ∀ (strHash : Str → Int) (xor : Int → Int → Int) (a b : Term),
    eqb a b = true → hash strHash xor a = hash strHash xor b

theorem hash_coherent : Statement_hash_coherent := by
  intro strHash xor a b h
  cases a with
  | node c s => cases b with
    | lit => simp [eqb] at h
    | node c' s' =>
      simp only [eqb, decide_eq_true_eq] at h
      simp [hash, h.2]
  | lit x d l => cases b with
    | node => simp [eqb] at h
    | lit x' d' l' =>
      simp only [eqb, decide_eq_true_eq] at h
      obtain ⟨hd, hl, hx⟩ := h
      subst hd hx
      simp only [hash]
      have : (match truthy l with
          | some t => xor (strHash x) (strHash (lower t))
          | none => strHash x) =
        (match truthy l' with
          | some t => xor (strHash x) (strHash (lower t))
          | none => strHash x) := by
        simp only [langKey] at hl
        cases h1 : truthy l <;> cases h2 : truthy l' <;> simp [h1, h2] at hl ⊢
        rw [hl]
      cases d with
      | none => exact this
      | some dd => exact congrArg (fun v => xor v (strHash dd)) this

/-! ## Ordering -/

/-- the order of kinds the property states: blank node < variable < IRI < literal -/
def kindRank : Kind → Nat
  | .bnode => 0
  | .var => 1
  | .iri => 2
  | .lit => 3

/-- terms of different kinds compare by kind (from the regenerated `_ORDERING` table and the
    `isinstance(other, Node)` branches of `Literal.__gt__/__lt__`), whatever the value oracle -/
def Statement_kind_order : Prop :=
  ∀ (V : ValOracle) (a b : Term), a.kind ≠ b.kind →
    (ltTerm V a b = true ↔ kindRank a.kind < kindRank b.kind) ∧
    (gtTerm V a b = true ↔ kindRank a.kind > kindRank b.kind)

theorem rank_kind (c c' : NCls) (h : c.kind ≠ c'.kind) :
    (rank c < rank c' ↔ kindRank c.kind < kindRank c'.kind) ∧ (rank c > rank c' ↔ kindRank c.kind > kindRank c'.kind) := by
  cases c <;> cases c' <;> first | exact absurd rfl h | decide

theorem rank_lt_lit (c : NCls) : rank c < rankLit ∧ ¬ rank c > rankLit ∧ kindRank c.kind < kindRank Kind.lit := by
  cases c <;> decide

theorem kind_order : Statement_kind_order := by
  intro V a b h
  cases a with
  | node c s => cases b with
    | node c' s' =>
      have hc : c ≠ c' := fun e => h (by subst e; rfl)
      have := rank_kind c c' h
      simp only [ltTerm, gtTerm, hc, if_false, decide_eq_true_eq, Term.kind]
      exact this
    | lit x d l =>
      have := rank_lt_lit c
      simp only [ltTerm, gtTerm, decide_eq_true_eq, Term.kind]
      omega
  | lit x d l => cases b with
    | node c s =>
      have := rank_lt_lit c
      simp only [ltTerm, gtTerm, Term.kind]
      constructor
      · constructor
        · intro h'; cases h'
        · intro h'; omega
      · constructor
        · intro _; omega
        · intro _; trivial
    | lit => exact absurd rfl h

/-- on IRIs, blank nodes and variables `<` is a strict total order whose equivalence is `==`,
    `>` is its converse, and terms of one class order as their strings -/
def Statement_nonlit_strict_total : Prop :=
  ∀ (V : ValOracle) (a b c : Term), a.isNode → b.isNode → c.isNode →
    ltTerm V a a = false ∧
    (ltTerm V a b = true → ltTerm V b c = true → ltTerm V a c = true) ∧
    (ltTerm V a b = true ∨ eqb a b = true ∨ ltTerm V b a = true) ∧
    (eqb a b = true → ltTerm V a b = false ∧ gtTerm V a b = false) ∧
    gtTerm V a b = ltTerm V b a

def Statement_same_class_string_order : Prop :=
  ∀ (V : ValOracle) (c : NCls) (s s' : Str),
    ltTerm V (.node c s) (.node c s') = strLt s s' ∧ gtTerm V (.node c s) (.node c s') = strLt s' s

theorem nonlit_strict_total : Statement_nonlit_strict_total := by
  intro V a b c ha hb hc
  have hirr : ∀ t : Term, t.isNode → ltTerm V t t = false := by
    intro t ht; cases t with
    | lit => cases ht
    | node c s => exact lt_node_irrefl V c s
  have heq : eqb a b = true → a = b := by
    cases a with
    | lit => cases ha
    | node ca sa => cases b with
      | lit => cases hb
      | node cb sb => exact (eqb_node_iff _ _ _ _).mp
  refine ⟨hirr a ha, lt_node_trans V ha hb hc, ?_, ?_, gt_node_eq_lt_swap V ha hb⟩
  · by_cases e : a = b
    · subst e; exact Or.inr (Or.inl (eqb_refl a))
    · rcases lt_node_connected V ha hb e with h | h
      · exact Or.inl h
      · exact Or.inr (Or.inr h)
  · intro h
    have e := heq h
    subst e
    rw [gt_node_eq_lt_swap V ha ha]
    exact ⟨hirr a ha, hirr a ha⟩

theorem same_class_string_order : Statement_same_class_string_order := by
  intro V c s s'; simp [ltTerm, gtTerm]

/-- sorting a collection of IRIs, blank nodes and variables with `<` does not depend on the order
    in which the collection is given, and the result is an increasing rearrangement of it -/
def Statement_sort_deterministic : Prop :=
  ∀ (V : ValOracle) (l l' : List Term), (∀ t ∈ l, t.isNode) → l.Perm l' →
    sortT (ltTerm V) l = sortT (ltTerm V) l' ∧ (sortT (ltTerm V) l).Perm l ∧ SortedBy (ltTerm V) (sortT (ltTerm V) l)

theorem sort_deterministic : Statement_sort_deterministic := by
  intro V l l' hn hp
  have hn' : ∀ t ∈ l', t.isNode := fun t ht => hn t (hp.mem_iff.mpr ht)
  have hs := sorted_sortT V hn
  have hs' := sorted_sortT V hn'
  have p1 := perm_sortT (ltTerm V) l
  have p2 := perm_sortT (ltTerm V) l'
  refine ⟨?_, p1, hs⟩
  exact sorted_perm_unique V (fun t ht => hn t (p1.mem_iff.mp ht)) hs hs' (p1.trans (hp.trans p2.symm))

/-- equal terms are never strictly ordered (any kind).  For two literals this depends on the typed
    values: FALSE for an arbitrary oracle (a NaN value is not equal to itself, see `_witness`) -/
def Statement_order_consistent : Prop :=
  ∀ (V : ValOracle) (a b : Term), eqb a b = true → ltTerm V a b = false ∧ gtTerm V a b = false

/-- what the comparison of typed values has to satisfy on equal literals -/
def SoundOracle (V : ValOracle) : Prop :=
  ∀ (x : Str) (d l : Option Str) (x' : Str) (d' l' : Option Str),
    eqb (.lit x d l) (.lit x' d' l') = true →
      V.fast (.lit x d l) (.lit x' d' l') ≠ some true ∧ V.valGt (.lit x d l) (.lit x' d' l') ≠ some true ∧
      V.eqv (.lit x d l) (.lit x' d' l') = some true

theorem order_consistent_partial (V : ValOracle) (hV : SoundOracle V) (a b : Term) (h : eqb a b = true) :
    ltTerm V a b = false ∧ gtTerm V a b = false := by
  cases a with
  | node c s => cases b with
    | lit => simp [eqb] at h
    | node c' s' => exact (nonlit_strict_total V _ _ _ rfl rfl (rfl : (Term.node c s).isNode)).2.2.2.1 h
  | lit x d l => cases b with
    | node => simp [eqb] at h
    | lit x' d' l' =>
      obtain ⟨h1, h2, h3⟩ := hV _ _ _ _ _ _ h
      simp only [eqb, decide_eq_true_eq] at h
      obtain ⟨hd, hl, hx⟩ := h
      subst hd hx
      have hgt : litGt V (.lit x d l) (.lit x d l') = false := by
        simp only [litGt]
        cases hf : V.fast (.lit x d l) (.lit x d l') with
        | some r => cases r with
          | true => exact absurd hf h1
          | false => rfl
        | none =>
          simp only [hl, ne_eq, not_true_eq_false, if_false]
          cases hv : V.valGt (.lit x d l) (.lit x d l') with
          | some r => cases r with
            | true => exact absurd hv h2
            | false => rfl
          | none => rfl
      simp only [ltTerm, gtTerm, litLt, hgt, h3]
      simp

/-- a value comparison in which a value is not equal to itself (NaN) makes a literal `<` itself -/
theorem order_consistent_witness : ¬ Statement_order_consistent := by
  intro h
  have := (h ⟨fun _ _ => none, fun _ _ => none, fun _ _ => some false⟩ (.lit [] none none) (.lit [] none none) (by decide)).1
  revert this
  decide

/-- the oracle used by the driver (plain / xsd:string literals, value = lexical form) is sound -/
theorem strOracle_sound : SoundOracle strOracle := by
  intro x d l x' d' l' h
  simp only [eqb, decide_eq_true_eq] at h
  obtain ⟨hd, hl, hx⟩ := h
  subst hd hx
  refine ⟨by simp [strOracle], ?_, ?_⟩
  · simp only [strOracle]
    cases d with
    | none => simp [strValue, strLt_irrefl]
    | some dt =>
      by_cases e : dt = Tables.xsdString <;> simp [strValue, e, strLt_irrefl]
  · simp only [strOracle, hl, ne_eq, not_true_eq_false, if_false, and_self]
    by_cases e : d.getD Tables.xsdString = Tables.xsdString <;> simp [e]

/-! ## n3 text -/

/-- the text forms cannot carry a Python subclass of URIRef: what is read back is the plain IRI -/
def Term.plain : Term → Term
  | .node .genid s => .node .uri s
  | .node .rgenid s => .node .uri s
  | t => t

/-- the literals the property quantifies over: language tag XOR datatype, a tag `Literal.__new__` accepts,
    a datatype that is an IRI (non-empty, no character of `_invalid_uri_chars`); and — not covered by the theorem —
    no INF/NaN respelling by `_literal_n3` -/
def WFText (E : Ext) : Term → Prop
  | .node _ _ => True
  | .lit x d l =>
    (l = none ∨ d = none) ∧ (∀ t, l = some t → validLangTag t = true) ∧
    (∀ u, d = some u → u ≠ [] ∧ isValidUri u = true) ∧
    (∀ u, d = some u → u ∈ Tables.infNanTypes → RespellNoop E x)

/-- constructing a literal from this lexical form leaves it alone (it is normalised already, or
    normalisation is off and the xsd:token / xsd:normalizedString white-space rule is met) -/
def TextStable (E : Ext) (nz : Bool) : Term → Prop
  | .lit x d _ => newLex E nz d x = x
  | .node _ _ => True

/-- `from_n3(t.n3()) == t` for every IRI `n3()` accepts, every blank node, every variable, every
    literal with ANY lexical form.  FALSE as it stands when the reader normalises (`_witness`). -/
def Statement_n3_roundtrip : Prop :=
  ∀ (E : Ext) (nz : Bool) (t : Term) (txt : Str), ExtOK E → WFText E t → n3 E t = some txt →
    fromN3 E nz txt = .term t.plain

theorem n3_roundtrip_partial (E : Ext) (nz : Bool) (t : Term) (txt : Str) (hE : ExtOK E) (hw : WFText E t)
    (hst : TextStable E nz t) (h : n3 E t = some txt) : fromN3 E nz txt = .term t.plain := by
  cases t with
  | node c s =>
    cases c with
    | bnode => simp only [n3, Option.some.injEq] at h; subst h; exact fromN3_bnode E hE nz s
    | var => simp only [n3, Option.some.injEq] at h; subst h; exact fromN3_var E hE nz s
    | uri =>
      simp only [n3] at h
      split at h
      · next hv => simp only [Option.some.injEq] at h; subst h; exact fromN3_iri E hE nz s hv
      · cases h
    | genid =>
      simp only [n3] at h
      split at h
      · next hv => simp only [Option.some.injEq] at h; subst h; exact fromN3_iri E hE nz s hv
      · cases h
    | rgenid =>
      simp only [n3] at h
      split at h
      · next hv => simp only [Option.some.injEq] at h; subst h; exact fromN3_iri E hE nz s hv
      · cases h
  | lit x d l =>
    obtain ⟨hxor, htag, hdt, hinf⟩ := hw
    simp only [TextStable] at hst
    simp only [n3, Option.some.injEq] at h
    subst h
    simp only [Term.plain]
    cases l with
    | some tag =>
      have hv := htag tag rfl
      have hd : d = none := by
        rcases hxor with h' | h'
        · cases h'
        · exact h'
      subst hd
      cases tag with
      | nil => simp [validLangTag] at hv
      | cons c r =>
        have hq := validLangTag_no_quote_hat hv
        have hs : '"' ∉ '@' :: c :: r := by
          intro hm
          rcases List.mem_cons.mp hm with e | hm
          · revert e; decide
          · exact hq.1 hm
        rw [litN3_lang, fromN3_quoteEncode E nz x _ hs, litFromParts_lang E nz x _ hq.2]
        simp [mkLit, Rd.ofExcept, hv, hst]
    | none =>
      cases d with
      | none =>
        have h0 := fromN3_quoteEncode E nz x [] (by simp)
        rw [List.append_nil] at h0
        rw [litN3_plain, h0, litFromParts_plain]
        simp [mkLit, Rd.ofExcept, hst]
      | some u =>
        obtain ⟨hne, hvu⟩ := hdt u rfl
        cases u with
        | nil => exact absurd rfl hne
        | cons c r =>
          have hs : '"' ∉ '^' :: '^' :: '<' :: (c :: r) ++ ['>'] := by
            intro hm
            simp only [List.cons_append, List.mem_cons, List.mem_append, List.mem_nil_iff, or_false] at hm
            rcases hm with e | e | e | e | hm | e
            · revert e; decide
            · revert e; decide
            · revert e; decide
            · exact mem_invalid_of_not_valid hvu quote_invalid (List.mem_cons.mpr (Or.inl e))
            · exact mem_invalid_of_not_valid hvu quote_invalid (List.mem_cons_of_mem _ hm)
            · revert e; decide
          rw [litN3_dt E x c r (hinf _ rfl), fromN3_quoteEncode E nz x _ hs, litFromParts_dt E hE nz x _ hvu]
          simp [mkLit, Rd.ofExcept, hst]

/-- a reader that normalises ("01" ↦ "1") does not give back a literal with the lexical form "01" -/
def normExt : Ext := { drvExt with normFull := fun _ _ => ['1'] }

theorem normExt_ok : ExtOK normExt where
  iri := fun _ _ => rfl
  num_us := by decide
  num_q := by decide
  low_us := fun s => ⟨lower s, by simp [normExt, drvExt, lower, lowerChar]⟩
  low_q := fun s => ⟨lower s, by simp [normExt, drvExt, lower, lowerChar]⟩
  num_colon := by decide
  low_colon := fun s h => List.mem_map.mpr ⟨':', h, by decide⟩

theorem n3_roundtrip_witness : ¬ Statement_n3_roundtrip := by
  intro h
  have hw : WFText normExt (.lit ['0', '1'] (some ['x']) none) := by
    refine ⟨Or.inl rfl, ?_, ?_, ?_⟩
    · intro t h; cases h
    · intro u h; cases h; exact ⟨by decide, by decide⟩
    · intro u h hm; cases h; exact absurd hm (by decide)
  have := h normExt true (.lit ['0', '1'] (some ['x']) none) _ normExt_ok hw rfl
  revert this
  decide

/-- the INF / NaN clause of `WFText` cannot be dropped: a literal of xsd:float / double / decimal whose lexical form is a
    float infinity or NaN in another spelling (`inf`, `Infinity`, `nan`) is WRITTEN as `INF` / `NaN`, so a reader that keeps
    lexical forms gives back another term (finding C07-K5).  With the clause (`RespellNoop`: the respelling leaves the text
    alone — `INF`, `-INF`, `NaN` and everything that is not a float infinity / NaN) the round trip is `n3_roundtrip_partial`. -/
def Statement_n3_roundtrip_respelled : Prop :=
  ∀ (E : Ext) (x u txt : Str), ExtOK E → u ≠ [] → isValidUri u = true →
    n3 E (.lit x (some u) none) = some txt → fromN3 E false txt = .term (.lit x (some u) none)

def xsdDouble : Str := "http://www.w3.org/2001/XMLSchema#double".toList
def xsdDecimal : Str := "http://www.w3.org/2001/XMLSchema#decimal".toList

theorem drvExt_ok : ExtOK drvExt :=
  ⟨fun _ _ => rfl, by decide, by decide, fun s => ⟨lower s, by simp [drvExt, lower, lowerChar]⟩,
   fun s => ⟨lower s, by simp [drvExt, lower, lowerChar]⟩, by decide,
   fun s h => List.mem_map.mpr ⟨':', h, by decide⟩⟩

theorem n3_roundtrip_respelled_witness : ¬ Statement_n3_roundtrip_respelled := by
  intro h
  have := h drvExt "inf".toList xsdDouble _ drvExt_ok (by decide) (by decide) rfl
  revert this
  decide +kernel

/-- with normalisation off and a datatype other than xsd:token / xsd:normalizedString nothing is assumed
    about the lexical form at all -/
theorem n3_roundtrip_any_lexical (E : Ext) (x : Str) (d l : Option Str) (txt : Str) (hE : ExtOK E)
    (hw : WFText E (.lit x d l)) (hd : d ≠ some Tables.xsdNormalizedString ∧ d ≠ some Tables.xsdToken)
    (h : n3 E (.lit x d l) = some txt) : fromN3 E false txt = .term (.lit x d l) := by
  have := n3_roundtrip_partial E false (.lit x d l) txt hE hw (by simp [TextStable, newLex, wsNorm, hd.1, hd.2]) h
  simpa [Term.plain] using this

/-! ### with a namespace manager on both sides -/

/-- what `namespace_manager.normalizeUri` may answer for the IRI `u` (C17): the angle-bracket form, or a
    prefixed name whose prefix the manager binds to a namespace which, followed by the local part, is `u` -/
def IriSpelling (tbl : List (Str × Str)) (u txt : Str) : Prop :=
  txt = '<' :: u ++ ['>'] ∨
  ∃ p l ns, txt = p ++ ':' :: l ∧ GoodPrefix p ∧ dlookup p tbl = some ns ∧ ns ++ l = u ∧ '"' ∉ p ∧ '^' ∉ p

/-- `from_n3(t.n3(nsm), nsm=nsm) == t`: the manager's bindings reach the reader also for the datatype of a literal -/
def Statement_n3_roundtrip_nsm : Prop :=
  ∀ (E : Ext) (nz : Bool) (tbl : List (Str × Str)) (t : Term) (txt : Str), ExtOK E → E.nsm = some tbl →
    WFText E t → TextStable E nz t → (∀ u, isValidUri u = true → IriSpelling tbl u (E.qname u)) →
    n3Q E t = some txt → fromN3 E nz txt = .term t.plain

theorem litN3Q_no_dt (E : Ext) (x : Str) (l : Option Str) : litN3Q E x none l = litN3 E x none l := by
  simp [litN3Q, litN3, truthy]

theorem n3_roundtrip_nsm : Statement_n3_roundtrip_nsm := by
  intro E nz tbl t txt hE hn hw hst hQ h
  have iriCase : ∀ s : Str, isValidUri s = true → fromN3 E nz (E.qname s) = .term (.node .uri s) := by
    intro s hv
    rcases hQ s hv with e | ⟨p, l, ns, e, hp, hl, hu, _, _⟩
    · rw [e]; exact fromN3_iri E hE nz s hv
    · rw [e, fromN3_qname E hE nz tbl hn p l ns hp hl, hu]
  cases t with
  | node c s =>
    cases c with
    | bnode => simp only [n3Q, Option.some.injEq] at h; subst h; exact fromN3_bnode E hE nz s
    | var => simp only [n3Q, Option.some.injEq] at h; subst h; exact fromN3_var E hE nz s
    | uri =>
      simp only [n3Q] at h
      split at h
      · next hv => simp only [Option.some.injEq] at h; subst h; exact iriCase s hv
      · cases h
    | genid =>
      simp only [n3Q] at h
      split at h
      · next hv => simp only [Option.some.injEq] at h; subst h; exact iriCase s hv
      · cases h
    | rgenid =>
      simp only [n3Q] at h
      split at h
      · next hv => simp only [Option.some.injEq] at h; subst h; exact iriCase s hv
      · cases h
  | lit x d l =>
    simp only [n3Q, Option.some.injEq] at h
    subst h
    cases d with
    | none =>
      rw [litN3Q_no_dt]
      exact n3_roundtrip_partial E nz (.lit x none l) _ hE hw hst rfl
    | some u =>
      obtain ⟨hxor, htag, hdt, hinf⟩ := hw
      have hl : l = none := by
        rcases hxor with h' | h'
        · exact h'
        · cases h'
      subst hl
      obtain ⟨hne, hvu⟩ := hdt u rfl
      rcases hQ u hvu with e | ⟨p, q, ns, e, hp, hlk, hu, hpq, hph⟩
      · -- the manager answered `<u>`: the same text as without a manager
        have htxt : litN3Q E x (some u) none = litN3 E x (some u) none := by
          cases u with
          | nil => exact absurd rfl hne
          | cons c r =>
            rw [litN3Q_dt E x c r (hinf _ rfl) (by rw [e]; simp), litN3_dt E x c r (hinf _ rfl), e]
            simp
        rw [htxt]
        exact n3_roundtrip_partial E nz (.lit x (some u) none) _ hE ⟨Or.inl rfl, htag, hdt, hinf⟩ hst rfl
      · have hqu : ∀ c ∈ q, c ∈ u := fun c hc => hu ▸ List.mem_append_right ns hc
        have hquote : '"' ∉ p ++ ':' :: q := by
          intro hm
          rcases List.mem_append.mp hm with hm | hm
          · exact hpq hm
          · rcases List.mem_cons.mp hm with e' | hm
            · revert e'; decide
            · exact mem_invalid_of_not_valid hvu quote_invalid (hqu _ hm)
        have hhat : '^' ∉ p ++ ':' :: q := by
          intro hm
          rcases List.mem_append.mp hm with hm | hm
          · exact hph hm
          · rcases List.mem_cons.mp hm with e' | hm
            · revert e'; decide
            · exact mem_invalid_of_not_valid hvu hat_invalid (hqu _ hm)
        have hs : '"' ∉ '^' :: '^' :: (p ++ ':' :: q) := by
          intro hm
          rcases List.mem_cons.mp hm with e' | hm
          · revert e'; decide
          · rcases List.mem_cons.mp hm with e' | hm
            · revert e'; decide
            · exact hquote hm
        have hnonempty : E.qname u ≠ [] := by
          rw [e]; obtain ⟨⟨a, r, rfl, _⟩, _⟩ := hp; simp
        have htxt : litN3Q E x (some u) none = quoteEncode x ++ ('^' :: '^' :: (p ++ ':' :: q)) := by
          cases u with
          | nil => exact absurd rfl hne
          | cons c r => rw [litN3Q_dt E x c r (hinf _ rfl) hnonempty, e]
        simp only [TextStable] at hst
        rw [htxt, fromN3_quoteEncode E nz x _ hs, litFromParts_qdt E hE nz tbl hn x p q ns hp hlk hhat, hu]
        simp [mkLit, Rd.ofExcept, hst, Term.plain]

/-! ### the text of one term inside a Turtle / SPARQL statement -/

/-- what the grammars ask beyond what `n3()` checks: no C0 control in an IRI (IRIREF), a blank node label of the
    BLANK_NODE_LABEL production; variables are not terms of these grammars' data part -/
def GrammarOK : Term → Prop
  | .node .bnode s => LabelOK s
  | .node .var _ => False
  | .node _ s => ∀ c ∈ s, c.toNat > 0x20
  | .lit _ d _ => ∀ u, d = some u → ∀ c ∈ u, c.toNat > 0x20

/-- ⊢ `turtle_term_roundtrip` / `sparql_term_roundtrip` at the term level: the grammar-level reader (IRIREF,
    BLANK_NODE_LABEL, the quoted string forms with ECHAR/UCHAR, LANGTAG, `^^` datatype) applied to the text `n3()` wrote
    for a term, followed by anything a statement may continue with, reads exactly that term and consumes nothing of
    what follows -/
def Statement_term_text_roundtrip : Prop :=
  ∀ (E : Ext) (nz : Bool) (t : Term) (txt suffix : Str), WFText E t → TextStable E nz t → GrammarOK t →
    delimSafe suffix = true → n3 E t = some txt → readTerm E nz (txt ++ suffix) = some (t.plain, suffix)

theorem term_text_roundtrip : Statement_term_text_roundtrip := by
  intro E nz t txt suffix hw hst hg hs h
  have iriCase : ∀ s : Str, isValidUri s = true → (∀ c ∈ s, c.toNat > 0x20) →
      readTerm E nz (('<' :: s ++ ['>']) ++ suffix) = some (.node .uri s, suffix) := by
    intro s hv hc
    have hi := scanIri_plain s suffix (iriCharOk_of_valid hv hc) ((s ++ '>' :: suffix).length + 1) (by simp; omega)
    have e : ('<' :: s ++ ['>']) ++ suffix = '<' :: (s ++ '>' :: suffix) := by simp
    rw [e]
    simp only [readTerm, hi]
    rfl
  cases t with
  | node c s =>
    cases c with
    | bnode =>
      simp only [n3, Option.some.injEq] at h; subst h
      exact readBNode_label E nz s suffix hg hs
    | var => exact absurd hg (by simp [GrammarOK])
    | uri =>
      simp only [n3] at h
      split at h
      · next hv => simp only [Option.some.injEq] at h; subst h; exact iriCase s hv hg
      · cases h
    | genid =>
      simp only [n3] at h
      split at h
      · next hv => simp only [Option.some.injEq] at h; subst h; exact iriCase s hv hg
      · cases h
    | rgenid =>
      simp only [n3] at h
      split at h
      · next hv => simp only [Option.some.injEq] at h; subst h; exact iriCase s hv hg
      · cases h
  | lit x d l =>
    obtain ⟨hxor, htag, hdt, hinf⟩ := hw
    simp only [TextStable] at hst
    simp only [n3, Option.some.injEq] at h
    subst h
    simp only [Term.plain]
    have hsufq : suffix.head? ≠ some '"' := fun e => (delim_facts (delimSafe_head hs _ e)).1 rfl
    cases l with
    | some tag =>
      have hv := htag tag rfl
      have hd : d = none := by
        rcases hxor with h' | h'
        · cases h'
        · exact h'
      subst hd
      cases tag with
      | nil => simp [validLangTag] at hv
      | cons c r =>
        rw [litN3_lang, List.append_assoc, readTerm_quoted E nz x _ (by simp)]
        exact readLitSuffix_lang E nz x (c :: r) suffix hs hv hst
    | none =>
      cases d with
      | none =>
        rw [litN3_plain, readTerm_quoted E nz x _ hsufq]
        exact readLitSuffix_plain E nz x suffix hs hst
      | some u =>
        obtain ⟨hne, hvu⟩ := hdt u rfl
        cases u with
        | nil => exact absurd rfl hne
        | cons c r =>
          rw [litN3_dt E x c r (hinf _ rfl), List.append_assoc, readTerm_quoted E nz x _ (by simp)]
          have := readLitSuffix_dt E nz x (c :: r) suffix (iriCharOk_of_valid hvu (hg _ rfl)) hst
          simpa using this

/-- `URIRef.n3` refuses exactly the IRIs with a character of `_invalid_uri_chars` -/
def Statement_n3_guard : Prop :=
  ∀ (E : Ext) (c : NCls) (s : Str), c.kind = .iri →
    ((n3 E (.node c s)).isSome ↔ ∀ x ∈ Tables.invalidUriChars, x ∉ s)

theorem n3_guard : Statement_n3_guard := by
  intro E c s hc
  have key : isValidUri s = true ↔ ∀ x ∈ Tables.invalidUriChars, x ∉ s := by
    simp [isValidUri, List.all_eq_true]
  cases c with
  | bnode => cases hc
  | var => cases hc
  | uri => simp only [n3]; rw [← key]; split <;> simp_all
  | genid => simp only [n3]; rw [← key]; split <;> simp_all
  | rgenid => simp only [n3]; rw [← key]; split <;> simp_all

/-! ## pickling and copying: `__reduce__` and rebuilding -/

/-- the terms the constructors can build: any string in any non-literal class, literals through `Literal.__new__` -/
inductive Reachable (E : Ext) : Term → Prop
  | node (c : NCls) (s : Str) : Reachable E (.node c s)
  | lit (nz : Bool) (x : Str) (l d : Option Str) (t : Term) : mkLit E nz x l d = .ok t → Reachable E t

/-- the white-space rule of xsd:token / xsd:normalizedString applied twice is the same as once -/
def WsIdem : Prop := ∀ (d : Option Str) (y : Str), wsNorm d (wsNorm d y) = wsNorm d y

/-- pickle / copy / deepcopy give back the term itself -/
def Statement_reduce_rebuild : Prop :=
  ∀ (E : Ext) (t : Term), Reachable E t → rebuild E (reduce t) = .ok t

theorem reduce_rebuild_of_wsIdem (hws : WsIdem) : Statement_reduce_rebuild := by
  intro E t ht
  cases ht with
  | node c s => cases c <;> simp [reduce, rebuild, mkVar]
  | lit nz x l d t h =>
    have key : ∀ lang : Option Str, lang ≠ some [] → mkLit E nz x lang d = .ok t → rebuild E (reduce t) = .ok t := by
      intro lang hne h
      simp only [mkLit, hne, if_false] at h
      cases lang with
      | none =>
        simp only [Option.isSome_none, Bool.false_eq_true, false_and, if_false, Except.ok.injEq] at h
        subst h
        simp only [reduce, rebuild, mkLit]
        simp only [Option.isSome_none, Bool.false_eq_true, false_and, if_false, reduceCtorEq, newLex]
        rw [hws, hws]
      | some tag =>
        cases d with
        | some u => simp at h
        | none =>
          simp only [Option.isSome_none, Bool.false_eq_true, and_false, if_false] at h
          by_cases hv : validLangTag tag = true
          · simp only [hv, if_true, Except.ok.injEq] at h
            subst h
            simp only [reduce, rebuild, mkLit, hne, hv, if_true, if_false, Option.isSome_none,
              Bool.false_eq_true, and_false, newLex]
            rw [hws, hws]
          · simp [hv] at h
    by_cases hl : l = some []
    · subst hl
      have : mkLit E nz x (some []) d = mkLit E nz x none d := by simp [mkLit]
      rw [this] at h
      exact key none (by simp) h
    · exact key l hl h

theorem ws_idempotent : WsIdem := wsNorm_idem

/-- ⊢ pickling / copying gives back the term, for every term the constructors can build -/
theorem reduce_rebuild : Statement_reduce_rebuild := reduce_rebuild_of_wsIdem ws_idempotent

/-- every literal that went through `Literal.__new__` meets the white-space rule, so for datatypes
    other than the recognised ones (no lexical normalisation) reading its n3 text gives it back -/
theorem constructed_text_stable (E : Ext) (nz : Bool) (x : Str) (l d : Option Str) (t : Term)
    (h : mkLit E nz x l d = .ok t) : TextStable E false t := by
  have key : ∀ lang : Option Str, mkLit E nz x lang d = .ok t →
      ∃ y l', t = .lit (wsNorm d y) d l' := by
    intro lang h
    simp only [mkLit, newLex] at h
    repeat' split at h
    all_goals first
      | (simp only [Except.ok.injEq] at h; exact ⟨_, _, h.symm⟩)
      | cases h
  obtain ⟨y, l', rfl⟩ := key l h
  simp only [TextStable, newLex, Bool.false_eq_true, if_false]
  rw [wsNorm_idem, wsNorm_idem]

/-- the pre-fix `Literal.__reduce__` rebuilt with the default `normalize=True`: a literal with a lexical form
    that is not the normalised one came back changed (regression witness of C07-F2) -/
theorem old_reduce_renormalises :
    mkLit normExt true ['0', '1'] none (some ['x']) = .ok (.lit ['1'] (some ['x']) none) := by
  simp [mkLit, newLex, normExt, wsNorm, Tables.xsdNormalizedString, Tables.xsdToken]

/-! ## regenerated tables -/

/-- `_ORDERING`: BNode < Variable < URIRef ≤ its subclasses < Literal, all ranks distinct -/
theorem table_ordering :
    Tables.ordBNode < Tables.ordVariable ∧ Tables.ordVariable < Tables.ordURIRef ∧
    Tables.ordURIRef < Tables.ordGenid ∧ Tables.ordGenid < Tables.ordRDFLibGenid ∧
    Tables.ordRDFLibGenid < Tables.ordLiteral := by decide

/-- the written forms probed from the live `Literal._quote_encode` (one per character, short and long quoting) are
    well-formed: each is read back to its character by the decoder whatever follows, the backslash is never raw, and in
    a short-quoted string neither are the quote and CR.  This is all the round-trip theorems use of the tables, so a
    legal change of spelling (raw TAB ↦ `\t`, …) re-proves by itself. -/
theorem table_short_wf : wfTab Tables.shortEscapes = true ∧
    escWith Tables.shortEscapes '"' ≠ ['"'] ∧ escWith Tables.shortEscapes '\r' ≠ ['\r'] :=
  ⟨short_table_wf, short_table_raw⟩

theorem table_long_wf : wfTab Tables.longEscapes = true := long_table_wf

/-- ⊢ decode ∘ `_quote_encode` = id for every string and ANY well-formed table of written forms -/
def Statement_escape_roundtrip : Prop :=
  ∀ (T : List (Char × Str)), wfTab T = true → ∀ s : Str,
    decodeEsc (shortEncodeT T s) = some s ∧ decodeEsc (longEncodeT T s) = some s

theorem escape_roundtrip : Statement_escape_roundtrip :=
  fun _ hT s => ⟨decode_shortEncodeT hT s, decode_longEncodeT hT s⟩

/-- the model (with the regenerated tables) writes what the live `_quote_encode` writes on long-quoted texts ending in
    runs of quotes / backslashes (the triple-quote and final-quote rules, which are not per-character) -/
theorem table_long_tails :
    Tables.longTails.all (fun p => longEncode p.1 == p.2) = true := by
  decide +kernel

/-- the characters `URIRef.n3` refuses include what the reader relies on -/
theorem table_invalid_chars :
    '"' ∈ Tables.invalidUriChars ∧ '^' ∈ Tables.invalidUriChars ∧ '\\' ∈ Tables.invalidUriChars ∧
    '<' ∈ Tables.invalidUriChars ∧ '>' ∈ Tables.invalidUriChars := by decide

/-! ## non-vacuity -/

def exLit : Term := .lit ['a', '"', '\\', '\n', '"'] none (some ['e', 'n'])

example : ExtOK drvExt :=
  ⟨fun _ _ => rfl, by decide, by decide, fun s => ⟨lower s, by simp [drvExt, lower, lowerChar]⟩,
   fun s => ⟨lower s, by simp [drvExt, lower, lowerChar]⟩, by decide,
   fun s h => List.mem_map.mpr ⟨':', h, by decide⟩⟩
example : WFText drvExt exLit := by
  refine ⟨Or.inr rfl, ?_, ?_, ?_⟩
  · intro t h; cases h; decide
  · intro u h; cases h
  · intro u h; cases h
example : TextStable drvExt false exLit := by simp [TextStable, exLit, newLex, wsNorm]
example : n3 drvExt exLit = some "\"\"\"a\"\\\\\n\\\"\"\"\"@en".toList := by decide
example : fromN3 drvExt false "\"\"\"a\"\\\\\n\\\"\"\"\"@en".toList = .term exLit := by decide
example : readTerm drvExt false ("\"\"\"a\"\\\\\n\\\"\"\"\"@en".toList ++ " ; <urn:q> 1 .".toList) =
    some (exLit, " ; <urn:q> 1 .".toList) := by decide
example : delimSafe " ; <urn:q> 1 .".toList = true ∧ delimSafe ".".toList = true ∧ delimSafe ".x".toList = false := by decide
example : GrammarOK (.node .bnode ['b', '.', '1']) :=
  ⟨'b', ['.', '1'], rfl, by decide, by decide, by decide⟩
def exTbl : List (Str × Str) := [(['e', 'x'], "http://e/".toList), (['x'], "urn:x:".toList)]
example : fromN3 { drvExt with nsm := some exTbl } false "\"1\"^^ex:dt".toList =
    .term (.lit ['1'] (some "http://e/dt".toList) none) := by decide
example : IriSpelling exTbl "http://e/dt".toList "ex:dt".toList :=
  Or.inr ⟨['e', 'x'], ['d', 't'], "http://e/".toList, rfl, ⟨⟨'e', ['x'], rfl, by decide⟩, by decide⟩, by decide, rfl,
    by decide, by decide⟩
/-- the canonical spellings pass the INF / NaN clause, the others do not -/
example : RespellNoop drvExt "INF".toList ∧ RespellNoop drvExt "-INF".toList ∧ RespellNoop drvExt "NaN".toList ∧
    RespellNoop drvExt "1.5".toList ∧ ¬ RespellNoop drvExt "inf".toList ∧ ¬ RespellNoop drvExt "Infinity".toList ∧
    ¬ RespellNoop drvExt "nan".toList := by
  decide +kernel
example : xsdDouble ∈ Tables.infNanTypes ∧ xsdDecimal ∈ Tables.infNanTypes := by decide
example : n3 drvExt (.lit "Infinity".toList (some xsdDecimal) none) = n3 drvExt (.lit "INF".toList (some xsdDecimal) none) := by
  decide +kernel
example : fromN3 drvExt false ((n3 drvExt (.lit "-INF".toList (some xsdDouble) none)).getD []) =
    .term (.lit "-INF".toList (some xsdDouble) none) := by decide +kernel
example : eqb (.lit ['a'] none (some ['e', 'n'])) (.lit ['a'] none (some ['E', 'N'])) = true := by decide
example : Reachable drvExt exLit :=
  .lit false ['a', '"', '\\', '\n', '"'] (some ['e', 'n']) none _ (by simp [mkLit, newLex, wsNorm, exLit]; decide)
example : (sortT (ltTerm strOracle) [.iri ['b'], .bnode ['z'], .var ['a'], .iri ['a']]) =
    [.bnode ['z'], .var ['a'], .iri ['a'], .iri ['b']] := by decide

end RV.C07
