import RV.C07.Props
open RV.C07
#print axioms eq_equiv
#print axioms eq_kind_disjoint
#print axioms lit_eq_iff
#print axioms hash_coherent
#print axioms kind_order
#print axioms nonlit_strict_total
#print axioms same_class_string_order
#print axioms sort_deterministic
#print axioms order_consistent_partial
#print axioms order_consistent_witness
#print axioms strOracle_sound
