import RV.C07.Props
open RV.C07
#print axioms eq_equiv
#print axioms eq_kind_disjoint
#print axioms lit_eq_iff
#print axioms hash_coherent
#print axioms kind_order
#print axioms nonlit_strict_total
#print axioms same_class_string_order
#print axioms sort_deterministic
#print axioms order_consistent_partial
#print axioms order_consistent_witness
#print axioms strOracle_sound
#print axioms escape_roundtrip
#print axioms n3_roundtrip_partial
#print axioms n3_roundtrip_any_lexical
#print axioms n3_roundtrip_witness
#print axioms n3_roundtrip_nsm
#print axioms n3_guard
#print axioms ws_idempotent
#print axioms reduce_rebuild
#print axioms constructed_text_stable
#print axioms old_reduce_renormalises
#print axioms table_ordering
#print axioms table_short_wf
#print axioms table_long_wf
#print axioms table_long_tails
#print axioms table_invalid_chars
