import RV.C07.Props
open RV.C07
#print axioms placeholder
