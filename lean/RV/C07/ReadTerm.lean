import RV.C07.Model
/-
  C07 — term-level reader of the Turtle / SPARQL grammars (reference semantics, DESIGN §1 "two kinds of model"):
  what the two parsers must read for ONE term and how much of the text they may consume.

    IRIREF            '<' ([^#x00-#x20<>"{}|^`\] | UCHAR)* '>'
    BLANK_NODE_LABEL  '_:' (PN_CHARS_U | [0-9]) ((PN_CHARS | '.')* PN_CHARS)?
    String            "…"  '…'  """…"""  '''…'''   with ECHAR and UCHAR
    LANGTAG           '@' [a-zA-Z]+ ('-' [a-zA-Z0-9]+)*
    datatype          '^^' IRIREF | '^^' PNAME_LN (prefix looked up in the manager's table `Ext.nsm`)
    shorthands        true | false | INTEGER | DECIMAL | DOUBLE

  `readTerm E nz s = some (t, rest)`: the longest term at the head of `s` and the unread rest.
  Literals are built by `mkLit` (`Literal.__new__`), as both parsers do.
-/
namespace RV.C07

def inR (c : Char) (lo hi : Nat) : Bool := decide (lo ≤ c.toNat ∧ c.toNat ≤ hi)

def isDigit (c : Char) : Bool := decide ('0' ≤ c ∧ c ≤ '9')

def pnCharsBase (c : Char) : Bool :=
  isAlpha c || inR c 0xC0 0xD6 || inR c 0xD8 0xF6 || inR c 0xF8 0x2FF || inR c 0x370 0x37D ||
  inR c 0x37F 0x1FFF || inR c 0x200C 0x200D || inR c 0x2070 0x218F || inR c 0x2C00 0x2FEF ||
  inR c 0x3001 0xD7FF || inR c 0xF900 0xFDCF || inR c 0xFDF0 0xFFFD || inR c 0x10000 0xEFFFF

def pnCharsU (c : Char) : Bool := pnCharsBase c || decide (c = '_')

def pnChars (c : Char) : Bool :=
  pnCharsU c || decide (c = '-') || isDigit c || inR c 0xB7 0xB7 || inR c 0x300 0x36F || inR c 0x203F 0x2040

/-- a character inside a label / local name: PN_CHARS or a dot (a trailing dot is given back) -/
def labelChar (c : Char) : Bool := pnChars c || decide (c = '.')

/-- `taken` was read greedily; dots at its end do not belong to the name: (name, dots ++ rest) -/
def giveBackDots (taken rest : Str) : Str × Str :=
  let kept := (taken.reverse.dropWhile (fun c => decide (c = '.'))).reverse
  (kept, List.replicate (taken.length - kept.length) '.' ++ rest)

/-- a character allowed raw in an IRIREF: not a C0 control or space, not one of `<>"{}|^`\` -/
def iriCharOk (c : Char) : Bool := decide (c.toNat > 0x20) && !Tables.invalidUriChars.contains c

/-- `n` hex digits as a code point (UCHAR after `\u` / `\U`) -/
def uhex (n : Nat) (r : Str) : Option (Char × Str) :=
  let h := r.take n
  if h.length = n ∧ h.all isHex ∧ (hexNum h).isValidChar then some (Char.ofNat (hexNum h), r.drop n) else none

/-- ECHAR or UCHAR, the backslash already consumed -/
def readEscape : Str → Option (Char × Str)
  | [] => none
  | k :: r =>
    match alookup k Tables.stringEscapeMap with
    | some c => some (c, r)
    | none => if k = 'u' then uhex 4 r else if k = 'U' then uhex 8 r else none

def consFst (c : Char) (p : Str × Str) : Str × Str := (c :: p.1, p.2)

/-- the inside of an IRIREF up to and including `>` (no ECHAR in IRIs, only UCHAR); fuel > length -/
def scanIri : Nat → Str → Option (Str × Str)
  | 0, _ => none
  | _, [] => none
  | n + 1, c :: r =>
    if c = '>' then some ([], r)
    else if c = '\\' then
      match r with
      | 'u' :: r' => match uhex 4 r' with
        | some (x, r'') => (scanIri n r'').map (consFst x)
        | none => none
      | 'U' :: r' => match uhex 8 r' with
        | some (x, r'') => (scanIri n r'').map (consFst x)
        | none => none
      | _ => none
    else if iriCharOk c then (scanIri n r).map (consFst c)
    else none

/-- STRING_LITERAL_QUOTE / SINGLE_QUOTE after the opening quote `q` -/
def scanShort (q : Char) : Nat → Str → Option (Str × Str)
  | 0, _ => none
  | _, [] => none
  | n + 1, c :: r =>
    if c = q then some ([], r)
    else if c = '\\' then
      match readEscape r with
      | some (x, r') => (scanShort q n r').map (consFst x)
      | none => none
    else if c = '\n' ∨ c = '\r' then none
    else (scanShort q n r).map (consFst c)

/-- STRING_LITERAL_LONG_QUOTE / LONG_SINGLE_QUOTE after the opening three quotes: the first `qqq` closes -/
def scanLong (q : Char) : Nat → Str → Option (Str × Str)
  | 0, _ => none
  | _, [] => none
  | n + 1, c :: r =>
    if c = q ∧ isPrefix [q, q] r = true then some ([], r.drop 2)
    else if c = '\\' then
      match readEscape r with
      | some (x, r') => (scanLong q n r').map (consFst x)
      | none => none
    else (scanLong q n r).map (consFst c)

/-- a quoted string at the head of `s`: (lexical form, rest) -/
def readQuoted (s : Str) : Option (Str × Str) :=
  match s with
  | q :: r =>
    if q = '"' ∨ q = '\'' then
      if isPrefix [q, q] r = true then scanLong q (r.length + 1) (r.drop 2)
      else scanShort q (r.length + 1) r
    else none
  | [] => none

/-- PNAME_LN at the head of `s` resolved with the manager's table: (IRI, rest) -/
def readPName (E : Ext) (s : Str) : Option (Str × Str) :=
  let p := s.takeWhile (fun c => labelChar c)
  match s.dropWhile (fun c => labelChar c) with
  | ':' :: r =>
    let run := r.takeWhile (fun c => labelChar c || decide (c = ':') || decide (c = '%'))
    let rest := r.dropWhile (fun c => labelChar c || decide (c = ':') || decide (c = '%'))
    let (loc, rest') := giveBackDots run rest
    match E.nsm with
    | some tbl => (dlookup p tbl).map (fun ns => (ns ++ loc, rest'))
    | none => none
  | _ => none

def okOpt : Except Err Term → Option Term
  | .ok t => some t
  | .error _ => none

/-- what follows the closing quote: `@lang`, `^^<iri>`, `^^pfx:local`, or nothing -/
def readLitSuffix (E : Ext) (nz : Bool) (lex rest : Str) : Option (Term × Str) :=
  match rest with
  | '@' :: r =>
    let tag := r.takeWhile (fun c => isAlnum c || decide (c = '-'))
    let rest' := r.dropWhile (fun c => isAlnum c || decide (c = '-'))
    if validLangTag tag then (okOpt (mkLit E nz lex (some tag) none)).map (fun t => (t, rest')) else none
  | '^' :: '^' :: '<' :: r =>
    match scanIri (r.length + 1) r with
    | some (d, rest') => (okOpt (mkLit E nz lex none (some d))).map (fun t => (t, rest'))
    | none => none
  | '^' :: '^' :: r =>
    match readPName E r with
    | some (d, rest') => (okOpt (mkLit E nz lex none (some d))).map (fun t => (t, rest'))
    | none => none
  | _ => (okOpt (mkLit E nz lex none none)).map (fun t => (t, rest))

def xsdT (name : String) : Str := "http://www.w3.org/2001/XMLSchema#".toList ++ name.toList

/-- INTEGER | DECIMAL | DOUBLE at the head of `s`: (lexical form, datatype, rest) -/
def readNumber (s : Str) : Option (Str × Str × Str) :=
  let (sign, s1) : Str × Str := match s with
    | '+' :: r => (['+'], r)
    | '-' :: r => (['-'], r)
    | _ => ([], s)
  let d1 := s1.takeWhile isDigit
  let s2 := s1.dropWhile isDigit
  -- a fraction only if a digit or an exponent follows the dot (a bare dot ends the statement)
  let (frac, s3) : Str × Str := match s2 with
    | '.' :: r =>
      let d2 := r.takeWhile isDigit
      let r2 := r.dropWhile isDigit
      let expFollows := match r2 with
        | 'e' :: _ => true
        | 'E' :: _ => true
        | _ => false
      if !d2.isEmpty || (expFollows && !d1.isEmpty) then ('.' :: d2, r2) else ([], s2)
    | _ => ([], s2)
  let (ex, s4) : Str × Str := match s3 with
    | e :: r =>
      if e = 'e' ∨ e = 'E' then
        let (sg, r1) : Str × Str := match r with
          | '+' :: r' => (['+'], r')
          | '-' :: r' => (['-'], r')
          | _ => ([], r)
        let d3 := r1.takeWhile isDigit
        if d3.isEmpty then ([], s3) else (e :: sg ++ d3, r1.dropWhile isDigit)
      else ([], s3)
    | [] => ([], s3)
  let lexical := sign ++ d1 ++ frac ++ ex
  if d1.isEmpty && frac.length ≤ 1 then none
  else if !ex.isEmpty then some (lexical, xsdT "double", s4)
  else if !frac.isEmpty then some (lexical, xsdT "decimal", s4)
  else some (lexical, xsdT "integer", s4)

/-- the term at the head of `s` and the unread rest -/
def readTerm (E : Ext) (nz : Bool) (s : Str) : Option (Term × Str) :=
  match s with
  | '<' :: r => (scanIri (r.length + 1) r).map (fun p => (.node .uri p.1, p.2))
  | '_' :: ':' :: c :: r =>
    if pnCharsU c || isDigit c then
      let (lab, rest) := giveBackDots (r.takeWhile labelChar) (r.dropWhile labelChar)
      some (.node .bnode (c :: lab), rest)
    else none
  | '"' :: _ =>
    match readQuoted s with
    | some (lex, rest) => readLitSuffix E nz lex rest
    | none => none
  | '\'' :: _ =>
    match readQuoted s with
    | some (lex, rest) => readLitSuffix E nz lex rest
    | none => none
  | _ =>
    let (word, wrest) := giveBackDots (s.takeWhile labelChar) (s.dropWhile labelChar)
    if (word = "true".toList ∨ word = "false".toList) ∧ wrest.head? ≠ some ':' then
      (okOpt (mkLit E nz word none (some Tables.xsdBoolean))).map (fun t => (t, wrest))
    else
      match readNumber s with
      | some (lex, dt, rest) => (okOpt (mkLit E nz lex none (some dt))).map (fun t => (t, rest))
      | none => (readPName E s).map (fun p => (.node .uri p.1, p.2))   -- a prefixed name as IRI

end RV.C07
