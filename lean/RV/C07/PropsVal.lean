import RV.C07.LemmasVal
import RV.C07.LemmasKey
/-
  C07, round g — property statements and theorems about the VALUE ordering of literals
  (`ValModel.lean`: `Literal.__gt__`, `eq`, `neq`, `__lt__`, `__le__`, `__ge__` and Python's operator protocol,
  with concrete values for str / bool / int / Decimal / float / datetime / date).
-/
namespace RV.C07

/-! ## `>` -/

/-- `>` between two literals is irreflexive and asymmetric, whatever their datatypes and values -/
def Statement_lit_gt_strict : Prop :=
  ∀ a b : VLit, pyGt a a = false ∧ (pyGt a b = true → pyGt b a = false)

theorem lit_gt_strict : Statement_lit_gt_strict :=
  fun a _ => ⟨litGtV_irrefl a, litGtV_asymm⟩

/-! ## `<`, `<=`, `>=`, `neq` against `>` and `eq` -/

/-- where `Literal.eq` answers, the six operators are consistent: `<` is "not `>` and not eq", `<=` is "`<` or eq",
    `>=` is "`>` or eq", `neq` is "not eq"; where it raises (two different lexical forms without a comparable value),
    `<` is the converse of `>` and `<=` / `>=` raise exactly for the pair ordered the other way -/
def Statement_lit_ops_consistent : Prop :=
  ∀ a b : VLit,
    (∀ e, litEqV a b = some e →
      pyLt a b = (!pyGt a b && !e) ∧ pyLe a b = some (pyLt a b || e) ∧ pyGe a b = some (pyGt a b || e) ∧
      litNeqV a b = some (!e)) ∧
    (litEqV a b = none → litEqV b a = none →
      pyLt a b = pyGt b a ∧ litNeqV a b = none ∧
      pyLe a b = (if pyGt a b then none else some true) ∧
      pyGe a b = (if pyGt a b then some true else if pyGt b a then none else some true))

theorem lit_ops_consistent : Statement_lit_ops_consistent := by
  intro a b
  refine ⟨?_, ?_⟩
  · intro e he
    simp only [pyLt, pyLe, pyGe, pyGt, litLtV, litLeV, litGeV, litNeqV, he]
    cases litGtV a b <;> cases e <;> simp [he]
  · intro he he'
    simp only [pyLt, pyLe, pyGe, pyGt, litLtV, litLeV, litGeV, litNeqV, he, he']
    rcases Bool.eq_false_or_eq_true (litGtV a b) with hab | hab
    · have hba := litGtV_asymm hab
      simp [hab, hba]
    · rcases Bool.eq_false_or_eq_true (litGtV b a) with hba | hba <;> simp [hab, hba]

/-! ## equal terms are never ordered (the clause of `order_consistent`, with concrete values) -/

/-- two literals that are `==`, carry the same value, and that value is not a NaN: neither `<` nor `>` holds,
    `eq`, `<=`, `>=` hold -/
def Statement_order_consistent_valued : Prop :=
  ∀ a b : VLit, eqb a.term b.term = true → a.val = b.val →
    pyLt a b = false ∧ pyGt a b = false ∧ litEqV a b = some true ∧ pyLe a b = some true ∧ pyGe a b = some true

/-- the hypothesis that excludes exactly the shape of finding C07-K3 -/
def NoNaN (a : VLit) : Prop := ∀ u, a.val = some u → u.key? ≠ none

theorem order_consistent_valued_partial (a b : VLit) (h : eqb a.term b.term = true) (hv : a.val = b.val)
    (hn : NoNaN a) :
    pyLt a b = false ∧ pyGt a b = false ∧ litEqV a b = some true ∧ pyLe a b = some true ∧ pyGe a b = some true := by
  simp only [VLit.term, eqb, decide_eq_true_eq] at h
  obtain ⟨hd, hl, hx⟩ := h
  have hc : a.cdt = b.cdt := by simp [VLit.cdt, hd]
  have hgen : gtGeneral a b = false := by
    simp only [gtGeneral, hc, hl, ne_eq, not_true_eq_false, if_false, gtTail, hx, hd]
    cases hb : b.val with
    | none => simp [hv, hb]
    | some u =>
      have hu : a.val = some u := hv.trans hb
      have hself : PyVal.eq u u = true := by
        have := hn u hu
        simp only [PyVal.eq]
        cases hk : u.key? with
        | none => exact absurd hk this
        | some k => simp
      simp only [hv, hb]
      cases usesCaster u u with
      | false =>
        simp only [Bool.false_eq_true, if_false, hself, if_true]
        cases hg : PyVal.gt u u with
        | none => rfl
        | some r => cases r with
          | false => rfl
          | true => exact absurd hg (PyVal.gt_self u)
      | true =>
        simp only [if_true, castGt]
        cases u.key? with
        | none => rfl
        | some k => exact VKey.lt_irrefl k
  have hgt : litGtV a b = false := by
    simp only [litGtV, hgen]
    cases hb : b.val with
    | none => simp [hv, hb]
    | some u =>
      simp only [hv, hb]
      cases hg : PyVal.gt u u with
      | none => simp
      | some r => cases r with
        | false => simp
        | true => exact absurd hg (PyVal.gt_self u)
  have heq : litEqV a b = some true := by
    have hself : ∀ u, b.val = some u → PyVal.eq u u = true := by
      intro u hu
      have := hn u (hv.trans hu)
      simp only [PyVal.eq]
      cases hk : u.key? with
      | none => exact absurd hk this
      | some k => simp
    simp only [litEqV, hl, ne_eq, not_true_eq_false, if_false, hc, and_self, hx, hd, hv]
    cases hb : b.val with
    | none => cases fastOK a b <;> simp
    | some u => cases fastOK a b <;> simp [hself u hb]
  have hops := (lit_ops_consistent a b).1 true heq
  simp only [pyGt, hgt] at hops
  exact ⟨by simpa using hops.1, hgt, heq, by simpa using hops.2.1, by simpa using hops.2.2.1⟩

def nanLit : VLit := ⟨['N', 'a', 'N'], some "http://www.w3.org/2001/XMLSchema#double".toList, none, some .nan, false⟩

/-- a literal whose value is a NaN is `<` itself (finding C07-K3) -/
theorem order_consistent_valued_witness : ¬ Statement_order_consistent_valued := by
  intro h
  have := (h nanLit nanLit (by decide) rfl).1
  revert this
  decide

/-! ## on a family the order of literals is a strict weak order by value -/

/-- `<` on literals is transitive — FALSE in general (finding C07-K4, `lit_order_transitive_witness`),
    true on every family (`lit_family_order`) -/
def Statement_lit_order_transitive : Prop :=
  ∀ a b c : VLit, pyLt a b = true → pyLt b c = true → pyLt a c = true

/-- on a family (well-typed numeric literals of any mixture of numeric datatypes; literals of one other datatype and
    language whose values are of one Python type; literals of one datatype without values): `<` is irreflexive and
    transitive, `>` is its converse, two members are unordered exactly when they are value-equal (`eq`), value-equality
    is transitive and compatible with `<`, and `==` members with the same value are value-equal -/
def Statement_lit_family_order : Prop :=
  ∀ (F : Fam) (a b c : VLit), F.mem a = true → F.mem b = true → F.mem c = true →
    pyLt a a = false ∧
    (pyLt a b = true → pyLt b c = true → pyLt a c = true) ∧
    pyGt a b = pyLt b a ∧
    ((pyLt a b = false ∧ pyLt b a = false) ↔ litEqV a b = some true) ∧
    (litEqV a b = some true → litEqV b c = some true → litEqV a c = some true) ∧
    (litEqV a b = some true → pyLt a c = pyLt b c ∧ pyLt c a = pyLt c b) ∧
    (eqb a.term b.term = true → a.val = b.val → litEqV a b = some true)

theorem lit_family_order : Statement_lit_family_order := by
  intro F a b c ha hb hc
  have ka := mem_keyOK ha
  have kb := mem_keyOK hb
  rw [fam_eq_iff F ha hb, fam_eq_iff F hb hc, fam_eq_iff F ha hc, fam_lt F ha ha, fam_lt F ha hb, fam_lt F hb hc,
    fam_lt F ha hc, fam_lt F hb ha, fam_lt F hc ha, fam_lt F hc hb, pyGt, (fam_gt_eq F ha hb).1]
  refine ⟨FKey.lt_irrefl _, FKey.lt_trans, rfl, ⟨fun h => FKey.lt_total F ka kb h.1 h.2, fun e => ?_⟩,
    fun e e' => e.trans e', fun e => by simp [e], fun he hv => ?_⟩
  · rw [e]; exact ⟨FKey.lt_irrefl _, FKey.lt_irrefl _⟩
  · simp only [VLit.term, eqb, decide_eq_true_eq] at he
    simp [VLit.fkey, VLit.key?, hv, he.2.2]

/-- `'' < '1'^^xsd:unsignedShort < '10'^^xsd:nonNegativeInteger < ''`: numeric literals go by value, the others by
    datatype IRI (finding C07-K4) -/
def k4a : VLit := ⟨[], none, none, some (.str []), false⟩
def k4b : VLit := ⟨['1'], some "http://www.w3.org/2001/XMLSchema#unsignedShort".toList, none, some (.num 1), false⟩
def k4c : VLit := ⟨['1', '0'], some "http://www.w3.org/2001/XMLSchema#nonNegativeInteger".toList, none, some (.num 10), false⟩

theorem lit_order_transitive_witness : ¬ Statement_lit_order_transitive := by
  intro h
  have h1 : pyLt k4a k4b = true := by decide
  have h2 : pyLt k4b k4c = true := by decide
  have h3 : pyLt k4c k4a = true := by decide
  have h4 : pyLt k4a k4a = false := by decide
  rw [h k4a k4c k4a (h k4a k4b k4c h1 h2) h3] at h4
  cases h4

/-- the same inside ONE datatype when a member has no value: `9 < 10` by value, `'10' < '5x' < '9'` as strings -/
def k4d : VLit := ⟨['9'], some "http://www.w3.org/2001/XMLSchema#integer".toList, none, some (.num 9), false⟩
def k4e : VLit := ⟨['1', '0'], some "http://www.w3.org/2001/XMLSchema#integer".toList, none, some (.num 10), false⟩
def k4f : VLit := ⟨['5', 'x'], some "http://www.w3.org/2001/XMLSchema#integer".toList, none, none, true⟩

theorem lit_order_illtyped_cycle :
    pyLt k4d k4e = true ∧ pyLt k4e k4f = true ∧ pyLt k4f k4d = true := by decide

/-! ## between classes: datatype IRI, then language tag -/

/-- outside the numeric fast path, literals of different datatypes (plain = xsd:string) order as their datatype IRIs, and
    literals of one datatype with different language tags (up to case) order untagged first, then as the lower-cased tags;
    `<` is the converse of `>` there -/
def Statement_lit_class_order : Prop :=
  ∀ a b : VLit, fastOK a b = false →
    (a.cdt ≠ b.cdt → pyGt a b = strLt b.cdt a.cdt ∧ pyLt a b = strLt a.cdt b.cdt) ∧
    (a.cdt = b.cdt → langKey a.lang ≠ langKey b.lang →
      pyGt a b = optStrGt (langKey a.lang) (langKey b.lang) ∧ pyLt a b = optStrGt (langKey b.lang) (langKey a.lang))

theorem lit_class_order : Statement_lit_class_order := by
  intro a b hf
  have hf' : fastOK b a = false := by rw [fastOK_symm]; exact hf
  refine ⟨fun hc => ?_, fun hc hl => ?_⟩
  · have hc' : ¬ b.cdt = a.cdt := fun e => hc e.symm
    have hg : litGtV a b = strLt b.cdt a.cdt := by simp [litGtV, hf, gtGeneral, hc]
    have he : litEqV a b = some false := by
      simp only [litEqV, hf]
      by_cases hl : langKey a.lang = langKey b.lang
      · have : ¬ (a.cdt = Tables.xsdString ∧ b.cdt = Tables.xsdString) := fun h => hc (h.1.trans h.2.symm)
        simp [hl, this, hc]
      · simp [hl]
    refine ⟨hg, ?_⟩
    simp only [pyLt, litLtV, hg, he]
    cases h1 : strLt b.cdt a.cdt with
    | true => simp [strLt_asymm h1]
    | false =>
      rcases strLt_connected hc with h | h
      · simp [h]
      · rw [h1] at h; cases h
  · have hl' : ¬ langKey b.lang = langKey a.lang := fun e => hl e.symm
    have hg : litGtV a b = optStrGt (langKey a.lang) (langKey b.lang) := by simp [litGtV, hf, gtGeneral, hc, hl]
    have he : litEqV a b = some false := by simp [litEqV, hf, hl]
    refine ⟨hg, ?_⟩
    simp only [pyLt, litLtV, hg, he]
    cases h1 : optStrGt (langKey a.lang) (langKey b.lang) with
    | true => simp [optStrGt_asymm h1]
    | false =>
      simp only [Bool.false_eq_true, if_false, Option.map_some, Bool.not_false]
      revert h1 hl
      cases langKey a.lang <;> cases langKey b.lang <;> simp [optStrGt]
      rename_i x y
      intro hxy h1
      rcases strLt_connected hxy with h | h
      · exact h
      · rw [h1] at h; cases h

/-! ## durations: values without an order -/

/-- two literals of one datatype `d` (not numeric, not xsd:string) and language whose values are durations, at least one an
    `rdflib.xsd_datetime.Duration` (Python defines no order for it): value-equal ones are not ordered at all, the others
    order as their lexical forms -/
def Statement_lit_duration_order : Prop :=
  ∀ (a b : VLit) (d : Str) (u v : PyVal), a.dt = some d → b.dt = some d → d ≠ Tables.xsdString →
    Tables.numericTypes.contains d = false → langKey a.lang = langKey b.lang →
    a.val = some u → b.val = some v → u.cls = 6 → v.cls = 6 → (u.noOrder || v.noOrder) = true →
    litEqV a b = some (PyVal.eq u v) ∧
    pyGt a b = (!PyVal.eq u v && strLt b.lex a.lex) ∧
    pyLt a b = (!PyVal.eq u v && !strLt b.lex a.lex)

theorem lit_duration_order : Statement_lit_duration_order := by
  intro a b d u v hda hdb hds hdn hl hva hvb hcu hcv hno
  have hna : isNumericDt a.dt = false := by rw [hda]; simpa [isNumericDt] using hdn
  have hf : fastOK a b = false := by simp [fastOK, hna]
  have hca : a.cdt = d := by simp [VLit.cdt, hda]
  have hcb : b.cdt = d := by simp [VLit.cdt, hdb]
  have huc : usesCaster u v = false := by simp [usesCaster, hcu]
  have hgt0 : PyVal.gt u v = none := by simp [PyVal.gt, hcu, hcv, hno]
  have he : litEqV a b = some (PyVal.eq u v) := by
    simp [litEqV, hf, hl, hca, hcb, hds, hva, hvb]
  have hg : litGtV a b = (!PyVal.eq u v && strLt b.lex a.lex) := by
    simp only [litGtV, hf, Bool.false_eq_true, if_false, gtGeneral, hca, hcb, hl, ne_eq, not_true_eq_false, hva, hvb, huc,
      hgt0, gtTail, hda, hdb]
    cases PyVal.eq u v <;> by_cases e : a.lex = b.lex <;> simp [e, strLt_irrefl]
  refine ⟨he, hg, ?_⟩
  simp only [pyLt, litLtV, hg, he]
  cases PyVal.eq u v <;> cases strLt b.lex a.lex <;> simp

/-- so `<` is not transitive inside xsd:yearMonthDuration: `P12M < P13M < P1Y` as strings, `P12M` and `P1Y` value-equal -/
def durLit (x : String) (m : Int) : VLit :=
  ⟨x.toList, some "http://www.w3.org/2001/XMLSchema#yearMonthDuration".toList, none, some (.dur m 0 true), false⟩

theorem lit_duration_not_transitive :
    pyLt (durLit "P12M" 12) (durLit "P13M" 13) = true ∧ pyLt (durLit "P13M" 13) (durLit "P1Y" 12) = true ∧
    pyLt (durLit "P12M" 12) (durLit "P1Y" 12) = false ∧ pyGt (durLit "P1Y" 12) (durLit "P12M" 12) = false ∧
    litEqV (durLit "P12M" 12) (durLit "P1Y" 12) = some true := by decide

/-! ## `sorted()` on a family -/

/-- sorting the members of a family with `<`: the result is an increasing rearrangement; two input orders give
    results that are value-equal position by position; and `==` position by position when value-equal members of
    the collection are `==` (the harness's "strictly comparable" pre-condition) -/
def Statement_lit_sort_unique : Prop :=
  ∀ (F : Fam) (l l' : List VLit), (∀ a ∈ l, F.mem a = true) → l.Perm l' →
    (sortV l).Perm l ∧
    List.Pairwise (fun a b => pyLt b a = false) (sortV l) ∧
    Pointwise (fun a b => litEqV a b = some true) (sortV l) (sortV l') ∧
    ((∀ a ∈ l, ∀ b ∈ l, litEqV a b = some true → eqb a.term b.term = true) →
      Pointwise (fun a b => eqb a.term b.term = true) (sortV l) (sortV l'))

theorem lit_sort_unique : Statement_lit_sort_unique := by
  intro F l l' hl hp
  have p1 : (sortV l).Perm l := perm_sortG _ _
  have p2 : (sortV l').Perm l' := perm_sortG _ _
  have m1 : ∀ a ∈ sortV l, F.mem a = true := fun a ha => hl a (p1.mem_iff.mp ha)
  have m2 : ∀ a ∈ sortV l', F.mem a = true := fun a ha => hl a (hp.mem_iff.mpr (p2.mem_iff.mp ha))
  obtain ⟨hk, hs⟩ := fam_sort_keys F hl hp
  have hv : Pointwise (fun a b => litEqV a b = some true) (sortV l) (sortV l') :=
    forall₂_imp_mem (forall₂_of_map_eq VLit.fkey hk)
      (fun a ha b hb e => (fam_eq_iff F (m1 a ha) (m2 b hb)).mpr e)
  refine ⟨p1, pairwise_of_ksorted F m1 hs, hv, fun H => ?_⟩
  exact forall₂_imp_mem hv (fun a ha b hb e =>
    H a (p1.mem_iff.mp ha) b (hp.mem_iff.mpr (p2.mem_iff.mp hb)) e)

/-! ## `sorted()` of a mixed collection -/

/-- a mixed collection — IRIs, blank nodes, variables, and literals of one family — sorts reproducibly: the result is an
    increasing rearrangement, and two input orders give, position by position, the same non-literal term or value-equal
    literals -/
def Statement_mixed_sort_unique : Prop :=
  ∀ (F : Fam) (l l' : List VTerm), LitsIn F l → l.Perm l' →
    (sortVT l).Perm l ∧
    List.Pairwise (fun x y => vtLt y x = false) (sortVT l) ∧
    Pointwise vtValueEq (sortVT l) (sortVT l')

theorem mixed_sort_unique : Statement_mixed_sort_unique := by
  intro F l l' hl hp
  have p1 : (sortVT l).Perm l := perm_sortG _ _
  have p2 : (sortVT l').Perm l' := perm_sortG _ _
  have hm : ∀ x ∈ l, ∀ a, x = .lit a → F.mem a = true := fun x hx a e => hl a (e ▸ hx)
  have hlt : ∀ x ∈ l, ∀ y ∈ l, vtLt x y = (tOrder F).lt x.tkey y.tkey :=
    fun x hx y hy => vtLt_key F (hm x hx) (hm y hy)
  have hok : ∀ x ∈ l, (tOrder F).ok x.tkey := fun x hx => tkey_ok F (hm x hx)
  obtain ⟨hk, hs⟩ := (tOrder F).sort_keys vtLt VTerm.tkey hlt hok hp
  have hlt1 : ∀ x ∈ sortVT l, ∀ y ∈ sortVT l, vtLt x y = (tOrder F).lt x.tkey y.tkey :=
    fun x hx y hy => hlt x (p1.mem_iff.mp hx) y (p1.mem_iff.mp hy)
  refine ⟨p1, (tOrder F).pairwise_of_sorted vtLt VTerm.tkey hlt1 hs, ?_⟩
  exact forall₂_imp_mem (forall₂_of_map_eq VTerm.tkey hk) (fun x hx y hy e =>
    vtValueEq_of_tkey F (hm x (p1.mem_iff.mp hx)) (hm y (hp.mem_iff.mpr (p2.mem_iff.mp hy))) e)

/-! ## regenerated tables -/

/-- `datetime` has a total-order caster that keys a value by (aware?, value) — probed on the live table -/
theorem table_casters : Tables.castsDatetime = true ∧ Tables.casterAwareFlag = (false, true) ∧
    Tables.castsTime = true ∧ Tables.casterAwareFlagTime = (false, true) := by decide

/-! ## non-vacuity -/

def xsd (n : String) : Str := ("http://www.w3.org/2001/XMLSchema#" ++ n).toList

def exInt : VLit := ⟨['7'], some (xsd "integer"), none, some (.num 7), false⟩
def exDbl : VLit := ⟨"7.5".toList, some (xsd "double"), none, some (.num (15 / 2)), false⟩
def exDec : VLit := ⟨"7.0".toList, some (xsd "decimal"), none, some (.num 7), false⟩
def exNaive : VLit := ⟨"2001-10-26T21:32:52".toList, some (xsd "dateTime"), none, some (.dtm 63139815172000000 none), false⟩
def exAware : VLit := ⟨"2001-10-26T21:32:52Z".toList, some (xsd "dateTime"), none, some (.dtm 63139815172000000 (some 0)), false⟩
def exAware2 : VLit := ⟨"2001-10-26T23:32:52+02:00".toList, some (xsd "dateTime"), none,
  some (.dtm 63139822372000000 (some 7200000000)), false⟩

example : Fam.numeric.mem exInt = true ∧ Fam.numeric.mem exDbl = true ∧ Fam.numeric.mem exDec = true := by decide
example : pyLt exInt exDbl = true ∧ pyLt exInt exDec = false ∧ pyLt exDec exInt = false ∧ litEqV exInt exDec = some true ∧
    eqb exInt.term exDec.term = false := by decide +kernel
example : (Fam.valued (xsd "dateTime") none 2).mem exNaive = true ∧ (Fam.valued (xsd "dateTime") none 2).mem exAware = true ∧
    (Fam.valued (xsd "dateTime") none 2).mem exAware2 = true := by decide
example : pyLt exNaive exAware = true ∧ litEqV exAware exAware2 = some true ∧ pyLe exAware exAware2 = some true := by decide
example : (Fam.lexical (xsd "integer") none).mem k4f = true := by decide
example : NoNaN exInt := by intro u h; cases h; decide
example : sortV [exDbl, exDec, exInt] = [exDec, exInt, exDbl] ∧ sortV [exInt, exDbl, exDec] = [exInt, exDec, exDbl] := by decide +kernel
example : LitsIn Fam.numeric [.lit exDbl, .node .uri ['b'], .lit exInt, .node .bnode ['z'], .node .uri ['a']] := by
  intro a h
  simp only [List.mem_cons, VTerm.lit.injEq, reduceCtorEq, List.not_mem_nil, or_false, false_or] at h
  rcases h with h | h <;> subst h <;> decide
example : sortVT [.lit exDbl, .node .uri ['b'], .lit exInt, .node .bnode ['z'], .node .uri ['a']] =
    [.node .bnode ['z'], .node .uri ['a'], .node .uri ['b'], .lit exInt, .lit exDbl] := by decide +kernel
def exT1 : VLit := ⟨"21:32:52".toList, some (xsd "time"), none, some (.tim 77572000000 none), false⟩
def exT2 : VLit := ⟨"21:32:52Z".toList, some (xsd "time"), none, some (.tim 77572000000 (some 0)), false⟩
def exT3 : VLit := ⟨"23:32:52+02:00".toList, some (xsd "time"), none, some (.tim 84772000000 (some 7200000000)), false⟩
example : (Fam.valued (xsd "time") none 5).mem exT1 = true ∧ (Fam.valued (xsd "time") none 5).mem exT3 = true := by decide
example : pyLt exT1 exT2 = true ∧ litEqV exT2 exT3 = some true ∧ pyLt exT2 exT3 = false := by decide
def exB1 : VLit := ⟨"0FB7".toList, some (xsd "hexBinary"), none, some (.bytes [Char.ofNat 15, Char.ofNat 183]), false⟩
def exB2 : VLit := ⟨"0fb8".toList, some (xsd "hexBinary"), none, some (.bytes [Char.ofNat 15, Char.ofNat 184]), false⟩
example : (Fam.valued (xsd "hexBinary") none 4).mem exB1 = true ∧ pyLt exB1 exB2 = true := by decide
def exD1 : VLit := ⟨"P1D".toList, some (xsd "dayTimeDuration"), none, some (.dur 0 86400000000 false), false⟩
def exD2 : VLit := ⟨"PT24H".toList, some (xsd "dayTimeDuration"), none, some (.dur 0 86400000000 false), false⟩
def exD3 : VLit := ⟨"PT25H".toList, some (xsd "dayTimeDuration"), none, some (.dur 0 90000000000 false), false⟩
example : (Fam.valued (xsd "dayTimeDuration") none 6).mem exD1 = true ∧ litEqV exD1 exD2 = some true ∧ pyLt exD2 exD3 = true ∧
    (Fam.valued (xsd "yearMonthDuration") none 6).mem (durLit "P1Y" 12) = false := by decide
/-- `<=` raises for two ill-typed forms ordered the other way (what `lit_ops_consistent` says) -/
example : pyLe k4f ⟨['5'], some (xsd "integer"), none, none, true⟩ = none := by decide

end RV.C07
