import RV.C07.Model
import RV.C07.ReadTerm
import RV.C07.ValModel
import RV.Base.Proto
/-
  C07 driver (stateless).  Strings cross the protocol as comma-separated decimal code points,
  `e` = empty string, `-` = None.  A term is
      I|G|R|B|V <str>            URIRef | Genid | RDFLibGenid | BNode | Variable
      L <lex> <dt|-> <lang|->    Literal
  Lines:
    cmp <cov> T1 T2   -> eq=<b> ne=<b> heq=<1|-> lt=<b|?> gt=<b|?>     (`?` when cov = 0: the pair is two
                         literals whose comparison reaches a typed Python value — not modelled)
    n3 T              -> code points of the model's n3() text | error
    rd <norm> <text>  -> the term the model's from_n3 reads | dflt | unmodelled | error:<e>
    rdq <norm> <text> p1 ns1 … pk nsk  -> the same with `nsm` = the namespace manager whose bindings are the pairs
    rdt <norm> <text> p1 ns1 … -> `<term> | <rest>` read by the grammar-level reader `readTerm` (prefix table as for rdq) | none
    rt T              -> rebuild (reduce T)  as a term | error:<e>
    mk <norm> <lex> <lang|-> <dt|->  -> Literal.__new__ | error:<e>
    sort T1 … Tn      -> the terms sorted with `<` (insertion sort), separated by ` ; `
    vcmp A B          -> gt=<b> lt=<b> le=<b|!> ge=<b|!> eq=<b|!> ne=<b|!>   the six operators on two literals WITH values
                         (`!` = raises TypeError); a valued literal A is  <lex> <dt|-> <lang|-> <val> <ill 0|1>  with
                         <val> = - (None) | s:<str> | b:<0|1> | n:<num>/<den> | pinf | ninf | nan | t:<wall µs>/<offset µs|-> | d:<ordinal>
                                 | y:<bytes> | T:<µs of day>/<offset µs|-> (time) | D:<months>/<µs>/<0 timedelta|1 Duration>
    vsort A1 … An     -> the literals sorted with `<`, each printed as a term, separated by ` ; `
    msort X1 … Xn     -> a MIXED list sorted with `<`; X = a non-literal term (I|G|R|B|V <str>) or `W` + a valued literal
-/
open RV RV.C07 RV.Proto

def str? (w : String) : Option Str :=
  if w = "e" then some []
  else (w.splitOn ",").mapM (fun x => do
    let n ← x.toNat?
    if n.isValidChar then some (Char.ofNat n) else none)

def ostr? (w : String) : Option (Option Str) :=
  if w = "-" then some none else (str? w).map some

def showStr (s : Str) : String :=
  if s.isEmpty then "e" else ",".intercalate (s.map (fun c => toString c.toNat))

def showOStr : Option Str → String
  | none => "-"
  | some s => showStr s

def clsTag : NCls → String
  | .uri => "I" | .genid => "G" | .rgenid => "R" | .bnode => "B" | .var => "V"

def cls? (w : String) : Option NCls :=
  if w = "I" then some .uri else if w = "G" then some .genid else if w = "R" then some .rgenid
  else if w = "B" then some .bnode else if w = "V" then some .var else none

def showTerm : Term → String
  | .node c s => clsTag c ++ " " ++ showStr s
  | .lit x d l => "L " ++ showStr x ++ " " ++ showOStr d ++ " " ++ showOStr l

def term? : List String → Option (Term × List String)
  | "L" :: x :: d :: l :: rest => do
    let x ← str? x; let d ← ostr? d; let l ← ostr? l
    pure (.lit x d l, rest)
  | c :: s :: rest => do
    let c ← cls? c; let s ← str? s
    pure (.node c s, rest)
  | _ => none

partial def terms? (ws : List String) : Option (List Term) :=
  match ws with
  | [] => some []
  | _ => do
    let (t, rest) ← term? ws
    let ts ← terms? rest
    pure (t :: ts)

def pairs? : List String → Option (List (Str × Str))
  | [] => some []
  | a :: b :: rest => do
    let a ← str? a; let b ← str? b
    let r ← pairs? rest
    pure ((a, b) :: r)
  | _ => none

def val? (w : String) : Option (Option PyVal) :=
  if w = "-" then some none
  else if w = "pinf" then some (some .pinf)
  else if w = "ninf" then some (some .ninf)
  else if w = "nan" then some (some .nan)
  else
    match w.splitOn ":" with
    | ["s", x] => (str? x).map (fun s => some (.str s))
    | ["b", x] => if x = "1" then some (some (.bool true)) else if x = "0" then some (some (.bool false)) else none
    | ["n", x] =>
      match x.splitOn "/" with
      | [p, q] => do
        let p ← p.toInt?; let q ← q.toNat?
        if q = 0 then none else pure (some (.num (mkRat p q)))
      | _ => none
    | ["t", x] =>
      match x.splitOn "/" with
      | [p, q] => do
        let p ← p.toInt?
        if q = "-" then pure (some (.dtm p none)) else do
          let q ← q.toInt?
          pure (some (.dtm p (some q)))
      | _ => none
    | ["d", x] => x.toInt?.map (fun n => some (.date n))
    | ["y", x] => (str? x).map (fun s => some (.bytes s))
    | ["T", x] =>
      match x.splitOn "/" with
      | [p, q] => do
        let p ← p.toInt?
        if q = "-" then pure (some (.tim p none)) else do
          let q ← q.toInt?
          pure (some (.tim p (some q)))
      | _ => none
    | ["D", x] =>
      match x.splitOn "/" with
      | [m, u, k] => do
        let m ← m.toInt?; let u ← u.toInt?
        if k = "0" ∨ k = "1" then pure (some (.dur m u (k = "1"))) else none
      | _ => none
    | _ => none

def vlit? : List String → Option (VLit × List String)
  | x :: d :: l :: v :: i :: rest => do
    let x ← str? x; let d ← ostr? d; let l ← ostr? l; let v ← val? v
    if i = "0" ∨ i = "1" then pure (⟨x, d, l, v, i = "1"⟩, rest) else none
  | _ => none

partial def vlits? (ws : List String) : Option (List VLit) :=
  match ws with
  | [] => some []
  | _ => do
    let (t, rest) ← vlit? ws
    let ts ← vlits? rest
    pure (t :: ts)

partial def vterms? (ws : List String) : Option (List VTerm) :=
  match ws with
  | [] => some []
  | "W" :: rest => do
    let (a, rest') ← vlit? rest
    let ts ← vterms? rest'
    pure (.lit a :: ts)
  | c :: x :: rest => do
    let c ← cls? c; let x ← str? x
    let ts ← vterms? rest
    pure (.node c x :: ts)
  | _ => none

def b01 (b : Bool) : String := if b then "1" else "0"

def showErr : Err → String
  | .typeError => "error:TypeError" | .valueError => "error:ValueError" | .other => "error:Other"

/-- a concrete injective stand-in for `str.__hash__` (only hash *equality* is ever printed) -/
def toyHash (s : Str) : Int := Int.ofNat (s.foldl (fun n c => n * 1114112 + c.toNat + 1) 0)
def toyXor (a b : Int) : Int := Int.ofNat (a.toNat ^^^ b.toNat)

def showRd : Rd → String
  | .term t => showTerm t
  | .dflt => "dflt"
  | .unmodelled => "unmodelled"
  | .error e => showErr e

def step (s : Unit) : List String → Unit × String
  | "cmp" :: cov :: rest =>
    match term? rest with
    | some (a, rest') =>
      match term? rest' with
      | some (b, []) =>
        let e := eqb a b
        let heq := if e then (if hash toyHash toyXor a = hash toyHash toyXor b then "1" else "0") else "-"
        let lt := if cov = "1" then b01 (ltTerm strOracle a b) else "?"
        let gt := if cov = "1" then b01 (gtTerm strOracle a b) else "?"
        (s, s!"eq={b01 e} ne={b01 (neb a b)} heq={heq} lt={lt} gt={gt}")
      | _ => (s, "bad-op")
    | none => (s, "bad-op")
  | "n3" :: rest =>
    match term? rest with
    | some (t, []) =>
      match n3 drvExt t with
      | some txt => (s, showStr txt)
      | none => (s, "error")
    | _ => (s, "bad-op")
  | ["rd", nz, txt] =>
    match str? txt with
    | some t => (s, showRd (fromN3 drvExt (nz = "1") t))
    | none => (s, "bad-op")
  | "rdq" :: nz :: txt :: rest =>
    match str? txt, pairs? rest with
    | some t, some tbl => (s, showRd (fromN3 { drvExt with nsm := some tbl } (nz = "1") t))
    | _, _ => (s, "bad-op")
  | "rdt" :: nz :: txt :: rest =>
    match str? txt, pairs? rest with
    | some t, some tbl =>
      match readTerm { drvExt with nsm := some tbl } (nz = "1") t with
      | some (tm, r) => (s, showTerm tm ++ " | " ++ showStr r)
      | none => (s, "none")
    | _, _ => (s, "bad-op")
  | "rt" :: rest =>
    match term? rest with
    | some (t, []) =>
      match rebuild drvExt (reduce t) with
      | .ok t' => (s, showTerm t')
      | .error e => (s, showErr e)
    | _ => (s, "bad-op")
  | ["mk", nz, x, l, d] =>
    match str? x, ostr? l, ostr? d with
    | some x, some l, some d =>
      match mkLit drvExt (nz = "1") x l d with
      | .ok t => (s, showTerm t)
      | .error e => (s, showErr e)
    | _, _, _ => (s, "bad-op")
  | "sort" :: rest =>
    match terms? rest with
    | some ts => (s, " ; ".intercalate ((sortT (ltTerm strOracle) ts).map showTerm))
    | none => (s, "bad-op")
  | "vcmp" :: rest =>
    match vlit? rest with
    | some (a, rest') =>
      match vlit? rest' with
      | some (b, []) =>
        let o := fun (r : Option Bool) => match r with | some r => b01 r | none => "!"
        (s, s!"gt={b01 (pyGt a b)} lt={b01 (pyLt a b)} le={o (pyLe a b)} ge={o (pyGe a b)} eq={o (litEqV a b)} ne={o (litNeqV a b)}")
      | _ => (s, "bad-op")
    | none => (s, "bad-op")
  | "vsort" :: rest =>
    match vlits? rest with
    | some ts => (s, " ; ".intercalate ((sortV ts).map (fun a => showTerm a.term)))
    | none => (s, "bad-op")
  | "msort" :: rest =>
    match vterms? rest with
    | some ts => (s, " ; ".intercalate ((sortVT ts).map (fun x => showTerm x.term)))
    | none => (s, "bad-op")
  | _ => (s, "bad-op")

def main : IO Unit := RV.Proto.run step ()
