import RV.C07.Model
/-
  C07 helper lemmas, part 1: string order, term equality, node ordering, sorting.
-/
namespace RV.C07

/-! ### code-point order on strings -/

theorem char_lt_or_gt_of_ne {a b : Char} (h : a ≠ b) : a < b ∨ b < a := by
  rcases Nat.lt_trichotomy a.val.toNat b.val.toNat with h1 | h1 | h1
  · left; rw [Char.lt_def]; exact UInt32.lt_iff_toNat_lt.mpr h1
  · exfalso; apply h; apply Char.ext; exact UInt32.toNat_inj.mp h1
  · right; rw [Char.lt_def]; exact UInt32.lt_iff_toNat_lt.mpr h1

@[simp] theorem strLt_nil_nil : strLt [] [] = false := rfl
@[simp] theorem strLt_nil_cons (b : Char) (bs : Str) : strLt [] (b :: bs) = true := rfl
@[simp] theorem strLt_cons_nil (a : Char) (as : Str) : strLt (a :: as) [] = false := rfl
theorem strLt_cons_cons (a b : Char) (as bs : Str) :
    strLt (a :: as) (b :: bs) = (decide (a < b) || (decide (a = b) && strLt as bs)) := rfl

theorem strLt_irrefl : ∀ s : Str, strLt s s = false
  | [] => rfl
  | a :: as => by
    simp [strLt_cons_cons, Char.lt_irrefl, strLt_irrefl as]

theorem strLt_trans : ∀ {a b c : Str}, strLt a b = true → strLt b c = true → strLt a c = true
  | [], [], _, h, _ => by simp at h
  | [], _ :: _, [], _, h => by simp at h
  | [], _ :: _, _ :: _, _, _ => rfl
  | _ :: _, [], _, h, _ => by simp at h
  | _ :: _, _ :: _, [], _, h => by simp at h
  | x :: xs, y :: ys, z :: zs, h1, h2 => by
    simp only [strLt_cons_cons, Bool.or_eq_true, Bool.and_eq_true, decide_eq_true_eq] at h1 h2 ⊢
    rcases h1 with h1 | ⟨e1, h1⟩
    · rcases h2 with h2 | ⟨e2, _⟩
      · exact Or.inl (Char.lt_trans h1 h2)
      · exact Or.inl (e2 ▸ h1)
    · rcases h2 with h2 | ⟨e2, h2⟩
      · exact Or.inl (e1 ▸ h2)
      · exact Or.inr ⟨e1.trans e2, strLt_trans h1 h2⟩

theorem strLt_asymm {a b : Str} (h : strLt a b = true) : strLt b a = false := by
  cases h' : strLt b a with
  | false => rfl
  | true => have := strLt_trans h h'; rw [strLt_irrefl] at this; cases this

theorem strLt_connected : ∀ {a b : Str}, a ≠ b → strLt a b = true ∨ strLt b a = true
  | [], [], h => absurd rfl h
  | [], _ :: _, _ => Or.inl rfl
  | _ :: _, [], _ => Or.inr rfl
  | x :: xs, y :: ys, h => by
    simp only [strLt_cons_cons, Bool.or_eq_true, Bool.and_eq_true, decide_eq_true_eq]
    by_cases e : x = y
    · subst e
      have : xs ≠ ys := fun e' => h (by rw [e'])
      rcases strLt_connected this with h' | h'
      · exact Or.inl (Or.inr ⟨rfl, h'⟩)
      · exact Or.inr (Or.inr ⟨rfl, h'⟩)
    · rcases char_lt_or_gt_of_ne e with h' | h'
      · exact Or.inl (Or.inl h')
      · exact Or.inr (Or.inl h')

/-! ### characters -/

theorem toNat_ofNat_valid (n : Nat) (hv : n.isValidChar) : (Char.ofNat n).toNat = n := by
  unfold Char.ofNat
  rw [dif_pos hv]
  unfold Char.ofNatAux Char.toNat
  simp

theorem char_le_iff (a b : Char) : a ≤ b ↔ a.toNat ≤ b.toNat := by
  rw [Char.le_def, UInt32.le_iff_toNat_le]; rfl

theorem lowerChar_idem (c : Char) : lowerChar (lowerChar c) = lowerChar c := by
  unfold lowerChar
  split
  · next h =>
    rw [char_le_iff, char_le_iff] at h
    have hA : ('A' : Char).toNat = 65 := by decide
    have hZ : ('Z' : Char).toNat = 90 := by decide
    have hv : (c.toNat + 32).isValidChar := by left; omega
    have e := toNat_ofNat_valid _ hv
    rw [if_neg]
    rw [char_le_iff, char_le_iff, e]
    omega
  · rfl

/-! ### equality -/

theorem eqb_refl (a : Term) : eqb a a = true := by
  cases a <;> simp [eqb]

theorem eqb_symm (a b : Term) : eqb a b = eqb b a := by
  cases a <;> cases b <;> simp only [eqb, decide_eq_decide] <;>
    constructor <;> (intro h; obtain ⟨h1, h2⟩ := h; first | exact ⟨h1.symm, h2.symm⟩ | exact ⟨h1.symm, h2.1.symm, h2.2.symm⟩)

theorem eqb_trans {a b c : Term} (h1 : eqb a b = true) (h2 : eqb b c = true) : eqb a c = true := by
  cases a <;> cases b <;> cases c <;> simp only [eqb, decide_eq_true_eq, Bool.false_eq_true] at h1 h2 ⊢
  · exact ⟨h1.1.trans h2.1, h1.2.trans h2.2⟩
  · exact ⟨h1.1.trans h2.1, h1.2.1.trans h2.2.1, h1.2.2.trans h2.2.2⟩

theorem eqb_node_iff (c c' : NCls) (s s' : Str) :
    eqb (.node c s) (.node c' s') = true ↔ Term.node c s = Term.node c' s' := by
  simp [eqb]

/-! ### ordering of non-literal terms -/

/-- a non-literal term -/
def Term.isNode : Term → Bool
  | .node _ _ => true
  | .lit _ _ _ => false

theorem rank_injective : ∀ c c' : NCls, rank c = rank c' → c = c' := by
  intro c c'
  cases c <;> cases c' <;> first | (intro _; rfl) | (intro h; revert h; decide)

theorem lt_node_irrefl (V : ValOracle) (c : NCls) (s : Str) : ltTerm V (.node c s) (.node c s) = false := by
  simp [ltTerm, strLt_irrefl]

theorem lt_node_trans (V : ValOracle) {a b c : Term} (ha : a.isNode) (hb : b.isNode) (hc : c.isNode)
    (h1 : ltTerm V a b = true) (h2 : ltTerm V b c = true) : ltTerm V a c = true := by
  cases a with
  | lit => cases ha
  | node ca sa =>
  cases b with
  | lit => cases hb
  | node cb sb =>
  cases c with
  | lit => cases hc
  | node cc sc =>
    simp only [ltTerm] at h1 h2 ⊢
    by_cases e1 : ca = cb
    · subst e1
      by_cases e2 : ca = cc
      · subst e2
        simp only [if_true] at h1 h2 ⊢
        exact strLt_trans h1 h2
      · simp only [if_true, e2, if_false] at h1 h2 ⊢
        exact h2
    · by_cases e2 : cb = cc
      · subst e2
        simp only [e1, if_false, if_true] at h1 h2 ⊢
        exact h1
      · simp only [e1, e2, if_false, decide_eq_true_eq] at h1 h2
        have h3 : rank ca < rank cc := Nat.lt_trans h1 h2
        have : ca ≠ cc := fun e => by subst e; exact Nat.lt_irrefl _ h3
        simp only [this, if_false, decide_eq_true_eq]
        exact h3

theorem lt_node_connected (V : ValOracle) {a b : Term} (ha : a.isNode) (hb : b.isNode) (h : a ≠ b) :
    ltTerm V a b = true ∨ ltTerm V b a = true := by
  cases a with
  | lit => cases ha
  | node ca sa =>
  cases b with
  | lit => cases hb
  | node cb sb =>
    simp only [ltTerm]
    by_cases e : ca = cb
    · subst e
      simp only [if_true]
      exact strLt_connected (fun e' => h (by rw [e']))
    · have e' : ¬ cb = ca := fun x => e x.symm
      simp only [e, e', if_false, decide_eq_true_eq]
      have : rank ca ≠ rank cb := fun x => e (rank_injective _ _ x)
      omega

theorem lt_node_asymm (V : ValOracle) {a b : Term} (ha : a.isNode) (hb : b.isNode)
    (h : ltTerm V a b = true) : ltTerm V b a = false := by
  cases h' : ltTerm V b a with
  | false => rfl
  | true =>
    have := lt_node_trans V ha hb ha h h'
    cases a with
    | lit => cases ha
    | node c s => rw [lt_node_irrefl] at this; cases this

theorem gt_node_eq_lt_swap (V : ValOracle) {a b : Term} (ha : a.isNode) (hb : b.isNode) :
    gtTerm V a b = ltTerm V b a := by
  cases a with
  | lit => cases ha
  | node ca sa =>
  cases b with
  | lit => cases hb
  | node cb sb =>
    simp only [gtTerm, ltTerm]
    by_cases e : ca = cb
    · subst e; simp
    · have e' : ¬ cb = ca := fun x => e x.symm
      simp [e, e']

/-! ### insertion sort over a strict total order gives one answer per multiset -/

/-- `l` is increasing for `lt`: no later element is `<` an earlier one -/
def SortedBy (lt : Term → Term → Bool) : List Term → Prop
  | [] => True
  | x :: xs => (∀ y ∈ xs, lt y x = false) ∧ SortedBy lt xs

theorem mem_insertT (lt : Term → Term → Bool) (x y : Term) : ∀ l : List Term, y ∈ insertT lt x l ↔ y = x ∨ y ∈ l
  | [] => by simp [insertT]
  | z :: zs => by
    simp only [insertT]
    split
    · simp only [List.mem_cons, mem_insertT lt x y zs]
      constructor
      · rintro (h | h | h)
        · exact Or.inr (Or.inl h)
        · exact Or.inl h
        · exact Or.inr (Or.inr h)
      · rintro (h | h | h)
        · exact Or.inr (Or.inl h)
        · exact Or.inl h
        · exact Or.inr (Or.inr h)
    · simp [List.mem_cons]

theorem perm_insertT (lt : Term → Term → Bool) (x : Term) : ∀ l : List Term, (insertT lt x l).Perm (x :: l)
  | [] => List.Perm.refl _
  | z :: zs => by
    simp only [insertT]
    split
    · exact ((perm_insertT lt x zs).cons z).trans (List.Perm.swap x z zs)
    · exact List.Perm.refl _

theorem perm_sortT (lt : Term → Term → Bool) : ∀ l : List Term, (sortT lt l).Perm l
  | [] => List.Perm.refl _
  | x :: xs => by
    simp only [sortT, List.foldr_cons]
    exact (perm_insertT lt x _).trans ((perm_sortT lt xs).cons x)

theorem sorted_insertT (V : ValOracle) {x : Term} (hx : x.isNode) :
    ∀ {l : List Term}, (∀ t ∈ l, t.isNode) → SortedBy (ltTerm V) l → SortedBy (ltTerm V) (insertT (ltTerm V) x l)
  | [], _, _ => by simp [insertT, SortedBy]
  | z :: zs, hl, hs => by
    have hz : z.isNode := hl z (List.mem_cons_self)
    have hzs : ∀ t ∈ zs, t.isNode := fun t ht => hl t (List.mem_cons_of_mem _ ht)
    simp only [insertT]
    split
    · next h =>
      refine ⟨?_, sorted_insertT V hx hzs hs.2⟩
      intro y hy
      rcases (mem_insertT _ x y zs).mp hy with e | hy
      · subst e; exact lt_node_asymm V hz hx h
      · exact hs.1 y hy
    · next h =>
      have h : ltTerm V z x = false := by simpa using h
      refine ⟨?_, hs⟩
      intro y hy
      rcases List.mem_cons.mp hy with e | hy
      · subst e; exact h
      · cases hyx : ltTerm V y x with
        | false => rfl
        | true =>
          exfalso
          have hy' : y.isNode := hzs y hy
          by_cases e : z = x
          · subst e; rw [hs.1 y hy] at hyx; cases hyx
          · rcases lt_node_connected V hz hx e with h' | h'
            · rw [h] at h'; cases h'
            · have := lt_node_trans V hy' hx hz hyx h'
              rw [hs.1 y hy] at this; cases this

theorem sorted_sortT (V : ValOracle) : ∀ {l : List Term}, (∀ t ∈ l, t.isNode) → SortedBy (ltTerm V) (sortT (ltTerm V) l)
  | [], _ => trivial
  | x :: xs, hl => by
    simp only [sortT, List.foldr_cons]
    have hxs : ∀ t ∈ xs, t.isNode := fun t ht => hl t (List.mem_cons_of_mem _ ht)
    refine sorted_insertT V (hl x List.mem_cons_self) ?_ (sorted_sortT V hxs)
    intro t ht
    exact hxs t ((perm_sortT _ xs).mem_iff.mp ht)

/-- two increasing lists of non-literal terms with the same elements (as multisets) are the same list -/
theorem sorted_perm_unique (V : ValOracle) :
    ∀ {l₁ l₂ : List Term}, (∀ t ∈ l₁, t.isNode) → SortedBy (ltTerm V) l₁ → SortedBy (ltTerm V) l₂ →
      l₁.Perm l₂ → l₁ = l₂
  | [], l₂, _, _, _, hp => (List.Perm.nil_eq hp)
  | x :: xs, [], _, _, _, hp => by simpa using hp.length_eq
  | x :: xs, y :: ys, hn, h1, h2, hp => by
    have hx : x.isNode := hn x List.mem_cons_self
    have hy1 : y ∈ x :: xs := hp.mem_iff.mpr List.mem_cons_self
    have hx2 : x ∈ y :: ys := hp.mem_iff.mp List.mem_cons_self
    have hy : y.isNode := hn y hy1
    have hxy : x = y := by
      by_cases e : x = y
      · exact e
      · exfalso
        have a1 : ltTerm V y x = false := by
          rcases List.mem_cons.mp hy1 with e' | h
          · exact absurd e'.symm e
          · exact h1.1 y h
        have a2 : ltTerm V x y = false := by
          rcases List.mem_cons.mp hx2 with e' | h
          · exact absurd e' e
          · exact h2.1 x h
        rcases lt_node_connected V hx hy e with h | h
        · rw [a2] at h; cases h
        · rw [a1] at h; cases h
    subst hxy
    have hp' : xs.Perm ys := List.Perm.cons_inv hp
    rw [sorted_perm_unique V (fun t ht => hn t (List.mem_cons_of_mem _ ht)) h1.2 h2.2 hp']

end RV.C07
