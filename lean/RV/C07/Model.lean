import RV.C07.Tables
/-
  C07 — model of the identity-related code of `rdflib/term.py` and of `rdflib/util.py: from_n3`
  (the code AFTER the `fix:` commits of branch fix-C07).

  * terms: `Identifier` subclasses.  `type(self) is type(other)` in `Identifier.__eq__`
    distinguishes Python subclasses, so the class is part of a node: URIRef, Genid,
    RDFLibGenid, BNode, Variable; literals are (lexical form, datatype, language).
  * strings are `List Char` (Unicode scalar values; lone surrogates are outside the model);
    Python's `str` order is code-point order = `strLt`.
  * `str.__hash__` is an abstract parameter `strHash : Str → Int`.
  * typed Python values of literals (`Literal.value`), lexical normalisation of recognised
    datatypes, CPython's `float()`, `str.isnumeric` and the `unicode-escape` codec are
    parameters (records `ValOracle`, `Ext`), see DESIGN §3 "external calls".
-/
namespace RV.C07

abbrev Str := List Char

/-! ### terms -/

/-- Python class of a non-literal term -/
inductive NCls
  | bnode | var | uri | genid | rgenid
  deriving DecidableEq, Repr

inductive Term
  | node (c : NCls) (s : Str)
  | lit (lex : Str) (dt : Option Str) (lang : Option Str)
  deriving DecidableEq, Repr

@[match_pattern] abbrev Term.iri (s : Str) : Term := .node .uri s
@[match_pattern] abbrev Term.bnode (s : Str) : Term := .node .bnode s
@[match_pattern] abbrev Term.var (s : Str) : Term := .node .var s

/-- the four kinds the property speaks about -/
inductive Kind
  | bnode | var | iri | lit
  deriving DecidableEq, Repr

def NCls.kind : NCls → Kind
  | .bnode => .bnode
  | .var => .var
  | .uri => .iri
  | .genid => .iri
  | .rgenid => .iri

def Term.kind : Term → Kind
  | .node c _ => c.kind
  | .lit _ _ _ => .lit

/-! ### strings -/

/-- ASCII lower-casing: `str.lower()` on the language tags `Literal.__new__` accepts -/
def lowerChar (c : Char) : Char :=
  if 'A' ≤ c ∧ c ≤ 'Z' then Char.ofNat (c.toNat + 32) else c

def lower (s : Str) : Str := s.map lowerChar

/-- `x if x else None` for an optional string: the empty string is falsy -/
def truthy : Option Str → Option Str
  | some (c :: s) => some (c :: s)
  | _ => none

/-- `self._language.lower() if self._language else None` -/
def langKey (l : Option Str) : Option Str := (truthy l).map lower

/-- Python `a < b` on `str`: lexicographic by code point -/
def strLt : Str → Str → Bool
  | [], [] => false
  | [], _ :: _ => true
  | _ :: _, [] => false
  | a :: as, b :: bs => decide (a < b) || (decide (a = b) && strLt as bs)

/-! ### `__eq__`, `__hash__` -/

/-- `Identifier.__eq__` (same class and same string) and `Literal.__eq__`
    (datatype, lower-cased language, lexical form; literals only equal literals) -/
def eqb : Term → Term → Bool
  | .node c s, .node c' s' => decide (c = c' ∧ s = s')
  | .lit x d l, .lit x' d' l' => decide (d = d' ∧ langKey l = langKey l' ∧ x = x')
  | _, _ => false

/-- `__ne__ = not __eq__` -/
def neb (a b : Term) : Bool := !eqb a b

/-- `Identifier.__hash__ = str.__hash__`; `Literal.__hash__` xors in the hashes of the
    lower-cased language (if truthy) and of the datatype (if not None).
    `xor` = Python's `^` on `int` (core Lean has no `Int` xor; no theorem depends on which function it is) -/
def hash (strHash : Str → Int) (xor : Int → Int → Int) : Term → Int
  | .node _ s => strHash s
  | .lit x d l =>
    let r := strHash x
    let r := match truthy l with
      | some t => xor r (strHash (lower t))
      | none => r
    match d with
    | some d => xor r (strHash d)
    | none => r

/-! ### ordering -/

/-- `_ORDERING[type(t)]` (regenerated table) -/
def rank : NCls → Nat
  | .bnode => Tables.ordBNode
  | .var => Tables.ordVariable
  | .uri => Tables.ordURIRef
  | .genid => Tables.ordGenid
  | .rgenid => Tables.ordRDFLibGenid

def rankLit : Nat := Tables.ordLiteral

/-- what the comparison of two literals needs to know about typed Python values -/
structure ValOracle where
  /-- numeric fast path of `__gt__`: `some r` when both datatypes are numeric, neither literal is
      ill-typed and both values exist (`r = self.value > other.value`) -/
  fast : Term → Term → Option Bool
  /-- `self.value > other.value` (through `_TOTAL_ORDER_CASTERS` where they apply):
      `none` when a value is `None` or the comparison raises `TypeError` -/
  valGt : Term → Term → Option Bool
  /-- `Literal.eq` (value-space equality); `none` = it raises `TypeError` -/
  eqv : Term → Term → Option Bool

/-- `>` on optional datatypes at the end of `Literal.__gt__` (plain before xsd:string) -/
def optStrGt : Option Str → Option Str → Bool
  | none, _ => false
  | some _, none => true
  | some s, some t => strLt t s

/-- `Literal.__gt__(other)` for a literal `other` -/
def litGt (V : ValOracle) (a b : Term) : Bool :=
  match a, b with
  | .lit x d l, .lit x' d' l' =>
    match V.fast a b with
    | some r => r
    | none =>
      let dta := d.getD Tables.xsdString
      let dtb := d'.getD Tables.xsdString
      if dta ≠ dtb then strLt dtb dta
      else if langKey l ≠ langKey l' then optStrGt (langKey l) (langKey l')
      else
        match V.valGt a b with
        | some r => r
        | none =>
          if x ≠ x' then strLt x' x
          else if d ≠ d' then optStrGt d d'
          else false
  | _, _ => false

/-- `Literal.__lt__(other)` for a literal `other`: `not gt and not eq`;
    `none` = `NotImplemented` (the `TypeError` of `eq` is caught) -/
def litLt (V : ValOracle) (a b : Term) : Option Bool :=
  if litGt V a b then some false else (V.eqv a b).map (fun e => !e)

/-- Python `a > b` on terms (`Identifier.__gt__`, `Literal.__gt__`) -/
def gtTerm (V : ValOracle) : Term → Term → Bool
  | .node c s, .node c' s' => if c = c' then strLt s' s else decide (rank c > rank c')
  | .node c _, .lit _ _ _ => decide (rank c > rankLit)
  | .lit _ _ _, .node _ _ => true
  | a@(.lit _ _ _), b@(.lit _ _ _) => litGt V a b

/-- Python `a < b` on terms; for two literals a `NotImplemented` from `__lt__` makes Python
    try the reflected `b.__gt__(a)` -/
def ltTerm (V : ValOracle) : Term → Term → Bool
  | .node c s, .node c' s' => if c = c' then strLt s s' else decide (rank c < rank c')
  | .node c _, .lit _ _ _ => decide (rank c < rankLit)
  | .lit _ _ _, .node _ _ => false
  | a@(.lit _ _ _), b@(.lit _ _ _) =>
    match litLt V a b with
    | some r => r
    | none => litGt V b a

/-- the oracle used by the driver: values exist exactly for plain and xsd:string literals
    (where the value is the lexical form); the harness only compares `<`/`>` of two literals
    when this is the case for the real literals -/
def strValue : Term → Option Str
  | .lit x none _ => some x
  | .lit x (some d) _ => if d = Tables.xsdString then some x else none
  | _ => none

def strOracle : ValOracle where
  fast := fun _ _ => none
  valGt := fun a b =>
    match strValue a, strValue b with
    | some u, some v => some (strLt v u)
    | _, _ => none
  eqv := fun a b =>
    match a, b with
    | .lit x d l, .lit x' d' l' =>
      if langKey l ≠ langKey l' then some false
      else
        let dta := d.getD Tables.xsdString
        let dtb := d'.getD Tables.xsdString
        if dta = Tables.xsdString ∧ dtb = Tables.xsdString then some (decide (x = x'))
        else if dta ≠ dtb then some false
        else if x = x' then some true
        else none
    | _, _ => some false

/-- `list.sort()` with `<`: insertion sort (any stable sort gives the same list for a strict total order) -/
def insertT (lt : Term → Term → Bool) (x : Term) : List Term → List Term
  | [] => [x]
  | y :: ys => if lt y x then y :: insertT lt x ys else x :: y :: ys

def sortT (lt : Term → Term → Bool) (l : List Term) : List Term := l.foldr (insertT lt) []

/-! ### `n3()` -/

/-- `_is_valid_uri`: no character of `_invalid_uri_chars` occurs -/
def isValidUri (s : Str) : Bool := Tables.invalidUriChars.all (fun c => !s.contains c)

def alookupS (k : Char) : List (Char × Str) → Option Str
  | [] => none
  | (a, b) :: r => if a = k then some b else alookupS k r

/-- how `_quote_encode` writes one character: read from a table PROBED from the live function
    (`Tables.shortEscapes`, `Tables.longEscapes`); a character not in the table is written as itself -/
def escWith (T : List (Char × Str)) (c : Char) : Str := (alookupS c T).getD [c]

/-- the short-quoted branch of `_quote_encode` (whatever way the code has of getting there: a chain of
    `str.replace`, `str.translate`, …): every character is replaced by its written form -/
def shortEncodeT (T : List (Char × Str)) (s : Str) : Str := s.flatMap (escWith T)

def shortEncode (s : Str) : Str := shortEncodeT Tables.shortEscapes s

/-- the long-quoted branch, first part: three quotes in a row are written `\"\"\"`
    (`.replace('"""', '\\"\\"\\"')`, leftmost and non-overlapping), every other character by its written form -/
def encT (T : List (Char × Str)) : Str → Str
  | '"' :: '"' :: '"' :: s => '\\' :: '"' :: '\\' :: '"' :: '\\' :: '"' :: encT T s
  | c :: s => escWith T c ++ encT T s
  | [] => []

/-- `s.rstrip("\\")` -/
def rstripBs : Str → Str
  | [] => []
  | c :: s =>
    match rstripBs s with
    | [] => if c = '\\' then [] else [c]
    | r => c :: r

/-- the trailing-quote step of the long-quoted branch:
    `if encoded[-1] == '"': body = encoded[:-1]; if (len(body) - len(body.rstrip("\\"))) % 2 == 0: encoded = body + '\\"'` -/
def fixTrail (e : Str) : Str :=
  if e.getLast? = some '"' then
    let body := e.dropLast
    if (body.length - (rstripBs body).length) % 2 = 0 then body ++ ['\\', '"'] else e
  else e

/-- the long-quoted branch of `_quote_encode` (without the surrounding quotes) -/
def longEncodeT (T : List (Char × Str)) (s : Str) : Str := fixTrail (encT T s)

def longEncode (s : Str) : Str := longEncodeT Tables.longEscapes s

def q3 : Str := ['"', '"', '"']

/-- `Literal._quote_encode` -/
def quoteEncode (s : Str) : Str :=
  if '\n' ∈ s then q3 ++ longEncode s ++ q3 else '"' :: (shortEncode s ++ ['"'])

/-- `startswith` -/
def isPrefix : Str → Str → Bool
  | [], _ => true
  | _ :: _, [] => false
  | a :: as, b :: bs => decide (a = b) && isPrefix as bs

/-- `str.replace(pat, rep)` for a non-empty pattern (leftmost, non-overlapping); fuel = length -/
def replaceSubF (pat rep : Str) : Nat → Str → Str
  | 0, s => s
  | _, [] => []
  | n + 1, c :: s =>
    if isPrefix pat (c :: s) then rep ++ replaceSubF pat rep n ((c :: s).drop pat.length)
    else c :: replaceSubF pat rep n s

def replaceSub (pat rep s : Str) : Str := replaceSubF pat rep (s.length + 1) s

/-- what CPython's `float(str)` makes of a lexical form, as far as `_literal_n3` cares -/
inductive FloatKind
  | inf | nan | other
  deriving DecidableEq, Repr

/-- externals (CPython), parameters of the model -/
structure Ext where
  /-- `float(s)`: infinite, NaN, or anything else (finite or `ValueError`) -/
  floatKind : Str → FloatKind
  /-- `c.isnumeric()` -/
  isNumeric : Char → Bool
  /-- `s.lower()` as used by `from_n3`'s number test -/
  lowerU : Str → Str
  /-- `s.encode("raw-unicode-escape").decode("unicode-escape")` (IRI branch of `from_n3`) -/
  iriDecode : Str → Str
  /-- lexical normalisation `_castPythonToLiteral(_castLexicalToPython(lex, dt), dt)` applied by
      `Literal.__new__` when `normalize` is on (identity where it does not apply) -/
  normFull : Option Str → Str → Str
  /-- the `nsm` argument of `from_n3` as the list `nsm.namespaces()` of (prefix, namespace) pairs;
      `none` = no manager given (from_n3 then makes a default `NamespaceManager(Graph())`, not modelled here) -/
  nsm : Option (List (Str × Str)) := none
  /-- `namespace_manager.normalizeUri(iri)`: a prefixed name or `<iri>` (C17; a parameter here) -/
  qname : Str → Str := fun u => '<' :: u ++ ['>']

/-- `Literal._literal_n3()` with the default arguments -/
def litN3 (E : Ext) (x : Str) (d l : Option Str) : Str :=
  let encoded := quoteEncode x
  let encoded :=
    match d with
    | some dt =>
      if dt ∈ Tables.infNanTypes then
        match E.floatKind x with
        | .inf => replaceSub "Infinity".toList "INF".toList (replaceSub "inf".toList "INF".toList encoded)
        | .nan => replaceSub "nan".toList "NaN".toList encoded
        | .other => encoded
      else encoded
    | none => encoded
  match truthy l with
  | some lang => encoded ++ '@' :: lang
  | none =>
    match truthy d with
    | some dt => encoded ++ '^' :: '^' :: '<' :: dt ++ ['>']
    | none => encoded

/-- `Literal._literal_n3(qname_callback=namespace_manager.normalizeUri)`:
    `quoted_dt = qname_callback(datatype)`, or `<datatype>` if that is empty -/
def litN3Q (E : Ext) (x : Str) (d l : Option Str) : Str :=
  let encoded := quoteEncode x
  let encoded :=
    match d with
    | some dt =>
      if dt ∈ Tables.infNanTypes then
        match E.floatKind x with
        | .inf => replaceSub "Infinity".toList "INF".toList (replaceSub "inf".toList "INF".toList encoded)
        | .nan => replaceSub "nan".toList "NaN".toList encoded
        | .other => encoded
      else encoded
    | none => encoded
  match truthy l with
  | some lang => encoded ++ '@' :: lang
  | none =>
    match truthy d with
    | some dt => encoded ++ '^' :: '^' :: (if E.qname dt = [] then '<' :: dt ++ ['>'] else E.qname dt)
    | none => encoded

/-- `t.n3(namespace_manager)` -/
def n3Q (E : Ext) : Term → Option Str
  | .node .bnode s => some ('_' :: ':' :: s)
  | .node .var s => some ('?' :: s)
  | .node _ s => if isValidUri s then some (E.qname s) else none
  | .lit x d l => some (litN3Q E x d l)

/-- `t.n3()`; `none` = `URIRef.n3` raises for an IRI with a character of `_invalid_uri_chars` -/
def n3 (E : Ext) : Term → Option Str
  | .node .bnode s => some ('_' :: ':' :: s)
  | .node .var s => some ('?' :: s)
  | .node _ s => if isValidUri s then some ('<' :: s ++ ['>']) else none
  | .lit x d l => some (litN3 E x d l)

/-! ### constructors -/

inductive Err
  | typeError | valueError | other
  deriving DecidableEq, Repr

def isAlpha (c : Char) : Bool := ('a' ≤ c ∧ c ≤ 'z') ∨ ('A' ≤ c ∧ c ≤ 'Z')
def isAlnum (c : Char) : Bool := isAlpha c ∨ ('0' ≤ c ∧ c ≤ '9')

/-- the rest of `^[a-zA-Z]+(?:-[a-zA-Z0-9]+)*\Z` after the first letter; `first` = still inside the
    leading `[a-zA-Z]+` -/
def tagGo : Bool → Str → Bool
  | _, [] => true
  | _, '-' :: c :: s => isAlnum c && tagGo false s
  | first, c :: s => (if first then isAlpha c else isAlnum c) && tagGo first s

/-- `_is_valid_langtag` -/
def validLangTag : Str → Bool
  | c :: s => isAlpha c && tagGo true s
  | [] => false

def isSpace (c : Char) : Bool := Tables.spaceChars.contains c

/-- `_normalise_XSD_STRING`: tab, LF, CR become a space -/
def normString (s : Str) : Str := s.map (fun c => if c = '\t' ∨ c = '\n' ∨ c = '\r' then ' ' else c)

def stripL (s : Str) : Str := s.dropWhile isSpace
/-- `s.strip()` (every `str.isspace` character; used by the driver's `float()`) -/
def strip (s : Str) : Str := (stripL (stripL s).reverse).reverse

def isSp (c : Char) : Bool := c = ' '
def stripSpL (s : Str) : Str := s.dropWhile isSp
/-- `s.strip(" ")`: only #x20 (after C09's repair of `_strip_and_collapse_whitespace`) -/
def stripSp (s : Str) : Str := (stripSpL (stripSpL s).reverse).reverse

/-- `re.sub(" +", " ", s)` -/
def collapse : Str → Str
  | ' ' :: ' ' :: s => collapse (' ' :: s)
  | c :: s => c :: collapse s
  | [] => []

/-- the whitespace handling `Literal.__new__` always applies to xsd:normalizedString / xsd:token -/
def wsNorm (dt : Option Str) (s : Str) : Str :=
  if dt = some Tables.xsdNormalizedString then normString s
  else if dt = some Tables.xsdToken then collapse (stripSp (normString s))
  else s

/-- the lexical form `Literal.__new__` ends with: the white-space rule is applied to the argument
    (before the lexical-to-value mapping), then the optional normalisation, then the white-space rule again -/
def newLex (E : Ext) (normalize : Bool) (dt : Option Str) (lex : Str) : Str :=
  let lex0 := wsNorm dt lex
  wsNorm dt (if normalize then E.normFull dt lex0 else lex0)

/-- `Literal.__new__(lexical: str, lang, datatype, normalize)` -/
def mkLit (E : Ext) (normalize : Bool) (lex : Str) (lang dt : Option Str) : Except Err Term :=
  let lang := if lang = some [] then none else lang
  if lang.isSome ∧ dt.isSome then .error .typeError
  else
    match lang with
    | some l =>
      if validLangTag l then .ok (.lit (newLex E normalize dt lex) dt lang)
      else .error .valueError
    | none => .ok (.lit (newLex E normalize dt lex) dt lang)

/-- `Variable.__new__` -/
def mkVar : Str → Except Err Term
  | [] => .error .other
  | '?' :: s => .ok (.node .var s)
  | s => .ok (.node .var s)

/-! ### `__reduce__` and rebuilding (pickle, copy, deepcopy, NodePickler) -/

inductive Reduced
  | node (c : NCls) (arg : Str)
  | lit (lex : Str) (lang dt : Option Str) (normalize : Bool)
  deriving DecidableEq, Repr

/-- `URIRef.__reduce__ = (type(self), (str,))`, `BNode.__reduce__`, `Variable.__reduce__ = (Variable, ("?" + str,))`,
    `Literal.__reduce__ = (Literal, (str, language, datatype, False))` -/
def reduce : Term → Reduced
  | .node .var s => .node .var ('?' :: s)
  | .node c s => .node c s
  | .lit x d l => .lit x l d false

/-- calling the class on the arguments -/
def rebuild (E : Ext) : Reduced → Except Err Term
  | .node .var s => mkVar s
  | .node c s => .ok (.node c s)
  | .lit x l d nz => mkLit E nz x l d

/-! ### `util.from_n3` -/

/-- `s.rsplit(q, 1)`: (before, after) the LAST occurrence of `q` -/
def rsplit1 (q : Str) : Str → Option (Str × Str)
  | [] => none
  | c :: s =>
    match rsplit1 q s with
    | some (a, b) => some (c :: a, b)
    | none => if isPrefix q (c :: s) then some ([], (c :: s).drop q.length) else none

def isHex (c : Char) : Bool :=
  ('0' ≤ c ∧ c ≤ '9') ∨ ('a' ≤ c ∧ c ≤ 'f') ∨ ('A' ≤ c ∧ c ≤ 'F')

def hexVal (c : Char) : Nat :=
  if '0' ≤ c ∧ c ≤ '9' then c.toNat - 48
  else if 'a' ≤ c ∧ c ≤ 'f' then c.toNat - 87
  else c.toNat - 55

def hexNum (s : Str) : Nat := s.foldl (fun n c => 16 * n + hexVal c) 0

def alookup (k : Char) : List (Char × Char) → Option Char
  | [] => none
  | (a, b) :: r => if a = k then some b else alookup k r

/-- `compat.decodeUnicodeEscape`: one left-to-right pass of
    `\\([tbnrf"'\\])|\\(u[0-9A-Fa-f]{4}|U[0-9A-Fa-f]{8})`; `none` = `chr()` raises or gives a surrogate.
    Fuel = length of the input. -/
def decodeF : Nat → Str → Option Str
  | 0, _ => some []
  | _, [] => some []
  | n + 1, '\\' :: c :: s =>
    match alookup c Tables.stringEscapeMap with
    | some r => (decodeF n s).map (r :: ·)
    | none =>
      if c = 'u' ∧ (s.take 4).length = 4 ∧ (s.take 4).all isHex then
        let v := hexNum (s.take 4)
        if v.isValidChar then (decodeF n (s.drop 4)).map (Char.ofNat v :: ·) else none
      else if c = 'U' ∧ (s.take 8).length = 8 ∧ (s.take 8).all isHex then
        let v := hexNum (s.take 8)
        if v.isValidChar then (decodeF n (s.drop 8)).map (Char.ofNat v :: ·) else none
      else (decodeF n (c :: s)).map ('\\' :: ·)
  | n + 1, c :: s => (decodeF n s).map (c :: ·)

def decodeEsc (s : Str) : Option Str := decodeF s.length s

/-- first occurrence of `c` removed: `s.replace(c, "", 1)` -/
def removeFirst (c : Char) : Str → Str
  | [] => []
  | x :: s => if x = c then s else x :: removeFirst c s

/-- the number test of `from_n3` -/
def numericLike (E : Ext) (s : Str) : Bool :=
  let t := removeFirst 'e' (removeFirst '-' (removeFirst '.' (E.lowerU s)))
  !t.isEmpty && t.all E.isNumeric

/-- result of `from_n3` -/
inductive Rd
  | term (t : Term)
  | dflt            -- empty input: the `default` argument
  | unmodelled      -- numbers, `{…}`, `[…]`, prefixed names, datatype given as a prefixed name
  | error (e : Err)
  deriving DecidableEq, Repr

/-- `s.split(c, 1)`: the parts before and after the first `c` -/
def splitFirst (c : Char) : Str → Str × Str
  | [] => ([], [])
  | x :: s => if x = c then ([], s) else ((x :: (splitFirst c s).1), (splitFirst c s).2)

/-- `dict(pairs)[k]`: a later pair overrides an earlier one -/
def dlookup (k : Str) : List (Str × Str) → Option Str
  | [] => none
  | (a, b) :: r =>
    match dlookup k r with
    | some v => some v
    | none => if a = k then some b else none

def Rd.ofExcept : Except Err Term → Rd
  | .ok t => .term t
  | .error e => .error e

/-- `from_n3` on the forms that are not quoted literals; `text` = the whole string -/
def fromN3Node (E : Ext) (s : Str) : Rd :=
  match s with
  | [] => .dflt
  | '<' :: r => .term (.node .uri (E.iriDecode r.dropLast))
  | _ =>
    if s = "true".toList then .term (.lit s (some Tables.xsdBoolean) none)
    else if s = "false".toList then .term (.lit s (some Tables.xsdBoolean) none)
    else if numericLike E s then .unmodelled
    else
      match s with
      | '{' :: _ => .unmodelled
      | '[' :: _ => .unmodelled
      | '_' :: ':' :: r => .term (.node .bnode r)
      | '?' :: _ => Rd.ofExcept (mkVar s)
      | _ =>
        if ':' ∈ s then
          -- `prefix, last_part = s.split(":", 1); ns = dict(nsm.namespaces())[prefix]; Namespace(ns)[last_part]`
          match E.nsm with
          | none => .unmodelled
          | some tbl =>
            match dlookup (splitFirst ':' s).1 tbl with
            | some ns => .term (.node .uri (ns ++ (splitFirst ':' s).2))
            | none => .error .other
        else .term (.node .bnode s)

/-- the quoted-literal branch of `from_n3` after `value, rest = s.rsplit(quotes, 1)` and
    `value = value[len(quotes):]` -/
def litFromParts (E : Ext) (normalize : Bool) (value rest : Str) : Rd :=
  let mk (lang dt : Option Str) : Rd :=
    match decodeEsc value with
    | none => .error .valueError
    | some v => Rd.ofExcept (mkLit E normalize v lang dt)
  match rsplit1 ['^', '^'] rest with
  | some (_, after) =>
    match after, fromN3Node E after with
    | [], _ => mk none none                      -- `from_n3("")` returns the default, None
    | '"' :: _, _ => .unmodelled                 -- a quoted literal as datatype
    | _, .term (.node _ d) => mk none (some d)   -- `URIRef(datatype)`
    | _, .term (.lit d _ _) => mk none (some d)
    | _, _ => .unmodelled
  | none =>
    match rest with
    | '@' :: lang => mk (some lang) none
    | _ => mk none none

/-- `util.from_n3(s)` (default `normalize` = the module flag `rdflib.NORMALIZE_LITERALS`) -/
def fromN3 (E : Ext) (normalize : Bool) (s : Str) : Rd :=
  match s with
  | '"' :: _ =>
    let q : Str := if isPrefix q3 s then q3 else ['"']
    match rsplit1 q s with
    | none => .error .valueError
    | some (value, rest) => litFromParts E normalize (value.drop q.length) rest
  | _ => fromN3Node E s

/-- CPython `float()` as far as inf / nan are concerned: surrounding white space, a sign,
    then `inf`, `infinity` or `nan` in any case -/
def pyFloatKind (s : Str) : FloatKind :=
  let t := lower (strip s)
  let t := match t with
    | '+' :: r => r
    | '-' :: r => r
    | r => r
  if t = "inf".toList ∨ t = "infinity".toList then .inf
  else if t = "nan".toList then .nan
  else .other

/-- the externals as instantiated by the driver: no lexical normalisation (the harness reads with
    `rdflib.NORMALIZE_LITERALS = False`), IRIs without backslashes, ASCII digits -/
def drvExt : Ext where
  floatKind := pyFloatKind
  isNumeric := fun c => decide ('0' ≤ c ∧ c ≤ '9')
  lowerU := lower
  iriDecode := fun s => s
  normFull := fun _ s => s

end RV.C07
