import RV.C07.Model
/-
  C07, round g — literal VALUE ordering: a concrete model of `Literal.__gt__`, `Literal.eq`, `neq`,
  `__lt__`, `__le__`, `__ge__` (rdflib/term.py, after the fix: commits of fix-C07) and of Python's operator
  protocol on two literals (`NotImplemented` → reflected method → `TypeError`), for the literals whose
  typed Python value Lean can carry:

    str                              plain, xsd:string, xsd:token, xsd:normalizedString, xsd:anyURI, …
    bool, int, Decimal, float        one numeric tower (Python compares them exactly): rationals, ±inf, NaN
    datetime.datetime                wall-clock microseconds since 0001-01-01 + UTC offset in microseconds or None (naive)
    datetime.date                    proleptic ordinal

  A literal is (lexical form, datatype, language, value, bool(ill_typed)).  The value is an attribute the
  constructor computed (C09's subject); here it is DATA of the literal, supplied by the harness from
  `Literal.value`.  Values of other Python types (time, Duration, bytes, XML documents, user types) are not
  carried: pairs with such a value are not compared with this model.
-/
namespace RV.C07

/-- Python values the model carries -/
inductive PyVal
  | str (s : Str)
  | bool (b : Bool)
  | num (q : Rat)          -- a finite int / Decimal / float
  | pinf | ninf | nan      -- float / Decimal infinities, float NaN
  | dtm (wall : Int) (off : Option Int)
  | date (ord : Int)
  | bytes (b : Str)                          -- bytes (xsd:hexBinary / base64Binary): one character < 256 per byte
  | tim (wall : Int) (off : Option Int)      -- datetime.time: microseconds of the day + UTC offset in µs or None
  | dur (months : Int) (us : Int) (isDur : Bool)
      -- datetime.timedelta (months = 0, isDur = false) or rdflib.xsd_datetime.Duration (years*12+months, tdelta in µs)
  deriving DecidableEq

/-- extended rationals (no NaN): the numeric tower's keys -/
inductive XRat
  | ninf | fin (q : Rat) | pinf
  deriving DecidableEq

def XRat.lt : XRat → XRat → Bool
  | .ninf, .ninf => false
  | .ninf, _ => true
  | .fin _, .ninf => false
  | .fin a, .fin b => decide (a < b)
  | .fin _, .pinf => true
  | .pinf, _ => false

/-- canonical comparison key of a value: Python `==` on carried values is equality of keys (`none` = NaN) -/
inductive VKey
  | str (s : Str)
  | num (x : XRat)
  | dtm (aware : Bool) (inst : Int)
  | date (ord : Int)
  | bytes (b : Str)
  | tim (aware : Bool) (inst : Int)
  | dur (months : Int) (us : Int)
  deriving DecidableEq

def PyVal.key? : PyVal → Option VKey
  | .str s => some (.str s)
  | .bool b => some (.num (.fin (if b then 1 else 0)))
  | .num q => some (.num (.fin q))
  | .pinf => some (.num .pinf)
  | .ninf => some (.num .ninf)
  | .nan => none
  | .dtm w none => some (.dtm false w)
  | .dtm w (some o) => some (.dtm true (w - o))
  | .date n => some (.date n)
  | .bytes b => some (.bytes b)
  | .tim w none => some (.tim false w)
  | .tim w (some o) => some (.tim true (w - o))
  | .dur m u _ => some (.dur m u)

/-- the order of keys of one Python type (str: code points; numbers; date-times of one awareness, naive before
    aware as `_TOTAL_ORDER_CASTERS` partitions them; dates); keys of different types are unrelated -/
def VKey.lt : VKey → VKey → Bool
  | .str s, .str t => strLt s t
  | .num x, .num y => XRat.lt x y
  | .dtm a i, .dtm b j => (!a && b) || (a == b && decide (i < j))
  | .date m, .date n => decide (m < n)
  | .bytes s, .bytes t => strLt s t
  | .tim a i, .tim b j => (!a && b) || (a == b && decide (i < j))
  -- only ever consulted between two timedeltas (months = 0): a Duration has no order (`PyVal.noOrder`)
  | .dur m u, .dur m' u' => decide (m < m') || (m == m' && decide (u < u'))
  | _, _ => false

/-- Python type class of a value: 0 str, 1 number (bool ⊂ int ⊂ …), 2 datetime, 3 date, 4 bytes, 5 time,
    6 timedelta / Duration (they are `==`-comparable with each other) -/
def PyVal.cls : PyVal → Nat
  | .str _ => 0
  | .bool _ => 1 | .num _ => 1 | .pinf => 1 | .ninf => 1 | .nan => 1
  | .dtm _ _ => 2
  | .date _ => 3
  | .bytes _ => 4
  | .tim _ _ => 5
  | .dur _ _ _ => 6

def VKey.cls : VKey → Nat
  | .str _ => 0 | .num _ => 1 | .dtm _ _ => 2 | .date _ => 3 | .bytes _ => 4 | .tim _ _ => 5 | .dur _ _ => 6

/-- a value of a type that defines no order: `rdflib.xsd_datetime.Duration` (`>` with it raises TypeError) -/
def PyVal.noOrder : PyVal → Bool
  | .dur _ _ true => true
  | _ => false

/-- a naive and an aware datetime: Python refuses to order them -/
def VKey.clash : VKey → VKey → Bool
  | .dtm a _, .dtm b _ => a != b
  | .tim a _, .tim b _ => a != b
  | _, _ => false

/-- Python `u > v` on values; `none` = `TypeError` (different type classes; a naive and an aware datetime or time;
    a Duration on either side).
    A NaN is not greater than anything and nothing is greater than it. -/
def PyVal.gt (u v : PyVal) : Option Bool :=
  if u.cls ≠ v.cls then none
  else if u.noOrder || v.noOrder then none
  else
    match u.key?, v.key? with
    | some k, some k' => if VKey.clash k k' then none else some (VKey.lt k' k)
    | _, _ => some false

/-- Python `u == v` on values (never raises; NaN is not equal to itself; naive ≠ aware) -/
def PyVal.eq (u v : PyVal) : Bool :=
  match u.key?, v.key? with
  | some k, some k' => decide (k = k')
  | _, _ => false

/-- `caster(self.value) > caster(other.value)` for two datetimes: tuples (aware?, value) -/
def castGt (u v : PyVal) : Bool :=
  match u.key?, v.key? with
  | some k, some k' => VKey.lt k' k
  | _, _ => false

/-- `type(self.value) in _TOTAL_ORDER_CASTERS and type(other.value) is type(self.value)` -/
def usesCaster (u v : PyVal) : Bool :=
  (Tables.castsDatetime && u.cls == 2 && v.cls == 2) || (Tables.castsTime && u.cls == 5 && v.cls == 5)

/-- a literal with its value -/
structure VLit where
  lex : Str
  dt : Option Str
  lang : Option Str
  val : Option PyVal
  ill : Bool            -- bool(self.ill_typed)
  deriving DecidableEq

def VLit.term (a : VLit) : Term := .lit a.lex a.dt a.lang

def isNumericDt : Option Str → Bool
  | some d => Tables.numericTypes.contains d
  | none => false

/-- `_coalesce(self.datatype, default=_XSD_STRING)` -/
def VLit.cdt (a : VLit) : Str := a.dt.getD Tables.xsdString

/-- the guard of the numeric fast path in `__gt__` and `eq` -/
def fastOK (a b : VLit) : Bool :=
  isNumericDt a.dt && isNumericDt b.dt && !a.ill && !b.ill && a.val.isSome && b.val.isSome

/-- the end of `Literal.__gt__`: lexical forms, then the real datatypes (plain before xsd:string) -/
def gtTail (a b : VLit) : Bool :=
  if a.lex ≠ b.lex then strLt b.lex a.lex
  else if a.dt ≠ b.dt then optStrGt a.dt b.dt
  else false

/-- `Literal.__gt__` after the fast path -/
def gtGeneral (a b : VLit) : Bool :=
  if a.cdt ≠ b.cdt then strLt b.cdt a.cdt
  else if langKey a.lang ≠ langKey b.lang then optStrGt (langKey a.lang) (langKey b.lang)
  else
    match a.val, b.val with
    | some u, some v =>
      if usesCaster u v then castGt u v
      else
        match PyVal.gt u v with
        | some r => r
        | none => if PyVal.eq u v then false else gtTail a b
    | _, _ => gtTail a b

/-- `Literal.__gt__(other)`, `other` a literal (DAWG_LITERAL_COLLATION off) -/
def litGtV (a b : VLit) : Bool :=
  if fastOK a b then
    match a.val, b.val with
    | some u, some v =>
      match PyVal.gt u v with
      | some r => r
      | none => gtGeneral a b
    | _, _ => gtGeneral a b
  else gtGeneral a b

/-- `Literal.eq(other)`, `other` a literal; `none` = `TypeError`.  (The rdf:XMLLiteral / rdf:HTML branch needs two
    parsed documents — values this model does not carry.) -/
def litEqV (a b : VLit) : Option Bool :=
  match fastOK a b, a.val, b.val with
  | true, some u, some v => some (PyVal.eq u v)
  | _, _, _ =>
    if langKey a.lang ≠ langKey b.lang then some false
    else if a.cdt = Tables.xsdString ∧ b.cdt = Tables.xsdString then some (decide (a.lex = b.lex))
    else if a.cdt ≠ b.cdt then some false
    else
      match a.val, b.val with
      | some u, some v => some (PyVal.eq u v)
      | _, _ =>
        if a.lex = b.lex then some true
        else if a.dt = some Tables.xsdString then some false
        else none

/-- `Literal.neq` -/
def litNeqV (a b : VLit) : Option Bool := (litEqV a b).map (!·)

/-- `Literal.__lt__(other)`: `not self.__gt__(other) and not self.eq(other)`; `none` = `NotImplemented` -/
def litLtV (a b : VLit) : Option Bool :=
  if litGtV a b then some false else (litEqV a b).map (!·)

/-- `Literal.__le__(other)`: `r = self.__lt__(other); if r: return True` — `NotImplemented` is truthy —
    then `self.eq(other)`, `TypeError` → `NotImplemented` (= `none`) -/
def litLeV (a b : VLit) : Option Bool :=
  match litLtV a b with
  | none => some true
  | some true => some true
  | some false => litEqV a b

/-- `Literal.__ge__(other)` -/
def litGeV (a b : VLit) : Option Bool :=
  if litGtV a b then some true else litEqV a b

/-- Python `a > b` -/
def pyGt (a b : VLit) : Bool := litGtV a b

/-- Python `a < b`: `a.__lt__(b)`, on `NotImplemented` the reflected `b.__gt__(a)` -/
def pyLt (a b : VLit) : Bool :=
  match litLtV a b with
  | some r => r
  | none => litGtV b a

/-- Python `a <= b`: `a.__le__(b)`, on `NotImplemented` the reflected `b.__ge__(a)`, on `NotImplemented`
    again `TypeError` (= `none`) -/
def pyLe (a b : VLit) : Option Bool :=
  match litLeV a b with
  | some r => some r
  | none => litGeV b a

/-- Python `a >= b` -/
def pyGe (a b : VLit) : Option Bool :=
  match litGeV a b with
  | some r => some r
  | none => litLeV b a

/-! ### `sorted()` with `<` -/

def insertG {α} (lt : α → α → Bool) (x : α) : List α → List α
  | [] => [x]
  | y :: ys => if lt y x then y :: insertG lt x ys else x :: y :: ys

def sortG {α} (lt : α → α → Bool) (l : List α) : List α := l.foldr (insertG lt) []

def sortV (l : List VLit) : List VLit := sortG pyLt l

/-! ### mixed collections: non-literal terms and literals with values -/

/-- a term whose literal carries its value -/
inductive VTerm
  | node (c : NCls) (s : Str)
  | lit (a : VLit)
  deriving DecidableEq

def VTerm.term : VTerm → Term
  | .node c s => .node c s
  | .lit a => a.term

/-- Python `x < y` on terms (`Identifier.__lt__` as in `ltTerm`; two literals: `pyLt`) -/
def vtLt : VTerm → VTerm → Bool
  | .node c s, .node c' s' => if c = c' then strLt s s' else decide (rank c < rank c')
  | .node c _, .lit _ => decide (rank c < rankLit)
  | .lit _, .node _ _ => false
  | .lit a, .lit b => pyLt a b

def sortVT (l : List VTerm) : List VTerm := sortG vtLt l

/-! ### families: where the order is a value order -/

/-- comparison key of a literal inside a family: the key of its value, or its lexical form when it has no value -/
inductive FKey
  | v (k : VKey)
  | l (x : Str)
  deriving DecidableEq

def FKey.lt : FKey → FKey → Bool
  | .v k, .v k' => VKey.lt k k'
  | .l x, .l y => strLt x y
  | _, _ => false

def VLit.key? (a : VLit) : Option VKey := a.val.bind PyVal.key?

def VLit.fkey (a : VLit) : FKey :=
  match a.key? with
  | some k => .v k
  | none => .l a.lex

/-- the families on which literal ordering is an order of keys -/
inductive Fam
  /-- well-typed literals of the numeric datatypes (any mixture of them) with a number (not NaN) as value -/
  | numeric
  /-- literals of ONE non-numeric datatype `d` (plain = xsd:string) and one language tag, whose values are all of one
      Python type `c` (not NaN, not a Duration — timedeltas are fine); in the xsd:string class the value is the lexical form -/
  | valued (d : Str) (lg : Option Str) (c : Nat)
  /-- literals of one datatype `d` (not xsd:string) and language without a value (ill-typed, unrecognised datatype) -/
  | lexical (d : Str) (lg : Option Str)

def Fam.mem : Fam → VLit → Bool
  | .numeric, a =>
    isNumericDt a.dt && !a.ill && (match a.key? with | some k => k.cls == 1 | none => false)
  | .valued d lg c, a =>
    !Tables.numericTypes.contains d && a.cdt == d && langKey a.lang == lg &&
    (match a.key? with | some k => k.cls == c | none => false) &&
    (match a.val with | some u => !u.noOrder | none => true) &&
    (d != Tables.xsdString || a.val == some (.str a.lex))
  | .lexical d lg, a =>
    d != Tables.xsdString && a.dt == some d && langKey a.lang == lg && a.val.isNone

/-- the keys the members of a family have -/
def Fam.keyOK : Fam → FKey → Bool
  | .numeric, .v k => k.cls == 1
  | .valued _ _ c, .v k => k.cls == c
  | .lexical _ _, .l _ => true
  | _, _ => false

end RV.C07
