import RV.C07.ValModel
import RV.C07.Lemmas
/-
  C07, round g — lemmas about the concrete value ordering of literals (`ValModel.lean`):
  the key orders are strict total orders per Python type, `>` is asymmetric, and on a family the
  operators are the key order.
-/
namespace RV.C07

/-! ### keys -/

theorem XRat.lt_irrefl (x : XRat) : XRat.lt x x = false := by
  cases x <;> simp [XRat.lt, Rat.lt_irrefl]

theorem XRat.lt_trans {x y z : XRat} (h1 : XRat.lt x y = true) (h2 : XRat.lt y z = true) :
    XRat.lt x z = true := by
  cases x <;> cases y <;> cases z <;> simp_all [XRat.lt] <;> grind

theorem XRat.lt_total {x y : XRat} (h1 : XRat.lt x y = false) (h2 : XRat.lt y x = false) : x = y := by
  cases x <;> cases y <;> simp_all [XRat.lt] <;> grind

theorem VKey.lt_irrefl (k : VKey) : VKey.lt k k = false := by
  cases k <;> simp [VKey.lt, strLt_irrefl, XRat.lt_irrefl]

theorem VKey.lt_cls {x y : VKey} (h : VKey.lt x y = true) : x.cls = y.cls := by
  cases x <;> cases y <;> simp_all [VKey.lt, VKey.cls]

theorem VKey.lt_trans {x y z : VKey} (h1 : VKey.lt x y = true) (h2 : VKey.lt y z = true) :
    VKey.lt x z = true := by
  cases x <;> cases y <;> simp [VKey.lt] at h1 <;> cases z <;> simp [VKey.lt] at h2 ⊢
  · exact strLt_trans h1 h2
  · exact XRat.lt_trans h1 h2
  · rename_i a i b j c k
    cases a <;> cases b <;> cases c <;> simp_all <;> omega
  · omega
  · exact strLt_trans h1 h2
  · rename_i a i b j c k
    cases a <;> cases b <;> cases c <;> simp_all <;> omega
  · omega

theorem VKey.lt_total {x y : VKey} (hc : x.cls = y.cls) (h1 : VKey.lt x y = false) (h2 : VKey.lt y x = false) :
    x = y := by
  cases x <;> cases y <;> simp [VKey.cls] at hc <;> simp [VKey.lt] at h1 h2 ⊢
  · rename_i s t
    by_cases e : s = t
    · exact e
    · rcases strLt_connected e with h | h
      · rw [h1] at h; cases h
      · rw [h2] at h; cases h
  · exact XRat.lt_total h1 h2
  · rename_i a i b j
    cases a <;> cases b <;> simp_all <;> omega
  · omega
  · rename_i s t
    by_cases e : s = t
    · exact e
    · rcases strLt_connected e with h | h
      · rw [h1] at h; cases h
      · rw [h2] at h; cases h
  · rename_i a i b j
    cases a <;> cases b <;> simp_all <;> omega
  · omega

theorem VKey.lt_asymm {x y : VKey} (h : VKey.lt x y = true) : VKey.lt y x = false := by
  cases hyx : VKey.lt y x with
  | false => rfl
  | true => have := VKey.lt_trans h hyx; rw [VKey.lt_irrefl] at this; cases this

theorem VKey.clash_symm (x y : VKey) : VKey.clash x y = VKey.clash y x := by
  cases x <;> cases y <;> simp [VKey.clash] <;> (rename_i a _ b _; cases a <;> cases b <;> rfl)

theorem VKey.clash_cls {x y : VKey} (h : x.cls ≠ 2) (h5 : x.cls ≠ 5) : VKey.clash x y = false := by
  cases x <;> cases y <;> simp_all [VKey.clash, VKey.cls]

theorem VKey.clash_self (x : VKey) : VKey.clash x x = false := by
  cases x <;> simp [VKey.clash]

theorem PyVal.key?_cls {u : PyVal} {k : VKey} (h : u.key? = some k) : u.cls = k.cls := by
  cases u <;> simp [PyVal.key?] at h <;> try (subst h; rfl)
  all_goals (rename_i w o; cases o <;> simp [PyVal.key?] at h <;> subst h <;> rfl)

theorem FKey.lt_irrefl (k : FKey) : FKey.lt k k = false := by
  cases k <;> simp [FKey.lt, VKey.lt_irrefl, strLt_irrefl]

theorem FKey.lt_trans {x y z : FKey} (h1 : FKey.lt x y = true) (h2 : FKey.lt y z = true) :
    FKey.lt x z = true := by
  cases x <;> cases y <;> simp [FKey.lt] at h1 <;> cases z <;> simp [FKey.lt] at h2 ⊢
  · exact VKey.lt_trans h1 h2
  · exact strLt_trans h1 h2

theorem FKey.lt_asymm {x y : FKey} (h : FKey.lt x y = true) : FKey.lt y x = false := by
  cases hyx : FKey.lt y x with
  | false => rfl
  | true => have := FKey.lt_trans h hyx; rw [FKey.lt_irrefl] at this; cases this

theorem FKey.lt_total (F : Fam) {x y : FKey} (hx : F.keyOK x = true) (hy : F.keyOK y = true)
    (h1 : FKey.lt x y = false) (h2 : FKey.lt y x = false) : x = y := by
  cases F <;> cases x <;> cases y <;> simp [Fam.keyOK] at hx hy <;> simp [FKey.lt] at h1 h2 ⊢
  · exact VKey.lt_total (hx.trans hy.symm) h1 h2
  · exact VKey.lt_total (hx.trans hy.symm) h1 h2
  · rename_i s t
    by_cases e : s = t
    · exact e
    · rcases strLt_connected e with h | h
      · rw [h1] at h; cases h
      · rw [h2] at h; cases h

/-- negative transitivity on a family: `x ≤ y ≤ z → x ≤ z` -/
theorem FKey.le_trans (F : Fam) {x y z : FKey} (hx : F.keyOK x = true) (hy : F.keyOK y = true)
    (h1 : FKey.lt y x = false) (h2 : FKey.lt z y = false) : FKey.lt z x = false := by
  cases hzx : FKey.lt z x with
  | false => rfl
  | true =>
    exfalso
    cases hxy : FKey.lt x y with
    | true => have := FKey.lt_trans hzx hxy; rw [h2] at this; cases this
    | false =>
      have e := FKey.lt_total F hx hy hxy h1
      subst e; rw [h2] at hzx; cases hzx

/-! ### values -/

theorem PyVal.gt_self (u : PyVal) : PyVal.gt u u ≠ some true := by
  simp only [PyVal.gt, ne_eq, not_true_eq_false, if_false, Bool.or_self]
  cases u.noOrder with
  | true => simp
  | false =>
    simp only [Bool.false_eq_true, if_false]
    cases h : u.key? with
    | none => simp
    | some k => simp [VKey.clash_self, VKey.lt_irrefl]

theorem PyVal.noOrder_cls {u : PyVal} (h : u.cls ≠ 6) : u.noOrder = false := by
  cases u <;> simp_all [PyVal.noOrder, PyVal.cls]

/-- `>` on values is asymmetric, and it raises in one direction iff it raises in the other -/
theorem PyVal.gt_asymm (u v : PyVal) :
    (PyVal.gt u v = none ↔ PyVal.gt v u = none) ∧ (PyVal.gt u v = some true → PyVal.gt v u = some false) := by
  simp only [PyVal.gt]
  by_cases hc : u.cls = v.cls
  · simp only [hc, ne_eq, not_true_eq_false, if_false, Bool.or_comm v.noOrder u.noOrder]
    cases hno : (u.noOrder || v.noOrder) with
    | true => simp
    | false =>
    simp only [Bool.false_eq_true, if_false]
    cases hu : u.key? with
    | none => cases hv : v.key? <;> simp
    | some k =>
      cases hv : v.key? with
      | none => simp
      | some k' =>
        simp only [VKey.clash_symm k' k]
        cases hcl : VKey.clash k k' with
        | true => simp
        | false =>
          simp only [Bool.false_eq_true, if_false, Option.some.injEq, reduceCtorEq, false_iff, not_false_eq_true, true_and]
          intro h
          exact VKey.lt_asymm h
  · have hc' : ¬ v.cls = u.cls := fun e => hc e.symm
    simp [hc, hc']

theorem PyVal.eq_symm (u v : PyVal) : PyVal.eq u v = PyVal.eq v u := by
  simp only [PyVal.eq]
  cases u.key? <;> cases v.key? <;> simp [eq_comm]

theorem castGt_asymm {u v : PyVal} (h : castGt u v = true) : castGt v u = false := by
  simp only [castGt] at h ⊢
  cases hu : u.key? with
  | none => simp [hu] at h
  | some k =>
    cases hv : v.key? with
    | none => simp [hu, hv] at h
    | some k' =>
      simp only [hu, hv] at h ⊢
      exact VKey.lt_asymm h

theorem usesCaster_symm (u v : PyVal) : usesCaster u v = usesCaster v u := by
  simp only [usesCaster, Bool.and_assoc]
  cases Tables.castsDatetime <;> simp [Bool.and_comm]

/-! ### `Literal.__gt__` is irreflexive and asymmetric (all carried values) -/

theorem optStrGt_asymm {a b : Option Str} (h : optStrGt a b = true) : optStrGt b a = false := by
  cases a <;> cases b <;> simp_all [optStrGt]
  exact strLt_asymm h

theorem gtTail_asymm {a b : VLit} (h : gtTail a b = true) : gtTail b a = false := by
  simp only [gtTail] at h ⊢
  by_cases e : a.lex = b.lex
  · simp only [e, ne_eq, not_true_eq_false, if_false] at h ⊢
    by_cases d : a.dt = b.dt
    · simp [d] at h
    · have d' : ¬ b.dt = a.dt := fun x => d x.symm
      simp only [d, d', ne_eq, not_false_eq_true, if_true] at h ⊢
      exact optStrGt_asymm h
  · have e' : ¬ b.lex = a.lex := fun x => e x.symm
    simp only [e, e', ne_eq, not_false_eq_true, if_true] at h ⊢
    exact strLt_asymm h

theorem gtGeneral_asymm {a b : VLit} (h : gtGeneral a b = true) : gtGeneral b a = false := by
  simp only [gtGeneral] at h ⊢
  by_cases e : a.cdt = b.cdt
  · simp only [e, ne_eq, not_true_eq_false, if_false] at h ⊢
    by_cases l : langKey a.lang = langKey b.lang
    · simp only [l, ne_eq, not_true_eq_false, if_false] at h ⊢
      cases ha : a.val with
      | none => simp only [ha] at h ⊢; cases b.val <;> exact gtTail_asymm h
      | some u =>
        cases hb : b.val with
        | none => simp only [ha, hb] at h ⊢; exact gtTail_asymm h
        | some v =>
          simp only [ha, hb, usesCaster_symm v u] at h ⊢
          cases hc : usesCaster u v with
          | true => simp only [hc, if_true] at h ⊢; exact castGt_asymm h
          | false =>
            simp only [hc, Bool.false_eq_true, if_false] at h ⊢
            have hs := PyVal.gt_asymm u v
            cases hg : PyVal.gt u v with
            | some r =>
              cases r with
              | false => simp [hg] at h
              | true => rw [hs.2 hg]
            | none =>
              rw [hs.1.mp hg]
              simp only [hg, PyVal.eq_symm v u] at h ⊢
              cases he : PyVal.eq u v with
              | true => simp [he] at h
              | false => simp only [he, Bool.false_eq_true, if_false] at h ⊢; exact gtTail_asymm h
    · have l' : ¬ langKey b.lang = langKey a.lang := fun x => l x.symm
      simp only [l, l', ne_eq, not_false_eq_true, if_true] at h ⊢
      exact optStrGt_asymm h
  · have e' : ¬ b.cdt = a.cdt := fun x => e x.symm
    simp only [e, e', ne_eq, not_false_eq_true, if_true] at h ⊢
    exact strLt_asymm h

theorem fastOK_symm (a b : VLit) : fastOK a b = fastOK b a := by
  simp only [fastOK]
  cases isNumericDt a.dt <;> cases isNumericDt b.dt <;> cases a.ill <;> cases b.ill <;>
    cases a.val.isSome <;> cases b.val.isSome <;> rfl

theorem litGtV_asymm {a b : VLit} (h : litGtV a b = true) : litGtV b a = false := by
  simp only [litGtV, fastOK_symm b a] at h ⊢
  cases hf : fastOK a b with
  | false => simp only [hf, Bool.false_eq_true, if_false] at h ⊢; exact gtGeneral_asymm h
  | true =>
    simp only [hf, if_true] at h ⊢
    cases ha : a.val with
    | none => simp only [ha] at h ⊢; cases b.val <;> exact gtGeneral_asymm h
    | some u =>
      cases hb : b.val with
      | none => simp only [ha, hb] at h ⊢; exact gtGeneral_asymm h
      | some v =>
        simp only [ha, hb] at h ⊢
        have hs := PyVal.gt_asymm u v
        cases hg : PyVal.gt u v with
        | some r =>
          cases r with
          | false => simp [hg] at h
          | true => rw [hs.2 hg]
        | none => rw [hs.1.mp hg]; simp only [hg] at h ⊢; exact gtGeneral_asymm h

theorem litGtV_irrefl (a : VLit) : litGtV a a = false := by
  cases h : litGtV a a with
  | false => rfl
  | true => have := litGtV_asymm h; rw [h] at this; cases this

/-! ### the operators on a family are the order of the keys -/

theorem casts_datetime : Tables.castsDatetime = true := by decide
theorem casts_time : Tables.castsTime = true := by decide

theorem not_numeric_cdt {a : VLit} {d : Str} (hd : Tables.numericTypes.contains d = false) (h : a.cdt = d) :
    isNumericDt a.dt = false := by
  cases hdt : a.dt with
  | none => rfl
  | some d' =>
    simp only [VLit.cdt, hdt, Option.getD_some] at h
    subst h
    simpa [isNumericDt] using hd

/-- what membership of a family gives -/
structure MemFacts (F : Fam) (a : VLit) : Prop where
  keyOK : F.keyOK a.fkey = true
  valued : ∀ k, a.fkey = .v k → ∃ u, a.val = some u ∧ u.key? = some k
  lexical : ∀ x, a.fkey = .l x → x = a.lex ∧ ∀ u, a.val = some u → u.key? = none

theorem fkey_facts (a : VLit) :
    (∀ k, a.fkey = .v k → ∃ u, a.val = some u ∧ u.key? = some k) ∧
    (∀ x, a.fkey = .l x → x = a.lex ∧ ∀ u, a.val = some u → u.key? = none) := by
  simp only [VLit.fkey, VLit.key?]
  cases hv : a.val with
  | none => simp
  | some u =>
    simp only [Option.bind_some]
    cases hk : u.key? with
    | none => simp [hk]
    | some k => simp [hk]

theorem mem_keyOK {F : Fam} {a : VLit} (h : F.mem a = true) : F.keyOK a.fkey = true := by
  cases F with
  | numeric =>
    simp only [Fam.mem, Bool.and_eq_true] at h
    obtain ⟨_, hk⟩ := h
    simp only [VLit.fkey]
    cases hkk : a.key? with
    | none => simp [hkk] at hk
    | some k => simpa [hkk, Fam.keyOK] using hk
  | valued d lg c =>
    simp only [Fam.mem, Bool.and_eq_true] at h
    obtain ⟨⟨⟨_, hk⟩, _⟩, _⟩ := h
    simp only [VLit.fkey]
    cases hkk : a.key? with
    | none => simp [hkk] at hk
    | some k => simpa [hkk, Fam.keyOK] using hk
  | lexical d lg =>
    simp only [Fam.mem, Bool.and_eq_true] at h
    obtain ⟨_, hv⟩ := h
    have : a.val = none := by simpa using hv
    simp [VLit.fkey, VLit.key?, this, Fam.keyOK]

/-- `Literal.__gt__` and `Literal.eq` on two members of a family -/
theorem fam_gt_eq (F : Fam) {a b : VLit} (ha : F.mem a = true) (hb : F.mem b = true) :
    litGtV a b = FKey.lt b.fkey a.fkey ∧
    litEqV a b = (match F with
      | .lexical _ _ => if a.lex = b.lex then some true else none
      | _ => some (decide (a.fkey = b.fkey))) := by
  cases F with
  | numeric =>
    simp only [Fam.mem, Bool.and_eq_true, Bool.not_eq_true'] at ha hb
    obtain ⟨⟨hda, hia⟩, hka⟩ := ha
    obtain ⟨⟨hdb, hib⟩, hkb⟩ := hb
    cases hkka : a.key? with
    | none => simp [hkka] at hka
    | some k =>
      cases hkkb : b.key? with
      | none => simp [hkkb] at hkb
      | some k' =>
        simp only [hkka, hkkb, beq_iff_eq] at hka hkb
        simp only [VLit.key?] at hkka hkkb
        cases hva : a.val with
        | none => simp [hva] at hkka
        | some u =>
          cases hvb : b.val with
          | none => simp [hvb] at hkkb
          | some v =>
            simp only [hva, hvb, Option.bind_some] at hkka hkkb
            have hf : fastOK a b = true := by simp [fastOK, hda, hdb, hia, hib, hva, hvb]
            have hcu : u.cls = 1 := (PyVal.key?_cls hkka).trans hka
            have hcv : v.cls = 1 := (PyVal.key?_cls hkkb).trans hkb
            have hcl : VKey.clash k k' = false := VKey.clash_cls (by rw [hka]; decide) (by rw [hka]; decide)
            have hnu : u.noOrder = false := PyVal.noOrder_cls (by rw [hcu]; decide)
            have hnv : v.noOrder = false := PyVal.noOrder_cls (by rw [hcv]; decide)
            have hgt : PyVal.gt u v = some (VKey.lt k' k) := by
              simp [PyVal.gt, hcu, hcv, hkka, hkkb, hcl, hnu, hnv]
            have hfa : a.fkey = .v k := by simp [VLit.fkey, VLit.key?, hva, hkka]
            have hfb : b.fkey = .v k' := by simp [VLit.fkey, VLit.key?, hvb, hkkb]
            refine ⟨?_, ?_⟩
            · simp [litGtV, hf, hva, hvb, hgt, hfa, hfb, FKey.lt]
            · simp [litEqV, hf, hva, hvb, PyVal.eq, hkka, hkkb, hfa, hfb]
  | valued d lg c =>
    simp only [Fam.mem, Bool.and_eq_true, Bool.not_eq_true', beq_iff_eq, Bool.or_eq_true, bne_iff_ne, ne_eq] at ha hb
    obtain ⟨⟨⟨⟨⟨hd, hca⟩, hla⟩, hka⟩, hoa⟩, hsa⟩ := ha
    obtain ⟨⟨⟨⟨⟨_, hcb⟩, hlb⟩, hkb⟩, hob⟩, hsb⟩ := hb
    cases hkka : a.key? with
    | none => simp [hkka] at hka
    | some k =>
      cases hkkb : b.key? with
      | none => simp [hkkb] at hkb
      | some k' =>
        simp only [hkka, hkkb, beq_iff_eq] at hka hkb
        simp only [VLit.key?] at hkka hkkb
        cases hva : a.val with
        | none => simp [hva] at hkka
        | some u =>
          cases hvb : b.val with
          | none => simp [hvb] at hkkb
          | some v =>
            simp only [hva, hvb, Option.bind_some] at hkka hkkb
            have hnu : u.noOrder = false := by simpa [hva] using hoa
            have hnv : v.noOrder = false := by simpa [hvb] using hob
            have hna : isNumericDt a.dt = false := not_numeric_cdt hd hca
            have hf : fastOK a b = false := by simp [fastOK, hna]
            have hcu : u.cls = c := (PyVal.key?_cls hkka).trans hka
            have hcv : v.cls = c := (PyVal.key?_cls hkkb).trans hkb
            have hfa : a.fkey = .v k := by simp [VLit.fkey, VLit.key?, hva, hkka]
            have hfb : b.fkey = .v k' := by simp [VLit.fkey, VLit.key?, hvb, hkkb]
            have hgg : gtGeneral a b = VKey.lt k' k := by
              simp only [gtGeneral, hca, hcb, hla, hlb, ne_eq, not_true_eq_false, if_false, hva, hvb]
              by_cases h2 : c = 2 ∨ c = 5
              · have : usesCaster u v = true := by
                  rcases h2 with h2 | h2 <;> simp [usesCaster, casts_datetime, casts_time, hcu, hcv, h2]
                simp [this, castGt, hkka, hkkb]
              · have h2' : c ≠ 2 := fun e => h2 (Or.inl e)
                have h5' : c ≠ 5 := fun e => h2 (Or.inr e)
                have : usesCaster u v = false := by simp [usesCaster, hcu, h2', h5']
                have hcl : VKey.clash k k' = false := VKey.clash_cls (by rw [hka]; exact h2') (by rw [hka]; exact h5')
                simp [this, PyVal.gt, hcu, hcv, hkka, hkkb, hcl, hnu, hnv]
            refine ⟨?_, ?_⟩
            · simp [litGtV, hf, hgg, hfa, hfb, FKey.lt]
            · simp only [litEqV, hf, hla, hlb, ne_eq, not_true_eq_false, if_false, hca, hcb, and_self, hva, hvb,
                hfa, hfb, FKey.v.injEq]
              by_cases hs : d = Tables.xsdString
              · have e1 := hsa.resolve_left (by simpa using hs)
                have e2 := hsb.resolve_left (by simpa using hs)
                rw [hva] at e1; rw [hvb] at e2
                simp only [Option.some.injEq] at e1 e2
                subst e1 e2
                simp only [PyVal.key?, Option.some.injEq] at hkka hkkb
                subst hkka hkkb
                simp [hs]
              · simp [hs, PyVal.eq, hkka, hkkb]
  | lexical d lg =>
    simp only [Fam.mem, Bool.and_eq_true, beq_iff_eq, bne_iff_ne, ne_eq, Option.isNone_iff_eq_none] at ha hb
    obtain ⟨⟨⟨hd, hda⟩, hla⟩, hva⟩ := ha
    obtain ⟨⟨⟨_, hdb⟩, hlb⟩, hvb⟩ := hb
    have hf : fastOK a b = false := by simp [fastOK, hva]
    have hfa : a.fkey = .l a.lex := by simp [VLit.fkey, VLit.key?, hva]
    have hfb : b.fkey = .l b.lex := by simp [VLit.fkey, VLit.key?, hvb]
    have hca : a.cdt = d := by simp [VLit.cdt, hda]
    have hcb : b.cdt = d := by simp [VLit.cdt, hdb]
    refine ⟨?_, ?_⟩
    · simp only [litGtV, hf, Bool.false_eq_true, if_false, gtGeneral, hca, hcb, hla, hlb, ne_eq, not_true_eq_false,
        hva, hvb, gtTail, hda, hdb, hfa, hfb, FKey.lt]
      by_cases e : a.lex = b.lex
      · simp [e, strLt_irrefl]
      · simp [e]
    · simp only [litEqV, hf, hla, hlb, ne_eq, not_true_eq_false, if_false, hca, hcb, hva, hvb, hda]
      have : ¬ (d = Tables.xsdString ∧ d = Tables.xsdString) := fun h => hd h.1
      simp [this, hd]

/-- Python `a < b` on two members of a family -/
theorem fam_lt (F : Fam) {a b : VLit} (ha : F.mem a = true) (hb : F.mem b = true) :
    pyLt a b = FKey.lt a.fkey b.fkey := by
  obtain ⟨hg, he⟩ := fam_gt_eq F ha hb
  obtain ⟨hg', _⟩ := fam_gt_eq F hb ha
  have ka := mem_keyOK ha
  have kb := mem_keyOK hb
  simp only [pyLt, litLtV, hg, hg']
  cases hba : FKey.lt b.fkey a.fkey with
  | true => simp [FKey.lt_asymm hba]
  | false =>
    simp only [Bool.false_eq_true, if_false]
    cases F with
    | lexical d lg =>
      simp only at he
      rw [he]
      by_cases e : a.lex = b.lex
      · have : a.fkey = b.fkey := by
          have h1 := (fkey_facts a); have h2 := (fkey_facts b)
          cases hfa : a.fkey with
          | v k => simp [Fam.keyOK, hfa] at ka
          | l x =>
            cases hfb : b.fkey with
            | v k => simp [Fam.keyOK, hfb] at kb
            | l y => rw [(h1.2 x hfa).1, (h2.2 y hfb).1, e]
        simp [e, this, FKey.lt_irrefl]
      · simp [e]
    | numeric =>
      simp only at he
      rw [he]
      by_cases e : a.fkey = b.fkey
      · simp [e, FKey.lt_irrefl]
      · simp only [e, decide_false, Option.map_some, Bool.not_false]
        cases hab : FKey.lt a.fkey b.fkey with
        | true => rfl
        | false => exact absurd (FKey.lt_total _ ka kb hab hba) e
    | valued d lg c =>
      simp only at he
      rw [he]
      by_cases e : a.fkey = b.fkey
      · simp [e, FKey.lt_irrefl]
      · simp only [e, decide_false, Option.map_some, Bool.not_false]
        cases hab : FKey.lt a.fkey b.fkey with
        | true => rfl
        | false => exact absurd (FKey.lt_total _ ka kb hab hba) e

/-! ### sorting -/

theorem perm_insertG {α} (lt : α → α → Bool) (x : α) : ∀ l : List α, (insertG lt x l).Perm (x :: l)
  | [] => List.Perm.refl _
  | z :: zs => by
    simp only [insertG]
    split
    · exact ((perm_insertG lt x zs).cons z).trans (List.Perm.swap x z zs)
    · exact List.Perm.refl _

theorem perm_sortG {α} (lt : α → α → Bool) : ∀ l : List α, (sortG lt l).Perm l
  | [] => List.Perm.refl _
  | x :: xs => by
    simp only [sortG, List.foldr_cons]
    exact (perm_insertG lt x _).trans ((perm_sortG lt xs).cons x)

/-- sorting by `lt` is sorting the keys when `lt` is the order of the keys -/
theorem map_insertG {α β} (lt : α → α → Bool) (R : β → β → Bool) (k : α → β) (x : α) :
    ∀ l : List α, (∀ y ∈ l, lt y x = R (k y) (k x)) → (insertG lt x l).map k = insertG R (k x) (l.map k)
  | [], _ => rfl
  | z :: zs, h => by
    have hz := h z List.mem_cons_self
    have ih := map_insertG lt R k x zs (fun y hy => h y (List.mem_cons_of_mem _ hy))
    simp only [insertG, List.map_cons, hz]
    split
    · simp [ih]
    · simp

theorem map_sortG {α β} (lt : α → α → Bool) (R : β → β → Bool) (k : α → β) :
    ∀ l : List α, (∀ x ∈ l, ∀ y ∈ l, lt x y = R (k x) (k y)) → (sortG lt l).map k = sortG R (l.map k)
  | [], _ => rfl
  | x :: xs, h => by
    have ih := map_sortG lt R k xs (fun a ha b hb => h a (List.mem_cons_of_mem _ ha) b (List.mem_cons_of_mem _ hb))
    simp only [sortG, List.foldr_cons, List.map_cons] at ih ⊢
    rw [← ih]
    apply map_insertG
    intro y hy
    have hy' : y ∈ xs := (perm_sortG lt xs).mem_iff.mp hy
    exact h y (List.mem_cons_of_mem _ hy') x List.mem_cons_self

/-- increasing list of keys: no later key is `<` an earlier one -/
def KSorted : List FKey → Prop
  | [] => True
  | x :: xs => (∀ y ∈ xs, FKey.lt y x = false) ∧ KSorted xs

theorem mem_insertG {α} (lt : α → α → Bool) (x y : α) (l : List α) : y ∈ insertG lt x l ↔ y = x ∨ y ∈ l := by
  rw [(perm_insertG lt x l).mem_iff, List.mem_cons]

theorem ksorted_insert (F : Fam) {x : FKey} (hx : F.keyOK x = true) :
    ∀ {l : List FKey}, (∀ t ∈ l, F.keyOK t = true) → KSorted l → KSorted (insertG FKey.lt x l)
  | [], _, _ => by simp [insertG, KSorted]
  | z :: zs, hl, hs => by
    have hz := hl z List.mem_cons_self
    have hzs : ∀ t ∈ zs, F.keyOK t = true := fun t ht => hl t (List.mem_cons_of_mem _ ht)
    simp only [insertG]
    split
    · next h =>
      refine ⟨?_, ksorted_insert F hx hzs hs.2⟩
      intro y hy
      rcases (mem_insertG _ x y zs).mp hy with e | hy
      · subst e; exact FKey.lt_asymm h
      · exact hs.1 y hy
    · next h =>
      have h : FKey.lt z x = false := by simpa using h
      refine ⟨?_, hs⟩
      intro y hy
      rcases List.mem_cons.mp hy with e | hy
      · subst e; exact h
      · exact FKey.le_trans F hx hz h (hs.1 y hy)

theorem ksorted_sort (F : Fam) : ∀ {l : List FKey}, (∀ t ∈ l, F.keyOK t = true) → KSorted (sortG FKey.lt l)
  | [], _ => trivial
  | x :: xs, hl => by
    simp only [sortG, List.foldr_cons]
    have hxs : ∀ t ∈ xs, F.keyOK t = true := fun t ht => hl t (List.mem_cons_of_mem _ ht)
    refine ksorted_insert F (hl x List.mem_cons_self) ?_ (ksorted_sort F hxs)
    intro t ht
    exact hxs t ((perm_sortG _ xs).mem_iff.mp ht)

theorem ksorted_perm_unique (F : Fam) :
    ∀ {l₁ l₂ : List FKey}, (∀ t ∈ l₁, F.keyOK t = true) → KSorted l₁ → KSorted l₂ → l₁.Perm l₂ → l₁ = l₂
  | [], l₂, _, _, _, hp => (List.Perm.nil_eq hp)
  | x :: xs, [], _, _, _, hp => by simpa using hp.length_eq
  | x :: xs, y :: ys, hn, h1, h2, hp => by
    have hx := hn x List.mem_cons_self
    have hy1 : y ∈ x :: xs := hp.mem_iff.mpr List.mem_cons_self
    have hx2 : x ∈ y :: ys := hp.mem_iff.mp List.mem_cons_self
    have hy := hn y hy1
    have a1 : FKey.lt y x = false := by
      rcases List.mem_cons.mp hy1 with e' | h
      · rw [e']; exact FKey.lt_irrefl x
      · exact h1.1 y h
    have a2 : FKey.lt x y = false := by
      rcases List.mem_cons.mp hx2 with e' | h
      · rw [e']; exact FKey.lt_irrefl y
      · exact h2.1 x h
    have hxy : x = y := FKey.lt_total F hx hy a2 a1
    subst hxy
    have hp' : xs.Perm ys := List.Perm.cons_inv hp
    rw [ksorted_perm_unique F (fun t ht => hn t (List.mem_cons_of_mem _ ht)) h1.2 h2.2 hp']

/-- the keys of the sorted list of a family's members depend only on the multiset -/
theorem fam_sort_keys (F : Fam) {l l' : List VLit} (hl : ∀ a ∈ l, F.mem a = true) (hp : l.Perm l') :
    (sortV l).map VLit.fkey = (sortV l').map VLit.fkey ∧ KSorted ((sortV l).map VLit.fkey) := by
  have hl' : ∀ a ∈ l', F.mem a = true := fun a ha => hl a (hp.mem_iff.mpr ha)
  have m1 := map_sortG pyLt FKey.lt VLit.fkey l (fun x hx y hy => fam_lt F (hl x hx) (hl y hy))
  have m2 := map_sortG pyLt FKey.lt VLit.fkey l' (fun x hx y hy => fam_lt F (hl' x hx) (hl' y hy))
  have k1 : ∀ t ∈ l.map VLit.fkey, F.keyOK t = true := by
    intro t ht
    obtain ⟨a, ha, rfl⟩ := List.mem_map.mp ht
    exact mem_keyOK (hl a ha)
  have k2 : ∀ t ∈ l'.map VLit.fkey, F.keyOK t = true := by
    intro t ht
    obtain ⟨a, ha, rfl⟩ := List.mem_map.mp ht
    exact mem_keyOK (hl' a ha)
  have s1 := ksorted_sort F k1
  have s2 := ksorted_sort F k2
  have p : (sortG FKey.lt (l.map VLit.fkey)).Perm (sortG FKey.lt (l'.map VLit.fkey)) :=
    (perm_sortG _ _).trans ((hp.map _).trans (perm_sortG _ _).symm)
  have k1' : ∀ t ∈ sortG FKey.lt (l.map VLit.fkey), F.keyOK t = true :=
    fun t ht => k1 t ((perm_sortG _ _).mem_iff.mp ht)
  simp only [sortV]
  rw [m1, m2]
  exact ⟨ksorted_perm_unique F k1' s1 s2 p, s1⟩

theorem lex_fkey {d : Str} {lg : Option Str} {a : VLit} (h : (Fam.lexical d lg).mem a = true) : a.fkey = .l a.lex := by
  simp only [Fam.mem, Bool.and_eq_true] at h
  have : a.val = none := by simpa using h.2
  simp [VLit.fkey, VLit.key?, this]

/-- value equality (`Literal.eq`) on a family is equality of keys -/
theorem fam_eq_iff (F : Fam) {a b : VLit} (ha : F.mem a = true) (hb : F.mem b = true) :
    litEqV a b = some true ↔ a.fkey = b.fkey := by
  obtain ⟨_, he⟩ := fam_gt_eq F ha hb
  cases F with
  | lexical d lg =>
    simp only at he
    rw [he, lex_fkey ha, lex_fkey hb]
    by_cases e : a.lex = b.lex <;> simp [e]
  | numeric => simp only at he; rw [he]; simp
  | valued d lg c => simp only at he; rw [he]; simp

/-- two lists related position by position (and of the same length) -/
inductive Pointwise {α} (R : α → α → Prop) : List α → List α → Prop
  | nil : Pointwise R [] []
  | cons {a b : α} {l l' : List α} : R a b → Pointwise R l l' → Pointwise R (a :: l) (b :: l')

theorem forall₂_of_map_eq {α β} (f : α → β) : ∀ {l l' : List α}, l.map f = l'.map f →
    Pointwise (fun a b => f a = f b) l l'
  | [], [], _ => Pointwise.nil
  | [], _ :: _, h => by simp at h
  | _ :: _, [], h => by simp at h
  | x :: xs, y :: ys, h => by
    simp only [List.map_cons, List.cons.injEq] at h
    exact Pointwise.cons h.1 (forall₂_of_map_eq f h.2)

theorem forall₂_imp_mem {α} {R S : α → α → Prop} : ∀ {l l' : List α}, Pointwise R l l' →
    (∀ a ∈ l, ∀ b ∈ l', R a b → S a b) → Pointwise S l l'
  | _, _, Pointwise.nil, _ => Pointwise.nil
  | _, _, Pointwise.cons h t, H =>
    Pointwise.cons (H _ List.mem_cons_self _ List.mem_cons_self h)
      (forall₂_imp_mem t (fun a ha b hb => H a (List.mem_cons_of_mem _ ha) b (List.mem_cons_of_mem _ hb)))

theorem pairwise_of_ksorted (F : Fam) : ∀ {s : List VLit}, (∀ a ∈ s, F.mem a = true) → KSorted (s.map VLit.fkey) →
    List.Pairwise (fun a b => pyLt b a = false) s
  | [], _, _ => List.Pairwise.nil
  | x :: xs, hm, hs => by
    simp only [List.map_cons, KSorted] at hs
    refine List.Pairwise.cons ?_ (pairwise_of_ksorted F (fun a ha => hm a (List.mem_cons_of_mem _ ha)) hs.2)
    intro y hy
    rw [fam_lt F (hm y (List.mem_cons_of_mem _ hy)) (hm x List.mem_cons_self)]
    exact hs.1 _ (List.mem_map.mpr ⟨y, hy, rfl⟩)

end RV.C07
