import RV.C07.Model
/-
  C07 helper lemmas, part 4: the white-space rule of xsd:normalizedString / xsd:token is idempotent,
  so a literal that went through `Literal.__new__` once is not changed by going through it again.
-/
namespace RV.C07

def wsMap (c : Char) : Char := if c = '\t' ∨ c = '\n' ∨ c = '\r' then ' ' else c

theorem normString_eq (s : Str) : normString s = s.map wsMap := rfl

theorem wsMap_idem (c : Char) : wsMap (wsMap c) = wsMap c := by
  unfold wsMap
  by_cases h : c = '\t' ∨ c = '\n' ∨ c = '\r'
  · simp only [h, if_true]; decide
  · simp only [h, if_false]

theorem normString_idem (s : Str) : normString (normString s) = normString s := by
  simp [normString_eq, List.map_map, Function.comp_def, wsMap_idem]

theorem normString_fixed : ∀ s : Str, (∀ c ∈ s, wsMap c = c) → normString s = s
  | [], _ => rfl
  | c :: s, h => by
    rw [normString_eq, List.map_cons, h c List.mem_cons_self, ← normString_eq,
      normString_fixed s (fun x hx => h x (List.mem_cons_of_mem _ hx))]

theorem mem_normString_fixed (s : Str) : ∀ c ∈ normString s, wsMap c = c := by
  intro c hc
  rw [normString_eq, List.mem_map] at hc
  obtain ⟨a, _, rfl⟩ := hc
  exact wsMap_idem a

/-! ### `collapse` -/

theorem collapse_sp_sp (s : Str) : collapse (' ' :: ' ' :: s) = collapse (' ' :: s) := by
  rw [collapse]

theorem collapse_cons_of_not (c : Char) (s : Str) (h : ¬ (c = ' ' ∧ s.head? = some ' ')) :
    collapse (c :: s) = c :: collapse s := by
  rw [collapse]
  intro s' hc hs
  apply h
  exact ⟨hc, by rw [hs]; rfl⟩

theorem mem_collapse : ∀ (s : Str) (c : Char), c ∈ collapse s → c ∈ s := by
  intro s
  induction s using collapse.induct with
  | case1 s ih =>
    intro c hc
    rw [collapse_sp_sp] at hc
    exact List.mem_cons_of_mem _ (ih c hc)
  | case2 x s hnot ih =>
    intro c hc
    rw [collapse] at hc
    · rcases List.mem_cons.mp hc with e | hc
      · exact List.mem_cons.mpr (Or.inl e)
      · exact List.mem_cons_of_mem _ (ih c hc)
    · exact hnot
  | case3 => intro c hc; simp [collapse] at hc

theorem head_collapse : ∀ s : Str, (collapse s).head? = s.head? := by
  intro s
  induction s using collapse.induct with
  | case1 s ih => rw [collapse_sp_sp, ih]; rfl
  | case2 x s hnot _ => rw [collapse]; · rfl
                        · exact hnot
  | case3 => rfl

theorem collapse_eq_nil : ∀ s : Str, collapse s = [] ↔ s = [] := by
  intro s
  constructor
  · intro h
    have := head_collapse s
    rw [h] at this
    cases s with
    | nil => rfl
    | cons c s => simp at this
  · intro h; subst h; rfl

theorem getLast_collapse : ∀ s : Str, (collapse s).getLast? = s.getLast? := by
  intro s
  induction s using collapse.induct with
  | case1 s ih => rw [collapse_sp_sp, ih]; simp [List.getLast?_cons_cons]
  | case2 x s hnot ih =>
    rw [collapse]
    · cases hs : s with
      | nil => simp [collapse]
      | cons y s' =>
        have hne : collapse (y :: s') ≠ [] := fun e => by
          have := (collapse_eq_nil (y :: s')).mp e; cases this
        rw [hs] at ih
        cases hc : collapse (y :: s') with
        | nil => exact absurd hc hne
        | cons z zs =>
          rw [hc] at ih
          rw [List.getLast?_cons_cons, List.getLast?_cons_cons, ih]
    · exact hnot
  | case3 => rfl

theorem collapse_idem : ∀ s : Str, collapse (collapse s) = collapse s := by
  intro s
  induction s using collapse.induct with
  | case1 s ih => rw [collapse_sp_sp, ih]
  | case2 x s hnot ih =>
    have hnot' : ¬ (x = ' ' ∧ s.head? = some ' ') := by
      intro ⟨hx, hs⟩
      cases s with
      | nil => simp at hs
      | cons y s' =>
        simp only [List.head?_cons, Option.some.injEq] at hs
        exact hnot s' hx (by rw [hs])
    rw [collapse_cons_of_not x s hnot']
    rw [collapse_cons_of_not x (collapse s) (by rw [head_collapse]; exact hnot'), ih]
  | case3 => rfl

/-! ### `strip(" ")` -/

/-- no #x20 at either end -/
def Trimmed (s : Str) : Prop :=
  (∀ c, s.head? = some c → isSp c = false) ∧ (∀ c, s.getLast? = some c → isSp c = false)

theorem stripL_of_head {s : Str} (h : ∀ c, s.head? = some c → isSp c = false) : stripSpL s = s := by
  cases s with
  | nil => rfl
  | cons c s => simp [stripSpL, List.dropWhile, h c rfl]

theorem strip_of_trimmed {s : Str} (h : Trimmed s) : stripSp s = s := by
  unfold stripSp
  rw [stripL_of_head h.1]
  rw [stripL_of_head (s := s.reverse) (by intro c hc; rw [List.head?_reverse] at hc; exact h.2 c hc)]
  exact List.reverse_reverse s

theorem head_stripL (s : Str) : ∀ c, (stripSpL s).head? = some c → isSp c = false := by
  intro c hc
  have := List.head?_dropWhile_not isSp s
  simp only [stripSpL] at hc
  rw [hc] at this
  simpa using this

theorem stripL_cons (x : Char) (s : Str) : stripSpL (x :: s) = if isSp x then stripSpL s else x :: s := by
  simp only [stripSpL, List.dropWhile]
  cases isSp x <;> rfl

theorem getLast_stripL (s : Str) : stripSpL s ≠ [] → (stripSpL s).getLast? = s.getLast? := by
  induction s with
  | nil => intro h; exact absurd rfl h
  | cons x s ih =>
    intro h
    rw [stripL_cons] at h ⊢
    cases hx : isSp x with
    | true =>
      simp only [hx, if_true] at h ⊢
      rw [ih h]
      cases s with
      | nil => exact absurd rfl h
      | cons y s' => rw [List.getLast?_cons_cons]
    | false => simp

theorem trimmed_strip (s : Str) : Trimmed (stripSp s) := by
  unfold stripSp
  constructor
  · intro c hc
    rw [List.head?_reverse] at hc
    by_cases hne : stripSpL (stripSpL s).reverse = []
    · rw [hne] at hc; simp at hc
    · rw [getLast_stripL _ hne, List.getLast?_reverse] at hc
      exact head_stripL s c hc
  · intro c hc
    rw [List.getLast?_reverse] at hc
    exact head_stripL _ c hc

theorem mem_stripL (s : Str) (c : Char) (h : c ∈ stripSpL s) : c ∈ s :=
  (List.dropWhile_sublist _).subset h

theorem mem_strip (s : Str) (c : Char) (h : c ∈ stripSp s) : c ∈ s := by
  unfold stripSp at h
  rw [List.mem_reverse] at h
  have := mem_stripL _ c h
  rw [List.mem_reverse] at this
  exact mem_stripL s c this

theorem trimmed_collapse {s : Str} (h : Trimmed s) : Trimmed (collapse s) :=
  ⟨by rw [head_collapse]; exact h.1, by rw [getLast_collapse]; exact h.2⟩

/-! ### the rule as a whole -/

theorem wsNorm_idem (d : Option Str) (y : Str) : wsNorm d (wsNorm d y) = wsNorm d y := by
  unfold wsNorm
  by_cases h1 : d = some Tables.xsdNormalizedString
  · simp only [h1, if_true]; exact normString_idem y
  · by_cases h2 : d = some Tables.xsdToken
    · subst h2
      have hne : (some Tables.xsdToken = some Tables.xsdNormalizedString) = False := by simpa using h1
      simp only [hne, if_false, if_true]
      have hn : normString (collapse (stripSp (normString y))) = collapse (stripSp (normString y)) := by
        apply normString_fixed
        intro c hc
        exact mem_normString_fixed y c (mem_strip _ c (mem_collapse _ c hc))
      rw [hn, strip_of_trimmed (trimmed_collapse (trimmed_strip _)), collapse_idem]
    · simp only [h1, h2, if_false]

end RV.C07
