import RV.C10.Translate
import RV.C04.Props
/-
  C10 — lemmas for WHERE clauses of the full algebra (`WMode.alg`): the bridge to the C04 model and theorems.

  * `perm_index`            a permutation of a list is a re-indexing by a bijection of positions
  * `ofC04_toC04`           the term embedding into C04's terms is injective (it has a left inverse)
  * `blookup_rowToBinding`  a row of the evaluator, read as a binding list, has exactly the row's values
  * `toC04_WF`              distinct graph names give a well-formed C04 dataset
  * `solutions_alg`         `Modify.solutions` in the case `WMode.alg`
-/
namespace RV.C10

theorem perm_index {α : Type} {l l' : List α} (h : l.Perm l') :
    ∃ π ρ : Nat → Nat, (∀ i, ρ (π i) = i) ∧ (∀ i, π (ρ i) = i) ∧ ∀ i, l'[i]? = l[π i]? := by
  induction h with
  | nil => exact ⟨id, id, fun _ => rfl, fun _ => rfl, fun _ => rfl⟩
  | cons a _ ih =>
    obtain ⟨π, ρ, h1, h2, h3⟩ := ih
    refine ⟨fun i => match i with | 0 => 0 | i + 1 => π i + 1,
            fun i => match i with | 0 => 0 | i + 1 => ρ i + 1, ?_, ?_, ?_⟩
    · intro i; cases i <;> simp [h1]
    · intro i; cases i <;> simp [h2]
    · intro i; cases i <;> simp [h3]
  | swap a b l =>
    refine ⟨fun i => match i with | 0 => 1 | 1 => 0 | i + 2 => i + 2,
            fun i => match i with | 0 => 1 | 1 => 0 | i + 2 => i + 2, ?_, ?_, ?_⟩
    · intro i; rcases i with _ | _ | i <;> rfl
    · intro i; rcases i with _ | _ | i <;> rfl
    · intro i; rcases i with _ | _ | i <;> simp
  | trans _ _ ih1 ih2 =>
    obtain ⟨π1, ρ1, a1, b1, c1⟩ := ih1
    obtain ⟨π2, ρ2, a2, b2, c2⟩ := ih2
    refine ⟨fun i => π1 (π2 i), fun i => ρ2 (ρ1 i), ?_, ?_, ?_⟩
    · intro i; simp [a1, a2]
    · intro i; simp [b1, b2]
    · intro i; rw [c2, c1]

/-! ### the term embedding -/

theorem ofC04_toC04 (t : Term) : ofC04 (toC04 t) = t := by
  cases t with
  | iri n => rfl
  | bnode n => rfl
  | fresh n => rfl
  | lit n =>
    by_cases h : n ∈ [20, 21, 22, 24, 25, 26, 27]
    · simp only [List.mem_cons, List.not_mem_nil, or_false] at h
      rcases h with rfl | rfl | rfl | rfl | rfl | rfl | rfl <;> rfl
    · simp only [List.mem_cons, List.not_mem_nil, or_false, not_or] at h
      obtain ⟨h1, h2, h3, h4, h5, h6, h7⟩ := h
      have hl : litLookup litTable n = none := by
        simp [litLookup, litTable, Ne.symm h1, Ne.symm h2, Ne.symm h3, Ne.symm h4, Ne.symm h5, Ne.symm h6, Ne.symm h7]
      simp only [toC04, hl]
      rfl

theorem toC04_injective : Function.Injective toC04 := by
  intro a b h
  rw [← ofC04_toC04 a, ← ofC04_toC04 b, h]

theorem tripleToC04_injective : Function.Injective tripleToC04 := by
  intro a b h
  obtain ⟨a1, a2, a3⟩ := a
  obtain ⟨b1, b2, b3⟩ := b
  simp only [tripleToC04, Prod.mk.injEq] at h
  rw [toC04_injective h.1, toC04_injective h.2.1, toC04_injective h.2.2]

/-! ### the dataset -/

theorem toC04_WF (d : WhereDS) (h : (d.named.map (·.1)).Nodup) : d.toC04.WF := by
  unfold C04.Dataset.WF WhereDS.toC04
  simp only [List.map_map]
  have : (List.map ((fun x => x.1) ∘ fun e : Nat × List Triple => (C04.Term.iri e.1, List.map tripleToC04 e.2)) d.named) =
      (d.named.map (·.1)).map C04.Term.iri := by
    simp [List.map_map, Function.comp_def]
  rw [this]
  exact h.map (fun a b e => by cases e; rfl)

theorem storeDataset_names (c : Cfg) (s : St) (w : Option Nat) :
    (storeDataset c s w).named.map (·.1) = s.known := by
  simp [storeDataset, List.map_map, Function.comp_def]

theorem algDataset_WF (c : Cfg) (u : Modify) (s : St) (h : s.known.Nodup) : (u.algDataset c s).toC04.WF := by
  apply toC04_WF
  unfold Modify.algDataset
  split
  · rw [storeDataset_names]; exact h
  · simp only [WhereDS.nonEmptyNamed, usingDataset]
    have hs : (List.filter (fun e : Nat × List Triple => !e.2.isEmpty)
        (List.map (fun g => (g, graphTriples s.quads (some g))) (dedup u.named))).Sublist
        (List.map (fun g => (g, graphTriples s.quads (some g))) (dedup u.named)) := List.filter_sublist
    refine (hs.map _).nodup ?_
    simp only [List.map_map, Function.comp_def, List.map_id']
    exact nodup_dedup _

/-- `Modify.solutions` for a full-algebra WHERE clause: the C04 evaluator on the selected dataset -/
theorem solutions_alg (c : Cfg) (u : Modify) (s : St) {n : Nat} {P : C04.Alg} (hw : u.wmode = .alg n P)
    (hf : u.flt = none) : u.solutions c s = algSolutions (u.algDataset c s) n P := by
  unfold Modify.solutions Modify.algDataset
  simp only [hw, hf]
  split <;> rfl

end RV.C10
