import RV.C10.Lemmas
/-
  C10 — helper lemmas, part 2: what the two loops of `evalModify` leave in the store.
-/
namespace RV.C10

theorem deleteSolution_next (tpl : List QTpl) (tgt : GName) (s : St) (μ : Binding) :
    (deleteSolution tpl tgt s μ).next = s.next := by
  unfold deleteSolution; exact removeAll_next _ _

theorem mem_deleteSolution (tpl : List QTpl) (tgt : GName) (s : St) (μ : Binding) (x : Quad) :
    x ∈ (deleteSolution tpl tgt s μ).quads ↔ x ∈ s.quads ∧ x ∉ fillTemplate μ [] tgt tpl := by
  unfold deleteSolution; exact mem_removeAll _ _ _

theorem insertSolution_next (tpl : List QTpl) (tgt : GName) (s : St) (μ : Binding) :
    (insertSolution tpl tgt s μ).next = s.next + (tplLabels tpl).length := rfl

theorem mem_insertSolution (tpl : List QTpl) (tgt : GName) (s : St) (μ : Binding) (x : Quad) :
    x ∈ (insertSolution tpl tgt s μ).quads ↔
      x ∈ s.quads ∨ x ∈ fillTemplate μ (mkMap (tplLabels tpl) s.next) tgt tpl := by
  unfold insertSolution; exact mem_addAll _ _ _

/-- all deletions: what survives is what no solution's instantiated DELETE template names -/
theorem mem_foldl_deleteSolution (tpl : List QTpl) (tgt : GName) (sols : List Binding) :
    ∀ (s : St) (x : Quad),
      x ∈ (sols.foldl (deleteSolution tpl tgt) s).quads ↔
        x ∈ s.quads ∧ ∀ μ ∈ sols, x ∉ fillTemplate μ [] tgt tpl := by
  induction sols with
  | nil => intro s x; simp
  | cons μ rest ih =>
    intro s x
    rw [List.foldl_cons, ih, mem_deleteSolution]
    simp only [List.mem_cons, forall_eq_or_imp]
    constructor
    · rintro ⟨⟨h1, h2⟩, h3⟩; exact ⟨h1, h2, h3⟩
    · rintro ⟨h1, h2, h3⟩; exact ⟨⟨h1, h2⟩, h3⟩

theorem foldl_deleteSolution_next (tpl : List QTpl) (tgt : GName) (sols : List Binding) :
    ∀ (s : St), (sols.foldl (deleteSolution tpl tgt) s).next = s.next := by
  induction sols with
  | nil => intro s; rfl
  | cons μ rest ih => intro s; rw [List.foldl_cons, ih, deleteSolution_next]

theorem foldl_insertSolution_next (tpl : List QTpl) (tgt : GName) (sols : List Binding) :
    ∀ (s : St), (sols.foldl (insertSolution tpl tgt) s).next =
      s.next + sols.length * (tplLabels tpl).length := by
  induction sols with
  | nil => intro s; simp
  | cons μ rest ih =>
    intro s
    rw [List.foldl_cons, ih, insertSolution_next, List.length_cons, Nat.add_mul, Nat.one_mul]
    omega

/-- the blank-node map solution number `i` gets when the loop starts with supply `n` -/
def solMap (tpl : List QTpl) (n i : Nat) : List (Nat × Nat) :=
  mkMap (tplLabels tpl) (n + i * (tplLabels tpl).length)

/-- all insertions: solution `i` contributes its instantiated INSERT template with its own fresh nodes -/
theorem mem_foldl_insertSolution (tpl : List QTpl) (tgt : GName) (sols : List Binding) :
    ∀ (s : St) (x : Quad),
      x ∈ (sols.foldl (insertSolution tpl tgt) s).quads ↔
        x ∈ s.quads ∨ ∃ i μ, sols[i]? = some μ ∧ x ∈ fillTemplate μ (solMap tpl s.next i) tgt tpl := by
  induction sols with
  | nil => intro s x; simp
  | cons μ rest ih =>
    intro s x
    rw [List.foldl_cons, ih, mem_insertSolution, insertSolution_next]
    constructor
    · rintro ((h | h) | ⟨i, ν, hi, hx⟩)
      · exact Or.inl h
      · refine Or.inr ⟨0, μ, by simp, ?_⟩
        simpa [solMap] using h
      · refine Or.inr ⟨i + 1, ν, by simpa using hi, ?_⟩
        have e : s.next + (tplLabels tpl).length + i * (tplLabels tpl).length =
            s.next + (i + 1) * (tplLabels tpl).length := by rw [Nat.add_mul]; omega
        simpa [solMap, e] using hx
    · rintro (h | ⟨i, ν, hi, hx⟩)
      · exact Or.inl (Or.inl h)
      · cases i with
        | zero =>
          simp only [List.getElem?_cons_zero, Option.some.injEq] at hi
          subst hi
          refine Or.inl (Or.inr ?_)
          simpa [solMap] using hx
        | succ i =>
          refine Or.inr ⟨i, ν, by simpa using hi, ?_⟩
          have e : s.next + (tplLabels tpl).length + i * (tplLabels tpl).length =
              s.next + (i + 1) * (tplLabels tpl).length := by rw [Nat.add_mul]; omega
          simpa [solMap, e] using hx

end RV.C10
