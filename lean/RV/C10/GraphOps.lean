import RV.C10.ModifyEq
/-
  C10 — helper lemmas, part 6: CLEAR / DROP / ADD / MOVE / COPY.
-/
namespace RV.C10

theorem mem_foldl_clearGraph (gs : List GName) : ∀ (s : St) (x : Quad),
    x ∈ (gs.foldl St.clearGraph s).quads ↔ x ∈ s.quads ∧ x.graph ∉ gs := by
  induction gs with
  | nil => intro s x; simp
  | cons g rest ih =>
    intro s x
    rw [List.foldl_cons, ih, mem_clearGraph]
    simp only [List.mem_cons, not_or]
    constructor
    · rintro ⟨⟨h1, h2⟩, h3⟩; exact ⟨h1, h2, h3⟩
    · rintro ⟨h1, h2, h3⟩; exact ⟨⟨h1, h2⟩, h3⟩

theorem mem_foldl_dropGraph (gs : List GName) : ∀ (s : St) (x : Quad),
    x ∈ (gs.foldl St.dropGraph s).quads ↔ x ∈ s.quads ∧ x.graph ∉ gs := by
  induction gs with
  | nil => intro s x; simp
  | cons g rest ih =>
    intro s x
    rw [List.foldl_cons, ih, mem_dropGraph]
    simp only [List.mem_cons, not_or]
    constructor
    · rintro ⟨⟨h1, h2⟩, h3⟩; exact ⟨h1, h2, h3⟩
    · rintro ⟨h1, h2, h3⟩; exact ⟨⟨h1, h2⟩, h3⟩

theorem mem_copyInto (s : St) (src dst : GName) (x : Quad) :
    x ∈ (s.copyInto src dst).quads ↔
      x ∈ s.quads ∨ (x.graph = dst ∧ (x.1, x.2.1, x.2.2.1, src) ∈ s.quads) := by
  unfold St.copyInto
  rw [mem_addAll]
  simp only [List.mem_map]
  constructor
  · rintro (h | ⟨t, ht, rfl⟩)
    · exact Or.inl h
    · exact Or.inr ⟨rfl, mem_graphTriples.1 ht⟩
  · rintro (h | ⟨hg, h⟩)
    · exact Or.inl h
    · refine Or.inr ⟨(x.1, x.2.1, x.2.2.1), mem_graphTriples.2 h, ?_⟩
      obtain ⟨a, b, c, d⟩ := x
      simp only [Quad.graph] at hg
      subst hg
      rfl

theorem known_dropGraph_subset (s : St) (g : GName) (n : Nat) (h : n ∈ (s.dropGraph g).known) : n ∈ s.known := by
  unfold St.dropGraph at h
  cases g with
  | none => exact h
  | some m => exact (mem_sremove.1 h).2

theorem known_foldl_dropGraph (gs : List GName) : ∀ (s : St) (n : Nat),
    n ∈ (gs.foldl St.dropGraph s).known ↔ n ∈ s.known ∧ some n ∉ gs := by
  induction gs with
  | nil => intro s n; simp
  | cons g rest ih =>
    intro s n
    rw [List.foldl_cons, ih]
    simp only [List.mem_cons, not_or]
    cases g with
    | none =>
      simp only [St.dropGraph]
      constructor
      · rintro ⟨h1, h2⟩; exact ⟨h1, by simp, h2⟩
      · rintro ⟨h1, _, h2⟩; exact ⟨h1, h2⟩
    | some m =>
      simp only [St.dropGraph, mem_sremove, Option.some.injEq]
      constructor
      · rintro ⟨⟨h1, h2⟩, h3⟩; exact ⟨h2, h1, h3⟩
      · rintro ⟨h2, h1, h3⟩; exact ⟨⟨h1, h2⟩, h3⟩

end RV.C10
