import RV.C10.Model
/-
  C10 — helper lemmas, part 1: the store (membership meaning of every store primitive),
  folds of deletions / insertions, the fresh-node supply.
-/
namespace RV.C10

/-! ### store primitives -/

@[simp] theorem addQuad_quads (s : St) (q : Quad) : (s.addQuad q).quads = sinsert s.quads q := by
  unfold St.addQuad; rfl

@[simp] theorem addQuad_next (s : St) (q : Quad) : (s.addQuad q).next = s.next := by
  unfold St.addQuad; rfl

@[simp] theorem removeQuad_quads (s : St) (q : Quad) : (s.removeQuad q).quads = sremove s.quads q := rfl
@[simp] theorem removeQuad_next (s : St) (q : Quad) : (s.removeQuad q).next = s.next := rfl
@[simp] theorem removeQuad_known (s : St) (q : Quad) : (s.removeQuad q).known = s.known := rfl

theorem mem_addQuad {s : St} {q x : Quad} : x ∈ (s.addQuad q).quads ↔ x = q ∨ x ∈ s.quads := by
  simp

theorem mem_removeQuad {s : St} {q x : Quad} : x ∈ (s.removeQuad q).quads ↔ x ≠ q ∧ x ∈ s.quads := by
  simp

theorem mem_removeAll (qs : List Quad) : ∀ (s : St) (x : Quad),
    x ∈ (s.removeAll qs).quads ↔ x ∈ s.quads ∧ x ∉ qs := by
  induction qs with
  | nil => intro s x; simp [St.removeAll]
  | cons q qs ih =>
    intro s x
    have := ih (s.removeQuad q) x
    simp only [St.removeAll, List.foldl_cons] at this ⊢
    rw [this, mem_removeQuad]
    simp only [List.mem_cons, not_or]
    constructor
    · rintro ⟨⟨h1, h2⟩, h3⟩; exact ⟨h2, h1, h3⟩
    · rintro ⟨h2, h1, h3⟩; exact ⟨⟨h1, h2⟩, h3⟩

theorem mem_addAll (qs : List Quad) : ∀ (s : St) (x : Quad),
    x ∈ (s.addAll qs).quads ↔ x ∈ s.quads ∨ x ∈ qs := by
  induction qs with
  | nil => intro s x; simp [St.addAll]
  | cons q qs ih =>
    intro s x
    have := ih (s.addQuad q) x
    simp only [St.addAll, List.foldl_cons] at this ⊢
    rw [this, mem_addQuad]
    simp only [List.mem_cons]
    constructor
    · rintro ((h | h) | h)
      · exact Or.inr (Or.inl h)
      · exact Or.inl h
      · exact Or.inr (Or.inr h)
    · rintro (h | h | h)
      · exact Or.inl (Or.inr h)
      · exact Or.inl (Or.inl h)
      · exact Or.inr h

theorem removeAll_next (qs : List Quad) : ∀ (s : St), (s.removeAll qs).next = s.next := by
  induction qs with
  | nil => intro s; rfl
  | cons q qs ih => intro s; simp only [St.removeAll, List.foldl_cons] at ih ⊢; rw [ih]; rfl

theorem addAll_next (qs : List Quad) : ∀ (s : St), (s.addAll qs).next = s.next := by
  induction qs with
  | nil => intro s; rfl
  | cons q qs ih => intro s; simp only [St.addAll, List.foldl_cons] at ih ⊢; rw [ih]; simp

theorem mem_clearGraph {s : St} {g : GName} {x : Quad} :
    x ∈ (s.clearGraph g).quads ↔ x ∈ s.quads ∧ x.graph ≠ g := by
  simp [St.clearGraph]

theorem mem_dropGraph {s : St} {g : GName} {x : Quad} :
    x ∈ (s.dropGraph g).quads ↔ x ∈ s.quads ∧ x.graph ≠ g := by
  simp [St.dropGraph]

theorem mem_dedup {α} [DecidableEq α] (l : List α) (x : α) : x ∈ dedup l ↔ x ∈ l := by
  induction l with
  | nil => simp [dedup]
  | cons y ys ih =>
    unfold dedup
    split
    · next h =>
      rw [ih]; simp only [List.mem_cons]
      constructor
      · exact Or.inr
      · rintro (rfl | h')
        · exact h
        · exact h'
    · simp [ih]

theorem nodup_dedup {α} [DecidableEq α] (l : List α) : (dedup l).Nodup := by
  induction l with
  | nil => simp [dedup]
  | cons y ys ih =>
    unfold dedup
    split
    · exact ih
    · next h =>
      rw [List.nodup_cons]
      exact ⟨fun hm => h ((mem_dedup ys y).1 hm), ih⟩

theorem mem_graphTriples {qs : List Quad} {g : GName} {t : Triple} :
    t ∈ graphTriples qs g ↔ (t.1, t.2.1, t.2.2, g) ∈ qs := by
  unfold graphTriples
  simp only [List.mem_map, List.mem_filter, decide_eq_true_eq]
  constructor
  · rintro ⟨q, ⟨hq, hg⟩, rfl⟩
    obtain ⟨a, b, c, d⟩ := q
    simp only [Quad.graph] at hg
    subst hg
    exact hq
  · intro h
    exact ⟨(t.1, t.2.1, t.2.2, g), ⟨h, rfl⟩, rfl⟩

theorem mem_unionTriples {qs : List Quad} {t : Triple} :
    t ∈ unionTriples qs ↔ ∃ g, (t.1, t.2.1, t.2.2, g) ∈ qs := by
  unfold unionTriples
  rw [mem_dedup]
  simp only [List.mem_map]
  constructor
  · rintro ⟨q, hq, rfl⟩
    obtain ⟨a, b, c, d⟩ := q
    exact ⟨d, hq⟩
  · rintro ⟨g, h⟩
    exact ⟨_, h, rfl⟩

theorem graphTriples_cons (q : Quad) (qs : List Quad) (g : GName) :
    graphTriples (q :: qs) g = if q.graph = g then q.triple :: graphTriples qs g else graphTriples qs g := by
  unfold graphTriples
  by_cases h : q.graph = g <;> simp [List.filter_cons, h]

theorem nodup_graphTriples {qs : List Quad} (h : qs.Nodup) (g : GName) : (graphTriples qs g).Nodup := by
  induction qs with
  | nil => simp [graphTriples]
  | cons q rest ih =>
    rw [List.nodup_cons] at h
    rw [graphTriples_cons]
    split
    · next hg =>
      rw [List.nodup_cons]
      refine ⟨?_, ih h.2⟩
      intro hm
      have := mem_graphTriples.1 hm
      apply h.1
      obtain ⟨a, b, c, d⟩ := q
      simp only [Quad.graph] at hg
      subst hg
      exact this
    · exact ih h.2

end RV.C10
