import RV.C10.Model
namespace RV.C10
end RV.C10
