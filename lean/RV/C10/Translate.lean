import RV.C10.Fresh
/-
  C10 — helper lemmas, part 9: `translateQuads` and the evaluators that walk its result.
-/
namespace RV.C10

/-! ### `tplLabels` depends on the SET of labels only -/

theorem le_listMax {l : List Nat} {x : Nat} (h : x ∈ l) : x ≤ listMax l := by
  induction l with
  | nil => cases h
  | cons y ys ih =>
    simp only [listMax]
    rcases List.mem_cons.1 h with rfl | h'
    · exact Nat.le_max_left _ _
    · exact Nat.le_trans (ih h') (Nat.le_max_right _ _)

theorem listMax_mem_or_zero (l : List Nat) : listMax l = 0 ∨ listMax l ∈ l := by
  induction l with
  | nil => exact Or.inl rfl
  | cons y ys ih =>
    simp only [listMax]
    rcases Nat.le_total y (listMax ys) with h | h
    · rw [Nat.max_eq_right h]
      rcases ih with h0 | hm
      · exact Or.inl h0
      · exact Or.inr (List.mem_cons_of_mem _ hm)
    · rw [Nat.max_eq_left h]; exact Or.inr List.mem_cons_self

theorem listMax_congr {a b : List Nat} (h : ∀ x, x ∈ a ↔ x ∈ b) : listMax a = listMax b := by
  apply Nat.le_antisymm
  · rcases listMax_mem_or_zero a with h0 | hm
    · rw [h0]; exact Nat.zero_le _
    · exact le_listMax ((h _).1 hm)
  · rcases listMax_mem_or_zero b with h0 | hm
    · rw [h0]; exact Nat.zero_le _
    · exact le_listMax ((h _).2 hm)

theorem mem_tplLabels (tpl : List QTpl) (l : Nat) : l ∈ tplLabels tpl ↔ l ∈ rawLabels tpl := by
  unfold tplLabels
  simp only [List.mem_filter, List.mem_range, decide_eq_true_eq]
  constructor
  · exact fun h => h.2
  · exact fun h => ⟨Nat.lt_succ_of_le (le_listMax h), h⟩

theorem tplLabels_congr {a b : List QTpl} (h : ∀ x, x ∈ rawLabels a ↔ x ∈ rawLabels b) :
    tplLabels a = tplLabels b := by
  unfold tplLabels
  rw [listMax_congr h]
  apply List.filter_congr
  intro x _
  simp only [h x]

theorem mem_rawLabels_of_mem_iff {a b : List QTpl} (h : ∀ q, q ∈ a ↔ q ∈ b) (x : Nat) :
    x ∈ rawLabels a ↔ x ∈ rawLabels b := by
  unfold rawLabels
  simp only [List.mem_flatMap]
  constructor
  · rintro ⟨q, hq, hx⟩; exact ⟨q, (h q).1 hq, hx⟩
  · rintro ⟨q, hq, hx⟩; exact ⟨q, (h q).2 hq, hx⟩

/-! ### `translateQuads` loses none -/

def QPart.inGraph : QPart → List QTpl
  | .triples _ => []
  | .graph g ts => entryQuads (g, ts)

theorem entryQuads_append (g : GRef) (a b : List TTpl) :
    entryQuads (g, a ++ b) = entryQuads (g, a) ++ entryQuads (g, b) := by
  simp [entryQuads]

theorem dictAppend_flat (d : List (GRef × List TTpl)) (g : GRef) (ts : List TTpl) :
    ((dictAppend d g ts).flatMap entryQuads).Perm (d.flatMap entryQuads ++ entryQuads (g, ts)) := by
  induction d with
  | nil => simp [dictAppend]
  | cons e rest ih =>
    obtain ⟨g', ts'⟩ := e
    unfold dictAppend
    split
    · next h =>
      subst h
      simp only [List.flatMap_cons, entryQuads_append, List.append_assoc]
      exact List.Perm.append_left _ List.perm_append_comm
    · simp only [List.flatMap_cons, List.append_assoc]
      exact List.Perm.append_left _ ih

theorem dictStep_flat (d : List (GRef × List TTpl)) (p : QPart) :
    ((dictStep d p).flatMap entryQuads).Perm (d.flatMap entryQuads ++ p.inGraph) := by
  cases p with
  | triples ts => simp [dictStep, QPart.inGraph]
  | graph g ts =>
    simp only [dictStep, QPart.inGraph]
    split
    · next h =>
      have : ts = [] := by simpa using h
      subst this
      simp [entryQuads]
    · exact dictAppend_flat d g ts

theorem foldl_dictStep_flat (w : Written) : ∀ (d : List (GRef × List TTpl)),
    ((w.foldl dictStep d).flatMap entryQuads).Perm (d.flatMap entryQuads ++ w.flatMap QPart.inGraph) := by
  induction w with
  | nil => intro d; simp
  | cons p rest ih =>
    intro d
    rw [List.foldl_cons]
    refine (ih _).trans ?_
    rw [List.flatMap_cons, ← List.append_assoc]
    exact List.Perm.append_right _ (dictStep_flat d p)

theorem outsideQuads_flatMap (w : Written) :
    outsideQuads (w.flatMap QPart.outside) = w.flatMap (fun p => outsideQuads p.outside) := by
  induction w with
  | nil => rfl
  | cons p rest ih => simp [outsideQuads, List.flatMap_cons, List.map_append] at ih ⊢; rw [ih]

theorem written_flat_split (w : Written) :
    w.flat.Perm (w.flatMap (fun p => outsideQuads p.outside) ++ w.flatMap QPart.inGraph) := by
  induction w with
  | nil => simp [Written.flat]
  | cons p rest ih =>
    simp only [Written.flat, List.flatMap_cons] at ih ⊢
    cases p with
    | triples ts =>
      simp only [QPart.flat, QPart.outside, QPart.inGraph, List.nil_append, List.append_assoc]
      exact List.Perm.append_left _ ih
    | graph g ts =>
      simp only [QPart.flat, QPart.outside, QPart.inGraph, outsideQuads, List.map_nil, List.nil_append]
      refine (List.Perm.append_left _ ih).trans ?_
      rw [← List.append_assoc, ← List.append_assoc]
      exact List.Perm.append_right _ List.perm_append_comm

/-- the translated structure denotes exactly the written quads, as a multiset -/
theorem translateQuads_flat_perm (w : Written) : (translateQuads w).flat.Perm w.flat := by
  unfold Translated.flat translateQuads
  simp only
  rw [outsideQuads_flatMap]
  refine List.Perm.trans ?_ (written_flat_split w).symm
  refine List.Perm.append_left _ ?_
  simpa using foldl_dictStep_flat w []

/-! ### the evaluators over the translated structure = the flat evaluators on `Translated.flat` -/

theorem fillTemplate_append (μ : Binding) (bm : List (Nat × Nat)) (tgt : GName) (a b : List QTpl) :
    fillTemplate μ bm tgt (a ++ b) = fillTemplate μ bm tgt a ++ fillTemplate μ bm tgt b := by
  induction a with
  | nil => rfl
  | cons q rest ih =>
    simp only [List.cons_append, fillTemplate]
    split <;> simp [ih]

theorem removeAll_append (s : St) (a b : List Quad) : s.removeAll (a ++ b) = (s.removeAll a).removeAll b := by
  simp [St.removeAll, List.foldl_append]

theorem addAll_append (s : St) (a b : List Quad) : s.addAll (a ++ b) = (s.addAll a).addAll b := by
  simp [St.addAll, List.foldl_append]

theorem foldl_removeAll_entries (μ : Binding) (tgt : GName) (d : List (GRef × List TTpl)) : ∀ (s : St),
    d.foldl (fun s e => s.removeAll (fillTemplate μ [] tgt (entryQuads e))) s =
      s.removeAll (fillTemplate μ [] tgt (d.flatMap entryQuads)) := by
  induction d with
  | nil => intro s; rfl
  | cons e rest ih =>
    intro s
    rw [List.foldl_cons, ih, List.flatMap_cons, fillTemplate_append, removeAll_append]

theorem foldl_addAll_entries (μ : Binding) (bm : List (Nat × Nat)) (tgt : GName) (d : List (GRef × List TTpl)) :
    ∀ (s : St), d.foldl (fun s e => s.addAll (fillTemplate μ bm tgt (entryQuads e))) s =
      s.addAll (fillTemplate μ bm tgt (d.flatMap entryQuads)) := by
  induction d with
  | nil => intro s; rfl
  | cons e rest ih =>
    intro s
    rw [List.foldl_cons, ih, List.flatMap_cons, fillTemplate_append, addAll_append]

theorem deleteTranslated_eq (t : Translated) (tgt : GName) (s : St) (μ : Binding) :
    deleteTranslated t tgt s μ = deleteSolution t.flat tgt s μ := by
  unfold deleteTranslated deleteSolution Translated.flat
  rw [foldl_removeAll_entries, fillTemplate_append, removeAll_append]

theorem insertTranslated_eq (t : Translated) (tgt : GName) (s : St) (μ : Binding) :
    insertTranslated t tgt s μ = insertSolution t.flat tgt s μ := by
  unfold insertTranslated insertSolution
  simp only
  rw [foldl_addAll_entries, ← addAll_append, ← fillTemplate_append]
  rfl

theorem deleteTranslated_fun (t : Translated) (tgt : GName) :
    deleteTranslated t tgt = deleteSolution t.flat tgt :=
  funext fun s => funext fun μ => deleteTranslated_eq t tgt s μ

theorem insertTranslated_fun (t : Translated) (tgt : GName) :
    insertTranslated t tgt = insertSolution t.flat tgt :=
  funext fun s => funext fun μ => insertTranslated_eq t tgt s μ

theorem toModify_solutions (c : Cfg) (u : WModify) (s : St) :
    u.toModify.solutions c s = u.core.solutions c s := rfl

theorem asWritten_solutions (c : Cfg) (u : WModify) (s : St) :
    u.asWritten.solutions c s = u.core.solutions c s := rfl

theorem evalModifyT_eq (c : Cfg) (u : WModify) (s : St) : evalModifyT c u s = evalModify c u.toModify s := by
  unfold evalModifyT evalModify
  rw [toModify_solutions]
  simp only [WModify.toModify]
  cases u.del <;> cases u.ins <;>
    simp only [Option.map, deleteTranslated_fun, insertTranslated_fun]

theorem evalWOp_eq (c : Cfg) (w : WOp) (s : St) : evalWOp c w s = evalOp c w.toOp s := by
  unfold evalWOp
  cases w with
  | insertData q =>
    simp only [WOp.toOp, evalOp, evalInsertData, insertTranslated_eq]; rfl
  | deleteData q =>
    simp only [WOp.toOp, evalOp, evalDeleteData, deleteTranslated_eq]; rfl
  | modify u =>
    simp only [WOp.toOp, evalOp, evalModifyT_eq]; rfl
  | other op =>
    show (if (c.single && op.needsDataset || op.isFail) = true then none else evalOp c op s) = evalOp c op s
    cases hb : (c.single && op.needsDataset || op.isFail) with
    | false => simp
    | true => simp [evalOp, hb]

theorem stepW_eq (c : Cfg) (r : Run) (w : WOp) : r.stepW c w = r.step c w.toOp := by
  unfold Run.stepW Run.step
  rw [evalWOp_eq]

/-! ### the effect does not depend on how a template's quads are arranged -/

/-- two templates with the same quads (as sets) -/
def SameQuads (a b : List QTpl) : Prop := ∀ q, q ∈ a ↔ q ∈ b

theorem sameQuads_translate (w : Written) : SameQuads (translateQuads w).flat w.flat :=
  fun _ => (translateQuads_flat_perm w).mem_iff

theorem any_congr_mem {α} {a b : List α} (f : α → Bool) (h : ∀ x, x ∈ a ↔ x ∈ b) : a.any f = b.any f := by
  cases ha : a.any f <;> cases hb : b.any f <;> try rfl
  · rw [List.any_eq_true] at hb
    obtain ⟨x, hx, hf⟩ := hb
    rw [List.any_eq_false] at ha
    exact absurd hf (ha x ((h x).2 hx))
  · rw [List.any_eq_true] at ha
    obtain ⟨x, hx, hf⟩ := ha
    rw [List.any_eq_false] at hb
    exact absurd hf (hb x ((h x).1 hx))

theorem tplLabels_sameQuads {a b : List QTpl} (h : SameQuads a b) : tplLabels a = tplLabels b :=
  tplLabels_congr (mem_rawLabels_of_mem_iff h)

theorem mem_fillTemplate_sameQuads {a b : List QTpl} (h : SameQuads a b) (μ : Binding) (bm : List (Nat × Nat))
    (tgt : GName) (x : Quad) : x ∈ fillTemplate μ bm tgt a ↔ x ∈ fillTemplate μ bm tgt b := by
  rw [mem_fillTemplate, mem_fillTemplate]
  constructor
  · rintro ⟨q, hq, hx⟩; exact ⟨q, (h q).1 hq, hx⟩
  · rintro ⟨q, hq, hx⟩; exact ⟨q, (h q).2 hq, hx⟩

/-- same quads and same supply counter (what the specifications of Props.lean speak about) -/
def SameStore (s s' : St) : Prop := SetEq s.quads s'.quads ∧ s.next = s'.next

theorem sameStore_refl (s : St) : SameStore s s := ⟨SetEq.refl _, rfl⟩

theorem deleteSolution_same {a b : List QTpl} (h : SameQuads a b) (tgt : GName) {s s' : St} (hs : SameStore s s')
    (μ : Binding) : SameStore (deleteSolution a tgt s μ) (deleteSolution b tgt s' μ) := by
  refine ⟨fun x => ?_, by rw [deleteSolution_next, deleteSolution_next]; exact hs.2⟩
  rw [mem_deleteSolution, mem_deleteSolution, hs.1 x, mem_fillTemplate_sameQuads h]

theorem insertSolution_same {a b : List QTpl} (h : SameQuads a b) (tgt : GName) {s s' : St} (hs : SameStore s s')
    (μ : Binding) : SameStore (insertSolution a tgt s μ) (insertSolution b tgt s' μ) := by
  refine ⟨fun x => ?_, by rw [insertSolution_next, insertSolution_next, hs.2, tplLabels_sameQuads h]⟩
  rw [mem_insertSolution, mem_insertSolution, hs.1 x, tplLabels_sameQuads h, hs.2, mem_fillTemplate_sameQuads h]

theorem foldl_same {f g : St → Binding → St} (hfg : ∀ {s s' : St}, SameStore s s' → ∀ μ, SameStore (f s μ) (g s' μ))
    (sols : List Binding) : ∀ {s s' : St}, SameStore s s' → SameStore (sols.foldl f s) (sols.foldl g s') := by
  induction sols with
  | nil => intro s s' h; exact h
  | cons μ rest ih => intro s s' h; exact ih (hfg h μ)

/-- DELETE/INSERT with the same solutions and templates that have the same quads leaves the same store -/
theorem evalModify_same (c : Cfg) (u u' : Modify) (s : St)
    (hsol : u.solutions c s = u'.solutions c s) (hw : u.withG = u'.withG)
    (hd : match u.del, u'.del with | some a, some b => SameQuads a b | none, none => True | _, _ => False)
    (hi : match u.ins, u'.ins with | some a, some b => SameQuads a b | none, none => True | _, _ => False) :
    SameStore (evalModify c u s) (evalModify c u' s) := by
  unfold evalModify
  rw [← hsol, ← hw]
  have h1 : SameStore
      (match u.del with
        | some tpl => (u.solutions c s).foldl (deleteSolution tpl u.withG) s
        | none => s)
      (match u'.del with
        | some tpl => (u.solutions c s).foldl (deleteSolution tpl u.withG) s
        | none => s) := by
    cases hd1 : u.del <;> cases hd2 : u'.del <;> rw [hd1, hd2] at hd <;> simp only at hd ⊢
    · exact sameStore_refl s
    · exact foldl_same (fun hs μ => deleteSolution_same hd _ hs μ) _ (sameStore_refl s)
  cases hi1 : u.ins <;> cases hi2 : u'.ins <;> rw [hi1, hi2] at hi <;> simp only at hi ⊢
  · exact h1
  · exact foldl_same (fun hs μ => insertSolution_same hi _ hs μ) _ h1

def SameOutcome (a b : Option St) : Prop :=
  match a, b with
  | none, none => True
  | some s, some s' => SameStore s s'
  | _, _ => False

theorem asWritten_needsDataset (w : WOp) : w.toOp.needsDataset = w.asWritten.needsDataset := by
  cases w with
  | insertData q =>
    exact any_congr_mem _ (sameQuads_translate q)
  | deleteData q =>
    exact any_congr_mem _ (sameQuads_translate q)
  | modify u =>
    simp only [WOp.toOp, WOp.asWritten, Op.needsDataset, WModify.toModify, WModify.asWritten]
    cases u.del <;> cases u.ins <;>
      simp only [Option.map, any_congr_mem _ (sameQuads_translate _)]
  | other op => rfl

theorem asWritten_isFail (w : WOp) : w.toOp.isFail = w.asWritten.isFail := by
  cases w <;> rfl

/-- (ii): a written operation evaluated through `translateQuads`' structure leaves the same quads and supply
    as the flat model applied to the quads in written order -/
theorem evalWOp_same_asWritten (c : Cfg) (w : WOp) (s : St) :
    SameOutcome (evalWOp c w s) (evalOp c w.asWritten s) := by
  rw [evalWOp_eq]
  unfold evalOp
  rw [asWritten_needsDataset, asWritten_isFail]
  split
  · trivial
  · cases w with
    | insertData q =>
      exact insertSolution_same (sameQuads_translate q) none (sameStore_refl s) []
    | deleteData q =>
      exact deleteSolution_same (sameQuads_translate q) none (sameStore_refl s) []
    | modify u =>
      refine evalModify_same c u.toModify u.asWritten s rfl rfl ?_ ?_
      · simp only [WModify.toModify, WModify.asWritten]
        cases u.del <;> simp only [Option.map]
        exact sameQuads_translate _
      · simp only [WModify.toModify, WModify.asWritten]
        cases u.ins <;> simp only [Option.map]
        exact sameQuads_translate _
    | other op =>
      simp only [WOp.toOp, WOp.asWritten, SameOutcome]
      exact sameStore_refl _

end RV.C10
