import RV.C10.Model
import RV.C04.RowLemmas
/-
  C10 — the C04 evaluator only hands out terms it was given: every term of a solution of `RV.C04.Model.evalPart` is a term
  of the dataset, a term of the pushed-in bindings, a constant of the pattern or a boolean.  Stated for the predicate
  "not a minted node numbered `m` or above", which is what `FreshInv` needs.
-/
namespace RV.C10
open RV.C04

def CBelow (m : Nat) : C04.Term → Prop
  | .fresh k _ => k < m
  | _ => True

/-- a term a request can spell: not a minted node -/
def CSpelled : C04.Term → Prop
  | .fresh _ _ => False
  | _ => True

theorem CSpelled.below {m : Nat} {t : C04.Term} (h : CSpelled t) : CBelow m t := by
  cases t <;> simp_all [CSpelled, CBelow]

def RowBelow (m : Nat) {n : Nat} (μ : Row n) : Prop := ∀ v t, μ.get v = some t → CBelow m t
def GraphBelow (m : Nat) (g : C04.Graph) : Prop := ∀ t ∈ g, CBelow m t.1 ∧ CBelow m t.2.1 ∧ CBelow m t.2.2
def DSBelow (m : Nat) (D : C04.Dataset) : Prop :=
  GraphBelow m D.dflt ∧ ∀ e ∈ D.named, CBelow m e.1 ∧ GraphBelow m e.2

def PosSpelled : Pos → Prop
  | .const t => CSpelled t
  | .var _ => True

def TPSpelled (tp : TP) : Prop := PosSpelled tp.s ∧ PosSpelled tp.p ∧ PosSpelled tp.o

mutual
/-- the pattern mentions no minted node (it cannot: they have no spelling) -/
def AlgSpelled : Alg → Prop
  | .bgp tps => ∀ tp ∈ tps, TPSpelled tp
  | .join _ a b => AlgSpelled a ∧ AlgSpelled b
  | .leftJoin a b e _ _ => AlgSpelled a ∧ AlgSpelled b ∧ ExprSpelled e
  | .filter e p _ _ => ExprSpelled e ∧ AlgSpelled p
  | .union a b => AlgSpelled a ∧ AlgSpelled b
  | .minus a b _ _ => AlgSpelled a ∧ AlgSpelled b
  | .extend p _ e _ => AlgSpelled p ∧ ExprSpelled e
  | .graph g p => PosSpelled g ∧ AlgSpelled p
  | .values _ rows => ∀ r ∈ rows, ∀ t, some t ∈ r → CSpelled t
  | .project p _ => AlgSpelled p
def ExprSpelled : Expr → Prop
  | .var _ => True
  | .const t => CSpelled t
  | .cmp _ a b => ExprSpelled a ∧ ExprSpelled b
  | .and a b => ExprSpelled a ∧ ExprSpelled b
  | .or a b => ExprSpelled a ∧ ExprSpelled b
  | .not a => ExprSpelled a
  | .bound _ => True
  | .exists _ _ => True
end

variable {n m : Nat}

theorem rowBelow_empty : RowBelow m (Row.empty : Row n) := by
  intro v t h; simp at h

theorem rowBelow_set {μ : Row n} {v : Nat} {x : C04.Term} (h : RowBelow m μ) (hx : CBelow m x) :
    RowBelow m (μ.set v x) := by
  intro w t e
  rw [Row.get_set] at e
  split at e
  · cases e; exact hx
  · exact h w t e

theorem rowBelow_merge {a b : Row n} (ha : RowBelow m a) (hb : RowBelow m b) : RowBelow m (a.merge b) := by
  intro w t e
  rw [Row.get_merge] at e
  cases hbw : b.get w with
  | some y => rw [hbw] at e; simp at e; cases e; exact hb w _ hbw
  | none => rw [hbw] at e; simp at e; exact ha w t e

theorem rowBelow_restrict {a : Row n} (ha : RowBelow m a) (vs : List Nat) : RowBelow m (a.restrict vs) := by
  intro w t e
  rw [Row.get_restrict] at e
  split at e
  · exact ha w t e
  · cases e

theorem rowBelow_forget {a b : Row n} (ha : RowBelow m a) (ex : List Nat) : RowBelow m (a.forget b ex) := by
  intro w t e
  rw [Row.get_forget] at e
  split at e
  · exact ha w t e
  · cases e

/-! ### expressions -/

theorem boolV_below {b : Option Bool} {t : C04.Term} (h : boolV b = some t) : CBelow m t := by
  cases b with
  | none => cases h
  | some x => simp only [boolV, Option.map_some, Option.some.injEq] at h; subst h; trivial

theorem cmpV_below {op : CmpOp} {a b : Option C04.Term} {t : C04.Term} (h : cmpV op a b = some t) : CBelow m t := by
  unfold cmpV at h
  split at h
  · exact boolV_below h
  · cases h

theorem evalExpr_below (D : C04.Dataset) (g : C04.Graph) {c : Row n} (hc : RowBelow m c) :
    ∀ (e : Expr), ExprSpelled e → ∀ t, Model.evalExpr D g c e = some t → CBelow m t
  | .var v, _, t, h => by simp only [Model.evalExpr] at h; exact hc v t h
  | .const x, hs, t, h => by
    simp only [Model.evalExpr, Option.some.injEq] at h; subst h
    simp only [ExprSpelled] at hs; exact hs.below
  | .cmp _ _ _, _, t, h => by simp only [Model.evalExpr] at h; exact cmpV_below h
  | .and _ _, _, t, h => by simp only [Model.evalExpr] at h; exact boolV_below h
  | .or _ _, _, t, h => by simp only [Model.evalExpr] at h; exact boolV_below h
  | .not _, _, t, h => by simp only [Model.evalExpr] at h; exact boolV_below h
  | .bound _, _, t, h => by simp only [Model.evalExpr, Option.some.injEq] at h; subst h; trivial
  | .exists _ _, _, t, h => by simp only [Model.evalExpr, Option.some.injEq] at h; subst h; trivial

/-! ### basic graph patterns -/

theorem bindIf_below {μ μ' : Row n} {p : Pos} {entry : Option C04.Term} {x : C04.Term} (hμ : RowBelow m μ)
    (hx : CBelow m x) (h : Model.bindIf μ p entry x = some μ') : RowBelow m μ' := by
  unfold Model.bindIf at h
  split at h
  · cases h; exact hμ
  · split at h
    · cases h; exact hμ
    · split at h
      · split at h
        · cases h; exact hμ
        · cases h
      · cases h; exact rowBelow_set hμ hx

theorem evalBGP_below {g : C04.Graph} (hg : GraphBelow m g) :
    ∀ (tps : List TP) (μ : Row n), RowBelow m μ → ∀ ν ∈ Model.evalBGP g tps μ, RowBelow m ν
  | [], μ, hμ, ν, hν => by
    simp only [Model.evalBGP, List.mem_singleton] at hν; subst hν; exact hμ
  | tp :: rest, μ, hμ, ν, hν => by
    simp only [Model.evalBGP, List.mem_flatMap] at hν
    obtain ⟨t, ht, hν⟩ := hν
    have htg : t ∈ g := (List.mem_filter.1 ht).1
    obtain ⟨h1, h2, h3⟩ := hg t htg
    split at hν
    · next μ' e =>
      simp only [Option.bind_eq_some_iff] at e
      obtain ⟨μ1, e1, μ2, e2, e3⟩ := e
      have b1 := bindIf_below hμ h1 e1
      have b2 := bindIf_below b1 h2 e2
      have b3 := bindIf_below b2 h3 e3
      exact evalBGP_below hg rest μ' b3 ν hν
    · cases hν

/-! ### helpers of the other operators -/

theorem joinL_below {A B : List (Row n)} (hA : ∀ x ∈ A, RowBelow m x) (hB : ∀ y ∈ B, RowBelow m y) :
    ∀ z ∈ Model.joinL A B, RowBelow m z := by
  intro z hz
  simp only [Model.joinL, List.mem_flatMap, List.mem_filterMap] at hz
  obtain ⟨x, hx, y, hy, e⟩ := hz
  split at e
  · cases e; exact rowBelow_merge (hA x hx) (hB y hy)
  · cases e

theorem valuesRow_below : ∀ (vs : List Nat) (cs : List (Option C04.Term)) (μ μ' : Row n),
    (∀ t, some t ∈ cs → CSpelled t) → RowBelow m μ → Model.valuesRow vs cs μ = some μ' → RowBelow m μ'
  | [], _, μ, μ', _, hμ, h => by simp only [Model.valuesRow, Option.some.injEq] at h; subst h; exact hμ
  | _ :: _, [], μ, μ', _, hμ, h => by simp only [Model.valuesRow, Option.some.injEq] at h; subst h; exact hμ
  | v :: vs, c :: cs, μ, μ', hc, hμ, h => by
    have hc' : ∀ t, some t ∈ cs → CSpelled t := fun t ht => hc t (List.mem_cons_of_mem _ ht)
    cases c with
    | none => simp only [Model.valuesRow] at h; exact valuesRow_below vs cs μ μ' hc' hμ h
    | some t =>
      simp only [Model.valuesRow] at h
      split at h
      · split at h
        · exact valuesRow_below vs cs μ μ' hc' hμ h
        · cases h
      · exact valuesRow_below vs cs _ μ' hc' (rowBelow_set hμ (hc t List.mem_cons_self).below) h

theorem graphOfList_below : ∀ (l : List (C04.Term × C04.Graph)) (t : C04.Term),
    (∀ e ∈ l, CBelow m e.1 ∧ GraphBelow m e.2) → GraphBelow m (graphOfList l t)
  | [], _, _ => by intro x hx; cases hx
  | (nm, g) :: rest, t, h => by
    simp only [graphOfList]
    split
    · exact (h _ List.mem_cons_self).2
    · exact graphOfList_below rest t (fun e he => h e (List.mem_cons_of_mem _ he))

/-! ### the evaluator -/

theorem evalPart_below {D : C04.Dataset} (hD : DSBelow m D) :
    ∀ (P : Alg), AlgSpelled P → ∀ (g : C04.Graph), GraphBelow m g → ∀ (μ0 : Row n), RowBelow m μ0 →
      ∀ μ ∈ Model.evalPart D g μ0 P, RowBelow m μ
  | .bgp tps, _, g, hg, μ0, h0, μ, hμ => by
    simp only [Model.evalPart] at hμ
    exact evalBGP_below hg _ μ0 h0 μ hμ
  | .join true a b, hs, g, hg, μ0, h0, μ, hμ => by
    simp only [AlgSpelled] at hs
    simp only [Model.evalPart, List.mem_flatMap, List.mem_map] at hμ
    obtain ⟨x, hx, y, hy, rfl⟩ := hμ
    have bx := evalPart_below hD a hs.1 g hg μ0 h0 x hx
    exact rowBelow_merge (evalPart_below hD b hs.2 g hg x bx y hy) bx
  | .join false a b, hs, g, hg, μ0, h0, μ, hμ => by
    simp only [AlgSpelled] at hs
    simp only [Model.evalPart] at hμ
    exact joinL_below (evalPart_below hD a hs.1 g hg μ0 h0) (evalPart_below hD b hs.2 g hg μ0 h0) μ hμ
  | .leftJoin a b e p1vars p2vars, hs, g, hg, μ0, h0, μ, hμ => by
    simp only [AlgSpelled] at hs
    simp only [Model.evalPart, List.mem_flatMap] at hμ
    obtain ⟨x, hx, hμ⟩ := hμ
    have bx := evalPart_below hD a hs.1 g hg μ0 h0 x hx
    split at hμ
    · split at hμ
      · simp only [List.mem_singleton] at hμ; subst hμ; exact bx
      · split at hμ
        · cases hμ
        · simp only [List.mem_singleton] at hμ; subst hμ; exact bx
    · simp only [List.mem_map, List.mem_filter] at hμ
      obtain ⟨y, ⟨hy, _⟩, rfl⟩ := hμ
      exact rowBelow_merge (evalPart_below hD b hs.2.1 g hg x bx y hy) bx
  | .filter e p vars noIso, hs, g, hg, μ0, h0, μ, hμ => by
    simp only [AlgSpelled] at hs
    simp only [Model.evalPart, List.mem_filter] at hμ
    exact evalPart_below hD p hs.2 g hg μ0 h0 μ hμ.1
  | .union a b, hs, g, hg, μ0, h0, μ, hμ => by
    simp only [AlgSpelled] at hs
    simp only [Model.evalPart, List.mem_append] at hμ
    rcases hμ with h | h
    · exact evalPart_below hD a hs.1 g hg μ0 h0 μ h
    · exact evalPart_below hD b hs.2 g hg μ0 h0 μ h
  | .minus a b p1vars p2vars, hs, g, hg, μ0, h0, μ, hμ => by
    simp only [AlgSpelled] at hs
    simp only [Model.evalPart, List.mem_filter] at hμ
    exact evalPart_below hD a hs.1 g hg μ0 h0 μ hμ.1
  | .extend p v e vars, hs, g, hg, μ0, h0, μ, hμ => by
    simp only [AlgSpelled] at hs
    simp only [Model.evalPart, List.mem_filterMap] at hμ
    obtain ⟨c, hc, hμ⟩ := hμ
    have bc := evalPart_below hD p hs.1 g hg μ0 h0 c hc
    split at hμ
    · cases hμ; exact bc
    · next t et =>
      have bt := evalExpr_below D g (rowBelow_forget bc vars (b := μ0)) e hs.2 t et
      split at hμ
      · split at hμ
        · cases hμ; exact rowBelow_set bc bt
        · cases hμ
      · cases hμ; exact rowBelow_set bc bt
  | .graph gp p, hs, g, hg, μ0, h0, μ, hμ => by
    simp only [AlgSpelled] at hs
    simp only [Model.evalPart] at hμ
    split at hμ
    · next t _ =>
      split at hμ
      · cases hμ
      · exact evalPart_below hD p hs.2 _ (graphOfList_below D.named t hD.2) μ0 h0 μ hμ
    · split at hμ
      · next v =>
        simp only [List.mem_flatMap, List.mem_filterMap] at hμ
        obtain ⟨ng, hng, x, hx, e⟩ := hμ
        have bx := evalPart_below hD p hs.2 ng.2 (hD.2 ng hng).2 μ0 h0 x hx
        simp only [Model.graphJoin] at e
        split at e
        · cases e; exact rowBelow_merge bx (rowBelow_set rowBelow_empty (hD.2 ng hng).1)
        · cases e
      · cases hμ
  | .values vars rows, hs, g, hg, μ0, h0, μ, hμ => by
    simp only [AlgSpelled] at hs
    simp only [Model.evalPart, List.mem_filterMap] at hμ
    obtain ⟨r, hr, e⟩ := hμ
    exact valuesRow_below vars r μ0 μ (hs r hr) h0 e
  | .project p pv, hs, g, hg, μ0, h0, μ, hμ => by
    simp only [AlgSpelled] at hs
    simp only [Model.evalPart] at hμ
    refine joinL_below ?_ ?_ μ hμ
    · intro x hx
      simp only [List.mem_map] at hx
      obtain ⟨y, hy, rfl⟩ := hx
      exact rowBelow_restrict (evalPart_below hD p hs g hg Row.empty rowBelow_empty y hy) pv
    · intro y hy
      simp only [List.mem_singleton] at hy; subst hy; exact h0

/-! ### rows as binding lists -/

theorem blookup_filterMap_keys {n : Nat} (μ : C04.Row n) (ks : List Nat) (v : Nat) :
    blookup (ks.filterMap (fun k => (μ.get k).map (fun t => (k, ofC04 t)))) v =
      if v ∈ ks then (μ.get v).map ofC04 else none := by
  induction ks with
  | nil => rfl
  | cons k rest ih =>
    simp only [List.filterMap_cons]
    cases hk : μ.get k with
    | none =>
      simp only [Option.map_none]
      rw [ih]
      by_cases hv : v = k
      · subst hv; simp [hk]
      · simp [hv]
    | some t =>
      simp only [Option.map_some, blookup]
      by_cases hv : k = v
      · subst hv; simp [hk]
      · rw [if_neg hv, ih]
        have : v ≠ k := fun e => hv e.symm
        simp [this]

/-- the binding list of a row binds variable `v` to the row's value for `v` (translated back), and nothing else -/
theorem blookup_rowToBinding {n : Nat} (μ : C04.Row n) (v : Nat) :
    blookup (rowToBinding μ) v = (μ.get v).map ofC04 := by
  unfold rowToBinding
  rw [blookup_filterMap_keys]
  by_cases hv : v < n
  · simp [hv]
  · have : μ.get v = none := by
      simp only [C04.Row.get]
      rw [Vector.getElem?_eq_none (by omega)]
      rfl
    simp [hv, this]


end RV.C10
