import RV.C10.Invariants
import RV.C10.AlgBelow
/-
  C10 — helper lemmas, part 8: minted blank nodes are new.
  `FreshInv s`: every minted node occurring in the store has a number below the supply counter.
  It is preserved by every operation whose text does not itself mention minted nodes (`Op.wf`:
  a request cannot, minted nodes have no spelling), because WHERE solutions only bind terms of the store.
-/
namespace RV.C10

def Term.below (n : Nat) : Term → Prop
  | .fresh k => k < n
  | _ => True

def Triple.below (n : Nat) (t : Triple) : Prop := t.1.below n ∧ t.2.1.below n ∧ t.2.2.below n
def Quad.below (n : Nat) (q : Quad) : Prop := q.1.below n ∧ q.2.1.below n ∧ q.2.2.1.below n

def FreshInv (s : St) : Prop := ∀ q ∈ s.quads, q.below s.next

def BBelow (n : Nat) (μ : Binding) : Prop := ∀ v t, blookup μ v = some t → t.below n

def TTerm.wf : TTerm → Prop
  | .const (.fresh _) => False
  | _ => True

def QTpl.wf (q : QTpl) : Prop := q.1.1.wf ∧ q.1.2.1.wf ∧ q.1.2.2.wf

def tplWf (tpl : List QTpl) : Prop := ∀ q ∈ tpl, q.wf

theorem Term.below_mono {n m : Nat} (h : n ≤ m) {t : Term} (ht : t.below n) : t.below m := by
  cases t <;> simp only [Term.below] at ht ⊢
  omega

theorem Quad.below_mono {n m : Nat} (h : n ≤ m) {q : Quad} (hq : q.below n) : q.below m :=
  ⟨Term.below_mono h hq.1, Term.below_mono h hq.2.1, Term.below_mono h hq.2.2⟩

theorem BBelow.mono {n m : Nat} (h : n ≤ m) {μ : Binding} (hμ : BBelow n μ) : BBelow m μ :=
  fun v t e => Term.below_mono h (hμ v t e)

theorem bbelow_nil (n : Nat) : BBelow n [] := by
  intro v t e; simp [blookup] at e

theorem bbelow_cons {n : Nat} {μ : Binding} {v : Nat} {t : Term} (hμ : BBelow n μ) (ht : t.below n) :
    BBelow n ((v, t) :: μ) := by
  intro w t' e
  simp only [blookup] at e
  split at e
  · simp only [Option.some.injEq] at e; subst e; exact ht
  · exact hμ w t' e

theorem blookup_append (x y : Binding) (v : Nat) :
    blookup (x ++ y) v = match blookup x v with | some t => some t | none => blookup y v := by
  induction x with
  | nil => simp [blookup]
  | cons p rest ih =>
    obtain ⟨k, t⟩ := p
    simp only [List.cons_append, blookup]
    split
    · rfl
    · exact ih

theorem bbelow_append {n : Nat} {x y : Binding} (hx : BBelow n x) (hy : BBelow n y) : BBelow n (x ++ y) := by
  intro v t e
  rw [blookup_append] at e
  cases h : blookup x v with
  | some t' => rw [h] at e; simp only [Option.some.injEq] at e; subst e; exact hx v t' h
  | none => rw [h] at e; exact hy v t e

theorem bbelow_matchTerm {n : Nat} {p : PTerm} {t : Term} {μ μ' : Binding} (hμ : BBelow n μ) (ht : t.below n)
    (e : matchTerm p t μ = some μ') : BBelow n μ' := by
  unfold matchTerm at e
  cases p with
  | const c =>
    simp only at e
    split at e
    · simp only [Option.some.injEq] at e; subst e; exact hμ
    · cases e
  | var v =>
    simp only at e
    split at e
    · split at e
      · simp only [Option.some.injEq] at e; subst e; exact hμ
      · cases e
    · simp only [Option.some.injEq] at e; subst e; exact bbelow_cons hμ ht

theorem bbelow_matchTriple {n : Nat} {p : TPat} {t : Triple} {μ μ' : Binding} (hμ : BBelow n μ) (ht : t.below n)
    (e : matchTriple p t μ = some μ') : BBelow n μ' := by
  unfold matchTriple at e
  split at e
  · cases e
  · next μ1 h1 =>
    split at e
    · cases e
    · next μ2 h2 =>
      exact bbelow_matchTerm (bbelow_matchTerm (bbelow_matchTerm hμ ht.1 h1) ht.2.1 h2) ht.2.2 e

theorem bbelow_evalBGP {n : Nat} (ps : List TPat) (ts : List Triple) (hts : ∀ t ∈ ts, t.below n) :
    ∀ (μ : Binding), BBelow n μ → ∀ μ' ∈ evalBGP ps ts μ, BBelow n μ' := by
  induction ps with
  | nil => intro μ hμ μ' h; simp only [evalBGP, List.mem_singleton] at h; subst h; exact hμ
  | cons p rest ih =>
    intro μ hμ μ' h
    simp only [evalBGP, List.mem_flatMap] at h
    obtain ⟨t, ht, h⟩ := h
    split at h
    · next μ1 e => exact ih μ1 (bbelow_matchTriple hμ (hts t ht) e) μ' h
    · cases h

theorem bbelow_join {n : Nat} {a b : List Binding} (ha : ∀ μ ∈ a, BBelow n μ) (hb : ∀ μ ∈ b, BBelow n μ) :
    ∀ μ ∈ join a b, BBelow n μ := by
  intro μ h
  simp only [join, List.mem_flatMap, List.mem_filterMap] at h
  obtain ⟨x, hx, y, hy, e⟩ := h
  split at e
  · simp only [Option.some.injEq] at e; subst e; exact bbelow_append (ha x hx) (hb y hy)
  · cases e

def WhereDS.below (n : Nat) (d : WhereDS) : Prop :=
  (∀ t ∈ d.dflt, t.below n) ∧ ∀ e ∈ d.named, ∀ t ∈ e.2, t.below n

theorem WhereDS.graph_below {n : Nat} {d : WhereDS} (h : d.below n) (g : Nat) : ∀ t ∈ d.graph g, t.below n := by
  unfold WhereDS.graph
  split
  · next e he => exact h.2 e (List.mem_of_find?_eq_some he)
  · intro t ht; cases ht

theorem bbelow_evalBlock {n : Nat} {d : WhereDS} (h : d.below n) (b : Block) :
    ∀ μ ∈ evalBlock d b, BBelow n μ := by
  unfold evalBlock
  cases hb : b.1 with
  | dflt => exact bbelow_evalBGP _ _ h.1 _ (bbelow_nil n)
  | name g => exact bbelow_evalBGP _ _ (d.graph_below h g) _ (bbelow_nil n)
  | var v =>
    intro μ hμ
    simp only [List.mem_flatMap, List.mem_filterMap] at hμ
    obtain ⟨e, he, ν, hν, hh⟩ := hμ
    split at hh
    · simp only [Option.some.injEq] at hh
      subst hh
      refine bbelow_append (bbelow_evalBGP _ _ (h.2 e he) _ (bbelow_nil n) ν hν) ?_
      exact bbelow_cons (bbelow_nil n) (by simp [Term.below])
    · cases hh

theorem bbelow_groupSols {n : Nat} {d : WhereDS} (h : d.below n) (bs : List Block) :
    ∀ μ ∈ groupSols d bs, BBelow n μ := by
  have key : ∀ (bs : List Block) (acc : List Binding), (∀ μ ∈ acc, BBelow n μ) →
      ∀ μ ∈ bs.foldl (fun acc b => join acc (evalBlock d b)) acc, BBelow n μ := by
    intro bs
    induction bs with
    | nil => intro acc ha; exact ha
    | cons b rest ih => intro acc ha; exact ih _ (bbelow_join ha (bbelow_evalBlock h b))
  exact key bs [[]] (by intro μ hμ; simp only [List.mem_singleton] at hμ; subst hμ; exact bbelow_nil n)

theorem bbelow_evalWhere {n : Nat} {d : WhereDS} (h : d.below n) (bs : List Block) (f : Option Flt) :
    ∀ μ ∈ evalWhere d bs f, BBelow n μ := by
  have h0 := bbelow_groupSols h bs
  unfold evalWhere
  cases f with
  | none => exact h0
  | some f => intro μ hμ; exact h0 μ (List.mem_filter.1 hμ).1

theorem blookup_project (vs : List Nat) (μ : Binding) (v : Nat) :
    blookup (project vs μ) v = if v ∈ vs then blookup μ v else none := by
  induction μ with
  | nil => simp [project, blookup]
  | cons kv rest ih =>
    obtain ⟨k, t⟩ := kv
    unfold project at ih ⊢
    simp only [List.filter_cons]
    by_cases hk : k ∈ vs
    · simp only [hk, decide_true, if_true, blookup]
      by_cases e : k = v
      · subst e; simp [hk]
      · simp only [e, if_false]; exact ih
    · simp only [hk, decide_false, Bool.false_eq_true, if_false, blookup]
      by_cases e : k = v
      · subst e; simp only [hk, if_false, if_true] at ih ⊢; exact ih
      · simp only [e, if_false]; exact ih

theorem bbelow_project {n : Nat} (vs : List Nat) {μ : Binding} (h : BBelow n μ) : BBelow n (project vs μ) := by
  intro v t e
  rw [blookup_project] at e
  split at e
  · exact h v t e
  · cases e

theorem graphTriples_below {s : St} (h : FreshInv s) (g : GName) : ∀ t ∈ graphTriples s.quads g, t.below s.next := by
  intro t ht
  exact h _ (mem_graphTriples.1 ht)

theorem storeDataset_below (c : Cfg) {s : St} (h : FreshInv s) (w : Option Nat) :
    (storeDataset c s w).below s.next := by
  constructor
  · simp only [storeDataset]
    cases w with
    | some g => exact graphTriples_below h _
    | none =>
      simp only
      split
      · intro t ht
        obtain ⟨g, hg⟩ := mem_unionTriples.1 ht
        exact h _ hg
      · exact graphTriples_below h _
  · intro e he t ht
    simp only [storeDataset, List.mem_map] at he
    obtain ⟨g, _, rfl⟩ := he
    exact graphTriples_below h _ t ht

theorem usingDataset_below {s : St} (h : FreshInv s) (us nm : List Nat) :
    (usingDataset s us nm).below s.next := by
  constructor
  · intro t ht
    simp only [usingDataset] at ht
    rw [mem_dedup] at ht
    simp only [List.mem_flatMap] at ht
    obtain ⟨g, _, hg⟩ := ht
    exact graphTriples_below h _ t hg
  · intro e he t ht
    simp only [usingDataset, List.mem_map] at he
    obtain ⟨g, _, rfl⟩ := he
    exact graphTriples_below h _ t ht

theorem bbelow_solutions_bgp (c : Cfg) (u : Modify) (hna : ∀ n P, u.wmode ≠ .alg n P) {s : St} (h : FreshInv s) :
    ∀ μ ∈ u.solutions c s, BBelow s.next μ := by
  unfold Modify.solutions
  simp only
  have hd : (if u.using_.isEmpty && u.named.isEmpty then storeDataset c s u.withG
      else usingDataset s u.using_ u.named).below s.next := by
    split
    · exact storeDataset_below c h _
    · exact usingDataset_below h _ _
  generalize (if u.using_.isEmpty && u.named.isEmpty then storeDataset c s u.withG
      else usingDataset s u.using_ u.named) = d at hd
  have hbag : ∀ μ ∈ (match u.wmode with
      | .plain => groupSols d u.where_
      | .union bs => groupSols d u.where_ ++ groupSols d bs
      | .proj vs => (groupSols d u.where_).map (project vs)
      | .alg n P => algSolutions (if u.using_.isEmpty && u.named.isEmpty then d else d.nonEmptyNamed) n P),
      BBelow s.next μ := by
    cases hw : u.wmode with
    | alg n P => exact absurd hw (hna n P)
    | plain => exact bbelow_groupSols hd _
    | union bs =>
      intro μ hμ
      rcases List.mem_append.1 hμ with h' | h'
      · exact bbelow_groupSols hd _ μ h'
      · exact bbelow_groupSols hd _ μ h'
    | proj vs =>
      intro μ hμ
      obtain ⟨ν, hν, rfl⟩ := List.mem_map.1 hμ
      exact bbelow_project vs (bbelow_groupSols hd _ ν hν)
  cases u.flt with
  | none => exact hbag
  | some f => intro μ hμ; exact hbag μ (List.mem_filter.1 hμ).1

/-! ### full-algebra WHERE clauses: the C04 evaluator hands out no minted node beyond the supply -/

theorem litLookup_spelled : ∀ (l : List (Nat × C04.Term)), (∀ e ∈ l, CSpelled e.2) → ∀ n t, litLookup l n = some t → CSpelled t
  | [], _, _, _, h => by cases h
  | (k, x) :: rest, hl, n, t, h => by
    simp only [litLookup] at h
    split at h
    · cases h; exact hl _ List.mem_cons_self
    · exact litLookup_spelled rest (fun e he => hl e (List.mem_cons_of_mem _ he)) n t h

theorem litTable_spelled : ∀ e ∈ litTable, CSpelled e.2 := by
  intro e he
  simp only [litTable, List.mem_cons, List.not_mem_nil, or_false] at he
  rcases he with rfl | rfl | rfl | rfl | rfl | rfl | rfl <;> trivial

theorem toC04_below {m : Nat} {t : Term} (h : t.below m) : CBelow m (toC04 t) := by
  cases t with
  | iri k => trivial
  | bnode k => trivial
  | fresh k => exact h
  | lit k =>
    simp only [toC04]
    split
    · next x e => exact (litLookup_spelled litTable litTable_spelled k x e).below
    · trivial

theorem ofC04_below {m : Nat} {t : C04.Term} (h : CBelow m t) : (ofC04 t).below m := by
  cases t with
  | fresh k l => exact h
  | iri k => trivial
  | bnode k => trivial
  | int z => unfold ofC04; repeat (first | trivial | split)
  | str x => unfold ofC04; repeat (first | trivial | split)
  | bool b => unfold ofC04; repeat (first | trivial | split)

theorem tripleToC04_below {m : Nat} {t : Triple} (h : t.below m) :
    CBelow m (tripleToC04 t).1 ∧ CBelow m (tripleToC04 t).2.1 ∧ CBelow m (tripleToC04 t).2.2 :=
  ⟨toC04_below h.1, toC04_below h.2.1, toC04_below h.2.2⟩

theorem toC04_dsBelow {m : Nat} {d : WhereDS} (h : d.below m) : DSBelow m d.toC04 := by
  constructor
  · intro t ht
    simp only [WhereDS.toC04, List.mem_map] at ht
    obtain ⟨x, hx, rfl⟩ := ht
    exact tripleToC04_below (h.1 x hx)
  · intro e he
    simp only [WhereDS.toC04, List.mem_map] at he
    obtain ⟨x, hx, rfl⟩ := he
    refine ⟨trivial, ?_⟩
    intro t ht
    simp only [List.mem_map] at ht
    obtain ⟨y, hy, rfl⟩ := ht
    exact tripleToC04_below (h.2 x hx y hy)

theorem nonEmptyNamed_below {m : Nat} {d : WhereDS} (h : d.below m) : d.nonEmptyNamed.below m :=
  ⟨h.1, fun e he => h.2 e (List.mem_filter.1 he).1⟩

theorem bbelow_rowToBinding {m n : Nat} {μ : C04.Row n} (h : RowBelow m μ) : BBelow m (rowToBinding μ) := by
  intro v t e
  rw [blookup_rowToBinding] at e
  cases hg : μ.get v with
  | none => rw [hg] at e; cases e
  | some x => rw [hg] at e; simp only [Option.map_some, Option.some.injEq] at e; subst e; exact ofC04_below (h v x hg)

/-- every solution of a full-algebra WHERE clause binds terms below the supply: the evaluator only hands out terms of the
    dataset, constants of the pattern (which cannot spell a minted node) and booleans (`evalPart_below`) -/
theorem bbelow_algSolutions {m n : Nat} {d : WhereDS} (hd : d.below m) {P : C04.Alg} (hP : AlgSpelled P) :
    ∀ μ ∈ algSolutions d n P, BBelow m μ := by
  intro μ hμ
  simp only [algSolutions, List.mem_map] at hμ
  obtain ⟨ρ, hρ, rfl⟩ := hμ
  have hD := toC04_dsBelow hd
  exact bbelow_rowToBinding (evalPart_below hD P hP _ hD.1 _ rowBelow_empty ρ hρ)

/-- the pattern of a full-algebra WHERE clause mentions no minted node (the request text cannot: they have no spelling) -/
def Modify.algSpelled (u : Modify) : Prop :=
  match u.wmode with
  | .alg _ P => AlgSpelled P
  | _ => True

theorem bbelow_solutions (c : Cfg) (u : Modify) (ha : u.algSpelled) {s : St} (h : FreshInv s) :
    ∀ μ ∈ u.solutions c s, BBelow s.next μ := by
  cases hw : u.wmode with
  | alg n P =>
    simp only [Modify.algSpelled, hw] at ha
    have hsub : ∀ μ ∈ u.solutions c s, ∃ d : WhereDS, d.below s.next ∧ μ ∈ algSolutions d n P := by
      intro μ hμ
      unfold Modify.solutions at hμ
      simp only [hw] at hμ
      have hd0 : (if u.using_.isEmpty && u.named.isEmpty then storeDataset c s u.withG
          else usingDataset s u.using_ u.named).below s.next := by
        split
        · exact storeDataset_below c h _
        · exact usingDataset_below h _ _
      refine ⟨if u.using_.isEmpty && u.named.isEmpty then
          (if u.using_.isEmpty && u.named.isEmpty then storeDataset c s u.withG else usingDataset s u.using_ u.named)
        else (if u.using_.isEmpty && u.named.isEmpty then storeDataset c s u.withG
          else usingDataset s u.using_ u.named).nonEmptyNamed, ?_, ?_⟩
      · by_cases hc : (u.using_.isEmpty && u.named.isEmpty) = true
        · rw [if_pos hc]; exact hd0
        · rw [if_neg hc]; exact nonEmptyNamed_below hd0
      · cases hf : u.flt with
        | none => rw [hf] at hμ; exact hμ
        | some f => rw [hf] at hμ; exact (List.mem_filter.1 hμ).1
    intro μ hμ
    obtain ⟨d, hd, hm⟩ := hsub μ hμ
    exact bbelow_algSolutions hd ha μ hm
  | plain => exact bbelow_solutions_bgp c u (by simp [hw]) h
  | union bs => exact bbelow_solutions_bgp c u (by simp [hw]) h
  | proj vs => exact bbelow_solutions_bgp c u (by simp [hw]) h

/-! ### templates -/

theorem below_instTerm {n m : Nat} {μ : Binding} {bm : List (Nat × Nat)} (hnm : n ≤ m) (hμ : BBelow n μ)
    (hbm : ∀ l v, alookup bm l = some v → v < m) {t : TTerm} (ht : t.wf) {x : Term}
    (e : instTerm μ bm t = some x) : x.below m := by
  cases t with
  | const c =>
    simp only [instTerm, Option.some.injEq] at e
    subst e
    cases c <;> simp_all [Term.below, TTerm.wf]
  | var v => exact Term.below_mono hnm (hμ v x e)
  | label l =>
    simp only [instTerm, Option.map_eq_some_iff] at e
    obtain ⟨v, hv, rfl⟩ := e
    exact hbm l v hv

theorem below_fillTemplate {n m : Nat} {μ : Binding} {bm : List (Nat × Nat)} (hnm : n ≤ m) (hμ : BBelow n μ)
    (hbm : ∀ l v, alookup bm l = some v → v < m) (tgt : GName) {tpl : List QTpl} (hw : tplWf tpl) :
    ∀ x ∈ fillTemplate μ bm tgt tpl, x.below m := by
  intro x hx
  obtain ⟨q, hq, hf⟩ := (mem_fillTemplate μ bm tgt tpl x).1 hx
  have h := (fillQuad_eq_some μ bm tgt q x).1 hf
  have w := hw q hq
  exact ⟨below_instTerm hnm hμ hbm w.1 h.1, below_instTerm hnm hμ hbm w.2.1 h.2.1,
         below_instTerm hnm hμ hbm w.2.2 h.2.2.1⟩

/-! ### operations -/

theorem freshInv_addAll {s : St} (qs : List Quad) (h : FreshInv s) (hq : ∀ q ∈ qs, q.below s.next) :
    FreshInv (s.addAll qs) := by
  intro x hx
  rw [addAll_next]
  rcases (mem_addAll qs s x).1 hx with h' | h'
  · exact h x h'
  · exact hq x h'

theorem freshInv_removeAll {s : St} (qs : List Quad) (h : FreshInv s) : FreshInv (s.removeAll qs) := by
  intro x hx
  rw [removeAll_next]
  exact h x ((mem_removeAll qs s x).1 hx).1

theorem freshInv_insertSolution {n : Nat} (tpl : List QTpl) (hw : tplWf tpl) (tgt : GName) (s : St) (μ : Binding)
    (h : FreshInv s) (hn : n ≤ s.next) (hμ : BBelow n μ) : FreshInv (insertSolution tpl tgt s μ) := by
  intro x hx
  rw [insertSolution_next]
  rcases (mem_insertSolution tpl tgt s μ x).1 hx with h' | h'
  · exact Quad.below_mono (Nat.le_add_right _ _) (h x h')
  · refine below_fillTemplate (n := n) (by omega) hμ ?_ tgt hw x h'
    intro l v hv
    exact (alookup_mkMap_range _ _ _ _ hv).2

theorem freshInv_deleteSolution (tpl : List QTpl) (tgt : GName) (s : St) (μ : Binding) (h : FreshInv s) :
    FreshInv (deleteSolution tpl tgt s μ) := freshInv_removeAll _ h

theorem freshInv_foldl_delete (tpl : List QTpl) (tgt : GName) (sols : List Binding) :
    ∀ {s : St}, FreshInv s → FreshInv (sols.foldl (deleteSolution tpl tgt) s) := by
  induction sols with
  | nil => intro s h; exact h
  | cons μ rest ih => intro s h; exact ih (freshInv_deleteSolution tpl tgt s μ h)

theorem freshInv_foldl_insert {n : Nat} (tpl : List QTpl) (hw : tplWf tpl) (tgt : GName) (sols : List Binding)
    (hs : ∀ μ ∈ sols, BBelow n μ) : ∀ {s : St}, FreshInv s → n ≤ s.next →
      FreshInv (sols.foldl (insertSolution tpl tgt) s) := by
  induction sols with
  | nil => intro s h _; exact h
  | cons μ rest ih =>
    intro s h hn
    refine ih (fun ν hν => hs ν (List.mem_cons_of_mem _ hν))
      (freshInv_insertSolution tpl hw tgt s μ h hn (hs μ List.mem_cons_self)) ?_
    rw [insertSolution_next]; omega

theorem freshInv_filter {s : St} (h : FreshInv s) (p : Quad → Bool) (k : List Nat) :
    FreshInv { quads := s.quads.filter p, known := k, next := s.next } :=
  fun x hx => h x (List.mem_filter.1 hx).1

theorem freshInv_clearGraph {s : St} (h : FreshInv s) (g : GName) : FreshInv (s.clearGraph g) :=
  freshInv_filter h _ _

theorem freshInv_dropGraph {s : St} (h : FreshInv s) (g : GName) : FreshInv (s.dropGraph g) :=
  freshInv_filter h _ _

theorem freshInv_foldl {α} (f : St → α → St) (hf : ∀ s a, FreshInv s → FreshInv (f s a)) (l : List α) :
    ∀ {s : St}, FreshInv s → FreshInv (l.foldl f s) := by
  induction l with
  | nil => intro s h; exact h
  | cons a rest ih => intro s h; exact ih (hf s a h)

theorem freshInv_copyInto {s : St} (h : FreshInv s) (a b : GName) : FreshInv (s.copyInto a b) := by
  refine freshInv_addAll _ h ?_
  intro q hq
  simp only [List.mem_map] at hq
  obtain ⟨t, ht, rfl⟩ := hq
  exact graphTriples_below h a t ht

/-- the request text does not mention minted nodes -/
def Op.wf : Op → Prop
  | .insertData q | .deleteData q => tplWf q
  | .modify u => tplWf (u.del.getD []) ∧ tplWf (u.ins.getD []) ∧ u.algSpelled
  | _ => True

theorem freshInv_evalOp (c : Cfg) (op : Op) (hw : op.wf) (s s' : St) (h : FreshInv s)
    (e : evalOp c op s = some s') : FreshInv s' ∧ s.next ≤ s'.next := by
  unfold evalOp at e
  split at e
  · cases e
  · simp only [Option.some.injEq] at e
    subst e
    cases op with
    | fail sl => exact ⟨h, Nat.le_refl _⟩
    | insertData q =>
      exact ⟨freshInv_insertSolution (n := s.next) q hw none s [] h (Nat.le_refl _) (bbelow_nil _),
             by simp only [evalInsertData, insertSolution_next]; omega⟩
    | deleteData q =>
      exact ⟨freshInv_deleteSolution q none s [] h, by simp [evalDeleteData, deleteSolution_next]⟩
    | deleteWhere bs =>
      exact ⟨freshInv_foldl_delete _ _ _ h, by simp [evalDeleteWhere, foldl_deleteSolution_next]⟩
    | modify u =>
      simp only
      rw [evalModify_eq_twoPass]
      unfold twoPass
      have hsol := bbelow_solutions c u hw.2.2 h
      have h1 : FreshInv ((u.solutions c s).foldl (deleteOpt u.del u.withG) s) := by
        cases hd : u.del with
        | none => simpa [deleteOpt_none, foldl_id_state] using h
        | some tpl => rw [deleteOpt_some]; exact freshInv_foldl_delete _ _ _ h
      have n1 : ((u.solutions c s).foldl (deleteOpt u.del u.withG) s).next = s.next := foldl_deleteOpt_next _ _ _ _
      cases hi : u.ins with
      | none =>
        simp only [insertOpt_none, foldl_id_state]
        exact ⟨h1, by rw [n1]; exact Nat.le_refl _⟩
      | some tpl =>
        rw [insertOpt_some]
        have hwi : tplWf tpl := by have := hw.2.1; rw [hi] at this; exact this
        refine ⟨freshInv_foldl_insert tpl hwi _ _ hsol h1 (by rw [n1]; exact Nat.le_refl _), ?_⟩
        rw [foldl_insertSolution_next, n1]; omega
    | clear sl t =>
      refine ⟨freshInv_foldl _ (fun s a hs => freshInv_clearGraph hs a) _ h, ?_⟩
      simp only [evalClear]
      generalize clearTargets c s t = gs
      induction gs generalizing s with
      | nil => exact Nat.le_refl _
      | cons g rest ih => exact ih (s.clearGraph g) (freshInv_clearGraph h g)
    | drop sl t =>
      simp only [evalDrop, evalClear]
      split
      · refine ⟨freshInv_foldl _ (fun s a hs => freshInv_clearGraph hs a) _ h, ?_⟩
        generalize clearTargets c s t = gs
        induction gs generalizing s with
        | nil => exact Nat.le_refl _
        | cons g rest ih => exact ih (s.clearGraph g) (freshInv_clearGraph h g)
      · refine ⟨freshInv_foldl _ (fun s a hs => freshInv_dropGraph hs a) _ h, ?_⟩
        generalize clearTargets c s t = gs
        induction gs generalizing s with
        | nil => exact Nat.le_refl _
        | cons g rest ih => exact ih (s.dropGraph g) (freshInv_dropGraph h g)
    | add sl a b =>
      simp only [evalAdd]; split
      · exact ⟨h, Nat.le_refl _⟩
      · exact ⟨freshInv_copyInto h _ _, by simp [St.copyInto, addAll_next]⟩
    | move sl a b =>
      simp only [evalMove]; split
      · exact ⟨h, Nat.le_refl _⟩
      · exact ⟨freshInv_dropGraph (freshInv_copyInto (freshInv_clearGraph h _) _ _) _,
               by simp [St.dropGraph, St.copyInto, addAll_next, St.clearGraph]⟩
    | copy sl a b =>
      simp only [evalCopy]; split
      · exact ⟨h, Nat.le_refl _⟩
      · exact ⟨freshInv_copyInto (freshInv_clearGraph h _) _ _, by simp [St.copyInto, addAll_next, St.clearGraph]⟩

end RV.C10
