import RV.C10.GraphOps
/-
  C10 — helper lemmas, part 7: invariants of the store that every operation preserves.
    `KnownInv`  every named graph holding a quad is registered           (Memory.add registers)
    `Nodup`     the quad list has no duplicates                          (a set)
    `SingleInv` behind a plain Graph every quad is in the one graph
-/
namespace RV.C10

/-- every named graph that holds a quad is registered (`Memory.add` registers the context) -/
def KnownInv (s : St) : Prop := ∀ q ∈ s.quads, ∀ g, q.graph = some g → g ∈ s.known

/-- a plain Graph holds triples of one graph only -/
def SingleInv (c : Cfg) (s : St) : Prop := c.single = true → ∀ q ∈ s.quads, q.graph = none

structure Inv (c : Cfg) (s : St) : Prop where
  known : KnownInv s
  nodup : s.quads.Nodup
  single : SingleInv c s

/-! ### KnownInv -/

theorem knownInv_addQuad {s : St} (h : KnownInv s) (q : Quad) : KnownInv (s.addQuad q) := by
  intro x hx g hg
  rw [mem_addQuad] at hx
  unfold St.addQuad
  rcases hx with rfl | hx
  · simp only [hg, mem_sinsert, true_or]
  · have := h x hx g hg
    cases hq : q.graph with
    | none => simpa [hq] using this
    | some g' => simp only [mem_sinsert]; exact Or.inr this

theorem knownInv_removeQuad {s : St} (h : KnownInv s) (q : Quad) : KnownInv (s.removeQuad q) := by
  intro x hx g hg
  rw [mem_removeQuad] at hx
  exact h x hx.2 g hg

theorem knownInv_addAll (qs : List Quad) : ∀ {s : St}, KnownInv s → KnownInv (s.addAll qs) := by
  induction qs with
  | nil => intro s h; exact h
  | cons q rest ih => intro s h; exact ih (knownInv_addQuad h q)

theorem knownInv_removeAll (qs : List Quad) : ∀ {s : St}, KnownInv s → KnownInv (s.removeAll qs) := by
  induction qs with
  | nil => intro s h; exact h
  | cons q rest ih => intro s h; exact ih (knownInv_removeQuad h q)

theorem knownInv_clearGraph {s : St} (h : KnownInv s) (g : GName) : KnownInv (s.clearGraph g) := by
  intro x hx g' hg'
  rw [mem_clearGraph] at hx
  exact h x hx.1 g' hg'

theorem knownInv_dropGraph {s : St} (h : KnownInv s) (g : GName) : KnownInv (s.dropGraph g) := by
  intro x hx g' hg'
  rw [mem_dropGraph] at hx
  have := h x hx.1 g' hg'
  unfold St.dropGraph
  cases g with
  | none => exact this
  | some n =>
    simp only [mem_sremove]
    refine ⟨?_, this⟩
    rintro rfl
    exact hx.2 hg'

theorem knownInv_foldl {α} (f : St → α → St) (hf : ∀ s a, KnownInv s → KnownInv (f s a)) (l : List α) :
    ∀ {s : St}, KnownInv s → KnownInv (l.foldl f s) := by
  induction l with
  | nil => intro s h; exact h
  | cons a rest ih => intro s h; exact ih (hf s a h)

theorem knownInv_insertSolution (tpl : List QTpl) (tgt : GName) (s : St) (μ : Binding) (h : KnownInv s) :
    KnownInv (insertSolution tpl tgt s μ) := by
  have := knownInv_addAll (fillTemplate μ (mkMap (tplLabels tpl) s.next) tgt tpl) h
  intro x hx g hg
  exact this x hx g hg

theorem knownInv_deleteSolution (tpl : List QTpl) (tgt : GName) (s : St) (μ : Binding) (h : KnownInv s) :
    KnownInv (deleteSolution tpl tgt s μ) := knownInv_removeAll _ h

theorem knownInv_copyInto {s : St} (h : KnownInv s) (a b : GName) : KnownInv (s.copyInto a b) :=
  knownInv_addAll _ h

theorem knownInv_evalModify (c : Cfg) (u : Modify) (s : St) (h : KnownInv s) : KnownInv (evalModify c u s) := by
  unfold evalModify
  have h1 : KnownInv (match u.del with
      | some tpl => (u.solutions c s).foldl (deleteSolution tpl u.withG) s
      | none => s) := by
    cases u.del with
    | none => exact h
    | some tpl => exact knownInv_foldl _ (fun s a hs => knownInv_deleteSolution tpl _ s a hs) _ h
  cases u.ins with
  | none => exact h1
  | some tpl => exact knownInv_foldl _ (fun s a hs => knownInv_insertSolution tpl _ s a hs) _ h1

theorem knownInv_evalOp (c : Cfg) (op : Op) (s s' : St) (h : KnownInv s) (e : evalOp c op s = some s') :
    KnownInv s' := by
  unfold evalOp at e
  split at e
  · cases e
  · simp only [Option.some.injEq] at e
    subst e
    cases op with
    | fail sl => exact h
    | insertData q => exact knownInv_insertSolution _ _ _ _ h
    | deleteData q => exact knownInv_deleteSolution _ _ _ _ h
    | deleteWhere bs => exact knownInv_foldl _ (fun s a hs => knownInv_deleteSolution _ _ s a hs) _ h
    | modify u => exact knownInv_evalModify c u s h
    | clear sl t => exact knownInv_foldl _ (fun s a hs => knownInv_clearGraph hs a) _ h
    | drop sl t =>
      simp only [evalDrop]
      split
      · exact knownInv_foldl _ (fun s a hs => knownInv_clearGraph hs a) _ h
      · exact knownInv_foldl _ (fun s a hs => knownInv_dropGraph hs a) _ h
    | add sl a b =>
      simp only [evalAdd]; split
      · exact h
      · exact knownInv_copyInto h _ _
    | move sl a b =>
      simp only [evalMove]; split
      · exact h
      · exact knownInv_dropGraph (knownInv_copyInto (knownInv_clearGraph h _) _ _) _
    | copy sl a b =>
      simp only [evalCopy]; split
      · exact h
      · exact knownInv_copyInto (knownInv_clearGraph h _) _ _

/-! ### Nodup -/

theorem nodup_addAll (qs : List Quad) : ∀ {s : St}, s.quads.Nodup → (s.addAll qs).quads.Nodup := by
  induction qs with
  | nil => intro s h; exact h
  | cons q rest ih => intro s h; exact ih (by rw [addQuad_quads]; exact nodup_sinsert h)

theorem nodup_removeAll (qs : List Quad) : ∀ {s : St}, s.quads.Nodup → (s.removeAll qs).quads.Nodup := by
  induction qs with
  | nil => intro s h; exact h
  | cons q rest ih => intro s h; exact ih (by rw [removeQuad_quads]; exact nodup_sremove h)

theorem nodup_foldl {α} (f : St → α → St) (hf : ∀ s a, s.quads.Nodup → (f s a).quads.Nodup) (l : List α) :
    ∀ {s : St}, s.quads.Nodup → (l.foldl f s).quads.Nodup := by
  induction l with
  | nil => intro s h; exact h
  | cons a rest ih => intro s h; exact ih (hf s a h)

theorem nodup_insertSolution (tpl : List QTpl) (tgt : GName) (s : St) (μ : Binding) (h : s.quads.Nodup) :
    (insertSolution tpl tgt s μ).quads.Nodup :=
  nodup_addAll (fillTemplate μ (mkMap (tplLabels tpl) s.next) tgt tpl) h

theorem nodup_deleteSolution (tpl : List QTpl) (tgt : GName) (s : St) (μ : Binding) (h : s.quads.Nodup) :
    (deleteSolution tpl tgt s μ).quads.Nodup := nodup_removeAll _ h

theorem nodup_clearGraph {s : St} (h : s.quads.Nodup) (g : GName) : (s.clearGraph g).quads.Nodup :=
  h.filter _

theorem nodup_dropGraph {s : St} (h : s.quads.Nodup) (g : GName) : (s.dropGraph g).quads.Nodup :=
  h.filter _

theorem nodup_evalModify (c : Cfg) (u : Modify) (s : St) (h : s.quads.Nodup) : (evalModify c u s).quads.Nodup := by
  unfold evalModify
  have h1 : (match u.del with
      | some tpl => (u.solutions c s).foldl (deleteSolution tpl u.withG) s
      | none => s).quads.Nodup := by
    cases u.del with
    | none => exact h
    | some tpl => exact nodup_foldl _ (fun s a hs => nodup_deleteSolution tpl _ s a hs) _ h
  cases u.ins with
  | none => exact h1
  | some tpl => exact nodup_foldl _ (fun s a hs => nodup_insertSolution tpl _ s a hs) _ h1

theorem nodup_evalOp (c : Cfg) (op : Op) (s s' : St) (h : s.quads.Nodup) (e : evalOp c op s = some s') :
    s'.quads.Nodup := by
  unfold evalOp at e
  split at e
  · cases e
  · simp only [Option.some.injEq] at e
    subst e
    cases op with
    | fail sl => exact h
    | insertData q => exact nodup_insertSolution _ _ _ _ h
    | deleteData q => exact nodup_deleteSolution _ _ _ _ h
    | deleteWhere bs => exact nodup_foldl _ (fun s a hs => nodup_deleteSolution _ _ s a hs) _ h
    | modify u => exact nodup_evalModify c u s h
    | clear sl t => exact nodup_foldl _ (fun s a hs => nodup_clearGraph hs a) _ h
    | drop sl t =>
      simp only [evalDrop]
      split
      · exact nodup_foldl _ (fun s a hs => nodup_clearGraph hs a) _ h
      · exact nodup_foldl _ (fun s a hs => nodup_dropGraph hs a) _ h
    | add sl a b =>
      simp only [evalAdd]; split
      · exact h
      · exact nodup_addAll _ h
    | move sl a b =>
      simp only [evalMove]; split
      · exact h
      · exact nodup_dropGraph (nodup_addAll _ (nodup_clearGraph h _)) _
    | copy sl a b =>
      simp only [evalCopy]; split
      · exact h
      · exact nodup_addAll _ (nodup_clearGraph h _)

/-! ### SingleInv -/

def AllNone (s : St) : Prop := ∀ q ∈ s.quads, q.graph = none

theorem allNone_addAll (qs : List Quad) (hq : ∀ q ∈ qs, q.graph = none) {s : St} (h : AllNone s) :
    AllNone (s.addAll qs) := by
  intro x hx
  rcases (mem_addAll qs s x).1 hx with h' | h'
  · exact h x h'
  · exact hq x h'

theorem allNone_removeAll (qs : List Quad) {s : St} (h : AllNone s) : AllNone (s.removeAll qs) :=
  fun x hx => h x ((mem_removeAll qs s x).1 hx).1

theorem allNone_foldl {α} (f : St → α → St) (hf : ∀ s a, AllNone s → AllNone (f s a)) (l : List α) :
    ∀ {s : St}, AllNone s → AllNone (l.foldl f s) := by
  induction l with
  | nil => intro s h; exact h
  | cons a rest ih => intro s h; exact ih (hf s a h)

theorem fillTemplate_graph_none (μ : Binding) (bm : List (Nat × Nat)) (tpl : List QTpl)
    (ht : tpl.any (fun x => !x.2.isDflt) = false) : ∀ x ∈ fillTemplate μ bm none tpl, x.graph = none := by
  intro x hx
  obtain ⟨q, hq, hf⟩ := (mem_fillTemplate μ bm none tpl x).1 hx
  have hg := ((fillQuad_eq_some μ bm none q x).1 hf).2.2.2.1
  rw [List.any_eq_false] at ht
  have hd := ht q hq
  cases hq2 : q.2 with
  | dflt => rw [hq2] at hg; simp only [instGraph, Option.some.injEq] at hg; exact hg.symm
  | name g => rw [hq2] at hd; simp [GTerm.isDflt] at hd
  | var v => rw [hq2] at hd; simp [GTerm.isDflt] at hd

theorem allNone_evalOp (c : Cfg) (op : Op) (s s' : St) (hc : c.single = true) (h : AllNone s)
    (e : evalOp c op s = some s') : AllNone s' := by
  unfold evalOp at e
  split at e
  · cases e
  · next hnd =>
    simp only [hc, Bool.true_and, Bool.not_eq_true, Bool.or_eq_false_iff] at hnd
    obtain ⟨hnd, _⟩ := hnd
    simp only [Option.some.injEq] at e
    subst e
    cases op with
    | fail sl => exact h
    | insertData q =>
      simp only [Op.needsDataset] at hnd
      intro x hx
      exact allNone_addAll _ (fillTemplate_graph_none _ _ _ hnd) h x hx
    | deleteData q => exact allNone_removeAll _ h
    | deleteWhere bs => exact allNone_foldl _ (fun s a hs => allNone_removeAll _ hs) _ h
    | modify u =>
      simp only [Op.needsDataset, Bool.or_eq_false_iff] at hnd
      obtain ⟨⟨⟨⟨⟨hw, _⟩, _⟩, _⟩, _⟩, hi⟩ := hnd
      have hw' : u.withG = none := by
        cases hh : u.withG with
        | none => rfl
        | some g => rw [hh] at hw; simp at hw
      simp only
      unfold evalModify
      have h1 : AllNone (match u.del with
          | some tpl => (u.solutions c s).foldl (deleteSolution tpl u.withG) s
          | none => s) := by
        cases u.del with
        | none => exact h
        | some tpl => exact allNone_foldl _ (fun s a hs => allNone_removeAll _ hs) _ h
      cases hins : u.ins with
      | none => exact h1
      | some tpl =>
        rw [hins] at hi
        simp only at hi
        refine allNone_foldl _ (fun s a hs => ?_) _ h1
        intro x hx
        rw [hw'] at hx
        exact allNone_addAll _ (fillTemplate_graph_none _ _ _ hi) hs x hx
    | clear sl t => exact allNone_foldl _ (fun s a hs x hx => hs x (mem_clearGraph.1 hx).1) _ h
    | drop sl t =>
      simp only [evalDrop, hc, if_true]
      exact allNone_foldl _ (fun s a hs x hx => hs x (mem_clearGraph.1 hx).1) _ h
    | add sl a b =>
      simp only [Op.needsDataset, Bool.or_eq_false_iff] at hnd
      have ha : a = none := by cases a <;> simp_all
      have hb : b = none := by cases b <;> simp_all
      subst ha; subst hb
      simpa [evalAdd] using h
    | move sl a b =>
      simp only [Op.needsDataset, Bool.or_eq_false_iff] at hnd
      have ha : a = none := by cases a <;> simp_all
      have hb : b = none := by cases b <;> simp_all
      subst ha; subst hb
      simpa [evalMove] using h
    | copy sl a b =>
      simp only [Op.needsDataset, Bool.or_eq_false_iff] at hnd
      have ha : a = none := by cases a <;> simp_all
      have hb : b = none := by cases b <;> simp_all
      subst ha; subst hb
      simpa [evalCopy] using h

theorem inv_evalOp (c : Cfg) (op : Op) (s s' : St) (h : Inv c s) (e : evalOp c op s = some s') : Inv c s' :=
  ⟨knownInv_evalOp c op s s' h.known e, nodup_evalOp c op s s' h.nodup e,
   fun hc => allNone_evalOp c op s s' hc (h.single hc) e⟩

theorem inv_step (c : Cfg) (r : Run) (op : Op) (h : Inv c r.st) : Inv c (r.step c op).st := by
  unfold Run.step
  split
  · exact h
  · split
    · next s' e => exact inv_evalOp c op r.st s' h e
    · exact h

theorem inv_foldl_step (c : Cfg) (ops : List Op) : ∀ (r : Run), Inv c r.st → Inv c (ops.foldl (Run.step c) r).st := by
  induction ops with
  | nil => intro r h; exact h
  | cons op rest ih => intro r h; exact ih _ (inv_step c r op h)

end RV.C10
