import RV.C10.Folds
/-
  C10 — helper lemmas, part 3: the set-algebra core of DELETE/INSERT.
  `solPairs` lists, per solution, the quads its DELETE template names and the quads its INSERT
  template names (with that solution's fresh nodes).  Two-pass = (S \ ⋃D) ∪ ⋃I.
  Per-solution loop = fold of S ↦ (S \ Dᵢ) ∪ Iᵢ, equal to the former exactly when no earlier
  solution's insertion is a later solution's deletion.
-/
namespace RV.C10

def delOf (del : Option (List QTpl)) (tgt : GName) (μ : Binding) : List Quad :=
  match del with
  | some tpl => fillTemplate μ [] tgt tpl
  | none => []

def insOf (ins : Option (List QTpl)) (tgt : GName) (μ : Binding) (n : Nat) : List Quad :=
  match ins with
  | some tpl => fillTemplate μ (mkMap (tplLabels tpl) n) tgt tpl
  | none => []

def insWidth (ins : Option (List QTpl)) : Nat :=
  match ins with
  | some tpl => (tplLabels tpl).length
  | none => 0

/-- (deletions, insertions) of every solution, the fresh supply starting at `n` -/
def solPairs (del ins : Option (List QTpl)) (tgt : GName) : List Binding → Nat → List (List Quad × List Quad)
  | [], _ => []
  | μ :: rest, n => (delOf del tgt μ, insOf ins tgt μ n) :: solPairs del ins tgt rest (n + insWidth ins)

/-- membership after the per-solution loop, abstractly -/
def memInter : List (List Quad × List Quad) → (Quad → Prop) → Quad → Prop
  | [], P, x => P x
  | (D, I) :: rest, P, x => memInter rest (fun y => (P y ∧ y ∉ D) ∨ y ∈ I) x

theorem memInter_congr (ps : List (List Quad × List Quad)) :
    ∀ (P Q : Quad → Prop), (∀ y, P y ↔ Q y) → ∀ x, memInter ps P x ↔ memInter ps Q x := by
  induction ps with
  | nil => intro P Q h x; exact h x
  | cons p rest ih =>
    intro P Q h x
    obtain ⟨D, I⟩ := p
    simp only [memInter]
    apply ih
    intro y
    rw [h y]

/-- THE set-algebra fact: if no insertion of an earlier pair is a deletion of a later pair, the
    per-solution loop computes (S \ ⋃D) ∪ ⋃I. -/
theorem memInter_eq_twoPass (ps : List (List Quad × List Quad)) :
    ∀ (P : Quad → Prop), ps.Pairwise (fun a b => ∀ y ∈ a.2, y ∉ b.1) → ∀ x,
      memInter ps P x ↔ (P x ∧ ∀ p ∈ ps, x ∉ p.1) ∨ ∃ p ∈ ps, x ∈ p.2 := by
  induction ps with
  | nil => intro P _ x; simp [memInter]
  | cons p rest ih =>
    intro P hp x
    obtain ⟨D, I⟩ := p
    rw [List.pairwise_cons] at hp
    simp only [memInter]
    rw [ih _ hp.2]
    simp only [List.mem_cons, forall_eq_or_imp, exists_eq_or_imp]
    constructor
    · rintro (⟨(⟨h1, h2⟩ | h1), h3⟩ | h)
      · exact Or.inl ⟨h1, h2, h3⟩
      · exact Or.inr (Or.inl h1)
      · exact Or.inr (Or.inr h)
    · rintro (⟨h1, h2, h3⟩ | h | h)
      · exact Or.inl ⟨Or.inl ⟨h1, h2⟩, h3⟩
      · exact Or.inl ⟨Or.inr h, fun q hq => hp.1 q hq x h⟩
      · exact Or.inr h

/-! ### the model's loops in terms of `solPairs` -/

def deleteOpt (del : Option (List QTpl)) (tgt : GName) (s : St) (μ : Binding) : St :=
  match del with
  | some tpl => deleteSolution tpl tgt s μ
  | none => s

def insertOpt (ins : Option (List QTpl)) (tgt : GName) (s : St) (μ : Binding) : St :=
  match ins with
  | some tpl => insertSolution tpl tgt s μ
  | none => s

theorem mem_deleteOpt (del : Option (List QTpl)) (tgt : GName) (s : St) (μ : Binding) (x : Quad) :
    x ∈ (deleteOpt del tgt s μ).quads ↔ x ∈ s.quads ∧ x ∉ delOf del tgt μ := by
  cases del with
  | none => simp [deleteOpt, delOf]
  | some tpl => exact mem_deleteSolution tpl tgt s μ x

theorem deleteOpt_next (del : Option (List QTpl)) (tgt : GName) (s : St) (μ : Binding) :
    (deleteOpt del tgt s μ).next = s.next := by
  cases del with
  | none => rfl
  | some tpl => exact deleteSolution_next tpl tgt s μ

theorem mem_insertOpt (ins : Option (List QTpl)) (tgt : GName) (s : St) (μ : Binding) (x : Quad) :
    x ∈ (insertOpt ins tgt s μ).quads ↔ x ∈ s.quads ∨ x ∈ insOf ins tgt μ s.next := by
  cases ins with
  | none => simp [insertOpt, insOf]
  | some tpl => exact mem_insertSolution tpl tgt s μ x

theorem insertOpt_next (ins : Option (List QTpl)) (tgt : GName) (s : St) (μ : Binding) :
    (insertOpt ins tgt s μ).next = s.next + insWidth ins := by
  cases ins with
  | none => rfl
  | some tpl => rfl

/-- the two passes of the repaired code -/
def twoPass (del ins : Option (List QTpl)) (tgt : GName) (sols : List Binding) (s : St) : St :=
  sols.foldl (insertOpt ins tgt) (sols.foldl (deleteOpt del tgt) s)

/-- the single loop of the pinned code -/
def onePass (del ins : Option (List QTpl)) (tgt : GName) (sols : List Binding) (s : St) : St :=
  sols.foldl (fun s μ => insertOpt ins tgt (deleteOpt del tgt s μ) μ) s

theorem mem_foldl_deleteOpt (del : Option (List QTpl)) (tgt : GName) (sols : List Binding) :
    ∀ (s : St) (x : Quad), x ∈ (sols.foldl (deleteOpt del tgt) s).quads ↔
      x ∈ s.quads ∧ ∀ μ ∈ sols, x ∉ delOf del tgt μ := by
  induction sols with
  | nil => intro s x; simp
  | cons μ rest ih =>
    intro s x
    rw [List.foldl_cons, ih, mem_deleteOpt]
    simp only [List.mem_cons, forall_eq_or_imp]
    constructor
    · rintro ⟨⟨h1, h2⟩, h3⟩; exact ⟨h1, h2, h3⟩
    · rintro ⟨h1, h2, h3⟩; exact ⟨⟨h1, h2⟩, h3⟩

theorem foldl_deleteOpt_next (del : Option (List QTpl)) (tgt : GName) (sols : List Binding) :
    ∀ (s : St), (sols.foldl (deleteOpt del tgt) s).next = s.next := by
  induction sols with
  | nil => intro s; rfl
  | cons μ rest ih => intro s; rw [List.foldl_cons, ih, deleteOpt_next]

theorem mem_foldl_insertOpt (del ins : Option (List QTpl)) (tgt : GName) (sols : List Binding) :
    ∀ (s : St) (x : Quad), x ∈ (sols.foldl (insertOpt ins tgt) s).quads ↔
      x ∈ s.quads ∨ ∃ p ∈ solPairs del ins tgt sols s.next, x ∈ p.2 := by
  induction sols with
  | nil => intro s x; simp [solPairs]
  | cons μ rest ih =>
    intro s x
    rw [List.foldl_cons, ih, mem_insertOpt, insertOpt_next]
    simp only [solPairs, List.mem_cons, exists_eq_or_imp]
    constructor
    · rintro ((h | h) | h)
      · exact Or.inl h
      · exact Or.inr (Or.inl h)
      · exact Or.inr (Or.inr h)
    · rintro (h | h | h)
      · exact Or.inl (Or.inl h)
      · exact Or.inl (Or.inr h)
      · exact Or.inr h

theorem mem_solPairs_del (del ins : Option (List QTpl)) (tgt : GName) (sols : List Binding) :
    ∀ (n : Nat) (x : Quad), (∀ p ∈ solPairs del ins tgt sols n, x ∉ p.1) ↔ ∀ μ ∈ sols, x ∉ delOf del tgt μ := by
  induction sols with
  | nil => intro n x; simp [solPairs]
  | cons μ rest ih =>
    intro n x
    simp only [solPairs, List.mem_cons, forall_eq_or_imp]
    rw [ih]

/-- two passes = (S \ ⋃D) ∪ ⋃I over `solPairs` -/
theorem mem_twoPass (del ins : Option (List QTpl)) (tgt : GName) (sols : List Binding) (s : St) (x : Quad) :
    x ∈ (twoPass del ins tgt sols s).quads ↔
      (x ∈ s.quads ∧ ∀ p ∈ solPairs del ins tgt sols s.next, x ∉ p.1) ∨
        ∃ p ∈ solPairs del ins tgt sols s.next, x ∈ p.2 := by
  unfold twoPass
  rw [mem_foldl_insertOpt del, foldl_deleteOpt_next, mem_foldl_deleteOpt, mem_solPairs_del]

/-- one pass = the abstract per-solution fold over `solPairs` -/
theorem mem_onePass (del ins : Option (List QTpl)) (tgt : GName) (sols : List Binding) :
    ∀ (s : St) (x : Quad), x ∈ (onePass del ins tgt sols s).quads ↔
      memInter (solPairs del ins tgt sols s.next) (fun y => y ∈ s.quads) x := by
  induction sols with
  | nil => intro s x; simp [onePass, solPairs, memInter]
  | cons μ rest ih =>
    intro s x
    have := ih (insertOpt ins tgt (deleteOpt del tgt s μ) μ) x
    simp only [onePass, List.foldl_cons] at this ⊢
    rw [this, insertOpt_next, deleteOpt_next]
    simp only [solPairs, memInter]
    apply memInter_congr
    intro y
    rw [mem_insertOpt, mem_deleteOpt, deleteOpt_next]

end RV.C10
