import RV.C10.WhereAlg
/-
  C10 — property statements and theorems.

  "INSERT DATA, DELETE DATA, DELETE WHERE, DELETE/INSERT … WHERE (WITH, USING, GRAPH templates),
   CLEAR, DROP, ADD, MOVE and COPY transform the dataset into exactly the dataset the SPARQL 1.1
   Update specification defines."

  The specification side (`Spec.*`) is SPARQL 1.1 Update §4.3 / §3 written as membership
  predicates over the quad set BEFORE the operation; the model side is `Model.lean` (loops as
  rdflib codes them).  WHERE solutions are taken as the model's `Modify.solutions` evaluated on the
  state before (pattern matching itself is C04's subject; here it is tied by the correspondence
  run and by the harness' independent matcher).
-/
namespace RV.C10

/-! ## Specification (SPARQL 1.1 Update §4.3) -/
namespace Spec

/-- μ extended by sk on blank-node labels (sk_μ of the formal model) -/
def subst (μ : Binding) (sk : Nat → Option Nat) : TTerm → Option Term
  | .const c => some c
  | .var v => blookup μ v
  | .label l => (sk l).map Term.fresh

/-- graph of an instantiated quad: outside GRAPH = the WITH graph, else the real default graph;
    a GRAPH variable must be bound to an IRI -/
def substG (μ : Binding) (tgt : GName) : GTerm → Option GName
  | .dflt => some tgt
  | .name g => some (some g)
  | .var v =>
    match blookup μ v with
    | some (.iri g) => some (some g)
    | _ => none

/-- `x` is the instance of template quad `q` under μ: every position bound, and a legal RDF quad
    (subject not a literal, predicate an IRI, graph name an IRI) -/
def Instance (μ : Binding) (sk : Nat → Option Nat) (tgt : GName) (q : QTpl) (x : Quad) : Prop :=
  subst μ sk q.1.1 = some x.1 ∧ subst μ sk q.1.2.1 = some x.2.1 ∧ subst μ sk q.1.2.2 = some x.2.2.1 ∧
  substG μ tgt q.2 = some x.2.2.2 ∧ x.1.isLit = false ∧ x.2.1.isIri = true

/-- Dataset(QuadPattern, μ, …) -/
def DatasetOf (μ : Binding) (sk : Nat → Option Nat) (tgt : GName) (tpl : List QTpl) (x : Quad) : Prop :=
  ∃ q ∈ tpl, Instance μ sk tgt q x

def noSk : Nat → Option Nat := fun _ => none

/-- OpDeleteInsert: (GS \ ⋃_μ Dataset(del, μ)) ∪ ⋃_μ Dataset(ins, μ); solution number `i` uses the
    fresh blank nodes `sk i` -/
def OpDeleteInsert (before : List Quad) (sols : List Binding) (sk : Nat → Nat → Option Nat) (tgt : GName)
    (del ins : List QTpl) (x : Quad) : Prop :=
  (x ∈ before ∧ ¬ ∃ μ ∈ sols, DatasetOf μ noSk tgt del x) ∨
  (∃ i μ, sols[i]? = some μ ∧ DatasetOf μ (sk i) tgt ins x)

/-- which graphs a CLEAR / DROP target denotes -/
def inTarget : Target → GName → Prop
  | .dflt, g => g = none
  | .named, g => g ≠ none
  | .all, _ => True
  | .graph n, g => g = some n

end Spec

/-! ## Statements -/

/-- `_fillTemplate` produces exactly Dataset(QuadPattern, μ): a template quad with an unbound variable,
    a literal subject, a non-IRI predicate or a non-IRI graph name contributes nothing; every other one
    contributes its instance. -/
def Statement_template_skip : Prop :=
  ∀ (μ : Binding) (bm : List (Nat × Nat)) (tgt : GName) (tpl : List QTpl) (x : Quad),
    x ∈ fillTemplate μ bm tgt tpl ↔ Spec.DatasetOf μ (alookup bm) tgt tpl x

/-- consequence spelled out: nothing `_fillTemplate` yields has a literal subject or a non-IRI predicate -/
def Statement_template_legal : Prop :=
  ∀ (μ : Binding) (bm : List (Nat × Nat)) (tgt : GName) (tpl : List QTpl) (x : Quad),
    x ∈ fillTemplate μ bm tgt tpl → x.1.isLit = false ∧ x.2.1.isIri = true

/-- The blank nodes minted for solution `i` (supply at `n` when the INSERT loop starts): at or above the
    supply, and the same node is never handed out for two different (solution, label) pairs. -/
def Statement_fresh_per_solution : Prop :=
  ∀ (tpl : List QTpl) (n i j a b x y : Nat),
    alookup (solMap tpl n i) a = some x → alookup (solMap tpl n j) b = some y →
      n ≤ x ∧ (x = y → i = j ∧ a = b)

/-- every label of the template does get a node in every solution (a labelled position is never "unbound") -/
def Statement_fresh_total : Prop :=
  ∀ (tpl : List QTpl) (n i l : Nat), l ∈ tplLabels tpl → ∃ v, alookup (solMap tpl n i) l = some v

/-- ⊢ DELETE/INSERT … WHERE: the repaired `evalModify` leaves exactly OpDeleteInsert of the state before,
    for some supply of fresh blank nodes that is injective over (solution, label) and beyond the store's
    supply counter. -/
def Statement_modify_spec : Prop :=
  ∀ (c : Cfg) (u : Modify) (s : St),
    ∃ sk : Nat → Nat → Option Nat,
      (∀ i l v, sk i l = some v → s.next ≤ v) ∧
      (∀ i j l l' v, sk i l = some v → sk j l' = some v → i = j ∧ l = l') ∧
      ∀ x, x ∈ (evalModify c u s).quads ↔
        Spec.OpDeleteInsert s.quads (u.solutions c s) sk u.withG (u.del.getD []) (u.ins.getD []) x

/-- the per-solution loop of the pinned code computes the same dataset as the two passes -/
def Statement_modify_interleaved_same (c : Cfg) (u : Modify) (s : St) : Prop :=
  SetEq (evalModifyInterleaved c u s).quads (evalModify c u s).quads

/-- the decidable condition under which it does: no quad inserted for an earlier solution is deleted for
    a later one -/
def NoLaterDeletion (c : Cfg) (u : Modify) (s : St) : Prop :=
  (solPairs u.del u.ins u.withG (u.solutions c s) s.next).Pairwise (fun a b => ∀ y ∈ a.2, y ∉ b.1)

instance (c : Cfg) (u : Modify) (s : St) : Decidable (NoLaterDeletion c u s) := by
  unfold NoLaterDeletion; infer_instance

/-- DELETE WHERE: solutions are those of the state before the first deletion -/
def Statement_delete_where_snapshot : Prop :=
  ∀ (c : Cfg) (bs : List Block) (s : St) (x : Quad),
    x ∈ (evalDeleteWhere c bs s).quads ↔
      x ∈ s.quads ∧ ¬ ∃ μ ∈ evalWhere (storeDataset c s none) bs none,
        Spec.DatasetOf μ Spec.noSk none (blocksToTpl bs) x

def Statement_insert_data_spec : Prop :=
  ∀ (tpl : List QTpl) (s : St) (x : Quad),
    x ∈ (evalInsertData tpl s).quads ↔
      x ∈ s.quads ∨ Spec.DatasetOf [] (alookup (mkMap (tplLabels tpl) s.next)) none tpl x

def Statement_delete_data_spec : Prop :=
  ∀ (tpl : List QTpl) (s : St) (x : Quad),
    x ∈ (evalDeleteData tpl s).quads ↔ x ∈ s.quads ∧ ¬ Spec.DatasetOf [] Spec.noSk none tpl x

def Statement_clear_spec : Prop :=
  ∀ (c : Cfg) (t : Target) (s : St) (x : Quad), KnownInv s → SingleInv c s →
    (x ∈ (evalClear c t s).quads ↔ x ∈ s.quads ∧ ¬ Spec.inTarget t x.graph)

def Statement_drop_spec : Prop :=
  ∀ (c : Cfg) (t : Target) (s : St) (x : Quad), KnownInv s → SingleInv c s →
    (x ∈ (evalDrop c t s).quads ↔ x ∈ s.quads ∧ ¬ Spec.inTarget t x.graph)

/-- ADD: the target gains the source's triples; source = target is a no-op (uniform formula) -/
def Statement_add_spec : Prop :=
  ∀ (src dst : GName) (s : St) (x : Quad),
    x ∈ (evalAdd src dst s).quads ↔ x ∈ s.quads ∨ (x.graph = dst ∧ (x.1, x.2.1, x.2.2.1, src) ∈ s.quads)

/-- COPY: the target becomes a copy of the source; everything else untouched; source = target: no-op -/
def Statement_copy_spec : Prop :=
  ∀ (src dst : GName) (s : St) (x : Quad),
    x ∈ (evalCopy src dst s).quads ↔
      (x.graph ≠ dst ∧ x ∈ s.quads) ∨ (x.graph = dst ∧ (x.1, x.2.1, x.2.2.1, src) ∈ s.quads)

/-- MOVE: as COPY, and the source is gone (unless source = target: no-op) -/
def Statement_move_spec : Prop :=
  ∀ (src dst : GName) (s : St) (x : Quad),
    x ∈ (evalMove src dst s).quads ↔
      (x.graph ≠ dst ∧ x.graph ≠ src ∧ x ∈ s.quads) ∨ (x.graph = dst ∧ (x.1, x.2.1, x.2.2.1, src) ∈ s.quads)

/-- operations of one request run in lexical order: running `u₁ ; u₂` is running `u₂` from where `u₁` ended
    (including "a failed operation aborts the rest") -/
def Statement_request_in_order : Prop :=
  ∀ (c : Cfg) (u₁ u₂ : List Op) (s : St),
    runRequest c (u₁ ++ u₂) s = u₂.foldl (Run.step c) (runRequest c u₁ s)

def Statement_failed_aborts : Prop :=
  ∀ (c : Cfg) (ops : List Op) (r : Run), r.failed = true → ops.foldl (Run.step c) r = r

/-- reads of the default graph in WHERE: the union of all graphs iff the engine switch is on AND the
    object's own `default_union` is set (ConjunctiveGraph, Dataset(default_union=True)); the real default
    graph otherwise; a WITH graph replaces either.  Every triple is read once. -/
def Statement_union_switch_reads : Prop :=
  ∀ (c : Cfg) (s : St) (t : Triple),
    (t ∈ (storeDataset c s none).dflt ↔
      if c.switch = true ∧ (c.api = .cg ∨ c.api = .cgi ∨ c.api = .dsu) then ∃ g, (t.1, t.2.1, t.2.2, g) ∈ s.quads
      else (t.1, t.2.1, t.2.2, none) ∈ s.quads) ∧
    (∀ w, t ∈ (storeDataset c s (some w)).dflt ↔ (t.1, t.2.1, t.2.2, some w) ∈ s.quads)

/-- writes never depend on the switch: two configurations of the same class produce the same result for
    every operation as soon as they produce the same WHERE solutions; a template quad outside GRAPH lands
    in the WITH graph if there is one, else in the real default graph `none`. -/
def Statement_union_switch_writes : Prop :=
  (∀ (c c' : Cfg) (op : Op) (s : St), c.api = c'.api →
      (∀ u, op = .modify u → u.solutions c s = u.solutions c' s) →
      (∀ bs, op = .deleteWhere bs → evalWhere (storeDataset c s none) bs none = evalWhere (storeDataset c' s none) bs none) →
      evalOp c op s = evalOp c' op s) ∧
  (∀ (μ : Binding) (bm : List (Nat × Nat)) (tgt : GName) (t : TTpl) (x : Quad),
      fillQuad μ bm tgt (t, .dflt) = some x → x.graph = tgt)

/-- the graphs an operation may write to -/
def Op.targets (c : Cfg) (s : St) : Op → List GName
  | .insertData q | .deleteData q => q.filterMap (fun x => instGraph [] none x.2)
  | .deleteWhere bs =>
    (evalWhere (storeDataset c s none) bs none).flatMap (fun μ =>
      (blocksToTpl bs).filterMap (fun x => instGraph μ none x.2))
  | .modify u =>
    (u.solutions c s).flatMap (fun μ =>
      ((u.del.getD []) ++ (u.ins.getD [])).filterMap (fun x => instGraph μ u.withG x.2))
  | .clear _ t | .drop _ t => clearTargets c s t
  | .add _ _ b | .copy _ _ b => [b]
  | .move _ a b => [a, b]
  | .fail _ => []

/-- untouched graphs stay untouched -/
def Statement_untouched_graphs_unchanged : Prop :=
  ∀ (c : Cfg) (op : Op) (s s' : St) (x : Quad), evalOp c op s = some s' →
    x.graph ∉ op.targets c s → (x ∈ s'.quads ↔ x ∈ s.quads)

/-! ## Proofs -/

theorem instTerm_eq_subst (μ : Binding) (bm : List (Nat × Nat)) (t : TTerm) :
    instTerm μ bm t = Spec.subst μ (alookup bm) t := by
  cases t <;> rfl

theorem instGraph_eq_substG (μ : Binding) (tgt : GName) (g : GTerm) :
    instGraph μ tgt g = Spec.substG μ tgt g := by
  cases g <;> rfl

theorem template_skip : Statement_template_skip := by
  intro μ bm tgt tpl x
  rw [mem_fillTemplate]
  unfold Spec.DatasetOf Spec.Instance
  constructor
  · rintro ⟨q, hq, h⟩
    refine ⟨q, hq, ?_⟩
    have := (fillQuad_eq_some μ bm tgt q x).1 h
    simpa only [instTerm_eq_subst, instGraph_eq_substG] using this
  · rintro ⟨q, hq, h⟩
    refine ⟨q, hq, (fillQuad_eq_some μ bm tgt q x).2 ?_⟩
    simpa only [instTerm_eq_subst, instGraph_eq_substG] using h

theorem template_legal : Statement_template_legal := by
  intro μ bm tgt tpl x hx
  obtain ⟨q, _, h⟩ := (template_skip μ bm tgt tpl x).1 hx
  exact ⟨h.2.2.2.2.1, h.2.2.2.2.2⟩

theorem fresh_per_solution : Statement_fresh_per_solution := by
  intro tpl n i j a b x y hx hy
  unfold solMap at hx hy
  have rx := alookup_mkMap_range _ _ _ _ hx
  have ry := alookup_mkMap_range _ _ _ _ hy
  refine ⟨by have := Nat.zero_le (i * (tplLabels tpl).length); omega, ?_⟩
  intro e
  subst e
  have hij : i = j := by
    rcases Nat.lt_trichotomy i j with h | h | h
    · exfalso
      have : (i + 1) * (tplLabels tpl).length ≤ j * (tplLabels tpl).length := Nat.mul_le_mul_right _ h
      rw [Nat.add_mul] at this; omega
    · exact h
    · exfalso
      have : (j + 1) * (tplLabels tpl).length ≤ i * (tplLabels tpl).length := Nat.mul_le_mul_right _ h
      rw [Nat.add_mul] at this; omega
  subst hij
  exact ⟨rfl, alookup_mkMap_inj _ _ _ _ _ hx hy⟩

theorem fresh_total : Statement_fresh_total := by
  intro tpl n i l hl
  exact alookup_mkMap_mem _ _ _ hl

theorem alookup_nil : alookup [] = Spec.noSk := by
  funext l; rfl

theorem mem_fillTemplate_spec (μ : Binding) (bm : List (Nat × Nat)) (tgt : GName) (tpl : List QTpl) (x : Quad) :
    x ∈ fillTemplate μ bm tgt tpl ↔ Spec.DatasetOf μ (alookup bm) tgt tpl x := template_skip μ bm tgt tpl x

theorem datasetOf_nil (μ : Binding) (sk : Nat → Option Nat) (tgt : GName) (x : Quad) :
    Spec.DatasetOf μ sk tgt [] x ↔ False := by
  simp [Spec.DatasetOf]

theorem modify_spec : Statement_modify_spec := by
  intro c u s
  refine ⟨fun i => alookup (solMap (u.ins.getD []) s.next i), ?_, ?_, ?_⟩
  · intro i l v h
    exact (fresh_per_solution _ _ _ _ _ _ _ _ h h).1
  · intro i j l l' v h h'
    exact (fresh_per_solution _ _ _ _ _ _ _ _ h h').2 rfl
  · intro x
    unfold evalModify Spec.OpDeleteInsert
    cases hd : u.del <;> cases hi : u.ins <;> simp only [Option.getD]
    · simp only [datasetOf_nil, and_false, exists_false, not_false_eq_true, and_true, or_false]
    · next ins =>
      rw [mem_foldl_insertSolution]
      simp only [mem_fillTemplate_spec, datasetOf_nil, and_false, exists_false, not_false_eq_true, and_true,
        solMap]
    · next del =>
      rw [mem_foldl_deleteSolution]
      simp only [mem_fillTemplate_spec, alookup_nil, datasetOf_nil, and_false, exists_false, or_false,
        not_exists, not_and]
    · next del ins =>
      rw [mem_foldl_insertSolution, foldl_deleteSolution_next, mem_foldl_deleteSolution]
      simp only [mem_fillTemplate_spec, alookup_nil, not_exists, not_and, solMap]

/-! ### the per-solution loop of the pinned code -/

/-- witness: the 2-cycle {a p b, b p a} with DELETE { ?x p ?y } INSERT { ?y p ?x } WHERE { ?x p ?y } -/
def cycleStore : St := ⟨[(.iri 1, .iri 4, .iri 2, none), (.iri 2, .iri 4, .iri 1, none)], [], 0⟩
def swapModify : Modify :=
  { withG := none,
    del := some [((.var 40, .const (.iri 4), .var 41), .dflt)],
    ins := some [((.var 41, .const (.iri 4), .var 40), .dflt)],
    using_ := [], named := [],
    where_ := [(.dflt, [(.var 40, .const (.iri 4), .var 41)])], flt := none }
def plainGraph : Cfg := ⟨.graph, true⟩

/-- the pinned loop loses a triple on the witness (the repaired code keeps both) -/
theorem modify_interleaved_witness :
    ¬ Statement_modify_interleaved_same plainGraph swapModify cycleStore := by
  intro h
  have := (h (.iri 2, .iri 4, .iri 1, none)).2 (by decide)
  revert this
  decide

/-- non-vacuity of the witness: the repaired code returns both triples -/
example : (evalModify plainGraph swapModify cycleStore).quads =
    [(.iri 2, .iri 4, .iri 1, none), (.iri 1, .iri 4, .iri 2, none)] := by decide
example : (evalModifyInterleaved plainGraph swapModify cycleStore).quads =
    [(.iri 1, .iri 4, .iri 2, none)] := by decide
example : ¬ NoLaterDeletion plainGraph swapModify cycleStore := by decide

/-- per-solution loop = two passes whenever no earlier insertion is a later deletion -/
theorem modify_interleaved_partial (c : Cfg) (u : Modify) (s : St) :
    NoLaterDeletion c u s → Statement_modify_interleaved_same c u s := by
  intro h x
  rw [evalModifyInterleaved_eq_onePass, evalModify_eq_twoPass, mem_onePass, mem_twoPass]
  exact memInter_eq_twoPass _ _ h x

/-- non-vacuity: a request with two solutions that satisfies the hypothesis -/
example : NoLaterDeletion plainGraph
    { swapModify with ins := some [((.var 40, .const (.iri 5), .var 41), .dflt)] } cycleStore := by decide

/-! ### DELETE WHERE, INSERT DATA, DELETE DATA -/

theorem delete_where_snapshot : Statement_delete_where_snapshot := by
  intro c bs s x
  unfold evalDeleteWhere
  rw [mem_foldl_deleteSolution]
  simp only [mem_fillTemplate_spec, alookup_nil, not_exists, not_and]

theorem insert_data_spec : Statement_insert_data_spec := by
  intro tpl s x
  unfold evalInsertData
  rw [mem_insertSolution, mem_fillTemplate_spec]

theorem delete_data_spec : Statement_delete_data_spec := by
  intro tpl s x
  unfold evalDeleteData
  rw [mem_deleteSolution, mem_fillTemplate_spec, alookup_nil]

/-! ### graph management -/

theorem clear_spec : Statement_clear_spec := by
  intro c t s x hk hs
  unfold evalClear
  rw [mem_foldl_clearGraph]
  constructor
  · rintro ⟨hx, hg⟩
    refine ⟨hx, ?_⟩
    intro ht
    apply hg
    cases t with
    | dflt => simp only [Spec.inTarget] at ht; simp [clearTargets, ht]
    | named =>
      simp only [Spec.inTarget] at ht
      cases hgx : x.graph with
      | none => exact absurd hgx ht
      | some g =>
        have hsingle : c.single = false := by
          cases hc : c.single with
          | false => rfl
          | true => have := hs hc x hx; rw [hgx] at this; cases this
        simp only [clearTargets, hsingle, Bool.false_eq_true, if_false, List.mem_map, Option.some.injEq,
          exists_eq_right]
        exact hk x hx g hgx
    | all =>
      cases hc : c.single with
      | true => simp [clearTargets, hc, hs hc x hx]
      | false =>
        cases hgx : x.graph with
        | none => simp [clearTargets, hc]
        | some g => simp [clearTargets, hc]; exact hk x hx g hgx
    | graph n => simp only [Spec.inTarget] at ht; simp [clearTargets, ht]
  · rintro ⟨hx, hg⟩
    refine ⟨hx, ?_⟩
    intro hm
    apply hg
    cases t with
    | dflt => simpa [clearTargets, Spec.inTarget] using hm
    | named =>
      simp only [Spec.inTarget]
      cases hc : c.single with
      | true => simp [clearTargets, hc] at hm
      | false =>
        simp only [clearTargets, hc, Bool.false_eq_true, if_false, List.mem_map] at hm
        obtain ⟨g, _, hg'⟩ := hm
        rw [← hg']; simp
    | all => trivial
    | graph n => simpa [clearTargets, Spec.inTarget] using hm

theorem drop_spec : Statement_drop_spec := by
  intro c t s x hk hs
  unfold evalDrop
  split
  · exact clear_spec c t s x hk hs
  · have h := clear_spec c t s x hk hs
    unfold evalClear at h
    rw [mem_foldl_clearGraph] at h
    rw [mem_foldl_dropGraph]
    exact h

theorem add_spec : Statement_add_spec := by
  intro src dst s x
  unfold evalAdd
  split
  · next h =>
    subst h
    constructor
    · exact Or.inl
    · rintro (h | ⟨hg, h⟩)
      · exact h
      · obtain ⟨a, b, c, d⟩ := x
        simp only [Quad.graph] at hg
        subst hg; exact h
  · exact mem_copyInto s src dst x

theorem copy_spec : Statement_copy_spec := by
  intro src dst s x
  unfold evalCopy
  split
  · next h =>
    subst h
    constructor
    · intro h
      by_cases hg : x.graph = src
      · refine Or.inr ⟨hg, ?_⟩
        obtain ⟨a, b, c, d⟩ := x
        simp only [Quad.graph] at hg
        subst hg; exact h
      · exact Or.inl ⟨hg, h⟩
    · rintro (⟨_, h⟩ | ⟨hg, h⟩)
      · exact h
      · obtain ⟨a, b, c, d⟩ := x
        simp only [Quad.graph] at hg
        subst hg; exact h
  · next hne =>
    rw [mem_copyInto, mem_clearGraph, mem_clearGraph]
    simp only [Quad.graph]
    constructor
    · rintro (⟨h1, h2⟩ | ⟨h1, h2, _⟩)
      · exact Or.inl ⟨h2, h1⟩
      · exact Or.inr ⟨h1, h2⟩
    · rintro (⟨h1, h2⟩ | ⟨h1, h2⟩)
      · exact Or.inl ⟨h2, h1⟩
      · exact Or.inr ⟨h1, h2, hne⟩

theorem move_spec : Statement_move_spec := by
  intro src dst s x
  unfold evalMove
  split
  · next h =>
    subst h
    constructor
    · intro h
      by_cases hg : x.graph = src
      · refine Or.inr ⟨hg, ?_⟩
        obtain ⟨a, b, c, d⟩ := x
        simp only [Quad.graph] at hg
        subst hg; exact h
      · exact Or.inl ⟨hg, hg, h⟩
    · rintro (⟨_, _, h⟩ | ⟨hg, h⟩)
      · exact h
      · obtain ⟨a, b, c, d⟩ := x
        simp only [Quad.graph] at hg
        subst hg; exact h
  · next hne =>
    rw [mem_dropGraph, mem_copyInto, mem_clearGraph, mem_clearGraph]
    simp only [Quad.graph]
    constructor
    · rintro ⟨(⟨h1, h2⟩ | ⟨h1, h2, _⟩), h3⟩
      · exact Or.inl ⟨h2, h3, h1⟩
      · exact Or.inr ⟨h1, h2⟩
    · rintro (⟨h1, h2, h3⟩ | ⟨h1, h2⟩)
      · exact ⟨Or.inl ⟨h3, h1⟩, h2⟩
      · refine ⟨Or.inr ⟨h1, h2, hne⟩, ?_⟩
        rw [h1]; exact fun e => hne e.symm

/-! ### requests -/

theorem request_in_order : Statement_request_in_order := by
  intro c u₁ u₂ s
  simp [runRequest, List.foldl_append]

theorem failed_aborts : Statement_failed_aborts := by
  intro c ops
  induction ops with
  | nil => intro r _; rfl
  | cons op rest ih =>
    intro r hr
    rw [List.foldl_cons]
    have : Run.step c r op = r := by simp [Run.step, hr]
    rw [this]
    exact ih r hr

/-! ### the default-graph-is-union switch -/

theorem union_switch_reads : Statement_union_switch_reads := by
  intro c s t
  constructor
  · simp only [storeDataset, Cfg.effUnion, Bool.and_eq_true, Bool.or_eq_true, decide_eq_true_eq]
    split
    · next h =>
      rw [if_pos ⟨h.1, by rcases h.2 with (h | h) | h <;> simp [h]⟩]
      exact mem_unionTriples
    · next h =>
      rw [if_neg (by rintro ⟨h1, h2 | h2 | h2⟩ <;> exact h ⟨h1, by simp [h2]⟩)]
      exact mem_graphTriples
  · intro w
    simp only [storeDataset]
    exact mem_graphTriples

theorem union_reads_once (c : Cfg) (s : St) (w : Option Nat) (h : s.quads.Nodup) :
    (storeDataset c s w).dflt.Nodup := by
  have key : ∀ g, (graphTriples s.quads g).Nodup := fun g => nodup_graphTriples h g
  simp only [storeDataset]
  cases w with
  | some g => exact key _
  | none =>
    simp only
    split
    · exact nodup_dedup _
    · exact key _

theorem union_switch_writes : Statement_union_switch_writes := by
  constructor
  · intro c c' op s hapi hm hd
    have hsingle : c.single = c'.single := by simp [Cfg.single, hapi]
    unfold evalOp
    rw [hsingle]
    split
    · rfl
    · congr 1
      cases op with
      | modify u =>
        simp only
        unfold evalModify
        rw [hm u rfl]
      | deleteWhere bs =>
        simp only
        unfold evalDeleteWhere
        rw [hd bs rfl]
      | clear sl t => simp only [evalClear, clearTargets, hsingle]
      | drop sl t => simp only [evalDrop, evalClear, clearTargets, hsingle]
      | _ => rfl
  · intro μ bm tgt t x h
    have := (fillQuad_eq_some μ bm tgt (t, .dflt) x).1 h
    have hg := this.2.2.2.1
    simp only [instGraph, Option.some.injEq] at hg
    exact hg.symm

/-! ### untouched graphs -/

theorem untouched_graphs_unchanged : Statement_untouched_graphs_unchanged := by
  intro c op s s' x h hx
  unfold evalOp at h
  split at h
  · cases h
  · simp only [Option.some.injEq] at h
    subst h
    cases op with
    | fail sl => exact Iff.rfl
    | insertData q =>
      simp only [Op.targets] at hx
      simp only [evalInsertData]
      rw [mem_insertSolution]
      constructor
      · rintro (h | h)
        · exact h
        · exact absurd (graph_mem_of_fillTemplate _ _ _ _ _ h) hx
      · exact Or.inl
    | deleteData q =>
      simp only [Op.targets] at hx
      simp only [evalDeleteData]
      rw [mem_deleteSolution]
      constructor
      · exact fun h => h.1
      · exact fun h => ⟨h, fun h' => hx (graph_mem_of_fillTemplate _ _ _ _ _ h')⟩
    | deleteWhere bs =>
      simp only [Op.targets, List.mem_flatMap, not_exists, not_and] at hx
      simp only [evalDeleteWhere]
      rw [mem_foldl_deleteSolution]
      constructor
      · exact fun h => h.1
      · exact fun h => ⟨h, fun μ hμ h' => hx μ hμ (graph_mem_of_fillTemplate _ _ _ _ _ h')⟩
    | modify u =>
      simp only [Op.targets, List.mem_flatMap, not_exists, not_and, List.filterMap_append, List.mem_append,
        not_or] at hx
      simp only
      rw [evalModify_eq_twoPass, mem_twoPass]
      constructor
      · rintro (h | ⟨p, hp, h⟩)
        · exact h.1
        · exfalso
          obtain ⟨μ, hμ, n', rfl⟩ := mem_solPairs _ _ _ _ _ _ hp
          cases hi : u.ins with
          | none => simp [insOf, hi] at h
          | some tpl =>
            simp only [insOf, hi] at h
            exact (hx μ hμ).2 (by simpa [hi] using graph_mem_of_fillTemplate _ _ _ _ _ h)
      · intro h
        refine Or.inl ⟨h, ?_⟩
        intro p hp hd
        obtain ⟨μ, hμ, n', rfl⟩ := mem_solPairs _ _ _ _ _ _ hp
        cases hdel : u.del with
        | none => simp [delOf, hdel] at hd
        | some tpl =>
          simp only [delOf, hdel] at hd
          exact (hx μ hμ).1 (by simpa [hdel] using graph_mem_of_fillTemplate _ _ _ _ _ hd)
    | clear sl t =>
      simp only [Op.targets] at hx
      simp only [evalClear]
      rw [mem_foldl_clearGraph]
      exact ⟨fun h => h.1, fun h => ⟨h, hx⟩⟩
    | drop sl t =>
      simp only [Op.targets] at hx
      simp only [evalDrop, evalClear]
      split
      · rw [mem_foldl_clearGraph]
        exact ⟨fun h => h.1, fun h => ⟨h, hx⟩⟩
      · rw [mem_foldl_dropGraph]
        exact ⟨fun h => h.1, fun h => ⟨h, hx⟩⟩
    | add sl a b =>
      simp only [Op.targets, List.mem_singleton] at hx
      simp only
      rw [add_spec]
      exact ⟨fun h => h.elim id (fun h' => absurd h'.1 hx), Or.inl⟩
    | copy sl a b =>
      simp only [Op.targets, List.mem_singleton] at hx
      simp only
      rw [copy_spec]
      exact ⟨fun h => h.elim (fun h' => h'.2) (fun h' => absurd h'.1 hx), fun h => Or.inl ⟨hx, h⟩⟩
    | move sl a b =>
      simp only [Op.targets, List.mem_cons, List.not_mem_nil, or_false, not_or] at hx
      simp only
      rw [move_spec]
      exact ⟨fun h => h.elim (fun h' => h'.2.2) (fun h' => absurd h'.1 hx.2), fun h => Or.inl ⟨hx.2, hx.1, h⟩⟩

/-! ### invariants along a request -/

/-- the store invariants the graph-management specs rely on (`KnownInv`: every named graph holding a quad is
    registered; no duplicate quads; a plain Graph holds one graph) hold after every request -/
def Statement_store_invariants : Prop :=
  ∀ (c : Cfg) (ops : List Op) (s : St), Inv c s → Inv c (runRequest c ops s).st

theorem store_invariants : Statement_store_invariants := by
  intro c ops s h
  exact inv_foldl_step c ops _ h

example (c : Cfg) : Inv c ⟨[], [], 0⟩ := by
  refine ⟨?_, List.nodup_nil, ?_⟩
  · intro q hq; cases hq
  · intro _ q hq; cases hq

/-- minted blank nodes are new: along any request whose text mentions no minted node (it cannot: they have
    no spelling), every minted node in the store is numbered below the supply counter and the counter never
    decreases — and `modify_spec` / `fresh_per_solution` hand out nodes at or above the counter only. -/
def Statement_minted_nodes_new : Prop :=
  ∀ (c : Cfg) (ops : List Op) (s : St), (∀ op ∈ ops, op.wf) → FreshInv s →
    FreshInv (runRequest c ops s).st ∧ s.next ≤ (runRequest c ops s).st.next

theorem minted_nodes_new : Statement_minted_nodes_new := by
  intro c ops s hw h
  have key : ∀ (ops : List Op) (r : Run), (∀ op ∈ ops, op.wf) → FreshInv r.st →
      FreshInv (ops.foldl (Run.step c) r).st ∧ r.st.next ≤ (ops.foldl (Run.step c) r).st.next := by
    intro ops
    induction ops with
    | nil => intro r _ h; exact ⟨h, Nat.le_refl _⟩
    | cons op rest ih =>
      intro r hw h
      have hstep : FreshInv (r.step c op).st ∧ r.st.next ≤ (r.step c op).st.next := by
        unfold Run.step
        split
        · exact ⟨h, Nat.le_refl _⟩
        · split
          · next s' e => exact freshInv_evalOp c op (hw op List.mem_cons_self) r.st s' h e
          · exact ⟨h, Nat.le_refl _⟩
      have := ih (r.step c op) (fun o ho => hw o (List.mem_cons_of_mem _ ho)) hstep.1
      exact ⟨this.1, Nat.le_trans hstep.2 this.2⟩
  exact key ops _ hw h

/-! ### DELETE WHERE of the pinned code (simplified lazy model): why the snapshot matters -/

/-- witness: {a p b, a p c, _:b p a} and DELETE WHERE { ?x p ?y . ?z p ?x } -/
def lazyStore : St :=
  ⟨[(.iri 1, .iri 4, .iri 2, none), (.iri 1, .iri 4, .iri 3, none), (.bnode 30, .iri 4, .iri 1, none)], [], 0⟩
def lazyPattern : List TPat := [(.var 40, .const (.iri 4), .var 41), (.var 42, .const (.iri 4), .var 40)]

theorem delete_where_lazy_witness :
    ¬ SetEq (evalDeleteWhereLazy lazyPattern lazyStore).quads
            (evalDeleteWhere plainGraph [(.dflt, lazyPattern)] lazyStore).quads := by
  intro h
  have := (h (.iri 1, .iri 4, .iri 3, none)).1 (by decide)
  revert this
  decide

example : (evalDeleteWhere plainGraph [(.dflt, lazyPattern)] lazyStore).quads = [] := by decide
example : (evalDeleteWhereLazy lazyPattern lazyStore).quads = [(.iri 1, .iri 4, .iri 3, none)] := by decide

/-! ### WITH / USING -/

/-- USING and USING NAMED only choose the dataset the WHERE clause is matched against; what is deleted and
    inserted, and where (outside GRAPH: the WITH graph, else the real default graph — see
    `union_switch_writes`), depends on them through the solutions alone. -/
def Statement_with_using_graph_targets : Prop :=
  ∀ (c : Cfg) (u u' : Modify) (s : St), u.withG = u'.withG → u.del = u'.del → u.ins = u'.ins →
    u.solutions c s = u'.solutions c s → evalModify c u s = evalModify c u' s

theorem with_using_graph_targets : Statement_with_using_graph_targets := by
  intro c u u' s hw hd hi hs
  unfold evalModify
  rw [hw, hd, hi, hs]

/-- the dataset USING / USING NAMED define: default graph = the merge of the USING graphs (each triple
    once; empty without USING), GRAPH <g> sees g only if it is a USING NAMED graph, and with any USING
    clause present the WITH graph and the union switch play no part in the WHERE clause -/
def Statement_using_dataset_spec : Prop :=
  (∀ (s : St) (us nm : List Nat) (t : Triple),
      t ∈ (usingDataset s us nm).dflt ↔ ∃ g ∈ us, (t.1, t.2.1, t.2.2, some g) ∈ s.quads) ∧
  (∀ (s : St) (us nm : List Nat), (usingDataset s us nm).dflt.Nodup) ∧
  (∀ (s : St) (us nm : List Nat) (g : Nat) (t : Triple),
      t ∈ (usingDataset s us nm).graph g ↔ g ∈ nm ∧ (t.1, t.2.1, t.2.2, some g) ∈ s.quads) ∧
  (∀ (c c' : Cfg) (u : Modify) (w : Option Nat) (s : St), (u.using_ ≠ [] ∨ u.named ≠ []) →
      u.solutions c s = { u with withG := w }.solutions c' s)

theorem using_dataset_spec : Statement_using_dataset_spec := by
  refine ⟨?_, ?_, ?_, ?_⟩
  · intro s us nm t
    simp only [usingDataset]
    rw [mem_dedup]
    simp only [List.mem_flatMap, mem_graphTriples]
  · intro s us nm
    exact nodup_dedup _
  · intro s us nm g t
    simp only [usingDataset, WhereDS.graph]
    split
    · next e he =>
      have hm := List.mem_of_find?_eq_some he
      have hp := List.find?_some he
      simp only [List.mem_map, mem_dedup] at hm
      obtain ⟨g', hg', rfl⟩ := hm
      simp only [decide_eq_true_eq] at hp
      subst hp
      simp only [mem_graphTriples, hg', true_and]
    · next hnone =>
      simp only [List.find?_eq_none, List.mem_map, mem_dedup, decide_eq_true_eq, forall_exists_index, and_imp,
        forall_apply_eq_imp_iff₂] at hnone
      constructor
      · intro h; cases h
      · rintro ⟨hg, _⟩; exact absurd rfl (hnone g hg)
  · intro c c' u w s h
    unfold Modify.solutions
    have : (u.using_.isEmpty && u.named.isEmpty) = false := by
      rcases h with h | h
      · cases hu : u.using_ with
        | nil => exact absurd hu h
        | cons a l => simp
      · cases hn : u.named with
        | nil => exact absurd hn h
        | cons a l => simp
    simp only [this, Bool.false_eq_true, if_false]

/-! ### DROP removes the graph, CLEAR keeps it registered -/

/-- on a dataset, DROP unregisters exactly its target graphs; CLEAR unregisters nothing -/
def Statement_drop_unregisters : Prop :=
  ∀ (c : Cfg) (t : Target) (s : St) (n : Nat), c.single = false →
    (n ∈ (evalDrop c t s).known ↔ n ∈ s.known ∧ some n ∉ clearTargets c s t) ∧
    (evalClear c t s).known = s.known

theorem drop_unregisters : Statement_drop_unregisters := by
  intro c t s n hc
  constructor
  · simp only [evalDrop, hc, Bool.false_eq_true, if_false]
    exact known_foldl_dropGraph _ _ _
  · simp only [evalClear]
    generalize clearTargets c s t = gs
    induction gs generalizing s with
    | nil => rfl
    | cons g rest ih => rw [List.foldl_cons, ih]; rfl

/-! ### grouping quads by graph loses none -/

/-- Grouping the written quad patterns into blocks (default-graph triples / one block per run of a GRAPH
    term, the same graph possibly in several blocks) and flattening the blocks again gives back exactly the
    written quads, in order: no block of a repeated graph is dropped. -/
def Statement_grouping_loses_none : Prop :=
  ∀ (ps : List (TPat × GTerm)),
    blocksToTpl (groupBlocks ps) = ps.map (fun q => ((q.1.1.toT, q.1.2.1.toT, q.1.2.2.toT), q.2))

theorem grouping_loses_none : Statement_grouping_loses_none := by
  intro ps
  induction ps with
  | nil => rfl
  | cons q rest ih =>
    obtain ⟨t, g⟩ := q
    simp only [groupBlocks, List.map_cons]
    rw [← ih]
    cases h : groupBlocks rest with
    | nil => simp [blocksToTpl]
    | cons b bs =>
      obtain ⟨g', ts⟩ := b
      simp only
      split
      · next e => subst e; simp [blocksToTpl]
      · simp [blocksToTpl]

/-- non-vacuity: `GRAPH g { a } . d . GRAPH g { b }` keeps both blocks of `g` -/
example :
    let a : TPat := (.var 40, .const (.iri 4), .var 41)
    let b : TPat := (.var 42, .const (.iri 4), .var 40)
    groupBlocks [(a, .name 90), (b, .dflt), (b, .name 90)] = [(.name 90, [a]), (.dflt, [b]), (.name 90, [b])] := by
  decide

/-! ### one prologue threaded through the request -/

/-- operations of one request run in order over (dataset × prologue): running `es₁ ; es₂` is running `es₂`
    from the dataset AND the prologue `es₁` ended with -/
def Statement_request_in_order_prologue : Prop :=
  ∀ (c : Cfg) (T : Tables) (es₁ es₂ : List PElem) (r : PRun),
    runPRequest c T (es₁ ++ es₂) r = runPRequest c T es₂ (runPRequest c T es₁ r)

theorem request_in_order_prologue : Statement_request_in_order_prologue := by
  intro c T es₁ es₂ r
  simp [runPRequest, List.foldl_append]

/-- the prologue in force after a request prefix is what ALL declarations written so far, in order, give —
    whether the request failed on the way or not; so the operation of the next element `e` is read under
    the declarations of every earlier element plus its own -/
def Statement_prologue_in_force : Prop :=
  ∀ (c : Cfg) (T : Tables) (es : List PElem) (r : PRun),
    (runPRequest c T es r).pro = (es.flatMap (fun e => e.1)).foldl (Prologue.declare T) r.pro

theorem prologue_in_force : Statement_prologue_in_force := by
  intro c T es
  induction es with
  | nil => intro r; rfl
  | cons e rest ih =>
    intro r
    have hstep : (PRun.step c T r e).pro = e.1.foldl (Prologue.declare T) r.pro := by
      unfold PRun.step
      simp only
      cases e.2 (e.1.foldl (Prologue.declare T) r.pro) <;> rfl
    simp only [runPRequest, List.foldl_cons] at ih ⊢
    rw [ih, hstep, List.flatMap_cons, List.foldl_append]

/-- a BASE stays in force until the next BASE: PREFIX declarations do not touch it (and vice versa a BASE
    does not touch the prefixes) -/
def Statement_base_persists : Prop :=
  ∀ (T : Tables) (ds : List Decl) (p : Prologue),
    ((∀ d ∈ ds, ∀ b, d ≠ .base b) → (ds.foldl (Prologue.declare T) p).base = p.base) ∧
    ((∀ d ∈ ds, ∃ b, d = .base b) → (ds.foldl (Prologue.declare T) p).prefixes = p.prefixes)

theorem base_persists : Statement_base_persists := by
  intro T ds
  induction ds with
  | nil => intro p; exact ⟨fun _ => rfl, fun _ => rfl⟩
  | cons d rest ih =>
    intro p
    constructor
    · intro h
      rw [List.foldl_cons, (ih _).1 (fun d' hd' => h d' (List.mem_cons_of_mem _ hd'))]
      cases d with
      | base b => exact absurd rfl (h _ List.mem_cons_self b)
      | «prefix» x ns => rfl
      | prefixRel x r =>
        simp only [Prologue.declare]
        split
        · split <;> rfl
        · rfl
    · intro h
      rw [List.foldl_cons, (ih _).2 (fun d' hd' => h d' (List.mem_cons_of_mem _ hd'))]
      obtain ⟨b, rfl⟩ := h d List.mem_cons_self
      rfl

/-- without declarations and with operations that do not depend on the prologue, the request over
    (dataset × prologue) is the plain `runRequest` -/
def Statement_prologue_free_request : Prop :=
  ∀ (c : Cfg) (T : Tables) (ops : List Op) (r : Run) (p : Prologue),
    (runPRequest c T (ops.map (fun op => (([], fun _ => some (WOp.other op)) : PElem))) ⟨r, p⟩).run =
      ops.foldl (Run.step c) r

theorem prologue_free_request : Statement_prologue_free_request := by
  intro c T ops
  induction ops with
  | nil => intro r p; rfl
  | cons op rest ih =>
    intro r p
    simp only [runPRequest, List.map_cons, List.foldl_cons] at ih ⊢
    have : PRun.step c T ⟨r, p⟩ ([], fun _ => some (WOp.other op)) = ⟨r.step c op, p⟩ := by
      simp only [PRun.step, List.foldl_nil, stepW_eq, WOp.toOp]
    rw [this, ih]

/-- non-vacuity: BASE 0 before the first operation; the second operation's relative reference is resolved
    against it (reference 5 under base 0 denotes IRI 1), although nothing is declared before it -/
example :
    let T : Tables := ⟨[((0, 5), 1)], [], []⟩
    let ins (n : Nat) : WOp := .insertData [.triples [(.const (.iri n), .const (.iri 4), .const (.iri 2))]]
    let e1 : PElem := ([.base 0], fun _ => some (ins 3))
    let e2 : PElem := ([], fun pro => (pro.resolve T (.rel 5)).map ins)
    (runPRequest ⟨.ds, true⟩ T [e1, e2] ⟨⟨⟨[], [], 0⟩, false⟩, ⟨none, []⟩⟩).run.st.quads =
      [(.iri 3, .iri 4, .iri 2, none), (.iri 1, .iri 4, .iri 2, none)] := by
  decide

/-! ### solutions are a LIST: equal solutions at two positions get different fresh nodes -/

/-- `fresh_per_solution` is about POSITIONS in the list of solutions (`solMap tpl n i` is the blank-node map of
    the i-th solution, whatever its value): two occurrences of the very same solution — `{A} UNION {A}`, a
    sub-select that projects a variable away — get different nodes for the same label. -/
def Statement_fresh_per_occurrence : Prop :=
  ∀ (tpl : List QTpl) (n i j l x y : Nat), i ≠ j →
    alookup (solMap tpl n i) l = some x → alookup (solMap tpl n j) l = some y → x ≠ y

theorem fresh_per_occurrence : Statement_fresh_per_occurrence := by
  intro tpl n i j l x y hij hx hy e
  exact hij ((fresh_per_solution tpl n i j l l x y hx hy).2 e).1

/-- non-vacuity: one triple, `INSERT { ?x :r _:b } WHERE { { ?x :p ?y } UNION { ?x :p ?y } }` — the solution
    occurs twice in the list, and two different nodes are minted -/
def unionModify : Modify :=
  { withG := none, del := none,
    ins := some [((.var 40, .const (.iri 5), .label 50), .dflt)],
    using_ := [], named := [],
    where_ := [(.dflt, [(.var 40, .const (.iri 4), .var 41)])], flt := none,
    wmode := .union [(.dflt, [(.var 40, .const (.iri 4), .var 41)])] }
def oneTriple : St := ⟨[(.iri 1, .iri 4, .iri 2, none)], [], 0⟩

example : unionModify.solutions plainGraph oneTriple =
    [[(41, .iri 2), (40, .iri 1)], [(41, .iri 2), (40, .iri 1)]] := by decide
example : (evalModify plainGraph unionModify oneTriple).quads =
    [(.iri 1, .iri 4, .iri 2, none), (.iri 1, .iri 5, .fresh 0, none), (.iri 1, .iri 5, .fresh 1, none)] := by
  decide
/-- the same through a sub-select projecting `?y` away: {a p b, a p c} gives ?x = a twice -/
example : ({ unionModify with wmode := .proj [40] }.solutions plainGraph
    ⟨[(.iri 1, .iri 4, .iri 2, none), (.iri 1, .iri 4, .iri 3, none)], [], 0⟩) =
    [[(40, .iri 1)], [(40, .iri 1)]] := by decide

/-! ### `translateQuads`: the structure the evaluators walk, and the quads that were written -/

/-- (i) the translated structure (triples outside GRAPH + dictionary graph term ↦ triples, later blocks of a
    graph appended to its entry, empty blocks dropped) denotes exactly the written quads, as a MULTISET:
    nothing lost, nothing duplicated — also when one graph (IRI or variable) is named by several GRAPH blocks -/
def Statement_translate_loses_none : Prop :=
  ∀ (w : Written), (translateQuads w).flat.Perm w.flat

theorem translate_loses_none : Statement_translate_loses_none := translateQuads_flat_perm

/-- non-vacuity: `GRAPH g { a } . d . GRAPH ?v { b } GRAPH g { c } GRAPH h { }` — `g` in two blocks (merged into
    one dictionary entry, in first-occurrence position), a variable graph, an empty block (no entry) -/
example :
    let a : TTpl := (.const (.iri 1), .const (.iri 4), .const (.iri 2))
    let b : TTpl := (.var 40, .const (.iri 4), .label 50)
    let w : Written := [.graph (.name 90) [a], .triples [b], .graph (.var 44) [b], .graph (.name 90) [b, a],
                        .graph (.name 91) []]
    translateQuads w = ⟨[b], [(.name 90, [a, b, a]), (.var 44, [b])]⟩ ∧
    (translateQuads w).flat =
      [(b, .dflt), (a, .name 90), (b, .name 90), (a, .name 90), (b, .var 44)] ∧
    w.flat = [(a, .name 90), (b, .dflt), (b, .var 44), (b, .name 90), (a, .name 90)] := by
  decide

/-- (ii) an operation as written, evaluated the way the code does — `evalInsertData` / `evalDeleteData` /
    `evalModify` walking `u.triples` and then the `u.quads` dictionary entry by entry with one blank-node map —
    (a) is exactly the flat model applied to the translated structure read in evaluator order, and
    (b) leaves the same quads and the same supply counter as the flat model applied to the quads in WRITTEN
    order, which is what `modify_spec`, `insert_data_spec`, `delete_data_spec` are stated about
    (both fail together on a plain Graph). -/
def Statement_translated_effect : Prop :=
  ∀ (c : Cfg) (w : WOp) (s : St),
    evalWOp c w s = evalOp c w.toOp s ∧ SameOutcome (evalWOp c w s) (evalOp c w.asWritten s)

theorem translated_effect : Statement_translated_effect :=
  fun c w s => ⟨evalWOp_eq c w s, evalWOp_same_asWritten c w s⟩

/-- hence OpDeleteInsert for the operation AS WRITTEN, now through the modelled translation: `evalModifyT`
    (templates translated, dictionary walked) leaves `Spec.OpDeleteInsert` of the written DELETE and INSERT
    quads -/
def Statement_modify_spec_written : Prop :=
  ∀ (c : Cfg) (u : WModify) (s : St),
    ∃ sk : Nat → Nat → Option Nat,
      (∀ i l v, sk i l = some v → s.next ≤ v) ∧
      (∀ i j l l' v, sk i l = some v → sk j l' = some v → i = j ∧ l = l') ∧
      ∀ x, x ∈ (evalModifyT c u s).quads ↔
        Spec.OpDeleteInsert s.quads (u.core.solutions c s) sk u.core.withG
          ((u.del.map Written.flat).getD []) ((u.ins.map Written.flat).getD []) x

theorem modify_spec_written : Statement_modify_spec_written := by
  intro c u s
  obtain ⟨sk, h1, h2, h3⟩ := modify_spec c u.asWritten s
  refine ⟨sk, h1, h2, fun x => ?_⟩
  have hsame : SameStore (evalModifyT c u s) (evalModify c u.asWritten s) := by
    rw [evalModifyT_eq]
    refine evalModify_same c u.toModify u.asWritten s rfl rfl ?_ ?_
    · simp only [WModify.toModify, WModify.asWritten]
      cases u.del <;> simp only [Option.map]
      exact sameQuads_translate _
    · simp only [WModify.toModify, WModify.asWritten]
      cases u.ins <;> simp only [Option.map]
      exact sameQuads_translate _
  rw [hsame.1 x, h3 x]
  rfl

/-- a whole written request is the flat request of its translated operations (so `request_in_order`,
    `store_invariants`, `minted_nodes_new` … apply to it) -/
def Statement_written_request : Prop :=
  ∀ (c : Cfg) (ws : List WOp) (r : Run),
    ws.foldl (Run.stepW c) r = (ws.map WOp.toOp).foldl (Run.step c) r

theorem written_request : Statement_written_request := by
  intro c ws
  induction ws with
  | nil => intro r; rfl
  | cons w rest ih => intro r; simp only [List.foldl_cons, List.map_cons, stepW_eq, ih]

/-! ### the same graph under two spellings; a prepared request executed again -/

/-- ADD / MOVE / COPY compare the graphs the two references DENOTE, not how they are written: whenever source and
    destination resolve to the same graph — `DEFAULT` and the IRI of the default graph in either order, the
    same IRI twice — the operation changes nothing -/
def Statement_same_graph_noop : Prop :=
  ∀ (d : Option Nat) (a b : GraphRef) (s : St), a.resolve d = b.resolve d →
    evalAdd (a.resolve d) (b.resolve d) s = s ∧ evalMove (a.resolve d) (b.resolve d) s = s ∧
    evalCopy (a.resolve d) (b.resolve d) s = s

theorem same_graph_noop : Statement_same_graph_noop := by
  intro d a b s h
  simp [evalAdd, evalMove, evalCopy, h]

/-- non-vacuity: with 99 the IRI of the default graph, `DEFAULT` and `<99>` are different spellings of one graph
    (so COPY DEFAULT TO <99> keeps the default graph), while without such an IRI `<99>` is another graph -/
example : GraphRef.dflt ≠ GraphRef.iri 99 ∧ GraphRef.dflt.resolve (some 99) = (GraphRef.iri 99).resolve (some 99) ∧
    GraphRef.dflt.resolve none ≠ (GraphRef.iri 99).resolve none := by decide
example : (evalCopy (GraphRef.dflt.resolve (some 99)) ((GraphRef.iri 99).resolve (some 99)) cycleStore).quads =
    cycleStore.quads := by decide

/-- A prepared request is an immutable list of operations; everything an execution changes — the quads, the
    registered graphs AND the supply of fresh blank nodes — is in the dataset state it is run on.  Executing it
    again from the state the first execution left (i) keeps `FreshInv` and never lowers the supply, so every
    node the second execution mints (at or above the supply it starts with, `fresh_per_solution`) is different
    from every node in the store, those of the first execution included; (ii) if the first execution did not
    fail, the two executions together are the request `ops ++ ops` run once. -/
def Statement_prepared_update_stateless : Prop :=
  ∀ (c : Cfg) (ops : List Op) (s : St), (∀ op ∈ ops, op.wf) → FreshInv s →
    let r1 := runRequest c ops s
    let r2 := runRequest c ops r1.st
    FreshInv r1.st ∧ FreshInv r2.st ∧ s.next ≤ r1.st.next ∧ r1.st.next ≤ r2.st.next ∧
    (r1.failed = false → r2 = runRequest c (ops ++ ops) s)

theorem prepared_update_stateless : Statement_prepared_update_stateless := by
  intro c ops s hw h
  have h1 := minted_nodes_new c ops s hw h
  have h2 := minted_nodes_new c ops (runRequest c ops s).st hw h1.1
  refine ⟨h1.1, h2.1, h1.2, h2.2, ?_⟩
  intro hf
  rw [request_in_order]
  unfold runRequest at hf ⊢
  congr 1
  generalize List.foldl (Run.step c) { st := s, failed := false } ops = r at hf
  cases r
  simp_all

/-- non-vacuity: `INSERT DATA { _:b :p :o }` executed twice mints two different nodes -/
example :
    let op : Op := .insertData [((.label 50, .const (.iri 4), .const (.iri 2)), .dflt)]
    (runRequest plainGraph [op] (runRequest plainGraph [op] ⟨[], [], 0⟩).st).st.quads =
      [(.fresh 0, .iri 4, .iri 2, none), (.fresh 1, .iri 4, .iri 2, none)] := by decide

/-! ### WHERE clauses of the full algebra: the solutions are those SPARQL 1.1 §18 defines

  `WMode.alg n P`: the WHERE clause is any pattern `P` of the algebra (BGP, Join, LeftJoin, Filter, Union, Minus, Extend,
  Graph, Values, sub-select; expressions with comparisons, three-valued logic, bound, EXISTS), as rdflib translated and
  annotated it, evaluated by `RV.C04.Model.evalPart` — the model of `evaluate.py` — on the dataset this model selects.
  `RV.C04.pushdown` relates that evaluator to the bottom-up semantics `RV.C04.Spec.eval`; composed with `modify_spec`: -/

/-- the solutions SPARQL 1.1 §18 gives the pattern over the dataset (bottom-up algebra, no push-down, annotations ignored) -/
def specSolutions (d : WhereDS) (n : Nat) (P : C04.Alg) : List Binding :=
  (C04.Spec.eval d.toC04 d.toC04.dflt (C04.Row.empty : C04.Row n) P).map rowToBinding

/-- `Spec.OpDeleteInsert` does not depend on the ORDER in which the solutions are listed: over a permutation of them, a
    re-indexed supply of fresh nodes — as injective over (solution, label) and as far beyond the counter — gives the
    same dataset.  (The multiplicity of a solution does matter: one set of fresh nodes per occurrence.) -/
def Statement_op_delete_insert_perm : Prop :=
  ∀ (before : List Quad) (sols sols' : List Binding) (sk : Nat → Nat → Option Nat) (lo : Nat) (tgt : GName)
    (del ins : List QTpl), sols.Perm sols' →
    (∀ i l v, sk i l = some v → lo ≤ v) →
    (∀ i j l l' v, sk i l = some v → sk j l' = some v → i = j ∧ l = l') →
    ∃ sk' : Nat → Nat → Option Nat,
      (∀ i l v, sk' i l = some v → lo ≤ v) ∧
      (∀ i j l l' v, sk' i l = some v → sk' j l' = some v → i = j ∧ l = l') ∧
      ∀ x, Spec.OpDeleteInsert before sols sk tgt del ins x ↔ Spec.OpDeleteInsert before sols' sk' tgt del ins x

theorem op_delete_insert_perm : Statement_op_delete_insert_perm := by
  intro before sols sols' sk lo tgt del ins hp hlo hinj
  obtain ⟨π, ρ, h1, h2, h3⟩ := perm_index hp
  refine ⟨fun i => sk (π i), fun i l v h => hlo _ l v h, ?_, ?_⟩
  · intro i j l l' v hi hj
    obtain ⟨e, el⟩ := hinj _ _ _ _ _ hi hj
    refine ⟨?_, el⟩
    rw [← h1 i, ← h1 j, e]
  · intro x
    unfold Spec.OpDeleteInsert
    constructor
    · rintro (⟨hx, hn⟩ | ⟨i, μ, hi, hd⟩)
      · exact Or.inl ⟨hx, fun ⟨μ, hμ, hd⟩ => hn ⟨μ, hp.mem_iff.2 hμ, hd⟩⟩
      · refine Or.inr ⟨ρ i, μ, ?_, ?_⟩
        · rw [h3, h2]; exact hi
        · simpa only [h2] using hd
    · rintro (⟨hx, hn⟩ | ⟨i, μ, hi, hd⟩)
      · exact Or.inl ⟨hx, fun ⟨μ, hμ, hd⟩ => hn ⟨μ, hp.mem_iff.1 hμ, hd⟩⟩
      · exact Or.inr ⟨π i, μ, by rw [← h3]; exact hi, hd⟩

/-- ⊢ DELETE/INSERT … WHERE P for EVERY pattern P of the algebra: the dataset afterwards is OpDeleteInsert over the
    solutions SPARQL §18 defines for P on the state before (full strength: no condition on P beyond well-scopedness).
    FALSE of the code as it is — where rdflib's `_vars` annotations are inexact, its binding push-down is not
    (`RV.C04.pushdown_unconditional_witness`, known findings C04-K1 / K2 / K4) — see `modify_where_spec_partial`. -/
def Statement_modify_where_spec : Prop :=
  ∀ (c : Cfg) (u : Modify) (s : St) (n : Nat) (P : C04.Alg), u.wmode = .alg n P → u.flt = none →
    s.known.Nodup → C04.WellScoped n P →
    ∃ sk : Nat → Nat → Option Nat,
      (∀ i l v, sk i l = some v → s.next ≤ v) ∧
      (∀ i j l l' v, sk i l = some v → sk j l' = some v → i = j ∧ l = l') ∧
      ∀ x, x ∈ (evalModify c u s).quads ↔
        Spec.OpDeleteInsert s.quads (specSolutions (u.algDataset c s) n P) sk u.withG (u.del.getD []) (u.ins.getD []) x

/-- … proved wherever `RV.C04.Alg.safeIn P []` holds — C04's context-sensitive `Safe` for an empty context: at the top of an
    operation nothing is pushed in (implied by `Alg.safe P`; decidable; evaluated by the harness on every generated pattern): the
    model's solutions — rdflib's top-down evaluator with binding push-down, on rdflib's own annotated tree — are a
    permutation of the §18 solutions (`RV.C04.pushdown`), and OpDeleteInsert is invariant under permutations. -/
theorem modify_where_spec_partial (c : Cfg) (u : Modify) (s : St) (n : Nat) (P : C04.Alg)
    (hw : u.wmode = .alg n P) (hf : u.flt = none) (hk : s.known.Nodup) (hws : C04.WellScoped n P)
    (hsafe : P.safeIn [] = true) :
    ∃ sk : Nat → Nat → Option Nat,
      (∀ i l v, sk i l = some v → s.next ≤ v) ∧
      (∀ i j l l' v, sk i l = some v → sk j l' = some v → i = j ∧ l = l') ∧
      ∀ x, x ∈ (evalModify c u s).quads ↔
        Spec.OpDeleteInsert s.quads (specSolutions (u.algDataset c s) n P) sk u.withG (u.del.getD []) (u.ins.getD []) x := by
  obtain ⟨sk, h1, h2, h3⟩ := modify_spec c u s
  have hp : (u.solutions c s).Perm (specSolutions (u.algDataset c s) n P) := by
    rw [solutions_alg c u s hw hf]
    exact (C04.evalPart_top0 n _ P (algDataset_WF c u s hk) hsafe hws _).map _
  obtain ⟨sk', g1, g2, g3⟩ := op_delete_insert_perm s.quads _ _ sk s.next u.withG (u.del.getD []) (u.ins.getD []) hp h1 h2
  exact ⟨sk', g1, g2, fun x => (h3 x).trans (g3 x)⟩

/-- the bridge between this model's terms / bindings / datasets and those of the C04 evaluator loses nothing: the term
    embedding has a left inverse (so it is injective: no two terms of the store are confused), a row read back as a
    binding list binds exactly the row's variables to the row's values, and the default graph handed over has exactly
    the triples of the selected default graph -/
def Statement_alg_bridge_faithful : Prop :=
  (∀ t : Term, ofC04 (toC04 t) = t) ∧
  (∀ (n : Nat) (μ : C04.Row n) (v : Nat), blookup (rowToBinding μ) v = (μ.get v).map ofC04) ∧
  (∀ (d : WhereDS) (t : Triple), tripleToC04 t ∈ d.toC04.dflt ↔ t ∈ d.dflt)

theorem alg_bridge_faithful : Statement_alg_bridge_faithful := by
  refine ⟨ofC04_toC04, fun n μ v => blookup_rowToBinding μ v, ?_⟩
  intro d t
  simp only [WhereDS.toC04]
  exact List.mem_map_of_injective tripleToC04_injective

/-- the dataset of a full-algebra WHERE clause is the one the BGP modes use (so `union_switch_reads`, `using_dataset_spec`
    speak about it too), except that with USING / USING NAMED only the NON-EMPTY USING NAMED graphs are graphs of the
    dataset (`QueryContext(datasetClause=…)` registers a graph by the first triple copied into it) -/
def Statement_alg_dataset : Prop :=
  ∀ (c : Cfg) (u : Modify) (s : St),
    (u.using_ = [] ∧ u.named = [] → u.algDataset c s = storeDataset c s u.withG) ∧
    (u.using_ ≠ [] ∨ u.named ≠ [] →
      (u.algDataset c s).dflt = (usingDataset s u.using_ u.named).dflt ∧
      ∀ g ts, (g, ts) ∈ (u.algDataset c s).named ↔
        g ∈ u.named ∧ ts = graphTriples s.quads (some g) ∧ ts ≠ [])

theorem alg_dataset : Statement_alg_dataset := by
  intro c u s
  constructor
  · rintro ⟨h1, h2⟩
    simp [Modify.algDataset, h1, h2]
  · intro h
    have hc : (u.using_.isEmpty && u.named.isEmpty) = false := by
      rcases h with h | h
      · cases hu : u.using_ with
        | nil => exact absurd hu h
        | cons a l => simp
      · cases hn : u.named with
        | nil => exact absurd hn h
        | cons a l => simp
    simp only [Modify.algDataset, hc, Bool.false_eq_true, if_false, WhereDS.nonEmptyNamed, true_and]
    intro g ts
    simp only [usingDataset, List.mem_filter, List.mem_map, mem_dedup, Prod.mk.injEq, Bool.not_eq_true',
      List.isEmpty_eq_false_iff, ne_eq]
    constructor
    · rintro ⟨⟨g', hg', rfl, rfl⟩, hne⟩
      exact ⟨hg', rfl, hne⟩
    · rintro ⟨hg, rfl, hne⟩
      exact ⟨⟨g, hg, rfl, rfl⟩, hne⟩

/-- non-vacuity: {a p b, b p c} and `INSERT { ?0 q ?2 } WHERE { ?0 p ?1 OPTIONAL { ?1 p ?2 } }` (the tree as rdflib
    annotates it): two solutions, the second without ?2 — one quad inserted, the other instantiation skipped -/
def optStore : St := ⟨[(.iri 1, .iri 4, .iri 2, none), (.iri 2, .iri 4, .iri 3, none)], [], 0⟩
def optPattern : C04.Alg :=
  .leftJoin (.bgp [⟨.var 0, .const (.iri 4), .var 1⟩]) (.bgp [⟨.var 1, .const (.iri 4), .var 2⟩])
    (.const (.bool true)) (some [0, 1]) (some [1, 2])
def optModify : Modify :=
  { withG := none, del := none, ins := some [((.var 0, .const (.iri 5), .var 2), .dflt)],
    using_ := [], named := [], where_ := [], flt := none, wmode := .alg 3 optPattern }

example : (optPattern.safe = true ∧ optPattern.safeIn [] = true) ∧ C04.WellScoped 3 optPattern := by
  refine ⟨by decide, ?_⟩
  intro v hv
  simp [optPattern, C04.Alg.allVars, C04.TP.vars, C04.Pos.vars, C04.Expr.vars] at hv
  omega
example : optModify.solutions plainGraph optStore =
    [[(0, .iri 1), (1, .iri 2), (2, .iri 3)], [(0, .iri 2), (1, .iri 3)]] := by decide +kernel
example : (evalModify plainGraph optModify optStore).quads =
    [(.iri 1, .iri 4, .iri 2, none), (.iri 2, .iri 4, .iri 3, none), (.iri 1, .iri 5, .iri 3, none)] := by decide +kernel

/-- witness that the full-strength statement fails for the code as it is (known finding C04-K2, `RV.C04.k2Pattern`):
    `INSERT { ?0 q c } WHERE { VALUES ?0 { a b } OPTIONAL { ?0 p ?1 } }` on {a p c}.  §18 keeps the row ?0 = b (OPTIONAL does not
    eliminate), so (b q c) must be inserted; `_vars` of the VALUES block is empty, the evaluator's re-check drops that row,
    and nothing is inserted for it. -/
def k2Store : St := ⟨[(.iri 1, .iri 4, .iri 3, none)], [], 0⟩
def k2Pattern : C04.Alg :=
  .leftJoin (.values [0] [[some (.iri 1)], [some (.iri 2)]]) (.bgp [⟨.var 0, .const (.iri 4), .var 1⟩])
    (.const (.bool true)) (some []) (some [0, 1])
def k2Modify : Modify :=
  { withG := none, del := none, ins := some [((.var 0, .const (.iri 5), .const (.iri 3)), .dflt)],
    using_ := [], named := [], where_ := [], flt := none, wmode := .alg 2 k2Pattern }

example : k2Pattern.safe = false ∧ k2Pattern.safeIn [] = false := by decide

theorem modify_where_spec_witness : ¬ Statement_modify_where_spec := by
  intro h
  have hws : C04.WellScoped 2 k2Pattern := by
    intro v hv
    simp [k2Pattern, C04.Alg.allVars, C04.TP.vars, C04.Pos.vars, C04.Expr.vars] at hv
    omega
  obtain ⟨sk, _, _, h3⟩ := h plainGraph k2Modify k2Store 2 k2Pattern rfl rfl (by decide) hws
  have hsol : (specSolutions (k2Modify.algDataset plainGraph k2Store) 2 k2Pattern)[1]? = some [(0, .iri 2)] := by
    decide +kernel
  have hx := (h3 (.iri 2, .iri 5, .iri 3, none)).2
    (Or.inr ⟨1, [(0, .iri 2)], hsol, _, List.mem_singleton.2 rfl, rfl, rfl, rfl, rfl, rfl, rfl⟩)
  revert hx
  decide +kernel

/-- the evaluator hands out no term it was not given: every solution of a WHERE clause — also of a full-algebra one, through
    `evalPart_below`: an induction over every operator of `RV.C04.Model.evalPart` — binds terms of the dataset, constants of
    the pattern or booleans; in particular no minted node at or above the supply counter.  So `minted_nodes_new` and
    `prepared_update_stateless` cover requests with such WHERE clauses: `Op.wf` only asks that the text of the pattern
    mentions no minted node (`Modify.algSpelled`), which no request text can. -/
def Statement_alg_solutions_below : Prop :=
  ∀ (c : Cfg) (u : Modify) (s : St), u.algSpelled → FreshInv s → ∀ μ ∈ u.solutions c s, BBelow s.next μ

theorem alg_solutions_below : Statement_alg_solutions_below :=
  fun c u _ ha h => bbelow_solutions c u ha h

example : optModify.algSpelled := by
  simp [Modify.algSpelled, optModify, optPattern, AlgSpelled, ExprSpelled, TPSpelled, PosSpelled, CSpelled]

/-! ### outcomes: which operations fail, what a failure leaves behind; CREATE and LOAD -/

/-- Which operations fail.  On a dataset NO operation of the property's list ever fails — missing graphs included:
    `get_context` always yields a graph, so CLEAR / DROP / ADD / MOVE / COPY of a graph that does not exist succeed, with or
    without SILENT (SPARQL 1.1 Update §3.2 only says such a request SHOULD return failure).  On a plain Graph exactly the
    operations that name a graph fail.  CREATE, and LOAD of a source that cannot be read, fail whatever the dataset. -/
def Statement_outcome_characterisation : Prop :=
  ∀ (c : Cfg) (op : Op) (s : St),
    evalOp c op s = none ↔ (c.single = true ∧ op.needsDataset = true) ∨ op.isFail = true

theorem outcome_characterisation : Statement_outcome_characterisation := by
  intro c op s
  unfold evalOp
  cases h1 : c.single <;> cases h2 : op.needsDataset <;> cases h3 : op.isFail <;> simp

/-- What a failing operation in the middle of a request leaves behind ("a result of failure from any operation MUST abort
    the sequence of operations, causing the subsequent operations to be ignored"): the operations before it are applied,
    the failing one changes nothing, and those after it are not run — unless it is SILENT, in which case it is skipped
    and the rest runs from the very state the operations before it left. -/
def Statement_failure_leaves_prefix : Prop :=
  ∀ (c : Cfg) (pre post : List Op) (op : Op) (s : St),
    (runRequest c pre s).failed = false → evalOp c op (runRequest c pre s).st = none →
    runRequest c (pre ++ op :: post) s =
      if op.silent then post.foldl (Run.step c) (runRequest c pre s)
      else { st := (runRequest c pre s).st, failed := true }

theorem failure_leaves_prefix : Statement_failure_leaves_prefix := by
  intro c pre post op s hf he
  rw [request_in_order, List.foldl_cons]
  generalize runRequest c pre s = r at hf he
  obtain ⟨st, failed⟩ := r
  simp only at hf he
  subst hf
  have hstep : Run.step c ⟨st, false⟩ op = ⟨st, !op.silent⟩ := by
    simp [Run.step, he]
  rw [hstep]
  cases hs : op.silent with
  | true => simp
  | false => simp only [Bool.not_false, Bool.false_eq_true, if_false]; exact failed_aborts c post ⟨st, true⟩ rfl

/-- CREATE and LOAD as coded.  `evalCreate` raises on every path: CREATE fails (and, SILENT, is skipped) whether the graph
    exists or not — rdflib does not implement it; neither CREATE nor LOAD is in the property's operation list.  LOAD
    (`SPARQL_LOAD_GRAPHS` on) of a source that cannot be read fails; LOAD of a readable document is INSERT DATA of its
    triples into the target graph (`INTO GRAPH g`, else the real default graph), one fresh node per blank-node label of
    the document and per LOAD. -/
def Statement_create_load_spec : Prop :=
  (∀ (c : Cfg) (sl : Bool) (g : Nat) (s : St), evalOp c (Op.create sl g) s = none ∧ (Op.create sl g).silent = sl) ∧
  (∀ (c : Cfg) (single sl : Bool) (into : GName) (s : St),
    evalOp c (Op.load single sl none into) s = none ∧ (Op.load single sl none into).silent = sl) ∧
  (∀ (c : Cfg) (sl : Bool) (doc : Option (List TTpl)) (g : Nat) (s : St), c.single = true →
    evalOp c (Op.load c.single sl doc (some g)) s = none ∧ (Op.load c.single sl doc (some g)).silent = sl) ∧
  (∀ (ts : List TTpl) (into : GName), ∀ q ∈ loadQuads ts into, Spec.substG [] none q.2 = some into) ∧
  (∀ (c : Cfg) (sl : Bool) (ts : List TTpl) (into : GName) (s : St), (c.single = false ∨ into = none) →
    ∃ s', evalOp c (Op.load c.single sl (some ts) into) s = some s' ∧
      ∀ x, x ∈ s'.quads ↔
        x ∈ s.quads ∨ Spec.DatasetOf [] (alookup (mkMap (tplLabels (loadQuads ts into)) s.next)) none (loadQuads ts into) x)

theorem create_load_spec : Statement_create_load_spec := by
  refine ⟨?_, ?_, ?_, ?_, ?_⟩
  · intro c sl g s
    exact ⟨by simp [Op.create, evalOp, Op.isFail], rfl⟩
  · intro c single sl into s
    exact ⟨by simp [Op.load, evalOp, Op.isFail], rfl⟩
  · intro c sl doc g s hc
    cases doc with
    | none => exact ⟨by simp [Op.load, evalOp, Op.isFail], rfl⟩
    | some ts => exact ⟨by simp [Op.load, evalOp, Op.isFail, hc], by simp [Op.load, hc, Op.silent]⟩
  · intro ts into q hq
    simp only [loadQuads, List.mem_map] at hq
    obtain ⟨t, _, rfl⟩ := hq
    cases into <;> rfl
  · intro c sl ts into s h
    have hload : Op.load c.single sl (some ts) into = .insertData (loadQuads ts into) := by
      rcases h with h | h
      · simp [Op.load, h]
      · subst h; simp [Op.load]
    have hnd : (c.single && (Op.insertData (loadQuads ts into)).needsDataset) = false := by
      rcases h with h | h
      · simp [h]
      · subst h
        simp [Op.needsDataset, loadQuads, GTerm.isDflt]
    refine ⟨evalInsertData (loadQuads ts into) s, ?_, fun x => insert_data_spec _ s x⟩
    rw [hload]
    simp only [evalOp, hnd, Op.isFail, Bool.or_false, Bool.false_eq_true, if_false]

/-- non-vacuity: `INSERT DATA {a p b} ; CREATE GRAPH <g> ; INSERT DATA {b p a}` keeps the first insertion only;
    with `CREATE SILENT` both are there -/
example :
    let i1 : Op := .insertData [((.const (.iri 1), .const (.iri 4), .const (.iri 2)), .dflt)]
    let i2 : Op := .insertData [((.const (.iri 2), .const (.iri 4), .const (.iri 1)), .dflt)]
    (runRequest ⟨.ds, true⟩ [i1, Op.create false 90, i2] ⟨[], [], 0⟩).st.quads = [(.iri 1, .iri 4, .iri 2, none)] ∧
    (runRequest ⟨.ds, true⟩ [i1, Op.create false 90, i2] ⟨[], [], 0⟩).failed = true ∧
    (runRequest ⟨.ds, true⟩ [i1, Op.create true 90, i2] ⟨[], [], 0⟩).st.quads =
      [(.iri 1, .iri 4, .iri 2, none), (.iri 2, .iri 4, .iri 1, none)] := by decide

end RV.C10
