import RV.C10.Lemmas
namespace RV.C10

def Statement_request_in_order : Prop :=
  ∀ (c : Cfg) (u₁ u₂ : List Op) (s : St),
    runRequest c (u₁ ++ u₂) s = u₂.foldl (Run.step c) (runRequest c u₁ s)

theorem request_in_order : Statement_request_in_order := by
  intro c u₁ u₂ s
  simp [runRequest, List.foldl_append]

end RV.C10
