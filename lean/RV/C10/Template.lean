import RV.C10.Interleave
/-
  C10 — helper lemmas, part 4: `_fillTemplate` and the blank-node map of one solution.
-/
namespace RV.C10

theorem mem_fillTemplate (μ : Binding) (bm : List (Nat × Nat)) (tgt : GName) (tpl : List QTpl) (x : Quad) :
    x ∈ fillTemplate μ bm tgt tpl ↔ ∃ q ∈ tpl, fillQuad μ bm tgt q = some x := by
  induction tpl with
  | nil => simp [fillTemplate]
  | cons q rest ih =>
    unfold fillTemplate
    cases h : fillQuad μ bm tgt q with
    | none =>
      simp only [ih, List.mem_cons, exists_eq_or_imp, h]
      simp
    | some y =>
      simp only [List.mem_cons, ih, exists_eq_or_imp, h, Option.some.injEq]
      constructor
      · rintro (rfl | h'); exact Or.inl rfl; exact Or.inr h'
      · rintro (rfl | h'); exact Or.inl rfl; exact Or.inr h'

theorem fillTriple_eq_some (μ : Binding) (bm : List (Nat × Nat)) (t : TTpl) (y : Triple) :
    fillTriple μ bm t = some y ↔
      instTerm μ bm t.1 = some y.1 ∧ instTerm μ bm t.2.1 = some y.2.1 ∧ instTerm μ bm t.2.2 = some y.2.2 ∧
        y.1.isLit = false ∧ y.2.1.isIri = true := by
  unfold fillTriple
  obtain ⟨a, b, c⟩ := y
  cases h1 : instTerm μ bm t.1 <;> cases h2 : instTerm μ bm t.2.1 <;> cases h3 : instTerm μ bm t.2.2 <;> simp
  next s p o =>
    constructor
    · rintro ⟨⟨h4, h5⟩, rfl, rfl, rfl⟩; exact ⟨rfl, rfl, rfl, h4, h5⟩
    · rintro ⟨rfl, rfl, rfl, h4, h5⟩; exact ⟨⟨h4, h5⟩, rfl, rfl, rfl⟩

theorem fillQuad_eq_some (μ : Binding) (bm : List (Nat × Nat)) (tgt : GName) (q : QTpl) (x : Quad) :
    fillQuad μ bm tgt q = some x ↔
      instTerm μ bm q.1.1 = some x.1 ∧ instTerm μ bm q.1.2.1 = some x.2.1 ∧
      instTerm μ bm q.1.2.2 = some x.2.2.1 ∧ instGraph μ tgt q.2 = some x.2.2.2 ∧
      x.1.isLit = false ∧ x.2.1.isIri = true := by
  unfold fillQuad
  obtain ⟨a, b, c, d⟩ := x
  cases hg : instGraph μ tgt q.2 with
  | none => simp
  | some g =>
    cases ht : fillTriple μ bm q.1 with
    | none =>
      simp only [Option.some.injEq]
      constructor
      · intro h; cases h
      · rintro ⟨h1, h2, h3, _, h5, h6⟩
        have := (fillTriple_eq_some μ bm q.1 (a, b, c)).2 ⟨h1, h2, h3, h5, h6⟩
        rw [ht] at this; cases this
    | some t =>
      have e := fillTriple_eq_some μ bm q.1 t
      rw [ht] at e
      have e' := e.1 rfl
      simp only [Option.some.injEq, Prod.mk.injEq]
      constructor
      · rintro ⟨rfl, rfl, rfl, rfl⟩
        exact ⟨e'.1, e'.2.1, e'.2.2.1, rfl, e'.2.2.2.1, e'.2.2.2.2⟩
      · rintro ⟨h1, h2, h3, h4, _, _⟩
        rw [e'.1] at h1; rw [e'.2.1] at h2; rw [e'.2.2.1] at h3
        simp only [Option.some.injEq] at h1 h2 h3
        exact ⟨h1, h2, h3, h4⟩

/-! ### `mkMap`: the fresh nodes of one solution -/

theorem alookup_mkMap_range (ls : List Nat) : ∀ (n l v : Nat),
    alookup (mkMap ls n) l = some v → n ≤ v ∧ v < n + ls.length := by
  induction ls with
  | nil => intro n l v h; simp [mkMap, alookup] at h
  | cons a rest ih =>
    intro n l v h
    simp only [mkMap, alookup] at h
    split at h
    · simp only [Option.some.injEq] at h; subst h; simp
    · have := ih (n + 1) l v h
      simp only [List.length_cons]; omega

theorem alookup_mkMap_mem (ls : List Nat) : ∀ (n l : Nat),
    l ∈ ls → ∃ v, alookup (mkMap ls n) l = some v := by
  induction ls with
  | nil => intro n l h; cases h
  | cons a rest ih =>
    intro n l h
    simp only [mkMap, alookup]
    split
    · exact ⟨n, rfl⟩
    · next hne =>
      rcases List.mem_cons.1 h with rfl | h'
      · exact absurd rfl hne
      · exact ih (n + 1) l h'

theorem alookup_mkMap_inj (ls : List Nat) : ∀ (n a b v : Nat),
    alookup (mkMap ls n) a = some v → alookup (mkMap ls n) b = some v → a = b := by
  induction ls with
  | nil => intro n a b v h; simp [mkMap, alookup] at h
  | cons c rest ih =>
    intro n a b v ha hb
    simp only [mkMap, alookup] at ha hb
    split at ha <;> split at hb
    · next h1 h2 => rw [← h1, ← h2]
    · next h1 h2 =>
      simp only [Option.some.injEq] at ha; subst ha
      have := (alookup_mkMap_range rest (n + 1) b n hb).1
      omega
    · next h1 h2 =>
      simp only [Option.some.injEq] at hb; subst hb
      have := (alookup_mkMap_range rest (n + 1) a n ha).1
      omega
    · exact ih (n + 1) a b v ha hb

theorem graph_mem_of_fillTemplate (μ : Binding) (bm : List (Nat × Nat)) (tgt : GName) (tpl : List QTpl) (x : Quad)
    (h : x ∈ fillTemplate μ bm tgt tpl) : x.graph ∈ tpl.filterMap (fun q => instGraph μ tgt q.2) := by
  obtain ⟨q, hq, hx⟩ := (mem_fillTemplate μ bm tgt tpl x).1 h
  have := ((fillQuad_eq_some μ bm tgt q x).1 hx).2.2.2.1
  exact List.mem_filterMap.2 ⟨q, hq, this⟩

theorem mem_solPairs (del ins : Option (List QTpl)) (tgt : GName) (sols : List Binding) :
    ∀ (n : Nat) (p : List Quad × List Quad), p ∈ solPairs del ins tgt sols n →
      ∃ μ ∈ sols, ∃ n', p = (delOf del tgt μ, insOf ins tgt μ n') := by
  induction sols with
  | nil => intro n p h; simp [solPairs] at h
  | cons μ rest ih =>
    intro n p h
    simp only [solPairs, List.mem_cons] at h
    rcases h with rfl | h
    · exact ⟨μ, List.mem_cons_self, n, rfl⟩
    · obtain ⟨ν, hν, n', e⟩ := ih _ p h
      exact ⟨ν, List.mem_cons_of_mem _ hν, n', e⟩

end RV.C10
