import RV.C10.Template
/-
  C10 — helper lemmas, part 5: the model's `evalModify` / `evalModifyInterleaved` are the
  two-pass / one-pass folds of Interleave.lean.
-/
namespace RV.C10

theorem foldl_id_state {α} (l : List α) (s : St) : l.foldl (fun s _ => s) s = s := by
  induction l with
  | nil => rfl
  | cons _ _ ih => simpa using ih

theorem deleteOpt_none (tgt : GName) : deleteOpt none tgt = fun s _ => s := rfl
theorem deleteOpt_some (tpl : List QTpl) (tgt : GName) : deleteOpt (some tpl) tgt = deleteSolution tpl tgt := rfl
theorem insertOpt_none (tgt : GName) : insertOpt none tgt = fun s _ => s := rfl
theorem insertOpt_some (tpl : List QTpl) (tgt : GName) : insertOpt (some tpl) tgt = insertSolution tpl tgt := rfl

theorem evalModify_eq_twoPass (c : Cfg) (u : Modify) (s : St) :
    evalModify c u s = twoPass u.del u.ins u.withG (u.solutions c s) s := by
  unfold evalModify twoPass
  cases hd : u.del <;> cases hi : u.ins <;>
    simp only [deleteOpt_none, deleteOpt_some, insertOpt_none, insertOpt_some, foldl_id_state]

theorem evalModifyInterleaved_eq_onePass (c : Cfg) (u : Modify) (s : St) :
    evalModifyInterleaved c u s = onePass u.del u.ins u.withG (u.solutions c s) s := by
  unfold evalModifyInterleaved onePass
  cases hd : u.del <;> cases hi : u.ins <;>
    simp only [deleteOpt, insertOpt]

end RV.C10
