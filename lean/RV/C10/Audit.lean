import RV.C10.Props
open RV.C10
#print axioms modify_spec
#print axioms modify_interleaved_witness
#print axioms modify_interleaved_partial
#print axioms template_skip
#print axioms template_legal
#print axioms fresh_per_solution
#print axioms fresh_total
#print axioms minted_nodes_new
#print axioms delete_where_snapshot
#print axioms insert_data_spec
#print axioms delete_data_spec
#print axioms clear_spec
#print axioms drop_spec
#print axioms add_spec
#print axioms copy_spec
#print axioms move_spec
#print axioms request_in_order
#print axioms failed_aborts
#print axioms union_switch_reads
#print axioms union_reads_once
#print axioms union_switch_writes
#print axioms untouched_graphs_unchanged
#print axioms store_invariants
