import RV.C10.Props
open RV.C10
#print axioms request_in_order
