import RV.C10.Model
import RV.Base.Proto
/-
  C10 driver.  Terms are naturals owned by the harness; kinds by range:
    1…19, 90…99 IRIs · 20…29 literals · 30…39 blank nodes (of the store in `init`; labels of the
    request inside operations) · 40…49 variables · 50…59 blank-node labels · graph position 0 = outside GRAPH.
  Protocol (one answer per line):
    reset <graph|cg|cgi|ds|dsu> <0|1>              -> ok
    init s p o g | reg g                            -> ok
    insertdata nb B… | deletedata nb B…      B = g nt (s p o)…   one block AS WRITTEN (g = 0: outside GRAPH;
                                             nt = 0: an empty GRAPH block); translated by `translateQuads`
    deletewhere n q…                                             (q = s p o g)
    modify W nd B… ni B… nu g… nn g… nw q… M F [v ne c]      M = 0 | 1 n q… (UNION branch) | 2 n v… (sub-select projection)           (nd, ni: 0 = clause absent, else count+1)
    modifyalg W nd B… ni B… nu g… nn g… | ALG            WHERE = rdflib's own translated algebra tree (tokens separated by
                                             blanks, parentheses included), evaluated by the C04 model of evaluate.py:
        ALG = ( bgp s p o … ) ( join LAZY a b ) ( leftjoin a b E none|( vars k… ) none|( vars k… ) ) ( filter E a ( vars k… ) NOISO )
              ( union a b ) ( minus a b none|( vars k… ) none|( vars k… ) ) ( extend a k E ( vars k… ) ) ( graph POS a )
              ( values ( vars k… ) ( row c… )… ) ( project a ( vars k… ) )
        E   = ( var k ) ( const t ) ( cmp OP E E ) ( and E E ) ( or E E ) ( not E ) ( bound k ) ( exists ALG ) ( nexists ALG )
        positions: ?k variable | term number;  cells: term number | U
    clear|drop S DEFAULT|NAMED|ALL|GRAPH g
    add|move|copy S src dst                          -> ok | error | skipped   (skipped = request already failed)
    create S g                                       CREATE [SILENT] GRAPH g
    load S R into nt (s p o)…                        LOAD [SILENT] <source> [INTO GRAPH into]  (into = 0: default graph);
                                                     R = 0: the source cannot be read (nt = 0), R = 1: its nt triples
                                                     (30…39 / 50…59 = blank-node labels of the document)
    tabrel b r n | tabns b r ns | tabpn ns l n        -> ok   (what written names denote; harness-owned)
    base b | prefix p ns | prefixrel p r               -> ok   (declarations before the next operation)
    (inside operations an IRI may be written  @r.<ref>  or  @p.<prefix>.<local>: resolved with the prologue in force)
    err    -> ok | error
    quads  -> s,p,o,g …   (minted blank nodes 1000+k)
    known  -> g,g,…
-/
open RV RV.C10 RV.Proto

structure DSt where
  cfg : Cfg
  run : Run
  pro : Prologue
  tab : Tables

def dataTerm? (n : Nat) : Option Term :=
  if n = 0 then none
  else if n < 20 then some (.iri n)
  else if n < 30 then some (.lit n)
  else if n < 40 then some (.bnode n)
  else if 90 ≤ n && n < 100 then some (.iri n)
  else none

def pTerm? (n : Nat) : Option PTerm :=
  if 40 ≤ n && n < 50 then some (.var n)
  else if 30 ≤ n && n < 40 then none
  else (dataTerm? n).map PTerm.const

def tTerm? (n : Nat) : Option TTerm :=
  if 40 ≤ n && n < 50 then some (.var n)
  else if (30 ≤ n && n < 40) || (50 ≤ n && n < 60) then some (.label n)
  else (dataTerm? n).map TTerm.const

def gTerm? (n : Nat) : Option GTerm :=
  if n = 0 then some .dflt
  else if 40 ≤ n && n < 50 then some (.var n)
  else if 90 ≤ n && n < 100 then some (.name n)
  else none

def gName? (n : Nat) : Option GName :=
  if n = 0 then some none
  else if 90 ≤ n && n < 100 then some (some n)
  else none

def termNat : Term → Nat
  | .iri n => n
  | .lit n => n
  | .bnode n => n
  | .fresh n => 1000 + n

def nats? (ws : List String) : Option (List Nat) := ws.mapM (·.toNat?)

def bool? (w : String) : Option Bool :=
  if w = "0" then some false else if w = "1" then some true else none

def bool01? : String → Option Bool := bool?

/-- take `n` quads (4 numbers each) from the front -/
def takeQuads : Nat → List Nat → Option (List (Nat × Nat × Nat × Nat) × List Nat)
  | 0, rest => some ([], rest)
  | n + 1, a :: b :: c :: d :: rest =>
    match takeQuads n rest with
    | some (qs, r) => some ((a, b, c, d) :: qs, r)
    | none => none
  | _, _ => none

def takeN : Nat → List Nat → Option (List Nat × List Nat)
  | 0, rest => some ([], rest)
  | n + 1, a :: rest =>
    match takeN n rest with
    | some (xs, r) => some (a :: xs, r)
    | none => none
  | _, _ => none

def qTpl? (q : Nat × Nat × Nat × Nat) : Option QTpl := do
  let s ← tTerm? q.1; let p ← tTerm? q.2.1; let o ← tTerm? q.2.2.1; let g ← gTerm? q.2.2.2
  pure ((s, p, o), g)

def qPat? (q : Nat × Nat × Nat × Nat) : Option (TPat × GTerm) := do
  let s ← pTerm? q.1; let p ← pTerm? q.2.1; let o ← pTerm? q.2.2.1; let g ← gTerm? q.2.2.2
  pure ((s, p, o), g)

def graphNames? (gs : List Nat) : Option (List Nat) :=
  gs.mapM (fun g => if 90 ≤ g && g < 100 then some g else none)

def ttpl? (a b c : Nat) : Option TTpl := do
  let s ← tTerm? a; let p ← tTerm? b; let o ← tTerm? c
  pure (s, p, o)

def takeTriples : Nat → List Nat → Option (List TTpl × List Nat)
  | 0, rest => some ([], rest)
  | n + 1, a :: b :: c :: rest =>
    match ttpl? a b c, takeTriples n rest with
    | some t, some (ts, r) => some (t :: ts, r)
    | _, _ => none
  | _, _ => none

/-- `nb` blocks, each `g nt (s p o)*nt`; g = 0: triples outside GRAPH, else the block's graph term -/
def takeParts : Nat → List Nat → Option (Written × List Nat)
  | 0, rest => some ([], rest)
  | n + 1, g :: nt :: rest =>
    match takeTriples nt rest with
    | some (ts, r) =>
      let part? : Option QPart :=
        if g = 0 then some (.triples ts)
        else if 40 ≤ g && g < 50 then some (.graph (.var g) ts)
        else if 90 ≤ g && g < 100 then some (.graph (.name g) ts)
        else none
      match part?, takeParts n r with
      | some p, some (ps, r') => some (p :: ps, r')
      | _, _ => none
    | none => none
  | _, _ => none

def parseModify (ns : List Nat) : Option WModify := do
  match ns with
  | w :: nd :: rest =>
    let withG ← gName? w
    let (dw, rest) ← takeParts (nd - 1) rest
    match rest with
    | ni :: rest =>
      let (iw, rest) ← takeParts (ni - 1) rest
      match rest with
      | nu :: rest =>
        let (us, rest) ← takeN nu rest
        match rest with
        | nn :: rest =>
          let (nm, rest) ← takeN nn rest
          match rest with
          | nw :: rest =>
            let (wq, rest) ← takeQuads nw rest
            let (wm, rest) ← (match rest with
              | 0 :: rest => some (WMode.plain, rest)
              | 1 :: n2 :: rest => do
                let (q2, rest) ← takeQuads n2 rest
                let p2 ← q2.mapM qPat?
                pure (WMode.union (groupBlocks p2), rest)
              | 2 :: nv :: rest => do
                let (vs, rest) ← takeN nv rest
                if vs.all (fun v => 40 ≤ v && v < 50) then pure (WMode.proj vs, rest) else none
              | _ => none)
            let wh ← wq.mapM qPat?
            let us ← graphNames? us
            let nm ← graphNames? nm
            let flt ← (match rest with
              | [0] => some none
              | [1, v, ne, c] =>
                if 40 ≤ v && v < 50 then (dataTerm? c).map (fun t => some ⟨v, ne == 1, t⟩) else none
              | _ => none)
            pure { core := { withG := withG, del := none, ins := none, using_ := us, named := nm,
                             where_ := groupBlocks wh, flt := flt, wmode := wm },
                   del := if nd = 0 then none else some dw,
                   ins := if ni = 0 then none else some iw }
          | _ => none
        | _ => none
      | _ => none
    | _ => none
  | _ => none

/-! the WHERE clause as rdflib's algebra tree (s-expression; same grammar as the C04 driver, terms = this driver's numbers) -/

inductive SX
  | atom (s : String)
  | list (xs : List SX)
  deriving Inhabited

partial def parseSXList : List String → List SX → Option (List SX × List String)
  | [], _ => none
  | ")" :: rest, acc => some (acc.reverse, rest)
  | "(" :: rest, acc =>
    match parseSXList rest [] with
    | some (xs, rest') => parseSXList rest' (SX.list xs :: acc)
    | none => none
  | a :: rest, acc => parseSXList rest (SX.atom a :: acc)

def parseSX : List String → Option SX
  | "(" :: rest =>
    match parseSXList rest [] with
    | some (xs, []) => some (.list xs)
    | _ => none
  | _ => none

def cTerm? (a : String) : Option C04.Term := (a.toNat?.bind dataTerm?).map toC04

def cPos? (a : String) : Option C04.Pos :=
  match a.toList with
  | '?' :: r => (String.ofList r).toNat?.map .var
  | _ => (cTerm? a).map .const

def sxAtoms? : List SX → Option (List String)
  | [] => some []
  | .atom a :: rest => (sxAtoms? rest).map (a :: ·)
  | _ => none

def cTps? : List String → Option (List C04.TP)
  | [] => some []
  | s :: p :: o :: rest => do
    let s ← cPos? s; let p ← cPos? p; let o ← cPos? o
    let r ← cTps? rest
    pure (⟨s, p, o⟩ :: r)
  | _ => none

def sxVars? : SX → Option (List Nat)
  | .list (.atom "vars" :: xs) => do (← sxAtoms? xs).mapM (·.toNat?)
  | _ => none

def sxOVars? : SX → Option (Option (List Nat))
  | .atom "none" => some none
  | x => (sxVars? x).map some

def cCell? (a : String) : Option (Option C04.Term) :=
  if a = "U" then some none else (cTerm? a).map some

def sxRows? : List SX → Option (List (List (Option C04.Term)))
  | [] => some []
  | .list (.atom "row" :: cs) :: rest => do
    let r ← (← sxAtoms? cs).mapM cCell?
    let rs ← sxRows? rest
    pure (r :: rs)
  | _ => none

def cOp? : String → Option C04.CmpOp
  | "eq" => some .eq | "ne" => some .ne | "lt" => some .lt | "gt" => some .gt
  | "le" => some .le | "ge" => some .ge | _ => none

mutual
partial def cExpr? : SX → Option C04.Expr
  | .list [.atom "var", .atom k] => k.toNat?.map .var
  | .list [.atom "const", .atom t] => (cTerm? t).map .const
  | .list [.atom "cmp", .atom o, a, b] => do pure (.cmp (← cOp? o) (← cExpr? a) (← cExpr? b))
  | .list [.atom "and", a, b] => do pure (.and (← cExpr? a) (← cExpr? b))
  | .list [.atom "or", a, b] => do pure (.or (← cExpr? a) (← cExpr? b))
  | .list [.atom "not", a] => do pure (.not (← cExpr? a))
  | .list [.atom "bound", .atom k] => k.toNat?.map .bound
  | .list [.atom "exists", p] => do pure (.exists false (← cAlg? p))
  | .list [.atom "nexists", p] => do pure (.exists true (← cAlg? p))
  | _ => none
partial def cAlg? : SX → Option C04.Alg
  | .list (.atom "bgp" :: xs) => do pure (.bgp (← cTps? (← sxAtoms? xs)))
  | .list [.atom "join", .atom l, a, b] => do pure (.join (← bool01? l) (← cAlg? a) (← cAlg? b))
  | .list [.atom "leftjoin", a, b, e, v1, v2] => do
    pure (.leftJoin (← cAlg? a) (← cAlg? b) (← cExpr? e) (← sxOVars? v1) (← sxOVars? v2))
  | .list [.atom "filter", e, a, vs, .atom ni] => do
    pure (.filter (← cExpr? e) (← cAlg? a) (← sxVars? vs) (← bool01? ni))
  | .list [.atom "union", a, b] => do pure (.union (← cAlg? a) (← cAlg? b))
  | .list [.atom "minus", a, b, v1, v2] => do pure (.minus (← cAlg? a) (← cAlg? b) (← sxOVars? v1) (← sxOVars? v2))
  | .list [.atom "extend", a, .atom k, e, vs] => do
    pure (.extend (← cAlg? a) (← k.toNat?) (← cExpr? e) (← sxVars? vs))
  | .list [.atom "graph", .atom g, a] => do pure (.graph (← cPos? g) (← cAlg? a))
  | .list (.atom "values" :: vs :: rows) => do pure (.values (← sxVars? vs) (← sxRows? rows))
  | .list [.atom "project", a, vs] => do pure (.project (← cAlg? a) (← sxVars? vs))
  | _ => none
end

/-- number of columns of the rows: variables are 40…49 -/
def nVars : Nat := 50

def splitBar : List String → List String × List String
  | [] => ([], [])
  | "|" :: rest => ([], rest)
  | w :: rest => let (a, b) := splitBar rest; (w :: a, b)

/-- `modifyalg`: the clauses as for `modify` (no quad patterns, no filter), then the algebra tree -/
def parseModifyAlg (ws : List String) : Option WModify := do
  let (front, sx) := splitBar ws
  let ns ← nats? front
  let u ← parseModify (ns ++ [0, 0, 0])
  let P ← (parseSX sx).bind cAlg?
  pure { u with core := { u.core with wmode := .alg nVars P } }

def parseData (ws : List String) : Option Written := do
  let ns ← nats? ws
  match ns with
  | n :: rest =>
    let (ps, r) ← takeParts n rest
    if r.isEmpty then some ps else none
  | [] => none

/-- 99 = the IRI of the default graph where it has one (Dataset, ConjunctiveGraph(identifier=…)) -/
def defaultIri (c : Cfg) : Option Nat :=
  if c.api = .ds || c.api = .dsu || c.api = .cgi then some 99 else none

/-- a graph reference of CLEAR / DROP / ADD / MOVE / COPY as written: 0 = DEFAULT, else an IRI -/
def graphRef? (n : Nat) : Option GraphRef :=
  if n = 0 then some .dflt else if 90 ≤ n && n < 100 then some (.iri n) else none

def target? (c : Cfg) : List String → Option Target
  | ["DEFAULT"] => some .dflt
  | ["NAMED"] => some .named
  | ["ALL"] => some .all
  | ["GRAPH", g] =>
    (g.toNat?.bind graphRef?).map (fun r =>
      match r.resolve (defaultIri c) with
      | none => Target.dflt
      | some n => Target.graph n)
  | _ => none

def parseOp (c : Cfg) : List String → Option WOp
  | "insertdata" :: ws => (parseData ws).map WOp.insertData
  | "deletedata" :: ws => (parseData ws).map WOp.deleteData
  | "deletewhere" :: ws => do
    let ns ← nats? ws
    match ns with
    | n :: rest =>
      let (qs, r) ← takeQuads n rest
      if r.isEmpty then (qs.mapM qPat?).map (fun ps => WOp.other (Op.deleteWhere (groupBlocks ps))) else none
    | [] => none
  | "modify" :: ws => do
    let ns ← nats? ws
    (parseModify ns).map WOp.modify
  | "modifyalg" :: ws => (parseModifyAlg ws).map WOp.modify
  | ["create", s, g] => do
    let g ← g.toNat?.bind gName?
    match g with
    | some n => pure (WOp.other (Op.create (← bool? s) n))
    | none => none
  | "load" :: s :: r :: into :: rest => do
    let s ← bool? s
    let r ← bool? r
    let into ← into.toNat?.bind gName?
    let ns ← nats? rest
    match ns with
    | nt :: ts =>
      let (doc, left) ← takeTriples nt ts
      if !left.isEmpty then none
      else if r then pure (WOp.other (Op.load c.single s (some doc) into))
      else if nt = 0 then pure (WOp.other (Op.load c.single s none into)) else none
    | [] => none
  | "clear" :: s :: t => do pure (WOp.other (Op.clear (← bool? s) (← target? c t)))
  | "drop" :: s :: t => do pure (WOp.other (Op.drop (← bool? s) (← target? c t)))
  | [k, s, a, b] => do
    let s ← bool? s
    let a ← (a.toNat?.bind graphRef?).map (GraphRef.resolve (defaultIri c))
    let b ← (b.toNat?.bind graphRef?).map (GraphRef.resolve (defaultIri c))
    if k = "add" then pure (WOp.other (Op.add s a b))
    else if k = "move" then pure (WOp.other (Op.move s a b))
    else if k = "copy" then pure (WOp.other (Op.copy s a b))
    else none
  | _ => none

def api? (w : String) : Option Api :=
  if w = "graph" then some .graph else if w = "cg" then some .cg else if w = "cgi" then some .cgi
  else if w = "ds" then some .ds else if w = "dsu" then some .dsu else none

def showQuads (qs : List Quad) : String :=
  let ls := qs.map (fun q => [termNat q.1, termNat q.2.1, termNat q.2.2.1,
                              match q.2.2.2 with | some g => g | none => 0])
  " ".intercalate ((sortBy lexLt ls).map showNats)

def emptySt : St := ⟨[], [], 0⟩
def emptyPro : Prologue := ⟨none, []⟩
def emptyTab : Tables := ⟨[], [], []⟩

/-- `@r.<ref>` = relative reference, `@p.<prefix>.<local>` = prefixed name; anything else is passed on -/
def spelled? (w : String) : Option (Option Spelled) :=
  match w.splitOn "." with
  | ["@r", r] => r.toNat?.map (fun r => some (.rel r))
  | ["@p", a, b] => do let a ← a.toNat?; let b ← b.toNat?; pure (some (.pname a b))
  | _ => if w.startsWith "@" then none else some none

def resolveTok (T : Tables) (p : Prologue) (w : String) : Option String :=
  match spelled? w with
  | none => none
  | some none => some w
  | some (some sp) => (p.resolve T sp).map toString

def triple? (a b c : String) : Option ((Nat × Nat) × Nat) := do
  let a ← a.toNat?; let b ← b.toNat?; let c ← c.toNat?
  pure ((a, b), c)

def step (d : DSt) : List String → DSt × String
  | ["reset", a, u] =>
    match api? a, bool? u with
    | some a, some u => (⟨⟨a, u⟩, ⟨emptySt, false⟩, emptyPro, emptyTab⟩, "ok")
    | _, _ => (d, "bad-op")
  | ["init", s, p, o, g] =>
    match (do
      let s ← s.toNat?.bind dataTerm?; let p ← p.toNat?.bind dataTerm?
      let o ← o.toNat?.bind dataTerm?; let g ← g.toNat?.bind gName?
      pure ((s, p, o, g) : Quad)) with
    | some q => ({ d with run := { d.run with st := d.run.st.addQuad q } }, "ok")
    | none => (d, "bad-op")
  | ["reg", g] =>
    match g.toNat?.bind gName? with
    | some (some n) => ({ d with run := { d.run with st := { d.run.st with known := sinsert d.run.st.known n } } }, "ok")
    | _ => (d, "bad-op")
  | ["tabrel", a, b, c] =>
    match triple? a b c with
    | some e => ({ d with tab := { d.tab with rel := e :: d.tab.rel } }, "ok")
    | none => (d, "bad-op")
  | ["tabns", a, b, c] =>
    match triple? a b c with
    | some e => ({ d with tab := { d.tab with ns := e :: d.tab.ns } }, "ok")
    | none => (d, "bad-op")
  | ["tabpn", a, b, c] =>
    match triple? a b c with
    | some e => ({ d with tab := { d.tab with pn := e :: d.tab.pn } }, "ok")
    | none => (d, "bad-op")
  | ["base", b] =>
    match b.toNat? with
    | some b => ({ d with pro := d.pro.declare d.tab (.base b) }, "ok")
    | none => (d, "bad-op")
  | ["prefix", x, ns] =>
    match x.toNat?, ns.toNat? with
    | some x, some ns => ({ d with pro := d.pro.declare d.tab (.prefix x ns) }, "ok")
    | _, _ => (d, "bad-op")
  | ["prefixrel", x, r] =>
    match x.toNat?, r.toNat? with
    | some x, some r => ({ d with pro := d.pro.declare d.tab (.prefixRel x r) }, "ok")
    | _, _ => (d, "bad-op")
  | ["err"] => (d, if d.run.failed then "error" else "ok")
  | ["quads"] => (d, showQuads d.run.st.quads)
  | ["known"] => (d, ",".intercalate ((sortBy (fun a b => decide (a < b)) d.run.st.known).map toString))
  | ws =>
    -- an operation: its IRIs are resolved against the prologue in force, then `PRun.step` runs it
    let mk : Prologue → Option WOp := fun pro => (ws.mapM (resolveTok d.tab pro)).bind (parseOp d.cfg)
    match mk d.pro with
    | none => (d, "bad-op")
    | some _ =>
      if d.run.failed then (d, "skipped")
      else
        let r := PRun.step d.cfg d.tab ⟨d.run, d.pro⟩ ([], mk)
        ({ d with run := r.run, pro := r.pro }, if r.run.failed then "error" else "ok")

def main : IO Unit := RV.Proto.run step (⟨⟨.graph, false⟩, ⟨emptySt, false⟩, emptyPro, emptyTab⟩ : DSt)
