import RV.Base.SetList
import RV.C04.Model
/-
  C10 — model of `rdflib/plugins/sparql/update.py` (after the `fix:` commits listed in
  known_findings.d/C10.jsonl), `evalutils._fillTemplate`, the parts of `algebra.translateUpdate1` /
  `translateQuads` that shape a request, and the slice of `QueryContext` that decides which graph
  an update reads and writes.

  The store is what C01/C02 show it to be: a finite set of quads `(s, p, o, g)`,
  `g = none` the real default graph, `g = some n` the graph named by the IRI `n`;
  plus `known`, the graph names the store has registered (`Memory.__all_contexts`:
  a graph is registered by the first triple added to it and by `add_graph`, unregistered
  only by `remove_graph`), plus the supply of `BNode()` identifiers.

  What is modelled, function by function:
    `_defaultGraph`, `_graphOrDefault`, `_graphAll`      → `clearTargets`, `graphRef`
    `evalClear`, `evalDrop`                              → `evalClear`, `evalDrop`
    `evalInsertData`, `evalDeleteData`                   → same names
    `evalDeleteWhere` (solutions materialised first)     → `evalDeleteWhere`
    `evalModify` (WITH / USING / USING NAMED; all deletions, then all insertions)
                                                         → `evalModify`;  the loop of the pinned
                                                           code is kept as `evalModifyInterleaved`
    `evalAdd`, `evalMove`, `evalCopy`                    → same names
    `evalUpdate` (operations in order, SILENT, abort)    → `runRequest`
    `_fillTemplate` (+ the GRAPH-variable test)          → `fillTemplate`, `instGraph`
    `evalBGP`, `_join`, `evalGraph`, the FILTER          → `evalBGP`, `join`, `evalBlock`, `evalWhere`
    `QueryContext.__init__` (union switch, datasetClause)→ `effUnion`, `whereDefault`, `usingDataset`
    `evalPart` on the WHERE clause of DELETE/INSERT        → `algSolutions`: the C04 model of evaluate.py
                                                           (`RV.C04.Model.evalPart`) run on rdflib's own translated
                                                           and annotated algebra tree (`WMode.alg`), over the dataset
                                                           this model selects (`toC04`, `WhereDS.toC04`)
-/
namespace RV.C10

/-! ### terms, quads, patterns -/

inductive Term
  | iri (n : Nat)
  | lit (n : Nat)
  | bnode (n : Nat)     -- a blank node that was in the store before the request
  | fresh (n : Nat)     -- the n-th `BNode()` minted while the request runs
  deriving DecidableEq, Repr

abbrev Triple := Term × Term × Term
/-- `none` = the real default graph, `some n` = the graph named `iri n` -/
abbrev GName := Option Nat
abbrev Quad := Term × Term × Term × GName

def Quad.triple (q : Quad) : Triple := (q.1, q.2.1, q.2.2.1)
def Quad.graph (q : Quad) : GName := q.2.2.2

/-- a term of a WHERE / DELETE WHERE pattern -/
inductive PTerm
  | const (t : Term)
  | var (v : Nat)
  deriving DecidableEq, Repr

/-- a term of a template or of INSERT/DELETE DATA; `label` = a blank node written in the request -/
inductive TTerm
  | const (t : Term)
  | var (v : Nat)
  | label (l : Nat)
  deriving DecidableEq, Repr

/-- graph position of a quad pattern / template: outside GRAPH, `GRAPH <g>`, `GRAPH ?v` -/
inductive GTerm
  | dflt
  | name (g : Nat)
  | var (v : Nat)
  deriving DecidableEq, Repr

abbrev TPat := PTerm × PTerm × PTerm
abbrev TTpl := TTerm × TTerm × TTerm
abbrev QTpl := TTpl × GTerm
/-- one block of a group: the triples outside GRAPH, or one `GRAPH x { … }` -/
abbrev Block := GTerm × List TPat

/-! ### solutions (`FrozenBindings`): association lists variable ↦ term -/

abbrev Binding := List (Nat × Term)

def blookup : Binding → Nat → Option Term
  | [], _ => none
  | (k, t) :: rest, v => if k = v then some t else blookup rest v

/-- `ctx[x]` / `c[x] = value` of `evalBGP` for one position -/
def matchTerm (p : PTerm) (t : Term) (μ : Binding) : Option Binding :=
  match p with
  | .const c => if c = t then some μ else none
  | .var v =>
    match blookup μ v with
    | some b => if b = t then some μ else none
    | none => some ((v, t) :: μ)

def matchTriple (p : TPat) (t : Triple) (μ : Binding) : Option Binding :=
  match matchTerm p.1 t.1 μ with
  | none => none
  | some μ1 =>
    match matchTerm p.2.1 t.2.1 μ1 with
    | none => none
    | some μ2 => matchTerm p.2.2 t.2.2 μ2

/-- `evalBGP`: first pattern against every triple of the graph, recursively the rest -/
def evalBGP : List TPat → List Triple → Binding → List Binding
  | [], _, μ => [μ]
  | p :: ps, ts, μ =>
    ts.flatMap (fun t =>
      match matchTriple p t μ with
      | some μ' => evalBGP ps ts μ'
      | none => [])

/-- `FrozenDict.compatible` -/
def compatible : Binding → Binding → Bool
  | [], _ => true
  | (k, t) :: rest, y =>
    (match blookup y k with
     | some t' => t = t'
     | none => true) && compatible rest y

/-- `_join` (`x.merge(y)` for compatible pairs) -/
def join (a b : List Binding) : List Binding :=
  a.flatMap (fun x => b.filterMap (fun y => if compatible x y then some (x ++ y) else none))

/-! ### the store -/

structure St where
  quads : List Quad
  known : List Nat
  next : Nat

def dedup {α} [DecidableEq α] : List α → List α
  | [] => []
  | x :: xs => if x ∈ xs then dedup xs else x :: dedup xs

/-- triples of one graph (`Graph(store, g).triples((None, None, None))`) -/
def graphTriples (qs : List Quad) (g : GName) : List Triple :=
  (qs.filter (fun q => q.graph = g)).map Quad.triple

/-- the union view (`ConjunctiveGraph.triples` with `default_union`): every triple once -/
def unionTriples (qs : List Quad) : List Triple := dedup (qs.map Quad.triple)

/-- `Memory.add` through a graph view: the triple goes into that graph; a named graph gets registered -/
def St.addQuad (s : St) (q : Quad) : St :=
  { s with quads := sinsert s.quads q,
           known := match q.graph with
                    | some g => sinsert s.known g
                    | none => s.known }

def St.removeQuad (s : St) (q : Quad) : St := { s with quads := sremove s.quads q }

/-- `g.remove((None, None, None))` -/
def St.clearGraph (s : St) (g : GName) : St :=
  { s with quads := s.quads.filter (fun q => q.graph ≠ g) }

/-- `store.remove_graph(g)` -/
def St.dropGraph (s : St) (g : GName) : St :=
  { quads := s.quads.filter (fun q => q.graph ≠ g),
    known := match g with
             | some n => sremove s.known n
             | none => s.known,
    next := s.next }

/-! ### configuration: which class received `update()`, and the engine switch -/

inductive Api
  | graph   -- Graph()
  | cg      -- ConjunctiveGraph()              default_union = True
  | cgi     -- ConjunctiveGraph(identifier=…)   default_union = True
  | ds      -- Dataset()                       default_union = False
  | dsu     -- Dataset(default_union=True)
  deriving DecidableEq, Repr

structure Cfg where
  api : Api
  switch : Bool        -- rdflib.plugins.sparql.SPARQL_DEFAULT_GRAPH_UNION

/-- `QueryContext.__init__`: `ctx.graph` is the dataset object itself when the switch is on, and that
    object answers `triples()` with the union only if its own `default_union` is set -/
def Cfg.effUnion (c : Cfg) : Bool :=
  c.switch && (c.api = .cg || c.api = .cgi || c.api = .dsu)

def Cfg.single (c : Cfg) : Bool := c.api = .graph

/-! ### the dataset a WHERE clause is matched against -/

structure WhereDS where
  dflt : List Triple
  named : List (Nat × List Triple)     -- graphs a `GRAPH` pattern can see

def WhereDS.graph (d : WhereDS) (g : Nat) : List Triple :=
  match d.named.find? (fun e => e.1 = g) with
  | some e => e.2
  | none => []

/-- no USING: reads of the default graph see `WITH` graph / union / real default; GRAPH sees the store -/
def storeDataset (c : Cfg) (s : St) (withG : Option Nat) : WhereDS :=
  { dflt := match withG with
            | some g => graphTriples s.quads (some g)
            | none => if c.effUnion then unionTriples s.quads else graphTriples s.quads none,
    named := s.known.map (fun g => (g, graphTriples s.quads (some g))) }

/-- USING / USING NAMED (`QueryContext(datasetClause=…)`): default = merge of the USING graphs,
    named = copies of the USING NAMED graphs, nothing else -/
def usingDataset (s : St) (using_ named : List Nat) : WhereDS :=
  { dflt := dedup (using_.flatMap (fun g => graphTriples s.quads (some g))),
    named := (dedup named).map (fun g => (g, graphTriples s.quads (some g))) }

/-- `evalGraph`, or `evalBGP` on the default graph -/
def evalBlock (d : WhereDS) (b : Block) : List Binding :=
  match b.1 with
  | .dflt => evalBGP b.2 d.dflt []
  | .name g => evalBGP b.2 (d.graph g) []
  | .var v =>
    d.named.flatMap (fun e =>
      (evalBGP b.2 e.2 []).filterMap (fun μ =>
        if compatible μ [(v, Term.iri e.1)] then some (μ ++ [(v, Term.iri e.1)]) else none))

/-- `FILTER (?v = <c>)` / `FILTER (?v != <c>)` with an IRI constant; unbound → error → dropped -/
structure Flt where
  v : Nat
  ne : Bool
  c : Term

def Flt.keep (f : Flt) (μ : Binding) : Bool :=
  match blookup μ f.v with
  | some t => if f.ne then t ≠ f.c else t = f.c
  | none => false

/-- a group of blocks = left-deep joins starting from the empty BGP -/
def groupSols (d : WhereDS) (blocks : List Block) : List Binding :=
  blocks.foldl (fun acc b => join acc (evalBlock d b)) [[]]

/-- group, filter on top -/
def evalWhere (d : WhereDS) (blocks : List Block) (flt : Option Flt) : List Binding :=
  let sols := groupSols d blocks
  match flt with
  | some f => sols.filter f.keep
  | none => sols

/-! ### WHERE clauses of the full algebra: rdflib's own tree, evaluated by the C04 model of `evaluate.py`

  `translateUpdate1` (after `fix: the WHERE clause of DELETE/INSERT is post-processed like the pattern of a query`)
  hands `evalModify` the tree `translateGroupGraphPattern` built, simplified and annotated (`lazy`, `_vars`) exactly
  as `translateQuery` does for a query; `evalModify` runs `evalPart(ctx, u.where)` on it.  `RV.C04.Model.evalPart`
  is the model of that evaluator (one function per Python function, proved against SPARQL §18 in RV/C04); here it
  is run on the dataset THIS model selects (WITH graph / union / real default graph / USING merge; registered
  graphs / USING NAMED graphs).  Terms: C04 has typed literals, this model opaque ones — `litTable` says which
  literal of the harness vocabulary is which C04 literal (any other literal is an opaque negative integer, so the
  embedding stays injective). -/

def litTable : List (Nat × C04.Term) :=
  [(20, .str ""), (21, .int 0), (22, .bool false), (24, .int 1), (25, .int 2), (26, .str "a"), (27, .bool true)]

def litLookup : List (Nat × C04.Term) → Nat → Option C04.Term
  | [], _ => none
  | (k, t) :: rest, n => if k = n then some t else litLookup rest n

def litRev : List (Nat × C04.Term) → C04.Term → Option Nat
  | [], _ => none
  | (k, t) :: rest, x => if t = x then some k else litRev rest x

def toC04 : Term → C04.Term
  | .iri n => .iri n
  | .bnode n => .bnode n
  | .fresh n => .fresh n 0
  | .lit n =>
    match litLookup litTable n with
    | some t => t
    | none => .int (Int.negSucc n)

/-- back from a row of the evaluator.  Every term of a row is a term of the dataset, a constant of the pattern or a
    boolean (both in `litTable`); the last line is never reached for those. -/
def ofC04 : C04.Term → Term
  | .iri n => .iri n
  | .bnode n => .bnode n
  | .fresh n _ => .fresh n
  | t =>
    match litRev litTable t with
    | some n => .lit n
    | none =>
      match t with
      | .int (Int.negSucc n) => .lit n
      | _ => .lit 0

def tripleToC04 (t : Triple) : C04.Triple := (toC04 t.1, toC04 t.2.1, toC04 t.2.2)

def WhereDS.toC04 (d : WhereDS) : C04.Dataset :=
  { dflt := d.dflt.map tripleToC04,
    named := d.named.map (fun e => (C04.Term.iri e.1, e.2.map tripleToC04)) }

/-- the dataset `QueryContext(datasetClause=…)` builds registers a USING NAMED graph by the first triple copied into
    it: an empty or missing one is not among `contexts()` (matters to `GRAPH ?g { }` and `GRAPH <g> { OPTIONAL … }`) -/
def WhereDS.nonEmptyNamed (d : WhereDS) : WhereDS :=
  { d with named := d.named.filter (fun e => !e.2.isEmpty) }

/-- a solution of the evaluator as a binding list: variable `k` is column `k` -/
def rowToBinding {n : Nat} (μ : C04.Row n) : Binding :=
  (List.range n).filterMap (fun k => (μ.get k).map (fun t => (k, ofC04 t)))

/-- `list(evalPart(ctx, u.where))`: active graph = the default graph of the WHERE dataset, no bindings pushed in -/
def algSolutions (d : WhereDS) (n : Nat) (P : C04.Alg) : List Binding :=
  (C04.Model.evalPart d.toC04 d.toC04.dflt (C04.Row.empty : C04.Row n) P).map rowToBinding

mutual
/-- does the pattern contain GRAPH (on a plain Graph `evalGraph` raises) -/
def algHasGraph : C04.Alg → Bool
  | .bgp _ => false
  | .join _ a b => algHasGraph a || algHasGraph b
  | .leftJoin a b e _ _ => algHasGraph a || algHasGraph b || exprHasGraph e
  | .filter e p _ _ => exprHasGraph e || algHasGraph p
  | .union a b => algHasGraph a || algHasGraph b
  | .minus a b _ _ => algHasGraph a || algHasGraph b
  | .extend p _ e _ => algHasGraph p || exprHasGraph e
  | .graph _ _ => true
  | .values _ _ => false
  | .project p _ => algHasGraph p
def exprHasGraph : C04.Expr → Bool
  | .var _ => false
  | .const _ => false
  | .bound _ => false
  | .cmp _ a b => exprHasGraph a || exprHasGraph b
  | .and a b => exprHasGraph a || exprHasGraph b
  | .or a b => exprHasGraph a || exprHasGraph b
  | .not a => exprHasGraph a
  | .exists _ p => algHasGraph p
end

/-- shapes of WHERE clause whose solutions can repeat (solutions are a LIST: a multiset with an order) -/
inductive WMode
  | plain                          -- { blocks }
  | union (bs : List Block)        -- { { blocks } UNION { bs } }      (`evalUnion`: one list after the other)
  | proj (vs : List Nat)           -- { { SELECT vs WHERE { blocks } } } (`evalProject`: every row projected)
  | alg (n : Nat) (P : C04.Alg)    -- any pattern of the algebra, as rdflib translated it; rows over `n` variables

/-- `FrozenBindings.project` -/
def project (vs : List Nat) (μ : Binding) : Binding := μ.filter (fun kv => decide (kv.1 ∈ vs))

/-! ### templates (`_fillTemplate`) -/

def alookup : List (Nat × Nat) → Nat → Option Nat
  | [], _ => none
  | (k, v) :: rest, l => if k = l then some v else alookup rest l

/-- `solution.get(x)`, then `bnodeMap[x]` for a blank node of the template -/
def instTerm (μ : Binding) (bm : List (Nat × Nat)) : TTerm → Option Term
  | .const c => some c
  | .var v => blookup μ v
  | .label l => (alookup bm l).map Term.fresh

def Term.isLit : Term → Bool
  | .lit _ => true
  | _ => false

def Term.isIri : Term → Bool
  | .iri _ => true
  | _ => false

/-- one template triple: `None` component → skipped; literal subject or non-IRI predicate → skipped -/
def fillTriple (μ : Binding) (bm : List (Nat × Nat)) (t : TTpl) : Option Triple :=
  match instTerm μ bm t.1, instTerm μ bm t.2.1, instTerm μ bm t.2.2 with
  | some s, some p, some o => if s.isLit || !p.isIri then none else some (s, p, o)
  | _, _, _ => none

/-- graph of a template quad: outside GRAPH → `tgt` (WITH graph or real default); `GRAPH ?g` unbound or
    bound to a literal → quads left out.  (A blank-node binding would name a graph in rdflib; SPARQL has
    no such graph names and the correspondence never generates one: left out as well.) -/
def instGraph (μ : Binding) (tgt : GName) : GTerm → Option GName
  | .dflt => some tgt
  | .name g => some (some g)
  | .var v =>
    match blookup μ v with
    | some (.iri g) => some (some g)
    | _ => none

def fillQuad (μ : Binding) (bm : List (Nat × Nat)) (tgt : GName) (q : QTpl) : Option Quad :=
  match instGraph μ tgt q.2, fillTriple μ bm q.1 with
  | some g, some t => some (t.1, t.2.1, t.2.2, g)
  | _, _ => none

/-- `_fillTemplate` over the whole template (default part and GRAPH blocks share `bm`) -/
def fillTemplate (μ : Binding) (bm : List (Nat × Nat)) (tgt : GName) : List QTpl → List Quad
  | [] => []
  | q :: rest =>
    match fillQuad μ bm tgt q with
    | some x => x :: fillTemplate μ bm tgt rest
    | none => fillTemplate μ bm tgt rest

def TTerm.labels : TTerm → List Nat
  | .label l => [l]
  | _ => []

def listMax : List Nat → Nat
  | [] => 0
  | x :: xs => max x (listMax xs)

/-- all blank-node labels written in a template, with repetitions, in template order -/
def rawLabels (tpl : List QTpl) : List Nat :=
  tpl.flatMap (fun q => q.1.1.labels ++ q.1.2.1.labels ++ q.1.2.2.labels)

/-- the distinct blank-node labels of a template, in ascending order.  (`defaultdict(BNode)` meets them in
    the order the template is walked; that order only decides which fresh identifier goes to which label,
    which nothing can observe — the ascending order makes the map independent of how the template's quads
    are arranged, e.g. by `translateQuads`.) -/
def tplLabels (tpl : List QTpl) : List Nat :=
  (List.range (listMax (rawLabels tpl) + 1)).filter (fun l => decide (l ∈ rawLabels tpl))

/-- `defaultdict(BNode)` after the template has been walked: label ↦ number of the minted node -/
def mkMap : List Nat → Nat → List (Nat × Nat)
  | [], _ => []
  | l :: ls, n => (l, n) :: mkMap ls (n + 1)

/-! ### the operations -/

def St.removeAll (s : St) (qs : List Quad) : St := qs.foldl St.removeQuad s
def St.addAll (s : St) (qs : List Quad) : St := qs.foldl St.addQuad s

/-- one solution's insertions: a new blank-node map, then `+=` -/
def insertSolution (tpl : List QTpl) (tgt : GName) (s : St) (μ : Binding) : St :=
  let ls := tplLabels tpl
  let s' := s.addAll (fillTemplate μ (mkMap ls s.next) tgt tpl)
  { s' with next := s.next + ls.length }

def deleteSolution (tpl : List QTpl) (tgt : GName) (s : St) (μ : Binding) : St :=
  s.removeAll (fillTemplate μ [] tgt tpl)

structure Modify where
  withG : Option Nat
  del : Option (List QTpl)
  ins : Option (List QTpl)
  using_ : List Nat
  named : List Nat
  where_ : List Block
  flt : Option Flt
  wmode : WMode := .plain

/-- the solutions of the WHERE clause, in the order and with the multiplicity `list(res)` has -/
def Modify.solutions (c : Cfg) (u : Modify) (s : St) : List Binding :=
  let d := if u.using_.isEmpty && u.named.isEmpty then storeDataset c s u.withG
           else usingDataset s u.using_ u.named
  let bag := match u.wmode with
             | .plain => groupSols d u.where_
             | .union bs => groupSols d u.where_ ++ groupSols d bs
             | .proj vs => (groupSols d u.where_).map (project vs)
             | .alg n P =>
               algSolutions (if u.using_.isEmpty && u.named.isEmpty then d else d.nonEmptyNamed) n P
  match u.flt with
  | some f => bag.filter f.keep
  | none => bag

/-- the dataset a full-algebra WHERE clause is evaluated against (`Modify.solutions`, case `WMode.alg`) -/
def Modify.algDataset (c : Cfg) (u : Modify) (s : St) : WhereDS :=
  if u.using_.isEmpty && u.named.isEmpty then storeDataset c s u.withG
  else (usingDataset s u.using_ u.named).nonEmptyNamed

/-- the repaired `evalModify`: solutions first, every deletion, then every insertion -/
def evalModify (c : Cfg) (u : Modify) (s : St) : St :=
  let sols := u.solutions c s
  let s1 := match u.del with
            | some tpl => sols.foldl (deleteSolution tpl u.withG) s
            | none => s
  match u.ins with
  | some tpl => sols.foldl (insertSolution tpl u.withG) s1
  | none => s1

/-- the loop of the pinned code (before `fix: evalModify applies the deletions of all solutions …`):
    per solution, delete then insert -/
def evalModifyInterleaved (c : Cfg) (u : Modify) (s : St) : St :=
  (u.solutions c s).foldl (fun s μ =>
    let s1 := match u.del with
              | some tpl => deleteSolution tpl u.withG s μ
              | none => s
    match u.ins with
    | some tpl => insertSolution tpl u.withG s1 μ
    | none => s1) s

def PTerm.toT : PTerm → TTerm
  | .const c => .const c
  | .var v => .var v

def blocksToTpl (bs : List Block) : List QTpl :=
  bs.flatMap (fun b => b.2.map (fun t => ((t.1.toT, t.2.1.toT, t.2.2.toT), b.1)))

/-- `translateQuads` / the group of a WHERE clause, as the driver feeds them: the quad patterns in the order
    written; consecutive ones with the same graph term form one block (the triples outside GRAPH, or one
    `GRAPH x { … }`).  A graph term written in several GRAPH blocks yields several blocks for it: they are
    all kept (rdflib collects them with `allquads[q.term] += …`). Templates and quad data reach the model
    as the flat list of quads and are not grouped at all. -/
def groupBlocks : List (TPat × GTerm) → List Block
  | [] => []
  | (t, g) :: rest =>
    match groupBlocks rest with
    | (g', ts) :: bs => if g = g' then (g, t :: ts) :: bs else (g, [t]) :: (g', ts) :: bs
    | [] => [(g, [t])]

/-- `evalDeleteWhere`: the quad pattern is both WHERE clause and DELETE template -/
def evalDeleteWhere (c : Cfg) (bs : List Block) (s : St) : St :=
  let sols := evalWhere (storeDataset c s none) bs none
  sols.foldl (deleteSolution (blocksToTpl bs) none) s

/-- The pinned `evalDeleteWhere` (before `fix: evalDeleteWhere computes all solutions before deleting`),
    SIMPLIFIED to its essence for a pattern in the default graph of a plain Graph: the matches of the first
    triple pattern are enumerated up front, but the rest of the pattern is matched — lazily, by the
    generator — against the store as it is when that match is reached, i.e. after the deletions made for
    earlier solutions.  (The real generator is lazier still; this is not tied by correspondence, the code
    is gone.  It documents why the snapshot matters.) -/
def evalDeleteWhereLazy (ps : List TPat) (s : St) : St :=
  match ps with
  | [] => s
  | p :: rest =>
    (graphTriples s.quads none).foldl (fun s t =>
      match matchTriple p t [] with
      | none => s
      | some μ =>
        (evalBGP rest (graphTriples s.quads none) μ).foldl
          (deleteSolution (blocksToTpl [(.dflt, p :: rest)]) none) s) s

/-- `evalInsertData`: one blank-node map for the operation, no variables -/
def evalInsertData (tpl : List QTpl) (s : St) : St := insertSolution tpl none s []

def evalDeleteData (tpl : List QTpl) (s : St) : St := deleteSolution tpl none s []

inductive Target
  | dflt
  | named
  | all
  | graph (g : Nat)
  deriving DecidableEq, Repr

/-- `_graphAll` -/
def clearTargets (c : Cfg) (s : St) : Target → List GName
  | .dflt => [none]
  | .named => if c.single then [] else s.known.map some
  | .all => if c.single then [none] else none :: s.known.map some
  | .graph g => [some g]

def evalClear (c : Cfg) (t : Target) (s : St) : St :=
  (clearTargets c s t).foldl St.clearGraph s

/-- `evalDrop`: `remove_graph` on a graph-aware dataset, `evalClear` on a plain Graph -/
def evalDrop (c : Cfg) (t : Target) (s : St) : St :=
  if c.single then evalClear c t s else (clearTargets c s t).foldl St.dropGraph s

/-- `dstg += srcg` -/
def St.copyInto (s : St) (src dst : GName) : St :=
  s.addAll ((graphTriples s.quads src).map (fun t => (t.1, t.2.1, t.2.2, dst)))

def evalAdd (src dst : GName) (s : St) : St :=
  if src = dst then s else s.copyInto src dst

def evalCopy (src dst : GName) (s : St) : St :=
  if src = dst then s else (s.clearGraph dst).copyInto src dst

def evalMove (src dst : GName) (s : St) : St :=
  if src = dst then s else ((s.clearGraph dst).copyInto src dst).dropGraph src

/-- a graph as WRITTEN in CLEAR / DROP / ADD / MOVE / COPY: the keyword DEFAULT, or an IRI — which may be the
    IRI of the default graph itself (`urn:x-rdflib:default` of a Dataset, the identifier given to a
    ConjunctiveGraph) -/
inductive GraphRef
  | dflt
  | iri (n : Nat)
  deriving DecidableEq, Repr

/-- `_graphOrDefault` and the `.identifier` the evaluators compare: the graph a reference denotes, given the
    IRI (if any) under which the default graph is also known -/
def GraphRef.resolve (dfltIri : Option Nat) : GraphRef → GName
  | .dflt => none
  | .iri n => if dfltIri = some n then none else some n

/-! ### a request -/

inductive Op
  | insertData (q : List QTpl)
  | deleteData (q : List QTpl)
  | deleteWhere (bs : List Block)
  | modify (u : Modify)
  | clear (silent : Bool) (t : Target)
  | drop (silent : Bool) (t : Target)
  | add (silent : Bool) (src dst : GName)
  | move (silent : Bool) (src dst : GName)
  | copy (silent : Bool) (src dst : GName)
  /-- an operation the implementation cannot carry out, whatever the dataset: `CREATE` (`evalCreate` ends in
      `raise Exception("Create not implemented!")` on every path), `LOAD` of a source that cannot be read -/
  | fail (silent : Bool)

def GTerm.isDflt : GTerm → Bool
  | .dflt => true
  | _ => false

/-- does the operation mention a named graph?  (On a plain Graph `ctx.dataset` raises.) -/
def Op.needsDataset : Op → Bool
  | .insertData q | .deleteData q => q.any (fun x => !x.2.isDflt)
  | .deleteWhere bs => bs.any (fun b => !b.1.isDflt)
  | .modify u =>
    u.withG.isSome || !u.using_.isEmpty || !u.named.isEmpty ||
    u.where_.any (fun b => !b.1.isDflt) ||
    (match u.wmode with | .union bs => bs.any (fun b => !b.1.isDflt) | .alg _ P => algHasGraph P | _ => false) ||
    (match u.del with | some t => t.any (fun x => !x.2.isDflt) | none => false) ||
    (match u.ins with | some t => t.any (fun x => !x.2.isDflt) | none => false)
  | .clear _ t | .drop _ t => (match t with | .graph _ => true | _ => false)
  | .add _ a b | .move _ a b | .copy _ a b => a.isSome || b.isSome
  | .fail _ => false

def Op.isFail : Op → Bool
  | .fail _ => true
  | _ => false

/-- `evalLoad` with `SPARQL_LOAD_GRAPHS` on: `ctx.load(source, default=True)` / `ctx.load(source, into=g)` parses the
    document into the real default graph / into `get_context(g)`.  A document that can be read (`some ts`: its triples,
    blank nodes as labels — the parser mints a new node per label and per LOAD) is added exactly like INSERT DATA of
    those triples into that graph; a source that cannot be read (`none`) raises. -/
def loadQuads (ts : List TTpl) (into : GName) : List QTpl :=
  ts.map (fun t => (t, match into with | none => GTerm.dflt | some g => GTerm.name g))

def Op.load (single silent : Bool) (doc : Option (List TTpl)) (into : GName) : Op :=
  match doc with
  | none => .fail silent
  | some ts =>
    -- `INTO GRAPH g` on a plain Graph (`single`): `ctx.dataset` raises before anything is read; LOAD has a SILENT flag
    if single && into.isSome then .fail silent else .insertData (loadQuads ts into)

/-- `evalCreate`: every path raises -/
def Op.create (silent : Bool) (_g : Nat) : Op := .fail silent

def Op.silent : Op → Bool
  | .clear s _ | .drop s _ | .add s _ _ | .move s _ _ | .copy s _ _ | .fail s => s
  | _ => false

/-- one operation on a dataset; `none` = the operation raised (state untouched in the modelled domain:
    the correspondence never sends a plain Graph an operation that mixes default-graph and named parts) -/
def evalOp (c : Cfg) (op : Op) (s : St) : Option St :=
  if (c.single && op.needsDataset) || op.isFail then none
  else some (match op with
    | .insertData q => evalInsertData q s
    | .deleteData q => evalDeleteData q s
    | .deleteWhere bs => evalDeleteWhere c bs s
    | .modify u => evalModify c u s
    | .clear _ t => evalClear c t s
    | .drop _ t => evalDrop c t s
    | .add _ a b => evalAdd a b s
    | .move _ a b => evalMove a b s
    | .copy _ a b => evalCopy a b s
    | .fail _ => s)

/-- state of a running request: `failed` = an operation raised and was not SILENT -/
structure Run where
  st : St
  failed : Bool

/-- `evalUpdate`: in lexical order; a failure aborts the rest unless the operation is SILENT -/
def Run.step (c : Cfg) (r : Run) (op : Op) : Run :=
  if r.failed then r
  else match evalOp c op r.st with
    | some s' => { st := s', failed := false }
    | none => { st := r.st, failed := !op.silent }

def runRequest (c : Cfg) (ops : List Op) (s : St) : Run :=
  ops.foldl (Run.step c) { st := s, failed := false }

/-! ### `translateQuads`: the quads of INSERT DATA / DELETE DATA / DELETE and INSERT templates as written,
      and the structure `translateUpdate1` hands to the evaluators

  Written: `TriplesTemplate? ( GRAPH VarOrIri { TriplesTemplate? } '.'? TriplesTemplate? )*` — a sequence of
  parts, each either triples outside GRAPH or one GRAPH block (possibly empty, the same graph term possibly in
  several blocks).  Translated: `u.triples` = all triples outside GRAPH concatenated; `u.quads` = a dictionary
  graph term ↦ triples, a later block of the same term APPENDED to the earlier entry (`allquads[q.term] += …`),
  keys in order of first occurrence, an empty block leaving no entry (`if q.triples:`).
  (`triples()` also reorders each list with `reorderTriples`: a permutation, not modelled.) -/

/-- graph term of a GRAPH block: an IRI or a variable -/
inductive GRef
  | name (g : Nat)
  | var (v : Nat)
  deriving DecidableEq, Repr

def GRef.toG : GRef → GTerm
  | .name g => .name g
  | .var v => .var v

inductive QPart
  | triples (ts : List TTpl)
  | graph (g : GRef) (ts : List TTpl)
  deriving Repr

abbrev Written := List QPart

structure Translated where
  triples : List TTpl
  quads : List (GRef × List TTpl)
  deriving DecidableEq, Repr

/-- `allquads[g] += ts` on a dictionary that keeps insertion order -/
def dictAppend : List (GRef × List TTpl) → GRef → List TTpl → List (GRef × List TTpl)
  | [], g, ts => [(g, ts)]
  | (g', ts') :: rest, g, ts =>
    if g' = g then (g', ts' ++ ts) :: rest else (g', ts') :: dictAppend rest g ts

def QPart.outside : QPart → List TTpl
  | .triples ts => ts
  | .graph _ _ => []

def dictStep (d : List (GRef × List TTpl)) : QPart → List (GRef × List TTpl)
  | .triples _ => d
  | .graph g ts => if ts.isEmpty then d else dictAppend d g ts

def translateQuads (w : Written) : Translated :=
  { triples := w.flatMap QPart.outside, quads := w.foldl dictStep [] }

def entryQuads (e : GRef × List TTpl) : List QTpl := e.2.map (fun t => (t, e.1.toG))
def outsideQuads (ts : List TTpl) : List QTpl := ts.map (fun t => (t, GTerm.dflt))

/-- the quads a translated structure denotes, in the order the evaluators walk it -/
def Translated.flat (t : Translated) : List QTpl :=
  outsideQuads t.triples ++ t.quads.flatMap entryQuads

def QPart.flat : QPart → List QTpl
  | .triples ts => outsideQuads ts
  | .graph g ts => entryQuads (g, ts)

/-- the quads as written -/
def Written.flat (w : Written) : List QTpl := w.flatMap QPart.flat

/-- `evalModify`'s DELETE part for one solution, as coded: `dg -= _fillTemplate(u.delete.triples, c)`, then
    `for g, q in u.delete.quads.items(): cg -= _fillTemplate(q, c)` -/
def deleteTranslated (t : Translated) (tgt : GName) (s : St) (μ : Binding) : St :=
  t.quads.foldl (fun s e => s.removeAll (fillTemplate μ [] tgt (entryQuads e)))
    (s.removeAll (fillTemplate μ [] tgt (outsideQuads t.triples)))

/-- the INSERT part for one solution (and `evalInsertData`): one blank-node map for the whole structure,
    `dg += …(u.insert.triples…)`, then one `cg += …` per dictionary entry -/
def insertTranslated (t : Translated) (tgt : GName) (s : St) (μ : Binding) : St :=
  let ls := tplLabels t.flat
  let bm := mkMap ls s.next
  let s' := t.quads.foldl (fun s e => s.addAll (fillTemplate μ bm tgt (entryQuads e)))
    (s.addAll (fillTemplate μ bm tgt (outsideQuads t.triples)))
  { s' with next := s.next + ls.length }

/-- a DELETE/INSERT operation with its templates as written -/
structure WModify where
  core : Modify                    -- `core.del` / `core.ins` only say whether the clause is present
  del : Option Written
  ins : Option Written

/-- `evalModify` over the translated templates -/
def evalModifyT (c : Cfg) (u : WModify) (s : St) : St :=
  let sols := u.core.solutions c s
  let s1 := match u.del with
            | some w => sols.foldl (deleteTranslated (translateQuads w) u.core.withG) s
            | none => s
  match u.ins with
  | some w => sols.foldl (insertTranslated (translateQuads w) u.core.withG) s1
  | none => s1

/-- an operation as written: quad data and templates still in blocks -/
inductive WOp
  | insertData (w : Written)
  | deleteData (w : Written)
  | modify (u : WModify)
  | other (op : Op)

/-- the operation the flat model sees: templates = the translated structure, walked in evaluator order -/
def WModify.toModify (u : WModify) : Modify :=
  { u.core with del := u.del.map (fun w => (translateQuads w).flat),
                ins := u.ins.map (fun w => (translateQuads w).flat) }

def WOp.toOp : WOp → Op
  | .insertData w => .insertData (translateQuads w).flat
  | .deleteData w => .deleteData (translateQuads w).flat
  | .modify u => .modify u.toModify
  | .other op => op

/-- the operation with its templates flattened in WRITTEN order (what `Spec.*` / `modify_spec` talk about) -/
def WModify.asWritten (u : WModify) : Modify :=
  { u.core with del := u.del.map Written.flat, ins := u.ins.map Written.flat }

def WOp.asWritten : WOp → Op
  | .insertData w => .insertData w.flat
  | .deleteData w => .deleteData w.flat
  | .modify u => .modify u.asWritten
  | .other op => op

/-- one written operation, evaluated through the translated structure -/
def evalWOp (c : Cfg) (w : WOp) (s : St) : Option St :=
  if (c.single && w.toOp.needsDataset) || w.toOp.isFail then none
  else match w with
    | .insertData q => some (insertTranslated (translateQuads q) none s [])
    | .deleteData q => some (deleteTranslated (translateQuads q) none s [])
    | .modify u => some (evalModifyT c u s)
    | .other op => evalOp c op s

def Run.stepW (c : Cfg) (r : Run) (w : WOp) : Run :=
  if r.failed then r
  else match evalWOp c w r.st with
    | some s' => { st := s', failed := false }
    | none => { st := r.st, failed := !w.toOp.silent }

/-! ### the prologue of a request (`translateUpdate` / `translatePrologue`)

  `Update ::= Prologue ( Update1 ( ';' Update )? )?`: declarations may precede every operation; ONE prologue
  object is threaded through the whole request (`prologue = translatePrologue(p, base, initNs, prologue)`),
  so a BASE or PREFIX declared before operation k is in force for every later operation until redeclared.
  IRIs are owned by the harness: what a relative reference denotes under a base, what namespace a relative
  prefix IRI denotes, and what a prefixed name denotes are tables it supplies (computed with its own
  RFC 3986 resolver); the model decides WHICH base / namespace is in force. -/

structure Prologue where
  base : Option Nat
  prefixes : List (Nat × Nat)        -- prefix ↦ namespace, latest declaration first

inductive Decl
  | base (b : Nat)
  | prefix (p ns : Nat)
  | prefixRel (p ref : Nat)          -- PREFIX p: <relative reference>
  deriving DecidableEq, Repr

structure Tables where
  rel : List ((Nat × Nat) × Nat)     -- (base, reference) ↦ IRI
  ns : List ((Nat × Nat) × Nat)      -- (base, reference) ↦ namespace
  pn : List ((Nat × Nat) × Nat)      -- (namespace, local name) ↦ IRI

def tlookup : List ((Nat × Nat) × Nat) → Nat × Nat → Option Nat
  | [], _ => none
  | (k, v) :: rest, x => if k = x then some v else tlookup rest x

/-- `translatePrologue` for one declaration -/
def Prologue.declare (T : Tables) (p : Prologue) : Decl → Prologue
  | .base b => { p with base := some b }
  | .prefix x ns => { p with prefixes := (x, ns) :: p.prefixes }
  | .prefixRel x r =>
    match p.base with
    | some b =>
      match tlookup T.ns (b, r) with
      | some ns => { p with prefixes := (x, ns) :: p.prefixes }
      | none => p
    | none => p

/-- an IRI as written -/
inductive Spelled
  | abs (n : Nat)
  | rel (r : Nat)
  | pname (p l : Nat)
  deriving DecidableEq, Repr

/-- `Prologue.absolutize` / `resolvePName` -/
def Prologue.resolve (T : Tables) (p : Prologue) : Spelled → Option Nat
  | .abs n => some n
  | .rel r =>
    match p.base with
    | some b => tlookup T.rel (b, r)
    | none => none
  | .pname x l =>
    match alookup p.prefixes x with
    | some ns => tlookup T.pn (ns, l)
    | none => none

/-- a running request together with its prologue -/
structure PRun where
  run : Run
  pro : Prologue

/-- one element of a request: the declarations written before the operation, and the operation as a function
    of the prologue in force (its IRIs are resolved against it; `none` = a name that cannot be resolved) -/
abbrev PElem := List Decl × (Prologue → Option WOp)

def PRun.step (c : Cfg) (T : Tables) (r : PRun) (e : PElem) : PRun :=
  let pro := e.1.foldl (Prologue.declare T) r.pro
  match e.2 pro with
  | some op => { run := r.run.stepW c op, pro := pro }
  | none => { run := { r.run with failed := true }, pro := pro }

def runPRequest (c : Cfg) (T : Tables) (es : List PElem) (r : PRun) : PRun :=
  es.foldl (PRun.step c T) r

end RV.C10
