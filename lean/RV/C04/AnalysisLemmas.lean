import RV.C04.Lemmas
import RV.C04.Analysis
/-
  C04 round g — facts about the model of rdflib's analysis passes (`Analysis.lean`):
  the annotations are invisible to the specification and to `must` / `may`; `_addVars` is an upper bound of the
  may-bind set on VALUES-free patterns (and is not on VALUES: K2; and is no must-bind set: K1); on a VALUES-free tree
  annotated by the analysis the "bound but not listed" half of `Safe` always holds.
-/
namespace RV.C04
open Spec Model
variable {n : Nat}

/-! ### re-annotating changes nothing the specification or the bounds look at -/

theorem Alg.must_annotate : ∀ P : Alg, P.annotate.must = P.must
  | .bgp _ => rfl
  | .join _ a b => by simp [Alg.annotate, Alg.must, Alg.must_annotate a, Alg.must_annotate b]
  | .union a b => by simp [Alg.annotate, Alg.must, Alg.must_annotate a, Alg.must_annotate b]
  | .leftJoin a _ _ _ _ => by simp [Alg.annotate, Alg.must, Alg.must_annotate a]
  | .filter _ p _ _ => by simp [Alg.annotate, Alg.must, Alg.must_annotate p]
  | .extend p _ _ _ => by simp [Alg.annotate, Alg.must, Alg.must_annotate p]
  | .minus a _ _ _ => by simp [Alg.annotate, Alg.must, Alg.must_annotate a]
  | .graph _ p => by simp [Alg.annotate, Alg.must, Alg.must_annotate p]
  | .values _ _ => rfl
  | .project p _ => by simp [Alg.annotate, Alg.must, Alg.must_annotate p]

theorem Alg.may_annotate : ∀ P : Alg, P.annotate.may = P.may
  | .bgp _ => rfl
  | .join _ a b => by simp [Alg.annotate, Alg.may, Alg.may_annotate a, Alg.may_annotate b]
  | .union a b => by simp [Alg.annotate, Alg.may, Alg.may_annotate a, Alg.may_annotate b]
  | .leftJoin a b _ _ _ => by simp [Alg.annotate, Alg.may, Alg.may_annotate a, Alg.may_annotate b]
  | .filter _ p _ _ => by simp [Alg.annotate, Alg.may, Alg.may_annotate p]
  | .extend p _ _ _ => by simp [Alg.annotate, Alg.may, Alg.may_annotate p]
  | .minus a _ _ _ => by simp [Alg.annotate, Alg.may, Alg.may_annotate a]
  | .graph _ p => by simp [Alg.annotate, Alg.may, Alg.may_annotate p]
  | .values _ _ => rfl
  | .project p _ => by simp [Alg.annotate, Alg.may, Alg.may_annotate p]

theorem Alg.allVars_annotate : ∀ P : Alg, P.annotate.allVars = P.allVars
  | .bgp _ => rfl
  | .join _ a b => by simp [Alg.annotate, Alg.allVars, Alg.allVars_annotate a, Alg.allVars_annotate b]
  | .union a b => by simp [Alg.annotate, Alg.allVars, Alg.allVars_annotate a, Alg.allVars_annotate b]
  | .leftJoin a b _ _ _ => by simp [Alg.annotate, Alg.allVars, Alg.allVars_annotate a, Alg.allVars_annotate b]
  | .filter _ p _ _ => by simp [Alg.annotate, Alg.allVars, Alg.allVars_annotate p]
  | .extend p _ _ _ => by simp [Alg.annotate, Alg.allVars, Alg.allVars_annotate p]
  | .minus a b _ _ => by simp [Alg.annotate, Alg.allVars, Alg.allVars_annotate a, Alg.allVars_annotate b]
  | .graph _ p => by simp [Alg.annotate, Alg.allVars, Alg.allVars_annotate p]
  | .values _ _ => rfl
  | .project p _ => by simp [Alg.annotate, Alg.allVars, Alg.allVars_annotate p]

theorem Alg.addVars_annotate : ∀ P : Alg, P.annotate.addVars = P.addVars
  | .bgp _ => rfl
  | .join _ a b => by simp [Alg.annotate, Alg.addVars, Alg.addVars_annotate a, Alg.addVars_annotate b]
  | .union a b => by simp [Alg.annotate, Alg.addVars, Alg.addVars_annotate a, Alg.addVars_annotate b]
  | .leftJoin a b _ _ _ => by simp [Alg.annotate, Alg.addVars, Alg.addVars_annotate a, Alg.addVars_annotate b]
  | .filter _ p _ _ => by simp [Alg.annotate, Alg.addVars, Alg.addVars_annotate p]
  | .extend p _ _ _ => by simp [Alg.annotate, Alg.addVars, Alg.addVars_annotate p]
  | .minus a _ _ _ => by simp [Alg.annotate, Alg.addVars, Alg.addVars_annotate a]
  | .graph _ p => by simp [Alg.annotate, Alg.addVars, Alg.addVars_annotate p]
  | .values _ _ => rfl
  | .project p _ => by simp [Alg.annotate, Alg.addVars, Alg.addVars_annotate p]

theorem Alg.analyse_annotate : ∀ P : Alg, P.annotate.analyse = P.analyse
  | .bgp _ => rfl
  | .join _ _ _ => rfl
  | .union a b => by simp [Alg.annotate, Alg.analyse, Alg.analyse_annotate a, Alg.analyse_annotate b]
  | .leftJoin a b _ _ _ => by simp [Alg.annotate, Alg.analyse, Alg.analyse_annotate a, Alg.analyse_annotate b]
  | .filter _ p _ _ => by simp [Alg.annotate, Alg.analyse, Alg.analyse_annotate p]
  | .extend p _ _ _ => by simp [Alg.annotate, Alg.analyse, Alg.analyse_annotate p]
  | .minus a b _ _ => by simp [Alg.annotate, Alg.analyse, Alg.analyse_annotate a, Alg.analyse_annotate b]
  | .graph _ p => by simp [Alg.annotate, Alg.analyse, Alg.analyse_annotate p]
  | .values _ _ => rfl
  | .project p _ => by simp [Alg.annotate, Alg.analyse, Alg.analyse_annotate p]

/-- running the analysis twice changes nothing -/
theorem Alg.annotate_idem : ∀ P : Alg, P.annotate.annotate = P.annotate
  | .bgp _ => rfl
  | .join _ a b => by
    simp [Alg.annotate, Alg.annotate_idem a, Alg.annotate_idem b, Alg.analyse_annotate a, Alg.analyse_annotate b]
  | .union a b => by simp [Alg.annotate, Alg.annotate_idem a, Alg.annotate_idem b]
  | .leftJoin a b _ _ _ => by
    simp [Alg.annotate, Alg.annotate_idem a, Alg.annotate_idem b, Alg.addVars_annotate a, Alg.addVars_annotate b]
  | .filter _ p _ _ => by simp [Alg.annotate, Alg.annotate_idem p, Alg.addVars_annotate p]
  | .extend p _ _ _ => by simp [Alg.annotate, Alg.annotate_idem p, Alg.addVars_annotate p]
  | .minus a b _ _ => by
    simp [Alg.annotate, Alg.annotate_idem a, Alg.annotate_idem b, Alg.addVars_annotate a, Alg.addVars_annotate b]
  | .graph _ p => by simp [Alg.annotate, Alg.annotate_idem p]
  | .values _ _ => rfl
  | .project p _ => by simp [Alg.annotate, Alg.annotate_idem p]

/-- the specification does not look at the annotations -/
theorem specEval_annotate {D : Dataset} : ∀ (P : Alg) (g : Graph) (σ : Row n),
    Spec.eval D g σ P.annotate = Spec.eval D g σ P
  | .bgp _, _, _ => rfl
  | .join _ a b, g, σ => by simp only [Alg.annotate, Spec.eval, specEval_annotate a, specEval_annotate b]
  | .union a b, g, σ => by simp only [Alg.annotate, Spec.eval, specEval_annotate a, specEval_annotate b]
  | .leftJoin a b _ _ _, g, σ => by simp only [Alg.annotate, Spec.eval, specEval_annotate a, specEval_annotate b]
  | .filter _ p _ _, g, σ => by simp only [Alg.annotate, Spec.eval, specEval_annotate p]
  | .extend p _ _ _, g, σ => by simp only [Alg.annotate, Spec.eval, specEval_annotate p]
  | .minus a b _ _, g, σ => by simp only [Alg.annotate, Spec.eval, specEval_annotate a, specEval_annotate b]
  | .graph gp p, g, σ => by simp only [Alg.annotate, Spec.eval, specEval_annotate p]
  | .values _ _, _, _ => rfl
  | .project p _, g, σ => by simp only [Alg.annotate, Spec.eval, specEval_annotate p]

/-! ### `_addVars` as a may-bind analysis -/

/-- on a VALUES-free pattern every variable that some solution may bind is in the set `_addVars` computes -/
theorem Alg.may_subset_addVars : ∀ P : Alg, P.valuesFree = true → ∀ v ∈ P.may, v ∈ P.addVars
  | .bgp _, _, v, hv => hv
  | .join _ a b, h, v, hv => by
    simp only [Alg.valuesFree, Bool.and_eq_true] at h
    simp only [Alg.may, List.mem_append] at hv
    simp only [Alg.addVars, List.mem_append]
    exact hv.imp (Alg.may_subset_addVars a h.1 v) (Alg.may_subset_addVars b h.2 v)
  | .union a b, h, v, hv => by
    simp only [Alg.valuesFree, Bool.and_eq_true] at h
    simp only [Alg.may, List.mem_append] at hv
    simp only [Alg.addVars, List.mem_append]
    exact hv.imp (Alg.may_subset_addVars a h.1 v) (Alg.may_subset_addVars b h.2 v)
  | .leftJoin a b _ _ _, h, v, hv => by
    simp only [Alg.valuesFree, Bool.and_eq_true] at h
    simp only [Alg.may, List.mem_append] at hv
    simp only [Alg.addVars, List.mem_append]
    exact hv.imp (Alg.may_subset_addVars a h.1 v) (Alg.may_subset_addVars b h.2 v)
  | .filter _ p _ _, h, v, hv => by
    simp only [Alg.valuesFree] at h
    exact Alg.may_subset_addVars p h v hv
  | .extend p w _ _, h, v, hv => by
    simp only [Alg.valuesFree] at h
    simp only [Alg.may, List.mem_cons] at hv
    simp only [Alg.addVars, List.mem_append, List.mem_singleton]
    exact hv.symm.imp (Alg.may_subset_addVars p h v) id
  | .minus a _ _ _, h, v, hv => by
    simp only [Alg.valuesFree, Bool.and_eq_true] at h
    exact Alg.may_subset_addVars a h.1 v hv
  | .graph gp p, h, v, hv => by
    simp only [Alg.valuesFree] at h
    simp only [Alg.may, List.mem_append] at hv
    simp only [Alg.addVars, List.mem_append]
    exact hv.imp id (Alg.may_subset_addVars p h v)
  | .values _ _, h, _, _ => by simp [Alg.valuesFree] at h
  | .project p pv, h, v, hv => by
    simp only [Alg.valuesFree] at h
    simp only [Alg.may, List.mem_filter, List.contains_eq_mem, decide_eq_true_eq] at hv
    simp only [Alg.addVars, List.mem_append]
    exact Or.inr hv.2

/-! ### on a VALUES-free tree annotated by the analysis, only the must-bind half of `Safe` is left

  `Alg.mustOK P ctx`: at every FILTER / BIND / MINUS / OPTIONAL node, a relevant variable that the context may bind and
  that is listed in the `_vars` computed by `_addVars` is bound by EVERY solution of the sub-pattern (the K1 question). -/

def mustScope (ctx rel ann must : List Nat) : Bool :=
  rel.all fun i => !(ctx.contains i) || !(ann.contains i) || must.contains i

def Alg.mustOK : Alg → List Nat → Bool
  | .bgp _, _ => true
  | .join _ a b, ctx => a.mustOK ctx && b.mustOK (if a.analyse && b.analyse then ctx ++ a.may else ctx)
  | .union a b, ctx => a.mustOK ctx && b.mustOK ctx
  | .filter e p _ noIso, ctx => p.mustOK ctx && e.safe && !noIso && mustScope ctx e.vars p.addVars p.must
  | .extend p v e _, ctx =>
    p.mustOK ctx && e.safe && !(p.may.contains v) && !(e.vars.contains v) &&
      mustScope ctx e.vars (p.addVars ++ [v]) p.must
  | .values _ _, _ => true
  | .project p _, _ => p.mustOK []
  | .graph _ p, ctx => p.mustOK ctx
  | .minus a b _ _, ctx => a.mustOK ctx && b.mustOK [] && mustScope ctx b.may a.addVars a.must
  | .leftJoin a b e _ _, ctx =>
    a.mustOK ctx && b.mustOK (ctx ++ a.may) && e.safe &&
    mustScope ctx e.vars (a.addVars ++ b.addVars) (a.must ++ b.must) &&
    mustScope ctx (b.may ++ e.vars) a.addVars a.must

theorem scopeForget_of_must {ctx rel ann must may : List Nat} (hm : mustScope ctx rel ann must = true)
    (hsub : ∀ v ∈ may, v ∈ ann) : scopeForget ctx rel ann must may = true := by
  simp only [mustScope, List.all_eq_true, Bool.or_eq_true, Bool.not_eq_eq_eq_not, Bool.not_true,
    List.contains_eq_mem, decide_eq_true_eq, decide_eq_false_iff_not] at hm
  simp only [scopeForget, List.all_eq_true, Bool.and_eq_true, Bool.or_eq_true, Bool.not_eq_eq_eq_not,
    Bool.not_true, List.contains_eq_mem, decide_eq_true_eq, decide_eq_false_iff_not]
  intro i hi
  rcases hm i hi with (h | h) | h
  · exact Or.inl h
  · right
    refine ⟨Or.inl h, ?_⟩
    by_cases hmay : i ∈ may
    · exact Or.inr (hsub i hmay)
    · exact Or.inl hmay
  · right
    refine ⟨Or.inr h, ?_⟩
    by_cases hmay : i ∈ may
    · exact Or.inr (hsub i hmay)
    · exact Or.inl hmay

theorem scopeRemember_of_must {ctx rel ann must may : List Nat} (hm : mustScope ctx rel ann must = true)
    (hsub : ∀ v ∈ may, v ∈ ann) : scopeRemember ctx rel ann must may = true := by
  simp only [mustScope, List.all_eq_true, Bool.or_eq_true, Bool.not_eq_eq_eq_not, Bool.not_true,
    List.contains_eq_mem, decide_eq_true_eq, decide_eq_false_iff_not] at hm
  simp only [scopeRemember, List.all_eq_true, Bool.and_eq_true, Bool.or_eq_true, Bool.not_eq_eq_eq_not,
    Bool.not_true, List.contains_eq_mem, decide_eq_true_eq, decide_eq_false_iff_not]
  intro i hi
  refine ⟨?_, hm i hi⟩
  by_cases hmay : i ∈ may
  · exact Or.inr (hsub i hmay)
  · exact Or.inl hmay

/-- for VALUES-free patterns the tree annotated by rdflib's analysis is `safeIn ctx` as soon as the must-bind
    question has the right answer everywhere: `_addVars` never under-approximates there -/
theorem Alg.safeIn_annotate_of_mustOK : ∀ (P : Alg) (ctx : List Nat), P.valuesFree = true → P.mustOK ctx = true →
    P.annotate.safeIn ctx = true
  | .bgp _, _, _, _ => rfl
  | .join _ a b, ctx, hv, hm => by
    simp only [Alg.valuesFree, Bool.and_eq_true] at hv
    simp only [Alg.mustOK, Bool.and_eq_true] at hm
    simp only [Alg.annotate, Alg.safeIn, Bool.and_eq_true, Alg.may_annotate]
    exact ⟨Alg.safeIn_annotate_of_mustOK a ctx hv.1 hm.1, Alg.safeIn_annotate_of_mustOK b _ hv.2 hm.2⟩
  | .union a b, ctx, hv, hm => by
    simp only [Alg.valuesFree, Bool.and_eq_true] at hv
    simp only [Alg.mustOK, Bool.and_eq_true] at hm
    simp only [Alg.annotate, Alg.safeIn, Bool.and_eq_true]
    exact ⟨Alg.safeIn_annotate_of_mustOK a ctx hv.1 hm.1, Alg.safeIn_annotate_of_mustOK b ctx hv.2 hm.2⟩
  | .filter e p _ noIso, ctx, hv, hm => by
    simp only [Alg.valuesFree] at hv
    simp only [Alg.mustOK, Bool.and_eq_true] at hm
    obtain ⟨⟨⟨hp, he⟩, hn⟩, hs⟩ := hm
    simp only [Alg.annotate, Alg.safeIn, Bool.and_eq_true, Alg.may_annotate, Alg.must_annotate]
    exact ⟨⟨⟨Alg.safeIn_annotate_of_mustOK p ctx hv hp, he⟩, hn⟩,
      scopeForget_of_must hs (Alg.may_subset_addVars p hv)⟩
  | .extend p w e _, ctx, hv, hm => by
    simp only [Alg.valuesFree] at hv
    simp only [Alg.mustOK, Bool.and_eq_true] at hm
    obtain ⟨⟨⟨⟨hp, he⟩, h1⟩, h2⟩, hs⟩ := hm
    simp only [Alg.annotate, Alg.safeIn, Bool.and_eq_true, Alg.may_annotate, Alg.must_annotate]
    exact ⟨⟨⟨⟨Alg.safeIn_annotate_of_mustOK p ctx hv hp, he⟩, h1⟩, h2⟩,
      scopeForget_of_must hs (fun v hvm => List.mem_append.mpr (Or.inl (Alg.may_subset_addVars p hv v hvm)))⟩
  | .values _ _, _, hv, _ => by simp [Alg.valuesFree] at hv
  | .project p _, _, hv, hm => by
    simp only [Alg.valuesFree] at hv
    simp only [Alg.mustOK] at hm
    simp only [Alg.annotate, Alg.safeIn]
    exact Alg.safeIn_annotate_of_mustOK p [] hv hm
  | .graph _ p, ctx, hv, hm => by
    simp only [Alg.valuesFree] at hv
    simp only [Alg.mustOK] at hm
    simp only [Alg.annotate, Alg.safeIn]
    exact Alg.safeIn_annotate_of_mustOK p ctx hv hm
  | .minus a b _ _, ctx, hv, hm => by
    simp only [Alg.valuesFree, Bool.and_eq_true] at hv
    simp only [Alg.mustOK, Bool.and_eq_true] at hm
    obtain ⟨⟨ha, hb⟩, hs⟩ := hm
    simp only [Alg.annotate, Alg.safeIn, Bool.and_eq_true, Alg.may_annotate, Alg.must_annotate]
    refine ⟨⟨⟨Alg.safeIn_annotate_of_mustOK a ctx hv.1 ha, Alg.safeIn_annotate_of_mustOK b [] hv.2 hb⟩,
      scopeRemember_of_must hs (Alg.may_subset_addVars a hv.1)⟩, ?_⟩
    simp only [List.all_eq_true, List.contains_eq_mem, decide_eq_true_eq]
    exact Alg.may_subset_addVars b hv.2
  | .leftJoin a b e _ _, ctx, hv, hm => by
    simp only [Alg.valuesFree, Bool.and_eq_true] at hv
    simp only [Alg.mustOK, Bool.and_eq_true] at hm
    obtain ⟨⟨⟨⟨ha, hb⟩, he⟩, hs1⟩, hs2⟩ := hm
    simp only [Alg.annotate, Alg.safeIn, Bool.and_eq_true, Alg.may_annotate, Alg.must_annotate, ownVars]
    refine ⟨⟨⟨⟨Alg.safeIn_annotate_of_mustOK a ctx hv.1 ha, Alg.safeIn_annotate_of_mustOK b _ hv.2 hb⟩, he⟩,
      scopeForget_of_must hs1 ?_⟩, scopeRemember_of_must hs2 (Alg.may_subset_addVars a hv.1)⟩
    intro v hvm
    simp only [List.mem_append] at hvm ⊢
    exact hvm.imp (Alg.may_subset_addVars a hv.1 v) (Alg.may_subset_addVars b hv.2 v)

end RV.C04

namespace RV.C04
open Spec Model
variable {n : Nat}

/-! ### the lazy flags only matter for speed — wherever `safeIn` holds -/

theorem scopeForget_mono {ctx ctx' rel ann must may : List Nat} (hsub : ∀ v ∈ ctx', v ∈ ctx)
    (h : scopeForget ctx rel ann must may = true) : scopeForget ctx' rel ann must may = true := by
  simp only [scopeForget, List.all_eq_true, Bool.or_eq_true, Bool.not_eq_eq_eq_not, Bool.not_true,
    List.contains_eq_mem, decide_eq_false_iff_not] at h ⊢
  intro i hi
  rcases h i hi with h1 | h1
  · exact Or.inl (fun hc => h1 (hsub i hc))
  · exact Or.inr h1

theorem scopeRemember_mono {ctx ctx' rel ann must may : List Nat} (hsub : ∀ v ∈ ctx', v ∈ ctx)
    (h : scopeRemember ctx rel ann must may = true) : scopeRemember ctx' rel ann must may = true := by
  simp only [scopeRemember, List.all_eq_true, Bool.and_eq_true, Bool.or_eq_true, Bool.not_eq_eq_eq_not, Bool.not_true,
    List.contains_eq_mem, decide_eq_false_iff_not] at h ⊢
  intro i hi
  obtain ⟨h2, h1⟩ := h i hi
  refine ⟨h2, ?_⟩
  rcases h1 with (h1 | h1) | h1
  · exact Or.inl (Or.inl (fun hc => h1 (hsub i hc)))
  · exact Or.inl (Or.inr h1)
  · exact Or.inr h1

/-- a smaller context is easier: `safeIn` is antitone in `ctx` -/
theorem Alg.safeIn_mono : ∀ (P : Alg) (ctx ctx' : List Nat), (∀ v ∈ ctx', v ∈ ctx) → P.safeIn ctx = true →
    P.safeIn ctx' = true
  | .bgp _, _, _, _, _ => rfl
  | .join lz a b, ctx, ctx', hsub, h => by
    simp only [Alg.safeIn, Bool.and_eq_true] at h ⊢
    refine ⟨Alg.safeIn_mono a ctx ctx' hsub h.1, Alg.safeIn_mono b _ _ ?_ h.2⟩
    cases lz
    · simpa using hsub
    · intro v hv
      simp only [if_true, List.mem_append] at hv ⊢
      exact hv.imp (hsub v) id
  | .union a b, ctx, ctx', hsub, h => by
    simp only [Alg.safeIn, Bool.and_eq_true] at h ⊢
    exact ⟨Alg.safeIn_mono a ctx ctx' hsub h.1, Alg.safeIn_mono b ctx ctx' hsub h.2⟩
  | .filter e p vars noIso, ctx, ctx', hsub, h => by
    simp only [Alg.safeIn, Bool.and_eq_true] at h ⊢
    obtain ⟨⟨⟨hp, he⟩, hn⟩, hs⟩ := h
    exact ⟨⟨⟨Alg.safeIn_mono p ctx ctx' hsub hp, he⟩, hn⟩, scopeForget_mono hsub hs⟩
  | .extend p v e vars, ctx, ctx', hsub, h => by
    simp only [Alg.safeIn, Bool.and_eq_true] at h ⊢
    obtain ⟨⟨⟨⟨hp, he⟩, h1⟩, h2⟩, hs⟩ := h
    exact ⟨⟨⟨⟨Alg.safeIn_mono p ctx ctx' hsub hp, he⟩, h1⟩, h2⟩, scopeForget_mono hsub hs⟩
  | .values _ _, _, _, _, _ => rfl
  | .project p _, _, _, _, h => by
    simp only [Alg.safeIn] at h ⊢
    exact h
  | .graph _ p, ctx, ctx', hsub, h => by
    simp only [Alg.safeIn] at h ⊢
    exact Alg.safeIn_mono p ctx ctx' hsub h
  | .minus a b p1vars p2vars, ctx, ctx', hsub, h => by
    cases p1vars with
    | none => simp [Alg.safeIn] at h
    | some vs =>
      simp only [Alg.safeIn, Bool.and_eq_true] at h ⊢
      obtain ⟨⟨⟨ha, hb⟩, hs⟩, hp2⟩ := h
      exact ⟨⟨⟨Alg.safeIn_mono a ctx ctx' hsub ha, hb⟩, scopeRemember_mono hsub hs⟩, hp2⟩
  | .leftJoin a b e p1vars p2vars, ctx, ctx', hsub, h => by
    cases p1vars with
    | none => simp [Alg.safeIn] at h
    | some vs =>
      simp only [Alg.safeIn, Bool.and_eq_true] at h ⊢
      obtain ⟨⟨⟨⟨ha, hb⟩, he⟩, hs1⟩, hs2⟩ := h
      refine ⟨⟨⟨⟨Alg.safeIn_mono a ctx ctx' hsub ha, Alg.safeIn_mono b _ _ ?_ hb⟩, he⟩, scopeForget_mono hsub hs1⟩,
        scopeRemember_mono hsub hs2⟩
      intro v hv
      simp only [List.mem_append] at hv ⊢
      exact hv.imp (hsub v) id

theorem Alg.must_strict : ∀ P : Alg, P.strict.must = P.must
  | .bgp _ => rfl
  | .join _ a b => by simp [Alg.strict, Alg.must, Alg.must_strict a, Alg.must_strict b]
  | .union a b => by simp [Alg.strict, Alg.must, Alg.must_strict a, Alg.must_strict b]
  | .leftJoin a _ _ _ _ => by simp [Alg.strict, Alg.must, Alg.must_strict a]
  | .filter _ p _ _ => by simp [Alg.strict, Alg.must, Alg.must_strict p]
  | .extend p _ _ _ => by simp [Alg.strict, Alg.must, Alg.must_strict p]
  | .minus a _ _ _ => by simp [Alg.strict, Alg.must, Alg.must_strict a]
  | .graph _ p => by simp [Alg.strict, Alg.must, Alg.must_strict p]
  | .values _ _ => rfl
  | .project p _ => by simp [Alg.strict, Alg.must, Alg.must_strict p]

theorem Alg.may_strict : ∀ P : Alg, P.strict.may = P.may
  | .bgp _ => rfl
  | .join _ a b => by simp [Alg.strict, Alg.may, Alg.may_strict a, Alg.may_strict b]
  | .union a b => by simp [Alg.strict, Alg.may, Alg.may_strict a, Alg.may_strict b]
  | .leftJoin a b _ _ _ => by simp [Alg.strict, Alg.may, Alg.may_strict a, Alg.may_strict b]
  | .filter _ p _ _ => by simp [Alg.strict, Alg.may, Alg.may_strict p]
  | .extend p _ _ _ => by simp [Alg.strict, Alg.may, Alg.may_strict p]
  | .minus a _ _ _ => by simp [Alg.strict, Alg.may, Alg.may_strict a]
  | .graph _ p => by simp [Alg.strict, Alg.may, Alg.may_strict p]
  | .values _ _ => rfl
  | .project p _ => by simp [Alg.strict, Alg.may, Alg.may_strict p]

theorem Alg.allVars_strict : ∀ P : Alg, P.strict.allVars = P.allVars
  | .bgp _ => rfl
  | .join _ a b => by simp [Alg.strict, Alg.allVars, Alg.allVars_strict a, Alg.allVars_strict b]
  | .union a b => by simp [Alg.strict, Alg.allVars, Alg.allVars_strict a, Alg.allVars_strict b]
  | .leftJoin a b _ _ _ => by simp [Alg.strict, Alg.allVars, Alg.allVars_strict a, Alg.allVars_strict b]
  | .filter _ p _ _ => by simp [Alg.strict, Alg.allVars, Alg.allVars_strict p]
  | .extend p _ _ _ => by simp [Alg.strict, Alg.allVars, Alg.allVars_strict p]
  | .minus a b _ _ => by simp [Alg.strict, Alg.allVars, Alg.allVars_strict a, Alg.allVars_strict b]
  | .graph _ p => by simp [Alg.strict, Alg.allVars, Alg.allVars_strict p]
  | .values _ _ => rfl
  | .project p _ => by simp [Alg.strict, Alg.allVars, Alg.allVars_strict p]

theorem specEval_strict {D : Dataset} : ∀ (P : Alg) (g : Graph) (σ : Row n),
    Spec.eval D g σ P.strict = Spec.eval D g σ P
  | .bgp _, _, _ => rfl
  | .join _ a b, g, σ => by simp only [Alg.strict, Spec.eval, specEval_strict a, specEval_strict b]
  | .union a b, g, σ => by simp only [Alg.strict, Spec.eval, specEval_strict a, specEval_strict b]
  | .leftJoin a b _ _ _, g, σ => by simp only [Alg.strict, Spec.eval, specEval_strict a, specEval_strict b]
  | .filter _ p _ _, g, σ => by simp only [Alg.strict, Spec.eval, specEval_strict p]
  | .extend p _ _ _, g, σ => by simp only [Alg.strict, Spec.eval, specEval_strict p]
  | .minus a b _ _, g, σ => by simp only [Alg.strict, Spec.eval, specEval_strict a, specEval_strict b]
  | .graph gp p, g, σ => by simp only [Alg.strict, Spec.eval, specEval_strict p]
  | .values _ _, _, _ => rfl
  | .project p _, g, σ => by simp only [Alg.strict, Spec.eval, specEval_strict p]

/-- without lazy joins a tree is at least as safe -/
theorem Alg.safeIn_strict : ∀ (P : Alg) (ctx : List Nat), P.safeIn ctx = true → P.strict.safeIn ctx = true
  | .bgp _, _, _ => rfl
  | .join lz a b, ctx, h => by
    simp only [Alg.safeIn, Bool.and_eq_true] at h
    simp only [Alg.strict, Alg.safeIn, Bool.and_eq_true, Bool.false_eq_true, if_false]
    refine ⟨Alg.safeIn_strict a ctx h.1, Alg.safeIn_strict b ctx (Alg.safeIn_mono b _ ctx ?_ h.2)⟩
    cases lz
    · simp
    · intro v hv; simp [hv]
  | .union a b, ctx, h => by
    simp only [Alg.safeIn, Bool.and_eq_true] at h
    simp only [Alg.strict, Alg.safeIn, Bool.and_eq_true]
    exact ⟨Alg.safeIn_strict a ctx h.1, Alg.safeIn_strict b ctx h.2⟩
  | .filter e p vars noIso, ctx, h => by
    simp only [Alg.safeIn, Bool.and_eq_true] at h
    obtain ⟨⟨⟨hp, he⟩, hn⟩, hs⟩ := h
    simp only [Alg.strict, Alg.safeIn, Bool.and_eq_true, Alg.must_strict, Alg.may_strict]
    exact ⟨⟨⟨Alg.safeIn_strict p ctx hp, he⟩, hn⟩, hs⟩
  | .extend p v e vars, ctx, h => by
    simp only [Alg.safeIn, Bool.and_eq_true] at h
    obtain ⟨⟨⟨⟨hp, he⟩, h1⟩, h2⟩, hs⟩ := h
    simp only [Alg.strict, Alg.safeIn, Bool.and_eq_true, Alg.must_strict, Alg.may_strict]
    exact ⟨⟨⟨⟨Alg.safeIn_strict p ctx hp, he⟩, h1⟩, h2⟩, hs⟩
  | .values _ _, _, _ => rfl
  | .project p _, _, h => by
    simp only [Alg.safeIn] at h
    simp only [Alg.strict, Alg.safeIn]
    exact Alg.safeIn_strict p [] h
  | .graph _ p, ctx, h => by
    simp only [Alg.safeIn] at h
    simp only [Alg.strict, Alg.safeIn]
    exact Alg.safeIn_strict p ctx h
  | .minus a b p1vars p2vars, ctx, h => by
    cases p1vars with
    | none => simp [Alg.safeIn] at h
    | some vs =>
      simp only [Alg.safeIn, Bool.and_eq_true] at h
      obtain ⟨⟨⟨ha, hb⟩, hs⟩, hp2⟩ := h
      simp only [Alg.strict, Alg.safeIn, Bool.and_eq_true, Alg.must_strict, Alg.may_strict]
      exact ⟨⟨⟨Alg.safeIn_strict a ctx ha, Alg.safeIn_strict b [] hb⟩, hs⟩, hp2⟩
  | .leftJoin a b e p1vars p2vars, ctx, h => by
    cases p1vars with
    | none => simp [Alg.safeIn] at h
    | some vs =>
      simp only [Alg.safeIn, Bool.and_eq_true] at h
      obtain ⟨⟨⟨⟨ha, hb⟩, he⟩, hs1⟩, hs2⟩ := h
      simp only [Alg.strict, Alg.safeIn, Bool.and_eq_true, Alg.must_strict, Alg.may_strict]
      exact ⟨⟨⟨⟨Alg.safeIn_strict a ctx ha, Alg.safeIn_strict b _ hb⟩, he⟩, hs1⟩, hs2⟩

end RV.C04
